// c12: observations for "comment rules report the matched span and its named groups precisely; first accepting
// comment rule wins".
// A rules file with MatchComment rules is run over THREE generated files that share one token.FileSet (so the second and
// third file have a base > 1) and one RunnerState; every comment sits at an offset known by construction.
// Rule classes: named groups in every spelling Go accepts (`(?P<n>`, `(?<n>`, both in one pattern, nested, optional),
// unnamed groups in front, non-participating alternatives, no groups (fast path), multi-byte, (?s) multi-line,
// Where() expressions (Text == / != literal, Text == Text of another group, Text.Matches, `$$`, !, &&, ||), At(),
// Suggest() (also one that renders to the empty string), two alternatives, and FAMILIES of rules that all match the same
// comments, bind the same group names to different pieces of the comment and mostly reject through their filters
// (what an earlier, rejected rule matched must never reach a later rule), and MatchComment calls with SEVERAL regexps:
// every regexp of such a call is a comment rule of its own, tried in the written order, with its own group numbering --
// the alternatives bind the same names at different group indices (unnamed groups in front, the shared name second,
// optional), comments are hit by every single alternative and by every ordered pair of alternatives (the later-written
// one further left), filters reject the first alternative's hit so that a later alternative has to report.
// Further filters: Line (variable against variable, against a constant) and Node.Is on comment captures.
// The harness also dumps what the engine LOADED (hook VerifCommentRules): one comment rule per written regexp, in order.
// For every comment: the submatch indices regexp returns on comment.Text (the model's regexp oracle) and on the
// comment's SOURCE bytes (the property's oracle), the observed report(s) and the expected report.
package main

import (
	"encoding/json"
	"flag"
	"fmt"
	"go/ast"
	"go/importer"
	"go/parser"
	"go/token"
	"go/types"
	"math/rand"
	"os"
	"path/filepath"
	"regexp"
	"regexp/syntax"
	"strconv"
	"strings"
	"time"

	"verif/harness/internal/hutil"

	"github.com/quasilyte/go-ruleguard/ruleguard"
)

// flt is a Where() expression over comment captures.
type flt struct {
	Op  string `json:"op"` // eq ne eqvar nevar matches lineeq linene linelt linegt nodeis not and or
	Var string `json:"var,omitempty"`
	Lit string `json:"lit,omitempty"` // literal / second variable / pattern / node tag
	N   int    `json:"n,omitempty"`   // linegt: the constant
	A   *flt   `json:"a,omitempty"`
	B   *flt   `json:"b,omitempty"`
}

func (f *flt) dsl() string {
	switch f.Op {
	case "eq":
		return fmt.Sprintf("m[%q].Text == %q", f.Var, f.Lit)
	case "ne":
		return fmt.Sprintf("m[%q].Text != %q", f.Var, f.Lit)
	case "eqvar":
		return fmt.Sprintf("m[%q].Text == m[%q].Text", f.Var, f.Lit)
	case "nevar":
		return fmt.Sprintf("m[%q].Text != m[%q].Text", f.Var, f.Lit)
	case "matches":
		return fmt.Sprintf("m[%q].Text.Matches(`%s`)", f.Var, f.Lit)
	case "lineeq":
		return fmt.Sprintf("m[%q].Line == m[%q].Line", f.Var, f.Lit)
	case "linene":
		return fmt.Sprintf("m[%q].Line != m[%q].Line", f.Var, f.Lit)
	case "linelt":
		return fmt.Sprintf("m[%q].Line < m[%q].Line", f.Var, f.Lit)
	case "linegt":
		return fmt.Sprintf("m[%q].Line > %d", f.Var, f.N)
	case "nodeis":
		return fmt.Sprintf("m[%q].Node.Is(`%s`)", f.Var, f.Lit)
	case "not":
		return "!(" + f.A.dsl() + ")"
	case "and":
		return "(" + f.A.dsl() + " && " + f.B.dsl() + ")"
	case "or":
		return "(" + f.A.dsl() + " || " + f.B.dsl() + ")"
	}
	panic("bad filter op " + f.Op)
}

// eval: the property's reading of the filter -- every variable stands for the text of its group ("" when the group did
// not participate), `$$` for the matched text; Matches is Go's regexp; the Line of a variable is the line of the file on
// which its submatch begins (the comment's first line for a group that did not participate); a piece of a comment is a
// node, but neither an expression nor any particular syntax node.
func (f *flt) eval(text func(string) []byte, line func(string) int) bool {
	switch f.Op {
	case "lineeq":
		return line(f.Var) == line(f.Lit)
	case "linene":
		return line(f.Var) != line(f.Lit)
	case "linelt":
		return line(f.Var) < line(f.Lit)
	case "linegt":
		return line(f.Var) > f.N
	case "nodeis":
		return f.Lit == "Node"
	case "eq":
		return string(text(f.Var)) == f.Lit
	case "ne":
		return string(text(f.Var)) != f.Lit
	case "eqvar":
		return string(text(f.Var)) == string(text(f.Lit))
	case "nevar":
		return string(text(f.Var)) != string(text(f.Lit))
	case "matches":
		return regexp.MustCompile(f.Lit).Match(text(f.Var))
	case "not":
		return !f.A.eval(text, line)
	case "and":
		return f.A.eval(text, line) && f.B.eval(text, line)
	case "or":
		return f.A.eval(text, line) || f.B.eval(text, line)
	}
	panic("bad filter op " + f.Op)
}

// matchesNodes lists the (variable, pattern) pairs of the Matches leaves.
func (f *flt) matchesNodes(acc *[][2]string) {
	if f == nil {
		return
	}
	if f.Op == "matches" {
		*acc = append(*acc, [2]string{f.Var, f.Lit})
	}
	f.A.matchesNodes(acc)
	f.B.matchesNodes(acc)
}

type ruleSpec struct {
	Pat    string   `json:"pat"`
	Names  []string `json:"names"`  // regexp.SubexpNames()
	Groups bool     `json:"groups"` // regexpHasCaptureGroups (hook)
	NumSub int      `json:"numsub"` // regexp.NumSubexp()
	Filter *flt     `json:"filter"`
	Msg    string   `json:"msg"`
	Sugg   string   `json:"sugg"`
	At     string   `json:"at"`
	Line   int      `json:"line"`
	Group  string   `json:"group"`
	RFile  int      `json:"rfile"` // which of the rules files the call stands in
	// the empty-width operators of the pattern; whether its top level begins / ends with a repetition of "anything"
	Asserts []string `json:"asserts"`
	AnyEnds bool     `json:"anyends"`
	re      *regexp.Regexp
}

type report struct {
	Pos      int    `json:"pos"`
	End      int    `json:"end"`
	Msg      []byte `json:"msg"`
	HasSugg  bool   `json:"has_sugg"`
	SuggFrom int    `json:"sugg_from"`
	SuggTo   int    `json:"sugg_to"`
	Sugg     []byte `json:"sugg"`
	Line     int    `json:"line"`
	Group    string `json:"group"`
	Rule     int    `json:"rule"` // index into the flattened rule list (expected side only)
}

type matchVerdict struct {
	Pat  []byte `json:"pat"`
	Text []byte `json:"text"`
	Ok   bool   `json:"ok"`
}

type commentObs struct {
	K      string         `json:"k"`
	L      int            `json:"L"`
	File   int            `json:"file"`
	Step   int            `json:"step"` // which run of the runner state's history (per TruncateLen)
	Prev   int            `json:"prev"` // the file of the run just before (-1: none)
	Off    int            `json:"off"`
	Src    []byte         `json:"src"`  // the comment's bytes in the file
	Text   []byte         `json:"text"` // ast.Comment.Text
	HasCR  bool           `json:"has_cr"`
	CutL   int            `json:"cut_l"` // rules with assertions that would match (earlier) if the search began at a later position
	CutR   int            `json:"cut_r"` // ... if the search did not see the end of the text
	Idx    [][]int        `json:"idx"`     // per rule: FindStringSubmatchIndex(comment.Text) or null
	IdxSrc [][]int        `json:"idx_src"` // per rule: FindSubmatchIndex(source bytes) or null
	MT     []matchVerdict `json:"mt"`      // regexp verdicts a Text.Matches filter may need on this comment
	Obs    []report       `json:"obs"`
	Want   *report        `json:"want"`
	Panic  string         `json:"panic,omitempty"`
}

func truncSpec(s []byte, l int) []byte {
	e := l
	if e == 0 {
		e = 60
	}
	if len(s) <= e {
		return s
	}
	if e < 5 {
		if e < 0 {
			e = 0
		}
		return s[:e]
	}
	m := e - 5
	lft := m / 2
	rgt := m - lft
	out := append([]byte{}, s[:lft]...)
	out = append(out, "<...>"...)
	return append(out, s[len(s)-rgt:]...)
}

type capText struct {
	name string
	text []byte
}

func interpSpec(msg string, caps []capText, whole []byte, trunc bool, l int) []byte {
	var out []byte
	show := func(t []byte) []byte {
		if trunc {
			return truncSpec(t, l)
		}
		return t
	}
	for i := 0; i < len(msg); {
		if msg[i] != '$' {
			out = append(out, msg[i])
			i++
			continue
		}
		rest := msg[i+1:]
		if strings.HasPrefix(rest, "$") {
			out = append(out, show(whole)...)
			i += 2
			continue
		}
		best := -1
		for k, c := range caps {
			if strings.HasPrefix(rest, c.name) && (best < 0 || len(c.name) > len(caps[best].name)) {
				best = k
			}
		}
		if best < 0 {
			out = append(out, '$')
			i++
			continue
		}
		out = append(out, show(caps[best].text)...)
		i += 1 + len(caps[best].name)
	}
	return out
}

type ruleDef struct {
	pats   []string
	filter *flt
	msg    string
	sugg   string
	at     string
	// a MatchComment call with several regexps: the literal marker each alternative starts its hit with (comments are
	// generated from them), and whether a hit carries a second word (on the same or on the next line)
	markers  []string
	twoWords bool
	// a call without Report(): the message is "suggestion: " + the Suggest template
	noReport bool
	// pieces of comment text the rule is about (put into contexts by inContexts)
	cores []string
}

func eq(v, lit string) *flt       { return &flt{Op: "eq", Var: v, Lit: lit} }
func ne(v, lit string) *flt       { return &flt{Op: "ne", Var: v, Lit: lit} }
func eqvar(v, w string) *flt      { return &flt{Op: "eqvar", Var: v, Lit: w} }
func nevar(v, w string) *flt      { return &flt{Op: "nevar", Var: v, Lit: w} }
func matches(v, pat string) *flt  { return &flt{Op: "matches", Var: v, Lit: pat} }
func lineeq(v, w string) *flt     { return &flt{Op: "lineeq", Var: v, Lit: w} }
func linene(v, w string) *flt     { return &flt{Op: "linene", Var: v, Lit: w} }
func linelt(v, w string) *flt     { return &flt{Op: "linelt", Var: v, Lit: w} }
func linegt(v string, n int) *flt { return &flt{Op: "linegt", Var: v, N: n} }
func nodeis(v, tag string) *flt   { return &flt{Op: "nodeis", Var: v, Lit: tag} }
func not(a *flt) *flt             { return &flt{Op: "not", A: a} }
func and(a, b *flt) *flt          { return &flt{Op: "and", A: a, B: b} }
func or(a, b *flt) *flt           { return &flt{Op: "or", A: a, B: b} }

const tok = `[^\s-]+`

var fixedRules = []ruleDef{
	{pats: []string{`TODO\((?P<who>\w+)\):\s*(?P<what>.*)`}, msg: "todo $who: $what [$$]"},
	{pats: []string{`(?P<key>\w+)=(?P<val>\w*)`}, filter: eq("key", "mode"), msg: "kv $key=$val", sugg: "$val=$key"},
	{pats: []string{`(\w+)=(?P<val>\w*)`}, msg: "anykv $val of $$ ($nope $)", at: "val"},
	{pats: []string{`(?P<a>foo)|(?P<b>bar)`}, msg: "alt a=[$a] b=[$b] $$", sugg: "<$a$b>"},
	{pats: []string{`FIXME`}, msg: "fixme $$", sugg: "TODO"},
	{pats: []string{`x(?P<opt>y)?z`}, msg: "opt=[$opt] in $$"},
	{pats: []string{`((?P<in>a+)b)+c`}, msg: "nested $in|$$|$", sugg: "$in$"},
	{pats: []string{`ø(?P<g>.)`}, msg: "mb $g", at: "g", sugg: "<$g>"},
	{pats: []string{`(?P<n>\d+)-(?P<nn>\d+)`}, msg: "$nn/$n", sugg: "$nn-$n"},
	{pats: []string{`beta\s+(?P<w>\w+)`}, msg: "w=$w", at: "w", sugg: "W"},
	{pats: []string{`(?s)BEGIN(?P<body>.*)END`}, msg: "body=$body"},
	{pats: []string{`alt1:(?P<v>\d)`, `alt2:(?P<v>\d)(?P<rest>\w*)`}, msg: "v=$v"},
	{pats: []string{`(?P<first>\w+) (?P<second>\w+)$`}, filter: eq("second", "end"), msg: "pair $first+$second", at: "first"},
	{pats: []string{`^//\s*(?P<all>.+)$`}, filter: eq("all", "whole line"), msg: "line:$all"},
	// the short spelling of a named group (Go >= 1.22), alone, mixed with the long one, nested, optional, behind an
	// unnamed group, in alternatives
	{pats: []string{`(?<who>\w+) owes (?<amt>\d+)`}, filter: ne("who", "nobody"), msg: "debt $who:$amt [$$]", sugg: "$amt/$who"},
	{pats: []string{`(?P<k>\w+):=(?<val2>\w+)`}, filter: nevar("k", "val2"), msg: "assign $k to $val2", at: "val2", sugg: "$k"},
	{pats: []string{`(?<outer>\[(?<inner>\w+)\])`}, filter: matches("inner", `^[a-z]+$`), msg: "br $outer/$inner"},
	{pats: []string{`q(?<qopt>r)?s`}, msg: "q[$qopt]", sugg: "$qopt"},
	{pats: []string{`(\w+)@(?<host>\w+)`}, filter: or(matches("host", `^h`), eq("host", "there")), msg: "at $host", at: "host"},
	{pats: []string{`(?<s1>one)|(?P<s2>two)|(three)`}, filter: and(eq("s1", ""), matches("$$", `^t`)), msg: "s1=[$s1] s2=[$s2] $$"},
	{pats: []string{`say (?<said>\w*)!`}, filter: not(eq("said", "")), msg: "said $said", sugg: "$said"},
	// a fixed family on the comments `fam0:t1-t2-t3` (all token combinations are generated): every rule matches, binds v
	// (and w) to a different token, and the earlier ones reject unless their token is the right one
	{pats: []string{`fam0:(?P<v>` + tok + `)`}, filter: eq("v", "a"), msg: "fam0#0 v=[$v] w=[$w]"},
	{pats: []string{`fam0:` + tok + `-(?<v>` + tok + `)`}, filter: eq("v", "bb"), msg: "fam0#1 v=[$v] w=[$w] $$", at: "v", sugg: "$v"},
	{pats: []string{`fam0:(?P<w>` + tok + `)-` + tok + `-(?P<v>` + tok + `)`}, filter: eqvar("v", "w"), msg: "fam0#2 v=[$v] w=[$w]", sugg: "$w$v"},
	{pats: []string{`fam0:` + tok + `-` + tok}, filter: matches("$$", `zz$`), msg: "fam0#3 v=[$v] w=[$w]", sugg: "<$v>"},
	{pats: []string{`fam0:(` + tok + `)-(?<w>é)?`}, filter: ne("w", ""), msg: "fam0#4 v=[$v] w=[$w]", at: "w"},
	{pats: []string{`fam0:(?<v>zz)?`}, msg: "fam0#5 v=[$v] w=[$w]", at: "v", sugg: "<$v>"},
	// Line and Node filters on the pieces of a comment: the line of a group is the line of the file its submatch begins on
	{pats: []string{`(?s)L1(?P<la>\w+)\s+(?P<lb>\w+)`}, filter: lineeq("la", "lb"), msg: "L1 same line $la $lb"},
	{pats: []string{`(?s)L1(?P<la>\w+)\s+(?P<lb>\w+)`}, filter: and(linelt("la", "lb"), linene("$$", "lb")), msg: "L1 next line $la $lb", at: "lb"},
	{pats: []string{`(?s)L2(?P<la>\w+)(\s+(?P<lb>\w+))?`}, filter: linegt("lb", 40), msg: "L2 far $la [$lb]"},
	{pats: []string{`(?s)L2(?P<la>\w+)(\s+(?P<lb>\w+))?`}, filter: not(lineeq("$$", "lb")), msg: "L2 near, other line $la [$lb]", sugg: "$lb"},
	{pats: []string{`N1~(?P<nv>\w+)`}, filter: or(nodeis("nv", "Ident"), nodeis("$$", "Expr")), msg: "N1 never"},
	{pats: []string{`N1~(?P<nv>\w+)`}, filter: and(nodeis("nv", "Node"), not(nodeis("nv", "BasicLit"))), msg: "N1 node $nv"},
	// Suggest() without Report(): the message is the suggestion template behind "suggestion: " (truncated there, not in the fix)
	{pats: []string{`S1~(?P<sv>\w+)`}, sugg: "<$sv|$$>", noReport: true},
	// one regexp that names two groups alike (Go accepts it): everywhere -- filter, At(), message, suggestion -- the name is
	// the FIRST group of that name; the second regexp has more than 12 named groups
	{pats: []string{`D1:(?:(?P<d>un)|(?P<d>deux))`}, filter: ne("d", ""), msg: "D1 first d=[$d] $$", at: "d", sugg: "<$d>"},
	{pats: []string{`D1:(?:(?P<d>un)|(?P<d>deux))`}, msg: "D1 other d=[$d] $$", at: "d", sugg: "<$d>"},
	{pats: []string{`D2:(?P<eee>A)(?P<dd>B)(?P<gg>C)(?P<h>D)(?P<ii>E)(?P<jjj>F)(?P<kk>G)(?P<l>H)(?P<mmm>I)(?P<dd>J)(?P<oo>K)(?P<p>L)(?P<qqq>M)(?P<rr>N)`},
		filter: eq("dd", "B"), msg: "D2 dd=$dd eee=$eee $$", at: "dd", sugg: "$dd$rr"},
}

// MatchComment calls with several regexps. Every regexp is a comment rule of its own: the alternatives are tried in the
// written order, each with its own group numbering (`word` is group 1, 2 or optional depending on the alternative).
var fixedAltRules = []ruleDef{
	{pats: []string{`K0a~(?P<word>\w+)`, `K0b~(?P<word>\w+)`}, filter: ne("word", ""), msg: "A0 typo [$word] in [$$]", markers: []string{"K0a", "K0b"}},
	{pats: []string{`(?P<word>K1a~\w*)`, `(\d*)K1b~(?<word>\w+)`, `(?P<aux>K1c)~(?P<word>\w*)`}, msg: "A1 w=[$word] $$", at: "word", sugg: "<$word>",
		markers: []string{"K1a", "K1b", "K1c"}},
	{pats: []string{`K2a~(?P<word>x)?`, `K2b~(?P<word>\w+)`}, filter: eq("word", "lo"), msg: "A2 [$word]", sugg: "$word$word", markers: []string{"K2a", "K2b"}},
	{pats: []string{`K3a~\w+`, `(?P<z>K3b)~\w+`, `K3c~(\w)`}, msg: "A3 plain $$", sugg: "P", markers: []string{"K3a", "K3b", "K3c"}},
	// three calls over the same markers: the same regexps in the other order, other filters
	{pats: []string{`K4a~(?P<word>\w+)`, `K4b~(?P<word>\w+)`}, filter: eq("word", "lo"), msg: "A4 [$word]", markers: []string{"K4a", "K4b"}},
	{pats: []string{`K4b~(?P<word>\w+)`, `K4a~(?P<word>\w+)`}, filter: matches("word", `^h`), msg: "A5 [$word]", at: "word", markers: []string{"K4a", "K4b"}},
	{pats: []string{`K4a~(?P<word>\w*)`}, msg: "A6 rest [$word]", sugg: "$word"},
	// an alternative written twice (it can never match first: its line is nobody's), another alternative after it
	{pats: []string{`K8a~(?P<word>\w+)`, `K8a~(?P<word>\w+)`, `K8b~(?P<word>\w+)`, `K8b~(?P<word>\w+)`, `K8c~(?P<word>\w*)`}, filter: ne("word", "x"), msg: "A8 [$word] $$",
		markers: []string{"K8a", "K8b", "K8c"}},
	// the shared names in the other order, a Line filter between them
	{pats: []string{`(?s)K7a~(?P<word>\w+)\s+(?P<w2>\w+)`, `(?s)K7b~(?P<w2>\w+)\s+(?P<word>\w+)`, `(?s)K7c~(?P<word>\w+)\s+(?P<w2>\w+)`, `K7d~(?P<w2>(?P<word>\w+))`},
		filter: or(linelt("word", "w2"), eq("word", "hum")), msg: "A7 $word/$w2 $$", at: "w2", sugg: "$w2 $word",
		markers: []string{"K7a", "K7b", "K7c", "K7d"}, twoWords: true},
}

// comments that reach every class of a call with several regexps whatever the seed: a later-written alternative reports;
// the first-written alternative reports although a later-written one matches further left; an earlier alternative of the
// call matches and its filter rejects before a later one reports; the next call over the same markers reports
var altFixed = []string{
	"// K0b~hum K0a~lo", "// K0b~w9", "/* K2a~x K2b~lo */", "// K2b~lo K2a~", "// K4a~hum K4b~lo", "// K4b~hum K4a~w9", "// K4a~w9",
	"// K1b~hum K1a~w9", "/* K3c~x K3a~lo */", "// K1c~lo", "// K8b~lo", "/* K8c~hum K8b~x */", "// K8c~w9", "/* K7b~lo\nhum K7a~lo hum */", "/* K7d~hum K7c~x\nxx */",
}

// Regexps with ASSERTIONS (^ $ \A \z \b \B, (?m)): whether and where such a regexp matches depends on what stands to the
// left and to the right of the candidate position -- the regexp has to see the WHOLE comment text. `cores` are pieces of
// text the rule is about; every core is put into a set of contexts (alone, behind other text, in front of other text, in a
// block comment, on a line of its own, twice), so that the literal the regexp starts with also stands at positions where the
// assertion does NOT hold (a search that started there, or stopped early, would accept).
var anchorRules = []ruleDef{
	{pats: []string{`^// AN1(?P<rest>.*)$`}, msg: "AN1 rest=[$rest] $$", sugg: "// DONE$rest", cores: []string{"// AN1 later", "// AN1"}},
	{pats: []string{`^/\* AN2 (?P<x>\w+) \*/$`}, msg: "AN2 $x", at: "x", cores: []string{"/* AN2 lo */"}},
	{pats: []string{`\A// AN3:(?P<r>[a-z ]*)\z`}, filter: ne("r", ""), msg: "AN3 [$r]", sugg: "<$r>", cores: []string{"// AN3:go on", "// AN3:"}},
	{pats: []string{`(?m)^AN4:(?P<v>\w+)$`}, msg: "AN4 $v in $$", at: "v", sugg: "$v", cores: []string{"AN4:lo", "AN4:w9 x"}},
	{pats: []string{`\bAN5(?P<n>\w*)\b`}, msg: "AN5 [$n] $$", sugg: "$n", cores: []string{"AN5", "AN5lo", "xAN5 AN5y"}},
	{pats: []string{`\BAN6(?P<t>\w*)`}, msg: "AN6 [$t]", at: "t", cores: []string{"AN6a", "AN6a zAN6b"}},
	{pats: []string{`AN7(?P<t>\w*)$`}, msg: "AN7 [$t] $$", sugg: "<$t>", cores: []string{"AN7a", "AN7a AN7b"}},
	{pats: []string{`^//AN8$`}, msg: "AN8 $$", sugg: "//AN8!", cores: []string{"//AN8"}},
	{pats: []string{`(?s)^/\*.*AN9.*\*/$`}, msg: "AN9 $$", cores: []string{"/* AN9 */", "AN9"}},
	{pats: []string{`^(?:// |/\* )AN10 (?P<w>\w+)`}, filter: ne("w", "x"), msg: "AN10 $w", at: "w", sugg: "W", cores: []string{"// AN10 lo", "/* AN10 hum */"}},
	{pats: []string{`(?m)AN11 (?P<w>\w+)$`}, msg: "AN11 $w|$$", cores: []string{"AN11 lo", "AN11 lo hum"}},
	{pats: []string{`\bAN12\b`}, msg: "AN12 $$", sugg: "an12", cores: []string{"AN12", "xAN12 AN12y AN12", "AN12y"}},
	{pats: []string{`^// AN13 (?P<a>\w+)(?: (?P<b>\w+))?$`}, filter: ne("a", "b"), msg: "AN13 a=$a b=[$b]", sugg: "$b$a", cores: []string{"// AN13 lo", "// AN13 lo hum", "// AN13 lo hum x"}},
	{pats: []string{`AN14-(?P<k>\w+)`}, msg: "AN14 $k", at: "k", cores: []string{"AN14-lo", "AN14- AN14-x"}},
	{pats: []string{`^// AN15 (?P<w>lo)$`, `(?m)^AN15 (?P<w>\w+)$`, `\bAN15\b(?P<w>)`}, filter: ne("w", "x"), msg: "AN15 [$w] $$", cores: []string{"// AN15 lo", "AN15 hum", "AN15"}},
}

// Regexps whose ends match "anything": a report covers the WHOLE leftmost match -- greedy and lazy `.*` / `.+` / `\s*` at
// either end, under (?s) / (?U) / (?i), alternatives of which the first-written (not the longest) wins. Most of them have no
// capture group at all (the fast path of the runner); three have a group (named, unnamed, non-capturing).
var spanRules = []ruleDef{
	{pats: []string{`//\s*GL1.*`}, msg: "GL1 $$", sugg: "// gone", cores: []string{"GL1", "GL1: drop this before the release"}},
	{pats: []string{`.*GL2`}, msg: "GL2 [$$]", sugg: "<$$>", cores: []string{"GL2", "pre GL2 mid GL2 post"}},
	{pats: []string{`(?s).*\bGL3\b.*`}, msg: "GL3 $$", sugg: "", cores: []string{"GL3", "pre GL3 post", "up\npre GL3\ndn"}},
	{pats: []string{`.+GL4.+`}, msg: "GL4 $$", sugg: "$$$$", cores: []string{"GL4", "pre GL4 post"}},
	{pats: []string{`.*?GL5.*?`}, msg: "GL5 [$$]", sugg: "X", cores: []string{"GL5", "pre GL5 post"}},
	{pats: []string{`\s*GL6\s*`}, msg: "GL6 [$$]", sugg: "_", cores: []string{"GL6", "a  GL6  b"}},
	{pats: []string{`GL7a|GL7ab`}, msg: "GL7 $$", sugg: "<$$>", cores: []string{"GL7ab", "x GL7abc"}},
	{pats: []string{`GL8x*?`}, msg: "GL8 $$", sugg: "<$$>", cores: []string{"GL8xxx"}},
	{pats: []string{`(?U)GL9.*y`}, msg: "GL9 $$", sugg: "<$$>", cores: []string{"GL9 a y b y"}},
	{pats: []string{`(?i)gl10.*END`}, msg: "GL10 $$", cores: []string{"Gl10 x End y END z"}},
	{pats: []string{`[^*/]*GL11[^*/]*`}, msg: "GL11 [$$]", sugg: "-", cores: []string{"GL11", "pre GL11 post"}},
	{pats: []string{`.*(?P<g>GL12).*`}, msg: "GL12 g=$g $$", sugg: "<$g>", cores: []string{"GL12", "pre GL12 post"}},
	{pats: []string{`(GL13).*`}, msg: "GL13 $$", sugg: "<$$>", cores: []string{"GL13", "pre GL13 post"}},
	{pats: []string{`(?s)/\*.*GL14.*`}, msg: "GL14 $$", cores: []string{"GL14", "pre GL14\npost"}},
	{pats: []string{`(?:.*GL15.*)`}, msg: "GL15 $$", sugg: "<$$>", cores: []string{"pre GL15 post"}},
	{pats: []string{`.*GL16.*`, `GL16b`}, msg: "GL16 $$", sugg: "<$$>", cores: []string{"pre GL16b post"}},
}

// inContexts: the comments a core is put into (only those that ARE one comment: a line comment has no line break, a block
// comment ends at its first `*/`).
func inContexts(core string) []string {
	cands := []string{core, "// see " + core, "//" + core, "//w" + core, core + "w", core + " tail", "/* " + core + " */", "/*" + core + "*/",
		"/* up\n" + core + "\ndn */", core + " " + core, "/* x\n" + core + " */", "// " + core, "/*\n" + core + "*/"}
	var out []string
	for _, s := range cands {
		switch {
		case strings.HasPrefix(s, "//"):
			if !strings.Contains(s, "\n") {
				out = append(out, s)
			}
		case strings.HasPrefix(s, "/*"):
			if len(s) >= 4 && strings.Index(s[2:], "*/") == len(s)-4 {
				out = append(out, s)
			}
		}
	}
	return out
}

// assertionsOf lists the empty-width operators of a pattern; anyEnds tells whether its top level begins or ends with a
// repetition of "any character" / white space (a piece that never decides WHETHER a comment matches, only how far).
func assertionsOf(pat string) (ops []string, anyEnds bool) {
	re, err := syntax.Parse(pat, syntax.Perl)
	if err != nil {
		return nil, false
	}
	seen := map[string]bool{}
	var walk func(*syntax.Regexp)
	walk = func(r *syntax.Regexp) {
		switch r.Op {
		case syntax.OpBeginLine, syntax.OpEndLine, syntax.OpBeginText, syntax.OpEndText, syntax.OpWordBoundary, syntax.OpNoWordBoundary:
			if !seen[r.Op.String()] {
				seen[r.Op.String()] = true
				ops = append(ops, r.Op.String())
			}
		}
		for _, s := range r.Sub {
			walk(s)
		}
	}
	walk(re)
	top := re
	for top.Op == syntax.OpCapture && len(top.Sub) == 1 {
		top = top.Sub[0]
	}
	loose := func(r *syntax.Regexp) bool {
		switch r.Op {
		case syntax.OpStar, syntax.OpPlus, syntax.OpQuest, syntax.OpRepeat:
			switch r.Sub[0].Op {
			case syntax.OpAnyChar, syntax.OpAnyCharNotNL, syntax.OpCharClass:
				return true
			}
		}
		return false
	}
	if top.Op == syntax.OpConcat && len(top.Sub) > 1 {
		anyEnds = loose(top.Sub[0]) || loose(top.Sub[len(top.Sub)-1])
	}
	return ops, anyEnds
}

// sameLen: another text of the same byte length (the words a rule binds, filters on and interpolates are exchanged for others
// of the same length): a rewritten file whose offsets and size all coincide with the previous version's.
var sameLenWord = regexp.MustCompile(`[A-Za-z0-9]+|é`)
var sameLenMap = map[string]string{"a": "q", "q": "a", "bb": "zz", "zz": "bb", "lo": "w9", "w9": "lo", "hum": "hxm", "foo": "bar", "bar": "foo", "one": "two", "two": "one",
	"x": "y", "y": "x", "xx": "lo", "é": "bb", "pre": "erp", "post": "tsop", "later": "retal", "mid": "dim", "1": "2", "v": "k", "k": "v", "hi": "ho"}

func sameLen(s string) string {
	return sameLenWord.ReplaceAllStringFunc(s, func(w string) string {
		if r, ok := sameLenMap[w]; ok {
			return r
		}
		return w
	})
}

var altWords = []string{"lo", "hum", "x", "xx", "w9", "é", ""}

// altRule: a random MatchComment call with 2..4 regexps that all bind `word`, at different group indices.
func altRule(rng *rand.Rand, j int) ruleDef {
	d := ruleDef{}
	n := 2 + rng.Intn(3)
	for i := 0; i < n; i++ {
		mk := fmt.Sprintf("R%d%c", j, 'a'+i)
		d.markers = append(d.markers, mk)
		var p string
		switch rng.Intn(6) {
		case 0:
			p = mk + "~" + named(rng, "word", `\w+`)
		case 1:
			p = named(rng, "word", mk+`~\w*`)
		case 2:
			p = `(\d*)` + mk + "~" + named(rng, "word", `\w+`)
		case 3:
			p = named(rng, "aux", mk) + "~" + named(rng, "word", `\w*`)
		case 4:
			p = mk + "~" + named(rng, "word", "x") + "?"
		default:
			p = "(" + mk + ")(~)" + named(rng, "word", `\w+`)
		}
		d.pats = append(d.pats, p)
	}
	if rng.Intn(3) == 0 {
		// one of the alternatives once more, right behind itself or at the end
		k := rng.Intn(len(d.pats))
		at := []int{k + 1, len(d.pats)}[rng.Intn(2)]
		d.pats = append(d.pats[:at], append([]string{d.pats[k]}, d.pats[at:]...)...)
	}
	w := altWords[rng.Intn(len(altWords)-1)]
	switch rng.Intn(6) {
	case 0:
		d.filter = ne("word", "")
	case 1:
		d.filter = eq("word", w)
	case 2:
		d.filter = matches("word", "^"+w)
	case 3:
		d.filter = not(eq("word", w))
	case 4:
		d.filter = and(ne("word", w), lineeq("word", "$$"))
	}
	d.msg = fmt.Sprintf("R%d [$word] $$", j)
	if rng.Intn(2) == 0 {
		d.at = "word"
	}
	switch rng.Intn(3) {
	case 0:
		d.sugg = "<$word>"
	case 1:
		d.sugg = "$word$word"
	}
	return d
}

// altBodies: comment bodies for a call with several regexps -- a hit of every single alternative and of every ordered
// pair of alternatives (so the later-written alternative also comes first in the comment), plus random ones.
func altBodies(rng *rand.Rand, d ruleDef, nrand int) []string {
	word := func() string { return altWords[rng.Intn(len(altWords))] }
	hit := func(mk string) string {
		h := mk + "~" + word()
		if d.twoWords {
			h += []string{" ", "\n", "  ", "\n\t"}[rng.Intn(4)] + word()
		}
		return h
	}
	var out []string
	for _, a := range d.markers {
		out = append(out, hit(a), hit(a))
		for _, b := range d.markers {
			if a != b {
				out = append(out, hit(a)+" "+hit(b))
			}
		}
	}
	for i := 0; i < nrand; i++ {
		var parts []string
		for k := 1 + rng.Intn(3); k > 0; k-- {
			parts = append(parts, hit(d.markers[rng.Intn(len(d.markers))]))
		}
		out = append(out, strings.Join(parts, []string{" ", ", ", " ~ "}[rng.Intn(3)]))
	}
	return out
}

var randomPieces = []string{`(?P<p>\w+)`, `(\d+)`, `(?P<q>[a-z]*)`, `-`, `\s*`, `(?P<r>x)?`, `=`, `(?:ab)+`, `.`, `(?P<s>ø+)`, `!`,
	`(?<t>\w+)`, `(?<u>z)?`, `(?<p>\d+)`, `(?<q>[a-z]+)`}

var pieceName = regexp.MustCompile(`^\(\?P?<(\w+)>`)

// named writes a named group in one of the two spellings Go accepts.
func named(rng *rand.Rand, name, body string) string {
	if rng.Intn(2) == 0 {
		return "(?P<" + name + ">" + body + ")"
	}
	return "(?<" + name + ">" + body + ")"
}

// family: rules that all match the comments `<fam>:t1-t2-t3`, bind the same names (v, w) to different tokens and
// mostly reject through their filters, so that several matched-but-rejected rules precede the one that reports.
func family(rng *rand.Rand, fam string, toks []string) []ruleDef {
	var out []ruleDef
	n := 4 + rng.Intn(3)
	for i := 0; i < n; i++ {
		var d ruleDef
		hasV, hasW := true, false
		switch k := rng.Intn(7); {
		case i == n-1 || k == 0: // the last rule of a family: a group v that rarely participates, no filter
			d.pats = []string{fam + ":" + named(rng, "v", "zz") + "?"}
		case k == 1:
			d.pats = []string{fam + ":" + named(rng, "v", tok)}
		case k == 2:
			d.pats = []string{fam + ":" + tok + "-" + named(rng, "v", tok)}
		case k == 3:
			d.pats = []string{fam + ":" + named(rng, "w", tok) + "-" + tok + "-" + named(rng, "v", tok)}
			hasW = true
		case k == 4:
			d.pats = []string{fam + ":(" + tok + ")-" + named(rng, "v", tok) + "-" + named(rng, "w", tok)}
			hasW = true
		case k == 5: // no group at all: `$v` is a text of the template
			d.pats = []string{fam + ":" + tok}
			d.filter = matches("$$", toks[rng.Intn(len(toks))]+"$")
			hasV = false
		default:
			d.pats = []string{fam + ":" + named(rng, "w", tok) + "-" + named(rng, "v", "q") + "?"}
			hasW = true
		}
		t := toks[rng.Intn(len(toks))]
		t2 := toks[rng.Intn(len(toks))]
		if i < n-1 && hasV {
			// the earlier rules of a family reject most comments (so that several matched-but-rejected rules precede the
			// reporting one); the last but one may accept most
			k := rng.Intn(6)
			if i == n-2 {
				k = rng.Intn(9)
			}
			switch k {
			case 0:
				d.filter = eq("v", t)
			case 1:
				d.filter = matches("v", "^"+t+"$")
			case 2:
				if hasW {
					d.filter = eqvar("v", "w")
				} else {
					d.filter = eq("v", "")
				}
			case 3:
				d.filter = and(ne("v", ""), matches("$$", t+"$"))
			case 4:
				if hasW {
					d.filter = or(eq("w", t), eq("v", t2))
				} else {
					d.filter = or(eq("v", t), eq("v", t2))
				}
			case 5:
				d.filter = and(not(eq("v", t)), matches("v", "^["+t2+"a]"))
			case 6:
				d.filter = ne("v", t)
			case 7:
				d.filter = not(matches("v", t))
			default:
				if hasW {
					d.filter = nevar("v", "w")
				} else {
					d.filter = ne("v", "")
				}
			}
		}
		d.msg = fmt.Sprintf("%s#%d v=[$v] w=[$w] $$", fam, i)
		if hasV && rng.Intn(3) == 0 {
			d.at = "v"
		}
		switch rng.Intn(4) {
		case 0:
			d.sugg = "<$v|$w>"
		case 1:
			d.sugg = "$v"
		}
		out = append(out, d)
	}
	return out
}

type target struct {
	path string
	src  []byte
	file *ast.File
	pkg  *types.Package
	info *types.Info
}

type cm struct {
	file int
	off  int
	src  string
}

// inMemoryFile: the target that is never written to disk
const inMemoryFile = 6

func main() {
	seed := flag.Int64("seed", 1, "PRNG seed")
	nrand := flag.Int("rand", 6, "random extra comment rules")
	ncomments := flag.Int("comments", 60, "random extra comments")
	nalt := flag.Int("alts", 3, "random MatchComment calls with several regexps")
	tmp := flag.String("tmp", "", "scratch directory")
	flag.Parse()
	rng := rand.New(rand.NewSource(*seed))
	enc := json.NewEncoder(os.Stdout)
	enc.SetEscapeHTML(false)

	toks := []string{"a", "bb", "é", "zz", "q"}
	fams := []string{"fam1", "fam2"}
	defs := append([]ruleDef{}, fixedRules...)
	defs = append(defs, fixedAltRules...)
	defs = append(defs, anchorRules...)
	defs = append(defs, spanRules...)
	// the comments of the assertion rules and of the whole-span rules: every core in every context
	var classComments []string
	for _, d := range append(append([]ruleDef{}, anchorRules...), spanRules...) {
		for _, core := range d.cores {
			classComments = append(classComments, inContexts(core)...)
		}
	}
	// calls with several regexps: comment bodies hit by each alternative and by each ordered pair of alternatives
	var altBody []string
	for _, d := range fixedAltRules {
		if len(d.markers) > 0 && d.msg != "A5 [$word]" {
			altBody = append(altBody, altBodies(rng, d, 6)...)
		}
	}
	for j := 0; j < *nalt; j++ {
		d := altRule(rng, j)
		altBody = append(altBody, altBodies(rng, d, 8)...)
		at := rng.Intn(len(defs) + 1)
		defs = append(defs[:at], append([]ruleDef{d}, defs[at:]...)...)
	}
	// family rules keep their relative order but are spread over the rule list
	for _, fam := range fams {
		at := 0
		for _, d := range family(rng, fam, toks) {
			at += rng.Intn(len(defs) - at + 1)
			defs = append(defs[:at], append([]ruleDef{d}, defs[at:]...)...)
			at++
		}
	}
	for i := 0; i < *nrand; i++ {
		var sb strings.Builder
		used := map[string]bool{}
		n := 2 + rng.Intn(4)
		var names []string
		for j := 0; j < n; j++ {
			p := randomPieces[rng.Intn(len(randomPieces))]
			if m := pieceName.FindStringSubmatch(p); m != nil {
				if used[m[1]] {
					continue
				}
				used[m[1]] = true
				names = append(names, m[1])
			}
			sb.WriteString(p)
		}
		d := ruleDef{pats: []string{sb.String()}, msg: "r" + fmt.Sprint(i) + " $$ $ $zz"}
		for _, nm := range names {
			d.msg += " " + nm + "=[$" + nm + "]"
		}
		if len(names) > 0 && rng.Intn(2) == 0 {
			d.at = names[rng.Intn(len(names))]
		}
		if rng.Intn(2) == 0 {
			d.sugg = "S$$"
		}
		if len(names) > 0 && rng.Intn(3) == 0 {
			d.filter = ne(names[rng.Intn(len(names))], []string{"", "x", "foo", "1"}[rng.Intn(4)])
		}
		if _, err := regexp.Compile(d.pats[0]); err != nil || d.pats[0] == "" || regexp.MustCompile(d.pats[0]).MatchString("") {
			continue // a pattern matching the empty string would fire on every comment first
		}
		if re := regexp.MustCompile(d.pats[0]); func() bool {
			for _, a := range toks {
				for _, b := range toks {
					if re.MatchString("// see fam0:" + a + "-" + b + "-" + a + " */") {
						return true
					}
				}
			}
			return false
		}() {
			continue // a random rule that fires on the family comments would starve the family rules
		}
		if re := regexp.MustCompile(d.pats[0]); func() bool {
			for _, b := range altBody {
				if re.MatchString("// " + b) {
					return true
				}
			}
			for _, b := range append(append([]string{"// L1lo hum", "/* L2lo\nhum */", "// N1~lo", "// D1:deux", "// D2:ABCDEFGHIJKLMN", "// S1~lo"}, altFixed...), classComments...) {
				if re.MatchString(b) {
					return true
				}
			}
			return false
		}() {
			continue // likewise for the comments of the calls with several regexps and of the Line / Node rules
		}
		// random rules go in front of / between the fixed ones
		k := rng.Intn(len(defs) + 1)
		defs = append(defs[:k], append([]ruleDef{d}, defs[k:]...)...)
	}

	// ---- rules file, flattened rule list in load order
	// the rules are spread over three rules files loaded one after the other (load order = file order, then source order)
	var rbs, consts [3]strings.Builder
	nspell := 0
	rfile := 0
	line := 1
	w := func(s string) {
		rbs[rfile].WriteString(s)
		line += strings.Count(s, "\n")
	}
	cut1 := 1 + rng.Intn(len(defs)/2)
	cut2 := cut1 + 1 + rng.Intn(len(defs)-cut1-1)
	w("package gorules\n\nimport \"github.com/quasilyte/go-ruleguard/dsl\"\n\n")
	var rules []ruleSpec
	for di, d := range defs {
		if di == cut1 || di == cut2 {
			rfile++
			line = 1
			w("package gorules\n\nimport \"github.com/quasilyte/go-ruleguard/dsl\"\n\n")
		}
		group := fmt.Sprintf("c%d", di)
		w(fmt.Sprintf("func %s(m dsl.Matcher) {\n\tm.MatchComment(\n", group))
		var altLines []int
		// every string argument in one of the spellings a rules file may use: raw literal, interpreted literal, a named
		// constant, a constant expression -- the rule must be built from the STRING VALUE
		spell := func(str string) string {
			nspell++
			q := strconv.Quote(str)
			switch nspell % 5 {
			case 0, 1:
				if !strings.Contains(str, "`") && !strings.Contains(str, "\r") {
					q = "`" + str + "`"
				}
			case 3:
				fmt.Fprintf(&consts[rfile], "const s%d = %s\n", nspell, q)
				q = fmt.Sprintf("s%d", nspell)
			case 4:
				if rs := []rune(str); len(rs) >= 2 {
					q = strconv.Quote(string(rs[:len(rs)/2])) + " + " + strconv.Quote(string(rs[len(rs)/2:]))
				}
			}
			return q
		}
		for k, p := range d.pats {
			altLines = append(altLines, line)
			if k >= 1 && k+1 < len(d.pats) && (di+k)%2 == 0 {
				w("\t\t" + spell(p) + ", ") // the next alternative stands on the same line
				continue
			}
			w("\t\t" + spell(p) + ",\n")
			if k == 0 && len(d.pats) > 1 {
				w("\n")
			}
		}
		w("\t)")
		if d.filter != nil {
			w(".\n\t\tWhere(" + d.filter.dsl() + ")")
		}
		if d.at != "" {
			w(".\n\t\tAt(m[" + spell(d.at) + "])")
		}
		if d.noReport {
			d.msg = "suggestion: " + d.sugg
		} else {
			w(".\n\t\tReport(" + spell(d.msg) + ")")
		}
		if d.sugg != "" {
			w(".\n\t\tSuggest(" + spell(d.sugg) + ")")
		}
		w("\n}\n\n")
		for k, p := range d.pats {
			re := regexp.MustCompile(p)
			asserts, anyEnds := assertionsOf(p)
			rules = append(rules, ruleSpec{Pat: p, Names: re.SubexpNames(), Groups: ruleguard.VerifRegexpHasCaptureGroups(p), NumSub: re.NumSubexp(),
				Filter: d.filter, Msg: d.msg, Sugg: d.sugg, At: d.at, Line: altLines[k], Group: group, RFile: rfile, Asserts: asserts, AnyEnds: anyEnds, re: re})
		}
	}

	// ---- target files with comments at known offsets
	var tbs [10]strings.Builder
	var comments []cm
	cur := 0
	addc := func(prefix, c, suffix string) {
		tb := &tbs[cur]
		tb.WriteString(prefix)
		comments = append(comments, cm{file: cur, off: tb.Len(), src: c})
		tb.WriteString(c)
		tb.WriteString(suffix)
	}
	frags := []string{"foo", "bar", "FIXME", "k=v", "mode=x", "12-3", "xyz", "xz", "aab", "c", "ø", "øl", " ", "TODO(x): y", "beta w", "alt1:1", "end", "the", "=",
		"é", "ab", "!", "x-", "1", "bob owes 12", "nobody owes 3", "k:=v", "x:=x", "[tag]", "[T9]", "qs", "qrs", "me@host", "you@there", "it@work", "one", "two", "three",
		"say hi!", "say !", "z"}
	randomComment := func() {
		var sb strings.Builder
		n := 1 + rng.Intn(5)
		for j := 0; j < n; j++ {
			sb.WriteString(frags[rng.Intn(len(frags))])
			if rng.Intn(3) == 0 {
				sb.WriteByte(' ')
			}
		}
		body := sb.String()
		switch rng.Intn(4) {
		case 0:
			addc("\t", "/* "+body+" */", "\n")
		case 1:
			addc("\t", "/*"+strings.ReplaceAll(body, " ", "\n")+"*/", "\n")
		case 2:
			addc("\t_ = \"ü\" ", "//"+body, "\n")
		default:
			addc("\t", "// "+body, "\n")
		}
	}
	familyComment := func() {
		fam := fams[rng.Intn(len(fams))]
		body := fam + ":" + toks[rng.Intn(len(toks))] + "-" + toks[rng.Intn(len(toks))] + "-" + toks[rng.Intn(len(toks))]
		switch rng.Intn(3) {
		case 0:
			addc("\t", "/* "+body+" */", "\n")
		case 1:
			addc("\t_ = \"日本\" ", "// see "+body, "\n")
		default:
			addc("\t", "//"+body, "\n")
		}
	}

	altComment := func(body string) {
		k := rng.Intn(4)
		if strings.Contains(body, "\n") && k >= 2 {
			k -= 2
		}
		switch k {
		case 0:
			addc("\t", "/* "+body+" */", "\n")
		case 1:
			addc("\t_ = \"日本\" ", "/*"+body+"*/", "\n")
		case 2:
			addc("\t_ = \"ü\" ", "//"+body, "\n")
		default:
			addc("\t", "// see "+body, "\n")
		}
	}
	suggComments := []string{"// S1~lo", "/* S1~0123456789012345678901234567890123456789 S1~x */"}
	dupComments := []string{"// D1:un", "/* D1:deux */", "// x D1:deux D1:un", "// D2:ABCDEFGHIJKLMN", "/* see D2:ABCDEFGHIJKLMN */"}
	lineComments := []string{"// L1lo hum", "/* L1lo\n hum */", "/* L1lo\n\nhum*/", "// L2lo", "// L2lo hum", "/* L2w9\n\thum */", "/*\nL2lo hum\n*/", "//N1~lo", "/* N1~ N1~w9 */",
		"/* L1x\r\nxx */"}

	// file 0
	cur = 0
	tbs[0].WriteString("package target\n\n")
	addc("", "// TODO(bob): fix this", "\n")
	addc("", "// whole line", "\n")
	tbs[0].WriteString("func f() {\n")
	addc("\tx := 1 ", "// TODO(alice):   second   ", "\n")
	addc("\t", "/* mode=fast */", "\n")
	addc("\t", "// speed=3", "\n")
	addc("\t_ = x ", "// foo", "\n")
	addc("\t", "// a bar b foo", "\n")
	addc("\t", "// FIXME later FIXME again", "\n")
	addc("\t", "// xz then xyz", "\n")
	addc("\t", "// aabaaabc", "\n")
	addc("\t", "// søren øl!", "\n")
	addc("\ts := \"héé日本\" ", "// mode=slow", "\n")
	addc("\t_ = s ", "// 12-345 and 6-7", "\n")
	addc("\t", "/* beta  word */", "\n")
	addc("\t", "/* BEGIN\n\t line1\n\t line2 END */", "\n")
	addc("\t", "/*a=1*/", "")
	addc("", "/*mode=2*/", "\n")
	addc("\t", "// alt2:7xy alt1:3", "\n")
	addc("\t", "// alt1:9", "\n")
	addc("\t", "// the end", "\n")
	addc("\t", "// ø", "\n")
	addc("\t", "//", "\n")
	addc("\t", "/**/", "\n")
	addc("\t", "// alice owes 250 to bob", "\n")
	addc("\t", "// nobody owes 1, ann owes 2", "\n")
	addc("\t", "/* left:=right same:=same */", "\n")
	addc("\t", "// [tag] and [T9]", "\n")
	addc("\t", "// qs then qrs", "\n")
	addc("\t", "// qrs", "\n")
	addc("\t", "// me@host you@there it@work", "\n")
	addc("\t", "// it@work", "\n")
	addc("\t", "// three two one", "\n")
	addc("\t", "// one", "\n")
	addc("\t", "// say ! then say hi!", "\n")
	// CRLF: go/scanner strips \r from the comment text
	addc("\t", "/* ab\r\ncd FIXME */", "\n")
	addc("\t", "/* k=1\r\n mode=crlf\r\n*/", "\n")
	addc("\t", "// FIXME crlf line", "\r\n")
	addc("\t", "/* foo\r*/", "\n")
	for _, c := range lineComments {
		addc("\t", c, "\n")
	}
	for _, c := range altFixed {
		addc("\t", c, "\n")
	}
	for _, c := range dupComments {
		addc("\t", c, "\n")
	}
	for _, c := range suggComments {
		addc("\t", c, "\n")
	}
	for i, c := range classComments {
		switch i % 3 {
		case 0:
			addc("\t", c, "\n")
		case 1:
			addc("\t_ = \"日本\" ", c, "\n")
		default:
			addc("\tx++ ", c, "\n")
		}
	}
	for i, b := range altBody {
		if i%3 != 2 {
			altComment(b)
		}
	}
	for i := 0; i < *ncomments; i++ {
		if i%6 == 5 {
			familyComment()
		} else {
			randomComment()
		}
	}
	// far down the file (the Line of a comment piece against a constant)
	for _, c := range lineComments {
		addc("\t", c, "\n")
	}
	tbs[0].WriteString("}\n\n")
	addc("", "// FIXME at eof", "") // no trailing newline

	// file 1: multi-byte text in front of every comment; mostly family comments
	cur = 1
	tbs[1].WriteString("package target\n\nvar greeting = \"日本語 ü ø\" ")
	addc("", "// fam1:a-bb-é", "\n")
	tbs[1].WriteString("\nfunc g() {\n")
	for i := 0; i < *ncomments/4+8; i++ {
		if i%3 == 2 {
			randomComment()
		} else {
			familyComment()
		}
	}
	addc("\t", "/* fam2:zz-q-a\n fam1:q-zz-bb */", "\n")
	for i, b := range altBody {
		if i%3 == 2 {
			altComment(b)
		}
	}
	for _, c := range altFixed {
		addc("\t_ = \"日本\" ", c, "\n")
	}
	f0 := []string{"a", "bb", "é", "zz"}
	for i, a := range f0 {
		for j, b := range f0 {
			for k, c := range f0 {
				body := "fam0:" + a + "-" + b + "-" + c
				switch (i + j + k) % 3 {
				case 0:
					addc("\t", "// "+body, "\n")
				case 1:
					addc("\t_ = \"日本\" ", "/*"+body+"*/", "\n")
				default:
					addc("\t", "//"+body+" tail", "\n")
				}
			}
		}
	}
	tbs[1].WriteString("}\n")

	// file 2: short, its last comment ends the file
	cur = 2
	tbs[2].WriteString("package target\n\n")
	addc("", "//fam2:é-é-é", "\n")
	tbs[2].WriteString("func h() {\n")
	for i := 0; i < 6; i++ {
		if i%2 == 0 {
			familyComment()
		} else {
			randomComment()
		}
	}
	tbs[2].WriteString("}\n")
	addc("", "/* fam1:bb-a-zz */", "")

	// file 3: a LATER VERSION OF FILE 2 (same path, other bytes): it is written over file 2 just before it is analysed,
	// through the same runner state -- the texts must come from the bytes the file has at that time
	cur = 3
	tbs[3].WriteString("package target\n\n")
	addc("", "// this version of the file is longer: FIXME", "\n")
	addc("", "//fam1:zz-é-a", "\n")
	tbs[3].WriteString("func h() {\n")
	for i := 0; i < 8; i++ {
		if i%2 == 0 {
			familyComment()
		} else {
			randomComment()
		}
	}
	for i := 0; i < 12 && len(altBody) > 0; i++ {
		altComment(altBody[rng.Intn(len(altBody))])
	}
	for i := 0; i < 14; i++ {
		addc("\t", classComments[rng.Intn(len(classComments))], "\n")
	}
	for _, c := range []string{"// see below // AN1 later", "/* pre GL2 mid GL2 post */", "// GL1: drop this before the release", "// left:=right k:=v", "// mode=lo", "// TODO(bb): x"} {
		addc("\t", c, "\n")
	}
	tbs[3].WriteString("}\n")
	addc("", "/* fam2:a-q-é */", "")

	// file 4: file 3 REWRITTEN WITH THE SAME BYTE LENGTH (same path): every comment sits at the same offset and has the same
	// length, but the words the rules bind, filter on and interpolate are others; it is written over file 3 and keeps its
	// modification time -- nothing but the bytes tells the two versions apart.
	// file 5: the bytes of file 3 again (same path, same length as file 4).
	{
		src3 := tbs[3].String()
		var b4 strings.Builder
		at := 0
		var c4, c5 []cm
		for _, c := range comments {
			if c.file != 3 {
				continue
			}
			b4.WriteString(src3[at:c.off])
			nc := sameLen(c.src)
			if len(nc) != len(c.src) {
				fmt.Fprintf(os.Stderr, "sameLen changed the length of %q\n", c.src)
				os.Exit(3)
			}
			b4.WriteString(nc)
			at = c.off + len(c.src)
			c4 = append(c4, cm{file: 4, off: c.off, src: nc})
			c5 = append(c5, cm{file: 5, off: c.off, src: c.src})
		}
		b4.WriteString(src3[at:])
		tbs[4].WriteString(b4.String())
		tbs[5].WriteString(src3)
		comments = append(comments, c4...)
		comments = append(comments, c5...)
	}

	// file 6: a file that is NOT ON DISK (analysed from memory, as an editor or a test harness hands it over): there are no
	// file bytes to slice, the texts are the parser's
	cur = 6
	tbs[6].WriteString("package target\n\nvar inMemory = \"日本\" ")
	addc("", "// fam2:bb-q-é", "\n")
	tbs[6].WriteString("func im() {\n")
	for i := 0; i < 8; i++ {
		if i%2 == 0 {
			familyComment()
		} else {
			randomComment()
		}
	}
	for i := 0; i < 10; i++ {
		addc("\t", classComments[rng.Intn(len(classComments))], "\n")
	}
	for i := 0; i < 6 && len(altBody) > 0; i++ {
		altComment(altBody[rng.Intn(len(altBody))])
	}
	tbs[6].WriteString("}\n")
	addc("", "// pre GL2 mid GL2 post", "")

	// file 7: a file with //line directives (generated code: goyacc, cgo, templates) -- one in front of the package clause, one
	// further down; the file they name EXISTS next to the target and has other bytes. The texts are those of the file that is
	// analysed, not of the file its positions are attributed to.
	cur = 7
	addc("", "//line other.y:1", "\n")
	tbs[7].WriteString("package target\n\n")
	addc("", "// fam1:a-bb-é", "\n")
	tbs[7].WriteString("func ld() {\n")
	for i := 0; i < 6; i++ {
		body := fams[rng.Intn(len(fams))] + ":" + toks[rng.Intn(len(toks))] + "-" + toks[rng.Intn(len(toks))] + "-" + toks[rng.Intn(len(toks))]
		addc("\t_ = \"日本\" ", "// see "+body, "\n")
	}
	addc("", "//line other.y:100", "\n")
	for i := 0; i < 30; i++ {
		if c := classComments[rng.Intn(len(classComments))]; !strings.Contains(c, "\n") {
			addc("\t", c, "\n")
		}
	}
	tbs[7].WriteString("}\n")
	addc("", "// GL1: drop this before the release", "\n")

	// file 8: a file that begins with a UTF-8 BYTE ORDER MARK (legal Go; some editors write one): the scanner skips the mark, but
	// every offset counts its three bytes -- the texts are cut from the bytes of the file as they are on disk, mark included
	cur = 8
	tbs[8].WriteString("\xef\xbb\xbfpackage target\n\n")
	addc("", "// fam1:bb-a-é", "\n")
	tbs[8].WriteString("func bm() {\n")
	for i := 0; i < 8; i++ {
		if i%2 == 0 {
			familyComment()
		} else {
			randomComment()
		}
	}
	for i := 0; i < 10; i++ {
		addc("\t", classComments[rng.Intn(len(classComments))], "\n")
	}
	for i := 0; i < 6 && len(altBody) > 0; i++ {
		altComment(altBody[rng.Intn(len(altBody))])
	}
	for _, c := range []string{"// TODO(bb): x", "// GL1: drop this before the release", "// left:=right k:=v", "/* S1~0123456789012345678901234567890123456789 S1~x */"} {
		addc("\t", c, "\n")
	}
	tbs[8].WriteString("}\n")
	addc("", "/* fam2:zz-q-a */", "")

	// file 9: a checkout with CRLF LINE ENDINGS. The carriage return in front of the newline is not a part of a line comment (the
	// scanner drops it from Comment.Text, the comment ends in front of it), every later offset counts it. Block comments of several
	// lines are left out here: their text has lost carriage returns INSIDE (known finding C12-crlf-comment, exercised in file 0).
	cur = 9
	tbs[9].WriteString("package target\r\n\r\n")
	addc("", "// fam2:é-bb-a", "\r\n")
	tbs[9].WriteString("func cr() {\r\n")
	for i := 0; i < 10; i++ {
		body := fams[rng.Intn(len(fams))] + ":" + toks[rng.Intn(len(toks))] + "-" + toks[rng.Intn(len(toks))] + "-" + toks[rng.Intn(len(toks))]
		switch i % 3 {
		case 0:
			addc("\t_ = \"日本\" ", "// see "+body, "\r\n")
		case 1:
			addc("\t", "/* "+body+" */", "\r\n")
		default:
			addc("\t", "//"+body, "\r\n")
		}
	}
	for i := 0; i < 24; i++ {
		if c := classComments[rng.Intn(len(classComments))]; !strings.Contains(c, "\n") {
			addc("\t", c, "\r\n")
		}
	}
	for _, c := range []string{"// TODO(bb): x", "// GL1: drop this before the release", "// see below // AN1 later", "//AN8", "/* pre GL2 mid GL2 post */", "// S1~lo"} {
		addc("\t", c, "\r\n")
	}
	tbs[9].WriteString("}\r\n")
	addc("", "// fam1:zz-a-q", "\r\n")

	fset := token.NewFileSet()
	var targets []*target
	for i := range tbs {
		src := []byte(tbs[i].String())
		path := filepath.Join(*tmp, fmt.Sprintf("c12/f%d/target.go", i))
		if i >= 3 && i <= 5 {
			path = filepath.Join(*tmp, "c12/f2/target.go") // the same path as file 2
		}
		if err := os.MkdirAll(filepath.Dir(path), 0o755); err != nil {
			fmt.Fprintln(os.Stderr, "target:", err)
			os.Exit(3)
		}
		if i == 7 {
			if err := os.WriteFile(filepath.Join(filepath.Dir(path), "other.y"), []byte(strings.Repeat("%% not the file that is analysed\n", len(src)/30+2)), 0o644); err != nil {
				fmt.Fprintln(os.Stderr, "target:", err)
				os.Exit(3)
			}
		}
		if i == inMemoryFile {
			os.Remove(path)
		} else if err := os.WriteFile(path, src, 0o644); err != nil {
			fmt.Fprintln(os.Stderr, "target:", err)
			os.Exit(3)
		}
		f, err := parser.ParseFile(fset, path, src, parser.ParseComments)
		if err != nil {
			fmt.Fprintln(os.Stderr, "target:", err)
			os.Exit(3)
		}
		info := hutil.NewInfo()
		conf := types.Config{Importer: importer.ForCompiler(fset, "source", nil), Error: func(error) {}}
		pkg, err := conf.Check("target", fset, []*ast.File{f}, info)
		if err != nil {
			fmt.Fprintln(os.Stderr, "target:", err)
			os.Exit(3)
		}
		targets = append(targets, &target{path: path, src: src, file: f, pkg: pkg, info: info})
	}
	e, err := hutil.LoadEngine(fset, map[string]string{"rules0.go": rbs[0].String() + consts[0].String(), "rules1.go": rbs[1].String() + consts[1].String(),
		"rules2.go": rbs[2].String() + consts[2].String()},
		[]string{"rules0.go", "rules1.go", "rules2.go"})
	if err != nil {
		fmt.Fprintln(os.Stderr, "load:", err)
		fmt.Fprintln(os.Stderr, rbs[0].String(), rbs[1].String(), rbs[2].String())
		os.Exit(3)
	}
	// comment texts as the parser delivers them, by (file, offset)
	type key struct{ file, off int }
	texts := map[key]string{}
	ncom := 0
	for fi, t := range targets {
		for _, cg := range t.file.Comments {
			for _, c := range cg.List {
				texts[key{fi, fset.PositionFor(c.Pos(), false).Offset}] = c.Text
				ncom++
			}
		}
	}
	enc.Encode(map[string]interface{}{"k": "rules", "rules": rules})
	// the rules as WRITTEN (one entry per MatchComment call, its regexps in the written order) and as LOADED (what the
	// engine will try, in that order)
	type altJS struct {
		Pat  string `json:"pat"`
		Line int    `json:"line"`
	}
	type iruleJS struct {
		Group  string  `json:"group"`
		File   int     `json:"file"`
		Alts   []altJS `json:"alts"`
		Filter *flt    `json:"filter"`
		Msg    string  `json:"msg"`
		Sugg   string  `json:"sugg"`
		At     string  `json:"at"`
	}
	var irules []iruleJS
	for ri := 0; ri < len(rules); {
		r := rules[ri]
		ir := iruleJS{Group: r.Group, File: r.RFile, Filter: r.Filter, Msg: r.Msg, Sugg: r.Sugg, At: r.At}
		for ; ri < len(rules) && rules[ri].Group == r.Group; ri++ {
			ir.Alts = append(ir.Alts, altJS{Pat: rules[ri].Pat, Line: rules[ri].Line})
		}
		irules = append(irules, ir)
	}
	enc.Encode(map[string]interface{}{"k": "irules", "irules": irules})
	enc.Encode(map[string]interface{}{"k": "loaded", "loaded": ruleguard.VerifCommentRules(e)})
	var srcs [][]byte
	var bases []int
	for _, t := range targets {
		srcs = append(srcs, t.src)
		bases = append(bases, fset.File(t.file.Pos()).Base())
	}
	orders := map[int][]int{0: {0, 1, 2, 3, 4, 5, 6, 7, 8, 9}, 15: {0, 2, 3, 1, 4, 6, 5, 8, 9, 7}}
	var pathOf []int
	for i := range targets {
		pathOf = append(pathOf, i)
		for j := 0; j < i; j++ {
			if targets[j].path == targets[i].path {
				pathOf[i] = pathOf[j]
				break
			}
		}
	}
	enc.Encode(map[string]interface{}{"k": "file", "srcs": srcs, "bases": bases, "parser_comments": ncom, "built_comments": len(comments),
		"path_of": pathOf, "in_memory": inMemoryFile, "orders": map[string][]int{"0": orders[0], "15": orders[15]}})

	type frep struct {
		hutil.Report
		file string
	}
	state := ruleguard.NewRunnerState(e) // one runner state for all files, as the analyzer's pool hands out
	// the HISTORY of one runner state: every run rewrites the file at its path just before (files 2..5 are versions of one path:
	// another length, the same length with other texts, the first bytes again), adjacent in the first pass, with runs on other
	// paths in between in the second; a rewritten file keeps the modification time of the first version
	mtimes := map[string]time.Time{}
	for _, L := range []int{0, 15} {
		prev := -1
		for step, fi := range orders[L] {
			t := targets[fi]
			var reports []frep
			// the file has these bytes when it is analysed
			if fi != inMemoryFile {
				if err := os.WriteFile(t.path, t.src, 0o644); err != nil {
					fmt.Fprintln(os.Stderr, "target:", err)
					os.Exit(3)
				}
				if mt, ok := mtimes[t.path]; ok {
					os.Chtimes(t.path, mt, mt)
				} else if st, err := os.Stat(t.path); err == nil {
					mtimes[t.path] = st.ModTime()
				}
			}
			before := prev
			prev = fi
			pmsg := func() (pmsg string) {
				defer func() {
					if r := recover(); r != nil {
						pmsg = fmt.Sprint(r)
					}
				}()
				ctx := &ruleguard.RunContext{
					Pkg: t.pkg, Types: t.info, Sizes: types.SizesFor("gc", "amd64"), Fset: fset, TruncateLen: L, State: state,
					Report: func(data *ruleguard.ReportData) {
						r := frep{Report: hutil.Report{Message: data.Message, Line: data.RuleInfo.Line}}
						if data.RuleInfo.Group != nil {
							r.Group = data.RuleInfo.Group.Name
						}
						if data.Node == nil {
							r.NilNode = true
						} else {
							p := fset.PositionFor(data.Node.Pos(), false)
							r.file = p.Filename
							r.Pos = p.Offset
							r.End = fset.PositionFor(data.Node.End(), false).Offset
						}
						if data.Suggestion != nil {
							r.HasSugg = true
							r.SuggFrom = fset.PositionFor(data.Suggestion.From, false).Offset
							r.SuggTo = fset.PositionFor(data.Suggestion.To, false).Offset
							r.Sugg = string(data.Suggestion.Replacement)
						}
						reports = append(reports, r)
					},
				}
				if err := e.Run(ctx, t.file); err != nil {
					return "run error: " + err.Error()
				}
				return ""
			}()
			if pmsg != "" {
				enc.Encode(commentObs{K: "comment", L: L, File: fi, Step: step, Prev: before, Panic: pmsg})
				continue
			}
			claimed := make([]bool, len(reports))
			for ci, c := range comments {
				if c.file != fi {
					continue
				}
				o := commentObs{K: "comment", L: L, File: fi, Step: step, Prev: before, Off: c.off, Src: []byte(c.src), HasCR: strings.Contains(c.src, "\r")}
				text, ok := texts[key{fi, c.off}]
				if !ok {
					o.Panic = "the parser has no comment at this offset"
					enc.Encode(o)
					continue
				}
				o.Text = []byte(text)
				seenMT := map[string]bool{}
				addMT := func(pat string, t []byte) {
					k := pat + "\x00" + string(t)
					if !seenMT[k] {
						seenMT[k] = true
						o.MT = append(o.MT, matchVerdict{Pat: []byte(pat), Text: append([]byte{}, t...), Ok: regexp.MustCompile(pat).Match(t)})
					}
				}
				for _, r := range rules {
					ix := r.re.FindStringSubmatchIndex(text)
					o.Idx = append(o.Idx, ix)
					// measured: is this comment one where a regexp with assertions would answer differently on a PART of the text --
					// a search that began at a later position (left cut) or that did not see the end (right cut)?
					if L == 0 && len(r.Asserts) > 0 {
						lim := len(text)
						if ix != nil {
							lim = ix[0]
						}
						for k := 1; k <= lim && k < len(text); k++ {
							if cut := r.re.FindStringIndex(text[k:]); cut != nil && (ix == nil || cut[0]+k < ix[0]) {
								o.CutL++
								break
							}
						}
						from := 0
						if ix != nil {
							from = ix[1]
						}
						for k := from; k < len(text); k++ {
							if cut := r.re.FindStringIndex(text[:k]); cut != nil && (ix == nil || cut[0] != ix[0] || cut[1] != ix[1]) {
								o.CutR++
								break
							}
						}
					}
					o.IdxSrc = append(o.IdxSrc, r.re.FindSubmatchIndex([]byte(c.src)))
					// verdicts a Text.Matches leaf may ask for: the text the model reads for the variable is the file bytes at
					// offset-of-comment + index-in-Text (which differs from Text[b:e] only when the scanner stripped a \r)
					var mn [][2]string
					r.Filter.matchesNodes(&mn)
					if ix == nil {
						continue
					}
					for _, vp := range mn {
						addMT(vp[1], nil)
						gi := 0
						if vp[0] != "$$" {
							gi = r.re.SubexpIndex(vp[0])
						}
						if gi < 0 || ix[2*gi] < 0 {
							continue
						}
						b, en := ix[2*gi], ix[2*gi+1]
						addMT(vp[1], []byte(text[b:en]))
						if c.off+en <= len(t.src) {
							addMT(vp[1], t.src[c.off+b:c.off+en])
						}
					}
				}
				// observed: reports whose node starts inside the comment's source span
				for ri, r := range reports {
					if r.file != t.path || r.NilNode {
						continue
					}
					// a report belongs to the comment that contains its start; a zero-width node sitting exactly at the end of
					// the comment (an empty group selected by At()) belongs to it too, unless the next comment starts right there
					// and the node is not zero-width
					inside := r.Pos >= c.off && r.Pos < c.off+len(c.src)
					atEnd := r.Pos == c.off+len(c.src) && r.End == r.Pos
					if inside && r.End == r.Pos && r.Pos == c.off && ci > 0 && comments[ci-1].file == fi && comments[ci-1].off+len(comments[ci-1].src) == c.off {
						inside = false // zero-width at the seam of two adjacent comments: attributed to the earlier one
					}
					if (inside || atEnd) && !claimed[ri] {
						claimed[ri] = true
						o.Obs = append(o.Obs, report{Pos: r.Pos, End: r.End, Msg: []byte(r.Message), HasSugg: r.HasSugg, SuggFrom: r.SuggFrom,
							SuggTo: r.SuggTo, Sugg: []byte(r.Sugg), Line: r.Line, Group: r.Group})
					}
				}
				// expected, from the SOURCE bytes of the comment: first rule (load order) that matches and accepts
				for ri, r := range rules {
					idx := o.IdxSrc[ri]
					if idx == nil {
						continue
					}
					var caps []capText
					pos := map[string][2]int{}
					for i, name := range r.Names {
						if i == 0 || name == "" {
							continue
						}
						b, en := idx[2*i], idx[2*i+1]
						_, dup := pos[name] // a name that occurs twice stands for the FIRST group of that name
						if b < 0 || en < 0 {
							caps = append(caps, capText{name, nil})
							if !dup {
								pos[name] = [2]int{c.off, c.off}
							}
							continue
						}
						caps = append(caps, capText{name, []byte(c.src[b:en])})
						if !dup {
							pos[name] = [2]int{c.off + b, c.off + en}
						}
					}
					whole := []byte(c.src[idx[0]:idx[1]])
					if r.Filter != nil {
						okf := r.Filter.eval(func(name string) []byte {
							if name == "$$" {
								return whole
							}
							for _, cp := range caps {
								if cp.name == name {
									return cp.text
								}
							}
							return nil
						}, func(name string) int {
							at := c.off + idx[0]
							if name != "$$" {
								p, ok := pos[name]
								if !ok {
									return -1
								}
								at = p[0]
							}
							return 1 + strings.Count(string(t.src[:at]), "\n")
						})
						if !okf {
							continue
						}
					}
					wnt := report{Pos: c.off + idx[0], End: c.off + idx[1], Line: r.Line, Group: r.Group, Rule: ri}
					if r.At != "" {
						p := pos[r.At]
						wnt.Pos, wnt.End = p[0], p[1]
					}
					wnt.Msg = interpSpec(r.Msg, caps, whole, true, L)
					if r.Sugg != "" {
						wnt.Sugg = interpSpec(r.Sugg, caps, whole, false, L)
						wnt.HasSugg = true
						wnt.SuggFrom, wnt.SuggTo = wnt.Pos, wnt.End
					}
					o.Want = &wnt
					break
				}
				enc.Encode(o)
			}
			// every report of a comment rule must sit in a comment of the file that was analysed
			for ri, r := range reports {
				if !claimed[ri] {
					enc.Encode(map[string]interface{}{"k": "stray", "L": L, "file": fi, "analysed": t.path, "node_file": r.file, "nil_node": r.NilNode,
						"pos": r.Pos, "end": r.End, "msg": []byte(r.Message), "group": r.Group, "line": r.Line})
				}
			}
		}
	}
}
