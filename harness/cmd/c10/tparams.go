package main

// Type parameters under repeated variables.
//
// A type parameter is identical to itself only. Two type parameters of DIFFERENT declarations look the same to everything but
// their identity: the same index, the same constraint, possibly the same name. One type can mention both only when the
// declarations nest -- a generic type declared inside a generic function or inside a method of a generic type (legal since
// go1.20) -- so the types of this section are the field types of such local generic types:
//
//	func TPFn0[A any, K comparable, A2 any]() {
//		type L[B any, K2 comparable, B2 any] struct {
//			TP0_000 func(A, B)
//			...
//
// Pairs (x, y) of types over A / B / K / K2 ... go into the positions the repeated-variable patterns bind to one variable
// (pairTypes' shapes); the oracle is the brute-force assignment search over go/types.Identical, the model `identical_x`
// (HTypeParam: universe + name#index@position of the declaration). Contrast pairs: the same parameter twice, two parameters
// of ONE declaration (different index), parameters with different constraints, a parameter against an ordinary type.

import (
	"fmt"
	"go/types"
	"regexp"
	"sort"
	"strings"
)

type tpHost struct {
	open, close string // the declarations around the field list
	outer       [3]string
	inner       [3]string
}

// outer[i] / inner[i]: type parameters with the same index and the same constraint (any, comparable, any)
var tpHosts = []tpHost{
	// a generic type inside a generic function
	{"func TPFn0[A any, K comparable, A2 any]() {\n\ttype L[B any, K2 comparable, B2 any] struct {\n", "\t}\n}\n",
		[3]string{"A", "K", "A2"}, [3]string{"B", "K2", "B2"}},
	// other names (T / U / V ... as in most generic code)
	{"func TPFn1[T any, K comparable, U any]() {\n\ttype L[V any, Q comparable, W any] struct {\n", "\t}\n}\n",
		[3]string{"T", "K", "U"}, [3]string{"V", "Q", "W"}},
	// a generic type inside a method of a generic type (the receiver's type parameters)
	{"type TPG[P any, K comparable, P2 any] struct{}\n\nfunc (TPG[A, K, A2]) M() {\n\ttype L[B any, K2 comparable, B2 any] struct {\n", "\t}\n}\n",
		[3]string{"A", "K", "A2"}, [3]string{"B", "K2", "B2"}},
}

// tpPairs: (x, y, both comparable) over the placeholders @A @K @A2 (outer) and @B @K2 @B2 (inner)
var tpPairs = []struct {
	x, y string
	cmp  bool
}{
	// different declarations, same index, same constraint
	{"@A", "@B", false}, {"@K", "@K2", true}, {"@A2", "@B2", false},
	{"*@A", "*@B", true}, {"[]@A", "[]@B", false}, {"[2]@K", "[2]@K2", true}, {"chan @A", "chan @B", true}, {"func(@A)", "func(@B)", false},
	{"func() @A", "func() @B", false}, {"map[@K]@A", "map[@K2]@B", false}, {"gen.L[@A]", "gen.L[@B]", false}, {"gen.Pair[int, @A]", "gen.Pair[int, @B]", false}, {"gen.Pair[@K, int]", "gen.Pair[@K2, int]", true},
	{"struct{ F @A }", "struct{ F @B }", false}, {"interface{ M(@A) }", "interface{ M(@B) }", true}, {"func(@A, @A)", "func(@A, @B)", false},
	{"func(...@A)", "func(...@B)", false}, {"**@K", "**@K2", true},
	// different declarations, different index / different constraint
	{"@A", "@B2", false}, {"@A", "@K2", false}, {"@K", "@B", false}, {"@A2", "@B", false},
	// one declaration: different index, same constraint; different constraint
	{"@A", "@A2", false}, {"@B", "@B2", false}, {"@A", "@K", false}, {"@B", "@K2", false}, {"*@A", "*@A2", true}, {"gen.L[@B]", "gen.L[@B2]", false},
	// the same parameter twice (identical), also below constructors
	{"@A", "@A", false}, {"@B", "@B", false}, {"@K", "@K", true}, {"@K2", "@K2", true}, {"*@A", "*@A", true}, {"gen.L[@B]", "gen.L[@B]", false},
	{"func(@A) @B", "func(@A) @B", false},
	// a parameter against an ordinary type (its constraint's core, a named type)
	{"@A", "int", false}, {"@B", "any", false}, {"@A", "interface{}", false}, {"@K2", "N", true},
}

var tpPats = []string{
	"func($*_, $x, $x)", "func($x, $*_, $x)", "struct{$*_; $x; $*_; $x}", "struct{*$x; $*_; *$x}", "map[$k]map[$k]$v", "func($x) func($x)",
	"func($*_, *$x, $*_) $x", "$x", "func($a, $b) $a", "func([]$x, $*_) *$x", "struct{$x; $y}",
}

var tpFieldRE = regexp.MustCompile(`^TP(\d+)_(\d{3})$`)

// tpBuild renders the declarations (for package pool) and returns, per host, the type expressions as written
func tpBuild() (decl string, exprs [][]string) {
	var sb strings.Builder
	for hi, h := range tpHosts {
		rep := strings.NewReplacer("@A2", h.outer[2], "@B2", h.inner[2], "@K2", h.inner[1], "@A", h.outer[0], "@B", h.inner[0], "@K", h.outer[1])
		var es []string
		seen := map[string]bool{}
		add := func(s string) {
			s = rep.Replace(s)
			if !seen[s] {
				seen[s] = true
				es = append(es, s)
			}
		}
		for _, pc := range tpPairs {
			for _, o := range [][2]string{{pc.x, pc.y}, {pc.y, pc.x}} {
				add(fmt.Sprintf("func(%s, %s)", o[0], o[1]))
				if pc.cmp {
					add(fmt.Sprintf("map[%s]map[%s]int", o[0], o[1]))
				}
			}
			add(fmt.Sprintf("func(%s) func(%s)", pc.x, pc.y))
			add(fmt.Sprintf("struct{ F0 %s; F1 %s }", pc.x, pc.y))
			add(fmt.Sprintf("struct{ F0 *%s; F1 string; F2 *%s }", pc.y, pc.x))
			add(fmt.Sprintf("func([]%s) *%s", pc.y, pc.x))
			add(fmt.Sprintf("func(int, %s, string, %s)", pc.x, pc.y))
			add(pc.x)
		}
		sb.WriteString("\n" + h.open)
		for i, e := range es {
			fmt.Fprintf(&sb, "\t\tTP%d_%03d %s\n", hi, i, e)
		}
		sb.WriteString(h.close)
		exprs = append(exprs, es)
	}
	return sb.String(), exprs
}

// tpTypes finds the field types by name in the type-checked pool package
func tpTypes(info *types.Info, exprs [][]string) ([][]types.Type, error) {
	out := make([][]types.Type, len(exprs))
	for hi := range exprs {
		out[hi] = make([]types.Type, len(exprs[hi]))
	}
	var names []string
	byName := map[string]types.Type{}
	for id, obj := range info.Defs {
		v, ok := obj.(*types.Var)
		if !ok || !v.IsField() || !tpFieldRE.MatchString(id.Name) {
			continue
		}
		if _, dup := byName[id.Name]; dup {
			return nil, fmt.Errorf("type-parameter section: field %s defined twice", id.Name)
		}
		byName[id.Name] = v.Type()
		names = append(names, id.Name)
	}
	sort.Strings(names)
	n := 0
	for _, nm := range names {
		var hi, i int
		fmt.Sscanf(nm, "TP%d_%03d", &hi, &i)
		if hi >= len(out) || i >= len(out[hi]) {
			return nil, fmt.Errorf("type-parameter section: unexpected field %s", nm)
		}
		out[hi][i] = byName[nm]
		n++
	}
	for hi := range out {
		for i, t := range out[hi] {
			if t == nil {
				return nil, fmt.Errorf("type-parameter section: field TP%d_%03d (%s) not found", hi, i, exprs[hi][i])
			}
		}
	}
	return out, nil
}
