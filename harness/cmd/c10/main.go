// c10: observations for "type patterns match exactly the types they denote".
//
// Abstract patterns are generated from type expression trees (a type is abstracted: sub-types become $x / $_ , runs of
// parameters or fields become $*_ , array lengths become $n; variables are reused both consistently and inconsistently) and
// rendered (a) to the pattern string given to typematch.Parse and (b) to the model's pattern term. Every pattern is matched
// against EVERY type of the pool (the types the patterns were abstracted from, near-miss mutants, aliases, vendored copies,
// instantiations). Per (pattern, type):
//
//	obs     typematch.Pattern.MatchIdentical (one MatcherState reused for all calls)
//	oracle  brute force: every assignment of the pattern's variables to sub-types / lengths of the type, every split of the
//	        $*_ runs, variables compared with types.Identical
//	closed  for variable-free patterns without struct / interface parts: types.Identical(the type the pattern spells, type)
//
// The parsed tree (verif hook VerifDump) is compared with the tree the generator meant.
// Output: one JSON object.
package main

import (
	"encoding/json"
	"flag"
	"fmt"
	"go/types"
	"math/rand"
	"os"
	"regexp"
	"strings"

	"go/token"
	"sort"

	"verif/harness/internal/gtypes"
	"verif/harness/internal/hutil"

	"github.com/quasilyte/go-ruleguard/ruleguard"

	"github.com/quasilyte/go-ruleguard/ruleguard/typematch"
)

const srcTmpl = `package tmpl

type Template struct{ Name string }
type Other int
`

const srcLib = `package lib

type T struct{ X int }
type U int
`

const srcGen = `package gen

type L[T any] struct{ V T }
type Pair[K comparable, V any] struct {
	K K
	V V
}
`

var poolHeader = strings.Replace(poolHeader0, "@GSIMPORTS@", gsPoolImports[1:], 1) + gsPoolDecls

const poolHeader0 = `package pool

import (
	"unsafe"

	ta "example.com/c10/a/tmpl"
	tb "example.com/c10/b/tmpl"
	"example.com/c10/gen"
	"example.com/c10/lib"
	vlib "example.com/app/vendor/example.com/c10/lib"
	vsuf "example.com/app/vendor/mirror.org/example.com/c10/lib"
	msuf "mirror.org/example.com/c10/lib"
	vpre "example.com/app/vendor/example.com/c10/lib/v2"
	xven "example.com/app/xvendor/example.com/c10/lib"
	vnest "example.com/app/vendor/example.com/dep/vendor/example.com/c10/lib"
	vtmpl "example.com/app/vendor/example.com/c10/a/tmpl"
	vroot "vendor/example.com/c10/lib"
@GSIMPORTS@)

var _ unsafe.Pointer
var _ ta.Template
var _ tb.Template
var _ gen.L[int]
var _ lib.T
var _ vlib.T
var _ vsuf.T
var _ msuf.T
var _ vpre.T
var _ xven.T
var _ vnest.T
var _ vtmpl.Template
var _ vroot.T

type A = int
type AP = *int
type AS = []string
type AF = func(int) string
type AM = map[string]int
type AFi = func(int)
type ATa = ta.Template
type N int
type Str struct {
	a int
	B string
}
type I interface{ M() }
type Rdr interface{ Read(p []byte) (int, error) }
type Clo interface{ Close() error }
type RdClo interface {
	Rdr
	Clo
}
type E = interface{}
`

var itab = map[string]string{
	"ta": "example.com/c10/a/tmpl", "tb": "example.com/c10/b/tmpl", "gen": "example.com/c10/gen",
	"lib": "example.com/c10/lib", "pool": "example.com/c10/pool",
}

// ---- type / pattern trees

type node struct {
	k    string // leaf var seq ptr slice arr arrvar map chan func struct anyiface
	s    string // leaf: type text as written in package pool; var: name; arr: length; arrvar: name; chan: direction text
	pat  string // leaf: text inside a pattern ("" = not expressible in a pattern)
	coq  string // leaf: expected model term of the pattern leaf
	subs []*node
	n    int  // func: number of params
	vari bool // func type: variadic
	// field of a struct TYPE: 0 = `F<i> T`, 1 = embedded `T`, 2 = named exactly like its type `T T` (when T can be embedded)
	fmode int
	// leaf of a pattern whose qualified name was resolved by the caller: package path and type name
	npath, nname string
}

type leafDef struct{ typ, pat, coq string }

func basic(name string, kind int) leafDef {
	return leafDef{name, name, fmt.Sprintf("PBuiltin (T (HBasic %d) [])", kind)}
}
func named(typ, pat, path, name string) leafDef {
	return leafDef{typ, pat, fmt.Sprintf("PNamed %q %q", path, name)}
}

// leaves that both a type and a pattern can spell
var patLeaves = []leafDef{
	basic("int", 2), basic("string", 17), basic("bool", 1), basic("float64", 14), basic("int32", 5), basic("uint8", 8),
	basic("int8", 3), basic("int16", 4), basic("int64", 6), basic("uint", 7), basic("uint16", 9), basic("uint32", 10), basic("uint64", 11),
	basic("uintptr", 12), basic("float32", 13), basic("complex64", 15), basic("complex128", 16),
	{"byte", "byte", "PBuiltin (T (HBasic 8) [])"}, {"rune", "rune", "PBuiltin (T (HBasic 5) [])"},
	{"error", "error", `PBuiltin (T (HNamed 0 "" "error") [])`},
	{"unsafe.Pointer", "unsafe.Pointer", "PBuiltin (T (HBasic 18) [])"},
	{"interface{}", "interface{}", "PBuiltin (T (HInterface []) [])"},
	named("ta.Template", "ta.Template", "example.com/c10/a/tmpl", "Template"),
	named("tb.Template", "tb.Template", "example.com/c10/b/tmpl", "Template"),
	named("ta.Other", "ta.Other", "example.com/c10/a/tmpl", "Other"),
	named("lib.T", "lib.T", "example.com/c10/lib", "T"),
	named("lib.U", "lib.U", "example.com/c10/lib", "U"),
	named("N", "pool.N", "example.com/c10/pool", "N"),
	named("Str", "pool.Str", "example.com/c10/pool", "Str"),
	named("I", "pool.I", "example.com/c10/pool", "I"),
}

// leaves only types can spell (aliases, vendored copies, instantiations, interfaces with methods)
var typeOnlyLeaves = []string{
	"A", "AP", "AS", "AF", "AM", "ATa", "vlib.T", "vlib.U", "gen.L[int]", "gen.L[string]", "gen.Pair[string, int]", "any",
	"interface{ M() }", "interface{ M(); N() int }", "struct{}", "*A", "[]A", "map[A]A", "func(A) A", "[2]A",
	"gen.Pair[string, bool]", "gen.Pair[int, int]", "gen.L[A]", "gen.L[gen.L[int]]", "gen.L[gen.L[string]]",
	"vsuf.T", "msuf.T", "vpre.T", "xven.T", "vtmpl.Template", "vsuf.U",
	// one method set, several spellings (embedding structure, method order) and their near misses
	"interface{ I }", "interface{ interface{ M() } }", "interface{ interface{} }", "interface{ any }", "interface{ E }",
	"interface{ Rdr; Clo }", "interface{ Rdr; Close() error }", "interface{ Read(p []byte) (int, error); Close() error }",
	"interface{ Close() error; Rdr }", "interface{ RdClo }", "interface{ Clo }", "interface{ Close() error }", "interface{ Rdr }",
	"interface{ I; N() int }", "interface{ N() int; M() }",
}

// what a type-only leaf is confusable with, to produce patterns for them
var confusable = map[string][]string{
	"int": {"A", "N", "int32", "string"}, "A": {"int", "N"}, "string": {"int", "bool"}, "byte": {"uint8", "int"}, "uint8": {"byte", "int32"},
	"rune": {"int32", "int"}, "int32": {"rune", "int"}, "ta.Template": {"tb.Template", "ATa", "ta.Other", "vtmpl.Template"}, "tb.Template": {"ta.Template", "ATa", "vtmpl.Template"},
	"lib.T": {"vlib.T", "lib.U", "vlib.U", "vsuf.T", "msuf.T", "vpre.T", "xven.T"}, "lib.U": {"vlib.U", "lib.T", "vsuf.U"}, "N": {"int", "A"}, "interface{}": {"any", "I", "interface{ M() }", "error", "interface{ interface{} }", "interface{ E }"},
	"error": {"interface{}", "I"}, "I": {"interface{ M() }", "interface{}"}, "Str": {"struct{}", "N"}, "bool": {"int"}, "float64": {"int"},
	"unsafe.Pointer": {"AP", "int"}, "ta.Other": {"ta.Template", "int"},
	// instantiations of one generic type (same TypeName object, different type arguments) and the near misses of a vendored copy
	"gen.L[int]": {"gen.L[string]", "gen.L[A]", "gen.L[gen.L[int]]"}, "gen.L[string]": {"gen.L[int]", "gen.L[gen.L[string]]"},
	"gen.Pair[string, int]": {"gen.Pair[string, bool]", "gen.Pair[int, int]"}, "gen.Pair[string, bool]": {"gen.Pair[string, int]"},
	"gen.L[gen.L[int]]": {"gen.L[gen.L[string]]", "gen.L[int]"}, "gen.L[A]": {"gen.L[int]", "gen.L[string]"},
	"vlib.T": {"lib.T", "vsuf.T", "msuf.T", "vpre.T", "xven.T"}, "vsuf.T": {"lib.T", "vlib.T"}, "msuf.T": {"lib.T", "vlib.T"},
	"vpre.T": {"lib.T", "vlib.T"}, "xven.T": {"lib.T", "vlib.T"}, "vtmpl.Template": {"ta.Template", "tb.Template"},
	// identical interface types spelled with another embedding structure / method order, and interfaces one method apart
	"interface{ M() }":          {"interface{ I }", "interface{ interface{ M() } }", "interface{ I; N() int }"},
	"interface{ I }":            {"interface{ M() }", "I", "interface{ interface{ M() } }", "interface{ E }"},
	"interface{ M(); N() int }": {"interface{ I; N() int }", "interface{ N() int; M() }", "interface{ I }"},
	"interface{ I; N() int }":   {"interface{ M(); N() int }", "interface{ N() int; M() }"},
	"any":                       {"interface{ interface{} }", "interface{ any }", "interface{ E }", "interface{ I }"},
	"interface{ interface{} }":  {"any", "interface{ any }", "interface{ I }"},
	"interface{ Rdr; Clo }":     {"interface{ Rdr; Close() error }", "interface{ Read(p []byte) (int, error); Close() error }", "interface{ RdClo }", "RdClo", "interface{ Rdr }", "interface{ Clo }"},
	"interface{ RdClo }":        {"interface{ Rdr; Clo }", "interface{ Close() error; Rdr }", "RdClo", "interface{ Clo }"},
	"interface{ Clo }":          {"interface{ Close() error }", "Clo", "interface{ Rdr }"},
	"interface{ Close() error }": {"interface{ Clo }", "interface{ Rdr }"},
	"interface{ Rdr; Close() error }": {"interface{ Rdr; Clo }", "interface{ Close() error; Rdr }", "interface{ Rdr }"},
}

// leaves used only by hand-written patterns: a generic type name and qualified alias names (recorded findings)
var extraLeaves = []leafDef{
	named("gen.L", "gen.L", "example.com/c10/gen", "L"), named("gen.Pair", "gen.Pair", "example.com/c10/gen", "Pair"),
	named("A", "pool.A", "example.com/c10/pool", "A"), named("AP", "pool.AP", "example.com/c10/pool", "AP"),
	named("ATa", "pool.ATa", "example.com/c10/pool", "ATa"),
}

func leafByType(t string) leafDef {
	for _, d := range patLeaves {
		if d.typ == t {
			return d
		}
	}
	panic("no leaf " + t)
}

func leafNode(d leafDef) *node { return &node{k: "leaf", s: d.typ, pat: d.pat, coq: d.coq} }

func genType(r *rand.Rand, depth int) *node {
	if depth <= 0 || r.Intn(6) == 0 {
		if r.Intn(6) == 0 {
			return &node{k: "leaf", s: typeOnlyLeaves[r.Intn(len(typeOnlyLeaves))]}
		}
		return leafNode(patLeaves[r.Intn(len(patLeaves))])
	}
	sub := func() *node { return genType(r, depth-1) }
	switch r.Intn(12) {
	case 0:
		return &node{k: "ptr", subs: []*node{sub()}}
	case 1:
		return &node{k: "slice", subs: []*node{sub()}}
	case 2:
		return &node{k: "arr", s: []string{"0", "2", "3", "8"}[r.Intn(4)], subs: []*node{sub()}}
	case 3:
		keys := []leafDef{leafByType("int"), leafByType("string"), leafByType("N"), leafByType("ta.Template"), leafByType("uint16")}
		return &node{k: "map", subs: []*node{leafNode(keys[r.Intn(len(keys))]), sub()}}
	case 4:
		return &node{k: "chan", s: []string{"chan", "<-chan", "chan<-"}[r.Intn(3)], subs: []*node{sub()}}
	case 5, 6, 7, 8:
		np, nr := r.Intn(5), r.Intn(3)
		t := &node{k: "func", n: np}
		for i := 0; i < np+nr; i++ {
			t.subs = append(t.subs, sub())
		}
		if np > 0 && r.Intn(6) == 0 {
			t.vari = true
		}
		return t
	default:
		t := &node{k: "struct"}
		for i, n := 0, r.Intn(5); i < n; i++ {
			f := sub()
			if r.Intn(3) == 0 {
				f.fmode = 1 + r.Intn(2)
			}
			t.subs = append(t.subs, f)
		}
		return t
	}
}

var embedRe = regexp.MustCompile(`^(?:\w+\.)?(\w+)(?:\[.*\])?$`)

// embedName: the field name an embedded field of this type gets ("" when the type cannot be embedded: not a type name or a
// pointer to a non-interface type name, a name standing for a pointer, unsafe.Pointer)
func embedName(t *node) string {
	iface := map[string]bool{"I": true, "error": true, "any": true, "Rdr": true, "Clo": true, "RdClo": true, "E": true}
	leaf, ptr := t, false
	if t.k == "ptr" {
		leaf, ptr = t.subs[0], true
	}
	if leaf.k != "leaf" || leaf.s == "unsafe.Pointer" || leaf.s == "AP" {
		return ""
	}
	m := embedRe.FindStringSubmatch(leaf.s)
	if m == nil || ptr && iface[m[1]] {
		return ""
	}
	return m[1]
}

func (t *node) clone() *node {
	c := *t
	c.subs = nil
	for _, s := range t.subs {
		c.subs = append(c.subs, s.clone())
	}
	return &c
}

// renderType: Go source of the type inside package pool
func (t *node) renderType() string {
	switch t.k {
	case "leaf":
		return t.s
	case "ptr":
		return "*" + t.subs[0].renderType()
	case "slice":
		return "[]" + t.subs[0].renderType()
	case "arr":
		return "[" + t.s + "]" + t.subs[0].renderType()
	case "map":
		return "map[" + t.subs[0].renderType() + "]" + t.subs[1].renderType()
	case "chan":
		return t.s + " (" + t.subs[0].renderType() + ")"
	case "func":
		var ps, rs []string
		for i, s := range t.subs {
			x := s.renderType()
			if i < t.n {
				if t.vari && i == t.n-1 {
					x = "..." + x
				}
				ps = append(ps, x)
			} else {
				rs = append(rs, x)
			}
		}
		return "func(" + strings.Join(ps, ", ") + ") (" + strings.Join(rs, ", ") + ")"
	case "struct":
		var fs []string
		used := map[string]bool{}
		for i, s := range t.subs {
			x, name := s.renderType(), embedName(s)
			switch {
			case s.fmode == 1 && name != "" && !used[name]:
				fs = append(fs, x)
				used[name] = true
			case s.fmode == 2 && name != "" && !used[name]:
				fs = append(fs, name+" "+x)
				used[name] = true
			default:
				fs = append(fs, fmt.Sprintf("F%d %s", i, x))
			}
		}
		return "struct{ " + strings.Join(fs, "; ") + " }"
	}
	panic("renderType " + t.k)
}

// renderPat: the pattern string; ok=false when some leaf cannot be written in a pattern
func (t *node) renderPat() (string, bool) {
	ok := true
	var rec func(t *node) string
	list := func(ns []*node) string {
		parts := make([]string, len(ns))
		for i, s := range ns {
			parts[i] = rec(s)
		}
		return strings.Join(parts, ", ")
	}
	rec = func(t *node) string {
		switch t.k {
		case "leaf":
			if t.pat == "" {
				ok = false
			}
			return t.pat
		case "var":
			return "$" + t.s
		case "seq":
			return "$*_"
		case "ptr":
			return "*" + rec(t.subs[0])
		case "slice":
			return "[]" + rec(t.subs[0])
		case "arr":
			return "[" + t.s + "]" + rec(t.subs[0])
		case "arrvar":
			return "[$" + t.s + "]" + rec(t.subs[0])
		case "map":
			return "map[" + rec(t.subs[0]) + "]" + rec(t.subs[1])
		case "chan":
			return t.s + " (" + rec(t.subs[0]) + ")"
		case "func":
			return "func(" + list(t.subs[:t.n]) + ") (" + list(t.subs[t.n:]) + ")"
		case "struct":
			parts := make([]string, len(t.subs))
			for i, s := range t.subs {
				parts[i] = rec(s)
			}
			return "struct{ " + strings.Join(parts, "; ") + " }"
		case "anyiface":
			return "interface{ $*_ }"
		}
		panic("renderPat " + t.k)
	}
	s := rec(t)
	return s, ok
}

var chanDir = map[string]int{"chan": 0, "chan<-": 1, "<-chan": 2}

// renderCoq: the model term the generator means
func (t *node) renderCoq() string {
	list := func(ns []*node) string {
		parts := make([]string, len(ns))
		for i, s := range ns {
			parts[i] = s.renderCoq()
		}
		return "[" + strings.Join(parts, "; ") + "]"
	}
	switch t.k {
	case "leaf":
		return t.coq
	case "var":
		return fmt.Sprintf("PVar %q", t.s)
	case "seq":
		return "PVarSeq"
	case "ptr":
		return "PPointer (" + t.subs[0].renderCoq() + ")"
	case "slice":
		return "PSlice (" + t.subs[0].renderCoq() + ")"
	case "arr":
		return "PArrayN (" + t.s + ") (" + t.subs[0].renderCoq() + ")"
	case "arrvar":
		return fmt.Sprintf("PArrayVar %q (%s)", t.s, t.subs[0].renderCoq())
	case "map":
		return "PMap (" + t.subs[0].renderCoq() + ") (" + t.subs[1].renderCoq() + ")"
	case "chan":
		return fmt.Sprintf("PChan %d (%s)", chanDir[t.s], t.subs[0].renderCoq())
	case "func":
		return "PFunc " + list(t.subs[:t.n]) + " " + list(t.subs[t.n:])
	case "struct":
		return "PStruct " + list(t.subs)
	case "anyiface":
		return "PAnyInterface"
	}
	panic("renderCoq " + t.k)
}

// abstract turns (a copy of) a type tree into a pattern tree.
func abstract(r *rand.Rand, t *node, vars map[string]string, top bool, level int) *node {
	key := t.renderType()
	// reuse a variable for a sub-type seen before (consistent) or, rarely, for a different one (inconsistent)
	if !top && r.Intn(100) < level {
		if v, ok := vars[key]; ok && r.Intn(4) != 0 {
			return &node{k: "var", s: v}
		}
		names := []string{"x", "y", "z", "_", "_"}
		v := names[r.Intn(len(names))]
		if v != "_" {
			if _, used := vars["#"+v]; !used || r.Intn(5) == 0 {
				if !used {
					vars[key] = v
					vars["#"+v] = key
				}
				return &node{k: "var", s: v}
			}
			return &node{k: "var", s: "_"}
		}
		return &node{k: "var", s: v}
	}
	c := *t
	c.subs = nil
	switch t.k {
	case "leaf":
		if t.pat == "" { // not expressible: a variable, or a confusable expressible leaf
			return &node{k: "var", s: "_"}
		}
		if r.Intn(12) == 0 {
			if alts, ok := confusable[t.s]; ok {
				alt := alts[r.Intn(len(alts))]
				for _, d := range patLeaves {
					if d.typ == alt {
						return leafNode(d)
					}
				}
			}
		}
		return &c
	case "arr":
		if r.Intn(3) == 0 {
			c.k = "arrvar"
			c.s = []string{"n", "m", "_", "n"}[r.Intn(4)]
		}
		c.subs = []*node{abstract(r, t.subs[0], vars, false, level)}
		return &c
	case "func":
		ps := abstractList(r, t.subs[:t.n], vars, level)
		rs := abstractList(r, t.subs[t.n:], vars, level)
		c.n = len(ps)
		c.vari = false
		c.subs = append(ps, rs...)
		return &c
	case "struct":
		c.subs = abstractList(r, t.subs, vars, level)
		// a struct pattern's members are embedded fields syntactically: only T, pkg.T, *T, $x, *$x, $*_ parse
		for i, m := range c.subs {
			okm := m.k == "leaf" || m.k == "var" || m.k == "seq" ||
				(m.k == "ptr" && (m.subs[0].k == "leaf" || m.subs[0].k == "var"))
			if m.k == "leaf" && (m.s == "interface{}" || m.s == "unsafe.Pointer") {
				okm = m.s == "unsafe.Pointer"
			}
			if m.k == "ptr" && m.subs[0].k == "leaf" && m.subs[0].s == "interface{}" {
				okm = false
			}
			if !okm {
				c.subs[i] = &node{k: "var", s: "_"}
			}
		}
		return &c
	default:
		for _, s := range t.subs {
			c.subs = append(c.subs, abstract(r, s, vars, false, level))
		}
		return &c
	}
}

// abstractList abstracts a parameter / field list, possibly replacing runs by $*_ (also redundant / adjacent ones).
func abstractList(r *rand.Rand, ts []*node, vars map[string]string, level int) []*node {
	var out []*node
	i := 0
	for i < len(ts) {
		if r.Intn(5) == 0 {
			out = append(out, &node{k: "seq"})
			i += r.Intn(len(ts) - i + 1)
			continue
		}
		out = append(out, abstract(r, ts[i], vars, false, level))
		i++
	}
	if r.Intn(8) == 0 {
		out = append(out, &node{k: "seq"})
	}
	return out
}

func (t *node) nodes(acc *[]*node) {
	*acc = append(*acc, t)
	for _, s := range t.subs {
		s.nodes(acc)
	}
}

// mutateType: one small change of a type tree
func mutateType(r *rand.Rand, t *node) *node {
	c := t.clone()
	var ns []*node
	c.nodes(&ns)
	for try := 0; try < 30; try++ {
		n := ns[r.Intn(len(ns))]
		switch n.k {
		case "leaf":
			if alts, ok := confusable[n.s]; ok {
				alt := alts[r.Intn(len(alts))]
				*n = node{k: "leaf", s: alt}
				for _, d := range patLeaves {
					if d.typ == alt {
						*n = *leafNode(d)
					}
				}
				return c
			}
		case "arr":
			n.s = []string{"0", "2", "3", "8"}[r.Intn(4)]
			return c
		case "chan":
			n.s = []string{"chan", "<-chan", "chan<-"}[r.Intn(3)]
			return c
		case "func":
			switch r.Intn(4) {
			case 0:
				if n.n > 0 {
					n.vari = !n.vari
					if n.vari { // the last parameter must be a slice for the mutant to stay close
						n.subs[n.n-1] = &node{k: "leaf", s: "int", pat: "int", coq: patLeaves[0].coq}
					}
					return c
				}
			case 1: // drop a parameter or result
				if len(n.subs) > 0 {
					i := r.Intn(len(n.subs))
					if i < n.n {
						n.n--
						if n.n == 0 {
							n.vari = false
						}
					}
					n.subs = append(n.subs[:i:i], n.subs[i+1:]...)
					if n.vari && i == n.n {
						n.vari = false
					}
					return c
				}
			case 2: // duplicate a parameter
				if n.n > 0 && !n.vari {
					i := r.Intn(n.n)
					n.subs = append(n.subs[:i+1:i+1], append([]*node{n.subs[i].clone()}, n.subs[i+1:]...)...)
					n.n++
					return c
				}
			case 3: // swap two params
				if n.n > 1 && !n.vari {
					n.subs[0], n.subs[n.n-1] = n.subs[n.n-1], n.subs[0]
					return c
				}
			}
		case "struct":
			if len(n.subs) > 0 && r.Intn(3) == 0 { // an embedded field becomes a field named like its type, a named field is embedded, ...
				f := n.subs[r.Intn(len(n.subs))]
				f.fmode = (f.fmode + 1 + r.Intn(2)) % 3
				if embedName(f) != "" {
					return c
				}
			}
			if len(n.subs) > 0 && r.Intn(2) == 0 {
				i := r.Intn(len(n.subs))
				n.subs = append(n.subs[:i:i], n.subs[i+1:]...)
				return c
			}
			n.subs = append(n.subs, leafNode(patLeaves[r.Intn(len(patLeaves))]))
			return c
		}
	}
	return c
}

// ---- brute-force oracle: assignment enumeration

type px = node

func patVars(p *px, tv, iv map[string]bool) {
	switch p.k {
	case "var":
		if p.s != "_" {
			tv[p.s] = true
		}
	case "arrvar":
		if p.s != "_" {
			iv[p.s] = true
		}
	}
	for _, s := range p.subs {
		patVars(s, tv, iv)
	}
}

func subTypes(t types.Type, acc *[]types.Type, lens *[]int64, depth int) {
	if depth > 12 {
		return
	}
	*acc = append(*acc, t)
	switch u := types.Unalias(t).(type) {
	case *types.Pointer:
		subTypes(u.Elem(), acc, lens, depth+1)
	case *types.Slice:
		subTypes(u.Elem(), acc, lens, depth+1)
	case *types.Array:
		*lens = append(*lens, u.Len())
		subTypes(u.Elem(), acc, lens, depth+1)
	case *types.Map:
		subTypes(u.Key(), acc, lens, depth+1)
		subTypes(u.Elem(), acc, lens, depth+1)
	case *types.Chan:
		subTypes(u.Elem(), acc, lens, depth+1)
	case *types.Signature:
		for i := 0; i < u.Params().Len(); i++ {
			subTypes(u.Params().At(i).Type(), acc, lens, depth+1)
		}
		for i := 0; i < u.Results().Len(); i++ {
			subTypes(u.Results().At(i).Type(), acc, lens, depth+1)
		}
	case *types.Struct:
		for i := 0; i < u.NumFields(); i++ {
			subTypes(u.Field(i).Type(), acc, lens, depth+1)
		}
	}
}

type oracle struct {
	pool   *types.Package
	pkgs   map[string]*types.Package
	leafTy map[string]types.Type // pattern leaf text -> the type it spells
}

// stripVendor: the import path that a (possibly vendored) package directory stands for -- the text after the LAST
// "/vendor/" element (vendor directories nest: a/vendor/b/vendor/c is a copy of c), as cmd/go and
// golang.org/x/tools/imports.VendorlessPath define it.
func stripVendor(p string) string {
	if i := strings.LastIndex(p, "/vendor/"); i >= 0 {
		return p[i+len("/vendor/"):]
	}
	if strings.HasPrefix(p, "vendor/") {
		return p[len("vendor/"):]
	}
	return p
}

// nestedVendor: the type mentions a named type of a package below more than one vendor directory (recorded finding:
// typematch cuts the path after the first "/vendor/")
func nestedVendor(t types.Type) bool {
	var cands []types.Type
	var lens []int64
	subTypes(t, &cands, &lens, 0)
	for _, c := range cands {
		if nt, ok := types.Unalias(c).(*types.Named); ok && nt.Obj().Pkg() != nil {
			if pp := nt.Obj().Pkg().Path(); strings.Count(pp, "/vendor/") > 1 || strings.HasPrefix(pp, "vendor/") {
				return true
			}
		}
	}
	return false
}

// fits: with the assignment fixed, does the pattern instantiate to t for some split of its $*_ runs?
func (o *oracle) fits(p *px, t types.Type, tv map[string]types.Type, iv map[string]int64) bool {
	t = types.Unalias(t)
	switch p.k {
	case "var":
		if p.s == "_" {
			return true
		}
		return types.Identical(tv[p.s], t)
	case "seq":
		return false
	case "leaf":
		if strings.HasPrefix(p.coq, "PNamed") {
			// a qualified name: the named type of that package (a vendored copy is the package itself)
			lt := o.leafTy[p.pat]
			if p.npath != "" {
				lt = nil
				if pk := o.pkgs[p.npath]; pk != nil {
					if tn, ok := pk.Scope().Lookup(p.nname).(*types.TypeName); ok {
						lt = tn.Type()
					}
				}
				if lt == nil {
					return false // the package does not declare the name: the pattern denotes nothing
				}
			}
			want, isNamed := lt.(*types.Named)
			if !isNamed { // the qualified name is an alias: it spells the aliased type
				return types.Identical(lt, t)
			}
			nt, ok := t.(*types.Named)
			if !ok || nt.Obj().Pkg() == nil {
				return false
			}
			// the name spells a (non-generic) type: an instantiation L[int] is not what `gen.L` spells
			return nt.TypeArgs().Len() == 0 && nt.Obj().Name() == want.Obj().Name() &&
				stripVendor(nt.Obj().Pkg().Path()) == want.Obj().Pkg().Path()
		}
		return types.Identical(o.leafTy[p.pat], t)
	case "ptr":
		u, ok := t.(*types.Pointer)
		return ok && o.fits(p.subs[0], u.Elem(), tv, iv)
	case "slice":
		u, ok := t.(*types.Slice)
		return ok && o.fits(p.subs[0], u.Elem(), tv, iv)
	case "arr":
		u, ok := t.(*types.Array)
		return ok && fmt.Sprint(u.Len()) == p.s && o.fits(p.subs[0], u.Elem(), tv, iv)
	case "arrvar":
		u, ok := t.(*types.Array)
		return ok && (p.s == "_" || iv[p.s] == u.Len()) && o.fits(p.subs[0], u.Elem(), tv, iv)
	case "map":
		u, ok := t.(*types.Map)
		return ok && o.fits(p.subs[0], u.Key(), tv, iv) && o.fits(p.subs[1], u.Elem(), tv, iv)
	case "chan":
		u, ok := t.(*types.Chan)
		return ok && int(u.Dir()) == chanDir[p.s] && o.fits(p.subs[0], u.Elem(), tv, iv)
	case "func":
		u, ok := t.(*types.Signature)
		if !ok {
			return false
		}
		if u.Variadic() && (p.n == 0 || p.subs[p.n-1].k != "seq") {
			return false // a pattern cannot spell a variadic parameter; only a trailing $*_ run may contain it
		}
		var ps, rs []types.Type
		for i := 0; i < u.Params().Len(); i++ {
			ps = append(ps, u.Params().At(i).Type())
		}
		for i := 0; i < u.Results().Len(); i++ {
			rs = append(rs, u.Results().At(i).Type())
		}
		return o.fitsList(p.subs[:p.n], ps, tv, iv) && o.fitsList(p.subs[p.n:], rs, tv, iv)
	case "struct":
		u, ok := t.(*types.Struct)
		if !ok {
			return false
		}
		var fs []types.Type
		for i := 0; i < u.NumFields(); i++ {
			fs = append(fs, u.Field(i).Type())
		}
		return o.fitsList(p.subs, fs, tv, iv)
	case "anyiface":
		_, ok := t.(*types.Interface)
		return ok
	}
	panic("fits " + p.k)
}

func (o *oracle) fitsList(ps []*px, ts []types.Type, tv map[string]types.Type, iv map[string]int64) bool {
	if len(ps) == 0 {
		return len(ts) == 0
	}
	if ps[0].k == "seq" {
		for j := 0; j <= len(ts); j++ {
			if o.fitsList(ps[1:], ts[j:], tv, iv) {
				return true
			}
		}
		return false
	}
	return len(ts) > 0 && o.fits(ps[0], ts[0], tv, iv) && o.fitsList(ps[1:], ts[1:], tv, iv)
}

// denotes: brute force over all assignments of sub-types / lengths of t to the pattern's variables.
func (o *oracle) denotes(p *px, t types.Type) (res bool, tried int) {
	tvs, ivs := map[string]bool{}, map[string]bool{}
	patVars(p, tvs, ivs)
	var tnames, inames []string
	for v := range tvs {
		tnames = append(tnames, v)
	}
	for v := range ivs {
		inames = append(inames, v)
	}
	var cands []types.Type
	var lens []int64
	subTypes(t, &cands, &lens, 0)
	// distinct candidates only (up to identity)
	var dc []types.Type
	for _, c := range cands {
		dup := false
		for _, d := range dc {
			if types.Identical(c, d) {
				dup = true
				break
			}
		}
		if !dup {
			dc = append(dc, c)
		}
	}
	if len(lens) == 0 {
		lens = []int64{0}
	}
	tv, iv := map[string]types.Type{}, map[string]int64{}
	var rec func(i int) bool
	rec = func(i int) bool {
		if i < len(tnames) {
			for _, c := range dc {
				tv[tnames[i]] = c
				if rec(i + 1) {
					return true
				}
			}
			return false
		}
		j := i - len(tnames)
		if j < len(inames) {
			for _, l := range lens {
				iv[inames[j]] = l
				if rec(i + 1) {
					return true
				}
			}
			return false
		}
		tried++
		return o.fits(p, t, tv, iv)
	}
	return rec(0), tried
}

// closedType: the Go type a variable-free pattern spells (nil when it has struct / interface{...} / variable parts)
func (o *oracle) closedType(p *px) types.Type {
	switch p.k {
	case "leaf":
		return o.leafTy[p.pat]
	case "ptr":
		if e := o.closedType(p.subs[0]); e != nil {
			return types.NewPointer(e)
		}
	case "slice":
		if e := o.closedType(p.subs[0]); e != nil {
			return types.NewSlice(e)
		}
	case "arr":
		if e := o.closedType(p.subs[0]); e != nil {
			var n int64
			fmt.Sscan(p.s, &n)
			return types.NewArray(e, n)
		}
	case "map":
		k, v := o.closedType(p.subs[0]), o.closedType(p.subs[1])
		if k != nil && v != nil {
			return types.NewMap(k, v)
		}
	case "chan":
		if e := o.closedType(p.subs[0]); e != nil {
			return types.NewChan(types.ChanDir(chanDir[p.s]), e)
		}
	case "func":
		var ps, rs []*types.Var
		for i, s := range p.subs {
			e := o.closedType(s)
			if e == nil {
				return nil
			}
			v := types.NewVar(0, nil, "", e)
			if i < p.n {
				ps = append(ps, v)
			} else {
				rs = append(rs, v)
			}
		}
		return types.NewSignatureType(nil, nil, nil, types.NewTuple(ps...), types.NewTuple(rs...), false)
	}
	return nil
}

// matrix: every pattern against every type of one list
type matrix struct {
	Name     string   `json:"name,omitempty"`
	Types    []string `json:"types"`
	Terms    []string `json:"terms"`
	Pats     []string `json:"pats"`
	Trees    []string `json:"trees"`     // parsed (hook dump)
	ExpTrees []string `json:"exp_trees"` // meant by the generator
	NVars    []int    `json:"nvars"`
	HasSeq   []bool   `json:"has_seq"`
	GenName  []bool   `json:"names_generic"` // the pattern names a generic type (gen.L): recorded finding
	AliasNm  []bool   `json:"names_alias"`   // the pattern has a qualified alias name (pool.A): recorded finding
	Obs      []string `json:"obs"`           // rows: pattern x type
	Oracle   []string `json:"oracle"`        // brute force
	Closed   []string `json:"closed"`        // '0'/'1' types.Identical for closed patterns, '-' not applicable
	Vendored []bool   `json:"vendored"`
	NestedV  []bool   `json:"nested_vendor"`
	Instd    []bool   `json:"instantiated"`
	ParseErr []string `json:"parse_err"`
	Panics   []string `json:"panics"`
	Tried    int      `json:"assignments_tried"`
}

type out struct {
	Mode string `json:"mode"`
	Seed int64  `json:"seed"`
	matrix
	BT     []*matrix `json:"bt,omitempty"` // backtracking blocks (backtrack.go)
	Unsup  string    `json:"unsupported"`
	Engine *engOut   `json:"engine,omitempty"`
	Groups *gsOut    `json:"groups,omitempty"`
	Error  string    `json:"error,omitempty"`
}

func bit(b bool) byte {
	if b {
		return '1'
	}
	return '0'
}

var fixedTypes = []string{
	"int8", "int16", "int32", "int64", "uint", "uint8", "uint16", "uint32", "uint64", "uintptr", "float32", "float64", "complex64", "complex128",
	"string", "bool", "byte", "rune",
	"func(int, int, string)", "func(int, string)", "func(string)", "func(int, string, int, string)", "func()", "func(int) int",
	"func(int, string) (string, int)", "func(...int)", "func([]int)", "func(int, ...string)", "func(int, []string)",
	"struct{ F0 int; F1 string }", "struct{ F0 int; F1 int; F2 string }", "struct{ F0 *int; F1 int; F2 *int }", "struct{}",
	"map[string][]int", "map[string][]string", "[2][2]int", "[2][3]int", "[3][3]string", "*int", "AP", "**int", "*A", "A", "int",
	"[]string", "AS", "AF", "func(int) string", "AM", "map[string]int", "ta.Template", "tb.Template", "ATa", "lib.T", "vlib.T", "lib.U", "vlib.U",
	"*vlib.T", "[]lib.T", "gen.L[int]", "gen.L[string]", "*gen.L[int]", "[]gen.L[string]", "func(gen.L[int]) int", "gen.Pair[string, int]", "interface{}", "any", "I", "interface{ M() }", "error", "N", "Str", "unsafe.Pointer",
	"chan int", "<-chan int", "chan<- int", "func(func(int, string), int, string)", "func([2]int, [3]string) [3]int", "func([2]int, [3]string) [2]int",
	"func([2]int, [3]string) [3]string", "func([2]int, [3]string, [2]bool)", "func([2]int, [3]string, [8]bool)", "map[[2]int][2]string", "map[[2]int][3]string", "func(int, func(int) int) func(int) int",
	"struct{ F0 func(int, string); F1 int; F2 string }", "func(int, *int, int) *int", "func(*int, int, int) int", "func(string, int, int, *int) (int, *int)",
	// near misses of "a vendored copy is the package itself": the path after /vendor/ merely ends in / starts with the package path,
	// the same suffix without a vendor directory, a directory whose name only contains "vendor", a vendored copy of another package
	"vsuf.T", "msuf.T", "vpre.T", "xven.T", "*vsuf.T", "[]msuf.T", "func(vpre.T) xven.T", "vsuf.U", "vtmpl.Template", "*vtmpl.Template",
	"map[string]vsuf.T", "func(lib.T, vsuf.T)", "vnest.T", "*vnest.T", "vroot.T",
	"[8]int", "[10]int", "[16]int", "[3]int", "[15]string", "[0]int", "[1]int",
	// the empty interface and a one-method interface under every spelling
	"interface{ interface{} }", "interface{ any }", "interface{ E }", "E", "interface{ interface{ interface{} } }", "interface{ I }",
	"interface{ interface{ M() } }", "[]interface{ any }", "map[string]interface{ interface{} }", "func(interface{ E }) any",
	"func(a, b int, s string)", "func(a int, b string) (r string, n int)", "struct{ F0, F1 int; F2 string }",
	// boundary values: 0 is an array length like any other (the patterns `[0]T`, `[$n]T` with $n bound to 0 elsewhere), the empty
	// struct / parameter list / result list / method set next to their one-member neighbours
	"[0][0]int", "[0][2]int", "[2][0]int", "[1][1]int", "map[[0]int][0]string", "map[[0]int][2]string", "map[[2]int][0]string", "map[[1]int][1]string",
	"func([0]int, [3]string) [0]int", "func([0]int, [3]string, [0]bool)", "func([0]int, [3]string) [3]int", "[0]string", "[0]struct{}", "[1]struct{}",
	"[0]*int", "*[0]int", "[][0]int", "func() ()", "func(struct{}) struct{}", "struct{ _ int }", "struct{ F0 struct{} }", "interface{ E; I }",
}

// Near-miss pairs for REPEATED variables: two types that a careless identity test confuses (instantiations of one generic
// type, same-named types of two packages, a vendored copy and the package itself, arrays of different length, ...) and
// pairs that ARE identical although they are spelled differently (alias and target, byte and uint8, any and interface{}).
// Every pair is placed, in both orders, into the positions that the repeated-variable patterns of pairPats bind to one
// variable; the oracle compares the two bindings with types.Identical.
var pairCat = []struct {
	x, y string
	cmp  bool // both usable as a map key
}{
	{"gen.L[int]", "gen.L[string]", true}, {"gen.L[int]", "gen.L[A]", true}, {"gen.Pair[int, string]", "gen.Pair[int, bool]", true},
	{"gen.Pair[int, string]", "gen.Pair[string, string]", true}, {"gen.L[gen.L[int]]", "gen.L[gen.L[string]]", true},
	{"*gen.L[int]", "*gen.L[string]", true}, {"[]gen.L[int]", "[]gen.L[string]", false}, {"gen.L[int]", "gen.Pair[int, int]", true},
	{"func(gen.L[int])", "func(gen.L[string])", false}, {"ta.Template", "tb.Template", true}, {"ta.Template", "vtmpl.Template", true},
	{"ATa", "ta.Template", true}, {"ATa", "tb.Template", true}, {"lib.T", "vlib.T", true}, {"lib.T", "lib.U", true}, {"lib.T", "msuf.T", true},
	{"vlib.T", "vsuf.T", true}, {"A", "int", true}, {"N", "int", true}, {"N", "A", true}, {"[2]int", "[3]int", true}, {"[2]A", "[2]int", true},
	{"[2]int", "[]int", false}, {"chan int", "<-chan int", true}, {"chan int", "chan A", true}, {"func(int)", "func(int) int", false},
	{"func(...int)", "func([]int)", false}, {"func(int)", "AFi", false}, {"I", "interface{ M() }", true}, {"any", "interface{}", true},
	{"byte", "uint8", true}, {"rune", "int32", true}, {"rune", "int", true}, {"Str", "struct{ a int; B string }", true},
	{"*int", "AP", true}, {"*int", "*N", true}, {"unsafe.Pointer", "uintptr", true}, {"struct{ F0 int }", "struct{ F0 int `k:\"v\"` }", true},
	{"struct{ F0 int }", "struct{ F1 int }", true}, {"map[string]int", "AM", false}, {"map[string]int", "map[string]N", false},
	{"error", "interface{ Error() string }", true}, {"int", "uint", true}, {"float64", "float32", true}, {"string", "[]byte", false},
	// identical although spelled differently: interface identity is the method set, not the embedding structure / method order;
	// parameter names and grouping, field grouping
	{"interface{ Rdr; Close() error }", "interface{ Read(p []byte) (int, error); Close() error }", true},
	{"interface{ Rdr; Clo }", "interface{ Read([]byte) (int, error); Close() error }", true}, {"interface{ Rdr; Clo }", "interface{ RdClo }", true},
	{"interface{ Rdr; Clo }", "interface{ Clo; Rdr }", true}, {"interface{ Clo }", "interface{ Close() error }", true},
	{"interface{ I }", "interface{ M() }", true}, {"interface{ I; N() int }", "interface{ N() int; M() }", true},
	{"interface{}", "interface{ interface{} }", true}, {"any", "interface{ any }", true}, {"interface{ E }", "interface{ interface{ interface{} } }", true},
	{"interface{ error }", "interface{ Error() string }", true}, {"interface{ M(); N() int }", "interface{ N() int; M() }", true},
	{"func(a, b int)", "func(int, int)", false}, {"func(x int) (r string)", "func(int) string", false},
	{"struct{ F0, F1 int }", "struct{ F0 int; F1 int }", true}, {"*interface{ I }", "*interface{ M() }", true},
	{"[]interface{ Clo }", "[]interface{ Close() error }", false}, {"func(interface{ Rdr; Clo })", "func(interface{ RdClo })", false},
	// ... and their near misses (one method apart, a named interface and its literal, same names in another order of the results)
	{"interface{ Rdr; Clo }", "interface{ Rdr }", true}, {"interface{ Clo }", "Clo", true}, {"interface{ RdClo }", "RdClo", true},
	{"interface{ I }", "interface{ E }", true}, {"interface{ I; N() int }", "interface{ I; N() string }", true},
	{"interface{ Rdr; Clo }", "interface{ Rdr; Close() }", true},
	// an embedded field vs a field NAMED exactly like its type: same name, same type, same tag -- only embeddedness differs
	// (type names of this package, qualified names, pointers, aliases, instantiations, predeclared names, interfaces)
	{"struct{ N }", "struct{ N N }", true}, {"struct{ lib.T }", "struct{ T lib.T }", true}, {"struct{ *N }", "struct{ N *N }", true},
	{"struct{ *lib.T }", "struct{ T *lib.T }", true}, {"struct{ A }", "struct{ A A }", true}, {"struct{ A }", "struct{ A int }", true},
	{"struct{ ATa }", "struct{ ATa ta.Template }", true}, {"struct{ *ATa }", "struct{ ATa *ta.Template }", true},
	{"struct{ gen.L[int] }", "struct{ L gen.L[int] }", true}, {"struct{ *gen.L[string] }", "struct{ L *gen.L[string] }", true},
	{"struct{ gen.Pair[int, string] }", "struct{ Pair gen.Pair[int, string] }", true}, {"struct{ I }", "struct{ I I }", true},
	{"struct{ error }", "struct{ error error }", true}, {"struct{ int }", "struct{ int int }", true}, {"struct{ Str }", "struct{ Str Str }", true},
	{"struct{ N; B string }", "struct{ N N; B string }", true}, {"struct{ a int; Str }", "struct{ a int; Str Str }", true},
	{"struct{ N; lib.T }", "struct{ N; T lib.T }", true}, {"struct{ N `k:\"v\"` }", "struct{ N N `k:\"v\"` }", true},
	{"*struct{ N }", "*struct{ N N }", true}, {"[]struct{ lib.T }", "[]struct{ T lib.T }", false}, {"func(struct{ N })", "func(struct{ N N })", false},
	// two embedded fields: the field name is the name the type is WRITTEN with, whatever it is identical to
	{"struct{ A }", "struct{ int }", true}, {"struct{ ATa }", "struct{ ta.Template }", true}, {"struct{ byte }", "struct{ uint8 }", true},
	{"struct{ any }", "struct{ E }", true}, {"struct{ *A }", "struct{ *int }", true}, {"struct{ ta.Template }", "struct{ tb.Template }", true},
	{"struct{ lib.T }", "struct{ vlib.T }", true}, {"struct{ gen.L[int] }", "struct{ gen.L[string] }", true},
	// ... and identical ones: an embedded field and its counterpart spelled through the same name
	{"struct{ N }", "struct{ N `` }", true}, {"struct{ gen.L[A] }", "struct{ gen.L[int] }", true},
	// boundary values. A zero-length array is an array type like any other: against every other length over one element type
	// (only a NEGATIVE length stands for "unknown"), at the top and below every constructor, zero on either side; lengths 0 / 1 / 2
	{"[0]int", "[1]int", true}, {"[0]int", "[2]int", true}, {"[0]int", "[4]int", true}, {"[1]int", "[2]int", true}, {"[0]string", "[8]string", true},
	{"[0]byte", "[8]byte", true}, {"[0]int", "[]int", false}, {"[0]int", "[0]string", true}, {"[0]int", "struct{}", true},
	{"[0][2]int", "[0][3]int", true}, {"[2][0]int", "[2][3]int", true}, {"[0][0]int", "[0][1]int", true}, {"[0][0]int", "[1][0]int", true},
	{"*[0]int", "*[2]int", true}, {"[][0]int", "[][1]int", false}, {"func([0]int)", "func([1]int)", false}, {"func() [0]int", "func() [3]int", false},
	{"struct{ _ [0]int; v int }", "struct{ _ [4]int; v int }", true}, {"chan [0]int", "chan [1]int", true}, {"map[[0]int]int", "map[[1]int]int", false},
	{"map[int][0]int", "map[int][2]int", false}, {"gen.L[[0]int]", "gen.L[[2]int]", true}, {"[0]struct{}", "[1]struct{}", true},
	{"[0]gen.L[int]", "[3]gen.L[int]", true}, {"[0]lib.T", "[1]lib.T", true}, {"interface{ M([0]int) }", "interface{ M([1]int) }", true},
	// ... identical zero-length arrays spelled differently
	{"[0]int", "[0]A", true}, {"[0]interface{}", "[0]any", true}, {"[0]byte", "[0]uint8", true}, {"[0x0]int", "[0]int", true},
	// the empty struct / parameter list / result list / method set against their one-member neighbours and against one another
	{"struct{}", "struct{ _ int }", true}, {"struct{}", "struct{ F0 struct{} }", true}, {"struct{}", "interface{}", true}, {"struct{}", "*struct{}", true},
	{"func()", "func(int)", false}, {"func()", "func() int", false}, {"func()", "func(...int)", false}, {"func()", "func(struct{})", false},
	{"func()", "func() ()", false}, {"interface{}", "interface{ M() }", true}, {"interface{}", "interface{ E; I }", true}, {"[]struct{}", "[]interface{}", false},
}

// patterns that bind both members of a pair to one variable
var pairPats = []string{
	"func($t, $t)", "func($t) $t", "struct{$t; $t}", "map[$t]$t", "func([]$t) *$t", "func($*_, $t, $*_, $t, $*_)", "struct{$*_; $t; $*_; $t; $*_}",
	"func($t, $_)", "map[$_]$t", "func($a, $b)", "func($t, $t) $t",
}

func pairTypes() []string {
	var out []string
	seen := map[string]bool{}
	add := func(s string) {
		if !seen[s] {
			seen[s] = true
			out = append(out, s)
		}
	}
	for _, pc := range pairCat {
		for _, o := range [][2]string{{pc.x, pc.y}, {pc.y, pc.x}} {
			x, y := o[0], o[1]
			add(fmt.Sprintf("func(%s, %s)", x, y))
			if pc.cmp {
				add(fmt.Sprintf("map[%s]%s", x, y))
			}
		}
		add(fmt.Sprintf("func(%s) %s", pc.x, pc.y))
		add(fmt.Sprintf("struct{ F0 %s; F1 %s }", pc.x, pc.y))
		add(fmt.Sprintf("func([]%s) *%s", pc.y, pc.x))
		add(fmt.Sprintf("func(int, %s, string, %s)", pc.x, pc.y))
	}
	return out
}

// hand-written patterns (string, expected term); "" expected = do not compare the tree
var fixedPats = []string{
	"int8", "int16", "int32", "int64", "uint", "uint8", "uint16", "uint32", "uint64", "uintptr", "float32", "float64", "complex64", "complex128",
	"string", "bool", "byte", "rune", "int",
	"func($*_, int, string)", "func($*_, $x, $x)", "func($x, $*_, $x)", "func($*_, $x, $*_, $x)", "func($*_, $x, $*_) $x",
	"func($*_, *$x, $*_) $x", "func($*_, $x, $*_) *$x", "func($*_) $_", "func($*_)", "func($*_, $*_)", "func($_, $*_)", "func($*_, $_)",
	"func([]int)", "func(int, []string)", "func($_)", "func($_, $*_, []string)", "func(int, $*_)",
	"struct{$*_; int; string}", "struct{$*_; $x; $*_; $x}", "struct{$*_}", "struct{$x; $*_; $x}", "struct{*$x; $*_; *$x}",
	"struct{pool.N}", "struct{*pool.N; $*_}", "struct{lib.T}", "struct{$*_; lib.T}", "struct{int}",
	"map[$k][]$v", "map[$x][]$x", "[$n][$n]$t", "[$n][$m]$t", "[$_][$_]int", "[2][$n]int", "*$x", "**$x", "*int", "[]string", "func(int) string",
	"map[string]int", "ta.Template", "tb.Template", "lib.T", "lib.U", "*lib.T", "[]lib.T", "interface{}", "interface{ $*_ }", "error",
	"pool.N", "pool.Str", "pool.I", "unsafe.Pointer", "chan int", "<-chan int", "chan<- int", "chan $x", "func(func($*_, $x), $*_, $x)",
	"func($x, func($x) $x) func($x) $x", "struct{*$x; $*_; $x}", "struct{$*_; *$x; $*_; $x; $*_}", "func($*_, $x, $*_, *$x) ($*_, *$x)", "gen.L",
	"(int)", "[](int)", "func(($x)) $x", "func($*_, [$n]$_, $*_) [$n]int", "func($*_, [$n]$x, $*_) [$n]$x", "func($*_, [$n]$_, $*_, [$n]$_)",
	"func([$n]$_, $*_, [$n]$_)", "map[[$n]int][$n]string", "[0]$t", "[0][$n]$t", "[$n][0]$t", "map[[0]int][$n]string", "func([0]int, $*_) [$n]$_", "[$n]struct{}", "func(struct{}) $x", "[010]int", "[0x10]int", "[0b11]int", "[1_0]int", "[0o17]$x", "[0]int", "[00]int", "*gen.L", "[]gen.L", "func(gen.L) $x", "gen.Pair", "pool.A", "[]pool.A", "pool.AP", "pool.ATa", "func(pool.A) pool.A",
}

func main() {
	seed := flag.Int64("seed", 1, "PRNG seed")
	nrand := flag.Int("rand", 40, "number of random type trees (each yields mutants and several patterns)")
	depth := flag.Int("depth", 3, "max depth")
	dump := flag.Bool("dumpsrc", false, "print generated source")
	engN := flag.Int("engine", 40, "number of patterns for the engine-level section (0 = off)")
	btN := flag.Int("bt", 2, "backtracking blocks: ways of mentioning the variable per choice (0 = section off)")
	btRand := flag.Int("btrand", 60, "backtracking blocks: number of random compositions")
	grpN := flag.Int("groups", 5, "number of random rules files of the group-sequence section (-1 = section off)")
	flag.Parse()
	o := out{Mode: os.Getenv("GODEBUG"), Seed: *seed}
	enc := json.NewEncoder(os.Stdout)
	r := rand.New(rand.NewSource(*seed))
	fail := func(err error) {
		o.Error = err.Error()
		enc.Encode(o)
		os.Exit(1)
	}

	// ---- types and patterns
	typeExprs := append([]string{}, fixedTypes...)
	pairFrom := len(typeExprs)
	typeExprs = append(typeExprs, pairTypes()...)
	pairTo := len(typeExprs)
	var pats []patCase
	for _, s := range fixedPats {
		pats = append(pats, patCase{str: s})
	}
	for _, s := range pairPats {
		pats = append(pats, patCase{str: s, force: true})
	}
	for i := 0; i < *nrand; i++ {
		t := genType(r, *depth)
		typeExprs = append(typeExprs, t.renderType())
		for m := 0; m < 2; m++ {
			typeExprs = append(typeExprs, mutateType(r, t).renderType())
		}
		for m, level := range []int{0, 25, 45} {
			_ = m
			p := abstract(r, t, map[string]string{}, true, level)
			if s, ok := p.renderPat(); ok {
				pats = append(pats, patCase{str: s, exp: p.renderCoq(), px: p})
			}
		}
	}
	var sb strings.Builder
	sb.WriteString(poolHeader)
	sb.WriteString("\nvar (\n")
	for i, e := range typeExprs {
		fmt.Fprintf(&sb, "\tV%03d %s\n", i, e)
	}
	sb.WriteString(")\n")
	var btBlocks []btBlock
	if *btN > 0 {
		btBlocks = btBuild(rand.New(rand.NewSource(*seed+104729)), *btN, *btRand)
	}
	for bi, b := range btBlocks {
		sb.WriteString("\nvar (\n")
		for i, e := range b.types {
			fmt.Fprintf(&sb, "\tB%d_%03d %s\n", bi, i, e)
		}
		sb.WriteString(")\n")
	}
	// engine-level section: probe functions per selected pattern (Type.Is, Type.Underlying().Is, list capture) over the
	// hand-written types and the near-miss pair types
	engPats := selectEnginePats(pats0(pats), *engN)
	var engIdx []int
	for j := range typeExprs {
		if strings.Contains(typeExprs[j], "vnest.") || strings.Contains(typeExprs[j], "vroot.") {
			continue // recorded finding (nested vendor directories): exercised by the direct section only
		}
		if j < 70 || (j >= pairFrom && j < pairTo) || (j >= len(fixedTypes)-57 && j < len(fixedTypes)) {
			engIdx = append(engIdx, j)
		}
	}
	for k := range engPats {
		fmt.Fprintf(&sb, "\nfunc is%d(interface{})     {}\nfunc uis%d(interface{})    {}\nfunc ls%d(...interface{}) {}\nfunc use%d() {\n", k, k, k, k)
		for n, j := range engIdx {
			fmt.Fprintf(&sb, "\tis%d(V%03d)\n\tuis%d(V%03d)\n\tls%d(V%03d, V%03d)\n", k, j, k, j, k, j, engIdx[(n+1)%len(engIdx)])
		}
		fmt.Fprintf(&sb, "\tls%d()\n}\n", k)
	}
	tpDecl, tpExprs := tpBuild()
	sb.WriteString(tpDecl)
	var groups *gsOut
	if *grpN >= 0 {
		var decl string
		groups, decl = gsBuild(rand.New(rand.NewSource(*seed+7919)), *grpN)
		sb.WriteString(decl)
	}
	if *dump {
		fmt.Fprintln(os.Stderr, sb.String())
	}
	srcs := map[string]string{
		"example.com/c10/a/tmpl": srcTmpl, "example.com/c10/b/tmpl": srcTmpl, "example.com/c10/gen": srcGen,
		"example.com/c10/lib": srcLib, "example.com/app/vendor/example.com/c10/lib": srcLib,
		"example.com/app/vendor/mirror.org/example.com/c10/lib":             srcLib,
		"mirror.org/example.com/c10/lib":                                    srcLib,
		"example.com/app/vendor/example.com/c10/lib/v2":                     srcLib,
		"example.com/app/xvendor/example.com/c10/lib":                       srcLib,
		"example.com/app/vendor/example.com/dep/vendor/example.com/c10/lib": srcLib,
		"example.com/app/vendor/example.com/c10/a/tmpl":                     srcTmpl,
		"vendor/example.com/c10/lib":                                        srcLib, // the GOROOT/src/vendor form
		"example.com/c10/pool": sb.String(),
	}
	for p, src := range gsPkgs {
		srcs[p] = src
	}
	u, err := gtypes.NewUniverse(1, srcs, nil)
	if err != nil {
		fail(err)
	}
	ser := gtypes.NewSer(u)
	pool := u.Pkgs["example.com/c10/pool"]
	typesOf := func(prefix string, exprs []string) []types.Type {
		var tys []types.Type
		for i := range exprs {
			tys = append(tys, pool.Scope().Lookup(fmt.Sprintf("%s%03d", prefix, i)).Type())
		}
		return tys
	}
	tys := typesOf("V", typeExprs)

	orc := &oracle{pool: pool, pkgs: u.Pkgs, leafTy: map[string]types.Type{}}
	for _, d := range append(append([]leafDef{}, patLeaves...), extraLeaves...) {
		var t types.Type
		switch {
		case strings.HasPrefix(d.coq, "PNamed"):
			parts := strings.SplitN(d.pat, ".", 2)
			t = u.Pkgs[itab[parts[0]]].Scope().Lookup(parts[1]).Type()
		case d.pat == "error":
			t = types.Universe.Lookup("error").Type()
		case d.pat == "unsafe.Pointer":
			t = types.Typ[types.UnsafePointer]
		case d.pat == "interface{}":
			t = types.NewInterfaceType(nil, nil)
		default:
			t = types.Universe.Lookup(d.pat).Type()
		}
		orc.leafTy[d.pat] = t
	}

	ctx := &typematch.Context{Itab: typematch.NewImportsTab(itab)}
	state := typematch.NewMatcherState()
	fillMatrix(&o.matrix, ser, orc, ctx, state, pats, typeExprs, tys)
	for bi, b := range btBlocks {
		m := &matrix{Name: b.name}
		var pcs []patCase
		for _, s := range b.pats {
			pcs = append(pcs, patCase{str: s})
		}
		fillMatrix(m, ser, orc, ctx, state, pcs, b.types, typesOf(fmt.Sprintf("B%d_", bi), b.types))
		o.BT = append(o.BT, m)
	}
	// type parameters of nested generic declarations under repeated variables (tparams.go)
	tpTys, err := tpTypes(u.Infos["example.com/c10/pool"], tpExprs)
	if err != nil {
		fail(err)
	}
	for hi := range tpExprs {
		m := &matrix{Name: fmt.Sprintf("tparams.h%d", hi)}
		var pcs []patCase
		for _, s := range append(append([]string{}, pairPats...), tpPats...) {
			pcs = append(pcs, patCase{str: s})
		}
		// (shown with the declarations the type parameters belong to)
		host := " -- a field type in: " + strings.Join(strings.Fields(tpHosts[hi].open), " ") + " ... } }"
		shown := make([]string, len(tpExprs[hi]))
		for i, e := range tpExprs[hi] {
			shown[i] = e + host
		}
		fillMatrix(m, ser, orc, ctx, state, pcs, shown, tpTys[hi])
		o.BT = append(o.BT, m)
	}
	o.Unsup = ser.Unsupported
	if len(engPats) > 0 {
		o.Engine = engineSection(u, orc, engPats, tys, engIdx)
	}
	if groups != nil {
		gsRun(groups, u, orc)
		o.Groups = groups
	}
	enc.Encode(o)
}

// fillMatrix matches every pattern against every type: implementation, brute-force oracle, types.Identical for closed patterns.
func fillMatrix(o *matrix, ser *gtypes.Ser, orc *oracle, ctx *typematch.Context, state *typematch.MatcherState, pats []patCase, typeExprs []string, tys []types.Type) {
	for i, t := range tys {
		o.Types = append(o.Types, typeExprs[i])
		o.Terms = append(o.Terms, ser.Term(t))
		o.Vendored = append(o.Vendored, strings.Contains(t.String(), "/vendor/") || strings.Contains(t.String(), "vendor/example.com"))
		o.NestedV = append(o.NestedV, nestedVendor(t))
		o.Instd = append(o.Instd, strings.Contains(t.String(), "gen.L[") || strings.Contains(t.String(), "gen.Pair["))
	}
	for _, pc := range pats {
		pat, err := typematch.Parse(ctx, pc.str)
		if err != nil {
			o.ParseErr = append(o.ParseErr, fmt.Sprintf("%s: %v", pc.str, err))
			continue
		}
		tree := pat.VerifDump(ser.Term)
		px := pc.px
		if px == nil { // hand-written pattern: read by the harness' own parser (parse.go), independent of typematch.Parse
			px = parseFixed(pc.str)
			if px == nil {
				o.ParseErr = append(o.ParseErr, "harness cannot read fixed pattern "+pc.str)
				continue
			}
			pc.exp = px.renderCoq()
		}
		o.Pats = append(o.Pats, pc.str)
		o.Trees = append(o.Trees, tree)
		o.ExpTrees = append(o.ExpTrees, pc.exp)
		tv, iv := map[string]bool{}, map[string]bool{}
		patVars(px, tv, iv)
		o.NVars = append(o.NVars, len(tv)+len(iv))
		o.HasSeq = append(o.HasSeq, strings.Contains(pc.str, "$*_"))
		o.GenName = append(o.GenName, strings.Contains(pc.str, "gen.L") || strings.Contains(pc.str, "gen.Pair"))
		o.AliasNm = append(o.AliasNm, strings.Contains(pc.str, "pool.A"))
		obs := make([]byte, len(tys))
		orr := make([]byte, len(tys))
		cl := make([]byte, len(tys))
		ct := orc.closedType(px)
		for ti, t := range tys {
			func() {
				defer func() {
					if p := recover(); p != nil {
						o.Panics = append(o.Panics, fmt.Sprintf("pattern %q type %s: %v", pc.str, typeExprs[ti], p))
						obs[ti] = '0'
					}
				}()
				obs[ti] = bit(pat.MatchIdentical(state, t))
			}()
			res, tried := orc.denotes(px, t)
			o.Tried += tried
			orr[ti] = bit(res)
			cl[ti] = '-'
			if ct != nil {
				cl[ti] = bit(types.Identical(ct, t))
			}
		}
		o.Obs = append(o.Obs, string(obs))
		o.Oracle = append(o.Oracle, string(orr))
		o.Closed = append(o.Closed, string(cl))
	}
}

// ---- engine level: the same patterns through Where(m["x"].Type.Is(..)), Type.Underlying().Is(..) and a list capture

type engOut struct {
	LoadErr string              `json:"load_err"`
	Pats    []string            `json:"pats"`
	Obs     map[string][]string `json:"obs"`    // "is3" / "uis3" / "ls3" -> reported arguments
	Oracle  map[string][]string `json:"oracle"` // assignment search on the argument's type (its underlying type; all list elements)
	Panic   string              `json:"panic"`
}

type engPat struct {
	str   string
	px    *px
	force bool
}

type patCase struct {
	str   string
	exp   string
	px    *px
	force bool // always part of the engine-level section
}

func pats0(ps []patCase) []engPat {
	var out []engPat
	for _, p := range ps {
		out = append(out, engPat{p.str, p.px, p.force})
	}
	return out
}

// patterns the loader can take with Import()s whose base names are unambiguous (lib, pool, gen), no finding classes
func selectEnginePats(ps []engPat, n int) []engPat {
	var out []engPat
	for i, p := range ps {
		if n <= 0 {
			break
		}
		if len(out) >= n && !p.force {
			continue
		}
		if strings.Contains(p.str, "ta.") || strings.Contains(p.str, "tb.") || strings.Contains(p.str, "gen.") || strings.Contains(p.str, "pool.A") {
			continue
		}
		px := p.px
		if px == nil {
			px = parseFixed(p.str)
		}
		if px == nil {
			continue
		}
		// spread over the catalogue and the random patterns
		if p.force || i%3 == 0 || strings.Contains(p.str, "$*_") && i%2 == 0 {
			out = append(out, engPat{p.str, px, p.force})
		}
	}
	return out
}

func engineSection(u *gtypes.Universe, orc *oracle, ps []engPat, allTys []types.Type, idx []int) *engOut {
	tys := make([]types.Type, len(idx))
	for n, j := range idx {
		tys[n] = allTys[j]
	}
	eo := &engOut{Obs: map[string][]string{}, Oracle: map[string][]string{}}
	var b strings.Builder
	b.WriteString("package gorules\n\nimport \"github.com/quasilyte/go-ruleguard/dsl\"\n\nfunc c10engine(m dsl.Matcher) {\n")
	b.WriteString("\tm.Import(`example.com/c10/lib`)\n\tm.Import(`example.com/c10/pool`)\n")
	for k, p := range ps {
		eo.Pats = append(eo.Pats, p.str)
		fmt.Fprintf(&b, "\tm.Match(`is%d($x)`).Where(m[\"x\"].Type.Is(`%s`)).Report(`is%d $x`)\n", k, p.str, k)
		fmt.Fprintf(&b, "\tm.Match(`uis%d($x)`).Where(m[\"x\"].Type.Underlying().Is(`%s`)).Report(`uis%d $x`)\n", k, p.str, k)
		fmt.Fprintf(&b, "\tm.Match(`ls%d($*xs)`).Where(m[\"xs\"].Type.Is(`%s`)).Report(`ls%d $$`)\n", k, p.str, k)
	}
	b.WriteString("}\n")
	eng := ruleguard.NewEngine()
	func() {
		defer func() {
			if p := recover(); p != nil {
				eo.LoadErr = fmt.Sprintf("PANIC: %v", p)
			}
		}()
		if err := eng.Load(&ruleguard.LoadContext{Fset: token.NewFileSet()}, "c10engine.go", strings.NewReader(b.String())); err != nil {
			eo.LoadErr = err.Error()
		}
	}()
	if eo.LoadErr != "" {
		return eo
	}
	const pp = "example.com/c10/pool"
	target := &hutil.Target{Fset: u.Fset, File: u.Files[pp], Info: u.Infos[pp], Pkg: u.Pkgs[pp], Path: pp + "/src.go"}
	reports, pmsg := hutil.Run(eng, target, 0, "", nil)
	eo.Panic = pmsg
	for _, r := range reports {
		f := strings.SplitN(r.Message, " ", 2)
		arg := ""
		if len(f) == 2 {
			arg = f[1]
		}
		if strings.HasPrefix(f[0], "ls") { // the whole call was printed: keep the argument list
			arg = strings.TrimSuffix(arg[strings.Index(arg, "(")+1:], ")")
		}
		eo.Obs[f[0]] = append(eo.Obs[f[0]], arg)
	}
	for k, p := range ps {
		var is, uis, ls []string
		okT := make([]bool, len(tys))
		for j, t := range tys {
			okT[j], _ = orc.denotes(p.px, t)
			if okT[j] {
				is = append(is, fmt.Sprintf("V%03d", idx[j]))
			}
			if r, _ := orc.denotes(p.px, t.Underlying()); r {
				uis = append(uis, fmt.Sprintf("V%03d", idx[j]))
			}
		}
		for j := range tys {
			if okT[j] && okT[(j+1)%len(tys)] {
				ls = append(ls, fmt.Sprintf("V%03d, V%03d", idx[j], idx[(j+1)%len(tys)]))
			}
		}
		ls = append(ls, "") // the empty argument list satisfies the filter vacuously
		for key, v := range map[string][]string{fmt.Sprintf("is%d", k): is, fmt.Sprintf("uis%d", k): uis, fmt.Sprintf("ls%d", k): ls} {
			sort.Strings(v)
			if v == nil {
				v = []string{}
			}
			eo.Oracle[key] = v
			got := eo.Obs[key]
			sort.Strings(got)
			if got == nil {
				got = []string{}
			}
			eo.Obs[key] = got
		}
	}
	return eo
}
