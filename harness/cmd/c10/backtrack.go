package main

// Backtracking points INSIDE a nested constructor, followed by a constraint outside it.
//
// matchIdentical is written in continuation-passing style: every constructor case hands the rest of the match (the
// continuation) down to its components, so that a `$*_` run deep inside the first component is revisited when something
// LATER in the enclosing pattern rejects the binding made by the first way the run could match. A case that matches a
// component with a finished continuation (`matchDone`) and looks at the next component afterwards commits the first
// alternative and loses matches.
//
// The patterns here are built systematically from four independent parts:
//
//	choice    a sub-pattern with a variable next to `$*_` runs and a type for which the variable can be bound in several ways
//	          (tried in a known order): struct fields, parameters, results, pointer fields, slices among the parameters, a
//	          run inside a run, and an array-LENGTH variable
//	wrapper   constructors between the enclosing pattern and the choice: pointer, slice, array (literal and $m length), chan,
//	          map key, map value, parameter, result, a parameter behind a `$*_` run -- every case that has to pass the
//	          continuation on to its element
//	enclosure the constructor whose FIRST component holds the wrapped choice and whose LATER component uses the variable: map
//	          (key, value), parameters, parameter and result, results, parameters with a run in between, the same nested in
//	          map values / pointers / slices / chans / parameters
//	later     how the later component mentions the variable: $v, *$v, []$v, func($v) / [$n]bool, [$n]$_, *[$n]int
//
// and for every pattern the types whose later component fits the FIRST alternative, each NON-first alternative, and none.
// Every (enclosure, wrapper) pair is a block of its own: all its patterns against all its types (pattern / type trees of the
// same shape that differ in which alternative is consistent). Oracle and model comparison are the ones of the main matrix.

import (
	"fmt"
	"math/rand"
)

type btChoice struct {
	pat  string   // %[1]s = variable name
	typ  string   // the component's type
	alts []string // bindings in the order the matcher finds them (types, or lengths for lenVar)
	miss string   // a binding no alternative provides
	cmp  bool     // the type may be a map key
	lenV bool     // the variable is an array-length variable
}

var btChoices = []btChoice{
	{"struct{$*_; $%[1]s; $*_}", "struct{ a int; b string; c bool }", []string{"int", "string", "bool"}, "float64", true, false},
	{"func($*_, $%[1]s, $*_)", "func(int, string, bool)", []string{"int", "string", "bool"}, "float64", false, false},
	{"func() ($*_, $%[1]s, $*_)", "func() (int, string, bool)", []string{"int", "string", "bool"}, "float64", false, false},
	{"struct{$*_; *$%[1]s; $*_}", "struct{ a *int; b int; c *string }", []string{"int", "string"}, "bool", true, false},
	{"func($*_, []$%[1]s, $*_)", "func([]int, string, []string)", []string{"int", "string"}, "bool", false, false},
	{"func($*_, func($*_, $%[1]s, $*_), $*_)", "func(func(int), int, func(string, bool))", []string{"int", "string", "bool"}, "float64", false, false},
	{"func($*_, [$%[1]s]$_, $*_)", "func([2]int, string, [3]string)", []string{"2", "3"}, "4", false, true},
	{"struct{$*_; $%[1]s; $_}", "struct{ a int; b string; c bool }", []string{"string"}, "int", true, false}, // a single alternative behind a run
}

// how the later component mentions the variable: pattern (%[1]s = variable), type (%[1]s = the binding)
var btLaterT = [][2]string{{"$%[1]s", "%[1]s"}, {"*$%[1]s", "*%[1]s"}, {"[]$%[1]s", "[]%[1]s"}, {"func($%[1]s)", "func(%[1]s)"}}
var btLaterN = [][2]string{{"[$%[1]s]bool", "[%[1]s]bool"}, {"[$%[1]s]$_", "[%[1]s]int8"}, {"*[$%[1]s]int", "*[%[1]s]int"}}

type btWrapper struct {
	pat, typ string // %[1]s = the inner pattern / type
	needCmp  bool   // the inner type must be comparable
	cmp      int    // comparability of the result: 0 no, 1 yes, 2 as the inner type
}

var btWrappers = []btWrapper{
	{"%[1]s", "%[1]s", false, 2},
	{"*%[1]s", "*%[1]s", false, 1},
	{"[]%[1]s", "[]%[1]s", false, 0},
	{"[2]%[1]s", "[2]%[1]s", false, 2},
	{"[$m]%[1]s", "[5]%[1]s", false, 2},
	{"chan (%[1]s)", "chan (%[1]s)", false, 1},
	{"<-chan (%[1]s)", "<-chan (%[1]s)", false, 1},
	{"map[string]%[1]s", "map[string]%[1]s", false, 0},
	{"map[%[1]s]string", "map[%[1]s]string", true, 0},
	{"func(%[1]s)", "func(%[1]s)", false, 0},
	{"func() (%[1]s)", "func() (%[1]s)", false, 0},
	{"func(int, %[1]s, $*_)", "func(int, %[1]s, bool)", false, 0},
	{"func($*_, %[1]s)", "func(string, %[1]s)", false, 0},
	{"func() ($*_, %[1]s, $*_)", "func() (string, %[1]s, int)", false, 0},
}

type btEnclosure struct {
	pat, typ string // %[1]s = first component, %[2]s = later component
	needCmp  bool
}

var btEnclosures = []btEnclosure{
	{"map[%[1]s]%[2]s", "map[%[1]s]%[2]s", true},
	{"func(%[1]s, %[2]s)", "func(%[1]s, %[2]s)", false},
	{"func(%[1]s) (%[2]s)", "func(%[1]s) (%[2]s)", false},
	{"func() (%[1]s, %[2]s)", "func() (%[1]s, %[2]s)", false},
	{"func(%[1]s, $*_, %[2]s)", "func(%[1]s, float32, %[2]s)", false},
	{"func($*_, %[1]s, $*_) (%[2]s)", "func(uint, %[1]s) (%[2]s)", false},
	{"map[int]func(%[1]s, %[2]s)", "map[int]func(%[1]s, %[2]s)", false},
	{"*func(%[1]s, %[2]s)", "*func(%[1]s, %[2]s)", false},
	{"[]func(%[1]s) (%[2]s)", "[]func(%[1]s) (%[2]s)", false},
	{"chan func(%[1]s, %[2]s)", "chan func(%[1]s, %[2]s)", false},
	{"func(func(%[1]s, %[2]s))", "func(func(%[1]s, %[2]s))", false},
	{"[2]map[%[1]s]%[2]s", "[2]map[%[1]s]%[2]s", true},
	{"map[%[1]s]map[int]%[2]s", "map[%[1]s]map[int]%[2]s", true},
	{"func(map[%[1]s]$_, %[2]s)", "func(map[%[1]s]bool, %[2]s)", true},
	{"func(%[2]s, %[1]s)", "func(%[2]s, %[1]s)", false}, // the variable is bound BEFORE the choice: the run is driven by the identity test
}

type btBlock struct {
	name  string
	pats  []string
	types []string
}

func btLaters(c btChoice) [][2]string {
	if c.lenV {
		return btLaterN
	}
	return btLaterT
}

// btCompose: pattern and types (one per alternative, then the miss) of one combination; ok=false when a map key would not be comparable
func btCompose(c btChoice, ws []btWrapper, e btEnclosure, later [2]string, v string) (pat string, tys []string, ok bool) {
	fp, ft, cmp := fmt.Sprintf(c.pat, v), c.typ, c.cmp
	for _, w := range ws {
		if w.needCmp && !cmp {
			return "", nil, false
		}
		fp, ft = fmt.Sprintf(w.pat, fp), fmt.Sprintf(w.typ, ft)
		switch w.cmp {
		case 0:
			cmp = false
		case 1:
			cmp = true
		}
	}
	if e.needCmp && !cmp {
		return "", nil, false
	}
	pat = fmt.Sprintf(e.pat, fp, fmt.Sprintf(later[0], v))
	for _, a := range append(append([]string{}, c.alts...), c.miss) {
		tys = append(tys, fmt.Sprintf(e.typ, ft, fmt.Sprintf(later[1], a)))
	}
	return pat, tys, true
}

// btBuild: one block per (enclosure, wrapper) with every choice and `nlater` ways of mentioning the variable (rotating through
// all of them over the blocks), plus a block of seeded random compositions (several wrappers deep).
func btBuild(r *rand.Rand, nlater, nrand int) []btBlock {
	var out []btBlock
	for ei, e := range btEnclosures {
		for wi, w := range btWrappers {
			b := btBlock{name: fmt.Sprintf("e%d.w%d", ei, wi)}
			seen := map[string]bool{}
			for ci, c := range btChoices {
				ls := btLaters(c)
				for n := 0; n < nlater && n < len(ls); n++ {
					later := ls[(ei+wi+ci+n)%len(ls)]
					v := []string{"x", "t", "n"}[(ei+ci)%3]
					pat, tys, ok := btCompose(c, []btWrapper{w}, e, later, v)
					if !ok {
						continue
					}
					b.pats = append(b.pats, pat)
					for _, t := range tys {
						if !seen[t] {
							seen[t] = true
							b.types = append(b.types, t)
						}
					}
				}
			}
			if len(b.pats) > 0 {
				out = append(out, b)
			}
		}
	}
	rb := btBlock{name: "random"}
	seen := map[string]bool{}
	for i := 0; i < nrand; i++ {
		c := btChoices[r.Intn(len(btChoices))]
		var ws []btWrapper
		for n := r.Intn(3) + 1; n > 0; n-- {
			ws = append(ws, btWrappers[1+r.Intn(len(btWrappers)-1)])
		}
		e := btEnclosures[r.Intn(len(btEnclosures))]
		ls := btLaters(c)
		pat, tys, ok := btCompose(c, ws, e, ls[r.Intn(len(ls))], "x")
		if !ok || seen[pat] {
			continue
		}
		seen[pat] = true
		rb.pats = append(rb.pats, pat)
		for _, t := range tys {
			if !seen[t] {
				seen[t] = true
				rb.types = append(rb.types, t)
			}
		}
	}
	if len(rb.pats) > 0 {
		out = append(out, rb)
	}
	return out
}
