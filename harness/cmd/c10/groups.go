package main

// Group sequences: "... with qualified names resolved through the group's import table".
//
// Several rules files, each with several groups, are loaded into ONE engine. All groups spell the SAME pattern strings
// (`template.Template`, `[]rand.Rand`, `func($*_, tmpl.Template, $*_)`, ...) but have different Import() sets, in both
// orders (a group with imports before / after a group without; two groups binding one base name to different packages;
// the same across files). Whatever is remembered about a pattern string -- per loader, per file, per engine -- and not
// keyed by the import table shows up as a rule that denotes another group's type.
//
// Every rule has its own probe function, called with every probe type; the rule kinds are Type.Is, Type.Underlying().Is
// and SinkType.Is. Oracle: the qualified names of the string are resolved by the documented precedence (last Import() of
// the group with that base name, else the standard-library default stdinfo.PathByName) and the resulting pattern goes
// through the brute-force assignment search.

import (
	"fmt"
	"go/token"
	"go/types"
	"math/rand"
	"path"
	"sort"
	"strings"

	"verif/harness/internal/gtypes"
	"verif/harness/internal/hutil"

	"github.com/quasilyte/go-ruleguard/ruleguard"
	"github.com/quasilyte/stdinfo"
)

// gsStd is a private copy of the documented standard-library defaults, taken before any engine exists.
var gsStd = func() map[string]string {
	m := make(map[string]string, len(stdinfo.PathByName))
	for k, v := range stdinfo.PathByName {
		m[k] = v
	}
	return m
}()

// in-memory packages at the import paths that the colliding base names stand for (only path and name matter to a pattern)
const gsSrcTemplate = "package template\n\ntype Template struct{ Name string }\ntype FuncMap map[string]int\n"
const gsSrcRand = "package rand\n\ntype Rand struct{ N int }\ntype Source interface{ Int63() int64 }\n"

var gsPkgs = map[string]string{
	"text/template": gsSrcTemplate, "html/template": gsSrcTemplate, "example.com/c10/x/template": gsSrcTemplate,
	"math/rand": gsSrcRand, "crypto/rand": gsSrcRand, "example.com/app/vendor/html/template": gsSrcTemplate,
}

const gsPoolImports = `
	tt "text/template"
	ht "html/template"
	xt "example.com/c10/x/template"
	vht "example.com/app/vendor/html/template"
	mr "math/rand"
	cr "crypto/rand"
`

const gsPoolDecls = `
var _ tt.Template
var _ ht.Template
var _ xt.Template
var _ vht.Template
var _ mr.Rand
var _ cr.Rand

type NTs []tt.Template
type NHs []ht.Template
type NMr struct{ R mr.Rand }
`

// probe types (Go source inside package pool)
var gsProbeTypes = []string{
	"tt.Template", "ht.Template", "xt.Template", "vht.Template", "ta.Template", "tb.Template", "vtmpl.Template",
	"*tt.Template", "*ht.Template", "[]tt.Template", "[]ht.Template", "NTs", "NHs", "map[string]tt.Template", "map[string]ht.Template",
	"func(int, tt.Template)", "func(ht.Template, string)", "func(ta.Template) int", "func(tb.Template) int", "func(xt.Template)",
	"mr.Rand", "cr.Rand", "*mr.Rand", "*cr.Rand", "NMr", "struct{ F0 int; F1 ta.Template }", "struct{ F0 tb.Template; F1 string }",
	"struct{ F0 tt.Template }", "struct{ F0 ht.Template }", "lib.T", "vlib.T", "vsuf.T", "tt.FuncMap", "ht.FuncMap", "int", "map[tt.Template]ht.Template",
	"map[ht.Template]ht.Template", "func(tt.Template, ht.Template)", "func(tt.Template, tt.Template)",
}

// pattern strings; base names: template, rand (standard-library defaults exist), tmpl, lib (bound by Import() only)
var gsStrings = []string{
	"template.Template", "*template.Template", "[]template.Template", "map[string]template.Template", "func($*_, template.Template, $*_)",
	"struct{$*_; template.Template; $*_}", "template.FuncMap", "map[$t]$t", "func($t, $t)", "map[template.Template]$t",
	"rand.Rand", "*rand.Rand", "struct{rand.Rand}",
	"tmpl.Template", "func(tmpl.Template) $_", "struct{$*_; tmpl.Template; $*_}",
	"lib.T",
}

var gsImportMenu = []string{
	"html/template", "text/template", "example.com/c10/x/template", "crypto/rand", "math/rand",
	"example.com/c10/a/tmpl", "example.com/c10/b/tmpl", "example.com/c10/lib",
}

type gsRule struct {
	ID      string   `json:"id"`
	File    int      `json:"file"`
	Group   string   `json:"group"`
	Imports []string `json:"imports"`
	Pattern string   `json:"pattern"`
	Kind    string   `json:"kind"` // is, uis, snk
	Meaning string   `json:"meaning"`
	Obs     []string `json:"obs"`
	Oracle  []string `json:"oracle"`
	px      *px
}

type gsFile struct {
	Name    string     `json:"name"`
	Groups  [][]string `json:"groups"` // import lists, in order
	Rules   string     `json:"rules"`
	LoadErr string     `json:"load_err"`
}

type gsOut struct {
	Files  []gsFile `json:"files"`
	Rules  []gsRule `json:"rules"`
	Probes []string `json:"probes"`
	Panic  string   `json:"panic"`
}

// gsBinding: the documented meaning of a package name inside a group
func gsBinding(imports []string, pkg string) (string, bool) {
	for i := len(imports) - 1; i >= 0; i-- {
		if path.Base(imports[i]) == pkg {
			return imports[i], true
		}
	}
	p, ok := gsStd[pkg]
	return p, ok
}

// gsPlan: the files (lists of groups = import lists): hand-written orders, then seeded random ones
func gsPlan(r *rand.Rand, nrand int) [][][]string {
	ht, tt, xt := "html/template", "text/template", "example.com/c10/x/template"
	cr, mr := "crypto/rand", "math/rand"
	ta, tb, lib := "example.com/c10/a/tmpl", "example.com/c10/b/tmpl", "example.com/c10/lib"
	none := []string{}
	files := [][][]string{
		{{ht, cr, ta}, none, {tb}, none},
		{none, {ht}, none},
		{{ta}, {tb}, {ta, tb}, {tb, ta}, {tt}, {ht, tt}, {tt, ht}},
		{{xt, lib}, none, {ht, lib}, {lib}},
		{{cr}, {mr}, none, {cr, mr}},
		{none},
		{{ht}},
	}
	for i := 0; i < nrand; i++ {
		var f [][]string
		for g, n := 0, 2+r.Intn(3); g < n; g++ {
			imps := []string{}
			if r.Intn(3) != 0 {
				for k, m := 0, 1+r.Intn(3); k < m; k++ {
					imps = append(imps, gsImportMenu[r.Intn(len(gsImportMenu))])
				}
			}
			f = append(f, imps)
		}
		files = append(files, f)
	}
	return files
}

// gsBuild plans the files, renders the rules files and returns the probe declarations to be added to package pool.
func gsBuild(r *rand.Rand, nrand int) (*gsOut, string) {
	gs := &gsOut{}
	var decl strings.Builder
	decl.WriteString("\nvar (\n")
	for i, t := range gsProbeTypes {
		fmt.Fprintf(&decl, "\tW%02d %s\n", i, t)
		gs.Probes = append(gs.Probes, fmt.Sprintf("W%02d %s", i, t))
	}
	decl.WriteString(")\n")
	for fi, groups := range gsPlan(r, nrand) {
		f := gsFile{Name: fmt.Sprintf("c10groups%d.go", fi), Groups: groups}
		var b strings.Builder
		b.WriteString("package gorules\n\nimport \"github.com/quasilyte/go-ruleguard/dsl\"\n\n")
		for gi, imps := range groups {
			gname := fmt.Sprintf("gs%d_g%d", fi, gi)
			fmt.Fprintf(&b, "func %s(m dsl.Matcher) {\n", gname)
			for _, imp := range imps {
				fmt.Fprintf(&b, "\tm.Import(`%s`)\n", imp)
			}
			for si, s := range gsStrings {
				resolvable := true
				var meaning []string
				px := parseWith(s, func(pkg, name string) *px {
					p, ok := gsBinding(imps, pkg)
					if !ok {
						resolvable = false
						return nil
					}
					meaning = append(meaning, pkg+"="+p)
					return namedLeaf(pkg+"."+name, p, name)
				})
				if !resolvable || px == nil {
					continue // the group does not bind the name: a load error (C20's subject), not used here
				}
				kinds := []string{"is"}
				if (si+gi)%3 == 0 {
					kinds = append(kinds, "uis")
				}
				if (si+gi+fi)%2 == 0 {
					kinds = append(kinds, "snk")
				}
				for _, kind := range kinds {
					id := fmt.Sprintf("q%d_%d_%d_%s", fi, gi, si, kind)
					switch kind {
					case "is":
						fmt.Fprintf(&b, "\tm.Match(`%s($x)`).Where(m[\"x\"].Type.Is(`%s`)).Report(`%s $x`)\n", id, s, id)
					case "uis":
						fmt.Fprintf(&b, "\tm.Match(`%s($x)`).Where(m[\"x\"].Type.Underlying().Is(`%s`)).Report(`%s $x`)\n", id, s, id)
					case "snk":
						fmt.Fprintf(&b, "\tm.Match(`%s($x)`).Where(m[\"$$\"].SinkType.Is(`%s`)).Report(`%s $x`)\n", id, s, id)
					}
					if kind == "snk" {
						// the sink of the call is the declared type of the variable it initialises
						fmt.Fprintf(&decl, "\nfunc %s[T any](x T) T { return x }\n\nvar (\n", id)
						for i, t := range gsProbeTypes {
							fmt.Fprintf(&decl, "\t_ %s = %s(W%02d)\n", t, id, i)
						}
						decl.WriteString(")\n")
					} else {
						fmt.Fprintf(&decl, "\nfunc %s(interface{}) {}\nfunc use_%s() {\n", id, id)
						for i := range gsProbeTypes {
							fmt.Fprintf(&decl, "\t%s(W%02d)\n", id, i)
						}
						decl.WriteString("}\n")
					}
					gs.Rules = append(gs.Rules, gsRule{ID: id, File: fi, Group: gname, Imports: imps, Pattern: s, Kind: kind,
						Meaning: strings.Join(meaning, " "), px: px})
				}
			}
			b.WriteString("}\n\n")
		}
		f.Rules = b.String()
		gs.Files = append(gs.Files, f)
	}
	return gs, decl.String()
}

// gsRun loads all files into one engine (in order), runs it over package pool and fills observations and oracle.
func gsRun(gs *gsOut, u *gtypes.Universe, orc *oracle) {
	const pp = "example.com/c10/pool"
	pool := u.Pkgs[pp]
	eng := ruleguard.NewEngine()
	lctx := &ruleguard.LoadContext{Fset: token.NewFileSet()}
	for i := range gs.Files {
		f := &gs.Files[i]
		func() {
			defer func() {
				if p := recover(); p != nil {
					f.LoadErr = fmt.Sprintf("PANIC: %v", p)
				}
			}()
			if err := eng.Load(lctx, f.Name, strings.NewReader(f.Rules)); err != nil {
				f.LoadErr = err.Error()
			}
		}()
	}
	target := &hutil.Target{Fset: u.Fset, File: u.Files[pp], Info: u.Infos[pp], Pkg: pool, Path: pp + "/src.go"}
	reports, pmsg := hutil.Run(eng, target, 0, "", nil)
	gs.Panic = pmsg
	obs := map[string][]string{}
	for _, rep := range reports {
		f := strings.Fields(rep.Message)
		if len(f) == 2 && strings.HasPrefix(f[0], "q") {
			obs[f[0]] = append(obs[f[0]], f[1])
		}
	}
	var probes []types.Type
	for i := range gsProbeTypes {
		probes = append(probes, pool.Scope().Lookup(fmt.Sprintf("W%02d", i)).Type())
	}
	for i := range gs.Rules {
		ru := &gs.Rules[i]
		ru.Obs = append([]string{}, obs[ru.ID]...)
		sort.Strings(ru.Obs)
		ru.Oracle = []string{}
		for j, t := range probes {
			tt := t
			if ru.Kind == "uis" {
				tt = t.Underlying()
			}
			if ok, _ := orc.denotes(ru.px, tt); ok {
				ru.Oracle = append(ru.Oracle, fmt.Sprintf("W%02d", j))
			}
		}
	}
}
