package main

import (
	"go/ast"
	"go/parser"
	"go/token"
	"go/types"
	"strings"
)

// parseFixed reads a hand-written pattern string into the harness' own pattern tree (independent of typematch.Parse):
// $*_ and $name are replaced by placeholder identifiers and the result is parsed as a Go type expression.
func parseFixed(s string) *px {
	src := strings.ReplaceAll(s, "$*_", "SEQ__")
	src = strings.ReplaceAll(src, "$", "VAR_")
	e, err := parser.ParseExpr(src)
	if err != nil {
		return nil
	}
	return fromExpr(e)
}

func fromList(fl *ast.FieldList) ([]*px, bool) {
	var out []*px
	if fl == nil {
		return nil, true
	}
	for _, f := range fl.List {
		if len(f.Names) != 0 {
			return nil, false
		}
		p := fromExpr(f.Type)
		if p == nil {
			return nil, false
		}
		out = append(out, p)
	}
	return out, true
}

func fromExpr(e ast.Expr) *px {
	switch e := e.(type) {
	case *ast.ParenExpr:
		return fromExpr(e.X)
	case *ast.Ident:
		if e.Name == "SEQ__" {
			return &px{k: "seq"}
		}
		if strings.HasPrefix(e.Name, "VAR_") {
			return &px{k: "var", s: strings.TrimPrefix(e.Name, "VAR_")}
		}
		for _, d := range patLeaves {
			if d.pat == e.Name {
				return leafNode(d)
			}
		}
	case *ast.SelectorExpr:
		txt := types.ExprString(e)
		for _, d := range patLeaves {
			if d.pat == txt {
				return leafNode(d)
			}
		}
		for _, d := range extraLeaves {
			if d.pat == txt {
				return leafNode(d)
			}
		}
	case *ast.StarExpr:
		if p := fromExpr(e.X); p != nil {
			return &px{k: "ptr", subs: []*px{p}}
		}
	case *ast.ArrayType:
		p := fromExpr(e.Elt)
		if p == nil {
			return nil
		}
		if e.Len == nil {
			return &px{k: "slice", subs: []*px{p}}
		}
		if id, ok := e.Len.(*ast.Ident); ok && strings.HasPrefix(id.Name, "VAR_") {
			return &px{k: "arrvar", s: strings.TrimPrefix(id.Name, "VAR_"), subs: []*px{p}}
		}
		if lit, ok := e.Len.(*ast.BasicLit); ok && lit.Kind == token.INT {
			return &px{k: "arr", s: lit.Value, subs: []*px{p}}
		}
	case *ast.MapType:
		k, v := fromExpr(e.Key), fromExpr(e.Value)
		if k != nil && v != nil {
			return &px{k: "map", subs: []*px{k, v}}
		}
	case *ast.ChanType:
		p := fromExpr(e.Value)
		if p == nil {
			return nil
		}
		dir := "chan"
		if e.Dir == ast.SEND {
			dir = "chan<-"
		} else if e.Dir == ast.RECV {
			dir = "<-chan"
		}
		return &px{k: "chan", s: dir, subs: []*px{p}}
	case *ast.FuncType:
		ps, ok1 := fromList(e.Params)
		rs, ok2 := fromList(e.Results)
		if ok1 && ok2 {
			return &px{k: "func", n: len(ps), subs: append(ps, rs...)}
		}
	case *ast.StructType:
		fs, ok := fromList(e.Fields)
		if ok {
			return &px{k: "struct", subs: fs}
		}
	case *ast.InterfaceType:
		if len(e.Methods.List) == 0 {
			return leafNode(leafDef{"interface{}", "interface{}", "PBuiltin (T (HInterface []) [])"})
		}
		if len(e.Methods.List) == 1 {
			if id, ok := e.Methods.List[0].Type.(*ast.Ident); ok && id.Name == "SEQ__" {
				return &px{k: "anyiface"}
			}
		}
	}
	return nil
}
