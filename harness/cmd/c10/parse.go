package main

import (
	"fmt"
	"go/ast"
	"go/constant"
	"go/parser"
	"go/token"
	"go/types"
	"strings"
)

// parseFixed reads a hand-written pattern string into the harness' own pattern tree (independent of typematch.Parse):
// $*_ and $name are replaced by placeholder identifiers and the result is parsed as a Go type expression.
func parseFixed(s string) *px { return parseWith(s, nil) }

// qualResolver decides what a qualified name `pkg.Name` of a pattern string stands for (nil result: unresolvable).
type qualResolver func(pkg, name string) *px

// parseWith is parseFixed with the qualified names resolved by res (nil: the fixed leaf tables of the pool).
func parseWith(s string, res qualResolver) *px {
	src := strings.ReplaceAll(s, "$*_", "SEQ__")
	src = strings.ReplaceAll(src, "$", "VAR_")
	e, err := parser.ParseExpr(src)
	if err != nil {
		return nil
	}
	return (&patReader{res: res}).fromExpr(e)
}

type patReader struct{ res qualResolver }

// namedLeaf: a qualified name that stands for the named type `name` of the package with import path `path`
func namedLeaf(txt, path, name string) *px {
	return &px{k: "leaf", s: txt, pat: txt, coq: fmt.Sprintf("PNamed %q %q", path, name), npath: path, nname: name}
}

func (r *patReader) fromList(fl *ast.FieldList) ([]*px, bool) {
	var out []*px
	if fl == nil {
		return nil, true
	}
	for _, f := range fl.List {
		if len(f.Names) != 0 {
			return nil, false
		}
		p := r.fromExpr(f.Type)
		if p == nil {
			return nil, false
		}
		out = append(out, p)
	}
	return out, true
}

func (r *patReader) fromExpr(e ast.Expr) *px {
	switch e := e.(type) {
	case *ast.ParenExpr:
		return r.fromExpr(e.X)
	case *ast.Ident:
		if e.Name == "SEQ__" {
			return &px{k: "seq"}
		}
		if strings.HasPrefix(e.Name, "VAR_") {
			return &px{k: "var", s: strings.TrimPrefix(e.Name, "VAR_")}
		}
		for _, d := range patLeaves {
			if d.pat == e.Name {
				return leafNode(d)
			}
		}
	case *ast.SelectorExpr:
		txt := types.ExprString(e)
		if id, ok := e.X.(*ast.Ident); ok && r.res != nil && txt != "unsafe.Pointer" {
			return r.res(id.Name, e.Sel.Name)
		}
		for _, d := range patLeaves {
			if d.pat == txt {
				return leafNode(d)
			}
		}
		for _, d := range extraLeaves {
			if d.pat == txt {
				return leafNode(d)
			}
		}
	case *ast.StarExpr:
		if p := r.fromExpr(e.X); p != nil {
			return &px{k: "ptr", subs: []*px{p}}
		}
	case *ast.ArrayType:
		p := r.fromExpr(e.Elt)
		if p == nil {
			return nil
		}
		if e.Len == nil {
			return &px{k: "slice", subs: []*px{p}}
		}
		if id, ok := e.Len.(*ast.Ident); ok && strings.HasPrefix(id.Name, "VAR_") {
			return &px{k: "arrvar", s: strings.TrimPrefix(id.Name, "VAR_"), subs: []*px{p}}
		}
		if lit, ok := e.Len.(*ast.BasicLit); ok && lit.Kind == token.INT {
			// the length the literal denotes in Go (010 is 8, 0x10 is 16, 1_0 is 10), in decimal
			v := constant.MakeFromLiteral(lit.Value, token.INT, 0)
			if n, exact := constant.Int64Val(v); exact && v.Kind() == constant.Int {
				return &px{k: "arr", s: fmt.Sprint(n), subs: []*px{p}}
			}
		}
	case *ast.MapType:
		k, v := r.fromExpr(e.Key), r.fromExpr(e.Value)
		if k != nil && v != nil {
			return &px{k: "map", subs: []*px{k, v}}
		}
	case *ast.ChanType:
		p := r.fromExpr(e.Value)
		if p == nil {
			return nil
		}
		dir := "chan"
		if e.Dir == ast.SEND {
			dir = "chan<-"
		} else if e.Dir == ast.RECV {
			dir = "<-chan"
		}
		return &px{k: "chan", s: dir, subs: []*px{p}}
	case *ast.FuncType:
		ps, ok1 := r.fromList(e.Params)
		rs, ok2 := r.fromList(e.Results)
		if ok1 && ok2 {
			return &px{k: "func", n: len(ps), subs: append(ps, rs...)}
		}
	case *ast.StructType:
		fs, ok := r.fromList(e.Fields)
		if ok {
			return &px{k: "struct", subs: fs}
		}
	case *ast.InterfaceType:
		if len(e.Methods.List) == 0 {
			return leafNode(leafDef{"interface{}", "interface{}", "PBuiltin (T (HInterface []) [])"})
		}
		if len(e.Methods.List) == 1 {
			if id, ok := e.Methods.List[0].Type.(*ast.Ident); ok && id.Name == "SEQ__" {
				return &px{k: "anyiface"}
			}
		}
	}
	return nil
}
