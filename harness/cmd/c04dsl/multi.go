package main

// Several rules files loaded into ONE engine (as `-rules a.go,b.go` does): every file declares helper functions
// with the same names (minSize, wantShape, describe ...) and its own constants, and custom filters / Do functions
// that call "their" helper. In Go terms a file is a package of its own: what a filter of file i computes is decided
// by file i alone, whatever was loaded before or after it. The oracle is go/types on the probe sites with file i's
// constants. Load orders: ascending, descending, a file loaded again under other group names (re-declaration of all
// its functions), a file whose filter calls a helper declared further down (legal Go; the loader may reject the
// file - then nothing of it is loaded - but must not bind the call to the helper of an earlier file), and a
// RunnerState created before the later loads.

import (
	"fmt"
	"go/token"
	"go/types"
	"math/rand"
	"strings"

	"verif/harness/internal/hutil"

	"github.com/quasilyte/go-ruleguard/ruleguard"
)

type multiFile struct {
	tag     string // group name prefix
	minSize int64
	shape   int // 0 pointer, 1 slice, 2 array
	word    string
	forward bool // helpers declared after their callers
}

func (f *multiFile) source() string {
	helpers := fmt.Sprintf("func minSize() int {\n\treturn %d\n}\n\nfunc shapeKind() int {\n\treturn %d\n}\n\nfunc word() string {\n\treturn `%s`\n}\n\n"+
		"func sizeAtLeast(ctx *dsl.VarFilterContext, n int) bool {\n\treturn ctx.SizeOf(ctx.Type) >= n\n}\n\n", f.minSize, f.shape, f.word)
	callers := "func bigEnough(ctx *dsl.VarFilterContext) bool {\n\treturn sizeAtLeast(ctx, minSize())\n}\n\n" +
		"func hasShape(ctx *dsl.VarFilterContext) bool {\n\tif shapeKind() == 0 {\n\t\treturn types.AsPointer(ctx.Type) != nil\n\t}\n" +
		"\tif shapeKind() == 1 {\n\t\treturn types.AsSlice(ctx.Type) != nil\n\t}\n\treturn types.AsArray(ctx.Type) != nil\n}\n\n" +
		"func describe(ctx *dsl.DoContext) {\n\tctx.SetReport(word() + `:` + ctx.Var(`x`).Type().String())\n}\n\n"
	var sb strings.Builder
	sb.WriteString("package gorules\n\nimport (\n\t\"github.com/quasilyte/go-ruleguard/dsl\"\n\t\"github.com/quasilyte/go-ruleguard/dsl/types\"\n)\n\n")
	if f.forward {
		sb.WriteString(callers + helpers)
	} else {
		sb.WriteString(helpers + callers)
	}
	fmt.Fprintf(&sb, "func %s_size(m dsl.Matcher) {\n\tm.Match(`{ probe($x) }`).Where(m[\"x\"].Filter(bigEnough)).Report(`%s_size`)\n}\n\n", f.tag, f.tag)
	fmt.Fprintf(&sb, "func %s_shape(m dsl.Matcher) {\n\tm.Match(`{ probe($x) }`).Where(m[\"x\"].Filter(hasShape)).Report(`%s_shape`)\n}\n\n", f.tag, f.tag)
	fmt.Fprintf(&sb, "func %s_word(m dsl.Matcher) {\n\tm.Match(`{ probe($x) }`).Do(describe)\n}\n", f.tag)
	return sb.String()
}

// runMulti returns (cases, mismatches).
func runMulti(seed int64, tmp string, brief bool) (int, int) {
	rng := rand.New(rand.NewSource(seed*7919 + 5))
	t, _, err := checkTarget(tmp, "multi/target.go", []byte(genTarget(seed, 0)))
	if err != nil {
		fatal(fmt.Sprintf("multi: probe file: %v", err))
	}
	sites := collectSites(t)
	sizes := types.SizesFor("gc", "amd64")
	sizePool := []int64{1, 2, 8, 9, 16, 24, 25, 40, 100}
	words := []string{"alpha", "beta", "gamma", "delta", "eps"}
	mk := func(i int) *multiFile {
		return &multiFile{tag: fmt.Sprintf("m%d", i), minSize: sizePool[rng.Intn(len(sizePool))], shape: rng.Intn(3), word: words[i%len(words)]}
	}
	files := []*multiFile{mk(0), mk(1), mk(2)}
	for files[1].minSize == files[0].minSize {
		files[1].minSize = sizePool[rng.Intn(len(sizePool))]
	}
	again := *files[0]
	again.tag = "m0again"
	fwd := *mk(3)
	fwd.forward = true
	fwd.minSize = files[0].minSize + 1000 // nothing is that big: a call bound to an earlier file's minSize shows at once

	orders := []struct {
		name  string
		files []*multiFile
	}{
		{"ascending", []*multiFile{files[0], files[1], files[2]}},
		{"descending", []*multiFile{files[2], files[1], files[0]}},
		{"reloaded", []*multiFile{files[0], files[1], &again}},
		{"forward-call-last", []*multiFile{files[0], files[1], &fwd}},
		{"forward-call-middle", []*multiFile{files[1], &fwd, files[2]}},
	}
	cases, bad := 0, 0
	emit := func(order, what string, s *site, exp, obs interface{}, same bool) {
		cases++
		if !same {
			bad++
		} else if brief {
			return
		}
		label, off := "", 0
		if s != nil {
			label, off = s.Label, s.Off
		}
		enc.Encode(directLine{K: "direct", File: -1, Site: label, Off: off, What: "multi[" + order + "]:" + what, Expected: exp, Observed: obs})
	}
	for _, ord := range orders {
		e := ruleguard.NewEngine()
		// a runner state that is older than every Load of this engine
		state := ruleguard.NewRunnerState(e)
		var loaded []*multiFile
		for li, f := range ord.files {
			ctx := &ruleguard.LoadContext{Fset: token.NewFileSet()}
			err := e.Load(ctx, fmt.Sprintf("%s.go", f.tag), strings.NewReader(f.source()))
			if err != nil {
				if !f.forward {
					emit(ord.name, "load "+f.tag, nil, "loaded", "error: "+err.Error(), false)
				} else {
					emit(ord.name, "load "+f.tag+" (rejected: calls a helper declared further down)", nil, "rejected or Go semantics", "rejected", true)
				}
			} else {
				loaded = append(loaded, f)
			}
			// run after every load: the files loaded so far must mean what they mean alone
			st := state
			if li%2 == 1 {
				st = nil
			}
			reports, pmsg := hutil.Run(e, t, 0, "", st)
			if pmsg != "" {
				emit(ord.name, fmt.Sprintf("run after %d loads", li+1), nil, "no panic", pmsg, false)
				continue
			}
			got := map[string]map[int]string{}
			for _, r := range reports {
				if got[r.Group] == nil {
					got[r.Group] = map[int]string{}
				}
				got[r.Group][r.Pos] = r.Message
			}
			for _, lf := range loaded {
				for _, s := range sites {
					if s.Two || s.NoSize {
						continue
					}
					step := fmt.Sprintf(" after %d loads", li+1)
					_, obsSize := got[lf.tag+"_size"][s.BlockOff]
					expSize := sizes.Sizeof(s.T) >= lf.minSize
					emit(ord.name, lf.tag+"_size"+step, s, expSize, obsSize, expSize == obsSize)
					_, obsShape := got[lf.tag+"_shape"][s.BlockOff]
					expShape := false
					switch lf.shape {
					case 0:
						expShape = oPtr(s.T) != nil
					case 1:
						expShape = oSlice(s.T) != nil
					default:
						expShape = oArray(s.T) != nil
					}
					emit(ord.name, lf.tag+"_shape"+step, s, expShape, obsShape, expShape == obsShape)
					expWord := lf.word + ":" + s.T.String()
					obsWord, ok := got[lf.tag+"_word"][s.BlockOff]
					emit(ord.name, lf.tag+"_word"+step, s, expWord, obsWord, ok && expWord == obsWord)
				}
			}
		}
	}
	return cases, bad
}
