package main

// Probe target generator: a catalogue of types and values followed by functions full of
// `{ probe(<expr>) }` / `{ probe2(<expr>, <expr>) }` statements. The PRNG decides field lists, array lengths,
// the extra composite types and which expression forms are emitted.

import (
	"fmt"
	"math/rand"
	"strings"
)

type gen struct {
	rng   *rand.Rand
	sb    strings.Builder
	exprs []string // every probe expression emitted so far (for probe2 pairing)
	plain []string // subset safe for probe2 (no generic instantiations)
	seen  map[string]bool
}

var fieldPool = []string{
	"int", "string", "bool", "byte", "int16", "float64", "*int", "[]byte", "[2]int", "error",
	"map[string]int", "func()", "chan int", "struct{}", "interface{}", "uintptr", "complex128", "[0]int",
	"Empty", "*Empty", "int32", "[3]string", "uint8", "**string",
}

var arrayLens = []int{0, 1, 2, 3, 4, 5, 7, 8, 16}

var leafTypes = []string{
	"int", "string", "bool", "byte", "uint8", "rune", "int16", "int64", "uint32", "float64", "complex128", "uintptr",
	"error", "interface{}", "any", "struct{}", "io.Reader", "io.Writer", "fmt.Stringer", "sync.Mutex", "bytes.Buffer",
	"os.File",
	"Empty", "S1", "S2", "S3", "S4", "SR", "WithMu", "WithMuLast", "WithMuPtr", "WithMuField", "WithEmbPtr", "WithEmbIface",
	"MyInt", "MyInt2", "MyStr", "MyBytes", "MyU8s", "MyArr", "MyArr0", "MyPtr", "MyPP", "MyFn", "MyMap", "MyChan",
	"Local", "MyErrI", "MyAny", "MyRS",
	"ErrV", "ErrP", "ErrStr", "StrV", "StrP", "RdV", "RdP", "LocV", "LocP", "AllV", "WrongSig",
	"EmbErr", "EmbErrP", "EmbErrPV", "Z0", "ZS", "ZArr", "Box[int]", "Box[string]", "PairG[string, int]",
	"PingV", "PingP", "PingWrong", "PingAny", "PingRS", "FlateRs", "FlateRsW", "FlRd", "ImgV", "ImgRO", "ImgWrong", "CtxV", "WtV",
	"TxtM", "FlagV", "context.Context", "image.Image", "io.WriterTo", "color.Color",
}

var keyTypes = []string{"string", "int", "MyInt", "[2]int", "*S1", "error", "bool"}

// namedVars are the catalogue types that get a package-level variable `v_<Name>`.
var namedVars = []string{
	"Empty", "S1", "S2", "S3", "S4", "SR", "WithMu", "WithMuLast", "WithMuPtr", "WithMuField", "WithEmbPtr", "WithEmbIface",
	"MyInt", "MyInt2", "MyStr", "MyBytes", "MyU8s", "MyArr", "MyArr0", "MyPtr", "MyPP", "MyFn", "MyMap", "MyChan",
	"Local", "MyErrI", "MyAny", "MyRS",
	"ErrV", "ErrP", "ErrStr", "StrV", "StrP", "RdV", "RdP", "LocV", "LocP", "AllV", "WrongSig",
	"EmbErr", "EmbErrP", "EmbErrPV", "Z0", "ZS", "ZArr", "MyArr4", "MyBool",
	"PingV", "PingP", "PingWrong", "PingAny", "PingRS", "FlateRs", "FlateRsW", "FlRd", "ImgV", "ImgRO", "ImgWrong", "CtxV", "WtV",
	"TxtM", "FlagV",
}

// witnesses returns expressions chosen so that every pair of rules.go has sites it accepts; file idx takes every
// second one (so two consecutive files cover all of them), the element types of the array witnesses vary.
func (g *gen) witnesses() []string {
	var out []string
	for _, ts := range identTypes {
		out = append(out, "*new("+strings.ReplaceAll(ts, "target.", "")+")")
	}
	for _, k := range arrLens {
		out = append(out, fmt.Sprintf("*new([%d]%s)", k, g.pick(leafTypes)))
	}
	out = append(out,
		"*new(*interface{})", "*new(*any)", "*new(*Local)", "*new([2][2]int)", "*new([3][3]string)", "*new(struct{ a, b string })",
		"*new(struct{ a *int; b *int })", "*new(struct{ a int; b string; c bool })", "*new([]**int)", "*new([5]*S1)", "*new(*[0]int)",
		"*new(*[]S1)", "*new(*struct{ a int })", "*new([][]string)", "*new([2][7]bool)", "*new(struct{ a, b, c int32 })",
		"*new([5]int)", "*new([6]int64)", "*new([4]int)", "*new(struct{ a, b, c, d int8 })", "*new(struct{ a int8; b int16 })",
		"*new(struct{ *S1; x int })", "*new(struct{ sync.Mutex; x, y, z int })", "*new(struct{ x int; sync.Mutex })",
		"*new(*WithMu)", "v_MyArr4", "v_MyBool", "*new([]StrV)", "*new([3]ErrV)", "*new([]error)", "*new(*ErrV)", "*new(*error)",
		"*new(***S1)", "*new(****int)", "*new(*[4]int)", "*new([2]MyArr)", "*new(struct{ a [0]int; b string })")
	// cross-universe witnesses: implementers (and near misses) of interfaces whose method signatures mention named
	// types, the interfaces living in packages this file imports (context, io, image) and does not import
	// (database/sql/driver, compress/flate, image/draw, encoding, flag), and values of the types of log.Logger's fields
	for _, n := range crossTypes {
		out = append(out, "*new("+n+")", "&"+n+"{}")
	}
	out = append(out, "*new(interface{})", "interface{}(nil)", "*new([]int)", "*new(any)", "io.Writer(nil)", "*new(sync.Mutex)", "context.Context(nil)", "image.Image(nil)", "io.WriterTo(nil)",
		"*new(context.Context)", "*new(io.Writer)", "*new(*sync.Mutex)", "*new([]io.Writer)", "*new(io.Reader)",
		"*new(time.Time)", "*new(color.Color)", "*new(image.Rectangle)", "*new(func(context.Context) error)")
	return out
}

// literalable: named types that accept a `T{}` composite literal.
var literalable = map[string]bool{
	"Empty": true, "S1": true, "S2": true, "S3": true, "S4": true, "SR": true, "WithMu": true, "WithMuLast": true,
	"WithMuPtr": true, "WithMuField": true, "WithEmbPtr": true, "WithEmbIface": true, "MyBytes": true, "MyU8s": true,
	"MyArr": true, "MyArr0": true, "MyMap": true, "ErrV": true, "ErrP": true, "StrV": true, "StrP": true, "RdV": true,
	"RdP": true, "LocV": true, "LocP": true, "AllV": true, "WrongSig": true, "EmbErr": true, "EmbErrP": true,
	"EmbErrPV": true, "Z0": true, "ZS": true, "ZArr": true,
	"PingV": true, "PingP": true, "PingWrong": true, "PingAny": true, "PingRS": true, "FlateRs": true, "FlateRsW": true, "FlRd": true,
	"ImgV": true, "ImgRO": true, "ImgWrong": true, "CtxV": true, "WtV": true, "TxtM": true, "FlagV": true,
}

// crossTypes: catalogue types probing Implements across type-check universes (see witnesses).
var crossTypes = []string{"PingV", "PingP", "PingWrong", "PingAny", "PingRS", "FlateRs", "FlateRsW", "FlRd", "ImgV", "ImgRO", "ImgWrong",
	"CtxV", "WtV", "TxtM", "FlagV"}

var fixedExprs = []string{
	"1", `"s"`, "1.5", "'a'", "true", "1 << 3", `len("abc")`, "2i", `"a" + "b"`,
	`errors.New("x")`, `fmt.Errorf("x")`, "os.Stdout", "os.Stdin", `strings.NewReader("r")`, "bytes.NewBuffer(nil)",
	`bytes.NewBufferString("s")`, "&bytes.Buffer{}", "bytes.Buffer{}", "sync.Mutex{}", "&sync.Mutex{}", "new(sync.Mutex)",
	"&sync.RWMutex{}", "io.Reader(os.Stdin)", "io.Reader(nil)", "error(nil)", "fmt.Stringer(nil)", "io.EOF",
	"os.ErrNotExist", "func() {}", `func(a int) string { return "" }`, "v_ErrV.Error", "(*ErrP).Error", "ErrV.Error",
	"probe", "fmt.Sprint", "struct{}{}", "struct{ a int }{}", "&struct{ a, b int }{}", "&struct{}{}",
	"struct{ sync.Mutex }{}", "struct{ x, y string }{}", "struct{ a int; s string; b bool }{}",
	"[]interface{}{1}", `[...]string{"a", "b"}`, "[2][3]int{}", "[3][3]byte{}", "[0][0]int{}", "[2][]string{}",
	"&[4]int{}", "[4]int{}", "[3]int{1, 2, 3}", "[3]*int{}", "[1000]int{}", `[]string{"q"}`, `[]byte("xyz")`, `[]rune("xyz")`,
	"[]uint8{1}", "[]*int{}", "[][]int{}", "&[]string{}", "[]error{}", "[]S1{}", "[2]*ErrP{}", "[]int{1}",
	"string([]byte{65})", "uintptr(0)", "int8(1)", "float32(1)", "complex64(1)", "uint16(7)", "rune('x')", "byte(1)",
	"new(int)", "new(*int)", "new(**int)", "new(***int)", "make([]int, 2)", "make(map[string]int)", "make(chan int)",
	"make(<-chan string)", "any(1)", "interface{}(nil)", "interface{ Foo() int }(nil)", "Box[int]{}", "&Box[string]{}",
	"PairG[string, int]{}", "[]Box[int]{}", "v_MyAny.(error)", "v_Local.(LocV)", "v_MyAny.(*S1)", "mkS1()", "mkPtrS2()",
	"mkErr()", "mkReader()", "mkArr()", "mkSlice()", "v_S2.f0", "v_S2.f1", "v_WithMu.Mutex", "&v_WithMu.Mutex",
	"v_WithEmbPtr.S1", "v_MyArr[:]", "v_MyBytes[1:]", "v_MyMap[\"k\"]", "<-v_MyChan", "v_MyFn(1)", "*v_MyPtr", "**v_MyPP",
	"MyInt(7)", "MyInt2(7)", `MyStr("s")`, `ErrStr("e")`, "MyBytes(nil)", "MyPtr(nil)", "(*S1)(nil)", "(*ErrP)(nil)",
	"error(ErrV{})", "error(&ErrP{})", "fmt.Stringer(StrV{})", "io.Reader(&RdP{})", "Local(LocV{})", "MyErrI(nil)",
	"MyRS(nil)", "v_MyInt + 1", "v_MyStr + \"x\"", "-v_MyInt", "!true", "v_MyInt == 1", "&v_MyArr[0]", "new(os.File)",
	"*new(os.File)", "[]uintptr{}", "[8]uint16{}", "new([16]byte)", "[16]byte{}", "map[MyInt]*S1{}",
}

func (g *gen) pick(l []string) string { return l[g.rng.Intn(len(l))] }

func (g *gen) fields(prefix string, n int) string {
	var parts []string
	for i := 0; i < n; i++ {
		parts = append(parts, fmt.Sprintf("%s%d %s", prefix, i, g.pick(fieldPool)))
	}
	return strings.Join(parts, "; ")
}

func (g *gen) randType(d int) string {
	if d <= 0 || g.rng.Intn(5) == 0 {
		return g.pick(leafTypes)
	}
	switch g.rng.Intn(10) {
	case 0, 1, 2:
		return "*" + g.randType(d-1)
	case 3, 4:
		return "[]" + g.randType(d-1)
	case 5, 6:
		return fmt.Sprintf("[%d]%s", arrayLens[g.rng.Intn(len(arrayLens))], g.randType(d-1))
	case 7:
		switch g.rng.Intn(3) {
		case 0:
			return "map[" + g.pick(keyTypes) + "]" + g.randType(d-1)
		case 1:
			return "chan " + g.randType(d-1)
		default:
			return "func(" + g.randType(d-1) + ") " + g.randType(d-1)
		}
	case 8:
		switch g.rng.Intn(4) {
		case 0:
			return "struct{ sync.Mutex; a " + g.randType(d-1) + " }"
		case 1:
			return "struct{ a " + g.randType(d-1) + " }"
		case 2:
			return "struct{ *S1; a " + g.randType(d-1) + "; b " + g.randType(d-1) + " }"
		default:
			return "struct{ a " + g.randType(d-1) + "; b " + g.randType(d-1) + " }"
		}
	default:
		return g.pick(leafTypes)
	}
}

func (g *gen) add(e string) {
	if g.seen[e] {
		return
	}
	g.seen[e] = true
	g.exprs = append(g.exprs, e)
	if !strings.Contains(e, "Box[") && !strings.Contains(e, "PairG[") {
		g.plain = append(g.plain, e)
	}
}

// genTarget returns the source of probe file number idx.
func genTarget(seed int64, idx int) string {
	g := &gen{rng: rand.New(rand.NewSource(seed*1000003 + int64(idx)*7919 + 17)), seen: map[string]bool{}}
	w := func(format string, args ...interface{}) { fmt.Fprintf(&g.sb, format, args...) }

	w("package target\n\nimport (\n\t\"bytes\"\n\t\"context\"\n\t\"errors\"\n\t\"fmt\"\n\t\"image\"\n\t\"image/color\"\n\t\"io\"\n\t\"os\"\n\t\"strings\"\n\t\"sync\"\n\t\"time\"\n)\n\n")
	w("var (\n\t_ = errors.New\n\t_ = strings.NewReader\n\t_ bytes.Buffer\n\t_ sync.Mutex\n\t_ io.Reader\n\t_ fmt.Stringer\n\t_ = os.Stdout\n\t_ context.Context\n\t_ image.Image\n\t_ color.Color\n\t_ time.Time\n)\n\n")
	w("func probe(args ...interface{}) {}\n\nfunc probe0(args ...interface{}) {}\n\nfunc probe2(a, b interface{}) {}\n\n")

	// ---- catalogue of named types (names are fixed, contents vary)
	w("type Empty struct{}\n")
	w("type S1 struct{ %s }\n", g.fields("f", 1))
	w("type S2 struct{ %s }\n", g.fields("f", 2))
	w("type S3 struct{ %s }\n", g.fields("f", 3))
	w("type S4 struct{ %s }\n", g.fields("f", 4))
	w("type SR struct{ %s }\n", g.fields("f", g.rng.Intn(6)))
	if n := g.rng.Intn(3); n == 0 {
		w("type WithMu struct{ sync.Mutex }\n")
	} else {
		w("type WithMu struct{ sync.Mutex; %s }\n", g.fields("g", n))
	}
	w("type WithMuLast struct{ %s; sync.Mutex }\n", g.fields("g", 1+g.rng.Intn(2)))
	w("type WithMuPtr struct{ *sync.Mutex }\n")
	w("type WithMuField struct{ mu sync.Mutex; %s }\n", g.fields("g", 1))
	w("type WithEmbPtr struct{ *S1; tag string }\n")
	w("type WithEmbIface struct{ error; io.Reader }\n")
	w("type MyInt int\ntype MyInt2 MyInt\ntype MyStr string\ntype MyBytes []byte\ntype MyU8s []uint8\n")
	w("type MyArr [%d]int\n", arrayLens[1+g.rng.Intn(len(arrayLens)-1)])
	w("type MyArr4 [4]int\ntype MyBool bool\n")
	w("type MyArr0 [0]string\ntype MyPtr *int\ntype MyPP **S1\ntype MyFn func(int) string\n")
	w("type MyMap map[string]int\ntype MyChan chan int\n")
	w("type Local interface{ Foo() int }\ntype MyErrI interface{ error }\ntype MyAny interface{}\n")
	w("type MyRS interface{ io.Reader; fmt.Stringer }\n\n")

	w("type ErrV struct{ %s }\nfunc (e ErrV) Error() string { return \"\" }\n", g.fields("e", g.rng.Intn(3)))
	w("type ErrP struct{ %s }\nfunc (e *ErrP) Error() string { return \"\" }\n", g.fields("e", g.rng.Intn(3)))
	w("type ErrStr string\nfunc (e ErrStr) Error() string { return string(e) }\n")
	w("type StrV struct{ %s }\nfunc (s StrV) String() string { return \"\" }\n", g.fields("s", g.rng.Intn(3)))
	w("type StrP struct{ %s }\nfunc (s *StrP) String() string { return \"\" }\n", g.fields("s", g.rng.Intn(3)))
	w("type RdV struct{ %s }\nfunc (r RdV) Read(p []byte) (int, error) { return 0, nil }\n", g.fields("r", g.rng.Intn(3)))
	w("type RdP struct{ %s }\nfunc (r *RdP) Read(p []byte) (int, error) { return 0, nil }\n", g.fields("r", g.rng.Intn(3)))
	w("type LocV struct{ %s }\nfunc (l LocV) Foo() int { return 0 }\n", g.fields("l", g.rng.Intn(3)))
	w("type LocP struct{ %s }\nfunc (l *LocP) Foo() int { return 0 }\n", g.fields("l", g.rng.Intn(3)))
	w("type AllV struct{}\nfunc (AllV) Error() string { return \"\" }\nfunc (AllV) String() string { return \"\" }\n")
	w("func (AllV) Read(p []byte) (int, error) { return 0, nil }\nfunc (AllV) Foo() int { return 0 }\n")
	w("func (AllV) Write(p []byte) (int, error) { return 0, nil }\n")
	w("type WrongSig struct{}\nfunc (WrongSig) Error() int { return 0 }\nfunc (WrongSig) String(int) string { return \"\" }\n")
	w("func (WrongSig) Read(p []byte) int { return 0 }\nfunc (WrongSig) Foo() string { return \"\" }\n")
	w("type EmbErr struct{ ErrV }\ntype EmbErrP struct{ *ErrP }\ntype EmbErrPV struct{ ErrP }\n")
	w("type Z0 [0]int\ntype ZS struct{ a [0]int; b struct{} }\ntype ZArr [%d]struct{}\n", 1+g.rng.Intn(9))
	w("type Box[T any] struct{ v T }\nfunc (b Box[T]) String() string { return \"\" }\n")
	w("type PairG[K comparable, V any] struct{ k K; v V }\n\n")

	// implementers of interfaces from other type-check universes (fields vary, method sets are fixed)
	w("type PingV struct{ %s }\nfunc (PingV) Ping(ctx context.Context) error { return nil }\n", g.fields("p", g.rng.Intn(2)))
	w("type PingP struct{ %s }\nfunc (*PingP) Ping(ctx context.Context) error { return nil }\n", g.fields("p", g.rng.Intn(2)))
	w("type PingWrong struct{}\nfunc (PingWrong) Ping(cancel context.CancelFunc) error { return nil }\n")
	w("type PingAny struct{}\nfunc (PingAny) Ping(ctx interface{}) error { return nil }\n")
	w("type PingRS struct{}\nfunc (PingRS) Ping(ctx context.Context) error { return nil }\nfunc (PingRS) ResetSession(ctx context.Context) error { return nil }\n")
	w("type FlateRs struct{ %s }\nfunc (FlateRs) Reset(r io.Reader, dict []byte) error { return nil }\n", g.fields("q", g.rng.Intn(2)))
	w("type FlateRsW struct{}\nfunc (FlateRsW) Reset(w io.Writer, dict []byte) error { return nil }\n")
	w("type FlRd struct{}\nfunc (FlRd) Read(p []byte) (int, error) { return 0, nil }\nfunc (FlRd) ReadByte() (byte, error) { return 0, nil }\n")
	w("type ImgRO struct{}\nfunc (ImgRO) ColorModel() color.Model { return nil }\nfunc (ImgRO) Bounds() image.Rectangle { return image.Rectangle{} }\nfunc (ImgRO) At(x, y int) color.Color { return nil }\n")
	w("type ImgV struct{ ImgRO }\nfunc (ImgV) Set(x, y int, c color.Color) {}\n")
	w("type ImgWrong struct{ ImgRO }\nfunc (ImgWrong) Set(x, y int, c color.Model) {}\n")
	w("type CtxV struct{}\nfunc (CtxV) Deadline() (time.Time, bool) { return time.Time{}, false }\nfunc (CtxV) Done() <-chan struct{} { return nil }\n")
	w("func (CtxV) Err() error { return nil }\nfunc (CtxV) Value(key any) any { return nil }\n")
	w("type WtV struct{}\nfunc (WtV) WriteTo(w io.Writer) (int64, error) { return 0, nil }\n")
	w("type TxtM struct{}\nfunc (TxtM) MarshalText() ([]byte, error) { return nil, nil }\n")
	w("type FlagV struct{}\nfunc (FlagV) String() string { return \"\" }\nfunc (FlagV) Set(string) error { return nil }\n\n")

	w("func mkS1() S1 { return S1{} }\nfunc mkPtrS2() *S2 { return nil }\nfunc mkErr() error { return nil }\n")
	w("func mkReader() io.Reader { return nil }\nfunc mkArr() [%d]string { return [%d]string{} }\n", 2+idx%3, 2+idx%3)
	w("func mkSlice() []*S3 { return nil }\n\n")

	w("var (\n")
	for _, n := range namedVars {
		w("\tv_%s %s\n", n, n)
	}
	nRand := 10 + g.rng.Intn(6)
	var rtypes []string
	for i := 0; i < nRand; i++ {
		t := g.randType(1 + g.rng.Intn(3))
		rtypes = append(rtypes, t)
		w("\tr%d %s\n", i, t)
	}
	w(")\n\n")

	// ---- expressions
	for _, n := range namedVars {
		v := "v_" + n
		forms := []string{v, "&" + v, "(" + v + ")", "*&" + v, "p_" + n, "pp_" + n, "ppp_" + n, "*p_" + n, "**pp_" + n, "*pp_" + n}
		if literalable[n] {
			forms = append(forms, n+"{}", "&"+n+"{}")
		}
		forms = append(forms, "[]"+n+"{}", "[2]"+n+"{}", "(*"+n+")(nil)", "new("+n+")", "*new("+n+")")
		if g.rng.Intn(3) == 0 {
			g.add(v)
		}
		g.add(forms[g.rng.Intn(len(forms))])
	}
	for i, t := range rtypes {
		v := fmt.Sprintf("r%d", i)
		forms := []string{v, "&" + v, "*new(" + t + ")", "new(" + t + ")", "[]" + t + "{}",
			fmt.Sprintf("[%d]%s{}", arrayLens[g.rng.Intn(len(arrayLens))], t), "(*" + t + ")(nil)", "&[]" + t + "{}",
			"(map[string]" + t + ")(nil)", "[...]" + t + "{}", "func() " + t + " { panic(0) }()", "(<-chan " + t + ")(nil)"}
		if strings.HasPrefix(t, "*") {
			forms = append(forms, "*"+v, "*"+v)
		}
		if strings.HasPrefix(t, "[]") {
			forms = append(forms, v+"[0]", v+"[1:]")
		}
		g.add(v)
		g.add(forms[g.rng.Intn(len(forms))])
	}
	perm := g.rng.Perm(len(fixedExprs))
	nFixed := len(fixedExprs)/5 + g.rng.Intn(len(fixedExprs)/16)
	for _, j := range perm[:nFixed] {
		g.add(fixedExprs[j])
	}
	for j, e := range g.witnesses() {
		if (int64(j)+int64(idx)+seed)%2 == 0 {
			g.add(e)
		}
	}
	// shuffle the emission order
	order := g.rng.Perm(len(g.exprs))

	w("func sites() {\n")
	for _, n := range namedVars {
		w("\tp_%s := &v_%s\n\tpp_%s := &p_%s\n\tppp_%s := &pp_%s\n\t_, _, _ = p_%s, pp_%s, ppp_%s\n", n, n, n, n, n, n, n, n, n)
	}
	for _, j := range order {
		w("\t{ probe(%s) }\n", g.exprs[j])
	}
	w("\t{ probe0(nil) }\n\t{ probe0((nil)) }\n")
	w("}\n\n")

	// probe2 sites use package-level-safe expressions only (no p_/pp_ locals)
	var glob []string
	for _, e := range g.plain {
		if !strings.Contains(e, "p_") {
			glob = append(glob, e)
		}
	}
	w("func sites2() {\n")
	n2 := 24 + g.rng.Intn(8)
	for i := 0; i < n2; i++ {
		a := glob[g.rng.Intn(len(glob))]
		var b string
		switch g.rng.Intn(5) {
		case 0:
			b = a
		case 1:
			b = "(" + a + ")"
		case 2:
			b = "[]interface{}{" + a + "}[0]"
		default:
			b = glob[g.rng.Intn(len(glob))]
		}
		if g.rng.Intn(4) == 0 {
			// same constructor on both sides: identical iff the operands are
			switch g.rng.Intn(3) {
			case 0:
				a, b = "[]interface{}{"+a+"}", "[]interface{}{"+b+"}"
			case 1:
				a, b = "func() {}", "func() {}"
			default:
				a, b = "new(int)", "new(int)"
			}
		}
		w("\t{ probe2(%s, %s) }\n", a, b)
	}
	w("}\n")
	return g.sb.String()
}
