// c04dsl: observations for property C04 (second half): "the dsl/types helper API available inside a custom
// filter / Do function returns what the corresponding go/types operation returns, so a custom filter written
// to mirror a built-in predicate accepts the same matches".
//
//	pair   : b_<name> (built-in Where predicate) vs c_<name> (custom filter through the libdsl.go natives) per probe site
//	direct : custom filters / Do functions with no built-in twin (and the custom side of most pairs) vs go/types
//	panic  : a run (or, in the per-group fallback, a single group) panicked
//
// Output: one JSON object per line on stdout. Files: main.go (driver), gen.go (probe file generator),
// rules.go (rule groups, quasigo sources, go/types oracles).
package main

import (
	"encoding/json"
	"flag"
	"fmt"
	"go/ast"
	"go/importer"
	"go/parser"
	"go/token"
	"go/types"
	"os"
	"path/filepath"
	"strings"
	"time"

	"verif/harness/internal/hutil"

	"github.com/quasilyte/go-ruleguard/ruleguard"
)

type site struct {
	Off      int // offset of the probe(...) call
	BlockOff int // offset of the enclosing `{` (the node the rules report)
	BlockEnd int
	Two      bool
	NoSize   bool // probe0(...): not offered to the groups that compute a size
	Text     string
	T        types.Type
	Text2    string
	T2       types.Type
	Label    string // source text of the argument list
}

type oenv struct {
	t     *hutil.Target
	sizes types.Sizes
	pkgs  map[string]*types.Package
	imp   types.Importer // the importer the probe file was type-checked with: one universe for the oracle
}

// checkTarget is hutil.CheckTarget that also returns the importer, so the go/types oracle can load packages the
// probe file does not import into the probe file's own type-check universe (the engine never sees them: it gets
// t.Pkg, whose import list does not change).
func checkTarget(dir, name string, src []byte) (*hutil.Target, types.Importer, error) {
	path := filepath.Join(dir, name)
	if err := os.MkdirAll(filepath.Dir(path), 0o755); err != nil {
		return nil, nil, err
	}
	if err := os.WriteFile(path, src, 0o644); err != nil {
		return nil, nil, err
	}
	fset := token.NewFileSet()
	f, err := parser.ParseFile(fset, path, src, parser.ParseComments)
	if err != nil {
		return nil, nil, err
	}
	info := hutil.NewInfo()
	imp := importer.ForCompiler(fset, "source", nil)
	conf := types.Config{Importer: imp, Error: func(error) {}}
	pkg, err := conf.Check(f.Name.Name, fset, []*ast.File{f}, info)
	if err != nil {
		return nil, nil, fmt.Errorf("typecheck %s: %v", name, err)
	}
	return &hutil.Target{Fset: fset, File: f, Info: info, Pkg: pkg, Src: src, Path: path}, imp, nil
}

func newOenv(t *hutil.Target, imp types.Importer) *oenv {
	o := &oenv{t: t, imp: imp, sizes: types.SizesFor("gc", "amd64"), pkgs: map[string]*types.Package{t.Pkg.Path(): t.Pkg}}
	for _, imp := range t.Pkg.Imports() {
		o.pkgs[imp.Path()] = imp
	}
	return o
}

func (o *oenv) lookup(fqn string) types.Type {
	i := strings.LastIndexByte(fqn, '.')
	if i < 0 {
		return types.Universe.Lookup(fqn).Type()
	}
	pkg := o.pkgs[fqn[:i]]
	if pkg == nil {
		// not imported by the probe file: loaded into the same universe for the oracle only
		p, err := o.imp.Import(fqn[:i])
		if err != nil {
			panic("oracle: cannot import " + fqn[:i] + ": " + err.Error())
		}
		o.pkgs[fqn[:i]] = p
		pkg = p
	}
	obj := pkg.Scope().Lookup(fqn[i+1:])
	if obj == nil {
		panic("oracle: no such object: " + fqn)
	}
	return obj.Type()
}

func (o *oenv) iface(fqn string) *types.Interface {
	return o.lookup(fqn).Underlying().(*types.Interface)
}

type pairLine struct {
	K       string `json:"k"`
	File    int    `json:"file"`
	Site    string `json:"site"`
	Off     int    `json:"off"`
	Pair    string `json:"pair"`
	Builtin bool   `json:"builtin"`
	Custom  bool   `json:"custom"`
}

type directLine struct {
	K        string      `json:"k"`
	File     int         `json:"file"`
	Site     string      `json:"site"`
	Off      int         `json:"off"`
	What     string      `json:"what"`
	Expected interface{} `json:"expected"`
	Observed interface{} `json:"observed"`
}

type noteLine struct {
	K    string `json:"k"`
	File int    `json:"file"`
	What string `json:"what"`
}

type suggObs struct {
	Has  bool   `json:"has"`
	Text string `json:"text"`
	From int    `json:"from"`
	To   int    `json:"to"`
}

type summaryLine struct {
	K              string `json:"k"`
	Files          int    `json:"files"`
	Sites          int    `json:"sites"`
	Pairs          int    `json:"pairs"`
	Groups         int    `json:"groups"`
	PairCases      int    `json:"pair_cases"`
	DirectCases    int    `json:"direct_cases"`
	AcceptedBoth   int    `json:"accepted_both"`
	RejectedBoth   int    `json:"rejected_both"`
	Disagree       int    `json:"disagree"`
	DirectMismatch int    `json:"direct_mismatch"`
	Panics         int    `json:"panics"`
	Anomalies      int    `json:"anomalies"`
	PairsBothSeen  int    `json:"pairs_with_accept_and_reject"`
	MultiCases     int    `json:"multi_file_cases"`
}

var enc = json.NewEncoder(os.Stdout)

func fatal(err interface{}) {
	enc.Encode(map[string]interface{}{"k": "fatal", "err": fmt.Sprint(err)})
	os.Exit(1)
}

func loadEngine(src string, only map[string]bool) (*ruleguard.Engine, error) {
	e := ruleguard.NewEngine()
	ctx := &ruleguard.LoadContext{Fset: token.NewFileSet()}
	if only != nil {
		ctx.GroupFilter = func(g *ruleguard.GoRuleGroup) bool { return only[g.Name] }
	}
	if err := e.Load(ctx, "rules.go", strings.NewReader(src)); err != nil {
		return nil, err
	}
	return e, nil
}

// runGuarded is hutil.Run under a watchdog: a custom function that never returns (e.g. a pointer-chain loop over
// a broken Elem native) cannot be interrupted, so the harness reports it and stops.
func runGuarded(e *ruleguard.Engine, t *hutil.Target, fi int) ([]hutil.Report, string) {
	type res struct {
		reports []hutil.Report
		pmsg    string
	}
	ch := make(chan res, 1)
	go func() {
		r, p := hutil.Run(e, t, 0, "", nil)
		ch <- res{r, p}
	}()
	select {
	case r := <-ch:
		return r.reports, r.pmsg
	case <-time.After(*runTimeout):
		enc.Encode(noteLine{K: "panic", File: fi, What: fmt.Sprintf("timeout: a run did not finish within %s (non-terminating custom function?)", *runTimeout)})
		enc.Encode(map[string]interface{}{"k": "summary", "aborted": true, "files": fi, "panics": 1})
		os.Exit(0)
	}
	panic("unreachable")
}

var runTimeout = flag.Duration("run-timeout", 60*time.Second, "watchdog for a single engine run")

func collectSites(t *hutil.Target) []*site {
	off := func(p token.Pos) int { return t.Fset.Position(p).Offset }
	var out []*site
	ast.Inspect(t.File, func(n ast.Node) bool {
		b, ok := n.(*ast.BlockStmt)
		if !ok || len(b.List) != 1 {
			return true
		}
		es, ok := b.List[0].(*ast.ExprStmt)
		if !ok {
			return true
		}
		call, ok := es.X.(*ast.CallExpr)
		if !ok {
			return true
		}
		id, ok := call.Fun.(*ast.Ident)
		if !ok {
			return true
		}
		s := &site{Off: off(call.Pos()), BlockOff: off(b.Pos()), BlockEnd: off(b.End())}
		text := func(e ast.Expr) string { return string(t.Src[off(e.Pos()):off(e.End())]) }
		switch {
		case (id.Name == "probe" || id.Name == "probe0") && len(call.Args) == 1:
			s.NoSize = id.Name == "probe0"
			s.Text, s.T = text(call.Args[0]), t.Info.TypeOf(call.Args[0])
			s.Label = s.Text
		case id.Name == "probe2" && len(call.Args) == 2:
			s.Two = true
			s.Text, s.T = text(call.Args[0]), t.Info.TypeOf(call.Args[0])
			s.Text2, s.T2 = text(call.Args[1]), t.Info.TypeOf(call.Args[1])
			s.Label = s.Text + ", " + s.Text2
		default:
			return true
		}
		if s.T == nil || (s.Two && s.T2 == nil) {
			fatal("probe argument without a type: " + s.Label)
		}
		out = append(out, s)
		return false
	})
	return out
}

func main() {
	seed := flag.Int64("seed", 1, "PRNG seed")
	nFiles := flag.Int("n", 6, "number of generated probe files")
	tmp := flag.String("tmp", "", "scratch directory")
	brief := flag.Bool("brief", false, "omit the pair/direct lines on which both sides agree (summary and pairstat lines stay)")
	flag.Parse()
	if *tmp == "" {
		fatal("-tmp is required")
	}

	rs := buildRules()
	seenName := map[string]bool{}
	for _, g := range rs.groups {
		if seenName[g.name] {
			fatal("duplicate group " + g.name)
		}
		seenName[g.name] = true
	}
	rulesSrc := rs.source()
	if err := os.MkdirAll(filepath.Join(*tmp, "rules"), 0o755); err == nil {
		os.WriteFile(filepath.Join(*tmp, "rules", "rules.go"), []byte(rulesSrc), 0o644)
	}
	engine, err := loadEngine(rulesSrc, nil)
	if err != nil {
		fatal(fmt.Sprintf("load rules: %v", err))
	}
	// fallback after a panic: engines restricted to the groups [lo,hi), bisected down to the panicking groups
	type span struct{ lo, hi int }
	partial := map[span]*ruleguard.Engine{}
	engineFor := func(sp span) *ruleguard.Engine {
		if e := partial[sp]; e != nil {
			return e
		}
		only := map[string]bool{}
		for _, g := range rs.groups[sp.lo:sp.hi] {
			only[g.name] = true
		}
		e, err := loadEngine(rulesSrc, only)
		if err != nil {
			fatal(fmt.Sprintf("load rules (groups %d..%d): %v", sp.lo, sp.hi, err))
		}
		partial[sp] = e
		return e
	}

	sum := summaryLine{K: "summary", Files: *nFiles, Pairs: len(rs.pairs), Groups: len(rs.groups)}
	pairAcc := map[string]int{}
	pairRej := map[string]int{}
	pairDis := map[string]int{}

	for fi := 0; fi < *nFiles; fi++ {
		src := genTarget(*seed, fi)
		t, timp, err := checkTarget(*tmp, fmt.Sprintf("t%d/target.go", fi), []byte(src))
		if err != nil {
			fatal(fmt.Sprintf("generated probe file %d: %v", fi, err))
		}
		sites := collectSites(t)
		byBlock := map[int]*site{}
		for _, s := range sites {
			byBlock[s.BlockOff] = s
		}
		sum.Sites += len(sites)
		o := newOenv(t, timp)

		// acc[group][blockOff] = report; dead[group] = the group panicked on this file
		acc := map[string]map[int]hutil.Report{}
		dead := map[string]bool{}
		record := func(reports []hutil.Report, want map[string]bool) {
			for _, r := range reports {
				g := r.Group
				what := ""
				switch {
				case !seenName[g]:
					what = "report of unknown group " + g
				case want != nil && !want[g]:
					what = "report of group " + g + " from an engine it was filtered out of"
				case r.NilNode || byBlock[r.Pos] == nil:
					what = fmt.Sprintf("report of %s at a non-site offset %d", g, r.Pos)
				}
				if what == "" {
					if acc[g] == nil {
						acc[g] = map[int]hutil.Report{}
					}
					if _, dup := acc[g][r.Pos]; dup {
						what = fmt.Sprintf("duplicate report of %s at %d", g, r.Pos)
					} else {
						acc[g][r.Pos] = r
					}
				}
				if what != "" {
					sum.Anomalies++
					enc.Encode(noteLine{K: "anomaly", File: fi, What: what})
				}
			}
		}

		reports, pmsg := runGuarded(engine, t, fi)
		if pmsg == "" {
			record(reports, nil)
		} else {
			sum.Panics++
			enc.Encode(noteLine{K: "panic", File: fi, What: "all groups: " + pmsg})
			var bisect func(sp span)
			bisect = func(sp span) {
				reports, pmsg := runGuarded(engineFor(sp), t, fi)
				if pmsg == "" {
					want := map[string]bool{}
					for _, g := range rs.groups[sp.lo:sp.hi] {
						want[g.name] = true
					}
					record(reports, want)
					return
				}
				if sp.hi-sp.lo == 1 {
					g := rs.groups[sp.lo]
					dead[g.name] = true
					sum.Panics++
					enc.Encode(noteLine{K: "panic", File: fi, What: "group " + g.name + ": " + pmsg})
					return
				}
				mid := (sp.lo + sp.hi) / 2
				bisect(span{sp.lo, mid})
				bisect(span{mid, sp.hi})
			}
			mid := len(rs.groups) / 2
			bisect(span{0, mid})
			bisect(span{mid, len(rs.groups)})
		}

		groupByName := map[string]*group{}
		for _, g := range rs.groups {
			groupByName[g.name] = g
		}
		accepted := func(g string, s *site) (hutil.Report, bool) {
			r, ok := acc[g][s.BlockOff]
			return r, ok
		}
		direct := func(s *site, what string, exp, obs interface{}, same bool) {
			sum.DirectCases++
			if !same {
				sum.DirectMismatch++
			} else if *brief {
				return
			}
			enc.Encode(directLine{K: "direct", File: fi, Site: s.Label, Off: s.Off, What: what, Expected: exp, Observed: obs})
		}

		for _, s := range sites {
			// pairs
			for _, p := range rs.pairs {
				bg := groupByName["b_"+p]
				cg := groupByName["c_"+p]
				if cg == nil {
					cg = groupByName["d_"+p]
				}
				if bg.two != s.Two || dead[bg.name] || dead[cg.name] || (s.NoSize && bg.sized()) {
					continue
				}
				_, b := accepted(bg.name, s)
				cr, c := accepted(cg.name, s)
				if cg.kind == 'd' {
					// a Do-function twin reports at every site; its verdict is the message
					if !c || (cr.Message != "T" && cr.Message != "F") {
						sum.Anomalies++
						enc.Encode(noteLine{K: "anomaly", File: fi, What: fmt.Sprintf("%s at %d: missing or malformed report %q", cg.name, s.Off, cr.Message)})
						continue
					}
					c = cr.Message == "T"
				}
				sum.PairCases++
				switch {
				case b && c:
					sum.AcceptedBoth++
					pairAcc[p]++
				case !b && !c:
					sum.RejectedBoth++
					pairRej[p]++
				default:
					sum.Disagree++
					pairDis[p]++
				}
				if *brief && b == c {
					continue
				}
				enc.Encode(pairLine{K: "pair", File: fi, Site: s.Label, Off: s.Off, Pair: p, Builtin: b, Custom: c})
			}
			// direct oracles
			for _, g := range rs.groups {
				if g.two != s.Two || dead[g.name] || (s.NoSize && g.sized()) {
					continue
				}
				r, ok := accepted(g.name, s)
				switch {
				case g.obool != nil:
					exp := g.obool(o, s.T)
					direct(s, g.name, exp, ok, exp == ok)
				case g.kind == 'd' && g.pair != "":
					exp := "F"
					if types.Identical(s.T, s.T2) {
						exp = "T"
					}
					direct(s, g.name, exp, r.Message, ok && exp == r.Message)
				case g.ostr != nil:
					exp := g.ostr(o, s)
					var obs interface{}
					if ok {
						obs = r.Message
					}
					direct(s, g.name, exp, obs, ok && exp == r.Message)
					es := suggObs{}
					if g.osugg != nil {
						es = suggObs{Has: true, Text: g.osugg(o, s), From: s.BlockOff, To: s.BlockEnd}
					}
					if g.osuggOpt != nil {
						if text, has := g.osuggOpt(o, s); has {
							es = suggObs{Has: true, Text: text, From: s.BlockOff, To: s.BlockEnd}
						}
					}
					gs := suggObs{}
					if ok && r.HasSugg {
						gs = suggObs{Has: true, Text: r.Sugg, From: r.SuggFrom, To: r.SuggTo}
					}
					direct(s, g.name+".suggest", es, gs, ok && es == gs)
				}
			}
		}
	}
	// several rules files in one engine (equal-named helpers per file)
	mc, mb := runMulti(*seed, *tmp, *brief)
	sum.DirectCases += mc
	sum.DirectMismatch += mb
	sum.MultiCases = mc

	for _, p := range rs.pairs {
		if pairAcc[p] > 0 && pairRej[p] > 0 {
			sum.PairsBothSeen++
		}
		enc.Encode(map[string]interface{}{"k": "pairstat", "pair": p, "accepted_both": pairAcc[p], "rejected_both": pairRej[p], "disagree": pairDis[p]})
	}
	enc.Encode(sum)
}
