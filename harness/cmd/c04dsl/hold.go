package main

// hold.go: rule groups about the IDENTITY of the objects the dsl API hands out.
//
// In Go, every call of ctx.Var / ctx.Type / ctx.GetType / ctx.GetInterface / types.New* / types.As* / Struct.Field /
// Var.Type / Type.Underlying / Elem returns a value of its own: a function may keep several of them in locals,
// parameters and pending operands and use each one after the later calls. A native that hands out a shared, reused
// object (a handle embedded in the run's parameter block, a one-element cache) is right for every function that
// consumes a result before asking for the next one - all of rules.go did - and wrong as soon as two results are alive
// at the same time. Every group below obtains two or more objects from the API first and uses them afterwards, in both
// orders, through locals, through helper-function parameters and through pending call arguments; the oracles are the
// source text of the probe arguments and go/types.

import (
	"fmt"
	"go/types"
	"strconv"
	"strings"
)

func bq(s string) string { return "`" + s + "`" }

func buildHoldRules(rs *ruleset) {
	desc := func(text string, T types.Type) string { return text + ":" + T.String() }

	// helpers taking handles as parameters (the handles live in the callee's frame / on the value stack)
	rs.funcs = append(rs.funcs,
		"func h_desc(v *dsl.DoVar) string {\n\treturn v.Text() + `:` + v.Type().String()\n}\n",
		"func h_desc2(a *dsl.DoVar, b *dsl.DoVar) string {\n\ts := h_desc(b)\n\treturn h_desc(a) + `/` + s\n}\n",
		"func h_tstr2(a types.Type, b types.Type) string {\n\ts := b.String()\n\treturn a.String() + `,` + s\n}\n",
		"func h_var(ctx *dsl.DoContext, name string) *dsl.DoVar {\n\treturn ctx.Var(name)\n}\n")

	// ---------------------------------------------------------------- DoContext.Var: several handles alive at once
	xy := func(o *oenv, s *site) string { return desc(s.Text, s.T) + "/" + desc(s.Text2, s.T2) }
	rs.do2("hold_xy", "x := ctx.Var(`x`)\ny := ctx.Var(`y`)\nctx.SetReport(x.Text() + `:` + x.Type().String() + `/` + y.Text() + `:` + y.Type().String())", xy, nil)
	rs.do2("hold_yx", "y := ctx.Var(`y`)\nx := ctx.Var(`x`)\nctx.SetReport(x.Text() + `:` + x.Type().String() + `/` + y.Text() + `:` + y.Type().String())", xy, nil)
	rs.do2("hold_use_late_first", "x := ctx.Var(`x`)\ny := ctx.Var(`y`)\nb := y.Text() + `:` + y.Type().String()\nctx.SetReport(x.Text() + `:` + x.Type().String() + `/` + b)", xy, nil)
	rs.do2("hold_inline_between", "x := ctx.Var(`x`)\nb := ctx.Var(`y`).Text() + `:` + ctx.Var(`y`).Type().String()\nctx.SetReport(x.Text() + `:` + x.Type().String() + `/` + b)", xy, nil)
	rs.do2("hold_helper_args", "ctx.SetReport(h_desc2(ctx.Var(`x`), ctx.Var(`y`)))", xy, nil)
	rs.do2("hold_helper_locals", "x := ctx.Var(`x`)\ny := ctx.Var(`y`)\nctx.SetReport(h_desc2(x, y))", xy, nil)
	rs.do2("hold_helper_getter", "x := h_var(ctx, `x`)\ny := h_var(ctx, `y`)\nctx.SetReport(h_desc(x) + `/` + h_desc(y))", xy, nil)
	rs.do2("hold_pending_operand", "ctx.SetReport(h_desc(ctx.Var(`x`)) + `/` + h_desc(ctx.Var(`y`)))", xy, nil)
	rs.do2("hold_same_name_twice", "a := ctx.Var(`x`)\nb := ctx.Var(`x`)\nc := ctx.Var(`y`)\nctx.SetReport(a.Text() + `=` + b.Text() + `/` + c.Text() + `/` + a.Type().String() + `=` + b.Type().String())",
		func(o *oenv, s *site) string {
			return s.Text + "=" + s.Text + "/" + s.Text2 + "/" + s.T.String() + "=" + s.T.String()
		}, nil)
	rs.do2("hold_reassign", "v := ctx.Var(`x`)\nw := v\nv = ctx.Var(`y`)\nctx.SetReport(w.Text() + `<-` + v.Text() + `|` + w.Type().String() + `<-` + v.Type().String())",
		func(o *oenv, s *site) string { return s.Text + "<-" + s.Text2 + "|" + s.T.String() + "<-" + s.T2.String() }, nil)
	rs.do2("hold_types", "xt := ctx.Var(`x`).Type()\nyv := ctx.Var(`y`)\nyt := yv.Type()\nctx.SetReport(h_tstr2(xt, yt) + `;` + yv.Text() + `;` + xt.Underlying().String())",
		func(o *oenv, s *site) string {
			return s.T.String() + "," + s.T2.String() + ";" + s.Text2 + ";" + s.T.Underlying().String()
		}, nil)
	rs.do2("hold_across_setters", "x := ctx.Var(`x`)\nctx.SetReport(`scratch`)\ny := ctx.Var(`y`)\nctx.SetSuggest(x.Text())\nctx.SetReport(y.Text() + `|` + x.Type().String())\nctx.SetSuggest(y.Type().String() + `|` + x.Text())",
		func(o *oenv, s *site) string { return s.Text2 + "|" + s.T.String() },
		func(o *oenv, s *site) string { return s.T2.String() + "|" + s.Text })
	rs.do2("hold_loop", "x := ctx.Var(`x`)\ns := ``\ni := 0\nfor i < 3 {\n\ty := ctx.Var(`y`)\n\ts = s + x.Text() + `,` + y.Text() + `;`\n\ti++\n}\nctx.SetReport(s)",
		func(o *oenv, s *site) string { return strings.Repeat(s.Text+","+s.Text2+";", 3) }, nil)
	// the last SetReport / SetSuggest wins, the two are independent
	rs.do2("set_twice", "ctx.SetReport(ctx.Var(`x`).Text())\nctx.SetSuggest(ctx.Var(`x`).Text())\nctx.SetReport(ctx.Var(`y`).Text())",
		func(o *oenv, s *site) string { return s.Text2 }, func(o *oenv, s *site) string { return s.Text })

	// a Do function that reports on some matches only: what a match shows is what THIS run of the function set
	// (nothing: the engine's placeholder; only a suggestion: the suggestion as the message), never what an earlier
	// match left behind
	rs.do("cond_report", "if types.AsPointer(ctx.Var(`x`).Type()) != nil {\n\tctx.SetReport(`pointer ` + ctx.Var(`x`).Text())\n}",
		func(o *oenv, s *site) string {
			if oPtr(s.T) != nil {
				return "pointer " + s.Text
			}
			return "<empty message>"
		})
	rs.do("cond_suggest", "t := ctx.Var(`x`).Type()\nif types.AsSlice(t) != nil {\n\tctx.SetSuggest(t.String())\n}\nif types.AsArray(t) != nil {\n\tctx.SetReport(`array`)\n}",
		func(o *oenv, s *site) string {
			if oSlice(s.T) != nil {
				return "suggestion: " + s.T.String()
			}
			if oArray(s.T) != nil {
				return "array"
			}
			return "<empty message>"
		})
	rs.groups[len(rs.groups)-1].osugg = nil
	condSugg := rs.groups[len(rs.groups)-1]
	condSugg.osuggOpt = func(o *oenv, s *site) (string, bool) {
		if oSlice(s.T) != nil {
			return s.T.String(), true
		}
		return "", false
	}
	rs.do("report_empty_string", "ctx.SetReport(ctx.Var(`x`).Text())\nctx.SetReport(``)", func(o *oenv, s *site) string { return "<empty message>" })

	// ---------------------------------------------------------------- constants and stdlib natives through the engine's loader
	// (the same compiler and VM as in harness/cmd/c04, reached through ir_loader's CompileContext and the engine's Env)
	const longA = "the argument of this call is evaluated twice, consider storing it in a local variable"
	const longB = "the argument of this call is evaluated twice, consider storing it in a package-level variable"
	rs.funcs = append(rs.funcs, "const k_longA = "+strconv.Quote(longA)+"\nconst k_longB = "+strconv.Quote(longB)+"\nconst k_fmt = `100%% sure: %s (%d)`\n")
	rs.do("long_consts", "t := ctx.Var(`x`).Type()\nif types.AsPointer(t) != nil {\n\tctx.SetReport(k_longA)\n\tctx.SetSuggest(k_longB)\n\treturn\n}\nif types.AsSlice(t) != nil {\n\tctx.SetReport(k_longB + `!`)\n\treturn\n}\nctx.SetReport("+strconv.Quote(longA[:70])+")",
		func(o *oenv, s *site) string {
			if oPtr(s.T) != nil {
				return longA
			}
			if oSlice(s.T) != nil {
				return longB + "!"
			}
			return longA[:70]
		})
	rs.groups[len(rs.groups)-1].osuggOpt = func(o *oenv, s *site) (string, bool) { return longB, oPtr(s.T) != nil }
	rs.do("stdlib_natives", "x := ctx.Var(`x`).Text()\nctx.SetReport(fmt.Sprintf(`100%% done`) + fmt.Sprintf(k_fmt, strings.TrimPrefix(x, `*`), len(x)) + strconv.Itoa(len(strings.ReplaceAll(x, `(`, ``))) + fmt.Sprintf(`%d%%`))",
		func(o *oenv, s *site) string {
			x := s.Text
			return "100% done" + fmt.Sprintf("100%% sure: %s (%d)", strings.TrimPrefix(x, "*"), len(x)) + strconv.Itoa(len(strings.ReplaceAll(x, "(", ""))) + "%!d(MISSING)%"
		})

	// one-variable sites: the same handle asked for several times, objects built from its type held together
	rs.do("hold_ctor", "x := ctx.Var(`x`)\nt := x.Type()\np := types.NewPointer(t)\nq := types.NewSlice(t)\na := types.NewArray(t, 2)\nb := types.NewArray(t, 3)\npp := types.NewPointer(p)\n"+
		"ctx.SetReport(p.String() + `|` + q.String() + `|` + a.String() + `|` + b.String() + `|` + pp.String() + `|` + pp.Elem().String() + `|` + x.Text())",
		func(o *oenv, s *site) string {
			t := s.T.String()
			return "*" + t + "|[]" + t + "|[2]" + t + "|[3]" + t + "|**" + t + "|*" + t + "|" + s.Text
		})
	rs.do("hold_var_thrice", "a := ctx.Var(`x`)\nb := ctx.Var(`x`)\nt := a.Type()\nc := ctx.Var(`x`)\nctx.SetReport(a.Text() + `|` + t.String() + `|` + b.Type().String() + `|` + c.Text())",
		func(o *oenv, s *site) string { return s.Text + "|" + s.T.String() + "|" + s.T.String() + "|" + s.Text })
	rs.do("hold_fields", `
st := types.AsStruct(ctx.Var(`+bq("x")+`).Type().Underlying())
if st == nil {
	ctx.SetReport("-")
	return
}
if st.NumFields() < 2 {
	ctx.SetReport("<2")
	return
}
f0 := st.Field(0)
f1 := st.Field(1)
last := st.Field(st.NumFields() - 1)
t0 := f0.Type()
t1 := f1.Type()
s := "n"
if f0.Embedded() {
	s = "e"
}
if last.Embedded() {
	s = s + "E"
}
ctx.SetReport(s + "|" + t0.String() + "|" + t1.String() + "|" + last.Type().String() + "|" + f0.Type().String())`,
		func(o *oenv, site *site) string {
			st := oStruct(site.T.Underlying())
			if st == nil {
				return "-"
			}
			if st.NumFields() < 2 {
				return "<2"
			}
			f0, f1, last := st.Field(0), st.Field(1), st.Field(st.NumFields()-1)
			s := "n"
			if f0.Embedded() {
				s = "e"
			}
			if last.Embedded() {
				s += "E"
			}
			return s + "|" + f0.Type().String() + "|" + f1.Type().String() + "|" + last.Type().String() + "|" + f0.Type().String()
		})
	rs.do("hold_elems", `
t := ctx.Var(`+bq("x")+`).Type()
u := t.Underlying()
p := types.AsPointer(u)
sl := types.AsSlice(u)
ar := types.AsArray(u)
s := t.String() + "~" + u.String()
if p != nil {
	e := p.Elem()
	pe := types.AsPointer(e.Underlying())
	s = s + "|p:" + e.String()
	if pe != nil {
		s = s + "|pp:" + pe.Elem().String() + "<" + p.String()
	}
}
if sl != nil {
	s = s + "|s:" + sl.Elem().String()
}
if ar != nil {
	s = s + "|a:" + ar.Elem().String()
}
ctx.SetReport(s)`,
		func(o *oenv, site *site) string {
			t := site.T
			u := t.Underlying()
			s := t.String() + "~" + u.String()
			if p := oPtr(u); p != nil {
				s += "|p:" + p.Elem().String()
				if pe := oPtr(p.Elem().Underlying()); pe != nil {
					s += "|pp:" + pe.Elem().String() + "<" + p.String()
				}
			}
			if sl := oSlice(u); sl != nil {
				s += "|s:" + sl.Elem().String()
			}
			if ar := oArray(u); ar != nil {
				s += "|a:" + ar.Elem().String()
			}
			return s
		})

	// ---------------------------------------------------------------- VarFilterContext: Type / GetType / GetInterface / SizeOf
	// results of two GetType / GetInterface calls alive at once, used in both orders
	for _, pr := range [][2]string{{"io.Reader", "error"}, {"error", "io.Reader"}, {"fmt.Stringer", "io.Writer"}, {"target.Local", "fmt.Stringer"}} {
		pr := pr
		id := ident(pr[0]) + "_" + ident(pr[1])
		rs.direct("hold_iface_first_"+id, "a := ctx.GetInterface("+bq(pr[0])+")\nb := ctx.GetInterface("+bq(pr[1])+")\nif b == nil {\n\treturn false\n}\nreturn types.Implements(ctx.Type, a)",
			func(o *oenv, T types.Type) bool { return types.Implements(T, o.iface(pr[0])) })
		rs.direct("hold_iface_second_"+id, "a := ctx.GetInterface("+bq(pr[0])+")\nb := ctx.GetInterface("+bq(pr[1])+")\nif a == nil {\n\treturn false\n}\nreturn types.Implements(ctx.Type, b)",
			func(o *oenv, T types.Type) bool { return types.Implements(T, o.iface(pr[1])) })
	}
	for _, pr := range [][2]string{{"int", "string"}, {"error", "int"}, {"sync.Mutex", "bytes.Buffer"}, {"target.S1", "target.MyInt"}, {"io.Reader", "error"}} {
		pr := pr
		id := ident(pr[0]) + "_" + ident(pr[1])
		rs.direct("hold_type_first_"+id, "a := ctx.GetType("+bq(pr[0])+")\nb := ctx.GetType("+bq(pr[1])+")\nif b.String() != "+bq(pr[1])+" {\n\treturn false\n}\nreturn types.Identical(ctx.Type, a)",
			func(o *oenv, T types.Type) bool { return types.Identical(T, o.lookup(pr[0])) })
		rs.direct("hold_type_second_"+id, "a := ctx.GetType("+bq(pr[0])+")\nb := ctx.GetType("+bq(pr[1])+")\nif a.String() != "+bq(pr[0])+" {\n\treturn false\n}\nreturn types.Identical(b, ctx.Type)",
			func(o *oenv, T types.Type) bool { return types.Identical(T, o.lookup(pr[1])) })
		rs.direct("hold_type_strings_"+id, "a := ctx.GetType("+bq(pr[0])+")\nb := ctx.GetType("+bq(pr[1])+")\nreturn h_tstr2(a, b) == "+bq(pr[0]+","+pr[1]),
			func(o *oenv, T types.Type) bool { return true })
	}
	// ctx.Type read before and after other calls
	rs.direct("hold_ctx_type", "t1 := ctx.Type\ng := ctx.GetType(`string`)\nt2 := ctx.Type\nif !types.Identical(t1, t2) {\n\treturn false\n}\nif t1.String() != t2.String() {\n\treturn false\n}\nreturn types.Identical(g, t1)",
		func(o *oenv, T types.Type) bool { return types.Identical(T, types.Typ[types.String]) })
	rs.direct("hold_ctx_type_under", "t := ctx.Type\nu := t.Underlying()\ni := ctx.GetInterface(`error`)\np := types.NewPointer(u)\nif types.Implements(p, i) {\n\treturn false\n}\nreturn types.Identical(t, u)",
		func(o *oenv, T types.Type) bool {
			return !types.Implements(types.NewPointer(T.Underlying()), o.iface("error")) && types.Identical(T, T.Underlying())
		})
	// constructors: two results alive at once
	rs.direct("hold_new_ptrs", "p1 := types.NewPointer(ctx.Type)\np2 := types.NewPointer(ctx.GetType(`int`))\nif p2.Elem().String() != `int` {\n\treturn false\n}\nreturn types.Identical(p1.Elem(), ctx.Type)",
		func(o *oenv, T types.Type) bool { return true })
	rs.direct("hold_new_arrays", "a1 := types.NewArray(ctx.Type, 3)\na2 := types.NewArray(ctx.GetType(`string`), 5)\nif a1.Len() != 3 {\n\treturn false\n}\nif a2.Len() != 5 {\n\treturn false\n}\nif a2.Elem().String() != `string` {\n\treturn false\n}\nreturn types.Identical(a1.Elem(), ctx.Type)",
		func(o *oenv, T types.Type) bool { return true })
	rs.direct("hold_new_slices", "s1 := types.NewSlice(ctx.Type)\ns2 := types.NewSlice(s1)\ns3 := types.NewSlice(ctx.GetType(`bool`))\nif s3.String() != `[]bool` {\n\treturn false\n}\nif !types.Identical(s2.Elem(), s1) {\n\treturn false\n}\nreturn types.Identical(s1.Elem(), ctx.Type)",
		func(o *oenv, T types.Type) bool { return true })
	rs.direct("hold_as_ptrs", "p := types.AsPointer(ctx.Type)\nq := types.AsPointer(types.NewPointer(ctx.GetType(`int`)))\nif p == nil {\n\treturn false\n}\nreturn p.Elem().String() != q.Elem().String()",
		func(o *oenv, T types.Type) bool { p := oPtr(T); return p != nil && p.Elem().String() != "int" })
	rs.direct("hold_as_mixed", "p := types.AsPointer(ctx.Type)\ns := types.AsSlice(ctx.Type)\na := types.AsArray(ctx.Type)\nst := types.AsStruct(ctx.Type)\ni := types.AsInterface(ctx.Type)\nn := 0\nif p != nil {\n\tn++\n}\nif s != nil {\n\tn = n + 2\n}\nif a != nil {\n\tn = n + 4\n}\nif st != nil {\n\tn = n + 8\n}\nif i != nil {\n\tn = n + 16\n}\nif p != nil {\n\treturn n == 1\n}\nif a != nil {\n\treturn n == 4\n}\nreturn n == 0",
		func(o *oenv, T types.Type) bool {
			return oPtr(T) != nil || oArray(T) != nil || (oSlice(T) == nil && oStruct(T) == nil && oIface(T) == nil)
		})
	rs.direct("hold_struct_fields", "s := types.AsStruct(ctx.Type.Underlying())\nif s == nil {\n\treturn false\n}\nif s.NumFields() < 2 {\n\treturn false\n}\nf0 := s.Field(0)\nf1 := s.Field(1)\nt1 := f1.Type()\nreturn types.Identical(f0.Type(), t1)",
		func(o *oenv, T types.Type) bool {
			s := oStruct(T.Underlying())
			return s != nil && s.NumFields() >= 2 && types.Identical(s.Field(0).Type(), s.Field(1).Type())
		})
	rs.direct("hold_struct_embedded_first_only", "s := types.AsStruct(ctx.Type.Underlying())\nif s == nil {\n\treturn false\n}\nif s.NumFields() < 2 {\n\treturn false\n}\nf0 := s.Field(0)\nfl := s.Field(s.NumFields() - 1)\nif fl.Embedded() {\n\treturn false\n}\nreturn f0.Embedded()",
		func(o *oenv, T types.Type) bool {
			s := oStruct(T.Underlying())
			return s != nil && s.NumFields() >= 2 && !s.Field(s.NumFields()-1).Embedded() && s.Field(0).Embedded()
		})
	// sizes computed for two types, compared afterwards
	rs.direct("hold_sizes", "a := ctx.SizeOf(ctx.Type)\nb := ctx.SizeOf(ctx.GetType(`int64`))\nc := ctx.SizeOf(types.NewArray(ctx.Type, 4))\nif b != 8 {\n\treturn false\n}\nif c != a+a+a+a {\n\treturn false\n}\nreturn a == b",
		func(o *oenv, T types.Type) bool {
			return o.sizes.Sizeof(types.NewArray(T, 4)) == 4*o.sizes.Sizeof(T) && o.sizes.Sizeof(T) == 8
		})
	// data borders of the constructors: lengths beyond 32 bits, zero
	rs.direct("new_array_len_40bit", "a := types.NewArray(ctx.Type, 1099511627776)\nif a.Len() != 1099511627776 {\n\treturn false\n}\nz := types.NewArray(ctx.Type, 0)\nreturn z.Len() == 0",
		func(o *oenv, T types.Type) bool { return true })
	rs.direct("new_array_len_string", "a := types.NewArray(ctx.GetType(`int8`), 4294967297)\nreturn a.String() == `[4294967297]int8`",
		func(o *oenv, T types.Type) bool { return true })
	rs.direct("size_big_array", "return ctx.SizeOf(types.NewArray(ctx.GetType(`int16`), 4294967296)) == 8589934592",
		func(o *oenv, T types.Type) bool { return true })
}
