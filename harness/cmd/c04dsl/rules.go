package main

// The rule groups: b_<name> (built-in predicate), c_<name> (custom filter mirroring it through dsl/types),
// x_<name> (custom filter with no built-in twin; checked against go/types directly) and d_<name> (Do functions).
//
// All groups use a block pattern `{ probe($x) }`: BlockStmt is one of the engine's multi-match tags, so every
// group gets to see every site inside a single engine (for a CallExpr pattern the runner stops at the first
// accepting rule of *any* group, which would hide all other groups).

import (
	"fmt"
	"go/ast"
	"go/parser"
	"go/token"
	"go/types"
	"strconv"
	"strings"
)

type group struct {
	name    string
	kind    byte   // 'b' built-in, 'c' custom twin, 'x' custom without twin, 'd' Do function
	pair    string // pair name for b/c (and d for probe2 pair)
	two     bool   // probe2 pattern
	cond    string // Where condition ("" = none)
	doFn    string
	imports bool
	// oracles (go/types, independent of the engine)
	obool func(o *oenv, T types.Type) bool
	ostr  func(o *oenv, s *site) string
	osugg func(o *oenv, s *site) string // expected suggestion text (Do groups); nil = no suggestion expected
	// osuggOpt: a suggestion is expected at some sites only
	osuggOpt func(o *oenv, s *site) (string, bool)
}

func (g *group) sized() bool { return strings.Contains(g.name, "size") }

type ruleset struct {
	funcs  []string // quasigo function sources
	groups []*group
	pairs  []string
}

func (rs *ruleset) fn(name, body string) string {
	rs.funcs = append(rs.funcs, "func "+name+"(ctx *dsl.VarFilterContext) bool {\n"+indent(body)+"}\n")
	return name
}

func (rs *ruleset) doFn(name, body string) string {
	rs.funcs = append(rs.funcs, "func "+name+"(ctx *dsl.DoContext) {\n"+indent(body)+"}\n")
	return name
}

func indent(body string) string {
	var sb strings.Builder
	for _, l := range strings.Split(strings.Trim(body, "\n"), "\n") {
		sb.WriteString("\t" + l + "\n")
	}
	return sb.String()
}

// pair registers b_<name> with the built-in condition and c_<name> with a custom filter of the given body.
func (rs *ruleset) pair(name, builtin, body string, oracle func(o *oenv, T types.Type) bool) {
	f := rs.fn("f_"+name, body)
	imp := strings.Contains(builtin, "target.")
	rs.groups = append(rs.groups,
		&group{name: "b_" + name, kind: 'b', pair: name, cond: `m["x"].Type.` + builtin, imports: imp},
		&group{name: "c_" + name, kind: 'c', pair: name, cond: `m["x"].Filter(` + f + `)`, obool: oracle})
	rs.pairs = append(rs.pairs, name)
}

// direct registers x_<name>: a custom filter checked against the go/types oracle only.
func (rs *ruleset) direct(name, body string, oracle func(o *oenv, T types.Type) bool) {
	f := rs.fn("f_"+name, body)
	rs.groups = append(rs.groups, &group{name: "x_" + name, kind: 'x', cond: `m["x"].Filter(` + f + `)`, obool: oracle})
}

func (rs *ruleset) do(name, body string, oracle func(o *oenv, s *site) string) {
	f := rs.doFn("f_"+name, body)
	rs.groups = append(rs.groups, &group{name: "d_" + name, kind: 'd', doFn: f, ostr: oracle})
}

// do2 registers a Do group on the two-variable sites `{ probe2($x, $y) }`.
func (rs *ruleset) do2(name, body string, oracle func(o *oenv, s *site) string, sugg func(o *oenv, s *site) string) {
	f := rs.doFn("f_"+name, body)
	rs.groups = append(rs.groups, &group{name: "d_" + name, kind: 'd', two: true, doFn: f, ostr: oracle, osugg: sugg})
}

func (rs *ruleset) source() string {
	var sb strings.Builder
	sb.WriteString("package gorules\n\nimport (\n\t\"fmt\"\n\t\"strconv\"\n\t\"strings\"\n\n\t\"github.com/quasilyte/go-ruleguard/dsl\"\n\t\"github.com/quasilyte/go-ruleguard/dsl/types\"\n)\n\n")
	for _, f := range rs.funcs {
		sb.WriteString(f + "\n")
	}
	for _, g := range rs.groups {
		fmt.Fprintf(&sb, "func %s(m dsl.Matcher) {\n", g.name)
		if g.imports {
			sb.WriteString("\tm.Import(`target`)\n")
		}
		pat := "`{ probe($x) }`, `{ probe0($x) }`"
		if g.sized() {
			// go/types' gc Sizeof asserts on untyped nil: sites probe0(...) are kept away from every size group
			pat = "`{ probe($x) }`"
		}
		if g.two {
			pat = "`{ probe2($x, $y) }`"
		}
		fmt.Fprintf(&sb, "\tm.Match(%s)", pat)
		if g.cond != "" {
			fmt.Fprintf(&sb, ".\n\t\tWhere(%s)", g.cond)
		}
		if g.doFn != "" {
			fmt.Fprintf(&sb, ".\n\t\tDo(%s)\n", g.doFn)
		} else {
			fmt.Fprintf(&sb, ".\n\t\tReport(`%s`)\n", g.name)
		}
		sb.WriteString("}\n\n")
	}
	return sb.String()
}

// ---- type expressions ("*[]target.S1") rendered as dsl/types constructor calls and as go/types values

func tyDSL(e ast.Expr) string {
	switch e := e.(type) {
	case *ast.Ident:
		return "ctx.GetType(`" + e.Name + "`)"
	case *ast.SelectorExpr:
		return "ctx.GetType(`" + e.X.(*ast.Ident).Name + "." + e.Sel.Name + "`)"
	case *ast.StarExpr:
		return "types.NewPointer(" + tyDSL(e.X) + ")"
	case *ast.ParenExpr:
		return tyDSL(e.X)
	case *ast.ArrayType:
		if e.Len == nil {
			return "types.NewSlice(" + tyDSL(e.Elt) + ")"
		}
		return "types.NewArray(" + tyDSL(e.Elt) + ", " + e.Len.(*ast.BasicLit).Value + ")"
	}
	panic(fmt.Sprintf("tyDSL: unsupported %T", e))
}

func (o *oenv) tyGo(e ast.Expr) types.Type {
	switch e := e.(type) {
	case *ast.Ident:
		return o.lookup(e.Name)
	case *ast.SelectorExpr:
		return o.lookup(e.X.(*ast.Ident).Name + "." + e.Sel.Name)
	case *ast.StarExpr:
		return types.NewPointer(o.tyGo(e.X))
	case *ast.ParenExpr:
		return o.tyGo(e.X)
	case *ast.ArrayType:
		if e.Len == nil {
			return types.NewSlice(o.tyGo(e.Elt))
		}
		n, _ := strconv.ParseInt(e.Len.(*ast.BasicLit).Value, 10, 64)
		return types.NewArray(o.tyGo(e.Elt), n)
	}
	panic(fmt.Sprintf("tyGo: unsupported %T", e))
}

func mustParseType(s string) ast.Expr {
	e, err := parser.ParseExpr(s)
	if err != nil {
		panic(err)
	}
	return e
}

func ident(s string) string {
	r := strings.NewReplacer("*", "P", "[]", "S", "[", "A", "]", "_", ".", "_", "/", "_", " ", "")
	return r.Replace(s)
}

// ---- go/types helpers used by the oracles

func oPtr(T types.Type) *types.Pointer     { p, _ := T.(*types.Pointer); return p }
func oSlice(T types.Type) *types.Slice     { p, _ := T.(*types.Slice); return p }
func oArray(T types.Type) *types.Array     { p, _ := T.(*types.Array); return p }
func oStruct(T types.Type) *types.Struct   { p, _ := T.(*types.Struct); return p }
func oIface(T types.Type) *types.Interface { p, _ := T.(*types.Interface); return p }

func cmpInt(a int64, op token.Token, b int64) bool {
	switch op {
	case token.EQL:
		return a == b
	case token.NEQ:
		return a != b
	case token.LSS:
		return a < b
	case token.LEQ:
		return a <= b
	case token.GTR:
		return a > b
	case token.GEQ:
		return a >= b
	}
	panic("cmpInt")
}

func tally(n int64) string { return strings.Repeat("|", int(n)) }

// identTypes: concrete types for the Type.Is(T) <-> types.Identical(ctx.Type, <T built from GetType/New*>) pairs.
var identTypes = []string{
	"int", "string", "error", "byte", "uintptr", "float64", "rune", "bool",
	"[]byte", "[]uint8", "[]rune", "*int", "**int", "***int", "[]string", "[4]int", "[0]int", "[3]int", "[]*int", "*[]string",
	"[2][]string", "[3]*int", "*[4]int", "[][]int", "[2][3]int", "[]error",
	"sync.Mutex", "*sync.Mutex", "bytes.Buffer", "*bytes.Buffer", "io.Reader", "fmt.Stringer", "*os.File", "os.File",
	"[]io.Reader",
	"target.S1", "*target.S1", "**target.S1", "[]target.S1", "[2]*target.ErrP", "target.MyInt", "target.MyInt2",
	"target.ErrV", "*target.ErrP", "target.Local", "target.Empty", "target.MyPtr", "[2]target.Empty", "[]*target.S3",
}

// underTypes: the same through Type.Underlying().
var underTypes = []string{"int", "string", "bool", "[]byte", "*int", "[4]int", "[0]int", "**target.S1", "[0]string"}

// crossIfaces: interfaces for the cross-universe Implements pairs (see buildRules).
var crossIfaces = []string{
	// package not imported by the probe file, method signatures mention named types of packages it imports
	"database/sql/driver.Pinger", "database/sql/driver.SessionResetter", "compress/flate.Resetter", "image/draw.Image",
	// not imported, embeds named interfaces / basic types only
	"compress/flate.Reader", "encoding.TextMarshaler", "flag.Value",
	// imported by the probe file, named types in the signatures
	"context.Context", "io.WriterTo", "image.Image",
}

// crossStructs: structs of packages the probe file does not import whose fields have types of packages it does.
var crossStructs = []string{"log.Logger", "text/scanner.Scanner", "compress/flate.ReadError"}

var arrLens = []int64{0, 1, 2, 3, 4, 5, 7, 8, 16, 1000}

func buildRules() *ruleset {
	rs := &ruleset{}

	// ---------------------------------------------------------------- Implements / GetInterface
	for _, it := range []struct{ id, iface string }{
		{"error", "error"}, {"reader", "io.Reader"}, {"stringer", "fmt.Stringer"}, {"writer", "io.Writer"},
	} {
		it := it
		body := "return types.Implements(ctx.Type, ctx.GetInterface(`" + it.iface + "`))"
		if it.id == "stringer" {
			body = "ifaceName := `fmt.Stringer`\niface := ctx.GetInterface(ifaceName)\nreturn types.Implements(ctx.Type, iface)"
		}
		rs.pair("impl_"+it.id, "Implements(`"+it.iface+"`)", body,
			func(o *oenv, T types.Type) bool { return types.Implements(T, o.iface(it.iface)) })
	}

	// ---------------------------------------------------------------- Implements across type-check universes
	// The interface comes from the engine's importer, ctx.Type from the target's type-checker: when the target does
	// not import the interface's package, the named types in the method signatures (context.Context, io.Reader,
	// color.Color ...) are different objects on the two sides and only a by-name comparison (xtypes) agrees with
	// what the built-in predicate and a single-universe go/types answer. Classes: interface package imported by the
	// target / not imported; signatures with named types / an embedded named interface / basic types only.
	for _, it := range crossIfaces {
		it := it
		id := ident(it)
		rs.pair("impl_x_"+id, "Implements(`"+it+"`)", "return types.Implements(ctx.Type, ctx.GetInterface(`"+it+"`))",
			func(o *oenv, T types.Type) bool { return types.Implements(T, o.iface(it)) })
		rs.direct("ptr_impl_x_"+id, "iface := ctx.GetInterface(`"+it+"`)\nreturn types.Implements(types.NewPointer(ctx.Type), iface)",
			func(o *oenv, T types.Type) bool { return types.Implements(types.NewPointer(T), o.iface(it)) })
	}
	rs.direct("elem_impl_x_pinger", "p := types.AsPointer(ctx.Type)\nif p == nil {\n\treturn false\n}\nreturn types.Implements(p.Elem(), ctx.GetInterface(`database/sql/driver.Pinger`))",
		func(o *oenv, T types.Type) bool {
			p := oPtr(T)
			return p != nil && types.Implements(p.Elem(), o.iface("database/sql/driver.Pinger"))
		})
	// Identical across universes: the types of the fields of a struct the target cannot name (its package is not
	// imported) are named types of packages the target does import
	for _, st := range crossStructs {
		st := st
		rs.direct("ident_x_field_"+ident(st), `
s := types.AsStruct(ctx.GetType(`+"`"+st+"`"+`).Underlying())
if s == nil {
	return false
}
i := 0
for i < s.NumFields() {
	if types.Identical(ctx.Type, s.Field(i).Type()) {
		return true
	}
	if types.Identical(s.Field(i).Type(), types.NewPointer(ctx.Type)) {
		return true
	}
	i++
}
return false`, func(o *oenv, T types.Type) bool {
			s := oStruct(o.lookup(st).Underlying())
			for i := 0; s != nil && i < s.NumFields(); i++ {
				if types.Identical(T, s.Field(i).Type()) || types.Identical(s.Field(i).Type(), types.NewPointer(T)) {
					return true
				}
			}
			return false
		})
	}
	rs.pair("ident_x_log_mutex", "Is(`sync.Mutex`)",
		"s := types.AsStruct(ctx.GetType(`log.Logger`).Underlying())\nmu := ctx.GetType(`sync.Mutex`)\ni := 0\nfor i < s.NumFields() {\n\tif types.Identical(s.Field(i).Type(), mu) {\n\t\treturn types.Identical(ctx.Type, s.Field(i).Type())\n\t}\n\ti++\n}\nreturn types.Identical(ctx.Type, mu)",
		func(o *oenv, T types.Type) bool { return types.Identical(T, o.lookup("sync.Mutex")) })

	// ---------------------------------------------------------------- As* on the type / its underlying type
	type shape struct {
		id, pat, as string
		o           func(T types.Type) bool
	}
	shapes := []shape{
		{"ptr", "*$_", "AsPointer", func(T types.Type) bool { return oPtr(T) != nil }},
		{"slice", "[]$_", "AsSlice", func(T types.Type) bool { return oSlice(T) != nil }},
		{"array", "[$_]$_", "AsArray", func(T types.Type) bool { return oArray(T) != nil }},
		{"struct", "struct{$*_}", "AsStruct", func(T types.Type) bool { return oStruct(T) != nil }},
		{"iface", "interface{$*_}", "AsInterface", func(T types.Type) bool { return oIface(T) != nil }},
	}
	for i, sh := range shapes {
		sh := sh
		body := "return types." + sh.as + "(ctx.Type) != nil"
		if i%2 == 1 {
			body = "v := types." + sh.as + "(ctx.Type)\nreturn nil != v"
		}
		rs.pair("is_"+sh.id, "Is(`"+sh.pat+"`)", body, func(o *oenv, T types.Type) bool { return sh.o(T) })
		ubody := "return types." + sh.as + "(ctx.Type.Underlying()) != nil"
		if i%2 == 0 {
			ubody = "v := types." + sh.as + "(ctx.Type.Underlying())\nif v == nil {\n\treturn false\n}\nreturn true"
		}
		rs.pair("u_"+sh.id, "Underlying().Is(`"+sh.pat+"`)", ubody, func(o *oenv, T types.Type) bool { return sh.o(T.Underlying()) })
	}

	// ---------------------------------------------------------------- SizeOf
	for _, sz := range []struct {
		op token.Token
		k  int64
	}{
		{token.EQL, 0}, {token.EQL, 1}, {token.EQL, 2}, {token.EQL, 4}, {token.EQL, 8}, {token.EQL, 12}, {token.EQL, 16},
		{token.EQL, 24}, {token.EQL, 32}, {token.EQL, 40}, {token.EQL, 48}, {token.EQL, 8000},
		{token.GEQ, 1}, {token.GEQ, 9}, {token.GEQ, 100}, {token.LSS, 16}, {token.LEQ, 8}, {token.GTR, 24}, {token.NEQ, 8},
	} {
		sz := sz
		names := map[token.Token]string{token.EQL: "eq", token.NEQ: "ne", token.LSS: "lt", token.LEQ: "le", token.GTR: "gt", token.GEQ: "ge"}
		rs.pair(fmt.Sprintf("size_%s_%d", names[sz.op], sz.k), fmt.Sprintf("Size %s %d", sz.op, sz.k),
			fmt.Sprintf("return ctx.SizeOf(ctx.Type) %s %d", sz.op, sz.k),
			func(o *oenv, T types.Type) bool { return cmpInt(o.sizes.Sizeof(T), sz.op, sz.k) })
	}

	// ---------------------------------------------------------------- Identical + GetType + New*
	for i, ts := range identTypes {
		ts := ts
		e := mustParseType(ts)
		body := "return types.Identical(ctx.Type, " + tyDSL(e) + ")"
		if i%2 == 1 {
			body = "want := " + tyDSL(e) + "\nreturn types.Identical(want, ctx.Type)"
		}
		rs.pair("is_"+ident(ts), "Is(`"+ts+"`)", body, func(o *oenv, T types.Type) bool { return types.Identical(T, o.tyGo(e)) })
	}
	for _, ts := range underTypes {
		ts := ts
		e := mustParseType(ts)
		rs.pair("u_is_"+ident(ts), "Underlying().Is(`"+ts+"`)",
			"u := ctx.Type.Underlying()\nreturn types.Identical(u, "+tyDSL(e)+")",
			func(o *oenv, T types.Type) bool { return types.Identical(T.Underlying(), o.tyGo(e)) })
	}

	// ---------------------------------------------------------------- Array.Len / Elem
	for _, k := range arrLens {
		k := k
		rs.pair(fmt.Sprintf("arrlen_%d", k), fmt.Sprintf("Is(`[%d]$_`)", k),
			fmt.Sprintf("a := types.AsArray(ctx.Type)\nif a == nil {\n\treturn false\n}\nreturn a.Len() == %d", k),
			func(o *oenv, T types.Type) bool { a := oArray(T); return a != nil && a.Len() == k })
	}
	rs.pair("u_arrlen_ge2", "Underlying().Is(`[$_]$_`) && !m[\"x\"].Type.Underlying().Is(`[0]$_`) && !m[\"x\"].Type.Underlying().Is(`[1]$_`)",
		"a := types.AsArray(ctx.Type.Underlying())\nif a == nil {\n\treturn false\n}\nreturn a.Len() >= 2",
		func(o *oenv, T types.Type) bool { a := oArray(T.Underlying()); return a != nil && a.Len() >= 2 })

	rs.pair("ptr_ptr", "Is(`**$_`)",
		"p := types.AsPointer(ctx.Type)\nif p == nil {\n\treturn false\n}\nreturn types.AsPointer(p.Elem()) != nil",
		func(o *oenv, T types.Type) bool { p := oPtr(T); return p != nil && oPtr(p.Elem()) != nil })
	rs.funcs = append(rs.funcs, "func h_deref(p *types.Pointer) *types.Pointer {\n\treturn types.AsPointer(p.Elem())\n}\n")
	rs.pair("ptr3", "Is(`***$_`)",
		"indir := 0\np := types.AsPointer(ctx.Type)\nfor p != nil {\n\tindir++\n\tif indir > 16 {\n\t\tbreak\n\t}\n\tp = h_deref(p)\n}\nreturn indir >= 3",
		func(o *oenv, T types.Type) bool {
			n := 0
			for p := oPtr(T); p != nil; p = oPtr(p.Elem()) {
				n++
			}
			return n >= 3
		})
	rs.pair("slice_ptr", "Is(`[]*$_`)",
		"s := types.AsSlice(ctx.Type)\nif s == nil {\n\treturn false\n}\nreturn types.AsPointer(s.Elem()) != nil",
		func(o *oenv, T types.Type) bool { s := oSlice(T); return s != nil && oPtr(s.Elem()) != nil })
	rs.pair("array_ptr", "Is(`[$_]*$_`)",
		"a := types.AsArray(ctx.Type)\nif a == nil {\n\treturn false\n}\nreturn types.AsPointer(a.Elem()) != nil",
		func(o *oenv, T types.Type) bool { a := oArray(T); return a != nil && oPtr(a.Elem()) != nil })
	rs.pair("ptr_array", "Is(`*[$_]$_`)",
		"p := types.AsPointer(ctx.Type)\nif p == nil {\n\treturn false\n}\nreturn types.AsArray(p.Elem()) != nil",
		func(o *oenv, T types.Type) bool { p := oPtr(T); return p != nil && oArray(p.Elem()) != nil })
	rs.pair("ptr_slice", "Is(`*[]$_`)",
		"p := types.AsPointer(ctx.Type)\nif p != nil {\n\treturn types.AsSlice(p.Elem()) != nil\n}\nreturn false",
		func(o *oenv, T types.Type) bool { p := oPtr(T); return p != nil && oSlice(p.Elem()) != nil })
	rs.pair("ptr_struct", "Is(`*struct{$*_}`)",
		"p := types.AsPointer(ctx.Type)\nif p != nil {\n\treturn types.AsStruct(p.Elem()) != nil\n}\nreturn false",
		func(o *oenv, T types.Type) bool { p := oPtr(T); return p != nil && oStruct(p.Elem()) != nil })
	rs.pair("ptr_iface", "Is(`*interface{$*_}`)",
		"p := types.AsPointer(ctx.Type)\nif p != nil {\n\treturn types.AsInterface(p.Elem()) != nil\n}\nreturn false",
		func(o *oenv, T types.Type) bool { p := oPtr(T); return p != nil && oIface(p.Elem()) != nil })
	rs.pair("slice_slice", "Is(`[][]$_`)",
		"s := types.AsSlice(ctx.Type)\nif s == nil {\n\treturn false\n}\nreturn types.AsSlice(s.Elem()) != nil",
		func(o *oenv, T types.Type) bool { s := oSlice(T); return s != nil && oSlice(s.Elem()) != nil })
	rs.pair("array_array", "Is(`[$_][$_]$_`)",
		"a := types.AsArray(ctx.Type)\nif a == nil {\n\treturn false\n}\nreturn types.AsArray(a.Elem()) != nil",
		func(o *oenv, T types.Type) bool { a := oArray(T); return a != nil && oArray(a.Elem()) != nil })
	rs.pair("array_square", "Is(`[$n][$n]$_`)",
		"a := types.AsArray(ctx.Type)\nif a == nil {\n\treturn false\n}\nb := types.AsArray(a.Elem())\nif b == nil {\n\treturn false\n}\nreturn a.Len() == b.Len()",
		func(o *oenv, T types.Type) bool {
			a := oArray(T)
			if a == nil {
				return false
			}
			b := oArray(a.Elem())
			return b != nil && a.Len() == b.Len()
		})
	rs.pair("slice_elem_int", "Is(`[]int`)",
		"s := types.AsSlice(ctx.Type)\nif s == nil {\n\treturn false\n}\nreturn types.Identical(s.Elem(), ctx.GetType(`int`))",
		func(o *oenv, T types.Type) bool {
			s := oSlice(T)
			return s != nil && types.Identical(s.Elem(), types.Typ[types.Int])
		})
	rs.pair("array_elem_int", "Is(`[$_]int`)",
		"a := types.AsArray(ctx.Type)\nif a != nil {\n\treturn types.Identical(ctx.GetType(`int`), a.Elem())\n}\nreturn false",
		func(o *oenv, T types.Type) bool {
			a := oArray(T)
			return a != nil && types.Identical(a.Elem(), types.Typ[types.Int])
		})
	rs.pair("ptr_elem_mutex", "Is(`*sync.Mutex`)",
		"p := types.AsPointer(ctx.Type)\nif p == nil {\n\treturn false\n}\nreturn types.Identical(p.Elem(), ctx.GetType(`sync.Mutex`))",
		func(o *oenv, T types.Type) bool {
			p := oPtr(T)
			return p != nil && types.Identical(p.Elem(), o.lookup("sync.Mutex"))
		})
	rs.pair("ptr_elem_has_string", "Is(`*$_`)",
		"p := types.AsPointer(ctx.Type)\nif p == nil {\n\treturn false\n}\nreturn p.Elem().String() != ``",
		func(o *oenv, T types.Type) bool { return oPtr(T) != nil })

	// ---------------------------------------------------------------- String()
	rs.pair("str_u_string", "Underlying().Is(`string`)", "return ctx.Type.Underlying().String() == `string`",
		func(o *oenv, T types.Type) bool { return T.Underlying().String() == "string" })
	rs.pair("str_u_int", "Underlying().Is(`int`)", "s := ctx.Type.Underlying().String()\nreturn s == `int`",
		func(o *oenv, T types.Type) bool { return T.Underlying().String() == "int" })
	rs.pair("str_error", "Is(`error`)", "return ctx.Type.String() == `error`",
		func(o *oenv, T types.Type) bool { return T.String() == "error" })
	rs.pair("str_bytes", "Is(`[]byte`)",
		"s := ctx.Type.String()\nif s == `[]byte` {\n\treturn true\n}\nreturn s == `[]uint8`",
		func(o *oenv, T types.Type) bool { return T.String() == "[]byte" || T.String() == "[]uint8" })
	rs.pair("str_mutex_ptr", "Is(`*sync.Mutex`)", "return ctx.Type.String() == `*sync.Mutex`",
		func(o *oenv, T types.Type) bool { return T.String() == "*sync.Mutex" })
	rs.pair("str_target_S1", "Is(`target.S1`)", "return `target.S1` == ctx.Type.String()",
		func(o *oenv, T types.Type) bool { return T.String() == "target.S1" })
	rs.pair("str_eface", "Is(`interface{}`)",
		"i := types.AsInterface(ctx.Type)\nif i == nil {\n\treturn false\n}\ns := i.String()\nif s == `interface{}` {\n\treturn true\n}\nreturn s == `any`",
		func(o *oenv, T types.Type) bool {
			i := oIface(T)
			return i != nil && (i.String() == "interface{}" || i.String() == "any")
		})
	rs.pair("str_has_error_suffix", "Is(`error`) || m[\"x\"].Type.Is(`*target.ErrP`) || m[\"x\"].Type.Is(`target.ErrV`)",
		"s := ctx.Type.String()\nif s == `error` {\n\treturn true\n}\nif s == `*target.ErrP` {\n\treturn true\n}\nreturn s == `target.ErrV`",
		func(o *oenv, T types.Type) bool {
			s := T.String()
			return s == "error" || s == "*target.ErrP" || s == "target.ErrV"
		})

	// ---------------------------------------------------------------- Struct.NumFields / Field / Var.Type / Var.Embedded
	for k := 0; k <= 4; k++ {
		k := k
		var pat []string
		for i := 0; i < k; i++ {
			pat = append(pat, "$_")
		}
		rs.pair(fmt.Sprintf("nfields_%d", k), "Underlying().Is(`struct{"+strings.Join(pat, "; ")+"}`)",
			fmt.Sprintf("s := types.AsStruct(ctx.Type.Underlying())\nif s == nil {\n\treturn false\n}\nreturn s.NumFields() == %d", k),
			func(o *oenv, T types.Type) bool { s := oStruct(T.Underlying()); return s != nil && s.NumFields() == k })
	}
	rs.pair("field0_mutex", "Underlying().Is(`struct{sync.Mutex; $*_}`)",
		"s := types.AsStruct(ctx.Type.Underlying())\nif s == nil {\n\treturn false\n}\nif s.NumFields() == 0 {\n\treturn false\n}\nreturn types.Identical(s.Field(0).Type(), ctx.GetType(`sync.Mutex`))",
		func(o *oenv, T types.Type) bool {
			s := oStruct(T.Underlying())
			return s != nil && s.NumFields() > 0 && types.Identical(s.Field(0).Type(), o.lookup("sync.Mutex"))
		})
	rs.pair("field0_int", "Underlying().Is(`struct{int; $*_}`)",
		"s := types.AsStruct(ctx.Type.Underlying())\nif s == nil {\n\treturn false\n}\nif s.NumFields() < 1 {\n\treturn false\n}\nf := s.Field(0)\nreturn types.Identical(f.Type(), ctx.GetType(`int`))",
		func(o *oenv, T types.Type) bool {
			s := oStruct(T.Underlying())
			return s != nil && s.NumFields() > 0 && types.Identical(s.Field(0).Type(), types.Typ[types.Int])
		})
	rs.pair("field1_string", "Underlying().Is(`struct{$_; string; $*_}`)",
		"s := types.AsStruct(ctx.Type.Underlying())\nif s == nil {\n\treturn false\n}\nif s.NumFields() < 2 {\n\treturn false\n}\nreturn s.Field(1).Type().String() == `string`",
		func(o *oenv, T types.Type) bool {
			s := oStruct(T.Underlying())
			return s != nil && s.NumFields() > 1 && types.Identical(s.Field(1).Type(), types.Typ[types.String])
		})
	rs.pair("fields_two_same", "Underlying().Is(`struct{$t; $t}`)",
		"s := types.AsStruct(ctx.Type.Underlying())\nif s == nil {\n\treturn false\n}\nif s.NumFields() != 2 {\n\treturn false\n}\nreturn types.Identical(s.Field(0).Type(), s.Field(1).Type())",
		func(o *oenv, T types.Type) bool {
			s := oStruct(T.Underlying())
			return s != nil && s.NumFields() == 2 && types.Identical(s.Field(0).Type(), s.Field(1).Type())
		})
	rs.pair("field0_ptr", "Underlying().Is(`struct{*$_; $*_}`)",
		"s := types.AsStruct(ctx.Type.Underlying())\nif s == nil {\n\treturn false\n}\nif s.NumFields() == 0 {\n\treturn false\n}\nreturn types.AsPointer(s.Field(0).Type()) != nil",
		func(o *oenv, T types.Type) bool {
			s := oStruct(T.Underlying())
			return s != nil && s.NumFields() > 0 && oPtr(s.Field(0).Type()) != nil
		})

	// ---------------------------------------------------------------- natives without a built-in twin
	embedsMutex := func(o *oenv, T types.Type) bool {
		u := T.Underlying()
		if p := oPtr(u); p != nil {
			u = p.Elem().Underlying()
		}
		s := oStruct(u)
		if s == nil {
			return false
		}
		for i := 0; i < s.NumFields(); i++ {
			if s.Field(i).Embedded() && types.Identical(s.Field(i).Type(), o.lookup("sync.Mutex")) {
				return true
			}
		}
		return false
	}
	rs.direct("embeds_mutex", `
typ := ctx.Type.Underlying()
asPointer := types.AsPointer(typ)
if asPointer != nil {
	typ = asPointer.Elem().Underlying()
}
asStruct := types.AsStruct(typ)
if asStruct == nil {
	return false
}
mutexType := ctx.GetType(`+"`sync.Mutex`"+`)
i := 0
for i < asStruct.NumFields() {
	field := asStruct.Field(i)
	if field.Embedded() {
		if types.Identical(field.Type(), mutexType) {
			return true
		}
	}
	i++
}
return false`, embedsMutex)
	rs.direct("has_embedded", `
s := types.AsStruct(ctx.Type.Underlying())
if s == nil {
	return false
}
i := 0
for i < s.NumFields() {
	if s.Field(i).Embedded() {
		return true
	}
	i++
}
return false`, func(o *oenv, T types.Type) bool {
		s := oStruct(T.Underlying())
		if s == nil {
			return false
		}
		for i := 0; i < s.NumFields(); i++ {
			if s.Field(i).Embedded() {
				return true
			}
		}
		return false
	})
	rs.direct("all_named_fields", `
s := types.AsStruct(ctx.Type.Underlying())
if s == nil {
	return false
}
i := 0
for i < s.NumFields() {
	f := s.Field(i)
	if f.Embedded() {
		return false
	}
	i++
}
return i >= 1`, func(o *oenv, T types.Type) bool {
		s := oStruct(T.Underlying())
		if s == nil {
			return false
		}
		for i := 0; i < s.NumFields(); i++ {
			if s.Field(i).Embedded() {
				return false
			}
		}
		return s.NumFields() >= 1
	})
	rs.direct("embeds_ptr", `
s := types.AsStruct(ctx.Type.Underlying())
if s == nil {
	return false
}
i := 0
for i < s.NumFields() {
	f := s.Field(i)
	if f.Embedded() {
		if types.AsPointer(f.Type()) != nil {
			return true
		}
	}
	i++
}
return false`, func(o *oenv, T types.Type) bool {
		s := oStruct(T.Underlying())
		if s == nil {
			return false
		}
		for i := 0; i < s.NumFields(); i++ {
			if s.Field(i).Embedded() && oPtr(s.Field(i).Type()) != nil {
				return true
			}
		}
		return false
	})
	rs.direct("last_field_string", `
s := types.AsStruct(ctx.Type.Underlying())
if s == nil {
	return false
}
n := s.NumFields()
if n == 0 {
	return false
}
return s.Field(n-1).Type().String() == `+"`string`", func(o *oenv, T types.Type) bool {
		s := oStruct(T.Underlying())
		return s != nil && s.NumFields() > 0 && s.Field(s.NumFields()-1).Type().String() == "string"
	})
	rs.direct("last_field_embedded", `
s := types.AsStruct(ctx.Type.Underlying())
if s == nil {
	return false
}
n := s.NumFields()
if n == 0 {
	return false
}
return s.Field(n - 1).Embedded()`, func(o *oenv, T types.Type) bool {
		s := oStruct(T.Underlying())
		return s != nil && s.NumFields() > 0 && s.Field(s.NumFields()-1).Embedded()
	})

	rs.direct("impl_local", "return types.Implements(ctx.Type, ctx.GetInterface(`target.Local`))",
		func(o *oenv, T types.Type) bool { return types.Implements(T, o.iface("target.Local")) })
	for _, it := range []struct{ id, iface string }{{"stringer", "fmt.Stringer"}, {"error", "error"}, {"local", "target.Local"}, {"reader", "io.Reader"}} {
		it := it
		rs.direct("ptr_impl_"+it.id, "return types.Implements(types.NewPointer(ctx.Type), ctx.GetInterface(`"+it.iface+"`))",
			func(o *oenv, T types.Type) bool { return types.Implements(types.NewPointer(T), o.iface(it.iface)) })
	}
	rs.direct("elem_impl_error", "p := types.AsPointer(ctx.Type)\nif p == nil {\n\treturn false\n}\nreturn types.Implements(p.Elem(), ctx.GetInterface(`error`))",
		func(o *oenv, T types.Type) bool {
			p := oPtr(T)
			return p != nil && types.Implements(p.Elem(), o.iface("error"))
		})
	rs.direct("slice_elem_impl_stringer", "s := types.AsSlice(ctx.Type.Underlying())\nif s == nil {\n\treturn false\n}\nreturn types.Implements(s.Elem(), ctx.GetInterface(`fmt.Stringer`))",
		func(o *oenv, T types.Type) bool {
			s := oSlice(T.Underlying())
			return s != nil && types.Implements(s.Elem(), o.iface("fmt.Stringer"))
		})
	rs.direct("array_elem_impl_error", "a := types.AsArray(ctx.Type.Underlying())\nif a == nil {\n\treturn false\n}\nreturn types.Implements(a.Elem(), ctx.GetInterface(`error`))",
		func(o *oenv, T types.Type) bool {
			a := oArray(T.Underlying())
			return a != nil && types.Implements(a.Elem(), o.iface("error"))
		})
	rs.direct("u_impl_reader", "return types.Implements(ctx.Type.Underlying(), ctx.GetInterface(`io.Reader`))",
		func(o *oenv, T types.Type) bool { return types.Implements(T.Underlying(), o.iface("io.Reader")) })

	rs.direct("ptr_elem_smaller_than_uintptr", `
ptr := types.AsPointer(ctx.Type)
if ptr == nil {
	return false
}
uintptrSize := ctx.SizeOf(ctx.GetType(`+"`uintptr`"+`))
elemSize := ctx.SizeOf(ptr.Elem())
return elemSize < uintptrSize`, func(o *oenv, T types.Type) bool {
		p := oPtr(T)
		return p != nil && o.sizes.Sizeof(p.Elem()) < o.sizes.Sizeof(types.Typ[types.Uintptr])
	})
	rs.direct("slice_elem_size_8", "s := types.AsSlice(ctx.Type)\nif s == nil {\n\treturn false\n}\nreturn ctx.SizeOf(s.Elem()) == 8",
		func(o *oenv, T types.Type) bool { s := oSlice(T); return s != nil && o.sizes.Sizeof(s.Elem()) == 8 })
	rs.direct("array_elem_size_le_1", "a := types.AsArray(ctx.Type)\nif a == nil {\n\treturn false\n}\nreturn ctx.SizeOf(a.Elem()) <= 1",
		func(o *oenv, T types.Type) bool { a := oArray(T); return a != nil && o.sizes.Sizeof(a.Elem()) <= 1 })
	rs.direct("size_eq_underlying", "return ctx.SizeOf(ctx.Type) == ctx.SizeOf(ctx.Type.Underlying())",
		func(o *oenv, T types.Type) bool { return o.sizes.Sizeof(T) == o.sizes.Sizeof(T.Underlying()) })
	rs.direct("size_new_ptr", "return ctx.SizeOf(types.NewPointer(ctx.Type)) == 8",
		func(o *oenv, T types.Type) bool { return o.sizes.Sizeof(types.NewPointer(T)) == 8 })
	rs.direct("size_new_slice", "return ctx.SizeOf(types.NewSlice(ctx.Type)) == 24",
		func(o *oenv, T types.Type) bool { return o.sizes.Sizeof(types.NewSlice(T)) == 24 })
	rs.direct("size_new_array3", "sz := ctx.SizeOf(ctx.Type)\narr := ctx.SizeOf(types.NewArray(ctx.Type, 3))\nreturn arr == sz+sz+sz",
		func(o *oenv, T types.Type) bool { return o.sizes.Sizeof(types.NewArray(T, 3)) == 3*o.sizes.Sizeof(T) })
	rs.direct("size_lt_int_array", "return ctx.SizeOf(ctx.Type) < ctx.SizeOf(types.NewArray(ctx.GetType(`int`), 2))",
		func(o *oenv, T types.Type) bool { return o.sizes.Sizeof(T) < 16 })
	rs.direct("size_gt_mutex", "mu := ctx.GetType(`sync.Mutex`)\nreturn ctx.SizeOf(ctx.Type) > ctx.SizeOf(mu)",
		func(o *oenv, T types.Type) bool { return o.sizes.Sizeof(T) > o.sizes.Sizeof(o.lookup("sync.Mutex")) })

	// constructor / accessor round trips
	rs.direct("new_ptr_elem", "p := types.NewPointer(ctx.Type)\nreturn types.Identical(p.Elem(), ctx.Type)",
		func(o *oenv, T types.Type) bool { return true })
	rs.direct("new_slice_elem", "s := types.NewSlice(ctx.Type)\nreturn types.Identical(ctx.Type, s.Elem())",
		func(o *oenv, T types.Type) bool { return true })
	rs.direct("new_array_elem_len", "a := types.NewArray(ctx.Type, 7)\nif a.Len() != 7 {\n\treturn false\n}\nreturn types.Identical(a.Elem(), ctx.Type)",
		func(o *oenv, T types.Type) bool { return true })
	rs.direct("new_ptr_string", "p := types.NewPointer(ctx.Type)\nreturn p.String() == `*` + ctx.Type.String()",
		func(o *oenv, T types.Type) bool { return types.NewPointer(T).String() == "*"+T.String() })
	rs.direct("new_slice_string", "s := types.NewSlice(ctx.Type)\nreturn s.String() == `[]` + ctx.Type.String()",
		func(o *oenv, T types.Type) bool { return types.NewSlice(T).String() == "[]"+T.String() })
	rs.direct("new_array_string", "a := types.NewArray(ctx.Type, 12)\nreturn a.String() == `[12]` + ctx.Type.String()",
		func(o *oenv, T types.Type) bool { return types.NewArray(T, 12).String() == "[12]"+T.String() })
	rs.direct("new_ptr_as_ptr", "p := types.NewPointer(ctx.Type)\nreturn types.AsPointer(p) != nil",
		func(o *oenv, T types.Type) bool { return true })
	rs.direct("new_ptr_as_slice", "p := types.NewPointer(ctx.Type)\nreturn types.AsSlice(p) != nil",
		func(o *oenv, T types.Type) bool { return false })
	rs.direct("new_slice_as_array", "s := types.NewSlice(ctx.Type)\nreturn types.AsArray(s) != nil",
		func(o *oenv, T types.Type) bool { return false })
	rs.direct("new_array_underlying", "a := types.NewArray(ctx.Type, 2)\nreturn types.Identical(a.Underlying(), a)",
		func(o *oenv, T types.Type) bool { return true })
	rs.direct("identical_self", "return types.Identical(ctx.Type, ctx.Type)", func(o *oenv, T types.Type) bool { return true })
	rs.direct("identical_underlying", "return types.Identical(ctx.Type, ctx.Type.Underlying())",
		func(o *oenv, T types.Type) bool { return types.Identical(T, T.Underlying()) })
	rs.direct("identical_ptr_self", "return types.Identical(ctx.Type, types.NewPointer(ctx.Type))",
		func(o *oenv, T types.Type) bool { return false })
	rs.direct("underlying_idempotent", "u := ctx.Type.Underlying()\nreturn u.String() == u.Underlying().String()",
		func(o *oenv, T types.Type) bool {
			return T.Underlying().String() == T.Underlying().Underlying().String()
		})

	// GetType / GetInterface facts that do not depend on the site
	rs.direct("get_iface_non_iface_nil", "return ctx.GetInterface(`bytes.Buffer`) == nil", func(o *oenv, T types.Type) bool { return true })
	rs.direct("get_iface_non_nil", "return ctx.GetInterface(`io.Writer`) != nil", func(o *oenv, T types.Type) bool { return true })
	rs.direct("get_type_named_iface", "return types.AsInterface(ctx.GetType(`io.Reader`)) == nil", func(o *oenv, T types.Type) bool { return oIface(o.lookup("io.Reader")) == nil })
	rs.direct("get_type_named_iface_u", "return types.AsInterface(ctx.GetType(`io.Reader`).Underlying()) != nil",
		func(o *oenv, T types.Type) bool { return oIface(o.lookup("io.Reader").Underlying()) != nil })
	rs.direct("get_iface_string", "return ctx.GetInterface(`error`).String() == `interface{Error() string}`",
		func(o *oenv, T types.Type) bool { return o.iface("error").String() == "interface{Error() string}" })
	rs.direct("get_iface_underlying", "i := ctx.GetInterface(`fmt.Stringer`)\nreturn i.Underlying().String() == i.String()",
		func(o *oenv, T types.Type) bool {
			i := o.iface("fmt.Stringer")
			return i.Underlying().String() == i.String()
		})
	rs.direct("get_type_mutex_struct", "s := types.AsStruct(ctx.GetType(`sync.Mutex`).Underlying())\nif s == nil {\n\treturn false\n}\nreturn s.NumFields() == 2",
		func(o *oenv, T types.Type) bool {
			s := oStruct(o.lookup("sync.Mutex").Underlying())
			return s != nil && s.NumFields() == 2
		})
	rs.direct("get_type_string", "return ctx.GetType(`bytes.Buffer`).String() == `bytes.Buffer`",
		func(o *oenv, T types.Type) bool { return o.lookup("bytes.Buffer").String() == "bytes.Buffer" })
	rs.direct("get_type_error_string", "return ctx.GetType(`error`).String() == `error`", func(o *oenv, T types.Type) bool { return true })
	rs.direct("get_type_byte_size", "return ctx.SizeOf(ctx.GetType(`byte`)) == 1", func(o *oenv, T types.Type) bool { return true })
	rs.direct("get_type_buffer_size", "return ctx.SizeOf(ctx.GetType(`bytes.Buffer`)) == 40",
		func(o *oenv, T types.Type) bool { return o.sizes.Sizeof(o.lookup("bytes.Buffer")) == 40 })
	rs.direct("get_type_new_array_len", "a := types.NewArray(ctx.GetType(`int`), 5)\nif a.Len() != 5 {\n\treturn false\n}\nreturn a.String() == `[5]int`",
		func(o *oenv, T types.Type) bool { return true })

	// ---------------------------------------------------------------- Do functions
	rs.do("text", "ctx.SetReport(ctx.Var(`x`).Text())", func(o *oenv, s *site) string { return s.Text })
	rs.do("type", "ctx.SetReport(ctx.Var(`x`).Type().String())", func(o *oenv, s *site) string { return s.T.String() })
	rs.do("sugg", "ctx.SetSuggest(ctx.Var(`x`).Text())", func(o *oenv, s *site) string { return "suggestion: " + s.Text })
	rs.groups[len(rs.groups)-1].osugg = func(o *oenv, s *site) string { return s.Text }
	rs.do("both", "x := ctx.Var(`x`)\nctx.SetReport(`R<` + x.Text() + `>`)\nctx.SetSuggest(`S<` + x.Type().String() + `>`)",
		func(o *oenv, s *site) string { return "R<" + s.Text + ">" })
	rs.groups[len(rs.groups)-1].osugg = func(o *oenv, s *site) string { return "S<" + s.T.String() + ">" }
	rs.do("under", "ctx.SetReport(ctx.Var(`x`).Type().Underlying().String())", func(o *oenv, s *site) string { return s.T.Underlying().String() })
	rs.do("ptr_chain", `
t := ctx.Var(`+"`x`"+`).Type()
s := ""
n := 0
p := types.AsPointer(t)
for p != nil {
	s = s + "*(" + p.String() + "|" + p.Underlying().String() + ")"
	t = p.Elem()
	p = types.AsPointer(t)
	n++
	if n > 16 {
		break
	}
}
ctx.SetReport(s + "=>" + t.String())`, func(o *oenv, st *site) string {
		t := st.T
		s := ""
		for p := oPtr(t); p != nil; p = oPtr(t) {
			s += "*(" + p.String() + "|" + p.Underlying().String() + ")"
			t = p.Elem()
		}
		return s + "=>" + t.String()
	})
	rs.do("ptr_u", `
p := types.AsPointer(ctx.Var(`+"`x`"+`).Type().Underlying())
if p == nil {
	ctx.SetReport("-")
	return
}
ctx.SetReport(p.Elem().String() + "|" + p.Elem().Underlying().String())`, func(o *oenv, st *site) string {
		p := oPtr(st.T.Underlying())
		if p == nil {
			return "-"
		}
		return p.Elem().String() + "|" + p.Elem().Underlying().String()
	})
	rs.do("struct", `
st := types.AsStruct(ctx.Var(`+"`x`"+`).Type().Underlying())
if st == nil {
	ctx.SetReport("-")
	return
}
s := "{"
i := 0
for i < st.NumFields() {
	f := st.Field(i)
	if f.Embedded() {
		s = s + "E:"
	} else {
		s = s + "F:"
	}
	s = s + f.Type().String() + ";"
	i++
}
ctx.SetReport(s + "}" + st.String() + "|" + st.Underlying().String())`, func(o *oenv, site *site) string {
		st := oStruct(site.T.Underlying())
		if st == nil {
			return "-"
		}
		s := "{"
		for i := 0; i < st.NumFields(); i++ {
			if st.Field(i).Embedded() {
				s += "E:"
			} else {
				s += "F:"
			}
			s += st.Field(i).Type().String() + ";"
		}
		return s + "}" + st.String() + "|" + st.Underlying().String()
	})
	rs.do("array", `
a := types.AsArray(ctx.Var(`+"`x`"+`).Type().Underlying())
if a == nil {
	ctx.SetReport("-")
	return
}
n := a.Len()
s := ""
i := 0
for i < n {
	s = s + "|"
	i++
}
ctx.SetReport("[" + s + "]" + a.Elem().String() + "=" + a.String() + "=" + a.Underlying().String())`, func(o *oenv, site *site) string {
		a := oArray(site.T.Underlying())
		if a == nil {
			return "-"
		}
		return "[" + tally(a.Len()) + "]" + a.Elem().String() + "=" + a.String() + "=" + a.Underlying().String()
	})
	rs.do("slice", `
sl := types.AsSlice(ctx.Var(`+"`x`"+`).Type().Underlying())
if sl == nil {
	ctx.SetReport("-")
	return
}
ctx.SetReport(sl.Elem().String() + "=" + sl.String() + "=" + sl.Underlying().String() + "=" + sl.Elem().Underlying().String())`, func(o *oenv, site *site) string {
		sl := oSlice(site.T.Underlying())
		if sl == nil {
			return "-"
		}
		return sl.Elem().String() + "=" + sl.String() + "=" + sl.Underlying().String() + "=" + sl.Elem().Underlying().String()
	})
	rs.do("iface", `
i := types.AsInterface(ctx.Var(`+"`x`"+`).Type().Underlying())
if i == nil {
	ctx.SetReport("-")
	return
}
ctx.SetReport(i.String() + "=" + i.Underlying().String())`, func(o *oenv, site *site) string {
		i := oIface(site.T.Underlying())
		if i == nil {
			return "-"
		}
		return i.String() + "=" + i.Underlying().String()
	})
	rs.do("self_impl", `
t := ctx.Var(`+"`x`"+`).Type()
i := types.AsInterface(t.Underlying())
if i == nil {
	ctx.SetReport("not an interface")
	return
}
if types.Implements(t, i) {
	ctx.SetReport("self-implementing " + t.String())
} else {
	ctx.SetReport("odd " + t.String())
}`, func(o *oenv, site *site) string {
		i := oIface(site.T.Underlying())
		if i == nil {
			return "not an interface"
		}
		if types.Implements(site.T, i) {
			return "self-implementing " + site.T.String()
		}
		return "odd " + site.T.String()
	})

	// ---------------------------------------------------------------- probe2: Type.IdenticalTo <-> types.Identical in a Do function
	rs.funcs = append(rs.funcs, "func f_identical2(ctx *dsl.DoContext) {\n\txt := ctx.Var(`x`).Type()\n\tyt := ctx.Var(`y`).Type()\n\tif types.Identical(xt, yt) {\n\t\tctx.SetReport(`T`)\n\t} else {\n\t\tctx.SetReport(`F`)\n\t}\n}\n")
	rs.groups = append(rs.groups,
		&group{name: "b_identical2", kind: 'b', pair: "identical2", two: true, cond: `m["x"].Type.IdenticalTo(m["y"])`},
		&group{name: "d_identical2", kind: 'd', pair: "identical2", two: true, doFn: "f_identical2"})
	rs.pairs = append(rs.pairs, "identical2")
	// the same custom filter bound to two variables of one match (makeCustomVarFilter is instantiated per variable and
	// must hand the right variable's type to the function)
	for _, tw := range []struct{ name, builtin, custom string }{
		{"two_both_ptr", "m[\"x\"].Type.Is(`*$_`) && m[\"y\"].Type.Is(`*$_`)", "m[\"x\"].Filter(f_is_ptr) && m[\"y\"].Filter(f_is_ptr)"},
		{"two_y_slice", "m[\"y\"].Type.Is(`[]$_`)", "m[\"y\"].Filter(f_is_slice)"},
		{"two_x_not_y_size", "m[\"x\"].Type.Size >= 9 && !(m[\"y\"].Type.Size >= 9)", "m[\"x\"].Filter(f_size_ge_9) && !m[\"y\"].Filter(f_size_ge_9)"},
		{"two_y_then_x", "m[\"y\"].Type.Is(`error`) || m[\"x\"].Type.Is(`error`)", "m[\"y\"].Filter(f_str_error) || m[\"x\"].Filter(f_str_error)"},
	} {
		rs.groups = append(rs.groups,
			&group{name: "b_" + tw.name, kind: 'b', pair: tw.name, two: true, cond: tw.builtin},
			&group{name: "c_" + tw.name, kind: 'c', pair: tw.name, two: true, cond: tw.custom})
		rs.pairs = append(rs.pairs, tw.name)
	}
	rs.funcs = append(rs.funcs, "func f_text2(ctx *dsl.DoContext) {\n\tctx.SetReport(ctx.Var(`y`).Text() + ` <- ` + ctx.Var(`x`).Text())\n\tctx.SetSuggest(ctx.Var(`y`).Type().String() + ` <- ` + ctx.Var(`x`).Type().String())\n}\n")
	rs.groups = append(rs.groups, &group{name: "d_text2", kind: 'd', two: true, doFn: "f_text2",
		ostr:  func(o *oenv, s *site) string { return s.Text2 + " <- " + s.Text },
		osugg: func(o *oenv, s *site) string { return s.T2.String() + " <- " + s.T.String() }})

	buildHoldRules(rs)
	return rs
}
