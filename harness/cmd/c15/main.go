// c15: observations for "interpolated text is shortened only when it exceeds TruncateLen".
//   direct  : truncateText swept over (length, maxLen) through the verif hook
//   engine  : Report("V=$x;") / Suggest("$x") over string literals of every length under many TruncateLen values
// Output: one JSON object per line on stdout.
package main

import (
	"encoding/json"
	"flag"
	"fmt"
	"math"
	"math/rand"
	"os"
	"strings"

	"verif/harness/internal/hutil"

	"github.com/quasilyte/go-ruleguard/ruleguard"
)

type direct struct {
	K     string `json:"k"`
	N     int    `json:"n"`
	L     int64  `json:"L"`
	Res   []int  `json:"res"`
	Panic string `json:"panic,omitempty"`
}

type engineObs struct {
	K     string `json:"k"`
	Text  string `json:"text"`
	L     int    `json:"L"`
	Msg   string `json:"msg"`
	Sugg  string `json:"sugg"`
	Panic string `json:"panic,omitempty"`
	NRep  int    `json:"nrep"`
}

func mkBytes(n int) []byte {
	b := make([]byte, n)
	for i := range b {
		b[i] = byte(i % 256)
	}
	return b
}

// mkUTF8 is the first n bytes of a repeating mix of 1-, 2-, 3- and 4-byte runes (a cut may fall inside a rune).
func mkUTF8(n int) []byte {
	const unit = "a\u00e9\u4e16\U0001F600b"
	b := make([]byte, n)
	for i := range b {
		b[i] = unit[i%len(unit)]
	}
	return b
}

func runDirect(enc *json.Encoder, n int, L int64) {
	runDirectKind(enc, "direct", mkBytes(n), n, L)
	runDirectKind(enc, "direct2", mkUTF8(n), n, L)
}

func runDirectKind(enc *json.Encoder, kind string, s []byte, n int, L int64) {
	d := direct{K: kind, N: n, L: L}
	func() {
		defer func() {
			if r := recover(); r != nil {
				d.Panic = fmt.Sprint(r)
			}
		}()
		s = s[:n:n]
		out := ruleguard.VerifTruncateText(s, int(L))
		d.Res = make([]int, len(out))
		for i, c := range out {
			d.Res[i] = int(c)
		}
	}()
	enc.Encode(d)
}

const rules = `package gorules

import "github.com/quasilyte/go-ruleguard/dsl"

func c15(m dsl.Matcher) {
	m.Match(` + "`probe($x)`" + `).Report(` + "`V=$x;W=$$;`" + `).Suggest(` + "`$x`" + `)
}

func c15s(m dsl.Matcher) {
	m.Match(` + "`probe2($x)`" + `).Suggest(` + "`$x`" + `)
}

func c15amp(m dsl.Matcher) {
	m.Match(` + "`probe3($x)`" + `).Report(` + "`F=$x.f;`" + `)
}

func c15two(m dsl.Matcher) {
	m.Match(` + "`probe4($x, $y, $z)`" + `).Report(` + "`A=$x;B=$y;C=$z;`" + `)
}

func c15csugg(m dsl.Matcher) {
	m.MatchComment(` + "`//c15z:(?P<body>\\w*)`" + `).Suggest(` + "`$body`" + `)
}

// pairs of rules in which one rule's Report template is spelled exactly like another rule's Suggest template
func c15r(m dsl.Matcher) {
	m.Match(` + "`probe5($x)`" + `).Report(` + "`$x`" + `)
}

func c15p(m dsl.Matcher) {
	m.Match(` + "`probe6($x)`" + `).Suggest(` + "`P$x`" + `)
}

func c15q(m dsl.Matcher) {
	m.Match(` + "`probe7($x)`" + `).Report(` + "`P$x`" + `)
}

func c15comment(m dsl.Matcher) {
	m.MatchComment(` + "`//c15:(?P<body>\\w*)`" + `).Report(` + "`V=$body;W=$$;`" + `).Suggest(` + "`$body`" + `)
}
`

func main() {
	maxN := flag.Int("maxn", 80, "sweep text lengths 0..maxn")
	maxL := flag.Int("maxl", 80, "sweep maxLen -8..maxl")
	nrand := flag.Int("rand", 200, "random extra (n, L) pairs")
	seed := flag.Int64("seed", 1, "PRNG seed")
	tmp := flag.String("tmp", "", "scratch directory")
	flag.Parse()
	enc := json.NewEncoder(os.Stdout)
	rng := rand.New(rand.NewSource(*seed))

	for n := 0; n <= *maxN; n++ {
		for L := -8; L <= *maxL; L++ {
			runDirect(enc, n, int64(L))
		}
	}
	extremes := []int64{math.MinInt64, math.MinInt64 + 1, math.MinInt64 + 4, math.MinInt64 + 5, math.MaxInt64, math.MaxInt64 - 1, math.MaxInt64 - 5, -1 << 32, 1 << 32}
	for i := 0; i < *nrand; i++ {
		n := rng.Intn(3000)
		var L int64
		switch rng.Intn(4) {
		case 0:
			L = extremes[rng.Intn(len(extremes))]
		case 1:
			L = int64(n + rng.Intn(13) - 6)
		default:
			L = int64(rng.Intn(3200) - 100)
		}
		runDirect(enc, n, L)
	}

	// engine level
	var sb strings.Builder
	sb.WriteString("package target\n\nfunc probe(string) {}\nfunc probe2(string) {}\nfunc probe3(*int) {}\nfunc probe4(a, b, c string) {}\nfunc probe5(string) {}\nfunc probe6(string) {}\nfunc probe7(string) {}\n\nfunc f() {\n")
	// rendered first in every run: a Report template "$x" (later Suggest templates are spelled the same) and a
	// Suggest template "P$x" (later Report templates are spelled the same), both over a text longer than any limit used
	long := "\"" + strings.Repeat("Lo0ng", 60) + "\""
	fmt.Fprintf(&sb, "\tprobe5(%s)\n\tprobe6(%s)\n", long, long)
	const alphabet = "abcdefghijklmnopqrstuvwxyz0123456789ABCDEFGHIJKLMNOPQRSTUVWXYZ"
	var texts []string
	for n := 0; n <= *maxN+40; n++ {
		var lit strings.Builder
		lit.WriteByte('"')
		off := rng.Intn(len(alphabet))
		for i := 0; i < n; i++ {
			lit.WriteByte(alphabet[(off+i)%len(alphabet)])
		}
		lit.WriteByte('"')
		texts = append(texts, lit.String())
		fmt.Fprintf(&sb, "\tprobe(%s)\n", lit.String())
		fmt.Fprintf(&sb, "\t//c15:%s\n", strings.Trim(lit.String(), "\""))
		fmt.Fprintf(&sb, "\tprobe2(%s)\n", lit.String())
		fmt.Fprintf(&sb, "\tprobe5(%s)\n\tprobe6(%s)\n\tprobe7(%s)\n", lit.String(), lit.String(), lit.String())
		fmt.Fprintf(&sb, "\t//c15z:%s\n", strings.Trim(lit.String(), "\""))
		ident := "v" + strings.Trim(lit.String(), "\"")
		fmt.Fprintf(&sb, "\tvar %s int\n\tprobe3(&%s)\n", ident, ident)
		// three interpolations in one message: a long one first, then texts around the limit
		fmt.Fprintf(&sb, "\tprobe4(%s, %s, %s)\n", texts[(n*7)%len(texts)], lit.String(), texts[(n*3+1)%len(texts)])
	}
	sb.WriteString("}\n")
	t, err := hutil.CheckTarget(*tmp, "target/target.go", []byte(sb.String()))
	if err != nil {
		fmt.Fprintln(os.Stderr, err)
		os.Exit(3)
	}
	e, err := hutil.LoadEngine(t.Fset, map[string]string{"rules.go": rules}, []string{"rules.go"})
	if err != nil {
		fmt.Fprintln(os.Stderr, "load:", err)
		os.Exit(3)
	}
	Ls := []int{-100, -7, -1, 0, 1, 2, 3, 4, 5, 6, 7, 8, 9, 10, 11, 12, 13, 29, 30, 59, 60, 61, 62, 64, 65, 66, 100, 1000}
	for i := 0; i < 6; i++ {
		Ls = append(Ls, rng.Intn(*maxN+50))
	}
	state := ruleguard.NewRunnerState(e)
	shared := hutil.NewCtxRunner(t, ruleguard.NewRunnerState(e))
	for li, L := range Ls {
		// three ways a driver may run: fresh context + nil state, fresh context + reused state,
		// and ONE context object (with its state) whose TruncateLen field is changed between runs
		var reports []hutil.Report
		var pmsg string
		switch li % 3 {
		case 0:
			reports, pmsg = hutil.Run(e, t, L, "", nil)
		case 1:
			reports, pmsg = hutil.Run(e, t, L, "", state)
		default:
			shared.Ctx.TruncateLen = L
			reports, pmsg = shared.Run(e)
		}
		enc.Encode(engineObs{K: "count", L: L, Panic: pmsg, NRep: len(reports), Msg: fmt.Sprint(9*len(texts) + 2)})
		if pmsg != "" {
			continue
		}
		for _, r := range reports {
			switch r.Group {
			case "c15":
				enc.Encode(engineObs{K: "engine", Text: string(t.Src[r.Pos+len("probe(") : r.End-1]), L: L, Msg: r.Message, Sugg: r.Sugg, NRep: len(reports)})
			case "c15r":
				enc.Encode(engineObs{K: "rx", Text: string(t.Src[r.Pos+len("probe5(") : r.End-1]), L: L, Msg: r.Message, Sugg: r.Sugg, NRep: len(reports)})
			case "c15p":
				enc.Encode(engineObs{K: "px", Text: string(t.Src[r.Pos+len("probe6(") : r.End-1]), L: L, Msg: r.Message, Sugg: r.Sugg, NRep: len(reports)})
			case "c15q":
				enc.Encode(engineObs{K: "qx", Text: string(t.Src[r.Pos+len("probe7(") : r.End-1]), L: L, Msg: r.Message, Sugg: r.Sugg, NRep: len(reports)})
			case "c15amp":
				enc.Encode(engineObs{K: "amp", Text: string(t.Src[r.Pos+len("probe3(&") : r.End-1]), L: L, Msg: r.Message, Sugg: r.Sugg, NRep: len(reports)})
			case "c15two":
				enc.Encode(engineObs{K: "three", Text: string(t.Src[r.Pos+len("probe4(") : r.End-1]), L: L, Msg: r.Message, Sugg: r.Sugg, NRep: len(reports)})
			case "c15csugg":
				enc.Encode(engineObs{K: "csugg", Text: string(t.Src[r.Pos+len("//c15z:") : r.End]), L: L, Msg: r.Message, Sugg: r.Sugg, NRep: len(reports)})
			case "c15s":
				enc.Encode(engineObs{K: "suggonly", Text: string(t.Src[r.Pos+len("probe2(") : r.End-1]), L: L, Msg: r.Message, Sugg: r.Sugg, NRep: len(reports)})
			default:
				enc.Encode(engineObs{K: "comment", Text: string(t.Src[r.Pos+len("//c15:") : r.End]), L: L, Msg: r.Message, Sugg: r.Sugg, NRep: len(reports)})
			}
		}
	}
}
