// Rule sets and target files that exercise every kind of object that Load builds and that concurrent Run calls share
// read-only afterwards: typematch.Pattern of every pattern op (incl. $*_ runs, repeated type and length variables),
// gogrep sub-patterns (Contains), textmatch matchers of every kind and real regexps, compiled quasigo functions
// (locals, loops, calls of user functions, Do bodies), comment rules, At / Suggest templates.
//
// The target files ("zoo") apply every one of those filters to MANY DIFFERENT types / texts in quick succession, and
// the zoo packages declare structurally equal but distinct type objects: whatever a shared object remembers about the
// last input (a memo, a scratch buffer, a cursor) is overwritten by the other goroutines.
package main

import (
	"fmt"
	"strings"
)

// every type pattern has a sink function of its own, so that every pattern is evaluated on every value passed to it
// (rules with one shared pattern would stop at the first rule that accepts)
var ltTypeFilters = []string{
	`m["x"].Type.Is("int")`,
	`m["x"].Type.Is("*$t")`,
	`m["x"].Type.Is("**$_")`,
	`m["x"].Type.Is("[]$t")`,
	`m["x"].Type.Is("[]byte")`,
	`m["x"].Type.Is("[$n]$t")`,
	`m["x"].Type.Is("[4]$_")`,
	`m["x"].Type.Is("[$n][$n]$_")`,
	`m["x"].Type.Is("[$_][$_]int")`,
	`m["x"].Type.Is("map[$k]$v")`,
	`m["x"].Type.Is("map[$t]$t")`,
	`m["x"].Type.Is("map[string][]$t")`,
	`m["x"].Type.Is("chan $t")`,
	`m["x"].Type.Is("<-chan int")`,
	`m["x"].Type.Is("chan<- $_")`,
	`m["x"].Type.Is("func($t) $t")`,
	`m["x"].Type.Is("func($*_) error")`,
	`m["x"].Type.Is("func(int, $*_) $_")`,
	`m["x"].Type.Is("func($*_) ($_, error)")`,
	`m["x"].Type.Is("func($*_, string, $*_) $*_")`,
	`m["x"].Type.Is("func($*_, $t, $*_) $t")`,
	`m["x"].Type.Is("func()")`,
	`m["x"].Type.Underlying().Is("func($*_) error")`,
	`m["x"].Type.Underlying().Is("struct{$*_; string; $*_}")`,
	`m["x"].Type.Underlying().Is("struct{$t; $t}")`,
	`m["x"].Type.Underlying().Is("struct{int; $*_}")`,
	`m["x"].Type.Underlying().Is("struct{$*_; float64}")`,
	`m["x"].Type.Underlying().Is("struct{$*_; $t; $*_; $t; $*_}")`,
	`m["x"].Type.Underlying().Is("struct{$*_; *$t; $*_; $t; $*_}")`,
	`m["x"].Type.Underlying().Is("struct{$*_; string; $*_; string; $*_}")`,
	`m["x"].Type.Is("struct{$*_; int; $*_}")`,
	`m["x"].Type.Is("interface{}")`,
	`m["x"].Type.Underlying().Is("interface{ $*_ }")`,
	`m["x"].Type.Is("bytes.Buffer")`,
	`m["x"].Type.Is("*strings.Builder")`,
	`m["x"].Type.Is("error")`,
	`m["x"].Type.Is("io.Reader")`,
	`m["x"].Type.Is("unsafe.Pointer")`,
	`m["x"].Type.Is("[]func($*_) ($t, error)")`,
	`m["x"].Type.Is("map[string]func($*_) $_")`,
	`m["x"].Type.Is("*struct{$*_; string; $*_}")`,
	`m["x"].Type.Is("[]struct{$*_; $t; $t; $*_}")`,
	`m["x"].Type.ConvertibleTo("string")`,
	`m["x"].Type.ConvertibleTo("[]byte")`,
	`m["x"].Type.AssignableTo("float64")`,
	`m["x"].Type.AssignableTo("interface{}")`,
	`m["x"].Type.Implements("error")`,
	`m["x"].Type.Implements("fmt.Stringer")`,
	`m["x"].Type.HasMethod("io.Writer.Write")`,
	`m["x"].Type.HasPointers()`,
	`m["x"].Type.OfKind("numeric")`,
	`m["x"].Type.Underlying().OfKind("float")`,
	`m["x"].Type.Size >= 24`,
	`m["x"].Comparable`,
	`m["x"].Addressable && m["x"].Pure`,
	`m["x"].Object.Is("Var") && m["x"].Object.IsGlobal()`,
	`!m["x"].Type.Is("func($*_) $*_") && !m["x"].Type.Underlying().Is("struct{$*_}") && m["x"].Type.HasPointers()`,
	`m["x"].Type.Is("func($*_) error") || m["x"].Type.Underlying().Is("struct{$*_; string; $*_}") || m["x"].Type.Is("[]$_")`,
}

func ltSinkName(i int) string { return fmt.Sprintf("t%02d", i) }

func rulesLtTypes() string {
	var sb strings.Builder
	sb.WriteString("package gorules\n\nimport \"github.com/quasilyte/go-ruleguard/dsl\"\n\nfunc c08ltTypes(m dsl.Matcher) {\n")
	for i, f := range ltTypeFilters {
		fmt.Fprintf(&sb, "\tm.Match(\"%s($x)\").Where(%s).Report(\"%s accepts $x\")\n", ltSinkName(i), f, ltSinkName(i))
	}
	// the same patterns once more through expression lists and the sink type of the whole match
	sb.WriteString(`	m.Match("tl($*xs)").Where(m["xs"].Type.Underlying().Is("struct{$*_; string; $*_}")).Report("all with a string field: $xs")
	m.Match("tl($*xs)").Where(m["xs"].Type.Is("func($*_) error")).Report("all may fail: $xs")
	m.Match("tl($*xs)").Where(m["xs"].Type.Is("[]$t")).Report("all slices: $xs")
	m.Match("tp($x, $y)").Where(m["x"].Type.IdenticalTo(m["y"])).Report("same type: $x and $y")
	m.Match("$arr[$i]").Where(m["$$"].SinkType.Is("func($*_) error")).Report("goes where a func($*_) error is expected: $$")
	m.Match("$arr[$i]").Where(m["$$"].SinkType.Is("struct{$*_; string; $*_}")).Report("goes where a struct with a string is expected: $$")
	m.Match("$arr[$i]").Where(m["$$"].SinkType.Is("[]$t")).Report("goes where a slice is expected: $$")
	m.Match("$arr[$i]").Where(m["$$"].SinkType.Is("map[$t]$t")).Report("goes where a map[T]T is expected: $$")
}
`)
	return sb.String()
}

// everything else that Load compiles: custom filters (locals, loops, user-function calls), Do bodies, Contains
// sub-patterns, text matchers of every kind, comment rules with and without capture groups, At / Suggest templates
const rulesLtMisc = `package gorules

import (
	"github.com/quasilyte/go-ruleguard/dsl"
	"github.com/quasilyte/go-ruleguard/dsl/types"
)

func isStringVar(v *types.Var) bool {
	return v.Type().String() == "string"
}

func countStrings(s *types.Struct) int {
	n := 0
	i := 0
	for i < s.NumFields() {
		if isStringVar(s.Field(i)) {
			n++
		}
		i++
	}
	return n
}

func hasTwoStrings(ctx *dsl.VarFilterContext) bool {
	s := types.AsStruct(ctx.Type.Underlying())
	if s == nil {
		return false
	}
	return countStrings(s) >= 2
}

func pointerDepth(t types.Type) int {
	d := 0
	cur := t
	p := types.AsPointer(cur)
	for p != nil {
		d++
		cur = p.Elem()
		p = types.AsPointer(cur)
	}
	return d
}

func isDeepPointer(ctx *dsl.VarFilterContext) bool {
	return pointerDepth(ctx.Type) >= 2
}

func dots(s string) int {
	k := 0
	i := 0
	n := len(s)
	for i < n {
		if s[i:i+1] == "." {
			k++
		}
		i++
	}
	return k
}

func qualifiedLongName(ctx *dsl.VarFilterContext) bool {
	name := ctx.Type.String()
	k := dots(name)
	l := len(name)
	return k >= 1 && l > 9 && dots(name) == k
}

func firstAndLastAlike(ctx *dsl.VarFilterContext) bool {
	s := types.AsStruct(ctx.Type.Underlying())
	if s == nil {
		return false
	}
	n := s.NumFields()
	if n < 2 {
		return false
	}
	first := s.Field(0).Type()
	last := s.Field(n - 1).Type()
	same := types.Identical(first, last)
	size := ctx.SizeOf(first) + ctx.SizeOf(last)
	return same && size > 0
}

func describe(ctx *dsl.DoContext) {
	typ := ctx.Var("x").Type()
	text := ctx.Var("x").Text()
	msg := text + " is " + typ.String() + ":"
	s := types.AsStruct(typ.Underlying())
	if s != nil {
		i := 0
		for i < s.NumFields() {
			msg = msg + " " + s.Field(i).Type().String()
			i++
		}
	}
	ctx.SetReport(msg)
	ctx.SetSuggest("dump(" + text + ")")
}

func swapArgs(ctx *dsl.DoContext) {
	a := ctx.Var("a").Text()
	b := ctx.Var("b").Text()
	n := len(a) + len(b)
	if n > 6 {
		ctx.SetReport("long pair " + a + "/" + b)
	} else {
		ctx.SetReport("pair " + a + "/" + b)
	}
	ctx.SetSuggest("pair(" + b + ", " + a + ")")
}

func c08ltMisc(m dsl.Matcher) {
	m.Match("q01($x)").Where(m["x"].Filter(hasTwoStrings)).Report("q01 two strings in $x")
	m.Match("q02($x)").Where(m["x"].Filter(isDeepPointer)).Report("q02 deep pointer $x").Suggest("deref($x)")
	m.Match("q03($x)").Where(m["x"].Filter(qualifiedLongName)).Report("q03 qualified $x")
	m.Match("q04($x)").Where(m["x"].Filter(firstAndLastAlike) && !m["x"].Filter(hasTwoStrings)).Report("q04 bracketed $x")
	m.Match("q05($x)").Do(describe)
	m.Match("pair($a, $b)").Where(m["a"].Type.Is("int") || m["b"].Filter(isDeepPointer)).Do(swapArgs)

	m.Match("for $i := range $xs { $*body }").Where(m["body"].Contains("$xs[$i]")).Report("indexing $xs by $i inside the loop").At(m["xs"])
	m.Match("for $_, $v := range $xs { $*body }").Where(m["body"].Contains("$v = $_") && !m["body"].Contains("return $*_")).Report("loop variable $v assigned").At(m["v"])
	m.Match("if $cond { $*body }").Where(m["body"].Contains("if $cond { $*_ }")).Report("nested repeat of $cond")
	m.Match("func($*_) $*_ { $*body }").Where(m["body"].Contains("panic($_)") && m["body"].Contains("recover()")).Report("panics and recovers")

	m.Match("name($s)").Where(m["s"].Text.Matches("alpha")).Report("contains alpha: $s")
	m.Match("name($s)").Where(m["s"].Text.Matches("^\"beta")).Report("prefix beta: $s").Suggest("name(beta)")
	m.Match("name($s)").Where(m["s"].Text.Matches("gamma\"$")).Report("suffix gamma: $s")
	m.Match("name($s)").Where(m["s"].Text.Matches("^\"delta\"$")).Report("exactly delta: $s")
	m.Match("name($s)").Where(m["s"].Text.Matches("^\\p{Lu}")).Report("upper-case identifier: $s")
	m.Match("name($s)").Where(m["s"].Text.Matches("^\"[a-z]+_[0-9]+\"$")).Report("snake number: $s")
	m.Match("name($s)").Where(m["s"].Text.Matches("(?i)^\"OMEGA")).Report("omega: $s")
	m.Match("name($s)").Where(m["s"].Const && m["s"].Value.Int() > 40 && m["s"].Line > 3).Report("big constant $s")
	m.Match("name($s)").Where(m.File().PkgPath.Matches("pz[0-9]$") && m.File().Name.Matches("^pz") && m["s"].Text == "last").Report("last of a zoo file")
	m.Match("name($s)").Where(m.File().Imports("unsafe") && m["s"].Node.Is("BasicLit") && m["s"].Text.Matches("^[0-9]")).Report("small number $s")

	m.MatchComment("FIXME\\((?P<who>\\w+)\\): (?P<what>.*)").Where(m["who"].Text.Matches("^[a-k]")).Report("fixme of $who: $what").At(m["what"])
	m.MatchComment("FIXME\\((?P<who>\\w+)\\)").Report("somebody else's fixme ($who)").Suggest("FIXME($who!)")
	m.MatchComment("//\\s*nolint").Report("nolint comment").Suggest("// lint")
	m.MatchComment("(?i)hack.*").Where(m["$$"].Text.Matches("[0-9]")).Report("numbered hack: $$")
}
`

var ltRuleSets = []ruleSet{
	{name: "loadtime-types", files: []string{"lttypes.go"}, text: map[string]string{"lttypes.go": rulesLtTypes()}, allZoo: true},
	{name: "loadtime-misc", files: []string{"ltmisc.go"}, text: map[string]string{"ltmisc.go": rulesLtMisc}, allZoo: true, freshBase: true, firstTouch: true},
	// both files on one engine (merged rule sets: cloned gogrep patterns, shared filters)
	{name: "loadtime-both", files: []string{"lttypes.go", "ltmisc.go"}, text: map[string]string{"lttypes.go": rulesLtTypes(), "ltmisc.go": rulesLtMisc}, allZoo: true},
}

func init() { ruleSets = append(ruleSets, ltRuleSets...) }

// ------------------------------------------------------------------------------------------------ the zoo

const zooDecls = `
type (
	withStr1 struct {
		a int
		b string
	}
	withStr2 struct {
		x, y, z int
		name    string
		w       float64
	}
	noStr1 struct {
		a int
		b float64
	}
	noStr2  struct{ a, b, c, d, e, f int }
	ptrPair struct{ p, q *int }
	twoStr  struct {
		s1 string
		n  int
		s2 string
	}
	ptrVal struct {
		k  string
		p  *float64
		f  float64
		ok bool
	}
	myErr    struct{ msg string }
	celsius  float64
	handler  func(int) error
	anyIface interface{ M() }
	wrapped  struct{ inner []struct{ a, b int } }
)

func (e *myErr) Error() string  { return e.msg }
func (c celsius) String() string { return "c" }

var (
	vInt   int
	vStr   string
	vF64   float64
	vCel   celsius
	vPInt  *int
	vPPInt **int
	vPWs   *withStr1
	vPAnon *struct {
		id   int
		name string
	}
	vSlI    []int
	vSlB    []byte
	vSlS    []string
	vSlSt   []struct{ a, b int }
	vArr4   [4]int
	vArr2   [2]string
	vArr33  [3][3]int
	vArr34  [3][4]int
	vMapSI  map[string]int
	vMapSS  map[string]string
	vMapSSl map[string][]int
	vMapSF  map[string]func(int) bool
	vChI    chan int
	vChRI   <-chan int
	vChSS   chan<- string
	vFe1    func(int) error
	vFe2    func(int, string, ...int) error
	vFn1    func(int, string) int
	vFn2    func() (int, error)
	vFn3    func(int) int
	vFn4    func()
	vFn5    func(string, float64, string) string
	vH      handler
	vWs1    withStr1
	vWs2    withStr2
	vNs1    noStr1
	vNs2    noStr2
	vPair   ptrPair
	vTwo    twoStr
	vPV     ptrVal
	vAnon   struct {
		n int
		s string
	}
	vEface interface{}
	vErr   error
	vRd    io.Reader
	vAI    anyIface
	vBuf   bytes.Buffer
	vPBuf  *bytes.Buffer
	vPSB   *strings.Builder
	vMyErr *myErr
	vSlFn  []func(int) (string, error)
	vUP    unsafe.Pointer
	vWr    wrapped
	vI8    int8
	vU64   uint64
	vC128  complex128
)

func tl(...interface{})      {}
func tp(a, b interface{})    {}
func pair(a, b interface{})  {}
func name(interface{})       {}
func q01(interface{})        {}
func q02(interface{})        {}
func q03(interface{})        {}
func q04(interface{})        {}
func q05(interface{})        {}
func wantFE(func(int) error) {}
func wantWS(struct {
	a int
	b string
}) {
}
func wantSl([]int)           {}
func wantMap(map[string]string) {}
func wantAny(interface{})    {}

var (
	slotFE  []func(int) error
	slotWS  []struct {
		a int
		b string
	}
	slotSl  [][]int
	slotMap []map[string]string
	slotNs  []noStr1
)
`

var zooValues = []string{
	"vInt", "vWs1", "vFe1", "vStr", "vNs1", "vFn1", "vPInt", "vWs2", "vFe2", "vSlI", "vNs2", "vFn2", "vArr4", "vPair", "vFn3",
	"vMapSI", "vTwo", "vFn4", "vChI", "vPV", "vH", "vF64", "vAnon", "vFn5", "vCel", "vPPInt", "vPWs", "vPAnon", "vSlB", "vSlS",
	"vSlSt", "vArr2", "vArr33", "vArr34", "vMapSS", "vMapSSl", "vMapSF", "vChRI", "vChSS", "vEface", "vErr", "vRd", "vAI", "vBuf",
	"vPBuf", "vPSB", "vMyErr", "vSlFn", "vUP", "vWr", "vI8", "vU64", "vC128",
}

var zooNames = []string{
	`"alpha"`, `"xalphax"`, `"beta one"`, `"a beta"`, `"the gamma"`, `"gamma ray"`, `"delta"`, `"deltas"`, `Upper`, `lower`,
	`"snake_42"`, `"snake_x"`, `"omega point"`, `"Omega"`, `41`, `42`, `7`, `"é_1"`, `"Émile"`, `Ünit`, `"gamma"`, `"alphabet_7"`, `0x2a`,
}

func init() {
	// strides below are smaller than these primes, hence coprime to them: every rotation visits every element
	if len(zooValues) != 53 || len(zooNames) != 23 {
		panic("zoo tables: the lengths must stay prime")
	}
}

// zooSource: variant v of the zoo file (package c08/pz<v>): the same declarations, the calls rotated differently,
// so that goroutines working on different variants apply one shared pattern to different types at the same time
func zooSource(v, scale int) string {
	return zooDeclsSource(fmt.Sprintf("pz%d", v), false) + zooBody(v, scale)
}

// the declarations of a zoo package (types, values, sink functions)
func zooDeclsSource(pkg string, pm bool) string {
	var b strings.Builder
	fmt.Fprintf(&b, "package %s\n\nimport (\n\t\"bytes\"\n\t\"io\"\n\t\"strings\"\n\t\"unsafe\"\n)\n", pkg)
	b.WriteString(zooDecls)
	b.WriteString("\nvar Upper, lower, Ünit, last int\n\n")
	for i := range ltTypeFilters {
		fmt.Fprintf(&b, "func %s(interface{}) {}\n", ltSinkName(i))
	}
	return b.String()
}

// zooPMSources: the zoo once more as three files of the package c08/pm (declarations, two bodies): the shared-RunContext
// rounds then apply the shared patterns to the SAME type objects from several goroutines
func zooPMSources() map[string]string {
	return map[string]string{
		"zd": zooDeclsSource("pm", true),
		"z0": "package pm\n" + zooBody(0, 0),
		"z1": "package pm\n" + zooBody(3, 0),
	}
}

// the functions of variant v (their names carry v, so several variants fit into one package)
func zooBody(v, scale int) string {
	var b strings.Builder
	nv := len(zooValues)
	// every sink walks the value table with stride 7; the 8 (variant, function) pairs take consecutive blocks of that walk,
	// 8 * per >= 53: across the four variants every sink sees every value, in every file a different part of the table
	per := 7 + scale
	for fn := 0; fn < 2; fn++ {
		fmt.Fprintf(&b, "\n// FIXME(%s): tidy types%d, hack %d\nfunc types%d_%d() {\n", []string{"alice", "zoe", "bob", "mallory"}[(v+fn)%4], fn, fn+v, v, fn)
		blk := 2*v + fn
		for i := range ltTypeFilters {
			for k := 0; k < per; k++ {
				fmt.Fprintf(&b, "\t%s(%s)\n", ltSinkName(i), zooValues[(i*5+(blk*per+k)*7)%nv])
			}
		}
		b.WriteString("}\n")
	}
	fmt.Fprintf(&b, "\nfunc lists%d() { // nolint\n", v)
	for k := 0; k < 12+scale; k++ {
		a, c, d := zooValues[(k*5+v)%nv], zooValues[(k*11+v*3+1)%nv], zooValues[(k*17+v*7+2)%nv]
		fmt.Fprintf(&b, "\ttl(%s, %s)\n\ttl(%s)\n\ttp(%s, %s)\n\ttp(%s, %s)\n\tpair(%s, %s)\n", a, c, d, a, c, a, a, c, d)
	}
	b.WriteString("\ttl(vWs1, vWs2, vTwo)\n\ttl(vFe1, vFe2)\n\ttl(vSlI, vSlB, vSlS)\n\ttl(vWs1, vNs1)\n")
	b.WriteString("}\n")
	fmt.Fprintf(&b, "\nfunc sinks%d() {\n", v)
	for k := 0; k < 8+scale; k++ {
		calls := []string{
			fmt.Sprintf("wantFE(slotFE[%d])", k), fmt.Sprintf("wantWS(slotWS[%d])", k), fmt.Sprintf("wantSl(slotSl[%d])", k),
			fmt.Sprintf("wantMap(slotMap[%d])", k), fmt.Sprintf("wantAny(slotNs[%d])", k), fmt.Sprintf("wantAny(slotFE[%d])", k),
			fmt.Sprintf("slotWS[%d] = slotWS[%d]", k, k+1), fmt.Sprintf("slotFE[%d] = vFe1", k),
		}
		for j := range calls {
			fmt.Fprintf(&b, "\t%s\n", calls[(j+k*(v+1))%len(calls)])
		}
	}
	b.WriteString("\tvar _ func(int) error = slotFE[0]\n\treturn\n}\n")
	fmt.Fprintf(&b, "\n// HACK without a number\nfunc misc%d(xs []int, ys []string) (res int) {\n", v)
	qs := []string{"q01", "q02", "q03", "q04", "q05"}
	for qi, q := range qs {
		for k := 0; k < 14+scale; k++ {
			fmt.Fprintf(&b, "\t%s(%s)\n", q, zooValues[(qi*11+v*17+k*(7+2*v))%nv])
		}
	}
	for k := 0; k < len(zooNames)*2; k++ {
		fmt.Fprintf(&b, "\tname(%s)\n", zooNames[(k*(3+2*v)+v)%len(zooNames)])
	}
	b.WriteString(`	for i := range xs {
		res += xs[i]
	}
	for i := range ys {
		res += len(ys[0]) + i
	}
	for _, x := range xs {
		x = res
		res = x + 1
	}
	for _, y := range ys {
		if y == "" {
			return 0
		}
		y = "z"
		_ = y
	}
	if res > 0 {
		if res > 0 {
			res--
		}
	}
	if res < 0 {
		if res > 0 {
			res--
		}
	}
	f := func(n int) int {
		defer func() { recover() }()
		if n < 0 {
			panic("neg")
		}
		return n
	}
	g := func() { panic("always") }
	_, _ = f, g
	// FIXME(zed): the rest
	// fixme(bob): not a match
	// a hack, the 12th
	name(last)
	return res // FIXME(carol): wrap, hack 7
}
`)
	return b.String()
}

func zooSources(scale int) map[string]string {
	out := map[string]string{}
	for v := 0; v < 4; v++ {
		out[fmt.Sprintf("pz%d", v)] = zooSource(v, scale)
	}
	return out
}
