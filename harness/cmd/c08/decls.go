// Whole declarations in messages, the SAME file from many goroutines, and the caller's syntax tree as an argument that
// Run must not write to.
//
// A Run gets the caller's *ast.File (and types.Info / types.Package): values that the caller -- a go/analysis driver that
// runs several analyzers over one package at once, an editor that checks a buffer from several requests -- shares with
// other goroutines, Run calls on the same file among them. The reports of a Run are a function of the tree it was handed;
// a tree that is modified while a Run is in progress, even if every modification is undone before Run returns, makes the
// reports of the other runs (and whatever else reads the tree) depend on the schedule.
//
//   - rule set "decls": rules whose message / suggestion interpolates a WHOLE declaration ($$ of a function, a method,
//     a type / var / const declaration, single and grouped, a struct type with documented fields) or parts that carry
//     comments of their own; evaluated on the in-memory targets only, where every such text goes through the printer
//     fallback of nodeText (the part of the runner that handles the tree itself rather than bytes of the file);
//   - memDocDecls: a block of small declarations with and without doc comments, line comments, documented fields and
//     specs, appended to every in-memory target (behind the cut of the stale copies: printed in all of them);
//   - same-file rounds (ruleSet.sameFile): all goroutines of a round check the SAME file at the same moment (a barrier
//     in front of every step, every file several times), each with a RunContext of its own;
//   - an observer goroutine reads the trees while the runs are in progress (what another analyzer of the same driver
//     does) and compares them with the fingerprint taken after parsing: a deviation is reported with the declaration
//     it was seen in -- and since the harness is race-instrumented, a write of Run to the tree is a logged race with
//     this reader even when no second Run is near;
//   - after all rounds of all rule sets the trees are compared with the fingerprint once more (a modification that was
//     not undone).
package main

import (
	"fmt"
	"go/ast"
	"go/token"
	"runtime"
	"strings"
	"sync"
	"sync/atomic"
)

const rulesDecls = `package gorules

import "github.com/quasilyte/go-ruleguard/dsl"

func c08declsFuncs(m dsl.Matcher) {
	m.Match("func $name($*_) $*_ { $*_ }").Where(m["name"].Text.Matches("^(doc|plain)")).Report("function $name declared as: $$")
	m.Match("func ($_ $recv) $name($*_) $*_ { $*_ }", "func ($recv) $name($*_) $*_ { $*_ }").Where(m["name"].Text.Matches("^(Doc|Plain)")).Report("method $name of $recv declared as: $$").Suggest("$$")
	m.Match("func $name($*_) $*_ { $*_ }").Where(!m["name"].Text.Matches("^(doc|plain)")).Report("some other function: $name")
}

func c08declsTypes(m dsl.Matcher) {
	m.Match("type $name struct { $*fields }").Where(m["name"].Text.Matches("^(doc|plain)")).Report("struct type $name declared as: $$; fields: $fields")
	m.Match("type $name interface { $*methods }").Where(m["name"].Text.Matches("^(doc|plain)")).Report("interface type $name declared as: $$; methods: $methods")
	m.Match("type $name $t").Where(m["name"].Text.Matches("^(doc|plain)")).Report("type $name declared as: $$").Suggest("type $name = $t")
}

func c08declsValues(m dsl.Matcher) {
	m.Match("var $name = $v").Where(m["name"].Text.Matches("^(doc|plain)")).Report("variable $name declared as: $$")
	m.Match("var $name $t").Where(m["name"].Text.Matches("^(doc|plain)")).Report("zero variable $name declared as: $$")
	m.Match("var $name $t = $v").Where(m["name"].Text.Matches("^(doc|plain)")).Report("typed variable $name declared as: $$")
	m.Match("const $name = $v").Where(m["name"].Text.Matches("^(doc|plain)")).Report("constant $name declared as: $$").Suggest("var $name = $v")
	m.Match("const $name $t = $v").Where(m["name"].Text.Matches("^(doc|plain)")).Report("typed constant $name declared as: $$")
}

func c08declsParts(m dsl.Matcher) {
	m.Match("$f($x)").Where(m["f"].Text.Matches("^docuse$")).Report("use of $x in $f")
	m.Match("struct { $*fields }").Where(m["fields"].Text.Matches("doc")).Report("a struct with fields $fields")
	m.Match("func($*params) $*results { $*body }").Where(m["body"].Text.Matches("docuse")).Report("a function literal: $$")
}

func c08declsRanges(m dsl.Matcher) {
	m.Match("for $k, $v := range $xs").Report("the header of a range statement with two variables: $$")
	m.Match("for $k := range $xs").Report("the header of a range statement: $$")
	m.Match("range $xs").Where(m["xs"].Type.Is("[]string")).Report("a range clause: $$")
}
`

// the set comes last (checkTargets): the indices of the other rule sets (part of their rounds' seeds) stay what they were
func addDeclsRuleSet() {
	ruleSets = append(ruleSets, ruleSet{name: "decls", files: []string{"decls.go"}, text: map[string]string{"decls.go": rulesDecls},
		allZoo: true, only: "mt", freshBase: true, firstTouch: true, ns: []int{16}, sameFile: 2})
}

// memDocDecls: small declarations of every kind, with and without doc comments (variant v, target kind k: the names and
// the texts differ from file to file, so a report that belongs to another file shows)
func memDocDecls(v int, k string) string {
	var b strings.Builder
	tag := fmt.Sprintf("%d%s", v, k)
	b.WriteString("\nfunc docuse(interface{}) {}\n")
	for i := 0; i < 16; i++ {
		switch i % 4 {
		case 0:
			fmt.Fprintf(&b, "\n// docfn%d adds %d (target %s).\nfunc docfn%d(a int) int { return a + %d }\n", i, i, tag, i, i)
		case 1:
			fmt.Fprintf(&b, "\n// docfn%d has a doc comment\n// of two lines, %s.\nfunc docfn%d(a, b string) (string, error) {\n\t// inside %d\n\tdocuse(a + b)\n\treturn a, nil // trailing %d\n}\n", i, tag, i, i, i)
		case 2:
			fmt.Fprintf(&b, "\nfunc plainfn%d(xs ...int) int { return len(xs) + %d }\n", i, i)
		case 3:
			fmt.Fprintf(&b, "\n/* docfn%d: a block comment as the doc, %s */\nfunc docfn%d() func(int) int {\n\treturn func(n int) int {\n\t\tdocuse(n)\n\t\treturn n * %d\n\t}\n}\n", i, tag, i, i)
		}
	}
	b.WriteString("\n// docRecv carries the documented methods.\ntype docRecv struct {\n\t// n counts.\n\tn int\n\ts string // the name\n}\n")
	for i := 0; i < 8; i++ {
		switch i % 3 {
		case 0:
			fmt.Fprintf(&b, "\n// DocMethod%d is documented (%s).\nfunc (r docRecv) DocMethod%d() int { return r.n + %d }\n", i, tag, i, i)
		case 1:
			fmt.Fprintf(&b, "\n// DocMethod%d has a pointer receiver.\nfunc (r *docRecv) DocMethod%d(k int) {\n\tr.n = k + %d // set\n}\n", i, i, i)
		case 2:
			fmt.Fprintf(&b, "\nfunc (docRecv) PlainMethod%d() string { return \"%s\" }\n", i, tag)
		}
	}
	for i := 0; i < 12; i++ {
		switch i % 6 {
		case 0:
			fmt.Fprintf(&b, "\n// docT%d is a documented struct type (%s).\ntype docT%d struct {\n\t// docA is documented.\n\tdocA int\n\tdocB string // docB has a line comment\n\n\t// docC: a group of %d.\n\tdocC, docD []byte\n}\n", i, tag, i, i)
		case 1:
			fmt.Fprintf(&b, "\n// docT%d is a documented interface type.\ntype docT%d interface {\n\t// DocM%d is documented.\n\tDocM%d() int\n\tDocN(string) error // undocumented, commented\n}\n", i, i, i, i)
		case 2:
			fmt.Fprintf(&b, "\n// docT%d is a documented named type.\ntype docT%d map[string][]int\n", i, i)
		case 3:
			fmt.Fprintf(&b, "\ntype plainT%d struct{ docA, b int }\n", i)
		case 4:
			fmt.Fprintf(&b, "\n// A group of types, %s.\ntype (\n\t// docT%da is documented inside the group.\n\tdocT%da int\n\n\tdocT%db struct {\n\t\tdocA int // a\n\t}\n)\n", tag, i, i, i)
		case 5:
			fmt.Fprintf(&b, "\n// docT%d is a documented function type.\ntype docT%d func(a int, b ...string) error\n", i, i)
		}
	}
	for i := 0; i < 18; i++ {
		switch i % 9 {
		case 0:
			fmt.Fprintf(&b, "\n// docVar%d is documented (%s).\nvar docVar%d = %d\n", i, tag, i, i*3)
		case 1:
			fmt.Fprintf(&b, "\n// docVar%d is a zero value.\nvar docVar%d []string // and commented\n", i, i)
		case 2:
			fmt.Fprintf(&b, "\n// docVar%d has type and value.\nvar docVar%d float64 = %d.5\n", i, i, i)
		case 3:
			fmt.Fprintf(&b, "\n// docConst%d is documented.\nconst docConst%d = \"c%d of %s\"\n", i, i, i, tag)
		case 4:
			fmt.Fprintf(&b, "\n// docConst%d is typed.\nconst docConst%d int64 = %d\n", i, i, i)
		case 5:
			fmt.Fprintf(&b, "\nvar plainVar%d = struct{ docA int }{%d}\n", i, i)
		case 6:
			fmt.Fprintf(&b, "\n// docVar%d is a documented function value.\nvar docVar%d = func(n int) int {\n\t// within %d\n\tdocuse(n)\n\treturn n\n}\n", i, i, i)
		case 7:
			fmt.Fprintf(&b, "\n// Grouped values, %s.\nvar (\n\t// docVar%da is documented inside the group.\n\tdocVar%da = %d\n\tdocVar%db = \"b\" // commented\n)\n", tag, i, i, i, i)
		case 8:
			fmt.Fprintf(&b, "\n// docConst%d and friends.\nconst (\n\t// docConst%da starts.\n\tdocConst%da = iota + %d\n\tdocConst%db\n)\n", i, i, i, i, i)
		}
	}
	// declarations inside a function body (DeclStmt): documented as well
	fmt.Fprintf(&b, "\n// docBody%s declares in its body.\nfunc docBody() {\n\t// docLocal is documented.\n\tvar docLocal = 1\n\t// docLocalT is documented.\n\ttype docLocalT struct {\n\t\t// docA is documented.\n\t\tdocA int\n\t}\n\t// docLocalC is documented.\n\tconst docLocalC = 2\n\tdocuse(docLocal + docLocalC)\n\tdocuse(docLocalT{})\n}\n", tag)
	return b.String()
}

// ------------------------------------------------------------------------------------------------ tree fingerprints

// declPrint: the fingerprint of one top-level declaration (or of what belongs to the file itself)
type declPrint struct {
	name   string
	hasDoc bool
	sum    uint64
}

func fnv(h uint64, x uint64) uint64 {
	for i := 0; i < 8; i++ {
		h ^= x & 0xff
		h *= 1099511628211
		x >>= 8
	}
	return h
}

func fnvs(h uint64, s string) uint64 {
	for i := 0; i < len(s); i++ {
		h ^= uint64(s[i])
		h *= 1099511628211
	}
	return fnv(h, uint64(len(s)))
}

func bit(b bool) uint64 {
	if b {
		return 1
	}
	return 2
}

// nodeSum: everything below n in the order ast.Inspect visits it -- positions, names, literal values, comment texts,
// which doc / line comments hang where, the tokens of declarations and operators
func nodeSum(n ast.Node) uint64 {
	h := uint64(14695981039346656037)
	ast.Inspect(n, func(n ast.Node) bool {
		if n == nil {
			h = fnv(h, 0xfe)
			return false
		}
		h = fnv(h, uint64(n.Pos()))
		h = fnv(h, uint64(n.End()))
		switch n := n.(type) {
		case *ast.Comment:
			h = fnvs(h, n.Text)
		case *ast.CommentGroup:
			h = fnv(h, uint64(len(n.List))+100)
		case *ast.Ident:
			h = fnvs(h, n.Name)
		case *ast.BasicLit:
			h = fnvs(fnv(h, uint64(n.Kind)), n.Value)
		case *ast.FuncDecl:
			h = fnv(h, bit(n.Doc != nil)|bit(n.Recv != nil)<<2|bit(n.Body != nil)<<4)
		case *ast.GenDecl:
			h = fnv(fnv(h, bit(n.Doc != nil)|bit(n.Lparen.IsValid())<<2), uint64(n.Tok)<<8|uint64(len(n.Specs)))
		case *ast.Field:
			h = fnv(h, bit(n.Doc != nil)|bit(n.Comment != nil)<<2|bit(n.Tag != nil)<<4|uint64(len(n.Names))<<8)
		case *ast.ValueSpec:
			h = fnv(h, bit(n.Doc != nil)|bit(n.Comment != nil)<<2|bit(n.Type != nil)<<4|uint64(len(n.Names))<<8|uint64(len(n.Values))<<16)
		case *ast.TypeSpec:
			h = fnv(h, bit(n.Doc != nil)|bit(n.Comment != nil)<<2|bit(n.Assign.IsValid())<<4)
		case *ast.ImportSpec:
			h = fnv(h, bit(n.Doc != nil)|bit(n.Comment != nil)<<2|bit(n.Name != nil)<<4)
		case *ast.BinaryExpr:
			h = fnv(h, uint64(n.Op))
		case *ast.UnaryExpr:
			h = fnv(h, uint64(n.Op))
		case *ast.AssignStmt:
			h = fnv(h, uint64(n.Tok)<<8|uint64(len(n.Lhs)))
		case *ast.BlockStmt:
			h = fnv(h, uint64(len(n.List)))
		case *ast.CallExpr:
			h = fnv(h, uint64(len(n.Args))<<1|bit(n.Ellipsis.IsValid()))
		case *ast.FieldList:
			h = fnv(h, uint64(len(n.List)))
		case *ast.CompositeLit:
			h = fnv(h, uint64(len(n.Elts)))
		}
		return true
	})
	return h
}

func declName(d ast.Decl) (string, bool) {
	switch d := d.(type) {
	case *ast.FuncDecl:
		return "func " + d.Name.Name, d.Doc != nil
	case *ast.GenDecl:
		name := d.Tok.String()
		if len(d.Specs) > 0 {
			switch s := d.Specs[0].(type) {
			case *ast.ValueSpec:
				if len(s.Names) > 0 {
					name += " " + s.Names[0].Name
				}
			case *ast.TypeSpec:
				name += " " + s.Name.Name
			case *ast.ImportSpec:
				name += " " + s.Path.Value
			}
		}
		if d.Lparen.IsValid() {
			name += " (group)"
		}
		return name, d.Doc != nil
	}
	return "?", false
}

// astPrint: the fingerprints of the declarations of t's file; entry 0 is what belongs to the file node itself and to the
// other values of the package a Run is handed: the sizes of the types.Info tables and of the package scope
func astPrint(t *target) []declPrint {
	f := t.t.File
	h := uint64(14695981039346656037)
	if info := t.t.Info; info != nil {
		h = fnv(h, uint64(len(info.Types))<<32|uint64(len(info.Defs)))
		h = fnv(h, uint64(len(info.Uses))<<32|uint64(len(info.Selections)))
		h = fnv(h, uint64(len(info.Implicits))<<32|uint64(len(info.Scopes)))
		h = fnv(h, uint64(len(info.Instances))<<32|uint64(len(info.InitOrder)))
	}
	if pkg := t.t.Pkg; pkg != nil {
		h = fnv(h, uint64(pkg.Scope().Len())<<32|uint64(len(pkg.Imports())))
		h = fnvs(h, pkg.Path()+" "+pkg.Name())
	}
	h = fnv(h, bit(f.Doc != nil))
	h = fnvs(h, f.Name.Name)
	h = fnv(h, uint64(f.Package))
	h = fnv(h, uint64(len(f.Decls))<<40|uint64(len(f.Imports))<<20|uint64(len(f.Comments)))
	for _, cg := range f.Comments {
		h = fnv(fnv(h, uint64(cg.Pos())), uint64(len(cg.List)))
	}
	for _, u := range f.Unresolved {
		h = fnvs(h, u.Name)
	}
	out := []declPrint{{"the file node (package clause, comment list, imports, unresolved identifiers) and the sizes of the types.Info tables / the package scope", f.Doc != nil, h}}
	for _, d := range f.Decls {
		name, doc := declName(d)
		out = append(out, declPrint{name, doc, nodeSum(d)})
	}
	return out
}

// astSnap: the fingerprints taken after parsing / type checking, before the first Run (file name -> fingerprint)
var astSnap = map[string][]declPrint{}

func snapshotTrees(targets []*target) {
	for _, t := range targets {
		astSnap[t.name] = astPrint(t)
	}
	for _, t := range pmFiles {
		astSnap[t.name] = astPrint(t)
	}
}

type astFinding struct {
	K     string `json:"k"`
	File  string `json:"file"`
	When  string `json:"when"`
	Agree bool   `json:"agree"`
	Decl  string `json:"decl,omitempty"`
	What  string `json:"what,omitempty"`
	Pos   string `json:"pos,omitempty"`
	Looks int64  `json:"looks,omitempty"`
}

// astCompare: the first declaration of t whose fingerprint is not the snapshot's
func astCompare(t *target, when string) astFinding {
	want := astSnap[t.name]
	got := astPrint(t)
	res := astFinding{K: "ast", File: t.name, When: when, Agree: true}
	if len(got) != len(want) {
		res.Agree, res.What = false, fmt.Sprintf("%d declarations, %d when the file was parsed", len(got)-1, len(want)-1)
		return res
	}
	for i := range want {
		if got[i].sum == want[i].sum && got[i].hasDoc == want[i].hasDoc {
			continue
		}
		res.Agree, res.Decl = false, want[i].name
		switch {
		case i == 0:
			res.What = "the file node, the types.Info tables or the package scope are not what they were after type checking"
		case want[i].hasDoc && !got[i].hasDoc:
			res.What = "the declaration has lost its doc comment"
		case !want[i].hasDoc && got[i].hasDoc:
			res.What = "the declaration has got a doc comment"
		default:
			res.What = "the nodes below the declaration are not the nodes that were parsed"
		}
		if i > 0 {
			res.Pos = t.t.Fset.Position(t.t.File.Decls[i-1].Pos()).String()
		}
		return res
	}
	return res
}

// treeObserver reads the trees of the given targets over and over while a round is in progress; the first deviation
// per file is kept. stop() ends it and returns what it saw.
type treeObserver struct {
	stopFlag atomic.Bool
	wg       sync.WaitGroup
	looks    atomic.Int64
	mu       sync.Mutex
	found    map[string]astFinding
}

func startTreeObserver(targets []*target, when string) *treeObserver {
	o := &treeObserver{found: map[string]astFinding{}}
	if len(astSnap) == 0 {
		return o
	}
	o.wg.Add(1)
	go func() {
		defer o.wg.Done()
		for !o.stopFlag.Load() {
			for _, t := range targets {
				if o.stopFlag.Load() {
					break
				}
				if _, ok := astSnap[t.name]; !ok {
					continue
				}
				r := astCompare(t, when)
				o.looks.Add(1)
				if !r.Agree {
					o.mu.Lock()
					if _, seen := o.found[t.name]; !seen {
						o.found[t.name] = r
					}
					o.mu.Unlock()
				}
				runtime.Gosched()
			}
		}
	}()
	return o
}

func (o *treeObserver) stop() ([]astFinding, int64) {
	o.stopFlag.Store(true)
	o.wg.Wait()
	var out []astFinding
	for _, f := range o.found {
		out = append(out, f)
	}
	return out, o.looks.Load()
}

// finalTreeCheck: after everything has run, every tree is what the parser delivered
func finalTreeCheck(enc *lockedEnc, targets []*target) {
	for _, t := range append(append([]*target(nil), targets...), pmFiles...) {
		if _, ok := astSnap[t.name]; ok {
			enc.Encode(astCompare(t, "after all rounds of all rule sets"))
		}
	}
}

var _ = token.NoPos
