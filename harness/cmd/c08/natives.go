// The natives behind dsl / dsl/types (ruleguard/libdsl.go) are bound ONCE per engine and shared by all runs: whatever a
// native keeps between calls (a table of interned objects, a memo of resolved names, a scratch value) is engine-wide
// state. This file builds, from the table of natives the engine really has (hook VerifNativeNames) and their signatures
// (go/types on the dsl packages), a rules file that calls EVERY native from custom filters and from Do handlers:
//
//   - values are synthesised by type: roots (the type of the matched variable, the contexts, small constants, type names)
//     and, up to two levels deep, the results of natives applied to such values (types.NewPointer(t), t.Underlying(),
//     types.AsStruct(u), ctx.Var("x") ...); every nilable intermediate result is guarded;
//   - one helper function per (native, argument combination) returns the RENDERED result (all niladic natives of the
//     result type applied to it: String, Underlying, Elem, Len, NumFields ...), so a wrong answer changes a report;
//   - Do handlers put the rendering into the message, filters deliver one bit of it (parity of a character count), and
//     a second rule on the same pattern reports the other value of the bit;
//   - natives for which no argument can be synthesised are reported as uncovered (the check has a reviewed list).
package main

import (
	"fmt"
	"go/types"
	"sort"
	"strings"
)

const (
	dslPath      = "github.com/quasilyte/go-ruleguard/dsl"
	dslTypesPath = "github.com/quasilyte/go-ruleguard/dsl/types"
	memDepPath   = "example.com/c08dep"
	memMidPath   = "example.com/c08mid"
)

type nvParam struct {
	typ      types.Type
	ts       string
	fqn      bool // a type name (dsl.typeName)
	variadic bool // ...interface{}
}

type nativeSym struct {
	Full   string // as bound: qualifier.name
	Short  string // types.NewPointer, *types.Struct.Field, *dsl.DoVar.Text
	name   string
	recv   *nvParam // nil: package function
	pkg    string   // package name for package functions
	params []nvParam
	res    *nvParam // nil: no result
	errRes bool     // a second result of type error
	field  bool
	path   string // import path of a package function
}

func nvTypeString(t types.Type) string {
	return types.TypeString(t, func(p *types.Package) string { return p.Name() })
}

func nvBasic(ts string) bool { return ts == "int" || ts == "string" || ts == "bool" }

func nvNilable(t types.Type) bool {
	switch types.Unalias(t).Underlying().(type) {
	case *types.Pointer, *types.Interface:
		return true
	}
	return false
}

// resolveNatives: the go/types object behind every bound symbol
func resolveNatives(names []string, imp types.Importer) (syms []*nativeSym, unresolved []string) {
	for _, full := range names {
		dot := strings.LastIndexByte(full, '.')
		if dot < 0 {
			unresolved = append(unresolved, full)
			continue
		}
		qual, name := full[:dot], full[dot+1:]
		star := strings.HasPrefix(qual, "*")
		q := strings.TrimPrefix(qual, "*")
		pkgPath, typeName := q, ""
		slash := strings.LastIndexByte(q, '/')
		if d := strings.IndexByte(q[slash+1:], '.'); d >= 0 {
			pkgPath, typeName = q[:slash+1+d], q[slash+1+d+1:]
		}
		pkg, err := imp.Import(pkgPath)
		if err != nil {
			unresolved = append(unresolved, full)
			continue
		}
		mkParam := func(v *types.Var) nvParam {
			p := nvParam{typ: v.Type(), ts: nvTypeString(types.Unalias(v.Type()))}
			if a, ok := v.Type().(*types.Alias); ok && a.Obj().Name() == "typeName" {
				p.fqn = true
			}
			if p.ts == "string" && v.Name() == "name" {
				p.fqn = true // dsl.typeName is an alias of string; without alias nodes only the parameter's name tells
			}
			return p
		}
		s := &nativeSym{Full: full, name: name}
		var sig *types.Signature
		if typeName == "" {
			fn, ok := pkg.Scope().Lookup(name).(*types.Func)
			if !ok {
				unresolved = append(unresolved, full)
				continue
			}
			sig = fn.Type().(*types.Signature)
			s.pkg = pkg.Name()
			s.path = pkg.Path()
			s.Short = pkg.Name() + "." + name
		} else {
			tn, ok := pkg.Scope().Lookup(typeName).(*types.TypeName)
			if !ok {
				unresolved = append(unresolved, full)
				continue
			}
			rt := tn.Type()
			if star {
				rt = types.NewPointer(rt)
			}
			obj, _, _ := types.LookupFieldOrMethod(rt, true, pkg, name)
			s.recv = &nvParam{typ: rt, ts: nvTypeString(rt)}
			s.Short = s.recv.ts + "." + name
			switch o := obj.(type) {
			case *types.Func:
				sig = o.Type().(*types.Signature)
			case *types.Var:
				s.field = true
				p := mkParam(o)
				s.res = &p
			default:
				unresolved = append(unresolved, full)
				continue
			}
		}
		if sig != nil {
			for i := 0; i < sig.Params().Len(); i++ {
				p := mkParam(sig.Params().At(i))
				if sig.Variadic() && i == sig.Params().Len()-1 {
					p.variadic = true
					if p.ts != "[]interface{}" && p.ts != "[]any" {
						p.ts = "?" + p.ts
					}
				}
				s.params = append(s.params, p)
			}
			if sig.Results().Len() == 2 && nvTypeString(sig.Results().At(1).Type()) == "error" {
				s.errRes = true
			} else if sig.Results().Len() > 1 {
				unresolved = append(unresolved, full)
				continue
			}
			if sig.Results().Len() >= 1 {
				p := mkParam(sig.Results().At(0))
				s.res = &p
			}
		}
		syms = append(syms, s)
	}
	sort.Slice(syms, func(i, j int) bool { return syms[i].Full < syms[j].Full })
	return syms, unresolved
}

// an expression of the generated code
type nvExpr struct {
	typ    types.Type
	ts     string
	root   string // source text of a root (parameter, constant)
	sym    *nativeSym
	args   []*nvExpr // receiver first
	needs  byte      // 0, 'F' (needs the *dsl.VarFilterContext), 'D' (needs the *dsl.DoContext)
	depth  int
	needsT bool // a root whose text mentions t
}

func (e *nvExpr) key() string {
	if e.root != "" {
		return e.root
	}
	parts := make([]string, len(e.args))
	for i, a := range e.args {
		parts[i] = a.key()
	}
	return e.sym.Short + "(" + strings.Join(parts, ",") + ")"
}

// preconditions of natives that panic on some arguments ($0 = receiver / first operand)
var nvPreconds = map[string]string{
	"*types.Struct.Field": "$1 < $0.NumFields()",
}

// arguments for string parameters that are not type names (default: the name of the matched variable's type, which is
// different in every call, and a few constants)
var nvStrings = map[string][]string{
	"*dsl.DoContext.Var": {`"x"`},
	"fmt.Sprintf":        {`"%s/%d"`, `"<%v %v>"`},
	"strconv.Atoi":       {`"42"`, `"-7"`, `"4x"`},
}

var nvFQNs = []string{memDepPath + ".Handler", memDepPath + ".Conf", memDepPath + ".Level", "io.Reader", "strings.Builder", "error"}

type nvGen struct {
	syms     []*nativeSym
	byShort  map[string]*nativeSym
	used     map[string]bool
	pool     []*nvExpr
	funcs    []string          // generated function sources
	showDone map[string]string // type string + level -> function name
	reasons  map[string]string
}

func (g *nvGen) call(s *nativeSym, ops []string) string {
	g.used[s.Full] = true
	switch {
	case s.field:
		return ops[0] + "." + s.name
	case s.recv != nil:
		return ops[0] + "." + s.name + "(" + strings.Join(ops[1:], ", ") + ")"
	}
	return s.pkg + "." + s.name + "(" + strings.Join(ops, ", ") + ")"
}

func (g *nvGen) operandTypes(s *nativeSym) []nvParam {
	var out []nvParam
	if s.recv != nil {
		out = append(out, *s.recv)
	}
	return append(out, s.params...)
}

// candidates for an operand: pool values assignable to the parameter, exact type first
func (g *nvGen) candidates(s *nativeSym, p nvParam) []*nvExpr {
	var out []*nvExpr
	switch {
	case p.fqn:
		for _, f := range nvFQNs {
			out = append(out, &nvExpr{typ: p.typ, ts: "string", root: fmt.Sprintf("%q", f)})
		}
		return out
	case p.variadic:
		if p.ts != "[]interface{}" && p.ts != "[]any" {
			return nil
		}
		return []*nvExpr{{typ: p.typ, ts: p.ts, root: `"a text", 7`}, {typ: p.typ, ts: p.ts, root: `t.String(), 0`, needsT: true}}
	case p.ts == "string":
		l := nvStrings[s.Short]
		if l == nil {
			l = []string{`"in"`, `"x"`, `"."`, `"some text"`}
			if ts := g.byShort["types.Type.String"]; ts != nil && s != ts {
				out = append(out, &nvExpr{typ: p.typ, ts: "string", sym: ts, args: []*nvExpr{g.pool[0]}})
			}
		}
		for _, c := range l {
			out = append(out, &nvExpr{typ: p.typ, ts: "string", root: c})
		}
		return out
	case p.ts == "int":
		for _, c := range []string{"0", "1", "3"} {
			out = append(out, &nvExpr{typ: p.typ, ts: "int", root: c})
		}
		return out
	case p.ts == "bool":
		return nil
	}
	for _, e := range g.pool {
		if e.ts == p.ts {
			out = append(out, e)
		}
	}
	for _, e := range g.pool {
		if e.ts != p.ts && types.AssignableTo(e.typ, p.typ) {
			out = append(out, e)
		}
	}
	return out
}

// argument combinations: the first candidate everywhere, then every other candidate of one operand at a time
func (g *nvGen) combos(s *nativeSym, limit int) [][]*nvExpr {
	ops := g.operandTypes(s)
	cands := make([][]*nvExpr, len(ops))
	for i, p := range ops {
		cands[i] = g.candidates(s, p)
		if len(cands[i]) == 0 {
			if g.reasons[s.Full] == "" {
				g.reasons[s.Full] = "no value of type " + p.ts + " can be built from the roots and the results of other natives"
			}
			return nil
		}
	}
	var out [][]*nvExpr
	seen := map[string]bool{}
	add := func(c []*nvExpr) {
		needs := byte(0)
		k := ""
		for _, a := range c {
			if a.needs != 0 {
				if needs != 0 && needs != a.needs {
					return
				}
				needs = a.needs
			}
			k += a.key() + ";"
		}
		if seen[k] || len(out) >= limit {
			return
		}
		seen[k] = true
		out = append(out, append([]*nvExpr(nil), c...))
	}
	base := make([]*nvExpr, len(ops))
	for i, p := range ops {
		base[i] = cands[i][0]
		if nvBasic(p.ts) {
			// several basic operands: not the same value everywhere
			base[i] = cands[i][i%len(cands[i])]
		}
	}
	add(base)
	for j := 0; j < 8; j++ {
		for i := range ops {
			if j < len(cands[i]) && cands[i][j] != base[i] {
				c := append([]*nvExpr(nil), base...)
				c[i] = cands[i][j]
				add(c)
			}
		}
	}
	if len(ops) == 0 {
		return [][]*nvExpr{{}}
	}
	return out
}

func nvUsesRoot(e *nvExpr, root string) bool {
	if e.root != "" {
		return e.root == root || e.needsT && root == "t"
	}
	for _, a := range e.args {
		if nvUsesRoot(a, root) {
			return true
		}
	}
	return false
}

func nvNeeds(args []*nvExpr) byte {
	for _, a := range args {
		if a.needs != 0 {
			return a.needs
		}
	}
	return 0
}

func nvSan(ts string) string {
	r := strings.NewReplacer("*", "P", ".", "_", "[", "_", "]", "_", " ", "_")
	return r.Replace(ts)
}

// niladic natives of a receiver type that deliver a result
func (g *nvGen) getters(ts string) []*nativeSym {
	var out []*nativeSym
	for _, s := range g.syms {
		if s.recv != nil && s.recv.ts == ts && len(s.params) == 0 && s.res != nil {
			out = append(out, s)
		}
	}
	return out
}

// show0: a flat rendering (String() when there is one, otherwise the basic-valued getters)
func (g *nvGen) show0(p nvParam, x string) string {
	switch p.ts {
	case "string":
		return x
	case "bool":
		return "nvBool(" + x + ")"
	case "int":
		return "nvInt(" + x + ")"
	}
	return g.showFunc(p, 0) + "(" + x + ")"
}

func (g *nvGen) showFunc(p nvParam, level int) string {
	k := fmt.Sprintf("%s/%d", p.ts, level)
	if n, ok := g.showDone[k]; ok {
		return n
	}
	name := fmt.Sprintf("nvShow%d_%s", level, nvSan(p.ts))
	g.showDone[k] = name
	var b strings.Builder
	fmt.Fprintf(&b, "func %s(x %s) string {\n", name, p.ts)
	if nvNilable(p.typ) {
		b.WriteString("\tif x == nil {\n\t\treturn \"<nil>\"\n\t}\n")
	}
	gs := g.getters(p.ts)
	var str *nativeSym
	for _, s := range gs {
		if s.name == "String" && s.res.ts == "string" {
			str = s
		}
	}
	if level == 0 && str != nil {
		fmt.Fprintf(&b, "\treturn %s\n}\n", g.call(str, []string{"x"}))
		g.funcs = append(g.funcs, b.String())
		return name
	}
	b.WriteString("\ts := \"\"\n")
	n := 0
	for _, s := range gs {
		if level == 0 && !nvBasic(s.res.ts) {
			continue
		}
		fmt.Fprintf(&b, "\ts = s + \" %s=\" + %s\n", s.name, g.show0(*s.res, g.call(s, []string{"x"})))
		n++
	}
	if n == 0 {
		fmt.Fprintf(&b, "\ts = \"<%s>\"\n", p.ts)
	}
	b.WriteString("\treturn s\n}\n")
	g.funcs = append(g.funcs, b.String())
	return name
}

func (g *nvGen) show1(p nvParam, x string) string {
	if nvBasic(p.ts) {
		return g.show0(p, x)
	}
	return g.showFunc(p, 1) + "(" + x + ")"
}

// helper: one function that evaluates the call `top` and returns the rendered result ("-" when an intermediate
// value is nil or a precondition fails)
func (g *nvGen) helper(name string, top *nvExpr) (src string, ok bool) {
	var lines []string
	locals := 0
	var emit func(x *nvExpr, isTop bool) string
	emit = func(x *nvExpr, isTop bool) string {
		if x.root != "" {
			return x.root
		}
		ops := make([]string, len(x.args))
		for i, a := range x.args {
			ops[i] = emit(a, false)
		}
		if pre := nvPreconds[x.sym.Short]; pre != "" {
			for i, o := range ops {
				pre = strings.ReplaceAll(pre, fmt.Sprintf("$%d", i), o)
			}
			if nf := g.byShort["*types.Struct.NumFields"]; nf != nil && strings.Contains(pre, ".NumFields()") {
				g.used[nf.Full] = true
			}
			lines = append(lines, "if !("+pre+") {", "\treturn \"-\"", "}")
		}
		c := g.call(x.sym, ops)
		if isTop {
			if x.sym.res == nil {
				lines = append(lines, c, "return \"done\"")
			} else if x.sym.errRes {
				locals += 2
				lines = append(lines, "r, err := "+c, "return "+g.show1(*x.sym.res, "r")+" + \"/\" + nvBool(err == nil)")
			} else {
				locals++
				lines = append(lines, "r := "+c, "return "+g.show1(*x.sym.res, "r"))
			}
			return ""
		}
		v := fmt.Sprintf("v%d", locals)
		locals++
		lines = append(lines, v+" := "+c)
		if nvNilable(x.typ) {
			lines = append(lines, "if "+v+" == nil {", "\treturn \"-\"", "}")
		}
		return v
	}
	needs := nvNeeds(top.args)
	usesT := nvUsesRoot(top, "t")
	var head string
	switch needs {
	case 'F':
		head = fmt.Sprintf("func %s(ctx *dsl.VarFilterContext) string {\n", name)
		if usesT {
			lines = append(lines, "t := "+g.call(g.byShort["*dsl.VarFilterContext.Type"], []string{"ctx"}))
			locals++
		}
	case 'D':
		head = fmt.Sprintf("func %s(ctx *dsl.DoContext) string {\n", name)
		if usesT {
			lines = append(lines, "t := "+g.doType())
			locals++
		}
	default:
		head = fmt.Sprintf("func %s(t types.Type) string {\n", name)
	}
	emit(top, true)
	if locals > 7 {
		return "", false
	}
	var b strings.Builder
	b.WriteString(head)
	for _, l := range lines {
		b.WriteString("\t" + l + "\n")
	}
	b.WriteString("}\n")
	return b.String(), true
}

// the type of the matched variable inside a Do handler
func (g *nvGen) doType() string {
	v := g.call(g.byShort["*dsl.DoContext.Var"], []string{"ctx", `"x"`})
	return g.call(g.byShort["*dsl.DoVar.Type"], []string{v})
}

func (g *nvGen) doText() string {
	v := g.call(g.byShort["*dsl.DoContext.Var"], []string{"ctx", `"x"`})
	return g.call(g.byShort["*dsl.DoVar.Text"], []string{v})
}

const nvPrelude = `
func nvBool(b bool) string {
	if b {
		return "true"
	}
	return "false"
}

func nvDigit(d int) string {
	if d == 0 {
		return "0"
	}
	if d == 1 {
		return "1"
	}
	if d == 2 {
		return "2"
	}
	if d == 3 {
		return "3"
	}
	if d == 4 {
		return "4"
	}
	if d == 5 {
		return "5"
	}
	if d == 6 {
		return "6"
	}
	if d == 7 {
		return "7"
	}
	if d == 8 {
		return "8"
	}
	return "9"
}

func nvInt(n int) string {
	if n < 0 {
		return "neg"
	}
	if n >= 10000 {
		return "big"
	}
	r := n
	k := 0
	for r >= 1000 {
		r = r - 1000
		k++
	}
	s := nvDigit(k)
	k = 0
	for r >= 100 {
		r = r - 100
		k++
	}
	s = s + nvDigit(k)
	k = 0
	for r >= 10 {
		r = r - 10
		k++
	}
	return s + nvDigit(k) + nvDigit(r)
}

func nvOdd(s string) bool {
	n := len(s)
	c := n
	i := 0
	for i < n {
		ch := s[i : i+1]
		if ch == "e" || ch == "t" || ch == "." || ch == "[" || ch == "*" || ch == "{" {
			c++
		}
		i++
	}
	for c >= 2 {
		c = c - 2
	}
	return c == 1
}
`

// hand-written rules on the names of the in-memory dependency: what a custom filter gets for such a name is the answer
// for the package being checked (the packages disagree about what the path denotes)
const nvDepRules = `
func depIsHandler(ctx *dsl.VarFilterContext) bool {
	return types.Implements(ctx.Type, ctx.GetInterface("` + memDepPath + `.Handler"))
}

func depPtrIsHandler(ctx *dsl.VarFilterContext) bool {
	return types.Implements(types.NewPointer(ctx.Type), ctx.GetInterface("` + memDepPath + `.Handler"))
}

func depIsConf(ctx *dsl.VarFilterContext) bool {
	return types.Identical(ctx.Type, ctx.GetType("` + memDepPath + `.Conf"))
}

func depConfIsWide(ctx *dsl.VarFilterContext) bool {
	s := types.AsStruct(ctx.GetType("` + memDepPath + `.Conf").Underlying())
	if s == nil {
		return false
	}
	return s.NumFields() >= 3
}

func depLevelIsString(ctx *dsl.VarFilterContext) bool {
	return ctx.GetType("` + memDepPath + `.Level").Underlying().String() == "string"
}

func depSameSizeAsConf(ctx *dsl.VarFilterContext) bool {
	return ctx.SizeOf(ctx.Type) == ctx.SizeOf(ctx.GetType("` + memDepPath + `.Conf"))
}

func depSliceOfLevel(ctx *dsl.VarFilterContext) bool {
	return types.Identical(ctx.Type, types.NewSlice(ctx.GetType("` + memDepPath + `.Level")))
}

func depIsError(ctx *dsl.VarFilterContext) bool {
	return types.Implements(ctx.Type, ctx.GetInterface("error"))
}

func isRing(ctx *dsl.VarFilterContext) bool {
	typ := ctx.GetType("container/ring.Ring")
	return types.Identical(ctx.Type, typ) || types.Identical(ctx.Type, types.NewPointer(typ))
}

func ringIsThreeInts(ctx *dsl.VarFilterContext) bool {
	s := types.AsStruct(ctx.GetType("container/ring.Ring").Underlying())
	if s == nil {
		return false
	}
	return s.NumFields() == 3 && s.Field(0).Type().String() == "int"
}

func midIsSink(ctx *dsl.VarFilterContext) bool {
	return types.Implements(ctx.Type, ctx.GetInterface("` + memMidPath + `.Sink"))
}

func midWrapHolds(ctx *dsl.VarFilterContext) bool {
	s := types.AsStruct(ctx.GetType("` + memMidPath + `.Wrap").Underlying())
	if s == nil {
		return false
	}
	i := 0
	for i < s.NumFields() {
		if types.Identical(s.Field(i).Type(), ctx.Type) {
			return true
		}
		i++
	}
	return false
}

func depDescribe(ctx *dsl.DoContext) {
	typ := ctx.Var("x").Type()
	ctx.SetReport("mvdo " + ctx.Var("x").Text() + " : " + typ.String() + " = " + typ.Underlying().String())
	ctx.SetSuggest("mvdone(" + ctx.Var("x").Text() + ")")
}

func c08dep(m dsl.Matcher) {
	m.Match("mvuse1($x)").Where(m["x"].Filter(depIsHandler)).Report("$x is a dep.Handler")
	m.Match("mvuse2($x)").Where(m["x"].Filter(depPtrIsHandler) && !m["x"].Filter(depIsHandler)).Report("only the pointer to $x is a dep.Handler")
	m.Match("mvuse3($x)").Where(m["x"].Filter(depIsConf)).Report("$x is a dep.Conf")
	m.Match("mvuse4($x)").Where(m["x"].Filter(depConfIsWide)).Report("dep.Conf is wide (seen at $x)")
	m.Match("mvuse5($x)").Where(m["x"].Filter(depLevelIsString)).Report("dep.Level is a string (seen at $x)")
	m.Match("mvuse6($x)").Where(m["x"].Filter(depSameSizeAsConf)).Report("$x is as big as a dep.Conf")
	m.Match("mvuse7($x)").Where(m["x"].Filter(depSliceOfLevel)).Report("$x is a []dep.Level")
	m.Match("mvuse8($x)").Where(m["x"].Filter(depIsError)).Report("$x is an error (custom filter)")
	m.Match("mvuse9($x)").Where(m["x"].Type.Implements("error")).Report("$x is an error (Type.Implements)")
	m.Match("mvring1($x)").Where(m["x"].Filter(isRing)).Report("$x is a ring")
	m.Match("mvring1($x)").Report("$x is not a ring")
	m.Match("mvring2($x)").Where(m["x"].Filter(ringIsThreeInts)).Report("a ring is three ints here (seen at $x)")
	m.Match("mvring2($x)").Report("a ring is what the standard library says (seen at $x)")
	m.Match("miduse1($x)").Where(m["x"].Filter(midIsSink)).Report("$x is a mid.Sink")
	m.Match("miduse2($x)").Where(m["x"].Filter(midWrapHolds)).Report("mid.Wrap holds a $x")
	m.Match("mvdo($x)").Where(m["x"].Text.Matches("^v[A-Z]") && !m["x"].Text.Matches("Int$")).Do(depDescribe)
}
`

type nvOut struct {
	rules     string // natives of the dsl packages + the rules on the in-memory dependency
	rulesStd  string // natives of other packages (fmt, strconv, strings): their rules file imports those packages
	bound     []string
	covered   []string
	uncovered map[string]string
	nDo, nFlt int // indices 0..n-1 of the nd(i, x) / nf(i, x) rules
	helpers   int
}

// genNativesRules builds the rules file of the rule set "natives"
func genNativesRules(names []string, imp types.Importer) (*nvOut, error) {
	syms, unresolved := resolveNatives(names, imp)
	g := &nvGen{syms: syms, byShort: map[string]*nativeSym{}, used: map[string]bool{}, showDone: map[string]string{}, reasons: map[string]string{}}
	for _, s := range syms {
		g.byShort[s.Short] = s
	}
	for _, must := range []string{"*dsl.VarFilterContext.Type", "*dsl.DoContext.Var", "*dsl.DoVar.Type", "*dsl.DoVar.Text", "*dsl.DoContext.SetReport", "*dsl.DoContext.SetSuggest"} {
		if g.byShort[must] == nil {
			return nil, fmt.Errorf("native %s is not bound: the generator's roots are gone", must)
		}
	}
	tType := g.byShort["*dsl.VarFilterContext.Type"].res.typ
	g.pool = []*nvExpr{
		{typ: tType, ts: nvTypeString(tType), root: "t"},
		{typ: g.byShort["*dsl.VarFilterContext.Type"].recv.typ, ts: "*dsl.VarFilterContext", root: "ctx", needs: 'F'},
		{typ: g.byShort["*dsl.DoContext.Var"].recv.typ, ts: "*dsl.DoContext", root: "ctx", needs: 'D'},
	}
	// two levels of derived values
	for level := 1; level <= 2; level++ {
		var fresh []*nvExpr
		for _, s := range syms {
			if s.res == nil || nvBasic(s.res.ts) || s.errRes {
				continue
			}
			if s.Short == "*dsl.VarFilterContext.Type" {
				continue // that is the root t
			}
			for _, c := range g.combos(s, 3) {
				e := &nvExpr{typ: s.res.typ, ts: s.res.ts, sym: s, args: c, needs: nvNeeds(c), depth: level}
				dup, perType, perSym := false, 0, 0
				for _, o := range append(append([]*nvExpr(nil), g.pool...), fresh...) {
					if o.key() == e.key() {
						dup = true
					}
					if o.ts == e.ts {
						perType++
						if o.sym == s {
							perSym++
						}
					}
				}
				if !dup && perType < 6 && perSym < 2 {
					fresh = append(fresh, e)
				}
			}
		}
		g.pool = append(g.pool, fresh...)
	}
	g.reasons = map[string]string{}
	// calls under test: two files (the natives of the dsl packages; the natives of the standard library, whose rules file
	// has to import those packages -- a source import per engine), one numbering of the nd / nf rules
	out := &nvOut{uncovered: map[string]string{}}
	nDo, nFlt := 0, 0
	file := func(std bool) string {
		g.funcs = nil
		g.showDone = map[string]string{}
		var body, rules strings.Builder
		for si, s := range syms {
			if (s.path != "" && s.path != dslTypesPath && s.path != dslPath) != std {
				continue
			}
			var h0, hF, hD []string
			for ci, c := range g.combos(s, 8) {
				top := &nvExpr{sym: s, args: c, needs: nvNeeds(c)}
				if s.res != nil {
					top.typ, top.ts = s.res.typ, s.res.ts
				}
				name := fmt.Sprintf("nv%dc%d", si, ci)
				src, ok := g.helper(name, top)
				if !ok {
					continue
				}
				g.funcs = append(g.funcs, src)
				out.helpers++
				switch top.needs {
				case 'F':
					hF = append(hF, name)
				case 'D':
					hD = append(hD, name)
				default:
					h0 = append(h0, name)
				}
			}
			if len(h0)+len(hD) > 0 {
				fmt.Fprintf(&body, "func nvDo%d(ctx *dsl.DoContext) {\n\ts := \"\"\n", nDo)
				if len(h0) > 0 {
					fmt.Fprintf(&body, "\tt := %s\n", g.doType())
				}
				for _, h := range h0 {
					fmt.Fprintf(&body, "\ts = s + \" [\" + %s(t) + \"]\"\n", h)
				}
				for _, h := range hD {
					fmt.Fprintf(&body, "\ts = s + \" [\" + %s(ctx) + \"]\"\n", h)
				}
				fmt.Fprintf(&body, "\t%s\n", g.call(g.byShort["*dsl.DoContext.SetReport"], []string{"ctx", fmt.Sprintf("%q + %s + \":\" + s", s.Short+" on ", g.doText())}))
				if nDo%2 == 1 {
					fmt.Fprintf(&body, "\t%s\n", g.call(g.byShort["*dsl.DoContext.SetSuggest"], []string{"ctx", "s"}))
				}
				body.WriteString("}\n\n")
				fmt.Fprintf(&rules, "\tm.Match(\"nd(%d, $x)\").Do(nvDo%d)\n", nDo, nDo)
				nDo++
			}
			if len(h0)+len(hF) > 0 {
				fmt.Fprintf(&body, "func nvFlt%d(ctx *dsl.VarFilterContext) bool {\n\ts := \"\"\n", nFlt)
				if len(h0) > 0 {
					fmt.Fprintf(&body, "\tt := %s\n", g.call(g.byShort["*dsl.VarFilterContext.Type"], []string{"ctx"}))
				}
				for _, h := range h0 {
					fmt.Fprintf(&body, "\ts = s + \" [\" + %s(t) + \"]\"\n", h)
				}
				for _, h := range hF {
					fmt.Fprintf(&body, "\ts = s + \" [\" + %s(ctx) + \"]\"\n", h)
				}
				body.WriteString("\treturn nvOdd(s)\n}\n\n")
				fmt.Fprintf(&rules, "\tm.Match(\"nf(%d, $x)\").Where(m[\"x\"].Filter(nvFlt%d)).Report(\"nf %d (%s) odd: $x\")\n", nFlt, nFlt, nFlt, s.Short)
				fmt.Fprintf(&rules, "\tm.Match(\"nf(%d, $x)\").Report(\"nf %d (%s) even: $x\")\n", nFlt, nFlt, s.Short)
				nFlt++
			}
		}
		imports := map[string]bool{dslPath: true, dslTypesPath: true}
		for _, s := range syms {
			if std && g.used[s.Full] && s.path != "" {
				imports[s.path] = true
			}
		}
		var ipaths []string
		for p := range imports {
			ipaths = append(ipaths, p)
		}
		sort.Strings(ipaths)
		var src strings.Builder
		src.WriteString("package gorules\n\nimport (\n")
		for _, p := range ipaths {
			fmt.Fprintf(&src, "\t%q\n", p)
		}
		src.WriteString(")\n")
		src.WriteString(nvPrelude)
		src.WriteString("\n")
		for _, f := range g.funcs {
			src.WriteString(f)
			src.WriteString("\n")
		}
		src.WriteString(body.String())
		if std {
			src.WriteString("func c08nativesStd(m dsl.Matcher) {\n")
		} else {
			src.WriteString("func c08natives(m dsl.Matcher) {\n")
		}
		src.WriteString(rules.String())
		src.WriteString("}\n")
		if !std {
			src.WriteString(nvDepRules)
		}
		return src.String()
	}
	out.rules = file(false)
	out.rulesStd = file(true)
	out.nDo, out.nFlt = nDo, nFlt
	out.bound = append([]string(nil), names...)
	sort.Strings(out.bound)
	for _, s := range syms {
		if g.used[s.Full] {
			out.covered = append(out.covered, s.Full)
		} else {
			r := g.reasons[s.Full]
			if r == "" {
				r = "no call was generated"
			}
			out.uncovered[s.Full] = r
		}
	}
	for _, u := range unresolved {
		out.uncovered[u] = "the symbol cannot be resolved against the dsl packages"
	}
	return out, nil
}
