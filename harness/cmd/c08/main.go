// c08: concurrent Run calls on one Engine.
//
//	-mode explore  : N goroutines x (rule set, file) pairs on ONE engine, cold and warm caches, RunnerStates nil / pooled /
//	                 per goroutine; every run's report list is compared with the sequential baseline of that file.
//	                 Built with -race: the race detector's log (GORACE=log_path=...) is read by the check.
//	-mode findtype : scripted sequences of engineState.FindType calls (hook VerifFindType), sequentially and from
//	                 concurrent goroutines, with the cache contents before/after, for the comparison with the Coq model
//	                 of the cache protocol (RG.Locks.Cache).
//
// Output: one JSON object per line on stdout.
package main

import (
	"encoding/json"
	"flag"
	"fmt"
	"go/ast"
	"go/importer"
	"go/parser"
	"go/token"
	"go/types"
	"math/rand"
	"os"
	"path/filepath"
	"reflect"
	"regexp"
	"runtime"
	"sort"
	"strconv"
	"strings"
	"sync"
	"sync/atomic"
	"time"

	"verif/harness/internal/hutil"

	"github.com/quasilyte/go-ruleguard/ruleguard"
)

// ------------------------------------------------------------------------------------------------ rule sets

const rulesTypes = `package gorules

import (
	"github.com/quasilyte/go-ruleguard/dsl"
	"github.com/quasilyte/go-ruleguard/dsl/types"
)

func isKnownStruct(ctx *dsl.VarFilterContext) bool {
	typ := ctx.Type
	ptr := types.AsPointer(typ)
	if ptr != nil {
		typ = ptr.Elem()
	}
	return types.Identical(typ, ctx.GetType("bytes.Buffer")) ||
		types.Identical(typ, ctx.GetType("strings.Builder")) ||
		types.Identical(typ, ctx.GetType("strings.Reader")) ||
		types.Identical(typ, ctx.GetType("bufio.Reader")) ||
		types.Identical(typ, ctx.GetType("bytes.Reader")) ||
		types.Identical(typ, ctx.GetType("sync.Mutex")) ||
		types.Identical(typ, ctx.GetType("sync.WaitGroup")) ||
		types.Identical(typ, ctx.GetType("time.Duration")) ||
		types.Identical(typ, ctx.GetType("net/url.URL")) ||
		types.Identical(typ, ctx.GetType("container/list.List"))
}

func isReaderOrWriter(ctx *dsl.VarFilterContext) bool {
	return types.Implements(ctx.Type, ctx.GetInterface("io.Reader")) ||
		types.Implements(ctx.Type, ctx.GetInterface("io.Writer")) ||
		types.Implements(ctx.Type, ctx.GetInterface("io.ByteScanner"))
}

func isStringerOrError(ctx *dsl.VarFilterContext) bool {
	return types.Implements(ctx.Type, ctx.GetInterface("fmt.Stringer")) ||
		types.Implements(ctx.Type, ctx.GetInterface("error")) ||
		types.Implements(ctx.Type, ctx.GetInterface("sort.Interface"))
}

func c08known(m dsl.Matcher) {
	m.Match("$x.$f($*_)").Where(m["x"].Filter(isKnownStruct)).Report("method $f on a known struct $x")
	m.Match("$f($x)").Where(m["x"].Filter(isReaderOrWriter)).Report("reader/writer argument $x to $f")
	m.Match("$x := $y").Where(m["y"].Filter(isStringerOrError)).Report("stringer/error/sortable value $y")
}
`

const rulesMixed = `package gorules

import (
	"github.com/quasilyte/go-ruleguard/dsl"
	"github.com/quasilyte/go-ruleguard/dsl/types"
)

func isHTTPish(ctx *dsl.VarFilterContext) bool {
	return types.Implements(ctx.Type, ctx.GetInterface("io.ReadCloser")) ||
		types.Implements(ctx.Type, ctx.GetInterface("encoding.TextMarshaler")) ||
		types.Identical(ctx.Type, ctx.GetType("time.Time")) ||
		types.Identical(ctx.Type, ctx.GetType("text/tabwriter.Writer"))
}

func reportAdd(ctx *dsl.DoContext) {
	ctx.SetReport("sum of " + ctx.Var("x").Text() + " and " + ctx.Var("y").Text())
	ctx.SetSuggest(ctx.Var("y").Text() + " + " + ctx.Var("x").Text())
}

func c08mixed(m dsl.Matcher) {
	m.Match("$x == $x").Report("suspicious identical operands $x").Suggest("true")
	m.Match("fmt.Sprintf($s, $*args)").Where(m["s"].Text.Matches("%v")).Report("Sprintf with %%v: $s")
	m.Match("$x := $y").Where(m["y"].Type.Is("*bytes.Buffer")).Report("buffer pointer $x")
	m.Match("$f($x)").Where(m["x"].Type.Implements("io.Reader") && !m["x"].Type.Implements("io.Writer")).Report("pure reader $x")
	m.Match("$x + $y").Where(m["x"].Type.Is("int") && m["y"].Const).Do(reportAdd)
	m.Match("$v := $y").Where(m["y"].Filter(isHTTPish)).Report("interesting value $v")
	m.MatchComment("TODO\\((?P<who>\\w+)\\)").Report("todo by $who")
	m.Match("errors.New($s)").Where(m["s"].Text.Matches("^\"[A-Z]")).Report("capitalised error $s")
}
`

const rulesSecondA = `package gorules

import (
	"github.com/quasilyte/go-ruleguard/dsl"
	"github.com/quasilyte/go-ruleguard/dsl/types"
)

func sameNameA(ctx *dsl.VarFilterContext) bool {
	// types whose object names collide across packages: a cache keyed by anything coarser than the FQN mixes them up
	return types.Identical(ctx.Type, ctx.GetType("strings.Reader")) ||
		types.Identical(ctx.Type, ctx.GetType("sync.Map"))
}

func c08secondA(m dsl.Matcher) {
	m.Match("$x.$f($*_)").Where(m["x"].Filter(sameNameA)).Report("A: $f on $x")
}
`

const rulesSecondB = `package gorules

import (
	"github.com/quasilyte/go-ruleguard/dsl"
	"github.com/quasilyte/go-ruleguard/dsl/types"
)

func sameNameB(ctx *dsl.VarFilterContext) bool {
	typ := ctx.Type
	ptr := types.AsPointer(typ)
	if ptr != nil {
		typ = ptr.Elem()
	}
	return types.Identical(typ, ctx.GetType("bytes.Reader")) ||
		types.Identical(typ, ctx.GetType("bufio.Reader")) ||
		types.Identical(typ, ctx.GetType("bufio.Writer")) ||
		types.Identical(typ, ctx.GetType("text/tabwriter.Writer"))
}

func c08secondB(m dsl.Matcher) {
	m.Match("$x.$f($*_)").Where(m["x"].Filter(sameNameB)).Report("B: $f on $x")
	m.Match("$x != $x").Report("B: never true $x")
}
`

// a custom filter that names a type of the analysed module itself: resolvable only through the dependencies of the
// package being checked, not by the engine's importer (probe for the known finding)
const rulesModuleType = `package gorules

import (
	"github.com/quasilyte/go-ruleguard/dsl"
	"github.com/quasilyte/go-ruleguard/dsl/types"
)

func isNamed(ctx *dsl.VarFilterContext) bool {
	return types.Identical(ctx.Type, ctx.GetType("c08/pb.named"))
}

func c08module(m dsl.Matcher) {
	m.Match("$x == $x").Report("dup $x")
	m.Match("$v := $y").Where(m["y"].Filter(isNamed)).Report("named value $v")
}
`

var probeRuleSet = ruleSet{name: "module-type", files: []string{"module.go"}, text: map[string]string{"module.go": rulesModuleType}}

type ruleSet struct {
	name  string
	files []string // rule file names, load order
	text  map[string]string
	// allZoo: every round runs all zoo files (loadtime.go); otherwise one zoo file per round, in rotation (the zoo
	// files are large, and the rule sets with custom GetType filters pay a cold source import per engine)
	allZoo bool
	// only: the set runs on the targets whose name has this prefix only (and without the shared-RunContext group)
	only string
	// freshBase: the set needs no source imports at run time, so the baseline of the in-memory targets is taken the
	// way the property states it: a lone Run on a FRESH engine per file (the engine used for the other files then has
	// to agree with it, in both orders)
	freshBase bool
	// perG: files per goroutine and round (0: all)
	perG int
	// mem: one in-memory target per round joins the rotation (sets that are not allZoo)
	mem bool
	// firstTouch: a concurrent round precedes the baseline (sets whose engines load quickly)
	firstTouch bool
	// ns: goroutine counts of this set's rounds (nil: the -ns flag)
	ns []int
	// sameFile > 0: all goroutines of a round check the SAME file at the same moment (a barrier in front of every step),
	// every file sameFile times in a row, and an observer reads the trees meanwhile (decls.go)
	sameFile int
}

var ruleSets = []ruleSet{
	{name: "types", files: []string{"types.go"}, text: map[string]string{"types.go": rulesTypes}},
	{name: "mixed", files: []string{"mixed.go"}, text: map[string]string{"mixed.go": rulesMixed}, mem: true},
	{name: "two-files", files: []string{"a.go", "b.go"}, text: map[string]string{"a.go": rulesSecondA, "b.go": rulesSecondB}},
}

// ------------------------------------------------------------------------------------------------ target files

func repeatBody(n int, f func(i int) string) string {
	var sb strings.Builder
	for i := 0; i < n; i++ {
		sb.WriteString(f(i))
	}
	return sb.String()
}

func targetSources(scale int) map[string]string {
	m := map[string]string{}
	m["pa"] = "package pa\n\nimport (\n\t\"bytes\"\n\t\"fmt\"\n\t\"io\"\n\t\"os\"\n\t\"strings\"\n)\n\n" + repeatBody(scale, func(i int) string {
		return fmt.Sprintf(`// TODO(alice) tidy f%[1]d
func f%[1]d(r io.Reader, w io.Writer, n int) string {
	buf := &bytes.Buffer{}
	var sb strings.Builder
	buf.WriteString("x")
	sb.WriteString(fmt.Sprintf("%%v %%d", buf, n))
	rd := strings.NewReader("abc")
	rd.Len()
	io.Copy(w, r)
	io.Copy(buf, rd)
	if n == n {
		return sb.String()
	}
	k := n + 1
	_ = k
	fmt.Fprintln(os.Stderr, buf.String())
	return fmt.Sprintf("%%s", sb.String())
}

`, i)
	})
	m["pb"] = "package pb\n\nimport (\n\t\"errors\"\n\t\"sort\"\n\t\"sync\"\n\t\"time\"\n)\n\ntype ints []int\n\nfunc (x ints) Len() int { return len(x) }\nfunc (x ints) Less(i, j int) bool { return x[i] < x[j] }\nfunc (x ints) Swap(i, j int) { x[i], x[j] = x[j], x[i] }\n\ntype named struct{ s string }\n\nfunc (n named) String() string { return n.s }\n\n" + repeatBody(scale, func(i int) string {
		return fmt.Sprintf(`func g%[1]d(d time.Duration, xs []int) error {
	var mu sync.Mutex
	var wg sync.WaitGroup
	mu.Lock()
	wg.Add(1)
	s := ints(xs)
	sort.Sort(s)
	e := errors.New("Bad thing %[1]d")
	e2 := errors.New("worse")
	nm := named{"n"}
	t := time.Now()
	d2 := d + 5
	_ = t
	_ = nm
	_ = d2
	wg.Done()
	mu.Unlock()
	if e != e {
		return e2
	}
	d.Hours()
	var sm sync.Map
	sm.Load(1)
	return e // TODO(bob) wrap
}

`, i)
	})
	m["pc"] = "package pc\n\n" + repeatBody(scale, func(i int) string {
		return fmt.Sprintf(`func h%[1]d(a, b int) int {
	// TODO(carol) nothing imported here
	c := a + 2
	if c == c || b != b {
		return a + 3
	}
	d := b + c
	return d
}

`, i)
	})
	m["pd"] = "package pd\n\nimport (\n\t\"bufio\"\n\t\"bytes\"\n\t\"container/list\"\n\t\"net/url\"\n\t\"os\"\n\t\"text/tabwriter\"\n)\n\n" + repeatBody(scale, func(i int) string {
		return fmt.Sprintf(`func k%[1]d(u *url.URL, f *os.File) {
	br := bufio.NewReader(f)
	bw := bufio.NewWriter(f)
	br.ReadByte()
	bw.Flush()
	l := list.New()
	l.Len()
	u.String()
	rd := bytes.NewReader(nil)
	rd.Len()
	tw := tabwriter.NewWriter(f, 0, 8, 0, ' ', 0)
	tw.Flush()
	v := *u
	v.String()
	f.Close()
}

`, i)
	})
	return m
}

type target struct {
	name string
	t    *hutil.Target
}

// pmFiles: the files of ONE package (c08/pm), sharing one types.Info / types.Package -- what a caller checks in parallel
// with a single RunContext
var pmFiles []*target

func pmSources(scale int) map[string]string {
	srcs := targetSources(scale)
	out := map[string]string{}
	rename := func(src, pkgOld string, fn string, tag string) string {
		src = strings.Replace(src, "package "+pkgOld, "package pm", 1)
		return regexp.MustCompile(`\bfunc `+fn+`(\d+)\(`).ReplaceAllString(src, "func "+fn+tag+"_${1}(")
	}
	out["a0"] = rename(srcs["pa"], "pa", "f", "a0")
	out["a1"] = rename(srcs["pa"], "pa", "f", "a1")
	out["a2"] = rename(srcs["pa"], "pa", "f", "a2")
	out["b0"] = rename(srcs["pb"], "pb", "g", "b0")
	out["c0"] = rename(srcs["pc"], "pc", "h", "c0")
	out["c1"] = rename(srcs["pc"], "pc", "h", "c1")
	out["d0"] = rename(srcs["pd"], "pd", "k", "d0")
	out["d1"] = rename(srcs["pd"], "pd", "k", "d1")
	for n, src := range zooPMSources() {
		out[n] = src
	}
	return out
}

func checkPM(dir string, scale int, fset *token.FileSet, imp types.Importer) error {
	srcs := pmSources(scale)
	var names []string
	for n := range srcs {
		names = append(names, n)
	}
	sort.Strings(names)
	var files []*ast.File
	var paths []string
	for _, n := range names {
		path := filepath.Join(dir, "pm", n+".go")
		if err := os.MkdirAll(filepath.Dir(path), 0o755); err != nil {
			return err
		}
		if err := os.WriteFile(path, []byte(srcs[n]), 0o644); err != nil {
			return err
		}
		f, err := parser.ParseFile(fset, path, []byte(srcs[n]), parser.ParseComments)
		if err != nil {
			return err
		}
		files = append(files, f)
		paths = append(paths, path)
	}
	info := hutil.NewInfo()
	conf := types.Config{Importer: imp}
	pkg, err := conf.Check("c08/pm", fset, files, info)
	if err != nil {
		return fmt.Errorf("typecheck pm: %v", err)
	}
	for i, n := range names {
		pmFiles = append(pmFiles, &target{"pm/" + n, &hutil.Target{Fset: fset, File: files[i], Info: info, Pkg: pkg, Src: []byte(srcs[n]), Path: paths[i]}})
	}
	return nil
}

// zooTargets: the files of loadtime.go (explore mode only; the FindType scripts keep to the four base packages)
var zooTargets []*target

func checkTargets(dir string, scale int) ([]*target, error) {
	fset := token.NewFileSet()
	imp := importer.ForCompiler(fset, "source", nil)
	if err := checkPM(dir, scale, fset, imp); err != nil {
		return nil, err
	}
	base, err := checkSources(dir, targetSources(scale), fset, imp)
	if err != nil {
		return nil, err
	}
	zooTargets, err = checkSources(dir, zooSources(scale), fset, imp)
	if err != nil {
		return base, err
	}
	// the natives rule set is generated from the table of natives an engine really has
	e, err := hutil.LoadEngine(fset, map[string]string{"probe.go": rulesSecondA}, []string{"probe.go"})
	if err != nil {
		return base, fmt.Errorf("natives: %v", err)
	}
	nativesOut, err = genNativesRules(ruleguard.VerifNativeNames(e), imp)
	if err != nil {
		return base, err
	}
	ruleSets = append(ruleSets, ruleSet{name: "natives", files: []string{"natives.go"}, text: map[string]string{"natives.go": nativesOut.rules},
		allZoo: true, only: "mt", freshBase: true, perG: 4, firstTouch: true})
	ruleSets = append(ruleSets, ruleSet{name: "natives-std", files: []string{"nativesstd.go"}, text: map[string]string{"nativesstd.go": nativesOut.rulesStd},
		allZoo: true, only: "mt", perG: 3, firstTouch: true, ns: []int{16}})
	addDeclsRuleSet()
	err = checkMemTargets(dir, fset, imp, nativesOut.nDo, nativesOut.nFlt)
	return base, err
}

var nativesOut *nvOut

func checkSources(dir string, srcs map[string]string, fset *token.FileSet, imp types.Importer) ([]*target, error) {
	var names []string
	for n := range srcs {
		names = append(names, n)
	}
	sort.Strings(names)
	var out []*target
	for _, n := range names {
		path := filepath.Join(dir, n, n+".go")
		if err := os.MkdirAll(filepath.Dir(path), 0o755); err != nil {
			return nil, err
		}
		src := []byte(srcs[n])
		if err := os.WriteFile(path, src, 0o644); err != nil {
			return nil, err
		}
		f, err := parser.ParseFile(fset, path, src, parser.ParseComments)
		if err != nil {
			return nil, err
		}
		info := hutil.NewInfo()
		conf := types.Config{Importer: imp}
		pkg, err := conf.Check("c08/"+n, fset, []*ast.File{f}, info)
		if err != nil {
			return nil, fmt.Errorf("typecheck %s: %v", n, err)
		}
		out = append(out, &target{n, &hutil.Target{Fset: fset, File: f, Info: info, Pkg: pkg, Src: src, Path: path}})
	}
	return out, nil
}

// ------------------------------------------------------------------------------------------------ explore

func loadEngine(rs ruleSet, fset *token.FileSet) (*ruleguard.Engine, error) {
	if os.Getenv("C08_TIMING") != "" {
		t0 := time.Now()
		defer func() { fmt.Fprintf(os.Stderr, "load %s: %v\n", rs.name, time.Since(t0)) }()
	}
	return hutil.LoadEngine(fset, rs.text, rs.files)
}

// progress counts returned calls (Run and FindType); the watchdog in main looks at it
var progress atomic.Int64

type runResult struct {
	Reports []hutil.Report `json:"reports"`
	Panic   string         `json:"panic,omitempty"`
}

func mkReport(fset *token.FileSet, data *ruleguard.ReportData) hutil.Report {
	r := hutil.Report{Message: data.Message, Line: data.RuleInfo.Line}
	if data.RuleInfo.Group != nil {
		r.Group = data.RuleInfo.Group.Name
	}
	if data.Node == nil {
		r.NilNode = true
	} else {
		r.Pos = fset.Position(data.Node.Pos()).Offset
		r.End = fset.Position(data.Node.End()).Offset
	}
	if data.Suggestion != nil {
		r.HasSugg = true
		r.SuggFrom = fset.Position(data.Suggestion.From).Offset
		r.SuggTo = fset.Position(data.Suggestion.To).Offset
		r.Sugg = string(data.Suggestion.Replacement)
	}
	return r
}

// sharedGroup: ONE *RunContext (State == nil) handed to concurrent Run calls on different files of one package.
// Run must treat its context as read-only. The Report callback is the caller's business: it is goroutine-safe and
// files reports under the file they point into (every file is checked by one goroutine at a time).
type sharedGroup struct {
	ctx    *ruleguard.RunContext
	mu     sync.Mutex
	byFile map[string][]hutil.Report
}

func newSharedGroup(t0 *hutil.Target) *sharedGroup {
	g := &sharedGroup{byFile: map[string][]hutil.Report{}}
	g.ctx = &ruleguard.RunContext{
		Pkg:   t0.Pkg,
		Types: t0.Info,
		Sizes: types.SizesFor("gc", "amd64"),
		Fset:  t0.Fset,
		Report: func(data *ruleguard.ReportData) {
			r := mkReport(t0.Fset, data)
			name := ""
			if data.Node != nil {
				name = t0.Fset.Position(data.Node.Pos()).Filename
			}
			g.mu.Lock()
			g.byFile[name] = append(g.byFile[name], r)
			g.mu.Unlock()
		},
	}
	return g
}

func (g *sharedGroup) run(e *ruleguard.Engine, t *hutil.Target) runResult {
	var res runResult
	defer progress.Add(1)
	func() {
		defer func() {
			if r := recover(); r != nil {
				res.Panic = fmt.Sprint(r)
			}
		}()
		if err := e.Run(g.ctx, t.File); err != nil {
			res.Panic = "run error: " + err.Error()
		}
	}()
	g.mu.Lock()
	res.Reports = g.byFile[t.Path]
	delete(g.byFile, t.Path)
	g.mu.Unlock()
	return res
}

func runOnce(e *ruleguard.Engine, t *hutil.Target, st *ruleguard.RunnerState, yield func()) runResult {
	var res runResult
	defer progress.Add(1)
	func() {
		defer func() {
			if r := recover(); r != nil {
				res.Panic = fmt.Sprint(r)
			}
		}()
		ctx := &ruleguard.RunContext{
			Pkg:   t.Pkg,
			Types: t.Info,
			Sizes: types.SizesFor("gc", "amd64"),
			Fset:  t.Fset,
			State: st,
			Report: func(data *ruleguard.ReportData) {
				r := mkReport(t.Fset, data)
				res.Reports = append(res.Reports, r)
				if yield != nil {
					yield()
				}
			},
		}
		if err := e.Run(ctx, t.File); err != nil {
			res.Panic = "run error: " + err.Error()
		}
	}()
	return res
}

type mismatch struct {
	K        string    `json:"k"`
	RuleSet  string    `json:"ruleset"`
	N        int       `json:"n"`
	Phase    string    `json:"phase"`
	G        int       `json:"goroutine"`
	File     string    `json:"file"`
	State    string    `json:"state"`
	Seed     int64     `json:"seed"`
	Expected runResult `json:"expected"`
	Observed runResult `json:"observed"`
}

type roundInfo struct {
	K          string `json:"k"`
	RuleSet    string `json:"ruleset"`
	N          int    `json:"n"`
	Phase      string `json:"phase"`
	Seed       int64  `json:"seed"`
	Runs       int    `json:"runs"`
	Mismatches int    `json:"mismatches"`
	Reports    int    `json:"reports"`
	TypeCache0 int    `json:"typecache_before"`
	TypeCache1 int    `json:"typecache_after"`
	PkgCache0  int    `json:"pkgcache_before"`
	PkgCache1  int    `json:"pkgcache_after"`
	Millis     int64  `json:"ms"`
	States     string `json:"states"`
	Panics     int    `json:"panics"`
	SharedRuns int    `json:"shared_ctx_runs"`
}

type lockedEnc struct {
	mu  sync.Mutex
	enc *json.Encoder
}

func (l *lockedEnc) Encode(v interface{}) {
	l.mu.Lock()
	defer l.mu.Unlock()
	l.enc.Encode(v)
}

// explore: the rule sets are explored side by side (one goroutine each, every one with its own engines), so that the
// race-instrumented cold imports overlap; inside a rule set the rounds are N goroutines on ONE engine.
func explore(enc0 *json.Encoder, targets []*target, sets []int, ns []int, seed int64, budget time.Duration, perG int, fresh bool) {
	enc := &lockedEnc{enc: enc0}
	deadline := time.Now().Add(budget)
	fset := targets[0].t.Fset
	// the trees as the parser delivered them: no Run may leave them (or show them to anybody) in another shape
	snapshotTrees(targets)
	defer finalTreeCheck(enc, targets)
	var wg sync.WaitGroup
	var keptMu sync.Mutex
	var kept []keptEngine
	for _, si := range sets {
		wg.Add(1)
		go func(si int) {
			defer wg.Done()
			rs := ruleSets[si]
			// sequential baseline: a fresh engine, every file once, no RunnerState (the property's "lone sequential call")
			base := map[string]runResult{}
			// first touch: concurrent runs on a fresh engine BEFORE anything in this process has evaluated the set's rules
			// sequentially (what is filled lazily on first use -- package-level tables included, which a new engine
			// does not reset -- is filled by several goroutines at once); judged below, once the baseline exists
			var first []pendingRun
			firstSeed := seed*1000003 + int64(si)*131 + 7
			if rs.firstTouch {
				var sel []*target
				for _, t := range targets {
					if rs.only == "" || strings.HasPrefix(t.name, rs.only) {
						sel = append(sel, t)
					}
				}
				e0, err := loadEngine(rs, fset)
				if err != nil {
					enc.Encode(map[string]interface{}{"k": "error", "what": "load " + rs.name + ": " + err.Error()})
					return
				}
				exploreRound(enc, e0, rs, sel, nil, nil, 8, "first-touch", firstSeed, 0, &first)
			}
			eA, err := loadEngine(rs, fset)
			if err != nil {
				enc.Encode(map[string]interface{}{"k": "error", "what": "load " + rs.name + ": " + err.Error()})
				return
			}
			pm := pmFiles
			targets := targets
			if rs.only != "" {
				pm = nil
				var sel []*target
				for _, t := range targets {
					if strings.HasPrefix(t.name, rs.only) {
						sel = append(sel, t)
					}
				}
				targets = sel
			}
			for _, t := range targets {
				if rs.freshBase && strings.HasPrefix(t.name, "mt") {
					e, err := loadEngine(rs, fset)
					if err != nil {
						enc.Encode(map[string]interface{}{"k": "error", "what": "load " + rs.name + ": " + err.Error()})
						return
					}
					base[t.name] = runOnce(e, t.t, nil, nil)
					if p := base[t.name].Panic; p != "" && rs.only != "" {
						enc.Encode(map[string]interface{}{"k": "error", "what": "the lone Run of " + rs.name + " on " + t.name + " fails: " + p})
					}
					// the engine that has seen the other files answers the same
					r := runOnce(eA, t.t, nil, nil)
					agree := reflect.DeepEqual(r, base[t.name])
					m := map[string]interface{}{"k": "baseline", "ruleset": rs.name, "file": t.name, "agree": agree,
						"reports": len(base[t.name].Reports), "panic": base[t.name].Panic, "order": "forward"}
					if !agree {
						m["other"] = r
						m["expected"] = base[t.name]
					}
					enc.Encode(m)
					continue
				}
				base[t.name] = runOnce(eA, t.t, nil, nil)
			}
			for _, t := range pm {
				base[t.name] = runOnce(eA, t.t, nil, nil)
			}
			{
				// which rules of the set deliver reports at all (group:line), and how many files carry reports
				fired := map[string]int{}
				sample := map[string]string{}
				for _, r := range base {
					for _, rep := range r.Reports {
						k := fmt.Sprintf("%s:%d", rep.Group, rep.Line)
						fired[k]++
						if os.Getenv("C08_SAMPLES") != "" {
							sample[k] = rep.Message
						}
					}
				}
				if len(sample) > 0 {
					enc.Encode(map[string]interface{}{"k": "rules-sample", "ruleset": rs.name, "sample": sample})
				}
				var keys []string
				for k := range fired {
					keys = append(keys, k)
				}
				sort.Strings(keys)
				enc.Encode(map[string]interface{}{"k": "rules-fired", "ruleset": rs.name, "rules": keys})
			}
			// the same calls again: reverse order, one reused state (warm engine), and optionally on fresh engines
			check := func(kind string, e *ruleguard.Engine, st *ruleguard.RunnerState, t *target) {
				r := runOnce(e, t.t, st, nil)
				agree := reflect.DeepEqual(r, base[t.name])
				m := map[string]interface{}{"k": kind, "ruleset": rs.name, "file": t.name, "agree": agree,
					"reports": len(base[t.name].Reports), "panic": base[t.name].Panic}
				if !agree {
					m["other"] = r
					m["expected"] = base[t.name]
				}
				enc.Encode(m)
			}
			if rs.firstTouch {
				// for the comparison with the lone runs of OTHER processes (mode lone): what survives an engine (package-level
				// state) is the same for every engine of one process
				for _, t := range targets {
					enc.Encode(map[string]interface{}{"k": "base", "ruleset": rs.name, "file": t.name, "res": base[t.name]})
				}
			}
			nm := 0
			for _, pr := range first {
				if !reflect.DeepEqual(pr.res, base[pr.file]) {
					if nm < 3 {
						enc.Encode(mismatch{"mismatch", rs.name, 8, "first-touch", pr.g, pr.file, pr.mode, firstSeed, base[pr.file], pr.res})
					}
					nm++
				}
			}
			if rs.firstTouch {
				keptMu.Lock()
				kept = append(kept, keptEngine{rs, eA})
				keptMu.Unlock()
			}
			stA := ruleguard.NewRunnerState(eA)
			for i := len(targets) - 1; i >= 0; i-- {
				check("baseline", eA, stA, targets[i])
			}
			for i := len(pm) - 1; i >= 0; i-- {
				check("baseline", eA, stA, pm[i])
			}
			if fresh {
				for _, t := range targets {
					e, err := loadEngine(rs, fset)
					if err == nil {
						check("baseline-fresh", e, nil, t)
					}
				}
			}
			ns := ns
			if rs.ns != nil {
				ns = rs.ns
			}
			for round := 0; ; round++ {
				for _, n := range ns {
					if round > 0 && time.Now().After(deadline) {
						return
					}
					e, err := loadEngine(rs, fset)
					if err != nil {
						return
					}
					roundTargets := targets
					if !rs.allZoo && len(zooTargets) > 0 {
						roundTargets = nil
						pick := zooTargets[(round*len(ns)+n+si)%len(zooTargets)]
						var pickMem *target
						if len(memTargets) > 0 && rs.mem {
							pickMem = memTargets[(round*len(ns)+n+si)%len(memTargets)]
						}
						for _, t := range targets {
							if !(strings.HasPrefix(t.name, "pz") || strings.HasPrefix(t.name, "mt")) || t == pick || t == pickMem {
								roundTargets = append(roundTargets, t)
							}
						}
					}
					for _, phase := range []string{"cold", "warm"} {
						rseed := seed*1000003 + int64(round)*7919 + int64(si)*131 + int64(n)
						pg := perG
						if rs.perG > 0 && n > 2 {
							pg = rs.perG
						}
						exploreRound(enc, e, rs, roundTargets, pm, base, n, phase, rseed, pg, nil)
					}
				}
				if time.Now().After(deadline) {
					return
				}
			}
		}(si)
	}
	wg.Wait()
	// the files are saved: the stale copies on disk are replaced by the text that was parsed. A Run reads its file when
	// it runs -- an engine that has checked the file before the save answers like a fresh engine (lone Run) after it
	for _, t := range memTargets {
		if memStale[t.name] {
			if err := os.WriteFile(t.t.Path, t.t.Src, 0o644); err != nil {
				enc.Encode(map[string]interface{}{"k": "error", "what": "save: " + err.Error()})
				return
			}
		}
	}
	for _, k := range kept {
		for _, t := range memTargets {
			if !memStale[t.name] {
				continue
			}
			e, err := loadEngine(k.rs, fset)
			if err != nil {
				continue
			}
			want := runOnce(e, t.t, nil, nil)
			got := runOnce(k.e, t.t, nil, nil)
			agree := reflect.DeepEqual(want, got)
			m := map[string]interface{}{"k": "baseline", "ruleset": k.rs.name, "file": t.name, "agree": agree,
				"reports": len(want.Reports), "panic": want.Panic, "order": "after the file was saved (the engine checked the stale copy before)"}
			if !agree {
				m["other"] = got
				m["expected"] = want
			}
			enc.Encode(m)
		}
	}
}

type keptEngine struct {
	rs ruleSet
	e  *ruleguard.Engine
}

// pendingRun: a run of a first-touch round, judged once the baseline exists
type pendingRun struct {
	g    int
	file string
	mode string
	res  runResult
}

// exploreRound: with base == nil the runs are not judged but appended to *pending (the first-touch round precedes the
// baseline)
func exploreRound(enc *lockedEnc, e *ruleguard.Engine, rs ruleSet, targets []*target, pmFiles []*target, base map[string]runResult, n int, phase string, seed int64, perG int, pending *[]pendingRun) {
	k0, _ := ruleguard.VerifTypeCache(e)
	p0 := ruleguard.VerifPkgCache(e)
	pool := &sync.Pool{New: func() interface{} { return ruleguard.NewRunnerState(e) }}
	var wg sync.WaitGroup
	start := make(chan struct{})
	var mu sync.Mutex
	var mism []mismatch
	runs, reports, panics := 0, 0, 0
	stateModes := map[string]bool{}
	t0 := time.Now()
	// same-file rounds: one order for all goroutines, every file rs.sameFile times in a row, a barrier per step
	var sameOrder []int
	var barriers []*sync.WaitGroup
	var observer *treeObserver
	if rs.sameFile > 0 {
		for _, ti := range rand.New(rand.NewSource(seed*17 + 3)).Perm(len(targets)) {
			for k := 0; k < rs.sameFile; k++ {
				sameOrder = append(sameOrder, ti)
			}
		}
		for range sameOrder {
			b := &sync.WaitGroup{}
			b.Add(n)
			barriers = append(barriers, b)
		}
		observer = startTreeObserver(targets, fmt.Sprintf("while %d goroutines check the file (rule set %s, %s round, seed %d)", n, rs.name, phase, seed))
	}
	for g := 0; g < n; g++ {
		wg.Add(1)
		go func(g int) {
			defer wg.Done()
			rng := rand.New(rand.NewSource(seed*31 + int64(g)))
			order := rng.Perm(len(targets))
			if perG > 0 && perG < len(order) {
				order = order[:perG]
			}
			if sameOrder != nil {
				order = sameOrder
			}
			mode := []string{"nil", "pool", "own"}[(g+int(seed))%3]
			if mode == "nil" && rng.Intn(4) == 0 {
				mode = "pool"
			}
			var own *ruleguard.RunnerState
			if mode == "own" {
				own = ruleguard.NewRunnerState(e)
			}
			yield := func() {
				if rng.Intn(3) == 0 {
					runtime.Gosched()
				}
			}
			<-start
			for step, ti := range order {
				t := targets[ti]
				if barriers != nil {
					barriers[step].Done()
					barriers[step].Wait()
				}
				var st *ruleguard.RunnerState
				switch mode {
				case "pool":
					st = pool.Get().(*ruleguard.RunnerState)
				case "own":
					st = own
				}
				r := runOnce(e, t.t, st, yield)
				if mode == "pool" {
					pool.Put(st)
				}
				ok := base == nil || reflect.DeepEqual(r, base[t.name])
				mu.Lock()
				runs++
				reports += len(r.Reports)
				stateModes[mode] = true
				if r.Panic != "" {
					panics++
				}
				if base == nil {
					*pending = append(*pending, pendingRun{g, t.name, mode, r})
				}
				if !ok {
					mism = append(mism, mismatch{"mismatch", rs.name, n, phase, g, t.name, mode, seed, base[t.name], r})
				}
				mu.Unlock()
			}
		}(g)
	}
	// the shared-context group: S more goroutines check the files of package c08/pm with ONE RunContext (State nil),
	// every file owned by one goroutine, three passes each
	sharedRuns := 0
	if len(pmFiles) > 0 && base != nil {
		grp := newSharedGroup(pmFiles[0].t)
		S := n
		if S > len(pmFiles) {
			S = len(pmFiles)
		}
		for j := 0; j < S; j++ {
			wg.Add(1)
			go func(j int) {
				defer wg.Done()
				<-start
				for pass := 0; pass < 3; pass++ {
					for i := j; i < len(pmFiles); i += S {
						t := pmFiles[i]
						r := grp.run(e, t.t)
						ok := reflect.DeepEqual(r, base[t.name])
						mu.Lock()
						runs++
						sharedRuns++
						reports += len(r.Reports)
						stateModes["shared-ctx"] = true
						if r.Panic != "" {
							panics++
						}
						if !ok {
							mism = append(mism, mismatch{"mismatch", rs.name, n, phase, 1000 + j, t.name, "shared-ctx", seed, base[t.name], r})
						}
						mu.Unlock()
					}
				}
			}(j)
		}
	}
	close(start)
	wg.Wait()
	if observer != nil {
		seen, looks := observer.stop()
		for _, f := range seen {
			enc.Encode(f)
		}
		enc.Encode(astFinding{K: "ast-observer", File: rs.name, When: phase, Agree: len(seen) == 0, Looks: looks})
	}
	k1, _ := ruleguard.VerifTypeCache(e)
	p1 := ruleguard.VerifPkgCache(e)
	for i, m := range mism {
		if i < 3 {
			enc.Encode(m)
		}
	}
	var sm []string
	for s := range stateModes {
		sm = append(sm, s)
	}
	sort.Strings(sm)
	enc.Encode(roundInfo{"round", rs.name, n, phase, seed, runs, len(mism), reports, len(k0), len(k1), len(p0), len(p1),
		time.Since(t0).Milliseconds(), strings.Join(sm, ","), panics, sharedRuns})
}

// ------------------------------------------------------------------------------------------------ findtype scripts

var fqnPool = []string{
	"io.Reader", "bufio.Reader", "strings.Reader", "bytes.Reader", "io.Writer", "bufio.Writer", "text/tabwriter.Writer",
	"bytes.Buffer", "strings.Builder", "sync.Mutex", "sync.Map", "time.Duration", "time.Time", "net/url.URL",
	"container/list.List", "container/ring.Ring", "sort.Interface", "fmt.Stringer", "error", "int", "string",
	"os.File", "errors.nosuchtype", "nosuch/pkg.T", "notanfqn", "io.nosuch", "unicode/utf8.RuneError", "strings.NewReader",
	"c08/pa.f0", "c08/pb.ints", "c08/pb.named",
	// names in the in-memory dependency that the variants of the in-memory targets disagree about (memtargets.go)
	memDepPath + ".Handler", memDepPath + ".Conf", memDepPath + ".Level", memDepPath + ".nosuch", memMidPath + ".Sink", memMidPath + ".Wrap",
}

// typeLabel: the type's string, marked with the variant when it is declared in an in-memory dependency (the variants
// give the same names to different types)
func typeLabel(t types.Type) string {
	if t == nil {
		return "<nil>" // FindType answered "found" without a type
	}
	if n, ok := types.Unalias(t).(*types.Named); ok && n.Obj().Pkg() != nil {
		if v, ok := memPkgVariant[n.Obj().Pkg()]; ok {
			return fmt.Sprintf("%s#v%d", t.String(), v)
		}
	}
	return t.String()
}

// closureLookup: what the name denotes among the packages that pkg depends on (the oracle for the dependency branch of
// FindType: a breadth-first walk over Imports(), independent of findDependency)
func closureLookup(pkg *types.Package, fqn string) (typ types.Type, inClosure bool) {
	pos := strings.LastIndexByte(fqn, '.')
	if pos < 0 || pkg == nil {
		return nil, false
	}
	path, name := fqn[:pos], fqn[pos+1:]
	seen := map[*types.Package]bool{pkg: true}
	queue := []*types.Package{pkg}
	for len(queue) > 0 {
		p := queue[0]
		queue = queue[1:]
		if p.Path() == path && p.Complete() {
			// whatever object has that name (the engine does not insist on a type name)
			if obj := p.Scope().Lookup(name); obj != nil {
				return obj.Type(), true
			}
			return nil, true
		}
		for _, q := range p.Imports() {
			if !seen[q] {
				seen[q] = true
				queue = append(queue, q)
			}
		}
	}
	return nil, false
}

type ftOp struct {
	Pkg int    `json:"pkg"` // index into targets, -1 = nil current package
	FQN string `json:"fqn"`
}

type ftRes struct {
	OK   bool   `json:"ok"`
	Type string `json:"type,omitempty"`
	Err  string `json:"err,omitempty"`
	// does the result denote the type the host's own importer finds under this name (by xtypes identity)?
	SameAsHost bool `json:"same_as_host"`
}

// the independent oracle: what the fully-qualified name denotes for go/types (host importer shared with the targets)
type hostOracle struct {
	imp     types.Importer
	targets []*target
	mu      sync.Mutex
}

func (h *hostOracle) lookup(fqn string) (types.Type, bool) {
	h.mu.Lock()
	defer h.mu.Unlock()
	pos := strings.LastIndexByte(fqn, '.')
	if pos < 0 {
		if obj := types.Universe.Lookup(fqn); obj != nil {
			if _, isType := obj.(*types.TypeName); isType {
				return obj.Type(), true
			}
		}
		return nil, false
	}
	path, name := fqn[:pos], fqn[pos+1:]
	var pkg *types.Package
	for _, t := range h.targets {
		if t.t.Pkg.Path() == path {
			pkg = t.t.Pkg
		}
	}
	if pkg == nil {
		p, err := h.imp.Import(path)
		if err != nil {
			return nil, false
		}
		pkg = p
	}
	obj := pkg.Scope().Lookup(name)
	if obj == nil {
		return nil, false
	}
	return obj.Type(), true
}

func findtypeMode(enc *json.Encoder, targets []*target, seed int64, nscripts, nburst int) {
	fset := targets[0].t.Fset
	oracle := &hostOracle{imp: importer.ForCompiler(fset, "source", nil), targets: targets}
	rng := rand.New(rand.NewSource(seed))
	// oracle table
	type oent struct {
		FQN  string `json:"fqn"`
		OK   bool   `json:"ok"`
		Type string `json:"type,omitempty"`
	}
	var otab []oent
	for _, f := range fqnPool {
		t, ok := oracle.lookup(f)
		e := oent{FQN: f, OK: ok}
		if ok {
			e.Type = t.String()
		}
		otab = append(otab, e)
	}
	// facts for the context-dependent oracle: import closure of every target package, importability of every path
	deps := map[string][]string{}
	for _, t := range targets {
		seen := map[string]bool{}
		var visit func(p *types.Package)
		visit = func(p *types.Package) {
			if seen[p.Path()] {
				return
			}
			seen[p.Path()] = true
			for _, q := range p.Imports() {
				visit(q)
			}
		}
		visit(t.t.Pkg)
		for p := range seen {
			deps[t.name] = append(deps[t.name], p)
		}
		sort.Strings(deps[t.name])
	}
	importable := map[string]bool{}
	probeImp := oracle.imp // the host's source importer (same mechanism as the engine's, already warm)
	for _, f := range fqnPool {
		if pos := strings.LastIndexByte(f, '.'); pos >= 0 {
			path := f[:pos]
			if _, done := importable[path]; !done {
				_, err := probeImp.Import(path)
				importable[path] = err == nil
			}
		}
	}
	var tnames []string
	for _, t := range targets {
		tnames = append(tnames, t.name)
	}
	// the dependency branch, per calling package: what the name denotes among ITS dependencies
	deptab := map[string]map[string]interface{}{}
	for i, t := range targets {
		row := map[string]interface{}{}
		for _, f := range fqnPool {
			if typ, in := closureLookup(t.t.Pkg, f); in {
				if typ != nil {
					row[f] = typeLabel(typ)
				} else {
					row[f] = nil
				}
			}
		}
		deptab[strconv.Itoa(i)] = row
	}
	enc.Encode(map[string]interface{}{"k": "oracle", "table": otab, "deps": deps, "importable": importable, "targets": tnames, "deptab": deptab})
	// engine-level probe: a lone run on a fresh engine vs. the same run after another file warmed the type cache
	{
		byName := map[string]*target{}
		for _, t := range targets {
			byName[t.name] = t
		}
		e1, err1 := loadEngine(probeRuleSet, fset)
		e2, err2 := loadEngine(probeRuleSet, fset)
		if err1 != nil || err2 != nil {
			enc.Encode(map[string]interface{}{"k": "error", "what": fmt.Sprint("probe load: ", err1, err2)})
		} else {
			lone := runOnce(e1, byName["pc"].t, nil, nil)
			warmer := runOnce(e2, byName["pb"].t, nil, nil)
			after := runOnce(e2, byName["pc"].t, nil, nil)
			enc.Encode(map[string]interface{}{"k": "probe", "ruleset": probeRuleSet.name, "file": "pc", "warmed_by": "pb", "fqn": "c08/pb.named",
				"lone": lone, "after_warm": after, "warmer_reports": len(warmer.Reports), "warmer_panic": warmer.Panic})
		}
	}
	apply := func(e *ruleguard.Engine, op ftOp) ftRes {
		var pkg *types.Package
		if op.Pkg >= 0 {
			pkg = targets[op.Pkg].t.Pkg
		}
		typ, err := ruleguard.VerifFindType(e, fset, pkg, op.FQN)
		progress.Add(1)
		if err != nil {
			return ftRes{Err: err.Error()}
		}
		r := ftRes{OK: true, Type: typeLabel(typ)}
		if ct, in := closureLookup(pkg, op.FQN); in {
			// resolved among the dependencies of the calling package: that very type object -- or, after a hit in the
			// engine-wide cache, the importer's object for the same type (which variant of an in-memory dependency
			// an answer comes from is in its label)
			r.SameAsHost = ct != nil && typ != nil && (types.Identical(typ, ct) || ruleguard.VerifXtypesIdentical(typ, ct))
		} else if ht, ok := oracle.lookup(op.FQN); ok && typ != nil {
			r.SameAsHost = ruleguard.VerifXtypesIdentical(typ, ht)
		}
		return r
	}
	genScript := func(n int) []ftOp {
		ops := make([]ftOp, n)
		hot := fqnPool[rng.Intn(len(fqnPool))]
		for i := range ops {
			f := fqnPool[rng.Intn(len(fqnPool))]
			if rng.Intn(4) == 0 {
				f = hot
			}
			ops[i] = ftOp{Pkg: rng.Intn(len(targets)+1) - 1, FQN: f}
		}
		return ops
	}
	rs := ruleSets[1]
	// sequential scripts: independent engines, a few of them side by side (each script itself is strictly sequential)
	scriptsSeq := make([][]ftOp, nscripts)
	for s := range scriptsSeq {
		scriptsSeq[s] = genScript(6 + rng.Intn(10))
	}
	lenc := &lockedEnc{enc: enc}
	sem := make(chan struct{}, 4)
	var swg sync.WaitGroup
	for s := 0; s < nscripts; s++ {
		swg.Add(1)
		sem <- struct{}{}
		go func(s int) {
			defer swg.Done()
			defer func() { <-sem }()
			e, err := loadEngine(rs, fset)
			if err != nil {
				lenc.Encode(map[string]interface{}{"k": "error", "what": err.Error()})
				return
			}
			k0, t0 := ruleguard.VerifTypeCache(e)
			script := scriptsSeq[s]
			res := make([]ftRes, len(script))
			for i, op := range script {
				res[i] = apply(e, op)
			}
			k1, t1 := ruleguard.VerifTypeCache(e)
			lenc.Encode(map[string]interface{}{"k": "seq", "id": s, "script": script, "results": res,
				"cache0": map[string]interface{}{"keys": k0, "types": t0}, "cache1": map[string]interface{}{"keys": k1, "types": t1}})
		}(s)
	}
	swg.Wait()
	for b := 0; b < nburst; b++ {
		e, err := loadEngine(rs, fset)
		if err != nil {
			return
		}
		k0, t0 := ruleguard.VerifTypeCache(e)
		n := []int{2, 4, 16}[b%3]
		scripts := make([][]ftOp, n)
		results := make([][]ftRes, n)
		for g := range scripts {
			scripts[g] = genScript(4 + rng.Intn(6))
			results[g] = make([]ftRes, len(scripts[g]))
		}
		var wg sync.WaitGroup
		start := make(chan struct{})
		for g := 0; g < n; g++ {
			wg.Add(1)
			go func(g int) {
				defer wg.Done()
				<-start
				for i, op := range scripts[g] {
					results[g][i] = apply(e, op)
					if (i+g)%3 == 0 {
						runtime.Gosched()
					}
				}
			}(g)
		}
		close(start)
		wg.Wait()
		k1, t1 := ruleguard.VerifTypeCache(e)
		enc.Encode(map[string]interface{}{"k": "burst", "id": b, "n": n, "scripts": scripts, "results": results,
			"cache0": map[string]interface{}{"keys": k0, "types": t0}, "cache1": map[string]interface{}{"keys": k1, "types": t1}})
	}
}

func parseInts(s string) []int {
	var out []int
	for _, p := range strings.Split(s, ",") {
		if p = strings.TrimSpace(p); p != "" {
			v, err := strconv.Atoi(p)
			if err == nil {
				out = append(out, v)
			}
		}
	}
	return out
}

func main() {
	mode := flag.String("mode", "explore", "explore | findtype")
	seed := flag.Int64("seed", 1, "seed")
	budget := flag.Float64("budget", 15, "exploration budget in seconds (at least one round per N is always run)")
	nsFlag := flag.String("ns", "2,4,16", "goroutine counts")
	setsFlag := flag.String("rulesets", "", "rule set indices (empty: all)")
	tmp := flag.String("tmp", "", "scratch directory for the target files")
	scale := flag.Int("scale", 6, "functions per target file")
	perG := flag.Int("perg", 0, "files per goroutine (0 = all)")
	fresh := flag.Bool("fresh", false, "also compute a lone baseline on a fresh engine per (rule set, file)")
	order := flag.String("order", "fwd", "lone: fwd | rev")
	nscripts := flag.Int("scripts", 12, "findtype: sequential scripts")
	nburst := flag.Int("bursts", 6, "findtype: concurrent bursts")
	flag.Parse()
	if *tmp == "" {
		d, err := os.MkdirTemp("", "c08")
		if err != nil {
			panic(err)
		}
		*tmp = d
	}
	enc := json.NewEncoder(os.Stdout)
	// watchdog: a set of calls that makes no progress for a long time is reported with the goroutine dump
	go func() {
		last := progress.Load()
		idle := 0
		for {
			time.Sleep(5 * time.Second)
			if cur := progress.Load(); cur != last {
				last, idle = cur, 0
				continue
			}
			idle++
			if idle >= 24 {
				buf := make([]byte, 1<<20)
				n := runtime.Stack(buf, true)
				fmt.Printf("c08 watchdog: no call returned for %d s; goroutines:\n%s\n", idle*5, buf[:n])
				os.Exit(3)
			}
		}
	}()
	targets, err := checkTargets(*tmp, *scale)
	if err != nil {
		enc.Encode(map[string]interface{}{"k": "error", "what": err.Error()})
		os.Exit(1)
	}
	switch *mode {
	case "explore":
		sets := parseInts(*setsFlag)
		if len(sets) == 0 {
			for i := range ruleSets {
				sets = append(sets, i)
			}
		}
		all := append(append(append([]*target(nil), targets...), zooTargets...), memTargets...)
		cov := map[string]interface{}{"k": "natives", "bound": nativesOut.bound, "covered": nativesOut.covered, "uncovered": nativesOut.uncovered,
			"helpers": nativesOut.helpers, "do_rules": nativesOut.nDo, "filter_rules": nativesOut.nFlt}
		enc.Encode(cov)
		explore(enc, all, sets, parseInts(*nsFlag), *seed, time.Duration(*budget*float64(time.Second)), *perG, *fresh)
	case "lone":
		// lone Runs in a process of their own: every file of the quickly loading rule sets once, on a fresh engine where the
		// set allows it, in the given order. Two such processes (forward / reverse) and the exploring process must agree.
		all := append(append(append([]*target(nil), targets...), zooTargets...), memTargets...)
		if *order == "rev" {
			for i, j := 0, len(all)-1; i < j; i, j = i+1, j-1 {
				all[i], all[j] = all[j], all[i]
			}
		}
		fset := all[0].t.Fset
		for _, rs := range ruleSets {
			if !rs.firstTouch {
				continue
			}
			shared, err := loadEngine(rs, fset)
			if err != nil {
				enc.Encode(map[string]interface{}{"k": "error", "what": "load " + rs.name + ": " + err.Error()})
				continue
			}
			for _, t := range all {
				if rs.only != "" && !strings.HasPrefix(t.name, rs.only) {
					continue
				}
				e := shared
				if rs.freshBase {
					if e, err = loadEngine(rs, fset); err != nil {
						enc.Encode(map[string]interface{}{"k": "error", "what": "load " + rs.name + ": " + err.Error()})
						break
					}
				}
				enc.Encode(map[string]interface{}{"k": "lone", "ruleset": rs.name, "file": t.name, "order": *order, "res": runOnce(e, t.t, nil, nil)})
			}
		}
	case "natives-src":
		fmt.Println(nativesOut.rules)
		fmt.Println("// ---------------- natives-std")
		fmt.Println(nativesOut.rulesStd)
		for _, t := range memTargets {
			fmt.Printf("// ---------------- %s (%s)\n%s\n", t.name, t.t.Path, t.t.Src)
		}
		return
	case "findtype":
		findtypeMode(enc, append(append([]*target(nil), targets...), memTargets...), *seed, *nscripts, *nburst)
	}
	enc.Encode(map[string]interface{}{"k": "done", "gomaxprocs": runtime.GOMAXPROCS(0)})
}
