// In-memory targets: packages that are parsed from strings (the file named in their positions does not exist, or holds
// only the beginning of the text), and whose dependencies are in-memory packages too -- three VARIANTS of
// example.com/c08dep (and of example.com/c08mid, which imports it) that share the import path and disagree about what the
// names in it denote (two versions of a module in one workspace, a package and its test variant, two build
// configurations). Two target packages per variant: one imports the dependency directly (no file on disk, and the three
// of them are parsed under ONE file name), one reaches it through c08mid only (and has a stale copy on disk: the first
// part of its text).
//
// What this exercises: everything the runner does when the source text cannot be sliced from the file on disk (the
// go/printer fallback of nodeText, for messages / Text filters / Do handlers), and everything that resolves a name
// relative to the package being checked (GetType / GetInterface -> FindType -> findDependency): an answer is an answer
// for ONE package, whatever another run found for the same name a moment ago.
package main

import (
	"fmt"
	"go/ast"
	"go/parser"
	"go/token"
	"go/types"
	"os"
	"path/filepath"
	"strings"

	"verif/harness/internal/hutil"
)

const memVariants = 3

var memDepSources = []string{
	`package c08dep

type Handler interface{ Serve() }

type Conf struct {
	Name string
	N    int
}

type Level int

// the same names carry different method sets in the variants
func (Level) Error() string { return "level" }
func (Conf) String() string { return "conf" }

func NewConf() Conf { return Conf{} }

var Default Handler
var Floor Level
`,
	`package c08dep

type Handler interface{ Work() }

type Conf struct {
	A, B, C int
	S       string
}

type Level string

func NewConf() Conf { return Conf{} }

var Default Handler
var Floor Level
`,
	`package c08dep

type Handler interface {
	Serve()
	Close()
}

type Conf struct{ P *int }

type Level float64

func (l *Level) Error() string { return "level" }

func NewConf() Conf { return Conf{} }

var Default Handler
var Floor Level
`,
}

// the same text for every variant; type-checked against that variant's c08dep
const memMidSource = `package c08mid

import dep "example.com/c08dep"

type Sink interface{ Put(dep.Conf) }

type Wrap struct {
	H dep.Handler
	C dep.Conf
	L []dep.Level
}

func NewConf() dep.Conf { return dep.NewConf() }

var DefaultHandler dep.Handler
var DefaultLevel dep.Level
var Levels []dep.Level
`

// a dependency that SHADOWS a package the engine's importer can resolve as well (another version of it): the package that
// depends on it gets its own version, whatever the engine has cached for packages that do not
const memShadowPath = "container/ring"

const memShadowSource = `package ring

type Ring struct{ X, Y, Z int }

func New(n int) *Ring { return &Ring{X: n} }
`

const memShadowTarget = `package mtsh

import ring "container/ring"

var (
	vRing  ring.Ring
	vPRing = ring.New(3)
	vInt   int
	vStr   string
)

func mvring1(interface{}) {}
func mvring2(interface{}) {}
func mvdo(interface{})    {}

func shadows() {
	mvring1(vRing)
	mvring1(vPRing)
	mvring1(vInt)
	mvring2(vRing)
	mvring2(vStr)
	mvdo(vRing)
	mvdo(vPRing)
}
`

type memImporter struct {
	mem  map[string]*types.Package
	next types.Importer
}

func (m memImporter) Import(path string) (*types.Package, error) {
	if p, ok := m.mem[path]; ok {
		return p, nil
	}
	return m.next.Import(path)
}

// memTargets: the in-memory targets; memPkgVariant: which variant an in-memory dependency package belongs to
var memTargets []*target

// memStale: the targets that have a stale copy on disk
var memStale = map[string]bool{}
var memPkgVariant = map[*types.Package]int{}

func memCheck(fset *token.FileSet, imp types.Importer, pkgPath, filename, src string) (*types.Package, *ast.File, *types.Info, error) {
	f, err := parser.ParseFile(fset, filename, src, parser.ParseComments)
	if err != nil {
		return nil, nil, nil, err
	}
	info := hutil.NewInfo()
	conf := types.Config{Importer: imp}
	pkg, err := conf.Check(pkgPath, fset, []*ast.File{f}, info)
	if err != nil {
		return nil, nil, nil, fmt.Errorf("typecheck %s: %v", pkgPath, err)
	}
	return pkg, f, info, nil
}

var memLocalValues = []string{"vServer", "vWorker", "vCloser", "vPServer", "vSink", "vConf", "vHandler", "vLevel", "vLevels", "vPConf", "vPLevel"}

// mvuse1 .. mvuse<memUses>: the sinks of the hand-written rules on the dependency's names (natives.go, nvDepRules)
const memUses = 9

// memTargetSource: target k ("a": imports c08dep, "b": imports c08mid only) of variant v; nDo / nFlt: how many nd(i, x) /
// nf(i, x) rules the natives file has
func memTargetSource(v int, k string, nDo, nFlt int) string {
	pkg := fmt.Sprintf("mt%d%s", v, k)
	decls := zooDeclsSource(pkg, false)
	var imp, vals string
	if k == "a" {
		imp = "\tdep \"" + memDepPath + "\"\n\tmid \"" + memMidPath + "\"\n"
		vals = "var (\n\tvConf    = dep.NewConf()\n\tvHandler = dep.Default\n\tvLevel   = dep.Floor\n\tvLevels  []dep.Level\n\tvPConf   *dep.Conf\n\tvPLevel  = &vLevel\n\tvWrap    mid.Wrap\n)\n\nfunc (sink) Put(dep.Conf) {}\n"
	} else {
		imp = "\tmid \"" + memMidPath + "\"\n"
		vals = "var (\n\tvConf    = mid.NewConf()\n\tvHandler = mid.DefaultHandler\n\tvLevel   = mid.DefaultLevel\n\tvLevels  = mid.Levels\n\tvPConf   = &vConf\n\tvPLevel  = &vLevel\n\tvWrap    mid.Wrap\n)\n\nfunc (sink) Put(int) {}\n"
	}
	decls = strings.Replace(decls, "\t\"unsafe\"\n)", "\t\"unsafe\"\n\n"+imp+")", 1)
	var b strings.Builder
	b.WriteString(decls)
	b.WriteString(`
type server struct{}

func (server) Serve() {}

type worker struct{ n int }

func (worker) Work() {}

type closer struct{ a, b string }

func (closer) Serve() {}
func (closer) Close() {}

type pserver struct{ k *int }

func (*pserver) Serve() {}
func (*pserver) Work()  {}

type sink struct{}

var (
	vServer  server
	vWorker  worker
	vCloser  closer
	vPServer pserver
	vSink    sink
)

`)
	b.WriteString(vals)
	b.WriteString("\nfunc nd(int, interface{}) {}\nfunc nf(int, interface{}) {}\nfunc mvdo(interface{})   {}\n")
	for i := 1; i <= memUses; i++ {
		fmt.Fprintf(&b, "func mvuse%d(interface{}) {}\n", i)
	}
	b.WriteString("func miduse1(interface{}) {}\nfunc miduse2(interface{}) {}\n")
	// the values every rule sees: the zoo's and the dependency-typed ones, rotated differently in every target
	all := append(append([]string(nil), memLocalValues...), zooValues...)
	rot := v*2 + map[string]int{"a": 0, "b": 1}[k]
	fmt.Fprintf(&b, "\n// FIXME(%s): in-memory target %s, hack %d\nfunc natives%d%s() {\n", []string{"alice", "zoe", "bob"}[v], pkg, v, v, k)
	for i := 0; i < nDo; i++ {
		for j := 0; j < 2; j++ {
			fmt.Fprintf(&b, "\tnd(%d, %s)\n", i, all[(i*7+j*11+rot*5)%len(all)])
		}
	}
	for i := 0; i < nFlt; i++ {
		for j := 0; j < 2; j++ {
			fmt.Fprintf(&b, "\tnf(%d, %s)\n", i, all[(i*5+j*13+rot*3+1)%len(all)])
		}
	}
	b.WriteString("}\n")
	b.WriteString("func mvring1(interface{}) {}\nfunc mvring2(interface{}) {}\n")
	fmt.Fprintf(&b, "\nfunc deps%d%s() { // nolint\n", v, k)
	// names of a package these targets do not depend on: the engine's importer answers (and the answer is cached)
	b.WriteString("\tmvring1(vInt)\n\tmvring1(vConf)\n\tmvring2(vLevel)\n")
	for i := 1; i <= memUses; i++ {
		for j, val := range memLocalValues {
			if (i+j+rot)%3 != 0 || j < 5 {
				fmt.Fprintf(&b, "\tmvuse%d(%s)\n", i, val)
			}
		}
		fmt.Fprintf(&b, "\tmvuse%d(%s)\n", i, zooValues[(i*9+rot)%len(zooValues)])
	}
	for _, val := range all {
		fmt.Fprintf(&b, "\tmvdo(%s)\n", val)
	}
	// text that go/printer would write differently: whether a node's text was sliced from the file or printed shows
	b.WriteString("\tmvdo(vInt+1)\n\tmvdo(vStr+\"x\")\n\tq05(vInt+2)\n\tpair(vInt+3, vStr)\n\tname(\"alpha\"+\"z\")\n")
	for _, val := range append([]string{"vWrap"}, memLocalValues...) {
		fmt.Fprintf(&b, "\tmiduse1(%s)\n\tmiduse2(%s)\n", val, val)
	}
	b.WriteString("}\n")
	// a reduced zoo body: the Load-time rule sets (type patterns, text matchers, Contains, comment rules, Do) see
	// in-memory text too
	b.WriteString(zooBody(v+rot%2, -5))
	// small declarations with and without doc comments (decls.go): behind the cut of the stale copies, so printed everywhere
	b.WriteString(memDocDecls(v, k))
	return b.String()
}

func checkMemTargets(dir string, fset *token.FileSet, std types.Importer, nDo, nFlt int) error {
	for v := 0; v < memVariants; v++ {
		dep, _, _, err := memCheck(fset, std, memDepPath, fmt.Sprintf("c08mem/v%d/c08dep.go", v), memDepSources[v])
		if err != nil {
			return err
		}
		mid, _, _, err := memCheck(fset, memImporter{map[string]*types.Package{memDepPath: dep}, std}, memMidPath, fmt.Sprintf("c08mem/v%d/c08mid.go", v), memMidSource)
		if err != nil {
			return err
		}
		memPkgVariant[dep] = v
		memPkgVariant[mid] = v
		for _, k := range []string{"a", "b"} {
			name := fmt.Sprintf("mt%d%s", v, k)
			src := memTargetSource(v, k, nDo, nFlt)
			path := filepath.Join(dir, "mem", name, name+".go")
			if k == "a" {
				// no file at all, and ONE file name for the three of them (editor buffers / generated files handed in
				// under a relative name): what belongs to a file is not what belongs to a file NAME
				path = filepath.Join(dir, "mem", "buffer", "input.go")
			}
			if k == "b" {
				// a stale copy on disk: the text up to the second function body (what an editor buffer looks like next to the
				// saved file); nodes inside it are sliced from the file, the others go through the printer
				cut := strings.Index(src, "\nfunc deps")
				if cut < 0 {
					return fmt.Errorf("mem target %s: no cut point", name)
				}
				if err := os.MkdirAll(filepath.Dir(path), 0o755); err != nil {
					return err
				}
				if err := os.WriteFile(path, []byte(src[:cut+1]), 0o644); err != nil {
					return err
				}
				memStale[name] = true
			}
			imp := memImporter{map[string]*types.Package{memDepPath: dep, memMidPath: mid}, std}
			pkg, f, info, err := memCheck(fset, imp, "c08/"+name, path, src)
			if err != nil {
				return err
			}
			memTargets = append(memTargets, &target{name, &hutil.Target{Fset: fset, File: f, Info: info, Pkg: pkg, Src: []byte(src), Path: path}})
		}
	}
	// the shadowing dependency and the one package that depends on it
	ring, _, _, err := memCheck(fset, std, memShadowPath, "c08mem/shadow/ring.go", memShadowSource)
	if err != nil {
		return err
	}
	memPkgVariant[ring] = 9
	path := filepath.Join(dir, "mem", "mtsh", "mtsh.go")
	pkg, f, info, err := memCheck(fset, memImporter{map[string]*types.Package{memShadowPath: ring}, std}, "c08/mtsh", path, memShadowTarget)
	if err != nil {
		return err
	}
	memTargets = append(memTargets, &target{"mtsh", &hutil.Target{Fset: fset, File: f, Info: info, Pkg: pkg, Src: []byte(memShadowTarget), Path: path}})
	return nil
}
