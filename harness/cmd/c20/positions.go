package main

// Type-pattern POSITIONS: a qualified name in every syntactic position of a type pattern.
//
// typematch.parseExpr resolves `pkg.T` at the leaves (ImportsTab.Lookup) and every enclosing type constructor has to pass an
// unresolvable leaf upwards (nil -> "can't convert ... type expression" -> load error). The positions are generated from
// WRAPPERS -- one per child of every go/ast type node that parseExpr descends into: pointer, slice, array, map key, map
// element, channel (three directions), function parameter / result (alone and among others), struct field (alone and among
// others), parentheses; and maps whose other half is a qualified name that does resolve -- composed to depth 3.
//
//   - positions that must LOAD (posShapes; fixed list): the name is bound; the rule is probed with values whose types are the
//     same shape over every member of the name's family (a/foo, b/foo, c20/lib/foo), and must report exactly those that
//     go/types (types.Eval of the shape over the package the name documentedly means) finds identical;
//   - positions that must NOT load (posFailFiles): the name is bound by nothing, by ANOTHER group of the file, by a group that
//     GroupFilter skips, or the group imports something else; every such file has one offending group and gets engines of its
//     own, so that a load error (or its absence, and then what Run does) is attributable;
//   - the parser alone (posParseSweep): typematch.Parse is called directly on EVERY composition of wrappers up to depth 3,
//     under a table that binds the name and under one that does not.

import (
	"fmt"
	"go/ast"
	"go/parser"
	"go/token"
	"go/types"
	"math/rand"
	"reflect"
	"sort"
	"strings"

	"github.com/quasilyte/go-ruleguard/ruleguard/typematch"
)

type posWrap struct {
	id   string
	f    string // `%s` = the inner type
	core bool   // composed with every other core wrapper at depth 2
	cmp  int    // comparability of the resulting Go type: 0 = never, 1 = always, 2 = as the inner type
}

var posWraps = []posWrap{
	{"ptr", "*%s", true, 1}, {"slice", "[]%s", true, 0}, {"arr", "[3]%s", true, 2}, {"mapK", "map[%s]int", true, 0},
	{"mapV", "map[string]%s", true, 0}, {"chan", "chan %s", true, 1}, {"funcP", "func(%s)", true, 0}, {"funcR", "func() %s", true, 0},
	{"structF", "struct{%s}", true, 2}, {"paren", "(%s)", true, 2},
	{"rchan", "<-chan %s", false, 1}, {"schan", "chan<- %s", false, 1}, {"funcP2", "func(int, %s) bool", false, 0},
	{"funcR2", "func(string) (int, %s)", false, 0}, {"structF2", "struct{int; %s; string}", false, 2},
	// maps whose other half is a qualified name that resolves (the standard library's io, unless the group rebinds it)
	{"mapKio", "map[%s]io.Reader", false, 0}, {"mapVio", "map[io.Writer]%s", false, 0},
}

func posCompose(ws ...posWrap) string {
	s := "%s"
	for i := len(ws) - 1; i >= 0; i-- {
		s = strings.Replace(ws[i].f, "%s", s, 1)
	}
	return s
}

func posIDs(ws ...posWrap) string {
	var ids []string
	for _, w := range ws {
		ids = append(ids, w.id)
	}
	return strings.Join(ids, ">")
}

// posShapes: the positions that are probed with typed values (all valid Go types over a comparable struct leaf): every
// wrapper alone, and nested combinations at depth 2 and 3
var posShapes = func() []string {
	var out []string
	for _, w := range posWraps {
		out = append(out, w.f)
	}
	return append(out,
		"[]map[string]*%s", "map[string][]%s", "map[[3]%s]bool", "*map[%s]string", "chan map[string]%s", "func(map[%s]int) error",
		"func() map[string]%s", "map[string]func(%s)", "map[string]struct{%s}", "[]func(int) []%s", "map[*%s]chan int", "struct{*%s}",
		"[](*%s)", "map[string]map[%s]bool", "map[string]map[int]%s", "*[]*%s", "[3][]chan %s", "func(int) (string, map[%s][]io.Reader)",
	)
}()

// the members of the family `foo` (the leaf packages of the typed probes) and of `io` (for the two-name shapes), by the
// alias the target file imports them under
var posLeafAliases = []string{"afoo", "bfoo", "lfoo"}
var posIOAliases = []string{"io", "fio"}

type qprobe struct {
	Name  string
	Type  string // Go type, in the target file's aliases
	Shape string
}

// qprobes: the typed probes; qprobesOf: shape -> indices; qprobesDepth: the depth-1 shapes over afoo.T (asked of every rule)
var qprobes, qprobesOf, qprobesDepth = func() ([]qprobe, map[string][]int, []int) {
	var qs []qprobe
	of := map[string][]int{}
	var d1 []int
	for si, sh := range posShapes {
		ios := []string{""}
		if strings.Contains(sh, "io.") {
			ios = posIOAliases
		}
		for _, ia := range ios {
			for _, la := range posLeafAliases {
				t := sh
				if ia != "" {
					t = strings.ReplaceAll(t, "io.", ia+".")
				}
				t = fmt.Sprintf(t, la+".T")
				of[sh] = append(of[sh], len(qs))
				if si < len(posWraps) && la == "afoo" && (ia == "" || ia == "io") {
					d1 = append(d1, len(qs))
				}
				qs = append(qs, qprobe{Name: fmt.Sprintf("q%03d", len(qs)), Type: t, Shape: sh})
			}
		}
	}
	return qs, of, d1
}()

// probesForWrap: the typed probes a rule whose type pattern has the shape `wrap` is asked about: the shape itself over every
// leaf, and every depth-1 shape over a/foo
func probesForWrap(wrap string) []int {
	seen := map[int]bool{}
	var out []int
	for _, i := range append(append([]int{}, qprobesOf[wrap]...), qprobesDepth...) {
		if !seen[i] {
			seen[i] = true
			out = append(out, i)
		}
	}
	sort.Ints(out)
	return out
}

func isShape(wrap string) bool { return strings.Contains(wrap, "%s") }

// patternOf: the type string of a type-pattern request
func (q reqT) patternOf() string {
	if isShape(q.Wrap) {
		return fmt.Sprintf(q.Wrap, q.Pkg+"."+q.Name)
	}
	return q.Wrap + q.Pkg + "." + q.Name
}

// qualifiedNames: every `pkg.T` of a type string, in source order (go/parser on the string; the harness' own reading)
func qualifiedNames(pattern string) [][2]string {
	e, err := parser.ParseExpr(pattern)
	if err != nil {
		return nil
	}
	var out [][2]string
	ast.Inspect(e, func(n ast.Node) bool {
		if sel, ok := n.(*ast.SelectorExpr); ok {
			if id, ok := sel.X.(*ast.Ident); ok {
				out = append(out, [2]string{id.Name, sel.Sel.Name})
			}
			return false
		}
		return true
	})
	return out
}

// shapePattern: the type string of a shape whose qualified names (in source order) have the given type names; the package
// names are placeholders (evalShape replaces them)
func shapePattern(wrap string, names []string) string {
	idx := 0
	for i, qn := range qualifiedNames(fmt.Sprintf(wrap, "zzplaceholder.T")) {
		if qn[0] == "zzplaceholder" {
			idx = i
		}
	}
	if idx >= len(names) {
		return ""
	}
	return fmt.Sprintf(wrap, "pkg."+names[idx])
}

// evalShape: the Go type a shape denotes once every qualified name is replaced by (the target file's alias of) the package
// it documentedly means; nil when one of those packages is not imported by the target file (nothing there can have the type)
func (o *oracle) evalShape(pattern string, paths []string) types.Type {
	e, err := parser.ParseExpr(pattern)
	if err != nil {
		return nil
	}
	k, ok := 0, true
	ast.Inspect(e, func(n ast.Node) bool {
		if sel, isSel := n.(*ast.SelectorExpr); isSel {
			if id, isID := sel.X.(*ast.Ident); isID {
				if k >= len(paths) {
					ok = false
				} else if al, has := o.aliases[paths[k]]; has {
					id.Name = al
				} else {
					ok = false
				}
				k++
			}
			return false
		}
		return true
	})
	if !ok || k != len(paths) {
		return nil
	}
	tv, err := types.Eval(o.u.Fset, o.tpkg, o.tpos, types.ExprString(e))
	if err != nil || !tv.IsType() {
		return nil
	}
	return tv.Type
}

// ---- files that must not load

type posFail struct {
	shape   string
	ids     string
	variant int
}

// posFailShapes: every wrapper alone, every ordered pair of core wrappers, and n seeded triples over all wrappers -- only
// shapes that typematch accepts once the name is bound (checked by posParseSweep's control)
func posFailShapes(r *rand.Rand, ntriples int, parses func(string) bool) []posFail {
	var out []posFail
	add := func(ws ...posWrap) {
		sh := posCompose(ws...)
		if parses(sh) {
			out = append(out, posFail{shape: sh, ids: posIDs(ws...), variant: len(out) % 6})
		}
	}
	for _, w := range posWraps {
		add(w)
	}
	// the constructors that type constraints (ConvertibleTo / AssignableTo) know: each of them with variant 5
	for _, w := range posWraps {
		switch w.id {
		case "ptr", "slice", "arr", "mapK", "mapV", "paren":
			if parses(w.f) {
				out = append(out, posFail{shape: w.f, ids: w.id, variant: 5})
			}
		}
	}
	for _, a := range posWraps {
		for _, b := range posWraps {
			if a.core && b.core {
				add(a, b)
			}
		}
	}
	for n := 0; n < ntriples; n++ {
		add(posWraps[r.Intn(len(posWraps))], posWraps[r.Intn(len(posWraps))], posWraps[r.Intn(len(posWraps))])
	}
	return out
}

// posFailScenario: a file whose only unresolvable qualified name sits at the given position
func posFailScenario(pf posFail, k int) scenario {
	op := []string{"is", "uis", "sink"}[k%3]
	bad := func(pkg string) reqT { return reqT{Op: op, Kind: "typepat", Wrap: pf.shape, Pkg: pkg, Name: "T"} }
	good := reqT{Op: "is", Kind: "typepat", Wrap: pf.shape, Pkg: "foo", Name: "T"}
	afoo, bfoo := "example.com/a/foo", "example.com/b/foo"
	var sc scenario
	switch pf.variant {
	case 0: // bound by nothing
		sc.Groups = []groupT{{Reqs: []reqT{bad("nosuchpkg")}}}
	case 1: // bound by ANOTHER group of the file only (which comes first and loads)
		sc.Groups = []groupT{{Imports: []string{afoo}, Reqs: []reqT{good}}, {Reqs: []reqT{bad("foo")}}}
	case 2: // bound by a group that GroupFilter skips
		sc.Groups = []groupT{{Skip: true, Imports: []string{bfoo}, Reqs: []reqT{good}}, {Reqs: []reqT{bad("foo")}}}
	case 3: // the group imports something else
		sc.Groups = []groupT{{Imports: []string{"example.com/io", "example.com/c20/lib"}, Reqs: []reqT{bad("foo")}}}
	case 4: // a misspelt std name next to rules that resolve
		sc.Groups = []groupT{{Imports: []string{afoo}, Reqs: []reqT{good, bad("bytez"), good}}}
	default:
		// ConvertibleTo / AssignableTo take a type string as well, but resolve no qualified names at all ("can't convert ... into a
		// type constraint yet"): even a name the group binds is a load error there, in every position, never a filter that is
		// silently false
		cop := []string{"conv", "asgn"}[k%2]
		sc.Groups = []groupT{{Imports: []string{afoo}, Reqs: []reqT{good, {Op: cop, Kind: "typeconstr", Wrap: pf.shape, Pkg: "foo", Name: "T"}}}}
	}
	sc.Own = true
	sc.Position = pf.ids
	return sc
}

// ---- the parser alone, on every composition up to depth 3

type posParse struct {
	Shapes   int      `json:"shapes"`   // compositions tried
	Accepted int      `json:"accepted"` // ... that typematch.Parse accepts when the name is bound
	Bad      []string `json:"bad"`      // "<pattern> | <what>": accepted although the name is unbound (or Parse panicked)
	Skipped  []string `json:"skipped"`  // depth-1 shapes rejected even with the name bound (none expected)
	accepted map[string]bool
}

func posParseSweep() *posParse {
	pp := &posParse{accepted: map[string]bool{}}
	bound := typematch.NewImportsTab(map[string]string{"io": "io", "nosuchpkg": "example.com/nosuchpkg"})
	unbound := typematch.NewImportsTab(map[string]string{"io": "io"})
	try := func(itab *typematch.ImportsTab, s string) (ok bool, panicked string) {
		defer func() {
			if p := recover(); p != nil {
				panicked = fmt.Sprint(p)
			}
		}()
		_, err := typematch.Parse(&typematch.Context{Itab: itab}, s)
		return err == nil, ""
	}
	check := func(ws ...posWrap) {
		pp.Shapes++
		sh := posCompose(ws...)
		pat := fmt.Sprintf(sh, "nosuchpkg.T")
		ok, pn := try(bound, pat)
		if pn != "" {
			pp.Bad = append(pp.Bad, pat+" | Parse panics with the name bound: "+pn)
			return
		}
		if !ok {
			if len(ws) == 1 {
				pp.Skipped = append(pp.Skipped, pat)
			}
			return
		}
		pp.Accepted++
		pp.accepted[sh] = true
		ok, pn = try(unbound, pat)
		if pn != "" {
			pp.Bad = append(pp.Bad, pat+" | Parse panics with the name unbound: "+pn)
		} else if ok && len(pp.Bad) < 12 {
			pp.Bad = append(pp.Bad, pat+" | position "+posIDs(ws...)+": typematch.Parse succeeds under an import table that does not bind nosuchpkg")
		}
	}
	// the shallowest positions first
	for _, a := range posWraps {
		check(a)
	}
	for _, a := range posWraps {
		for _, b := range posWraps {
			check(a, b)
		}
	}
	for _, a := range posWraps {
		for _, b := range posWraps {
			for _, c := range posWraps {
				check(a, b, c)
			}
		}
	}
	return pp
}

var _ = token.NoPos

// astTypeFields: the ast.Expr (false) and *ast.FieldList (true) fields of the go/ast nodes typematch.parseExpr has clauses for,
// read off go/ast itself by reflection -- what the Coq model's `ast_sig` (the children a clause has to descend into) is
// compared with
func astTypeFields() map[string][][2]string {
	exprT := reflect.TypeOf((*ast.Expr)(nil)).Elem()
	listT := reflect.TypeOf((*ast.FieldList)(nil))
	out := map[string][][2]string{}
	for _, n := range []interface{}{ast.StarExpr{}, ast.ArrayType{}, ast.MapType{}, ast.ChanType{}, ast.ParenExpr{}, ast.FuncType{}, ast.StructType{},
		ast.InterfaceType{}, ast.Ident{}} {
		t := reflect.TypeOf(n)
		out[t.Name()] = [][2]string{}
		for i := 0; i < t.NumField(); i++ {
			switch t.Field(i).Type {
			case exprT:
				out[t.Name()] = append(out[t.Name()], [2]string{t.Field(i).Name, "false"})
			case listT:
				out[t.Name()] = append(out[t.Name()], [2]string{t.Field(i).Name, "true"})
			}
		}
	}
	return out
}

// posLoadScenario: the same position in groups that bind the name to different members of its family, through all three
// type-pattern filters; every rule must report exactly the typed probes of that shape over the member its group binds
func posLoadScenario(shape string, k int) scenario {
	req := func(op string) reqT { return reqT{Op: op, Kind: "typepat", Wrap: shape, Pkg: "foo", Name: "T"} }
	ops := []string{"is", "uis", "sink"}
	afoo, bfoo, lfoo, fio := "example.com/a/foo", "example.com/b/foo", "example.com/c20/lib/foo", "example.com/io"
	gs := []groupT{
		{Imports: []string{afoo}, Reqs: []reqT{req(ops[k%3])}},
		{Imports: []string{fio, bfoo}, Reqs: []reqT{req(ops[(k+1)%3])}}, // `io` means example.com/io here (the two-name shapes)
		{Imports: []string{bfoo, lfoo}, Reqs: []reqT{req(ops[(k+2)%3]), req("is")}},
	}
	if k%2 == 1 {
		gs[0], gs[2] = gs[2], gs[0]
	}
	return scenario{Groups: gs}
}

// isDottedFQN: the package path of a fully-qualified name has a dot after its first element
func isDottedFQN(fqn string) bool {
	i := strings.LastIndexByte(fqn, '.')
	if i < 0 {
		return false
	}
	p := fqn[:i]
	j := strings.IndexByte(p, '/')
	return j >= 0 && strings.Contains(p[j:], ".")
}
