package main

// The standard-library default table, recovered from the engine's behaviour.
//
// For EVERY base name that stdinfo knows (the keys of PathByName and every name of PackagesList) one rule asks
// Type.Is(`<name>.VerifT`) in a group without Import() calls, and is probed with one value per candidate package of that
// base name: every std package of PackagesList with that name, the documented default, and a third-party package with
// the same base name. The candidates are in-memory packages at exactly those import paths (a type pattern sees a named
// type through its package path and name only), each declaring `type VerifT struct{}`. The set of probes a rule reports
// IS the engine's table entry for the name; it must be the documented default stdinfo.PathByName[name] -- for a name
// shared by several std packages (rand, pprof, template, scanner) the more commonly imported one. A name that the
// documented table does not bind (rarely imported packages) is loaded as a file of its own: a load error, or -- "the
// standard-library package with that name" -- the one std package of that name; never anything else.
//
// This runs in a universe and an engine of its own: the in-memory packages shadow the real standard library.

import (
	"fmt"
	"go/token"
	"sort"
	"strings"

	"verif/harness/internal/gtypes"
	"verif/harness/internal/hutil"

	"github.com/quasilyte/go-ruleguard/ruleguard"
	"github.com/quasilyte/stdinfo"
)

type stdName struct {
	Name       string   `json:"name"`
	Documented string   `json:"documented"` // stdinfo.PathByName[name]; "" = not bound
	Candidates []string `json:"candidates"` // import paths probed
	StdPaths   []string `json:"std_paths"`  // the std packages with this base name (stdinfo.PackagesList)
	Reported   []string `json:"reported"`   // import paths whose probe the rule reported = what the engine binds the name to
	LoadErr    string   `json:"load_err"`   // unbound names: the error of their own file
	Rule       string   `json:"rule"`
}

type stdOut struct {
	Names    []stdName `json:"names"`
	LoadErr  string    `json:"load_err"` // the file with all bound names
	Rules    string    `json:"rules"`
	RunPanic string    `json:"run_panic"`
	// what the same sweep gives through VerifConvertAST + LoadFromIR
	ReportedIR map[string][]string `json:"reported_ir"`
	LoadErrIR  string              `json:"load_err_ir"`
}

func identOK(s string) bool { return token.IsIdentifier(s) }

func stdSweep() (*stdOut, error) {
	so := &stdOut{ReportedIR: map[string][]string{}}
	// names and candidates
	cands := map[string][]string{}
	add := func(name, p string) {
		for _, q := range cands[name] {
			if q == p {
				return
			}
		}
		cands[name] = append(cands[name], p)
	}
	for _, pk := range stdinfo.PackagesList {
		add(pk.Name, pk.Path)
	}
	for n, p := range stdDefaults {
		add(n, p)
	}
	var names []string
	for n := range cands {
		if identOK(n) && n != "unsafe" { // package unsafe cannot be given as source (and has one type, special-cased by the parser)
			names = append(names, n)
		}
	}
	sort.Strings(names)
	srcs := map[string]string{}
	var tb strings.Builder
	tb.WriteString("package stdtarget\n\nimport (\n")
	type cand struct{ name, path, alias, v string }
	var all []cand
	for ni, n := range names {
		add(n, "example.com/c20std/"+n) // a third-party package with the same base name is never a default
		sort.Strings(cands[n])
		for ci, p := range cands[n] {
			c := cand{n, p, fmt.Sprintf("i%d_%d", ni, ci), fmt.Sprintf("v%d_%d", ni, ci)}
			all = append(all, c)
			srcs[p] = fmt.Sprintf("package %s\n\ntype VerifT struct{}\n", n)
			fmt.Fprintf(&tb, "\t%s %q\n", c.alias, p)
		}
	}
	tb.WriteString(")\n\nvar (\n")
	for _, c := range all {
		fmt.Fprintf(&tb, "\t%s %s.VerifT\n", c.v, c.alias)
	}
	tb.WriteString(")\n")
	var bound strings.Builder
	bound.WriteString("package gorules\n\nimport \"github.com/quasilyte/go-ruleguard/dsl\"\n\nfunc stdsweep(m dsl.Matcher) {\n")
	idx := map[string]int{}
	for ni, n := range names {
		sn := stdName{Name: n, Documented: stdDefaults[n], Candidates: cands[n], Reported: []string{}, StdPaths: []string{}}
		for _, pk := range stdinfo.PackagesList {
			if pk.Name == n {
				sn.StdPaths = append(sn.StdPaths, pk.Path)
			}
		}
		sn.Rule = fmt.Sprintf("m.Match(`stdprobe_%d($x)`).Where(m[\"x\"].Type.Is(`%s.VerifT`)).Report(`std%d $x`)", ni, n, ni)
		fmt.Fprintf(&tb, "\nfunc stdprobe_%d(interface{}) {}\nfunc stduse_%d() {\n", ni, ni)
		for _, c := range all {
			if c.name == n {
				fmt.Fprintf(&tb, "\tstdprobe_%d(%s)\n", ni, c.v)
			}
		}
		tb.WriteString("}\n")
		if sn.Documented != "" {
			fmt.Fprintf(&bound, "\t%s\n", sn.Rule)
		}
		idx[n] = len(so.Names)
		so.Names = append(so.Names, sn)
	}
	bound.WriteString("}\n")
	so.Rules = bound.String()
	const tp = "example.com/c20/stdtarget"
	srcs[tp] = tb.String()
	u, err := gtypes.NewUniverse(3, srcs, nil)
	if err != nil {
		return nil, fmt.Errorf("std sweep universe: %v", err)
	}
	varPath := map[string]string{}
	for _, c := range all {
		varPath[c.v] = c.path
	}
	target := &hutil.Target{Fset: u.Fset, File: u.Files[tp], Info: u.Infos[tp], Pkg: u.Pkgs[tp], Src: []byte(srcs[tp]), Path: tp + "/src.go"}

	load := func(e *ruleguard.Engine, fname, rules string, viaIR bool) (msg string) {
		defer func() {
			if p := recover(); p != nil {
				msg = fmt.Sprintf("PANIC: %v", p)
			}
		}()
		lctx := &ruleguard.LoadContext{Fset: token.NewFileSet()}
		if viaIR {
			irf, err := ruleguard.VerifConvertAST(e, lctx, fname, []byte(rules))
			if err == nil {
				err = e.LoadFromIR(lctx, fname, irf)
			}
			if err != nil {
				return err.Error()
			}
			return ""
		}
		if err := e.Load(lctx, fname, strings.NewReader(rules)); err != nil {
			return err.Error()
		}
		return ""
	}
	collect := func(e *ruleguard.Engine) (map[string][]string, string) {
		reports, pmsg := hutil.Run(e, target, 0, "", nil)
		got := map[string][]string{}
		for _, rep := range reports {
			f := strings.Fields(rep.Message)
			if len(f) == 2 && strings.HasPrefix(f[0], "std") {
				var ni int
				fmt.Sscanf(f[0], "std%d", &ni)
				if ni >= 0 && ni < len(names) {
					got[names[ni]] = append(got[names[ni]], varPath[f[1]])
				}
			}
		}
		for _, v := range got {
			sort.Strings(v)
		}
		return got, pmsg
	}
	eng := ruleguard.NewEngine()
	so.LoadErr = load(eng, "stdsweep.go", so.Rules, false)
	// names the documented table does not bind: each in a file of its own, into the same engine
	for i := range so.Names {
		sn := &so.Names[i]
		if sn.Documented != "" {
			continue
		}
		rules := fmt.Sprintf("package gorules\n\nimport \"github.com/quasilyte/go-ruleguard/dsl\"\n\nfunc stdunbound_%s(m dsl.Matcher) {\n\t%s\n}\n", sn.Name, sn.Rule)
		sn.LoadErr = load(eng, "stdunbound_"+sn.Name+".go", rules, false)
	}
	got, pmsg := collect(eng)
	so.RunPanic = pmsg
	for n, v := range got {
		so.Names[idx[n]].Reported = v
	}
	engIR := ruleguard.NewEngine()
	so.LoadErrIR = load(engIR, "stdsweep.go", so.Rules, true)
	if so.LoadErrIR == "" {
		gotIR, p2 := collect(engIR)
		so.ReportedIR = gotIR
		if p2 != "" {
			so.RunPanic += " | IR engine: " + p2
		}
	}
	return so, nil
}
