// c20: observations for "qualified type names resolve through the documented import table".
//
// Scenarios = rules files with 1..3 groups; each group has its own Import() set (third-party packages whose base names
// collide with each other and with the standard library), may be skipped by GroupFilter, and has rules whose Where()
// uses a qualified name in Type.Is / Type.Underlying().Is / Implements / HasMethod. All scenarios are loaded into ONE
// engine (so that anything leaking between groups, files or through the engine-wide FQN cache shows), load errors are
// recorded per file, then the engine runs once over a target file with one probe per candidate type (stdlib, the fake
// packages, a vendored copy).
// Oracle (Go side, independent of the engine): the documented precedence Import() of the group > stdlib default > as
// written, then go/types on the target universe decides which probes satisfy the predicate.
// Output: one JSON object.
package main

import (
	"encoding/json"
	"flag"
	"fmt"
	"go/ast"
	"go/importer"
	"go/token"
	"go/types"
	"math/rand"
	"os"
	"path"
	"sort"
	"strings"
	"time"

	"verif/harness/internal/gtypes"
	"verif/harness/internal/hutil"

	"github.com/quasilyte/go-ruleguard/ruleguard"
	"github.com/quasilyte/stdinfo"
)

type reqT struct {
	Op   string `json:"op"`   // is, uis, sink, impl, hasm; conv, asgn
	Kind string `json:"kind"` // typepat, iqual, ifqn, funcref; typeconstr
	Wrap string `json:"wrap"` // typepat only: "", "*", "[]" (a prefix), or a shape with one `%s` where the name goes (positions.go)
	Pkg  string `json:"pkg"`  // package name as written (or the path for ifqn)
	Name string `json:"name"`
	Meth string `json:"meth"`
	// typepat: every qualified name of the type string in source order (the name above is one of them)
	QNames [][2]string `json:"qnames,omitempty"`
}

// customT: a rule whose filter is a custom function using ctx.GetType / ctx.GetInterface with a fully-qualified name
type customT struct {
	Call   string `json:"call"` // GetInterface or GetType
	FQN    string `json:"fqn"`
	Target string `json:"target"` // documented meaning: the name as written, whatever the group imports
}

type groupT struct {
	Name    string    `json:"name"`
	Skip    bool      `json:"skip"`
	Imports []string  `json:"imports"`
	Reqs    []reqT    `json:"reqs"`
	Custom  []customT `json:"custom"`
}

type scenario struct {
	ID int `json:"id"`
	// Bundle > 0: the file imports the static rule bundle example.com/c20bundle; Groups[:Bundle] are the bundle's groups
	// (loaded first, on the same import table), the rest are the file's own groups
	Bundle  int                 `json:"bundle"`
	Groups  []groupT            `json:"groups"`
	Rules   string              `json:"rules"`
	LoadErr string              `json:"load_err"`
	Obs     map[string][]string `json:"obs"` // rule id -> probes reported
	// the same file through VerifConvertAST + Engine.LoadFromIR into a second engine
	LoadErrIR string              `json:"load_err_ir"`
	ObsIR     map[string][]string `json:"obs_ir"`
	OFailed   bool                `json:"o_failed"` // oracle: the load must fail
	// oracle: the load must fail because a type pattern names something its package does not declare (or the package
	// cannot be imported); the engine's parser never looks into packages (recorded finding), so this is kept apart
	OUnknownTypeName string            `json:"o_unknown_type_name"`
	OTarget          map[string]string `json:"o_target"` // oracle: rule id -> key of the resolved target
	// Own: the file is loaded into engines of its own (Load and LoadFromIR) and, when it loads, run on its own probe functions
	// only -- whatever happens there (a load that should have failed, a panic inside Run) is this file's doing
	Own      bool   `json:"own,omitempty"`
	Position string `json:"position,omitempty"` // positions.go: where the unresolvable name sits
	OwnRun   string `json:"own_run,omitempty"`  // "" = not run / ran fine; else the panic message of Run
	OwnRunIR string `json:"own_run_ir,omitempty"`
	// oracle: the file loads (a custom filter's name is resolved when the filter runs) and Run must stop with the resolution
	// error -- ctx.GetType / ctx.GetInterface of a name that cannot be resolved panic (dsl documentation), they never answer
	ORunPanic string `json:"o_run_panic,omitempty"` // the unresolvable name
}

type worldEntry struct {
	Path    string   `json:"path"`
	Name    string   `json:"name"`
	Iface   bool     `json:"iface"`
	Methods []string `json:"methods"`
}

type out struct {
	Seed      int64                  `json:"seed"`
	Scenarios []scenario             `json:"scenarios"`
	Table     map[string][]string    `json:"table"` // "<op>|<wrap>|<resolved>" -> probes satisfying it (go/types on the target universe)
	World     []worldEntry           `json:"world"`
	Std       map[string]string      `json:"std"`
	Probes    []string               `json:"probes"`
	RunPanic  string                 `json:"run_panic"`
	StdSweep  *stdOut                `json:"std_sweep,omitempty"`
	StdTable  map[string]string      `json:"std_table"` // the whole documented table (stdinfo.PathByName, private copy)
	Scripts   []itabScript           `json:"scripts"`   // scripted histories of the import table itself
	ItabNames []string               `json:"itab_names"`
	ItabPaths []string               `json:"itab_paths"`
	QProbes   []string               `json:"qprobes"`    // the typed probes of the position shapes
	PosParse  *posParse              `json:"pos_parse"`  // typematch.Parse alone on every composition of wrappers
	FQNSweep  *fqnOut                `json:"fqn_sweep"`  // FindType alone on fully-qualified names with dots everywhere
	ASTFields map[string][][2]string `json:"ast_fields"` // go/ast by reflection: the type-valued fields of the nodes parseExpr handles
	Error     string                 `json:"error,omitempty"`
}

// ---- the universe of packages

var fakeDirs = map[string]string{
	"example.com/io":      "fake/c20io/io.go",
	"example.com/a/foo":   "fake/c20afoo/foo.go",
	"example.com/b/foo":   "fake/c20bfoo/foo.go",
	"example.com/c20/lib": "fake/c20lib/lib.go",
	// third packages named io / foo / template: groups that bind one base name two and three times
	"example.com/c20/lib/io":       "fake/c20lib/io/io.go",
	"example.com/c20/lib/foo":      "fake/c20lib/foo/foo.go",
	"example.com/c20/lib/template": "fake/c20lib/template/template.go",
	// import paths with dots in the last element (one of them a module of its own), in a middle element, twice in the last
	// element; and the package a wrongly cut `.../api.v2.T` may end up in
	"gopkg.in/yaml.v3":                 "fake/c20yaml/yaml.go",
	"example.com/c20/lib/check.v1":     "fake/c20lib/check.v1/check.go",
	"example.com/c20/lib/api.v2":       "fake/c20lib/api.v2/api.go",
	"example.com/c20/lib/api":          "fake/c20lib/api/api.go",
	"example.com/c20/lib/v1.2/plain":   "fake/c20lib/v1.2/plain/plain.go",
	"example.com/c20/lib/multi.dot.v2": "fake/c20lib/multi.dot.v2/multi.go",
	// packages named like the first label of a host name: `example.com/io.Reader`, `gopkg.in/yaml.v3.Marshaler` up to their FIRST dot
	"example.com/c20/lib/example": "fake/c20lib/example/example.go",
	"example.com/c20/lib/gopkg":   "fake/c20lib/gopkg/gopkg.go",
}

const vendoredLib = "example.com/c20app/vendor/example.com/c20/lib"

// in-memory copies of the fake packages at other import paths: exact vendored copies and near misses of
// "a vendored copy of a package is treated as the package itself"
var copyOf = map[string]string{
	vendoredLib: "example.com/c20/lib",
	// exact vendored copies of third-party packages whose paths END in the path of another package (stdlib io; foo)
	"example.com/c20app/vendor/example.com/io":    "example.com/io",
	"example.com/c20app/vendor/example.com/a/foo": "example.com/a/foo",
	// the path after /vendor/ merely ends in / starts with the package path; the same suffix without a vendor directory;
	// a directory whose name only contains "vendor"
	"example.com/c20app/vendor/mirror.org/example.com/c20/lib": "example.com/c20/lib",
	"mirror.org/example.com/c20/lib":                           "example.com/c20/lib",
	"example.com/c20app/vendor/example.com/c20/lib/v2":         "example.com/c20/lib",
	"example.com/c20app/xvendor/example.com/c20/lib":           "example.com/c20/lib",
}

const targetHeader = `package target

import (
	"bytes"
	htemplate "html/template"
	"io"
	ttemplate "text/template"

	afoo "example.com/a/foo"
	bfoo "example.com/b/foo"
	"example.com/c20/lib"
	vlib "example.com/c20app/vendor/example.com/c20/lib"
	fio "example.com/io"
	vio "example.com/c20app/vendor/example.com/io"
	vafoo "example.com/c20app/vendor/example.com/a/foo"
	vsuf "example.com/c20app/vendor/mirror.org/example.com/c20/lib"
	msuf "mirror.org/example.com/c20/lib"
	vpre "example.com/c20app/vendor/example.com/c20/lib/v2"
	xven "example.com/c20app/xvendor/example.com/c20/lib"
	lfoo "example.com/c20/lib/foo"
	lio "example.com/c20/lib/io"
	ltemplate "example.com/c20/lib/template"

	yaml3 "gopkg.in/yaml.v3"
	chk1 "example.com/c20/lib/check.v1"
	api2 "example.com/c20/lib/api.v2"
	apid "example.com/c20/lib/api"
	plain12 "example.com/c20/lib/v1.2/plain"
	multi2 "example.com/c20/lib/multi.dot.v2"
	lexample "example.com/c20/lib/example"
	lgopkg "example.com/c20/lib/gopkg"

	gscanner "go/scanner"
	mrand "math/rand"
	rpprof "runtime/pprof"
	tscanner "text/scanner"
)

`

// the typed probes every rule is asked about
var probeTypes = []string{
	"io.Reader", "io.Writer", "fio.Reader", "fio.Writer", "fio.Impl", "fio.OnlyFake", "afoo.T", "bfoo.T", "afoo.Impl", "bfoo.Impl",
	"*afoo.T", "[]bfoo.T", "ttemplate.Template", "htemplate.Template", "lib.T", "vlib.T", "lib.Impl", "vlib.Impl", "*bytes.Buffer",
	"afoo.OnlyA", "*ttemplate.Template", "*vlib.T", "io.StringWriter", "afoo.Iface", "bfoo.Iface",
	"vio.Reader", "vio.Writer", "vio.Impl", "vafoo.T", "*vafoo.T", "vafoo.Impl", "vsuf.T", "msuf.T", "vpre.T", "xven.T", "*vsuf.T", "[]msuf.T",
	"vsuf.Impl", "vio.OnlyFake",
	// the base names that several std packages share: rand, pprof, scanner (template is above)
	"*mrand.Rand", "mrand.Rand", "*rpprof.Profile", "gscanner.Scanner", "tscanner.Scanner", "*tscanner.Scanner", "mrand.Source",
	// the third packages named io / foo / template
	"lio.Reader", "lio.Impl", "lio.Writer", "lfoo.T", "*lfoo.T", "lfoo.Impl", "lfoo.Iface", "ltemplate.Template", "*ltemplate.Template", "*htemplate.Template",
	"*gscanner.Scanner",
	// packages whose import paths have dots beyond the host name
	"yaml3.Node", "*yaml3.Node", "yaml3.Impl", "chk1.C", "chk1.Impl", "api2.T", "api2.Impl", "apid.T", "apid.Impl", "plain12.T", "plain12.Impl",
	"multi2.T", "multi2.Impl",
	"lexample.Impl", "lgopkg.Impl",
}

var nProbes = len(probeTypes)

var targetSrc = func() string {
	var b strings.Builder
	b.WriteString(targetHeader)
	b.WriteString("var (\n")
	for i, t := range probeTypes {
		fmt.Fprintf(&b, "\tp%02d %s\n", i, t)
	}
	for _, q := range qprobes {
		fmt.Fprintf(&b, "\t%s %s\n", q.Name, q.Type)
	}
	b.WriteString(")\n\n")
	return b.String()
}()

// ---- menus

var importMenu = []string{"example.com/io", "example.com/a/foo", "example.com/b/foo", "html/template", "example.com/c20/lib", "text/template", "math/rand", "text/scanner",
	"example.com/c20/lib/io", "example.com/c20/lib/foo", "example.com/c20/lib/template", "go/scanner", "io",
	// Import() binds the LAST PATH ELEMENT (irconv: path.Base): `plain`, `api` -- and `api.v2`, `yaml.v3`, which no `pkg.T` can spell
	"example.com/c20/lib/v1.2/plain", "example.com/c20/lib/api", "example.com/c20/lib/api.v2", "gopkg.in/yaml.v3",
	// `example` / `gopkg`: what a fully-qualified `example.com/...` / `gopkg.in/...` name reads up to its first dot
	"example.com/c20/lib/example", "example.com/c20/lib/gopkg"}

// families of importable packages with one base name: a group may bind the name several times (the last Import() wins inside
// the group, and all of its bindings end with the group)
type family struct {
	name  string
	paths []string
	typ   string            // a type every member declares
	iface string            // an interface every member declares ("" = none)
	meth  map[string]string // member path -> a method of its iface
}

var families = []family{
	{"io", []string{"example.com/io", "io", "example.com/c20/lib/io"}, "Reader", "Reader",
		map[string]string{"example.com/io": "ReadFake", "io": "Read", "example.com/c20/lib/io": "ReadThird"}},
	{"foo", []string{"example.com/a/foo", "example.com/b/foo", "example.com/c20/lib/foo"}, "T", "Iface",
		map[string]string{"example.com/a/foo": "MA", "example.com/b/foo": "MB", "example.com/c20/lib/foo": "MC"}},
	{"template", []string{"html/template", "text/template", "example.com/c20/lib/template"}, "Template", "", nil},
	{"scanner", []string{"go/scanner", "text/scanner"}, "Scanner", "", nil},
}

// importSeqs: every sequence of 2 and of 3 Import() calls over the family's members that binds the name at least twice to
// different packages: all orders of all subsets, and (over the first two members) the sequences that repeat a package
func importSeqs(f family) [][]string {
	var out [][]string
	n := len(f.paths)
	for a := 0; a < n; a++ {
		for b := 0; b < n; b++ {
			if a != b {
				out = append(out, []string{f.paths[a], f.paths[b]})
			}
			for c := 0; c < n; c++ {
				distinct := a != b && b != c && a != c
				two := a < 2 && b < 2 && c < 2 && !(a == b && b == c)
				if distinct || two {
					out = append(out, []string{f.paths[a], f.paths[b], f.paths[c]})
				}
			}
		}
	}
	return out
}

// familyReqs: the requests a group makes about the family's name when the name means package `bound` there ("" = unbound)
func familyReqs(f family, bound string, k int) []reqT {
	op := []string{"is", "sink", "is", "uis"}[k%4]
	wrap := []string{"", "*", "[]", "*"}[k%4]
	if op == "uis" {
		op, wrap = "is", "" // the underlying type of a named type is never a named type of the family
	}
	reqs := []reqT{{Op: op, Kind: "typepat", Wrap: wrap, Pkg: f.name, Name: f.typ}}
	if f.iface != "" {
		reqs = append(reqs, reqT{Op: "impl", Kind: "iqual", Pkg: f.name, Name: f.iface})
		if m := f.meth[bound]; m != "" {
			reqs = append(reqs, reqT{Op: "hasm", Kind: "funcref", Pkg: f.name, Name: f.iface, Meth: m})
		}
	}
	return reqs
}

// shadowScenarios: import-less group, group binding the name 2..3 times, import-less group(s) again -- and for names without a
// standard-library default the import-less group comes last (the file must not load)
func shadowScenarios() []scenario {
	var out []scenario
	k := 0
	for _, f := range families {
		def, hasDef := stdDefaults[f.name]
		for _, seq := range importSeqs(f) {
			k++
			last := seq[len(seq)-1]
			shadow := groupT{Imports: seq, Reqs: familyReqs(f, last, k)}
			plain := func(j int) groupT { return groupT{Reqs: familyReqs(f, def, k+j)} }
			var sc scenario
			switch {
			case hasDef && k%3 == 0:
				sc.Groups = []groupT{shadow, plain(1), plain(2)}
			case hasDef && k%3 == 1:
				sc.Groups = []groupT{plain(1), shadow, plain(2)}
			case hasDef:
				// a second shadowing group (the sequence reversed) and a skipped one in between
				rev := append([]string{}, seq...)
				for i, j := 0, len(rev)-1; i < j; i, j = i+1, j-1 {
					rev[i], rev[j] = rev[j], rev[i]
				}
				sc.Groups = []groupT{shadow, {Skip: true, Imports: rev, Reqs: familyReqs(f, rev[len(rev)-1], k)}, plain(1),
					{Imports: rev, Reqs: familyReqs(f, rev[len(rev)-1], k+1)}, plain(2)}
			case k%3 == 0:
				// no default: a later group that binds another name only must not see the family's name any more
				sc.Groups = []groupT{shadow, {Imports: []string{"example.com/c20/lib"}, Reqs: []reqT{{Op: "is", Kind: "typepat", Pkg: "lib", Name: "T"},
					{Op: "is", Kind: "typepat", Pkg: f.name, Name: f.typ}}}}
			case k%3 == 1:
				other := f.paths[(k/3)%len(f.paths)]
				sc.Groups = []groupT{shadow, {Imports: []string{other}, Reqs: familyReqs(f, other, k+1)}, {Reqs: familyReqs(f, "", k+2)[:1]}}
			default:
				// a file that loads: every group binds the name itself (twice, once, twice in the other order)
				other := f.paths[(k/3)%len(f.paths)]
				rev := append([]string{}, seq...)
				for i, j := 0, len(rev)-1; i < j; i, j = i+1, j-1 {
					rev[i], rev[j] = rev[j], rev[i]
				}
				sc.Groups = []groupT{shadow, {Imports: []string{other}, Reqs: familyReqs(f, other, k+1)}, {Imports: rev, Reqs: familyReqs(f, rev[len(rev)-1], k+2)}}
			}
			out = append(out, sc)
		}
	}
	return out
}

var typepatMenu = [][2]string{
	{"io", "Reader"}, {"io", "Writer"}, {"io", "OnlyFake"}, {"foo", "T"}, {"foo", "OnlyA"}, {"foo", "Impl"}, {"template", "Template"},
	{"lib", "T"}, {"lib", "Impl"}, {"nosuchpkg", "T"}, {"bytes", "Buffer"}, {"io", "Impl"}, {"io", "Reader"}, {"foo", "T"}, {"template", "Template"},
	{"rand", "Rand"}, {"pprof", "Profile"}, {"scanner", "Scanner"},
	{"plain", "T"}, {"api", "T"}, {"yaml", "Node"}, {"example", "T"},
}
var ifaceQualMenu = [][2]string{
	{"io", "Reader"}, {"io", "Writer"}, {"io", "StringWriter"}, {"foo", "Iface"}, {"lib", "Doer"}, {"nosuchpkg", "Iface"}, {"io", "NoSuchName"},
	{"foo", "T"}, {"io", "Reader"}, {"foo", "Iface"}, {"io", "Writer"}, {"lib", "Doer"}, {"rand", "Source"},
	{"plain", "Iface"}, {"api", "Handler"}, {"yaml", "Marshaler"}, {"example", "Reader"}, {"gopkg", "Marshaler"},
}
var ifaceFqnMenu = [][2]string{
	{"example.com/a/foo", "Iface"}, {"example.com/b/foo", "Iface"}, {"example.com/io", "Reader"}, {"example.com/c20/lib", "Doer"},
	{"example.com/io", "Writer"}, {"example.com/nosuch/pkg", "I"},
	// the package / object boundary of a fully-qualified name is its LAST dot, wherever else the path has dots
	{"gopkg.in/yaml.v3", "Marshaler"}, {"example.com/c20/lib/check.v1", "Checker"}, {"example.com/c20/lib/api.v2", "Handler"},
	{"example.com/c20/lib/api", "Handler"}, {"example.com/c20/lib/v1.2/plain", "Iface"}, {"example.com/c20/lib/multi.dot.v2", "Iface"},
	{"gopkg.in/yaml.v3", "Marshaler"}, {"example.com/c20/lib/api.v2", "Handler"},
	// unresolvable: not an interface; `gopkg.in/yaml.v3` read as a fully-qualified name (package gopkg.in/yaml, object v3)
	{"gopkg.in/yaml.v3", "Node"}, {"gopkg.in/yaml", "v3"},
}
var funcrefMenu = [][3]string{
	{"io", "Reader", "Read"}, {"io", "Reader", "ReadFake"}, {"foo", "Iface", "MA"}, {"foo", "Iface", "MB"}, {"io", "StringWriter", "WriteString"},
	{"lib", "Doer", "Do"}, {"io", "Writer", "Write"}, {"nosuchpkg", "I", "M"}, {"foo", "T", "M"}, {"io", "Reader", "Read"}, {"foo", "Iface", "MA"},
	{"rand", "Source", "Int63"},
	{"plain", "Iface", "MP"}, {"api", "Handler", "HandlePlain"}, {"api", "Handler", "HandleV2"},
}

// entries that usually cannot be resolved are picked rarely, so that most files load
func rarely(r *rand.Rand, bad bool) bool { return bad && r.Intn(12) != 0 }

func genReq(r *rand.Rand) reqT {
	for {
		switch r.Intn(10) {
		case 0, 1, 2:
			m := typepatMenu[r.Intn(len(typepatMenu))]
			if rarely(r, m[0] == "nosuchpkg" || m[0] == "yaml") {
				continue
			}
			op := "is"
			switch r.Intn(8) {
			case 0:
				op = "uis"
			case 1, 2:
				op = "sink"
			}
			wrap := []string{"", "", "", "*", "[]"}[r.Intn(5)]
			if r.Intn(4) == 0 { // the name somewhere inside a composite type
				wrap = posShapes[r.Intn(len(posShapes))]
			}
			return reqT{Op: op, Kind: "typepat", Wrap: wrap, Pkg: m[0], Name: m[1]}
		case 3, 4, 5:
			m := ifaceQualMenu[r.Intn(len(ifaceQualMenu))]
			if rarely(r, m[0] == "nosuchpkg" || m[1] == "NoSuchName" || m[1] == "T" || m[1] == "Writer" || m[0] == "yaml") {
				continue
			}
			return reqT{Op: "impl", Kind: "iqual", Pkg: m[0], Name: m[1]}
		case 6, 7:
			m := ifaceFqnMenu[r.Intn(len(ifaceFqnMenu))]
			if rarely(r, m[1] == "Writer" || m[1] == "I" || m[1] == "Node" || m[1] == "v3") {
				continue
			}
			return reqT{Op: "impl", Kind: "ifqn", Pkg: m[0], Name: m[1]}
		default:
			m := funcrefMenu[r.Intn(len(funcrefMenu))]
			if rarely(r, m[0] == "nosuchpkg" || m[1] == "T" || m[2] == "ReadFake" || m[2] == "MB" || m[2] == "Write" || m[2] == "HandleV2") {
				continue
			}
			return reqT{Op: "hasm", Kind: "funcref", Pkg: m[0], Name: m[1], Meth: m[2]}
		}
	}
}

func (q reqT) where() string {
	switch q.Op {
	case "is":
		return fmt.Sprintf("m[\"x\"].Type.Is(`%s`)", q.patternOf())
	case "uis":
		return fmt.Sprintf("m[\"x\"].Type.Underlying().Is(`%s`)", q.patternOf())
	case "sink":
		return fmt.Sprintf("m[\"$$\"].SinkType.Is(`%s`)", q.patternOf())
	case "conv":
		return fmt.Sprintf("m[\"x\"].Type.ConvertibleTo(`%s`)", q.patternOf())
	case "asgn":
		return fmt.Sprintf("m[\"x\"].Type.AssignableTo(`%s`)", q.patternOf())
	case "impl":
		return fmt.Sprintf("m[\"x\"].Type.Implements(`%s.%s`)", q.Pkg, q.Name)
	default:
		return fmt.Sprintf("m[\"x\"].Type.HasMethod(`%s.%s.%s`)", q.Pkg, q.Name, q.Meth)
	}
}

func groupName(sc *scenario, si, gi int) string {
	name := fmt.Sprintf("s%d_g%d", si, gi)
	if gi < sc.Bundle {
		name = fmt.Sprintf("bnd_g%d", gi)
	}
	if sc.Groups[gi].Skip {
		name = "skip_" + name
	}
	return name
}

const bundlePath = "example.com/c20bundle"

// renderGroups: the group functions (shared by rules files and the bundle)
func renderGroups(b *strings.Builder, groups []groupT) {
	for _, g := range groups {
		fmt.Fprintf(b, "func %s(m dsl.Matcher) {\n", g.Name)
		for _, imp := range g.Imports {
			fmt.Fprintf(b, "\tm.Import(`%s`)\n", imp)
		}
		for j, q := range g.Reqs {
			fmt.Fprintf(b, "\tm.Match(`probe_%s_r%d($x)`).Where(%s).Report(`%s_r%d $x`)\n", g.Name, j, q.where(), g.Name, j)
		}
		for j := range g.Custom {
			fmt.Fprintf(b, "\tm.Match(`probe_%s_c%d($x)`).Where(m[\"x\"].Filter(f_%s_c%d)).Report(`%s_c%d $x`)\n", g.Name, j, g.Name, j, g.Name, j)
		}
		b.WriteString("}\n\n")
	}
}

// renderBundle: the source of harness/fake/c20bundle/rules.go (the file on disk must equal it)
func renderBundle(groups []groupT) string {
	var b strings.Builder
	b.WriteString("// Package c20bundle: a rule bundle whose groups have Import() sets of their own (C20). GENERATED by harness/cmd/c20 -writebundle.\n")
	b.WriteString("package c20bundle\n\nimport \"github.com/quasilyte/go-ruleguard/dsl\"\n\nvar Bundle = dsl.Bundle{}\n\n")
	renderGroups(&b, groups)
	return b.String()
}

func renderRules(sc *scenario) string {
	var b strings.Builder
	if sc.Bundle > 0 {
		b.WriteString("package gorules\n\nimport (\n\t\"github.com/quasilyte/go-ruleguard/dsl\"\n\tc20bundle \"" + bundlePath + "\"\n)\n\n")
		b.WriteString("func init() {\n\tdsl.ImportRules(\"bp\", c20bundle.Bundle)\n}\n\n")
		renderGroups(&b, sc.Groups[sc.Bundle:])
		b.WriteString("/* the imported bundle " + bundlePath + " (its groups are loaded first, on the same import table):\n\n")
		b.WriteString(strings.ReplaceAll(renderBundle(sc.Groups[:sc.Bundle]), "*/", "* /"))
		b.WriteString("*/\n")
		return b.String()
	}
	hasCustom := false
	for _, g := range sc.Groups {
		hasCustom = hasCustom || len(g.Custom) > 0
	}
	if hasCustom {
		b.WriteString("package gorules\n\nimport (\n\t\"github.com/quasilyte/go-ruleguard/dsl\"\n\t\"github.com/quasilyte/go-ruleguard/dsl/types\"\n)\n\n")
	} else {
		b.WriteString("package gorules\n\nimport \"github.com/quasilyte/go-ruleguard/dsl\"\n\n")
	}
	for _, g := range sc.Groups {
		for j, cu := range g.Custom {
			if cu.Call == "GetInterface" {
				fmt.Fprintf(&b, "func f_%s_c%d(ctx *dsl.VarFilterContext) bool {\n\treturn types.Implements(ctx.Type, ctx.GetInterface(`%s`))\n}\n\n", g.Name, j, cu.FQN)
			} else {
				fmt.Fprintf(&b, "func f_%s_c%d(ctx *dsl.VarFilterContext) bool {\n\treturn types.Identical(ctx.Type, ctx.GetType(`%s`))\n}\n\n", g.Name, j, cu.FQN)
			}
		}
	}
	for _, g := range sc.Groups {
		fmt.Fprintf(&b, "func %s(m dsl.Matcher) {\n", g.Name)
		for _, imp := range g.Imports {
			fmt.Fprintf(&b, "\tm.Import(`%s`)\n", imp)
		}
		for j, q := range g.Reqs {
			fmt.Fprintf(&b, "\tm.Match(`probe_%s_r%d($x)`).Where(%s).Report(`%s_r%d $x`)\n", g.Name, j, q.where(), g.Name, j)
		}
		for j := range g.Custom {
			fmt.Fprintf(&b, "\tm.Match(`probe_%s_c%d($x)`).Where(m[\"x\"].Filter(f_%s_c%d)).Report(`%s_c%d $x`)\n", g.Name, j, g.Name, j, g.Name, j)
		}
		b.WriteString("}\n\n")
	}
	return b.String()
}

// ---- oracle

type oracle struct {
	u      *gtypes.Universe
	std    types.Importer
	probes []types.Type
	// for the position shapes: the typed probes q000.., the target package, a position inside its file, and the alias the
	// target file imports each package under
	qtypes  []types.Type
	tpkg    *types.Package
	tpos    token.Pos
	aliases map[string]string
}

func (o *oracle) pkg(p string) *types.Package {
	if pk, ok := o.u.Pkgs[p]; ok {
		return pk
	}
	pk, err := o.std.Import(p)
	if err != nil {
		return nil
	}
	return pk
}

// stripVendor: the import path a (possibly vendored) package directory stands for: the text after the last "/vendor/"
// element (cmd/go, golang.org/x/tools/imports.VendorlessPath)
func stripVendor(p string) string {
	if i := strings.LastIndex(p, "/vendor/"); i >= 0 {
		return p[i+len("/vendor/"):]
	}
	if strings.HasPrefix(p, "vendor/") {
		return p[len("vendor/"):]
	}
	return p
}

// docPath: Import() of the group (last call wins) > stdlib default > as written
func docBinding(imports []string, pkgName string) (string, bool) {
	for i := len(imports) - 1; i >= 0; i-- {
		if path.Base(imports[i]) == pkgName {
			return imports[i], true
		}
	}
	p, ok := stdDefaults[pkgName]
	return p, ok
}

// stdDefaults is a private copy of stdinfo.PathByName taken before any engine exists (the engine shares that map).
var stdDefaults = func() map[string]string {
	m := make(map[string]string, len(stdinfo.PathByName))
	for k, v := range stdinfo.PathByName {
		m[k] = v
	}
	return m
}()

// resolve returns the key of the resolved target or "" when the name cannot be resolved (load error expected)
func (o *oracle) resolve(imports []string, q reqT) string {
	switch q.Kind {
	case "typeconstr":
		// type constraints resolve no qualified names: one inside the type string is never resolvable
		return ""
	case "typepat":
		if len(q.QNames) > 1 {
			// every qualified name of the type string has to be bound
			out := "ResTypes"
			for _, qn := range q.QNames {
				p, ok := docBinding(imports, qn[0])
				if !ok {
					return ""
				}
				out += " " + p + " " + qn[1]
			}
			return out
		}
		p, ok := docBinding(imports, q.Pkg)
		if !ok {
			return ""
		}
		return "ResType " + p + " " + q.Name
	case "iqual", "ifqn":
		p := q.Pkg
		if q.Kind == "iqual" {
			if b, ok := docBinding(imports, q.Pkg); ok {
				p = b
			}
		}
		pk := o.pkg(p)
		if pk == nil {
			return ""
		}
		obj := pk.Scope().Lookup(q.Name)
		if obj == nil {
			return ""
		}
		if _, ok := obj.Type().Underlying().(*types.Interface); !ok {
			return ""
		}
		return "ResIface " + p + " " + q.Name
	default:
		p := q.Pkg
		if b, ok := docBinding(imports, q.Pkg); ok {
			p = b
		}
		pk := o.pkg(p)
		if pk == nil {
			return ""
		}
		obj := pk.Scope().Lookup(q.Name)
		if obj == nil {
			return ""
		}
		it, ok := obj.Type().Underlying().(*types.Interface)
		if !ok {
			return ""
		}
		for i := 0; i < it.NumMethods(); i++ {
			if it.Method(i).Name() == q.Meth {
				return "ResMethod " + p + " " + q.Name + " " + q.Meth
			}
		}
		return ""
	}
}

// satisfied: which probes satisfy (op, wrap, resolved target) according to go/types on the target universe
func (o *oracle) satisfied(op, wrap, target string) []string {
	f := strings.Fields(target)
	var res []string
	if isShape(wrap) {
		// a composite type around the name(s): go/types evaluates the same type expression over the packages the names
		// documentedly mean; the rule must report the probes of exactly that type
		var paths, names []string
		for i := 1; i+1 < len(f); i += 2 {
			paths = append(paths, f[i])
			names = append(names, f[i+1])
		}
		pattern := shapePattern(wrap, names)
		want := o.evalShape(pattern, paths)
		for _, qi := range probesForWrap(wrap) {
			have := o.qtypes[qi]
			if op == "uis" {
				have = have.Underlying()
			}
			if want != nil && types.Identical(have, want) {
				res = append(res, qprobes[qi].Name)
			}
		}
		return res
	}
	for i, t := range o.probes {
		ok := false
		switch f[0] {
		case "ResType":
			tt := t
			if op == "uis" {
				tt = t.Underlying()
			}
			switch wrap {
			case "*":
				if p, isP := tt.(*types.Pointer); isP {
					tt = p.Elem()
				} else {
					tt = nil
				}
			case "[]":
				if p, isS := tt.(*types.Slice); isS {
					tt = p.Elem()
				} else {
					tt = nil
				}
			}
			if nt, isN := tt.(*types.Named); isN && nt.Obj().Pkg() != nil {
				pp := nt.Obj().Pkg().Path()
				if op != "cident" {
					pp = stripVendor(pp)
				}
				ok = nt.Obj().Name() == f[2] && pp == f[1]
			}
		case "ResIface":
			it := o.pkg(f[1]).Scope().Lookup(f[2]).Type().Underlying().(*types.Interface)
			ok = types.Implements(t, it)
		case "ResMethod":
			it := o.pkg(f[1]).Scope().Lookup(f[2]).Type().Underlying().(*types.Interface)
			var fn *types.Func
			for k := 0; k < it.NumMethods(); k++ {
				if it.Method(k).Name() == f[3] {
					fn = it.Method(k)
				}
			}
			obj, _, _ := types.LookupFieldOrMethod(t, true, fn.Pkg(), fn.Name())
			if f2, isF := obj.(*types.Func); isF {
				ok = types.Identical(fn.Type(), f2.Type())
			}
		}
		if ok {
			res = append(res, fmt.Sprintf("p%02d", i))
		}
	}
	return res
}

func main() {
	seed := flag.Int64("seed", 1, "PRNG seed")
	nscen := flag.Int("n", 60, "number of random scenarios")
	nscripts := flag.Int("scripts", 300, "number of random import-table scripts")
	timing := flag.Bool("timing", false, "print phase timings to stderr")
	ntriples := flag.Int("triples", 40, "number of seeded depth-3 positions among the files that must not load")
	writeBundle := flag.Bool("writebundle", false, "write harness/fake/c20bundle/rules.go (cwd = harness/) and exit")
	flag.Parse()
	o := out{Seed: *seed, Table: map[string][]string{}, Std: map[string]string{}}
	enc := json.NewEncoder(os.Stdout)
	fail := func(err error) {
		o.Error = err.Error()
		enc.Encode(o)
		os.Exit(1)
	}
	r := rand.New(rand.NewSource(*seed))
	t0 := time.Now()
	lap := func(what string) {
		if *timing {
			fmt.Fprintf(os.Stderr, "c20 timing: %-28s %6.2fs\n", what, time.Since(t0).Seconds())
		}
	}

	// ---- scenarios: hand-written first, then random
	mk := func(groups ...groupT) scenario { return scenario{Groups: groups} }
	g := func(skip bool, imports []string, reqs ...reqT) groupT {
		return groupT{Skip: skip, Imports: imports, Reqs: reqs}
	}
	tp := func(wrap, pkg, name string) reqT {
		return reqT{Op: "is", Kind: "typepat", Wrap: wrap, Pkg: pkg, Name: name}
	}
	sk := func(wrap, pkg, name string) reqT {
		return reqT{Op: "sink", Kind: "typepat", Wrap: wrap, Pkg: pkg, Name: name}
	}
	ut := func(wrap, pkg, name string) reqT {
		return reqT{Op: "uis", Kind: "typepat", Wrap: wrap, Pkg: pkg, Name: name}
	}
	iq := func(pkg, name string) reqT { return reqT{Op: "impl", Kind: "iqual", Pkg: pkg, Name: name} }
	ifq := func(p, name string) reqT { return reqT{Op: "impl", Kind: "ifqn", Pkg: p, Name: name} }
	fr := func(pkg, name, m string) reqT {
		return reqT{Op: "hasm", Kind: "funcref", Pkg: pkg, Name: name, Meth: m}
	}
	fio, afoo, bfoo := "example.com/io", "example.com/a/foo", "example.com/b/foo"
	scs := []scenario{
		mk(g(false, []string{fio}, iq("io", "Reader"), tp("", "io", "Reader"), fr("io", "Reader", "ReadFake")), g(false, nil, iq("io", "Reader"), tp("", "io", "Reader"), fr("io", "Reader", "Read"))),
		mk(g(false, nil, iq("io", "Reader")), g(false, []string{fio}, iq("io", "Reader")), g(false, nil, iq("io", "Reader"))),
		mk(g(false, []string{afoo}, tp("", "foo", "T"), iq("foo", "Iface"), fr("foo", "Iface", "MA")), g(false, []string{bfoo}, tp("", "foo", "T"), iq("foo", "Iface"), fr("foo", "Iface", "MB"))),
		mk(g(false, []string{afoo, bfoo}, tp("", "foo", "T"), iq("foo", "Iface")), g(false, []string{bfoo, afoo}, tp("", "foo", "T"), iq("foo", "Iface"))),
		mk(g(true, []string{fio}, iq("io", "Reader")), g(false, nil, iq("io", "Reader"), tp("", "io", "Writer"))),
		mk(g(false, []string{fio}, iq("io", "NoSuchName")), g(false, nil, iq("io", "Reader"))),
		mk(g(false, nil, tp("", "foo", "T"))),
		mk(g(false, []string{afoo}, tp("", "foo", "T")), g(false, nil, tp("", "foo", "T"))),
		mk(g(false, nil, tp("", "template", "Template"), tp("*", "template", "Template")), g(false, []string{"html/template"}, tp("", "template", "Template"))),
		mk(g(false, []string{"example.com/c20/lib"}, tp("", "lib", "T"), tp("*", "lib", "T"), iq("lib", "Doer"), fr("lib", "Doer", "Do"))),
		mk(g(false, nil, ifq(afoo, "Iface"), ifq(bfoo, "Iface"), ifq(fio, "Reader")), g(false, []string{bfoo}, ifq(afoo, "Iface"))),
		mk(g(false, []string{fio}, fr("io", "Reader", "Read"))),
		mk(g(false, nil, fr("io", "Reader", "ReadFake"))),
		mk(g(false, []string{fio}, iq("io", "Writer"))),
		mk(g(false, nil, iq("nosuchpkg", "Iface"))),
		mk(g(false, nil, fr("foo", "Iface", "MA"))),
		mk(g(false, []string{fio}, tp("", "io", "OnlyFake")), g(false, nil, iq("io", "Writer"), iq("io", "StringWriter"), fr("io", "StringWriter", "WriteString"))),
	}
	// the same type strings in groups with and without Import()s, in both orders, through all three type-pattern filters
	ht := "html/template"
	scs = append(scs,
		mk(g(false, []string{ht, fio}, tp("*", "template", "Template"), sk("*", "template", "Template"), ut("[]", "template", "Template"), sk("", "io", "Reader")),
			g(false, nil, tp("*", "template", "Template"), sk("*", "template", "Template"), ut("[]", "template", "Template"), sk("", "io", "Reader"))),
		mk(g(false, nil, sk("", "template", "Template"), sk("", "io", "Writer")), g(false, []string{ht, fio}, sk("", "template", "Template"), sk("", "io", "Writer")),
			g(false, nil, sk("", "template", "Template"), sk("", "io", "Writer"))),
		mk(g(false, []string{afoo}, sk("", "foo", "T"), sk("*", "foo", "T")), g(false, []string{bfoo}, sk("", "foo", "T"), sk("*", "foo", "T")),
			g(true, []string{afoo}, sk("", "foo", "T")), g(false, []string{bfoo, afoo}, sk("", "foo", "T"))),
		mk(g(false, []string{"example.com/c20/lib"}, sk("", "lib", "T"), tp("[]", "lib", "T"), sk("", "lib", "Impl"))),
	)
	// every base name that several std packages share, through every resolver, with and without an overriding Import()
	scs = append(scs,
		mk(g(false, nil, tp("*", "rand", "Rand"), iq("rand", "Source"), fr("rand", "Source", "Int63"), tp("*", "pprof", "Profile"),
			tp("", "scanner", "Scanner"), sk("*", "template", "Template")),
			g(false, []string{"text/scanner", ht}, tp("", "scanner", "Scanner"), sk("*", "scanner", "Scanner"), tp("*", "template", "Template")),
			g(false, nil, tp("", "scanner", "Scanner"), sk("*", "scanner", "Scanner"), sk("*", "rand", "Rand"), ut("*", "pprof", "Profile"))),
		mk(g(false, []string{"math/rand"}, tp("", "rand", "Rand"), iq("rand", "Source")), g(false, nil, tp("", "rand", "Rand"), iq("rand", "Source"))),
	)
	// ---- the static rule bundle example.com/c20bundle (harness/fake/c20bundle/rules.go) and files importing it: the bundle's
	// groups are loaded first, on the importing file's import table
	bundleGroups := []groupT{
		g(false, []string{fio, ht, afoo}, tp("", "io", "Reader"), iq("io", "Reader"), fr("io", "Reader", "ReadFake"), tp("*", "template", "Template"), sk("", "foo", "T")),
		g(false, nil, tp("", "io", "Reader"), iq("io", "Reader"), fr("io", "Reader", "Read"), tp("*", "template", "Template"), sk("*", "rand", "Rand")),
		// a bundle group that binds template, io and foo twice each (the last Import() wins; nothing of it may outlive the group)
		g(false, []string{ht, "example.com/c20/lib/io", "text/template", bfoo, fio, afoo, "example.com/c20/lib/template"},
			tp("*", "template", "Template"), iq("io", "Reader"), fr("io", "Reader", "ReadFake"), sk("", "foo", "T")),
		g(false, nil, tp("*", "template", "Template"), iq("io", "Reader"), fr("io", "Reader", "Read")),
		g(true, []string{bfoo, "text/scanner"}, tp("", "foo", "T")),
		g(false, []string{bfoo}, tp("", "foo", "T"), iq("foo", "Iface"), tp("", "scanner", "Scanner")),
		g(false, nil, sk("", "io", "Writer"), ut("[]", "template", "Template"), tp("", "scanner", "Scanner")),
	}
	for gi := range bundleGroups {
		bsc := scenario{Bundle: len(bundleGroups), Groups: bundleGroups}
		bundleGroups[gi].Name = groupName(&bsc, 0, gi)
	}
	if *writeBundle {
		if err := os.WriteFile("fake/c20bundle/rules.go", []byte(renderBundle(bundleGroups)), 0o644); err != nil {
			fail(err)
		}
		return
	}
	if disk, err := os.ReadFile("fake/c20bundle/rules.go"); err != nil || string(disk) != renderBundle(bundleGroups) {
		fail(fmt.Errorf("harness/fake/c20bundle/rules.go is not the rendering of bundleGroups (run the harness with -writebundle inside harness/): %v", err))
	}
	withBundle := func(own ...groupT) scenario {
		gs := append([]groupT{}, bundleGroups...)
		return scenario{Bundle: len(bundleGroups), Groups: append(gs, own...)}
	}
	scs = append(scs,
		withBundle(g(false, nil, tp("", "io", "Reader"), iq("io", "Reader"), tp("*", "template", "Template"), tp("", "scanner", "Scanner")),
			g(false, []string{afoo}, tp("", "foo", "T"), sk("", "foo", "T"))),
		withBundle(g(false, []string{"example.com/b/foo", "text/scanner"}, tp("", "foo", "T"), tp("", "scanner", "Scanner"), iq("io", "Reader")),
			g(false, []string{fio, ht}, tp("", "io", "Reader"), iq("io", "Reader"), fr("io", "Reader", "ReadFake"), tp("*", "template", "Template")),
			g(false, nil, tp("", "io", "Reader"), iq("io", "Reader"), fr("io", "Reader", "Read"), tp("*", "template", "Template"))),
		// the bundle's groups bind foo; a group of the importing file that does not is a load error
		withBundle(g(false, nil, tp("", "foo", "T"))),
	)
	cg := func(imports []string, cs ...customT) groupT { return groupT{Imports: imports, Custom: cs} }
	scs = append(scs,
		// a fully-qualified name means that package whatever the group imports ("io" is the path of the stdlib package)
		mk(cg([]string{fio}, customT{"GetInterface", "io.Reader", "ResIface io Reader"}, customT{"GetInterface", "example.com/io.Reader", "ResIface example.com/io Reader"}),
			cg(nil, customT{"GetInterface", "io.Reader", "ResIface io Reader"}, customT{"GetInterface", "example.com/io.Reader", "ResIface example.com/io Reader"})),
		mk(cg([]string{bfoo}, customT{"GetType", "example.com/a/foo.T", "ResType example.com/a/foo T"}, customT{"GetInterface", "example.com/a/foo.Iface", "ResIface example.com/a/foo Iface"}),
			cg([]string{afoo}, customT{"GetType", "example.com/b/foo.T", "ResType example.com/b/foo T"}, customT{"GetInterface", "example.com/b/foo.Iface", "ResIface example.com/b/foo Iface"})),
		mk(cg([]string{"example.com/c20/lib"}, customT{"GetType", "example.com/c20/lib.T", "ResType example.com/c20/lib T"}, customT{"GetInterface", "example.com/c20/lib.Doer", "ResIface example.com/c20/lib Doer"})),
	)
	// fully-qualified names for the run-time lookups of custom filters: the name means the package as written, whatever the
	// group imports (the base names collide with Import()s of the menu and with each other)
	customMenu := []customT{
		{"GetInterface", "io.Reader", "ResIface io Reader"}, {"GetInterface", "example.com/io.Reader", "ResIface example.com/io Reader"},
		{"GetInterface", "example.com/a/foo.Iface", "ResIface example.com/a/foo Iface"}, {"GetInterface", "example.com/b/foo.Iface", "ResIface example.com/b/foo Iface"},
		{"GetType", "example.com/a/foo.T", "ResType example.com/a/foo T"}, {"GetType", "example.com/b/foo.T", "ResType example.com/b/foo T"},
		{"GetType", "text/template.Template", "ResType text/template Template"}, {"GetType", "html/template.Template", "ResType html/template Template"},
		{"GetType", "math/rand.Rand", "ResType math/rand Rand"}, {"GetInterface", "math/rand.Source", "ResIface math/rand Source"},
		{"GetType", "example.com/c20/lib.T", "ResType example.com/c20/lib T"}, {"GetInterface", "io.StringWriter", "ResIface io StringWriter"},
	}
	// groups that bind one base name two and three times (every order), before / after / between import-less groups
	scs = append(scs, shadowScenarios()...)

	// ---- import paths with dots beyond the host name. A fully-qualified name is cut at its LAST dot, so
	// `gopkg.in/yaml.v3.Marshaler` is Marshaler of gopkg.in/yaml.v3; Import() binds the last path element (`yaml.v3`, `api.v2`:
	// names no `pkg.T` can spell, so `yaml.T` / `api.T` stay unbound there)
	yv3, chk1, api2, apid := "gopkg.in/yaml.v3", "example.com/c20/lib/check.v1", "example.com/c20/lib/api.v2", "example.com/c20/lib/api"
	plain, multi := "example.com/c20/lib/v1.2/plain", "example.com/c20/lib/multi.dot.v2"
	scs = append(scs,
		mk(g(false, nil, ifq(yv3, "Marshaler"), ifq(chk1, "Checker"), ifq(api2, "Handler"), ifq(apid, "Handler"), ifq(plain, "Iface"), ifq(multi, "Iface"))),
		mk(g(false, []string{apid, plain}, ifq(api2, "Handler"), iq("api", "Handler"), fr("api", "Handler", "HandlePlain"), tp("", "api", "T"),
			fr("plain", "Iface", "MP"), iq("plain", "Iface"), tp("*", "plain", "T")),
			g(false, nil, ifq(api2, "Handler"), ifq(yv3, "Marshaler"), ifq(plain, "Iface"))),
		mk(g(false, []string{api2, apid}, tp("", "api", "T"), iq("api", "Handler")), g(false, []string{apid, api2}, tp("", "api", "T"), iq("api", "Handler"), ifq(api2, "Handler"))),
		mk(g(false, []string{yv3}, ifq(yv3, "Marshaler")), g(false, []string{yv3}, tp("", "yaml", "Node"))),
		mk(g(false, []string{yv3}, iq("yaml", "Marshaler"))),
		mk(g(false, []string{yv3}, ifq("yaml.v3", "Marshaler"))), // not `pkg.T` (two identifiers), and no package has the path yaml.v3
		mk(g(false, []string{api2}, ifq(api2, "Handler")), g(false, []string{api2}, tp("", "api", "T"))),
		mk(g(false, []string{api2}, fr("api", "Handler", "HandleV2"))),
		// the group binds the identifier a fully-qualified name starts with (`example`, `gopkg`): the name still means the package as written
		mk(g(false, []string{"example.com/c20/lib/example", "example.com/c20/lib/gopkg"}, ifq(fio, "Reader"), ifq(yv3, "Marshaler"), ifq(afoo, "Iface"),
			iq("example", "Reader"), iq("gopkg", "Marshaler"), tp("", "example", "T"), fr("gopkg", "Marshaler", "MarshalGopkg")),
			g(false, nil, ifq(fio, "Reader"), ifq(yv3, "Marshaler"))),
		mk(g(false, nil, ifq("gopkg.in/yaml", "v3"))),
		mk(g(false, nil, ifq(yv3, "Node"))),
	)
	dottedCustom := []customT{
		{"GetInterface", yv3 + ".Marshaler", "ResIface " + yv3 + " Marshaler"}, {"GetType", yv3 + ".Node", "ResType " + yv3 + " Node"},
		{"GetInterface", chk1 + ".Checker", "ResIface " + chk1 + " Checker"}, {"GetType", chk1 + ".C", "ResType " + chk1 + " C"},
		{"GetInterface", api2 + ".Handler", "ResIface " + api2 + " Handler"}, {"GetType", api2 + ".T", "ResType " + api2 + " T"},
		{"GetInterface", apid + ".Handler", "ResIface " + apid + " Handler"}, {"GetType", apid + ".T", "ResType " + apid + " T"},
		{"GetInterface", plain + ".Iface", "ResIface " + plain + " Iface"}, {"GetType", plain + ".T", "ResType " + plain + " T"},
		{"GetInterface", multi + ".Iface", "ResIface " + multi + " Iface"}, {"GetType", multi + ".T", "ResType " + multi + " T"},
		// a vendored copy named in full is that copy (the file being checked depends on it)
		{"GetType", vendoredLib + ".T", "ResType " + vendoredLib + " T"}, {"GetInterface", vendoredLib + ".Doer", "ResIface " + vendoredLib + " Doer"},
	}
	for k, cu := range dottedCustom {
		// one lookup per file (a failing lookup panics inside Run); the group's imports bind the base name to something else
		imps := [][]string{nil, {apid}, {yv3, api2}, {plain, "example.com/c20/lib"}}[k%4]
		scs = append(scs, mk(cg(imps, cu)))
	}
	customMenu = append(customMenu, dottedCustom...)

	// ---- names that cannot be resolved, in every resolver. T = a name the package does not declare: an ordinary identifier and
	// every PREDECLARED identifier (types, constants, nil, builtin functions: `io.error` is not the universe's error); the
	// package: a std package through the default table, a package bound by Import(), a fully-qualified path, an unknown package.
	// Load-time resolvers (Implements, HasMethod): one request per file, the file must not load. Run-time resolvers (custom
	// filters' GetType / GetInterface): the file loads, Run must stop with the resolution error (engines of their own).
	predeclared := types.Universe.Names()
	important := map[string]bool{"error": true, "string": true, "int": true, "any": true, "comparable": true, "true": true, "nil": true, "len": true, "byte": true}
	unresolvableT := append([]string{"NoSuchName"}, predeclared...)
	for k, n := range unresolvableT {
		var qs []struct {
			imps []string
			q    reqT
		}
		add := func(imps []string, q reqT) {
			qs = append(qs, struct {
				imps []string
				q    reqT
			}{imps, q})
		}
		add(nil, iq("io", n))                      // std package through the default table
		add([]string{afoo}, iq("foo", n))          // bound by Import()
		add(nil, ifq("text/template", n))          // fully-qualified, std
		add([]string{fio}, ifq(fio, n))            // fully-qualified, third party
		add(nil, fr("fmt", n, "Error"))            // HasMethod, default table
		add([]string{bfoo}, fr("foo", n, "Error")) // HasMethod, bound by Import()
		add([]string{"io"}, fr("io", n, "Error"))  // HasMethod, std bound by Import()
		add(nil, ifq("example.com/nosuch/pkg", n)) // unknown package
		for j, x := range qs {
			if !important[n] && n != "NoSuchName" && j != k%len(qs) {
				continue
			}
			sc := mk(g(false, x.imps, iq("io", "Reader"), x.q, iq("io", "Writer")))
			sc.Own = true
			sc.Position = "unresolvable T " + n
			scs = append(scs, sc)
		}
		type cq struct {
			imps []string
			cu   customT
		}
		cqs := []cq{
			{nil, customT{"GetInterface", "io." + n, ""}},
			{nil, customT{"GetType", "strings." + n, ""}},
			{[]string{afoo}, customT{"GetInterface", afoo + "." + n, ""}},
			{[]string{"io"}, customT{"GetType", fio + "." + n, ""}},
			{nil, customT{"GetInterface", "example.com/nosuch/pkg." + n, ""}},
			{[]string{fio}, customT{"GetType", "nosuchpkg." + n, ""}},
		}
		for j, x := range cqs {
			if !important[n] && n != "NoSuchName" && j != k%len(cqs) {
				continue
			}
			// a resolvable lookup of the same kind first: the run gets as far as the unresolvable one
			first := customT{"GetInterface", "io.Reader", "ResIface io Reader"}
			if x.cu.Call == "GetType" {
				first = customT{"GetType", "example.com/a/foo.T", "ResType example.com/a/foo T"}
			}
			sc := mk(cg(x.imps, first), cg(x.imps, x.cu))
			sc.Own = true
			sc.ORunPanic = x.cu.FQN
			scs = append(scs, sc)
		}
	}
	// a base name that is an importable path by itself (io) bound to ANOTHER package by the group: what that package lacks (or
	// declares as a non-interface) is unresolvable there, although the std package called io declares it -- `pkg.T` is never
	// retried as a fully-qualified name; likewise when the bound package cannot be imported. Controls: the std package bound
	// again last, and no Import() at all.
	lio := "example.com/c20/lib/io"
	for _, imps := range [][]string{{fio}, {lio}, {"io", fio}, {fio, lio}, {"example.com/nosuch/io"}} {
		for _, q := range []reqT{iq("io", "StringWriter"), iq("io", "Writer"), iq("io", "ReadWriter"), fr("io", "StringWriter", "WriteString"),
			fr("io", "Writer", "Write"), fr("io", "Reader", "Read")} {
			sc := mk(g(false, imps, q), g(false, nil, q))
			sc.Own = true
			sc.Position = "a name the bound package lacks"
			scs = append(scs, sc)
		}
	}
	scs = append(scs, mk(g(false, []string{fio, "io"}, iq("io", "StringWriter"), iq("io", "Writer"), fr("io", "Reader", "Read")),
		g(false, []string{lio, fio, "io"}, iq("io", "ReadWriter"), fr("io", "StringWriter", "WriteString"))))
	// no dot at all / nothing after the dot: not a fully-qualified name
	for _, cu := range []customT{{"GetInterface", "Reader", ""}, {"GetType", "Buffer", ""}, {"GetType", "strings.", ""}, {"GetInterface", "io.", ""}} {
		sc := mk(cg(nil, cu))
		sc.Own = true
		sc.ORunPanic = cu.FQN
		scs = append(scs, sc)
	}

	// ---- a qualified name in every position of a type pattern
	for k, sh := range posShapes {
		scs = append(scs, posLoadScenario(sh, k))
	}
	o.PosParse = posParseSweep()
	o.ASTFields = astTypeFields()
	rpos := rand.New(rand.NewSource(*seed*7919 + 17))
	for k, pf := range posFailShapes(rpos, *ntriples, func(sh string) bool { return o.PosParse.accepted[sh] }) {
		scs = append(scs, posFailScenario(pf, k))
	}
	for i := 0; i < *nscen; i++ {
		var sc scenario
		withCustom := r.Intn(6) == 0
		for k, n := 0, 1+r.Intn(3); k < n; k++ {
			var gr groupT
			gr.Skip = r.Intn(8) == 0
			if withCustom && !gr.Skip {
				for c, m := 0, 1+r.Intn(2); c < m; c++ {
					gr.Custom = append(gr.Custom, customMenu[r.Intn(len(customMenu))])
				}
			}
			for r.Intn(5) < 2 && len(gr.Imports) < 3 {
				gr.Imports = append(gr.Imports, importMenu[r.Intn(len(importMenu))])
			}
			if r.Intn(5) == 0 { // bind one base name several times
				f := families[r.Intn(len(families))]
				for c, m := 0, 2+r.Intn(2); c < m; c++ {
					gr.Imports = append(gr.Imports, f.paths[r.Intn(len(f.paths))])
				}
			}
			for j, m := 0, 1+r.Intn(3); j < m; j++ {
				q := genReq(r)
				gr.Reqs = append(gr.Reqs, q)
				// mostly give the group an Import() that binds the name (so that most files load)
				if (q.Pkg == "foo" || q.Pkg == "lib" || q.Pkg == "plain" || q.Pkg == "api" || q.Pkg == "example" || q.Pkg == "gopkg") && r.Intn(6) != 0 {
					bound := false
					for _, imp := range gr.Imports {
						bound = bound || path.Base(imp) == q.Pkg
					}
					if !bound {
						cands := map[string][]string{"foo": {"example.com/a/foo", "example.com/b/foo", "example.com/c20/lib/foo"}, "lib": {"example.com/c20/lib"},
							"plain": {"example.com/c20/lib/v1.2/plain"}, "api": {"example.com/c20/lib/api"},
							"example": {"example.com/c20/lib/example"}, "gopkg": {"example.com/c20/lib/gopkg"}}[q.Pkg]
						gr.Imports = append(gr.Imports, cands[r.Intn(len(cands))])
					}
				}
			}
			r.Shuffle(len(gr.Imports), func(a, b int) { gr.Imports[a], gr.Imports[b] = gr.Imports[b], gr.Imports[a] })
			sc.Groups = append(sc.Groups, gr)
		}
		scs = append(scs, sc)
	}

	// ---- names; the qualified names of every type string
	usedStd := map[string]bool{}
	for si := range scs {
		sc := &scs[si]
		sc.ID = si
		for gi := range sc.Groups {
			gr := &sc.Groups[gi]
			gr.Name = groupName(sc, si, gi)
			for j := range gr.Reqs {
				q := &gr.Reqs[j]
				usedStd[q.Pkg] = true
				if (q.Kind == "typepat" || q.Kind == "typeconstr") && isShape(q.Wrap) {
					q.QNames = qualifiedNames(q.patternOf())
					for _, qn := range q.QNames {
						usedStd[qn[0]] = true
					}
				}
			}
			for _, cu := range gr.Custom {
				sc.Own = sc.Own || isDottedFQN(cu.FQN)
			}
		}
	}

	// ---- target universe (in memory; the fake packages' sources are the files the engine's importer reads).
	// One ruleguard run reports a node for the first matching rule only, so every rule gets its own probe function.
	var tb strings.Builder
	tb.WriteString(targetSrc)
	bundleProbesDone := false
	for si := range scs {
		for gi, gr := range scs[si].Groups {
			name := gr.Name
			if gi < scs[si].Bundle {
				if bundleProbesDone {
					continue // the bundle's probe functions are shared by all files importing it (each runs in its own engine)
				}
				if gi == scs[si].Bundle-1 {
					bundleProbesDone = true
				}
			}
			for j, q := range gr.Reqs {
				// the values a rule is asked about: p00.. ; for a name inside a composite type the typed probes of that shape
				var vars, vtypes []string
				if isShape(q.Wrap) {
					for _, qi := range probesForWrap(q.Wrap) {
						vars, vtypes = append(vars, qprobes[qi].Name), append(vtypes, qprobes[qi].Type)
					}
				} else {
					for k := 0; k < nProbes; k++ {
						vars, vtypes = append(vars, fmt.Sprintf("p%02d", k)), append(vtypes, probeTypes[k])
					}
				}
				if q.Op == "sink" {
					// the sink of the call is the declared type of the variable it initialises
					fmt.Fprintf(&tb, "\nfunc probe_%s_r%d[T any](x T) T { return x }\n\nvar (\n", name, j)
					for k := range vars {
						fmt.Fprintf(&tb, "\t_ %s = probe_%s_r%d(%s)\n", vtypes[k], name, j, vars[k])
					}
					tb.WriteString(")\n")
					continue
				}
				fmt.Fprintf(&tb, "\nfunc probe_%s_r%d(interface{}) {}\nfunc use_%s_r%d() {\n", name, j, name, j)
				for k := range vars {
					fmt.Fprintf(&tb, "\tprobe_%s_r%d(%s)\n", name, j, vars[k])
				}
				tb.WriteString("}\n")
			}
			for j := range gr.Custom {
				fmt.Fprintf(&tb, "\nfunc probe_%s_c%d(interface{}) {}\nfunc use_%s_c%d() {\n", name, j, name, j)
				for k := 0; k < nProbes; k++ {
					fmt.Fprintf(&tb, "\tprobe_%s_c%d(p%02d)\n", name, j, k)
				}
				tb.WriteString("}\n")
			}
		}
	}
	fullTarget := tb.String()
	const targetPath = "example.com/c20/target"
	srcs := map[string]string{targetPath: fullTarget}
	for p, f := range fakeDirs {
		b, err := os.ReadFile(f)
		if err != nil {
			fail(err)
		}
		srcs[p] = string(b)
	}
	for cp, orig := range copyOf {
		srcs[cp] = srcs[orig]
	}
	stdFset := token.NewFileSet()
	stdImp := importer.ForCompiler(stdFset, "source", nil)
	u, err := gtypes.NewUniverse(1, srcs, stdImp)
	if err != nil {
		fail(err)
	}
	tpkg := u.Pkgs[targetPath]
	tfile := u.Files[targetPath]
	orc := &oracle{u: u, std: stdImp, tpkg: tpkg, tpos: tfile.Name.Pos(), aliases: map[string]string{}}
	for _, imp := range tfile.Imports {
		ip := strings.Trim(imp.Path.Value, "\"")
		if imp.Name != nil {
			orc.aliases[ip] = imp.Name.Name
		} else {
			orc.aliases[ip] = path.Base(ip)
		}
	}
	for i := 0; i < nProbes; i++ {
		name := fmt.Sprintf("p%02d", i)
		orc.probes = append(orc.probes, tpkg.Scope().Lookup(name).Type())
		o.Probes = append(o.Probes, name+" "+types.TypeString(orc.probes[i], nil))
	}
	for _, q := range qprobes {
		orc.qtypes = append(orc.qtypes, tpkg.Scope().Lookup(q.Name).Type())
		o.QProbes = append(o.QProbes, q.Name+" "+q.Type)
	}

	lap("universe")
	// ---- per file: what the documented resolution says (the oracle, independent of the engine), then Load / LoadFromIR
	fset := token.NewFileSet()
	eng := ruleguard.NewEngine()
	lctx := &ruleguard.LoadContext{Fset: fset, GroupFilter: func(gr *ruleguard.GoRuleGroup) bool { return !strings.Contains(gr.Name, "skip_") }}
	engIR := ruleguard.NewEngine()
	ownEngines := map[int]*ruleguard.Engine{} // bundle files and Own files
	ownIR := map[int]*ruleguard.Engine{}
	engFail, engFailIR := ruleguard.NewEngine(), ruleguard.NewEngine()
	for si := range scs {
		sc := &scs[si]
		sc.Obs = map[string][]string{}
		sc.ObsIR = map[string][]string{}
		sc.OTarget = map[string]string{}
		// oracle
		for _, gr := range sc.Groups {
			for j, cu := range gr.Custom {
				// types.Identical(ctx.Type, ctx.GetType(fqn)) is plain identity with the named package (no vendor stripping:
				// that is a convention of type patterns only)
				op := "cident"
				if cu.Call == "GetInterface" {
					op = "impl"
				}
				if cu.Target == "" {
					continue // unresolvable: nothing to report, Run must stop (o_run_panic)
				}
				sc.OTarget[fmt.Sprintf("%s_c%d", gr.Name, j)] = cu.Target
				key := op + "||" + cu.Target
				if _, done := o.Table[key]; !done {
					o.Table[key] = orc.satisfied(op, "", cu.Target)
					if o.Table[key] == nil {
						o.Table[key] = []string{}
					}
				}
			}
		}
		shapeReq := false
		for _, gr := range sc.Groups {
			if gr.Skip {
				continue
			}
			for j, q := range gr.Reqs {
				shapeReq = shapeReq || isShape(q.Wrap)
				tgt := orc.resolve(gr.Imports, q)
				if tgt == "" {
					sc.OFailed = true
					break
				}
				if q.Kind == "typepat" && sc.OUnknownTypeName == "" {
					f := strings.Fields(tgt)
					for i := 1; i+1 < len(f); i += 2 {
						pk := orc.pkg(f[i])
						known := false
						if pk != nil {
							if obj := pk.Scope().Lookup(f[i+1]); obj != nil {
								_, known = obj.(*types.TypeName)
							}
						}
						if !known && sc.OUnknownTypeName == "" {
							sc.OUnknownTypeName = fmt.Sprintf("%s_r%d %s -> %s.%s", gr.Name, j, q.patternOf(), f[i], f[i+1])
						}
					}
				}
				sc.OTarget[fmt.Sprintf("%s_r%d", gr.Name, j)] = tgt
				key := q.Op + "|" + q.Wrap + "|" + tgt
				if _, done := o.Table[key]; !done {
					o.Table[key] = orc.satisfied(q.Op, q.Wrap, tgt)
					if o.Table[key] == nil {
						o.Table[key] = []string{}
					}
				}
			}
			if sc.OFailed {
				break
			}
		}
		if sc.OFailed {
			sc.OTarget = map[string]string{}
			// a file that must not load and has a name inside a composite type: should it load after all, what it does to Run
			// (a nil sub-pattern is dereferenced) must stay this file's doing
			sc.Own = sc.Own || shapeReq
		}

		sc.Rules = renderRules(sc)
		hasCustom := false
		for _, gr := range sc.Groups {
			hasCustom = hasCustom || len(gr.Custom) > 0
		}
		load := func(e *ruleguard.Engine) (msg string) {
			defer func() {
				if p := recover(); p != nil {
					msg = fmt.Sprintf("PANIC: %v", p)
				}
			}()
			if err := e.Load(lctx, fmt.Sprintf("s%d.go", si), strings.NewReader(sc.Rules)); err != nil {
				return err.Error()
			}
			return ""
		}
		loadIR := func(e *ruleguard.Engine) (msg string) {
			defer func() {
				if p := recover(); p != nil {
					msg = fmt.Sprintf("PANIC: %v", p)
				}
			}()
			if hasCustom || sc.Bundle > 0 {
				return "n/a" // custom filter functions are compiled by Load only; bundle files run in engines of their own
			}
			irf, err := ruleguard.VerifConvertAST(e, lctx, fmt.Sprintf("s%d.go", si), []byte(sc.Rules))
			if err == nil {
				err = e.LoadFromIR(lctx, fmt.Sprintf("s%d.go", si), irf)
			}
			if err != nil {
				return err.Error()
			}
			return ""
		}
		switch {
		case sc.Own && sc.OFailed:
			// files that must not load share one pair of engines that is never run; one that loads after all is loaded again
			// into engines of its own, which are then run on its own probe functions
			sc.LoadErr, sc.LoadErrIR = load(engFail), loadIR(engFailIR)
			if sc.LoadErr == "" {
				ownEngines[si] = ruleguard.NewEngine()
				sc.LoadErr = load(ownEngines[si])
			}
			if sc.LoadErrIR == "" {
				ownIR[si] = ruleguard.NewEngine()
				sc.LoadErrIR = loadIR(ownIR[si])
			}
		case sc.Bundle > 0 || sc.Own:
			// a file that imports the bundle gets an engine of its own (the bundle's rules would otherwise be loaded twice)
			ownEngines[si], ownIR[si] = ruleguard.NewEngine(), ruleguard.NewEngine()
			sc.LoadErr, sc.LoadErrIR = load(ownEngines[si]), loadIR(ownIR[si])
		default:
			sc.LoadErr, sc.LoadErrIR = load(eng), loadIR(engIR)
		}
	}

	lap("oracle + loads")
	// ---- one run over the target
	tinfo := u.Infos[targetPath]
	target := &hutil.Target{Fset: u.Fset, File: tfile, Info: tinfo, Pkg: tpkg, Src: []byte(fullTarget), Path: targetPath + "/src.go"}
	// the probe functions (and sink variables) of one file only
	declOwner := func(d ast.Decl) string {
		name := ""
		switch d := d.(type) {
		case *ast.FuncDecl:
			name = d.Name.Name
		case *ast.GenDecl:
			if len(d.Specs) > 0 {
				if vs, ok := d.Specs[0].(*ast.ValueSpec); ok && len(vs.Values) == 1 {
					if call, ok := vs.Values[0].(*ast.CallExpr); ok {
						if id, ok := call.Fun.(*ast.Ident); ok {
							name = id.Name
						}
					}
				}
			}
		}
		name = strings.TrimPrefix(strings.TrimPrefix(name, "probe_"), "use_")
		if i := strings.LastIndex(name, "_"); i > 0 {
			return name[:i] // the group
		}
		return ""
	}
	subTarget := func(sc *scenario) *hutil.Target {
		groups := map[string]bool{}
		for _, gr := range sc.Groups {
			groups[gr.Name] = true
		}
		f := *tfile
		f.Decls = nil
		for _, d := range tfile.Decls {
			if groups[declOwner(d)] {
				f.Decls = append(f.Decls, d)
			}
		}
		t := *target
		t.File = &f
		return &t
	}
	collect := func(e *ruleguard.Engine, tgt *hutil.Target, dst func(sc *scenario) map[string][]string, only int) string {
		reports, pmsg := hutil.Run(e, tgt, 0, "", nil)
		byRule := map[string][]string{}
		for _, rep := range reports {
			f := strings.Fields(rep.Message)
			if len(f) == 2 {
				byRule[f[0]] = append(byRule[f[0]], f[1])
			}
		}
		for si := range scs {
			sc := &scs[si]
			if (only >= 0 && si != only) || (only < 0 && (sc.Bundle > 0 || sc.Own)) {
				continue
			}
			for _, gr := range sc.Groups {
				ids := []string{}
				for j := range gr.Reqs {
					ids = append(ids, fmt.Sprintf("%s_r%d", gr.Name, j))
				}
				for j := range gr.Custom {
					ids = append(ids, fmt.Sprintf("%s_c%d", gr.Name, j))
				}
				for _, id := range ids {
					if v, ok := byRule[id]; ok {
						sort.Strings(v)
						dst(sc)[id] = v
					}
				}
			}
		}
		return pmsg
	}
	o.RunPanic = collect(eng, target, func(sc *scenario) map[string][]string { return sc.Obs }, -1)
	lap("run: shared engine")
	var osis []int
	for si := range scs {
		if ownEngines[si] != nil || ownIR[si] != nil {
			osis = append(osis, si)
		}
	}
	sort.Ints(osis)
	for _, si := range osis {
		sc := &scs[si]
		if sc.LoadErr == "" && ownEngines[si] != nil {
			// (an engine of its own is run on the probe functions of its file's groups only)
			if p := collect(ownEngines[si], subTarget(sc), func(sc *scenario) map[string][]string { return sc.Obs }, si); p != "" {
				if sc.Own {
					sc.OwnRun = "PANIC: " + p
				} else {
					o.RunPanic += fmt.Sprintf(" | bundle engine of s%d.go: %s", si, p)
				}
			}
		}
		if sc.Own && sc.LoadErrIR == "" && ownIR[si] != nil {
			if p := collect(ownIR[si], subTarget(sc), func(sc *scenario) map[string][]string { return sc.ObsIR }, si); p != "" {
				sc.OwnRunIR = "PANIC: " + p
			}
		}
	}
	lap("run: own engines")
	if p := collect(engIR, target, func(sc *scenario) map[string][]string { return sc.ObsIR }, -1); p != "" {
		o.RunPanic += " | IR engine: " + p
	}
	o.Scenarios = scs
	lap("runs")

	// ---- the world the model needs: every (package, name) of the menus, as go/types sees it
	seen := map[string]bool{}
	addWorld := func(p, name string) {
		if seen[p+" "+name] {
			return
		}
		seen[p+" "+name] = true
		pk := orc.pkg(p)
		if pk == nil {
			return
		}
		obj := pk.Scope().Lookup(name)
		if obj == nil {
			return
		}
		if _, isT := obj.(*types.TypeName); !isT {
			return
		}
		we := worldEntry{Path: p, Name: name, Methods: []string{}}
		if it, ok := obj.Type().Underlying().(*types.Interface); ok {
			we.Iface = true
			for i := 0; i < it.NumMethods(); i++ {
				we.Methods = append(we.Methods, it.Method(i).Name())
			}
		}
		o.World = append(o.World, we)
	}
	var paths []string
	for _, p := range importMenu {
		paths = append(paths, p)
	}
	for n := range usedStd {
		if p, ok := stdDefaults[n]; ok {
			o.Std[n] = p
			paths = append(paths, p)
		}
		paths = append(paths, n) // the name taken as a path
	}
	for _, m := range ifaceFqnMenu {
		paths = append(paths, m[0])
	}
	names := map[string]bool{}
	for _, m := range typepatMenu {
		names[m[1]] = true
	}
	for _, m := range ifaceQualMenu {
		names[m[1]] = true
	}
	for _, m := range ifaceFqnMenu {
		names[m[1]] = true
	}
	for _, m := range funcrefMenu {
		names[m[1]] = true
	}
	// ... and the names the hand-written files ask for
	for si := range scs {
		for _, gr := range scs[si].Groups {
			for _, q := range gr.Reqs {
				if q.Kind != "typepat" && q.Kind != "typeconstr" {
					names[q.Name] = true
				}
			}
		}
	}
	sort.Strings(paths)
	for _, p := range paths {
		var ns []string
		for n := range names {
			ns = append(ns, n)
		}
		sort.Strings(ns)
		for _, n := range ns {
			addWorld(p, n)
		}
	}
	so, err := stdSweep()
	if err != nil {
		fail(err)
	}
	o.StdSweep = so
	lap("std sweep")
	if o.FQNSweep, err = fqnSweep(*seed); err != nil {
		fail(err)
	}
	lap("fqn sweep")
	o.StdTable = stdDefaults
	o.Scripts, o.ItabNames, o.ItabPaths = itabScripts(*seed, *nscripts), itabNames, itabPaths
	enc.Encode(o)
}
