package main

// Scripted histories of the import table itself: typematch.NewImportsTab / EnterScope / Load / LeaveScope / Lookup driven
// directly (all exported), the whole visible table (Lookup of every name of a small universe) recorded after every step.
//
// The scripts are what a loader can do and more: scopes nested up to four deep, the same name bound two and three times inside
// one scope, re-bound in inner scopes, scopes left in every state. The Coq model (ImportsTab.v: exec / snapshot) runs the same
// scripts (correspondence); the oracle here is history based and shares nothing with a stack of maps:
//
//	Lookup(name) = the path of the most recent Load(name, _) whose scope has not been left yet, else the initial binding
//
// (ImportsTab.v proves that the model's lookup is exactly that: lookup_is_most_recent_live_binding).
// The initial map is the caller's (the engine passes the shared stdinfo.PathByName): it must be unchanged afterwards when no
// Load happened outside a scope.

import (
	"fmt"
	"math/rand"
	"strings"

	"github.com/quasilyte/go-ruleguard/ruleguard/typematch"
)

type itabScript struct {
	Init   [][2]string `json:"init"`
	Ops    []string    `json:"ops"`    // "E", "X", "L <name> <path>"
	Obs    []string    `json:"obs"`    // after every op: one letter per name of itabNames ('-' = unbound, else index into itabPaths)
	Oracle []string    `json:"oracle"` // the same by the history oracle
	Panic  string      `json:"panic"`
	// the caller's initial map after the script ("" = unchanged)
	InitChanged string `json:"init_changed"`
	MaxDepth    int    `json:"max_depth"`
	Rebinds     int    `json:"rebinds"` // Loads of a name already bound in the same scope
}

var itabNames = []string{"a", "b", "c", "d"}
var itabPaths = []string{"p/a", "q/a", "r/b", "s/c", "t/d", "u/a"}

func pathLetter(p string, ok bool) byte {
	if !ok {
		return '-'
	}
	for i, q := range itabPaths {
		if q == p {
			return byte('0' + i)
		}
	}
	return '?'
}

// histLookup: scan the history backwards; Loads inside scopes that have been left are skipped
func histLookup(init map[string]string, hist []string, name string) (string, bool) {
	skip := 0
	for i := len(hist) - 1; i >= 0; i-- {
		f := strings.Fields(hist[i])
		switch f[0] {
		case "X":
			skip++
		case "E":
			if skip > 0 {
				skip--
			}
		case "L":
			if skip == 0 && f[1] == name {
				return f[2], true
			}
		}
	}
	if skip > 0 {
		return "", false
	}
	p, ok := init[name]
	return p, ok
}

func genItabScript(r *rand.Rand, n int) itabScript {
	var sc itabScript
	init := map[string]string{}
	for _, nm := range itabNames {
		if r.Intn(2) == 0 {
			p := itabPaths[r.Intn(len(itabPaths))]
			init[nm] = p
			sc.Init = append(sc.Init, [2]string{nm, p})
		}
	}
	depth := 0
	boundHere := []map[string]bool{} // per open scope
	for len(sc.Ops) < n {
		switch k := r.Intn(10); {
		case k < 2 && depth < 4:
			sc.Ops = append(sc.Ops, "E")
			depth++
			boundHere = append(boundHere, map[string]bool{})
		case k < 4 && depth > 0:
			sc.Ops = append(sc.Ops, "X")
			depth--
			boundHere = boundHere[:depth]
		case depth > 0:
			// bind a name; often one that this scope has bound already (to another path), 2..3 times in a row
			nm := itabNames[r.Intn(len(itabNames))]
			if len(boundHere[depth-1]) > 0 && r.Intn(2) == 0 {
				for _, cand := range itabNames { // (no map iteration: the script must be a function of the seed)
					if boundHere[depth-1][cand] {
						nm = cand
						break
					}
				}
			}
			for c, m := 0, 1+r.Intn(3); c < m && len(sc.Ops) < n; c++ {
				if boundHere[depth-1][nm] {
					sc.Rebinds++
				}
				boundHere[depth-1][nm] = true
				sc.Ops = append(sc.Ops, fmt.Sprintf("L %s %s", nm, itabPaths[r.Intn(len(itabPaths))]))
			}
		}
		if depth > sc.MaxDepth {
			sc.MaxDepth = depth
		}
	}
	for depth > 0 { // leave everything: the table must be the initial one again
		sc.Ops = append(sc.Ops, "X")
		depth--
	}
	return sc
}

func runItabScript(sc *itabScript) {
	init := map[string]string{}
	for _, kv := range sc.Init {
		init[kv[0]] = kv[1]
	}
	own := map[string]string{}
	for k, v := range init {
		own[k] = v
	}
	defer func() {
		if p := recover(); p != nil {
			sc.Panic = fmt.Sprintf("after %d ops: %v", len(sc.Obs), p)
		}
	}()
	tab := typematch.NewImportsTab(init)
	for i, op := range sc.Ops {
		f := strings.Fields(op)
		switch f[0] {
		case "E":
			tab.EnterScope()
		case "X":
			tab.LeaveScope()
		case "L":
			tab.Load(f[1], f[2])
		}
		obs := make([]byte, len(itabNames))
		orc := make([]byte, len(itabNames))
		for j, nm := range itabNames {
			p, ok := tab.Lookup(nm)
			obs[j] = pathLetter(p, ok)
			q, ok2 := histLookup(own, sc.Ops[:i+1], nm)
			orc[j] = pathLetter(q, ok2)
		}
		sc.Obs = append(sc.Obs, string(obs))
		sc.Oracle = append(sc.Oracle, string(orc))
	}
	if len(init) != len(own) {
		sc.InitChanged = fmt.Sprintf("%v (was %v)", init, own)
	}
	for k, v := range own {
		if init[k] != v {
			sc.InitChanged = fmt.Sprintf("%v (was %v)", init, own)
		}
	}
}

func itabScripts(seed int64, n int) []itabScript {
	r := rand.New(rand.NewSource(seed + 15485863))
	var out []itabScript
	// hand-written: the shapes of a loader (one scope per group) with a name bound twice / three times
	for _, ops := range [][]string{
		{"E", "L a q/a", "L a u/a", "X", "E", "X"},
		{"E", "L a q/a", "L a u/a", "L a p/a", "X", "E", "L b r/b", "X"},
		{"E", "L a q/a", "X", "E", "L a u/a", "L a q/a", "X", "E", "X"},
		{"E", "L a q/a", "E", "L a u/a", "L a p/a", "X", "L a u/a", "X"},
		{"E", "L b r/b", "L a q/a", "L b r/b", "L a u/a", "X"},
	} {
		for _, init := range [][][2]string{nil, {{"a", "p/a"}}, {{"a", "u/a"}, {"b", "r/b"}}} {
			out = append(out, itabScript{Init: init, Ops: ops})
		}
	}
	for i := 0; i < n; i++ {
		out = append(out, genItabScript(r, 8+r.Intn(30)))
	}
	for i := range out {
		runItabScript(&out[i])
	}
	return out
}
