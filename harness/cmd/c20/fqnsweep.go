package main

// Fully-qualified names, resolved by engineState.FindType alone (hook VerifFindType: the way the GetType / GetInterface
// natives call it during Run, with the package of the file being checked).
//
// `path/to/pkg.T` denotes T of the package whose import path is everything before the LAST dot of the whole string. The
// sweep builds an in-memory universe of packages whose paths have dots everywhere -- in the host, in middle elements, in
// the last element (once, twice), no slash at all, under a vendor directory -- together with every package a wrong cut
// could end up in (`gopkg.in/yaml` next to `gopkg.in/yaml.v3`, declaring a type `v3`), imports all of them into one
// package and asks for every (path, name): the answer must be the very type object of that package. The expected split is
// known by construction (path and name are joined here), not computed from the string.

import (
	"fmt"
	"go/token"
	"go/types"
	"math/rand"
	"sort"
	"strings"

	"verif/harness/internal/gtypes"

	"github.com/quasilyte/go-ruleguard/ruleguard"
)

type fqnCase struct {
	FQN    string `json:"fqn"`
	Path   string `json:"path"` // by construction
	Name   string `json:"name"`
	Expect string `json:"expect"` // "type <path>.<name>" or "error"
	Got    string `json:"got"`    // "type <path>.<name>" (the object's own package), "error: ...", "PANIC: ..."
	Again  string `json:"again"`  // the same lookup a second time (caches)
}

type fqnOut struct {
	Cases    []fqnCase `json:"cases"`
	Packages []string  `json:"packages"`
}

func fqnSweep(seed int64) (*fqnOut, error) {
	r := rand.New(rand.NewSource(seed*104729 + 5))
	paths := []string{
		"gopkg.in/yaml.v3", "gopkg.in/yaml", "gopkg.in/check.v1", "gopkg.in/check", "example.com/api.v2", "example.com/api",
		"a.b/c.d/e.f", "a.b/c.d/e", "a.b/c", "x/y.z/w", "x/y", "host.tld/v1.2.3/pkg.name.v4", "host.tld/v1.2.3/pkg.name", "host.tld/v1.2.3/pkg",
		"host.tld/v1", "noslash.v2", "noslash", "plainpkg", "example.com/app/vendor/gopkg.in/yaml.v3", "example.com/app/vendor/gopkg.in/yaml",
		"example.com/x.y/vendor/q.r/s.t", "k8s.io/api/core/v1", "k8s.io/api/core.v1",
	}
	el := func() string {
		words := []string{"a", "pkg", "v2", "x1", "core", "yaml", "in", "io", "v10"}
		s := words[r.Intn(len(words))]
		for n := r.Intn(3); n > 0; n-- {
			s += "." + words[r.Intn(len(words))]
		}
		return s
	}
	for n := 0; n < 24; n++ {
		var els []string
		for k := 1 + r.Intn(4); k > 0; k-- {
			els = append(els, el())
		}
		paths = append(paths, strings.Join(els, "/"))
	}
	// every package a cut at another dot of `<path>.<Name>` would name
	seen := map[string]bool{}
	var all []string
	add := func(p string) {
		if p != "" && !seen[p] && !strings.HasSuffix(p, "/") && !strings.HasPrefix(p, "/") && !strings.Contains(p, "//") {
			seen[p] = true
			all = append(all, p)
		}
	}
	for _, p := range paths {
		add(p)
	}
	for _, p := range paths {
		for i := 0; i < len(p); i++ {
			if p[i] == '.' {
				add(p[:i])
			}
		}
	}
	sort.Strings(all)
	srcs := map[string]string{}
	var tb strings.Builder
	tb.WriteString("package fqntarget\n\nimport (\n")
	for i, p := range all {
		// the package name is the last element up to its first dot (gopkg.in style); what it declares: T, an interface U, and a
		// type named after every dotted tail of the last element (`v3` in gopkg.in/yaml, for `gopkg.in/yaml.v3`)
		base := p[strings.LastIndexByte(p, '/')+1:]
		pn := base
		if j := strings.IndexByte(pn, '.'); j >= 0 {
			pn = pn[:j]
		}
		if !token.IsIdentifier(pn) || pn == "_" {
			pn = "p"
		}
		src := fmt.Sprintf("package %s\n\ntype T struct{ F%d int }\n\ntype U interface{ M%d() }\n", pn, i, i)
		decl := map[string]bool{"T": true, "U": true}
		for _, q := range paths {
			if strings.HasPrefix(q, p+".") {
				tail := q[len(p)+1:]
				if j := strings.IndexByte(tail, '.'); j >= 0 {
					tail = tail[:j]
				}
				if j := strings.IndexByte(tail, '/'); j >= 0 {
					tail = tail[:j]
				}
				if token.IsIdentifier(tail) && !decl[tail] {
					decl[tail] = true
					src += fmt.Sprintf("\ntype %s struct{ Tail%d int }\n", tail, i)
				}
			}
		}
		srcs[p] = src
		fmt.Fprintf(&tb, "\ti%d %q\n", i, p)
	}
	tb.WriteString(")\n\nvar (\n")
	for i := range all {
		fmt.Fprintf(&tb, "\tv%d i%d.T\n", i, i)
	}
	tb.WriteString(")\n")
	const tp = "example.com/c20/fqntarget"
	srcs[tp] = tb.String()
	u, err := gtypes.NewUniverse(4, srcs, nil)
	if err != nil {
		return nil, fmt.Errorf("fqn sweep universe: %v", err)
	}
	out := &fqnOut{Packages: all}
	eng := ruleguard.NewEngine()
	// the hook needs a loaded engine state
	if err := eng.Load(&ruleguard.LoadContext{Fset: token.NewFileSet()}, "fqnsweep.go", strings.NewReader(
		"package gorules\n\nimport \"github.com/quasilyte/go-ruleguard/dsl\"\n\nfunc fqnsweep(m dsl.Matcher) {\n\tm.Match(`fqnsweep_never($x)`).Report(`x`)\n}\n")); err != nil {
		return nil, fmt.Errorf("fqn sweep engine: %v", err)
	}
	lookup := func(fqn string) (res string) {
		defer func() {
			if p := recover(); p != nil {
				res = fmt.Sprintf("PANIC: %v", p)
			}
		}()
		typ, err := ruleguard.VerifFindType(eng, u.Fset, u.Pkgs[tp], fqn)
		if err != nil {
			return "error: " + err.Error()
		}
		if nt, ok := typ.(*types.Named); ok && nt.Obj().Pkg() != nil {
			// the identity of the answer: the package object the type belongs to must be the universe's package at that path
			if u.Pkgs[nt.Obj().Pkg().Path()] == nt.Obj().Pkg() {
				return "type " + nt.Obj().Pkg().Path() + "." + nt.Obj().Name()
			}
			return "type " + nt.Obj().Pkg().Path() + "." + nt.Obj().Name() + " (of another type-check)"
		}
		return "type " + typ.String()
	}
	for _, p := range all {
		for _, n := range []string{"T", "U"} {
			c := fqnCase{FQN: p + "." + n, Path: p, Name: n, Expect: "type " + p + "." + n}
			c.Got = lookup(c.FQN)
			c.Again = lookup(c.FQN)
			out.Cases = append(out.Cases, c)
		}
	}
	// names that denote nothing: a dependency that does not declare the name (no importer involved)
	for _, p := range []string{"gopkg.in/yaml.v3", "a.b/c.d/e.f", "noslash.v2"} {
		c := fqnCase{FQN: p + ".NoSuchName", Path: p, Name: "NoSuchName", Expect: "error"}
		c.Got = lookup(c.FQN)
		c.Again = lookup(c.FQN)
		out.Cases = append(out.Cases, c)
	}
	// ... and a name the package does not declare that is a PREDECLARED identifier (a type, a constant, nil, a builtin function):
	// `path.error` is not the universe's error -- the object is looked up in the scope of the package, not in its parents
	for k, n := range types.Universe.Names() {
		for j, p := range []string{"gopkg.in/yaml.v3", "a.b/c.d/e.f", "noslash.v2", "plainpkg", "k8s.io/api/core/v1"} {
			if (k+j)%2 == 1 && n != "error" && n != "string" && n != "any" {
				continue
			}
			c := fqnCase{FQN: p + "." + n, Path: p, Name: n, Expect: "error"}
			c.Got = lookup(c.FQN)
			c.Again = lookup(c.FQN)
			out.Cases = append(out.Cases, c)
		}
	}
	return out, nil
}
