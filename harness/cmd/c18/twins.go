package main

import (
	"fmt"
	"strings"
)

// A fixed catalogue of helper shapes with their meaning under Go's semantics written out by hand (the inlined twin): present in
// every run, whatever the seed. Most are rejected by the converter today; each must stay rejected or load with the twin's meaning.

type fixedTwin struct {
	name     string
	helper   string      // body of the rule group, with helpers
	inlined  string      // the same group without helpers (what Go's scoping and evaluation rules make of it)
	pkg      string      // package-level declarations
	rejected bool        // Go's reading of the group (inlined) is not a loadable rule: the group with helpers must be rejected too
	more     [][2]string // further rule groups g1, g2, ... of the same file: {with helpers / named constants, written out}
}

func twinRule(where string) string {
	return "\tm.Match(`$x + $y`).\n\t\tWhere(" + where + ").\n\t\tReport(`hit $x`)\n"
}

var fixedTwins = func() []fixedTwin {
	var out []fixedTwin
	add := func(name, pkg, helper, inlined string) {
		out = append(out, fixedTwin{name: name, pkg: pkg, helper: helper, inlined: inlined})
	}
	x, y := `m["x"]`, `m["y"]`
	// blank parameters in every position, one field per parameter and grouped
	for _, b := range []struct{ params, args, use string }{
		{"_ dsl.Var, v dsl.Var", x + ", " + y, y},
		{"_, v dsl.Var", x + ", " + y, y},
		{"v dsl.Var, _ dsl.Var", x + ", " + y, x},
		{"v, _ dsl.Var", y + ", " + x, y},
		{"_ dsl.Var, _ dsl.Var, v dsl.Var", x + ", " + x + ", " + y, y},
		{"_ dsl.Var, v dsl.Var, _ dsl.Var", x + ", " + y + ", " + x, y},
		{"_ string, v dsl.Var", `"int64", ` + y, y},
		{"_ int, _ string, v dsl.Var, w dsl.Var", `8, "int64", ` + y + ", " + x, y},
	} {
		add("blank parameter: func("+b.params+")", "",
			"\tf := func("+b.params+") bool { return v.Type.Is(`int64`) }\n"+twinRule("f("+b.args+")"),
			twinRule("("+b.use+".Type.Is(`int64`))"))
	}
	add("blank parameter between a string and an int", "",
		"\tf := func(s string, _ int, n int, v dsl.Var) bool { return v.Type.Is(s) && v.Type.Size == n }\n"+twinRule("f(`int64`, 4, 8, "+x+")"),
		twinRule("("+x+".Type.Is(`int64`) && "+x+".Type.Size == 8)"))
	// a constant of the group that shadows a package-level constant of another value, named in a helper body, in every kind of
	// argument position
	for _, c := range []struct{ pkg, local, body, inl string }{
		{`const typeName = "int32"`, `const typeName = "int64"`, "v.Type.Is(typeName)", x + ".Type.Is(`int64`)"},
		{`const typeName = "int32"`, `const typeName = "int64"`, "v.Type.Underlying().Is(typeName)", x + ".Type.Underlying().Is(`int64`)"},
		{`const typeName = "int32"`, `const typeName = "int64"`, "v.Type.ConvertibleTo(typeName)", x + ".Type.ConvertibleTo(`int64`)"},
		{`const size = 4`, `const size = 8`, "v.Type.Size == size", x + ".Type.Size == 8"},
		{`const size = 4`, `const size = 8`, "size == v.Type.Size", "8 == " + x + ".Type.Size"},
		{`const val = 644`, `const val = 420`, "v.Value.Int() == val", x + ".Value.Int() == 420"},
		{`const txt = "b8"`, `const txt = "a8"`, "v.Text == txt", x + ".Text == `a8`"},
		{`const txt = "b8"`, `const txt = "a8"`, "v.Text.Matches(txt)", x + ".Text.Matches(`a8`)"},
		{`const kind = "uint"`, `const kind = "int"`, "v.Type.OfKind(kind)", x + ".Type.OfKind(`int`)"},
		{`const obj = "Func"`, `const obj = "Var"`, "v.Object.Is(obj)", x + ".Object.Is(`Var`)"},
		{`const tag = "BasicLit"`, `const tag = "Ident"`, "v.Node.Is(tag)", x + ".Node.Is(`Ident`)"},
		{`const sub = "b8"`, `const sub = "a8"`, "v.Contains(sub)", x + ".Contains(`a8`)"},
		{`const name = "y"`, `const name = "x"`, "m[name].Pure && v.Const", `m["x"].Pure && ` + x + ".Const"},
	} {
		add("shadowed constant in a helper body: "+c.body, c.pkg,
			"\t"+c.local+"\n\tf := func(v dsl.Var) bool { return "+c.body+" }\n"+twinRule("f("+x+")"),
			"\t"+c.local+"\n"+twinRule("("+c.inl+")"))
	}
	add("package-level constant in a helper body", `const typeName = "int64"`,
		"\tf := func(v dsl.Var) bool { return v.Type.Is(typeName) }\n"+twinRule("f("+x+")"), twinRule("("+x+".Type.Is(`int64`))"))
	add("group-level constant in a helper body", "",
		"\tconst typeName = \"int64\"\n\tf := func(v dsl.Var) bool { return v.Type.Is(typeName) }\n"+twinRule("f("+x+")"), twinRule("("+x+".Type.Is(`int64`))"))
	add("constant declared after the helper shadows nothing inside it", `const typeName = "int64"`,
		"\tf := func(v dsl.Var) bool { return v.Type.Is(typeName) }\n\tconst typeName = \"int32\"\n"+twinRule("f("+x+") || "+y+".Type.Is(typeName)"),
		twinRule("("+x+".Type.Is(`int64`)) || "+y+".Type.Is(`int32`)"))
	// definitions Go gives a meaning other than "the first := of that name"
	add("helper assigned again", "",
		"\tf := func(v dsl.Var) bool { return v.Type.Is(`int32`) }\n\tf = func(v dsl.Var) bool { return v.Type.Is(`int64`) }\n"+twinRule("f("+x+")"),
		twinRule("("+x+".Type.Is(`int64`))"))
	add("helper redefined in an inner block", "",
		"\tf := func(v dsl.Var) bool { return v.Type.Is(`int64`) }\n\t{\n\t\tf := func(v dsl.Var) bool { return v.Type.Is(`int32`) }\n\t\t_ = f\n\t}\n"+twinRule("f("+x+")"),
		twinRule("("+x+".Type.Is(`int64`))"))
	add("two helpers defined by one :=", "",
		"\tf, h := func(v dsl.Var) bool { return v.Type.Is(`int64`) }, func(v dsl.Var) bool { return v.Type.Is(`int32`) }\n"+twinRule("f("+x+") && !h("+y+")"),
		twinRule("("+x+".Type.Is(`int64`)) && !("+y+".Type.Is(`int32`))"))
	add("helper declared with var", "",
		"\tvar f = func(v dsl.Var) bool { return v.Type.Is(`int64`) }\n"+twinRule("f("+x+")"), twinRule("("+x+".Type.Is(`int64`))"))
	add("helper called through another name", "",
		"\tf := func(v dsl.Var) bool { return v.Type.Is(`int64`) }\n\th := f\n"+twinRule("h("+x+")"), twinRule("("+x+".Type.Is(`int64`))"))
	add("parenthesised helper name", "",
		"\tf := func(v dsl.Var) bool { return v.Type.Is(`int64`) }\n"+twinRule("(f)("+x+")"), twinRule("("+x+".Type.Is(`int64`))"))
	add("function literal called in place", "",
		twinRule("func(v dsl.Var) bool { return v.Type.Is(`int64`) }("+x+")"), twinRule("("+x+".Type.Is(`int64`))"))
	add("parameter named like the helper", "",
		"\tf := func(f dsl.Var) bool { return f.Type.Is(`int64`) }\n"+twinRule("f("+x+")"), twinRule("("+x+".Type.Is(`int64`))"))
	add("parameter named like the other helper it is passed to", "",
		"\tf := func(v dsl.Var) bool { return v.Type.Is(`int64`) }\n\th := func(f dsl.Var) bool { return f.Pure }\n"+twinRule("h("+x+") && f("+y+")"),
		twinRule("("+x+".Pure) && ("+y+".Type.Is(`int64`))"))
	add("arguments in the opposite order of equal-typed parameters", "",
		"\tf := func(v, w dsl.Var) bool { return v.Const && w.Type.Is(`int64`) }\n"+twinRule("f("+y+", "+x+")"),
		twinRule("("+y+".Const && "+x+".Type.Is(`int64`))"))
	// higher-order helpers: a parameter of function type is called in the body; the argument is another helper of the group.
	// In Go the parameter hides whatever else has its name.
	i64 := "\tp := func(v dsl.Var) bool { return v.Type.Is(`int64`) }\n"
	i32 := "\tq := func(v dsl.Var) bool { return v.Type.Is(`int32`) }\n"
	for _, hf := range []struct{ name, defs, where, inl string }{
		{"parameter with a name of its own", i64 + "\tck := func(pred func(dsl.Var) bool, v dsl.Var) bool { return pred(v) }\n", "ck(p, " + x + ")", "((" + x + ".Type.Is(`int64`)))"},
		{"parameter named like another helper, which is not the argument", i64 + i32 + "\tck := func(p func(dsl.Var) bool, v dsl.Var) bool { return p(v) }\n",
			"ck(q, " + x + ") || p(" + y + ")", "((" + x + ".Type.Is(`int32`))) || (" + y + ".Type.Is(`int64`))"},
		{"parameter named like a helper that is defined later", i32 + "\tck := func(p func(dsl.Var) bool, v dsl.Var) bool { return p(v) }\n" + i64,
			"ck(q, " + x + ") || p(" + y + ")", "((" + x + ".Type.Is(`int32`))) || (" + y + ".Type.Is(`int64`))"},
		{"parameter named like the higher-order helper itself", i64 + "\tck := func(ck func(dsl.Var) bool, v dsl.Var) bool { return ck(v) }\n", "ck(p, " + x + ")", "((" + x + ".Type.Is(`int64`)))"},
		{"two function parameters named like the two helpers, passed crosswise", i64 + i32 + "\tck := func(p, q func(dsl.Var) bool, v dsl.Var) bool { return p(v) && !q(v) }\n",
			"ck(q, p, " + x + ")", "((" + x + ".Type.Is(`int32`)) && !(" + x + ".Type.Is(`int64`)))"},
		{"function parameter called under a negation, next to another atom", i64 + i32 + "\tck := func(v dsl.Var, p func(dsl.Var) bool) bool { return !p(v) || v.Pure }\n",
			"ck(" + x + ", q) && p(" + y + ")", "(!(" + x + ".Type.Is(`int32`)) || " + x + ".Pure) && (" + y + ".Type.Is(`int64`))"},
		{"function parameter handed on to another higher-order helper", i64 + i32 + "\tck := func(p func(dsl.Var) bool, v dsl.Var) bool { return p(v) }\n\tck2 := func(q func(dsl.Var) bool, v dsl.Var) bool { return ck(q, v) }\n",
			"ck2(p, " + x + ") || q(" + y + ")", "(((" + x + ".Type.Is(`int64`)))) || (" + y + ".Type.Is(`int32`))"},
		{"function parameter of two arguments", "\tis := func(v dsl.Var, s string) bool { return v.Type.Is(s) }\n\tck := func(is func(dsl.Var, string) bool, v dsl.Var) bool { return is(v, `int64`) }\n",
			"ck(is, " + x + ")", "((" + x + ".Type.Is(`int64`)))"},
		{"parameter named like a helper, the same helper is the argument", i64 + "\tck := func(p func(dsl.Var) bool, v dsl.Var) bool { return p(v) }\n", "ck(p, " + x + ")", "((" + x + ".Type.Is(`int64`)))"},
	} {
		add("higher-order helper: "+hf.name, "", hf.defs+twinRule(hf.where), twinRule(hf.inl))
	}
	// a name means what is in scope where it is written: a package-level function (a builtin) called by a helper is not the
	// helper that is given the same name later on. A filter cannot call such a function: Go's reading is not a loadable rule.
	addRej := func(name, pkg, helper, inlined string) {
		out = append(out, fixedTwin{name: name, pkg: pkg, helper: helper, inlined: inlined, rejected: true})
	}
	pfDecl := "func pf(s string) bool { return s == `` }"
	addRej("helper calls a package-level function; a later helper carries that name", pfDecl,
		"\th := func(v dsl.Var) bool { return pf(`a`) && v.Pure }\n\tpf := func(s string) bool { return m[`x`].Text.Matches(s) }\n"+twinRule("h("+x+") && pf(`a8`)"),
		twinRule("(pf(`a`) && "+x+".Pure) && ("+x+".Text.Matches(`a8`))"))
	addRej("helper calls a package-level function; a later helper carries that name and another parameter list", pfDecl,
		"\th := func(v dsl.Var) bool { return v.Pure || pf(`a`) }\n\tpf := func(s string) bool { return s == `a` }\n"+twinRule("h("+x+") || pf(`a8`)"),
		twinRule("("+x+".Pure || pf(`a`)) || (`a8` == `a`)"))
	addRej("helper calls the package-level function it is named after", pfDecl,
		"\tpf := func(s string) bool { return pf(s) }\n"+twinRule("pf(`a`) && "+x+".Pure"), twinRule("(pf(`a`)) && "+x+".Pure"))
	addRej("helper named after a builtin it calls", "",
		"\tlen := func(v dsl.Var) bool { return len(`a`) == 1 && v.Pure }\n"+twinRule("len("+x+")"), twinRule("(len(`a`) == 1 && "+x+".Pure)"))
	addRej("two helpers named after package-level functions that call each other", pfDecl+"\nfunc pg(s string) bool { return s != `` }",
		"\tpf := func(s string) bool { return pg(s) }\n\tpg := func(s string) bool { return pf(s) }\n"+twinRule("pg(`a`) && "+x+".Pure"), twinRule("((pg(`a`))) && "+x+".Pure"))
	// a package-level function handed to a higher-order helper as an ARGUMENT: the name becomes a callee only after it has been put
	// in the place of the function parameter. It still means the package-level function (not loadable) unless a helper of the
	// group carries the name where the argument is written -- a helper that is defined LATER does not.
	// (A package-level FUNCTION is compiled to bytecode, which knows no dsl.Var: it takes a string. A package-level function
	// VARIABLE is not compiled.)
	for _, d := range []struct {
		name, decl, T, P, ax, ay string
		body                     func(arg string) string // the body of the helper of the group that carries the name
	}{
		{"function", "func pg(s string) bool { return s == `` }", "string", "s", "`int64`", "`int32`", func(a string) string { return x + ".Type.Is(" + a + ")" }},
		{"function variable", "var pg = func(v dsl.Var) bool { return v.Pure }", "dsl.Var", "v", x, y, func(a string) string { return a + ".Type.Is(`int64`)" }},
	} {
		sig := "func(" + d.T + ") bool"
		apply := "\tapply := func(pred " + sig + ", " + d.P + " " + d.T + ") bool { return pred(" + d.P + ") }\n"
		applyR := "\tapply := func(" + d.P + " " + d.T + ", pred " + sig + ") bool { return !pred(" + d.P + ") || " + y + ".Const }\n"
		localPg := "\tpg := func(" + d.P + " " + d.T + ") bool { return " + d.body(d.P) + " }\n"
		check := "\tcheck := func(" + d.P + " " + d.T + ") bool { return apply(pg, " + d.P + ") }\n"
		addRej("package-level "+d.name+" passed to a higher-order helper inside a helper; a later helper carries its name", d.decl,
			apply+check+localPg+twinRule("check("+d.ax+") && pg("+d.ay+")"),
			twinRule("((pg("+d.ax+"))) && ("+d.body(d.ay)+")"))
		addRej("package-level "+d.name+" passed to a higher-order helper in Where(); a later helper carries its name", d.decl,
			apply+twinRule("apply(pg, "+d.ax+")")+localPg+twinRule("pg("+d.ay+")"),
			twinRule("(pg("+d.ax+"))")+twinRule("("+d.body(d.ay)+")"))
		addRej("package-level "+d.name+" passed on through two higher-order helpers; a later helper carries its name", d.decl,
			apply+"\tapply2 := func(p "+sig+", "+d.P+" "+d.T+") bool { return apply(p, "+d.P+") }\n\tcheck := func("+d.P+" "+d.T+") bool { return "+y+".Const || apply2(pg, "+d.P+") }\n"+
				localPg+twinRule("check("+d.ax+") && pg("+d.ay+")"),
			twinRule("("+y+".Const || ((pg("+d.ax+")))) && ("+d.body(d.ay)+")"))
		addRej("package-level "+d.name+" passed as the second argument, called under a negation; a later helper carries its name", d.decl,
			applyR+"\tcheck := func("+d.P+" "+d.T+") bool { return apply("+d.P+", pg) }\n"+localPg+twinRule("check("+d.ax+") || pg("+d.ay+")"),
			twinRule("((!pg("+d.ax+") || "+y+".Const)) || ("+d.body(d.ay)+")"))
		addRej("package-level "+d.name+" passed through a parameter that is named like it; a later helper carries its name", d.decl,
			"\tapply := func(pg "+sig+", "+d.P+" "+d.T+") bool { return pg("+d.P+") }\n"+check+localPg+twinRule("check("+d.ax+") && pg("+d.ay+")"),
			twinRule("((pg("+d.ax+"))) && ("+d.body(d.ay)+")"))
		addRej("package-level "+d.name+" passed to a higher-order helper; no helper carries its name", d.decl,
			apply+check+twinRule("check("+d.ax+")"), twinRule("((pg("+d.ax+")))"))
		out = append(out, fixedTwin{name: "package-level " + d.name + " passed to a higher-order helper; the helper that carries its name belongs to the previous group", pkg: d.decl,
			helper: localPg + twinRule("pg("+d.ax+")"), inlined: twinRule("(" + d.body(d.ax) + ")"), rejected: true,
			more: [][2]string{{apply + check + twinRule("check("+d.ax+")"), twinRule("((pg(" + d.ax + ")))")}}})
		// the helper of the group is defined BEFORE the argument is written: the name means the helper
		add("a helper named like a package-level "+d.name+", defined before it is passed to a higher-order helper inside a helper", d.decl,
			apply+localPg+check+twinRule("check("+d.ax+")"), twinRule("((("+d.body(d.ax)+")))"))
		add("a helper named like a package-level "+d.name+", defined before it is passed to a higher-order helper in Where()", d.decl,
			localPg+apply+twinRule("apply(pg, "+d.ax+")"), twinRule("(("+d.body(d.ax)+"))"))
		add("a helper named like a package-level "+d.name+", defined between the higher-order helper and the helper that passes it", d.decl,
			apply+localPg+check+twinRule("check("+d.ax+") || pg("+d.ay+")"), twinRule("((("+d.body(d.ax)+"))) || ("+d.body(d.ay)+")"))
	}
	// several helpers defined by ONE := (`a, b := func…, func…`): each helper's parameters are its own, whatever the helpers defined
	// next to it call theirs -- the same names, the same names in another order, other names, a shared name at another index,
	// another number of parameters. (Rejected by the converter today: `multi-value := is not supported`.) The helper under test
	// is called in the rule that can report; the others in a rule over a pattern the probe file has no match for.
	is := func(p1, p2 string) string { return p1 + ".Type.Is(`int64`) && " + p2 + ".Const" }
	lit := func(params, p1, p2 string) string { return "func(" + params + ") bool { return " + is(p1, p2) + " }" }
	minusRule := func(where string) string { return "\tm.Match(`$x - $y`).\n\t\tWhere(" + where + ").\n\t\tReport(`other $x`)\n" }
	type gh struct{ name, params, p1, p2 string }
	vw := gh{"v, w", "v, w dsl.Var", "v", "w"}
	others := []gh{
		{"the same parameter names", "v, w dsl.Var", "v", "w"},
		{"the same parameter names in the other order", "w, v dsl.Var", "w", "v"},
		{"the other order, one field per parameter", "w dsl.Var, v dsl.Var", "w", "v"},
		{"disjoint parameter names", "p, q dsl.Var", "p", "q"},
		{"the second name of the first helper as first parameter", "w, u dsl.Var", "w", "u"},
		{"the first name of the first helper as second parameter", "u, v dsl.Var", "u", "v"},
		{"a blank and the first name of the first helper behind it", "_ dsl.Var, u, v dsl.Var", "u", "v"},
	}
	inl := "(" + is(x, y) + ")"
	for _, g := range others {
		call := "(" + x + ", " + y + ")"
		if strings.HasPrefix(g.params, "_") {
			call = "(" + y + ", " + x + ", " + y + ")"
		}
		add("two helpers by one :=, the second with "+g.name+"; the second is called", "",
			"\ta, b := "+lit(vw.params, vw.p1, vw.p2)+", "+lit(g.params, g.p1, g.p2)+"\n"+twinRule("b"+call)+minusRule("a("+x+", "+y+")"),
			twinRule(inl)+minusRule(inl))
		add("two helpers by one :=, the first with "+g.name+"; the second is called", "",
			"\ta, b := "+lit(g.params, g.p1, g.p2)+", "+lit(vw.params, vw.p1, vw.p2)+"\n"+twinRule("b("+x+", "+y+")")+minusRule("a"+call),
			twinRule(inl)+minusRule(inl))
		add("three helpers by one :=, the second with "+g.name+"; the third is called", "",
			"\ta, b, c := "+lit(vw.params, vw.p1, vw.p2)+", "+lit(g.params, g.p1, g.p2)+", "+lit("w, v dsl.Var", "w", "v")+"\n"+
				twinRule("c("+x+", "+y+")")+minusRule("a("+x+", "+y+") || b"+call),
			twinRule(inl)+minusRule(inl+" || "+inl))
		add("a helper by itself, then two by one :=, the first of them with "+g.name+"; it is called", "",
			"\ta := "+lit(vw.params, vw.p1, vw.p2)+"\n\tb, c := "+lit(g.params, g.p1, g.p2)+", "+lit(vw.params, vw.p1, vw.p2)+"\n"+
				twinRule("b"+call)+minusRule("a("+x+", "+y+") || c("+x+", "+y+")"),
			twinRule(inl)+minusRule(inl+" || "+inl))
		add("two helpers by one :=, then a helper by itself with "+g.name+"; it is called", "",
			"\ta, b := "+lit(vw.params, vw.p1, vw.p2)+", "+lit("w, v dsl.Var", "w", "v")+"\n\tc := "+lit(g.params, g.p1, g.p2)+"\n"+
				twinRule("c"+call)+minusRule("a("+x+", "+y+") || b("+x+", "+y+")"),
			twinRule(inl)+minusRule(inl+" || "+inl))
	}
	// another number of parameters, parameters of other types
	add("two helpers by one :=, one parameter and two; the second is called", "",
		"\ta, b := func(v dsl.Var) bool { return v.Const }, "+lit("w, v dsl.Var", "w", "v")+"\n"+twinRule("b("+x+", "+y+")")+minusRule("a("+x+")"),
		twinRule(inl)+minusRule("("+x+".Const)"))
	add("two helpers by one :=, two parameters and one; the second is called", "",
		"\ta, b := "+lit("v, w dsl.Var", "v", "w")+", func(w dsl.Var) bool { return w.Type.Is(`int64`) }\n"+twinRule("b("+x+")")+minusRule("a("+x+", "+y+")"),
		twinRule("("+x+".Type.Is(`int64`))")+minusRule(inl))
	add("two helpers by one :=, a string and a variable in either order; the second is called", "",
		"\ta, b := func(s string, v dsl.Var) bool { return v.Type.Is(s) }, func(v dsl.Var, s string) bool { return v.Type.Is(s) && !v.Const }\n"+
			twinRule("b("+x+", `int64`)")+minusRule("a(`int64`, "+x+")"),
		twinRule("("+x+".Type.Is(`int64`) && !"+x+".Const)")+minusRule("("+x+".Type.Is(`int64`))"))
	add("two helpers by one :=, the second calls the first with its parameters crossed", "",
		"\ta := "+lit("v, w dsl.Var", "v", "w")+"\n\tb, c := func(w, v dsl.Var) bool { return a(w, v) }, func(v, w dsl.Var) bool { return a(w, v) }\n"+
			twinRule("b("+x+", "+y+")")+minusRule("c("+x+", "+y+")"),
		twinRule("(("+is(x, y)+"))")+minusRule("(("+is(y, x)+"))"))
	// several groups of one file spell their filters alike and mean something else: equal-named constants of the groups with
	// other values (used directly in Where, outside helpers), equal-named helpers with other bodies
	addN := func(name, pkg string, groups ...[2]string) {
		out = append(out, fixedTwin{name: name, pkg: pkg, helper: groups[0][0], inlined: groups[0][1], more: groups[1:]})
	}
	for _, gc := range []struct{ name, decl0, decl1, where, inl0, inl1 string }{
		{"typeName", "const typeName = `int64`", "const typeName = `int32`", x + ".Type.Is(typeName)", x + ".Type.Is(`int64`)", x + ".Type.Is(`int32`)"},
		{"size", "const size = 8", "const size = 4", x + ".Type.Size == size", x + ".Type.Size == 8", x + ".Type.Size == 4"},
		{"size, constant first", "const size = 8", "const size = 4", "size == " + x + ".Type.Size", "8 == " + x + ".Type.Size", "4 == " + x + ".Type.Size"},
		{"val", "const val = 420", "const val = 512", x + ".Value.Int() == val", x + ".Value.Int() == 420", x + ".Value.Int() == 512"},
		{"pat", "const pat = `a8`", "const pat = `a4`", x + ".Text.Matches(pat)", x + ".Text.Matches(`a8`)", x + ".Text.Matches(`a4`)"},
		{"txt", "const txt = `a8`", "const txt = `a4`", x + ".Text == txt", x + ".Text == `a8`", x + ".Text == `a4`"},
		{"typeName under a negation and a conjunction", "const typeName = `int64`", "const typeName = `int32`", "!" + x + ".Type.Is(typeName) && " + y + ".Type.Size >= 4",
			"!" + x + ".Type.Is(`int64`) && " + y + ".Type.Size >= 4", "!" + x + ".Type.Is(`int32`) && " + y + ".Type.Size >= 4"},
		{"typed constant", "const typeName string = `int64`", "const typeName string = `int32`", x + ".Type.ConvertibleTo(typeName) && " + x + ".Type.Is(typeName)",
			x + ".Type.ConvertibleTo(`int64`) && " + x + ".Type.Is(`int64`)", x + ".Type.ConvertibleTo(`int32`) && " + x + ".Type.Is(`int32`)"},
		{"constant expression", "const half = 4", "const half = 2", x + ".Type.Size == half*2", x + ".Type.Size == 8", x + ".Type.Size == 4"},
	} {
		addN("equal-named group constants with other values: "+gc.name, "",
			[2]string{"\t" + gc.decl0 + "\n" + twinRule(gc.where), twinRule(gc.inl0)}, [2]string{"\t" + gc.decl1 + "\n" + twinRule(gc.where), twinRule(gc.inl1)})
	}
	addN("three groups, the third repeats the value of the first", "",
		[2]string{"\tconst typeName = `int64`\n" + twinRule(x+".Type.Is(typeName)"), twinRule(x + ".Type.Is(`int64`)")},
		[2]string{"\tconst typeName = `int32`\n" + twinRule(x+".Type.Is(typeName)"), twinRule(x + ".Type.Is(`int32`)")},
		[2]string{"\tconst typeName = `int64`\n" + twinRule(x+".Type.Is(typeName)"), twinRule(x + ".Type.Is(`int64`)")})
	addN("a package-level constant in one group, an equal-named constant of the group in the next", "const typeName = `int32`",
		[2]string{twinRule(x + ".Type.Is(typeName)"), twinRule(x + ".Type.Is(`int32`)")},
		[2]string{"\tconst typeName = `int64`\n" + twinRule(x+".Type.Is(typeName)"), twinRule(x + ".Type.Is(`int64`)")})
	addN("equal-named helpers with other bodies, called alike", "",
		[2]string{"\tf := func(v dsl.Var) bool { return v.Type.Is(`int64`) }\n" + twinRule("f("+x+")"), twinRule("(" + x + ".Type.Is(`int64`))")},
		[2]string{"\tf := func(v dsl.Var) bool { return v.Type.Is(`int32`) }\n" + twinRule("f("+x+")"), twinRule("(" + x + ".Type.Is(`int32`))")})
	addN("equal-named helpers over equal-named constants", "",
		[2]string{"\tf := func(v dsl.Var, s string) bool { return v.Type.Is(s) }\n\tconst typeName = `int64`\n" + twinRule("f("+x+", typeName)"), twinRule("(" + x + ".Type.Is(`int64`))")},
		[2]string{"\tf := func(v dsl.Var, s string) bool { return v.Type.Is(s) }\n\tconst typeName = `int32`\n" + twinRule("f("+x+", typeName)"), twinRule("(" + x + ".Type.Is(`int32`))")})
	addN("two rules spelled alike in each of two groups", "",
		[2]string{"\tconst size = 8\n" + twinRule(x+".Type.Size == size") + twinRule(y+".Type.Size == size"), twinRule(x+".Type.Size == 8") + twinRule(y+".Type.Size == 8")},
		[2]string{"\tconst size = 2\n" + twinRule(x+".Type.Size == size") + twinRule(y+".Type.Size == size"), twinRule(x+".Type.Size == 2") + twinRule(y+".Type.Size == 2")})
	return out
}()

func (t fixedTwin) render(inlined bool) string {
	body := t.helper
	if inlined {
		body = t.inlined
	}
	src := "package gorules\n\nimport \"github.com/quasilyte/go-ruleguard/dsl\"\n\n" + t.pkg + "\n\nfunc g0(m dsl.Matcher) {\n" + body + "}\n"
	for i, g := range t.more {
		body = g[0]
		if inlined {
			body = g[1]
		}
		src += fmt.Sprintf("\nfunc g%d(m dsl.Matcher) {\n%s}\n", i+1, strings.ReplaceAll(body, "`hit $x`", fmt.Sprintf("`g%d hit $x`", i+1)))
	}
	return src
}
