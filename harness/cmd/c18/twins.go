package main

// A fixed catalogue of helper shapes with their meaning under Go's semantics written out by hand (the inlined twin): present in
// every run, whatever the seed. Most are rejected by the converter today; each must stay rejected or load with the twin's meaning.

type fixedTwin struct {
	name    string
	helper  string // body of the rule group, with helpers
	inlined string // the same group without helpers (what Go's scoping and evaluation rules make of it)
	pkg     string // package-level declarations
}

func twinRule(where string) string {
	return "\tm.Match(`$x + $y`).\n\t\tWhere(" + where + ").\n\t\tReport(`hit $x`)\n"
}

var fixedTwins = func() []fixedTwin {
	var out []fixedTwin
	add := func(name, pkg, helper, inlined string) {
		out = append(out, fixedTwin{name: name, pkg: pkg, helper: helper, inlined: inlined})
	}
	x, y := `m["x"]`, `m["y"]`
	// blank parameters in every position, one field per parameter and grouped
	for _, b := range []struct{ params, args, use string }{
		{"_ dsl.Var, v dsl.Var", x + ", " + y, y},
		{"_, v dsl.Var", x + ", " + y, y},
		{"v dsl.Var, _ dsl.Var", x + ", " + y, x},
		{"v, _ dsl.Var", y + ", " + x, y},
		{"_ dsl.Var, _ dsl.Var, v dsl.Var", x + ", " + x + ", " + y, y},
		{"_ dsl.Var, v dsl.Var, _ dsl.Var", x + ", " + y + ", " + x, y},
		{"_ string, v dsl.Var", `"int64", ` + y, y},
		{"_ int, _ string, v dsl.Var, w dsl.Var", `8, "int64", ` + y + ", " + x, y},
	} {
		add("blank parameter: func("+b.params+")", "",
			"\tf := func("+b.params+") bool { return v.Type.Is(`int64`) }\n"+twinRule("f("+b.args+")"),
			twinRule("("+b.use+".Type.Is(`int64`))"))
	}
	add("blank parameter between a string and an int", "",
		"\tf := func(s string, _ int, n int, v dsl.Var) bool { return v.Type.Is(s) && v.Type.Size == n }\n"+twinRule("f(`int64`, 4, 8, "+x+")"),
		twinRule("("+x+".Type.Is(`int64`) && "+x+".Type.Size == 8)"))
	// a constant of the group that shadows a package-level constant of another value, named in a helper body, in every kind of
	// argument position
	for _, c := range []struct{ pkg, local, body, inl string }{
		{`const typeName = "int32"`, `const typeName = "int64"`, "v.Type.Is(typeName)", x + ".Type.Is(`int64`)"},
		{`const typeName = "int32"`, `const typeName = "int64"`, "v.Type.Underlying().Is(typeName)", x + ".Type.Underlying().Is(`int64`)"},
		{`const typeName = "int32"`, `const typeName = "int64"`, "v.Type.ConvertibleTo(typeName)", x + ".Type.ConvertibleTo(`int64`)"},
		{`const size = 4`, `const size = 8`, "v.Type.Size == size", x + ".Type.Size == 8"},
		{`const size = 4`, `const size = 8`, "size == v.Type.Size", "8 == " + x + ".Type.Size"},
		{`const val = 644`, `const val = 420`, "v.Value.Int() == val", x + ".Value.Int() == 420"},
		{`const txt = "b8"`, `const txt = "a8"`, "v.Text == txt", x + ".Text == `a8`"},
		{`const txt = "b8"`, `const txt = "a8"`, "v.Text.Matches(txt)", x + ".Text.Matches(`a8`)"},
		{`const kind = "uint"`, `const kind = "int"`, "v.Type.OfKind(kind)", x + ".Type.OfKind(`int`)"},
		{`const obj = "Func"`, `const obj = "Var"`, "v.Object.Is(obj)", x + ".Object.Is(`Var`)"},
		{`const tag = "BasicLit"`, `const tag = "Ident"`, "v.Node.Is(tag)", x + ".Node.Is(`Ident`)"},
		{`const sub = "b8"`, `const sub = "a8"`, "v.Contains(sub)", x + ".Contains(`a8`)"},
		{`const name = "y"`, `const name = "x"`, "m[name].Pure && v.Const", `m["x"].Pure && ` + x + ".Const"},
	} {
		add("shadowed constant in a helper body: "+c.body, c.pkg,
			"\t"+c.local+"\n\tf := func(v dsl.Var) bool { return "+c.body+" }\n"+twinRule("f("+x+")"),
			"\t"+c.local+"\n"+twinRule("("+c.inl+")"))
	}
	add("package-level constant in a helper body", `const typeName = "int64"`,
		"\tf := func(v dsl.Var) bool { return v.Type.Is(typeName) }\n"+twinRule("f("+x+")"), twinRule("("+x+".Type.Is(`int64`))"))
	add("group-level constant in a helper body", "",
		"\tconst typeName = \"int64\"\n\tf := func(v dsl.Var) bool { return v.Type.Is(typeName) }\n"+twinRule("f("+x+")"), twinRule("("+x+".Type.Is(`int64`))"))
	add("constant declared after the helper shadows nothing inside it", `const typeName = "int64"`,
		"\tf := func(v dsl.Var) bool { return v.Type.Is(typeName) }\n\tconst typeName = \"int32\"\n"+twinRule("f("+x+") || "+y+".Type.Is(typeName)"),
		twinRule("("+x+".Type.Is(`int64`)) || "+y+".Type.Is(`int32`)"))
	// definitions Go gives a meaning other than "the first := of that name"
	add("helper assigned again", "",
		"\tf := func(v dsl.Var) bool { return v.Type.Is(`int32`) }\n\tf = func(v dsl.Var) bool { return v.Type.Is(`int64`) }\n"+twinRule("f("+x+")"),
		twinRule("("+x+".Type.Is(`int64`))"))
	add("helper redefined in an inner block", "",
		"\tf := func(v dsl.Var) bool { return v.Type.Is(`int64`) }\n\t{\n\t\tf := func(v dsl.Var) bool { return v.Type.Is(`int32`) }\n\t\t_ = f\n\t}\n"+twinRule("f("+x+")"),
		twinRule("("+x+".Type.Is(`int64`))"))
	add("two helpers defined by one :=", "",
		"\tf, h := func(v dsl.Var) bool { return v.Type.Is(`int64`) }, func(v dsl.Var) bool { return v.Type.Is(`int32`) }\n"+twinRule("f("+x+") && !h("+y+")"),
		twinRule("("+x+".Type.Is(`int64`)) && !("+y+".Type.Is(`int32`))"))
	add("helper declared with var", "",
		"\tvar f = func(v dsl.Var) bool { return v.Type.Is(`int64`) }\n"+twinRule("f("+x+")"), twinRule("("+x+".Type.Is(`int64`))"))
	add("helper called through another name", "",
		"\tf := func(v dsl.Var) bool { return v.Type.Is(`int64`) }\n\th := f\n"+twinRule("h("+x+")"), twinRule("("+x+".Type.Is(`int64`))"))
	add("parenthesised helper name", "",
		"\tf := func(v dsl.Var) bool { return v.Type.Is(`int64`) }\n"+twinRule("(f)("+x+")"), twinRule("("+x+".Type.Is(`int64`))"))
	add("function literal called in place", "",
		twinRule("func(v dsl.Var) bool { return v.Type.Is(`int64`) }("+x+")"), twinRule("("+x+".Type.Is(`int64`))"))
	add("parameter named like the helper", "",
		"\tf := func(f dsl.Var) bool { return f.Type.Is(`int64`) }\n"+twinRule("f("+x+")"), twinRule("("+x+".Type.Is(`int64`))"))
	add("parameter named like the other helper it is passed to", "",
		"\tf := func(v dsl.Var) bool { return v.Type.Is(`int64`) }\n\th := func(f dsl.Var) bool { return f.Pure }\n"+twinRule("h("+x+") && f("+y+")"),
		twinRule("("+x+".Pure) && ("+y+".Type.Is(`int64`))"))
	add("arguments in the opposite order of equal-typed parameters", "",
		"\tf := func(v, w dsl.Var) bool { return v.Const && w.Type.Is(`int64`) }\n"+twinRule("f("+y+", "+x+")"),
		twinRule("("+y+".Const && "+x+".Type.Is(`int64`))"))
	return out
}()

func (t fixedTwin) render(inlined bool) string {
	body := t.helper
	if inlined {
		body = t.inlined
	}
	return "package gorules\n\nimport \"github.com/quasilyte/go-ruleguard/dsl\"\n\n" + t.pkg + "\n\nfunc g0(m dsl.Matcher) {\n" + body + "}\n"
}
