// c18: local helper functions and constant expressions in rules files are transparent.
// One abstract rules file -- several rule groups, each with local helper functions (equal names across groups, nested calls,
// parameters of every type in any order, constants in every spelling inside the bodies, arguments spelled like parameters)
// and rules -- is rendered (a) with the helpers and (b) manually inlined (the generator substitutes on its own tree); both are
// converted (IR, Src/Line normalised) and loaded, and both engines are run on a probe file. Constant spellings of
// string / int arguments are rendered next to the plain literal.
// Output: one JSON object per case. The file is also printed as a term of the Coq model (RG.Load.MacroEnv: groups of
// statements over RG.Load.Macro.dexpr) with the constant annotations go/types gives the original nodes.
// The command is a supervisor of a child process (hutil.Supervise): a case on which the process dies (unbounded
// expansion: stack overflow) is reported with a.panic set.
package main

import (
	"bufio"
	"encoding/json"
	"flag"
	"fmt"
	"math/rand"
	"os"
	"reflect"
	"strconv"
	"strings"

	"verif/harness/internal/hutil"

	"github.com/quasilyte/go-ruleguard/ruleguard"
	"github.com/quasilyte/go-ruleguard/ruleguard/ir"
)

// ------------------------------------------------------------------ abstract expressions

type Const struct {
	IsStr bool
	S     string
	I     int64
}

type E struct {
	K     string // ident lit paren unary binary sel index call
	Name  string
	Text  string // literal source text
	LK    string // LString LInt LFloat LChar
	C     *Const // the constant go/types folds the node to (string / int only), nil otherwise
	Op    string
	X, Y  *E
	Field string
	Args  []*E
	Pkg   bool // a call of a package-level function (whatever the helpers of the group are called); on an identifier: it names a package-level function where it is written
}

func ident(n string) *E            { return &E{K: "ident", Name: n} }
func cident(n string, c *Const) *E { return &E{K: "ident", Name: n, C: c} }
func sel(x *E, f string) *E        { return &E{K: "sel", X: x, Field: f} }
func call(f *E, args ...*E) *E     { return &E{K: "call", X: f, Args: args} }
func index(x, i *E) *E             { return &E{K: "index", X: x, Y: i} }
func bin(op string, x, y *E) *E    { return &E{K: "binary", Op: op, X: x, Y: y} }
func not(x *E) *E                  { return &E{K: "unary", Op: "!", X: x} }
func paren(x *E) *E                { return &E{K: "paren", X: x, C: x.C} }
func strLit(s string) *E {
	return &E{K: "lit", LK: "LString", Text: strconv.Quote(s), C: &Const{IsStr: true, S: s}}
}
func rawLit(s string) *E {
	return &E{K: "lit", LK: "LString", Text: "`" + s + "`", C: &Const{IsStr: true, S: s}}
}
func intLit(text string, v int64) *E { return &E{K: "lit", LK: "LInt", Text: text, C: &Const{I: v}} }
func mvar(name string) *E            { return index(ident("m"), strLit(name)) }

func (e *E) src() string {
	switch e.K {
	case "ident":
		return e.Name
	case "lit":
		return e.Text
	case "paren":
		return "(" + e.X.src() + ")"
	case "unary":
		return e.Op + e.X.src()
	case "binary":
		return e.X.src() + " " + e.Op + " " + e.Y.src()
	case "sel":
		return e.X.src() + "." + e.Field
	case "index":
		return e.X.src() + "[" + e.Y.src() + "]"
	default:
		var as []string
		for _, a := range e.Args {
			as = append(as, a.src())
		}
		return e.X.src() + "(" + strings.Join(as, ", ") + ")"
	}
}

// substitution of parameters in expression position (the generator's own inliner); arguments lose their outer parentheses
func (e *E) subst(ps map[string]*E) *E {
	switch e.K {
	case "ident":
		if a, ok := ps[e.Name]; ok {
			for a.K == "paren" {
				a = a.X
			}
			return a
		}
		return e
	case "lit":
		return e
	}
	c := *e
	if e.X != nil {
		c.X = e.X.subst(ps)
	}
	if e.Y != nil {
		c.Y = e.Y.subst(ps)
	}
	c.Args = nil
	for _, a := range e.Args {
		c.Args = append(c.Args, a.subst(ps))
	}
	return &c
}

// hasNamedConst: the expression names a constant (an identifier that go/types folds)
func (e *E) hasNamedConst() bool {
	if e == nil {
		return false
	}
	if e.K == "ident" && e.C != nil {
		return true
	}
	if e.X.hasNamedConst() || e.Y.hasNamedConst() {
		return true
	}
	for _, a := range e.Args {
		if a.hasNamedConst() {
			return true
		}
	}
	return false
}

func coqStr(s string) string {
	ok := true
	for i := 0; i < len(s); i++ {
		if s[i] < 32 || s[i] > 126 {
			ok = false
		}
	}
	if ok {
		return `"` + strings.ReplaceAll(s, `"`, `""`) + `"`
	}
	var bs []string
	for i := 0; i < len(s); i++ {
		bs = append(bs, fmt.Sprintf("ascii_of_nat %d", s[i]))
	}
	return "(string_of_list_ascii [" + strings.Join(bs, "; ") + "])"
}

// ------------------------------------------------------------------ generation

type param struct {
	name string
	typ  string // dsl.Var | string | int | dsl.Matcher
}

type helper struct {
	name    string
	params  []param
	body    *E
	grouped bool // consecutive parameters of one type are written as one field: func(_, v dsl.Var)
}

// a statement of a rule group: a helper definition, a constant declaration or a rule
type gstmt struct {
	def     *helper
	decl    string // `const hi = 64`
	where   *E     // the filter as written (helper calls)
	inlined *E     // the same with every helper call replaced by the generator
	report  string
}

type group struct {
	name    string
	matcher string
	stmts   []gstmt
}

type fileCase struct {
	groups     []group
	pkgFunc    bool // a later group calls a package-level function named like an earlier group's helper
	sameName   bool // two groups define a helper of the same name
	nested     bool
	unhyg      bool // a parameter is named like a selected field or like the matcher
	paramNamed bool // an identifier argument is spelled like a parameter of the called helper
	octal      bool // a helper body contains a legacy octal literal
	twice      bool // a helper is called more than once (with other arguments)
	blank      bool // a helper has a blank parameter
	blankFirst bool // ... in front of a named one
	constBody  bool // a helper body refers to a named constant
	shadowBody bool // ... declared in the group and shadowing a package-level constant of another value
	pkgBefore  bool // a helper calls a package-level function; a LATER helper of the same group carries that function's name
	higher     bool // a helper takes another helper as an argument and calls it
	higherName bool // ... through a parameter spelled like a helper of the group
	pkgArg     bool // a helper hands a package-level function to a higher-order helper; a LATER helper of the group carries that function's name
}

// package-level constants; several are named like helper parameters
type namedConst struct {
	name  string
	isStr bool
	s     string
	i     int64
}

var pkgConsts = []namedConst{
	{"cInt64", true, "int64", 0}, {"cInt32", true, "int32", 0}, {"cA8", true, "a8", 0}, {"cOther", true, "zz", 0},
	{"s", true, "int64", 0}, {"t", true, "int32", 0}, {"v", true, "int32", 0},
	{"cEight", false, "", 8}, {"cFour", false, "", 4}, {"cTwo", false, "", 2},
	{"n", false, "", 8}, {"k", false, "", 4}, {"lo", false, "", 2}, {"hi", false, "", 420}, {"w", false, "", 4}, {"cBig", false, "", 512},
	// shadowed inside groups by constants that hold the value a filter argument position wants (see shadowPool)
	{"cObj", true, "Func", 0}, {"cKind", true, "uint", 0}, {"cImp", true, "os", 0}, {"cTag", true, "BasicLit", 0},
	{"cVer", true, "1.99", 0}, {"cSub", true, "$x", 0}, {"cTxt", true, "zz", 0}, {"cSz", false, "", 2}, {"cVal", false, "", 644},
}

// constants a group may declare: most shadow a package-level constant of the same name and ANOTHER value, two have no namesake
var shadowPool = []namedConst{
	{"hi", false, "", 64}, {"n", false, "", 2}, {"s", true, "int32", 0}, {"lo", false, "", 8}, {"t", true, "int64", 0}, {"k", false, "", 8},
	{"cObj", true, "Var", 0}, {"cKind", true, "int", 0}, {"cImp", true, "fmt", 0}, {"cTag", true, "Ident", 0}, {"cVer", true, "1.16", 0},
	{"cSub", true, "$y", 0}, {"cTxt", true, "a8", 0}, {"cSz", false, "", 8}, {"cSz", false, "", 4}, {"cVal", false, "", 420}, {"cVal", false, "", 512},
	{"hi", false, "", 512}, {"s", true, "int64", 0}, {"t", true, "int32", 0},
	{"lcT", true, "int32", 0}, {"lcN", false, "", 8},
}

func isPkgConst(name string) bool {
	for _, c := range pkgConsts {
		if c.name == name {
			return true
		}
	}
	return false
}

func constsSrc() string {
	var sb strings.Builder
	sb.WriteString("const (\n")
	for _, c := range pkgConsts {
		if c.isStr {
			fmt.Fprintf(&sb, "\t%s = %q\n", c.name, c.s)
		} else {
			fmt.Fprintf(&sb, "\t%s = %d\n", c.name, c.i)
		}
	}
	sb.WriteString(")\n\nvar sv = \"int64\"\nvar nv = 8\n\nvar pa = func(v dsl.Var) bool { return v.Pure }\nvar pb = func(v dsl.Var) bool { return v.Const }\n\nfunc pf(n int) bool { return n > 0 }\nfunc f(n int) bool { return n > 1 }\nfunc isBig(ctx *dsl.VarFilterContext) bool { return ctx.SizeOf(ctx.Type) >= 8 }\n")
	return sb.String()
}

// every way to write the int v as one literal token
func intLitSpellings(v int64) []string {
	out := []string{
		fmt.Sprint(v), fmt.Sprintf("0x%x", v), fmt.Sprintf("0X%X", v), fmt.Sprintf("0%o", v), fmt.Sprintf("0o%o", v), fmt.Sprintf("0O%o", v),
		fmt.Sprintf("0b%b", v), fmt.Sprintf("0_%o", v), fmt.Sprintf("0x_%x", v), fmt.Sprintf("00%o", v),
	}
	if v >= 10 {
		d := fmt.Sprint(v)
		out = append(out, d[:1]+"_"+d[1:])
	}
	return out
}

// string-valued expression spellings of s which may appear inside a helper body or outside
func strSpellings(rng *rand.Rand, s string) *E { return strSpellingsIn(rng, s, false) }

// an interpreted string literal with one character written as an escape sequence
func escLit(rng *rand.Rand, s string) *E {
	if s == "" {
		return strLit(s)
	}
	i := rng.Intn(len(s))
	esc := []string{fmt.Sprintf("\\x%02x", s[i]), fmt.Sprintf("\\u%04x", s[i]), fmt.Sprintf("\\%03o", s[i]), fmt.Sprintf("\\U%08x", s[i])}[rng.Intn(4)]
	return &E{K: "lit", LK: "LString", Text: `"` + s[:i] + esc + s[i+1:] + `"`, C: &Const{IsStr: true, S: s}}
}

// inBody: inside a helper body only literals survive the copy, so most spellings there are literals
// bodyNamed: set while a helper body is generated that refers to named constants: a constant of the group's scope whose value
// is the wanted one (nil: none)
var bodyNamed func(isStr bool, s string, i int64) *E

func strSpellingsIn(rng *rand.Rand, s string, inBody bool) *E {
	if inBody && bodyNamed != nil && rng.Intn(3) != 0 {
		if e := bodyNamed(true, s, 0); e != nil {
			return e
		}
	}
	if inBody && rng.Intn(6) != 0 {
		switch rng.Intn(4) {
		case 0:
			return rawLit(s)
		case 1:
			return escLit(rng, s)
		}
		return strLit(s)
	}
	switch rng.Intn(8) {
	case 7:
		return escLit(rng, s)
	case 0:
		return rawLit(s)
	case 1:
		if len(s) > 1 {
			e := bin("+", strLit(s[:1]), strLit(s[1:]))
			e.C = &Const{IsStr: true, S: s}
			return e
		}
		return strLit(s)
	case 2:
		for _, c := range pkgConsts {
			if c.isStr && c.s == s && c.name[0] == 'c' && rng.Intn(2) == 0 {
				return cident(c.name, &Const{IsStr: true, S: s})
			}
		}
		return strLit(s)
	case 3:
		return paren(strLit(s))
	default:
		return strLit(s)
	}
}

func intSpellings(rng *rand.Rand, v int64) *E { return intSpellingsIn(rng, v, false) }

func intSpellingsIn(rng *rand.Rand, v int64, inBody bool) *E {
	if inBody && bodyNamed != nil && rng.Intn(3) != 0 {
		if e := bodyNamed(false, "", v); e != nil {
			return e
		}
	}
	if inBody && rng.Intn(6) != 0 {
		sp := intLitSpellings(v)
		if rng.Intn(3) == 0 {
			return intLit(sp[0], v)
		}
		return intLit(sp[rng.Intn(len(sp))], v)
	}
	switch rng.Intn(10) {
	case 0, 1, 2, 3:
		sp := intLitSpellings(v)
		return intLit(sp[rng.Intn(len(sp))], v)
	case 4:
		e := bin("+", intLit(fmt.Sprint(v-1), v-1), intLit("1", 1))
		e.C = &Const{I: v}
		return e
	case 5:
		for _, c := range pkgConsts {
			if !c.isStr && c.i == v && c.name[0] == 'c' && rng.Intn(2) == 0 {
				return cident(c.name, &Const{I: v})
			}
		}
		return intLit(fmt.Sprint(v), v)
	case 6:
		return paren(intLit(fmt.Sprint(v), v))
	case 7:
		e := bin("*", intLit(fmt.Sprint(v/2), v/2), intLit("2", 2))
		e.C = &Const{I: v}
		return e
	case 8:
		return &E{K: "lit", LK: "LFloat", Text: fmt.Sprintf("%d.0", v), C: &Const{I: v}}
	default:
		return intLit(fmt.Sprint(v), v)
	}
}

var probeVars = []string{"x", "y"}
var typeNames = []string{"int64", "int32"}
var sizes = []int64{8, 4, 2}
var bigs = []int64{420, 512, 64, 8}

// an atom over the variable expression v; str / num give the spelling of arguments
func atom(rng *rand.Rand, v *E, str func(string) *E, num func(int64) *E) *E {
	if rng.Intn(4) == 0 {
		return atom2(rng, v, str)
	}
	switch rng.Intn(13) {
	case 0:
		return sel(v, "Pure")
	case 1:
		return sel(v, "Const")
	case 2: // MatchedText is compared with untyped constants only (a string parameter does not type-check)
		return bin("==", sel(v, "Text"), textConst(rng))
	case 3:
		return call(sel(sel(v, "Type"), "Is"), str(typeNames[rng.Intn(2)]))
	case 4:
		return bin("==", sel(sel(v, "Type"), "Size"), num(sizes[rng.Intn(3)]))
	case 5:
		return bin(">=", sel(sel(v, "Type"), "Size"), num(sizes[rng.Intn(3)]))
	case 6:
		return call(sel(sel(v, "Text"), "Matches"), str("a8"))
	case 7:
		return call(sel(sel(v, "Node"), "Is"), strSpellingsIn(rng, []string{"Ident", "BasicLit"}[rng.Intn(2)], textInBody))
	case 8:
		return not(call(sel(sel(v, "Type"), "Is"), str(typeNames[rng.Intn(2)])))
	case 9, 10:
		return bin("==", call(sel(sel(v, "Value"), "Int")), num(bigs[rng.Intn(len(bigs))]))
	case 11:
		return bin("<", call(sel(sel(v, "Value"), "Int")), num(bigs[rng.Intn(len(bigs))]))
	default:
		return bin("==", num(sizes[rng.Intn(3)]), sel(sel(v, "Type"), "Size"))
	}
}

var textInBody bool

func textConst(rng *rand.Rand) *E { return strSpellingsIn(rng, "a8", textInBody) }

// the second variable of two-variable atoms, and the matcher expression for matcher-level predicates: set by the caller
var otherVar func() *E
var matcherExpr func() *E
var outsideModel bool // the file uses a path whose argument is neither a string nor a filter expression

// the rarer filter expressions: two variables, matcher-level predicates, a custom filter function
func atom2(rng *rand.Rand, v *E, str func(string) *E) *E {
	w := otherVar()
	k := rng.Intn(13)
	if (k == 4 || k == 5) && matcherExpr() == nil {
		k = 8
	}
	switch k {
	case 0: // the argument is read as matcher["name"], not converted: outside the Coq model's skeleton
		outsideModel = true
		return call(sel(sel(v, "Type"), "IdenticalTo"), w)
	case 1:
		return bin([]string{"==", "<", "!="}[rng.Intn(3)], sel(v, "Line"), sel(w, "Line"))
	case 2:
		return bin([]string{"==", ">"}[rng.Intn(2)], sel(sel(v, "Type"), "Size"), sel(sel(w, "Type"), "Size"))
	case 3:
		return call(sel(v, "Contains"), strSpellingsIn(rng, "$y", textInBody))
	case 4:
		return call(sel(call(sel(matcherExpr(), "File")), "Imports"), str("fmt"))
	case 5:
		return call(sel(call(sel(matcherExpr(), "GoVersion")), "GreaterEqThan"), strSpellingsIn(rng, "1.16", textInBody))
	case 6:
		return call(sel(sel(v, "Object"), "Is"), strSpellingsIn(rng, "Var", textInBody))
	case 7:
		return call(sel(call(sel(sel(v, "Type"), "Underlying")), "Is"), str(typeNames[rng.Intn(2)]))
	case 8:
		return sel(v, []string{"Addressable", "Comparable"}[rng.Intn(2)])
	case 9:
		return call(sel(sel(v, "Type"), "OfKind"), strSpellingsIn(rng, "int", textInBody))
	case 10: // the argument is a function name: outside the Coq model's skeleton
		outsideModel = true
		return call(sel(v, "Filter"), ident("isBig"))
	case 11:
		return bin("==", sel(v, "Text"), sel(w, "Text"))
	default:
		return call(sel(sel(v, "Type"), "ConvertibleTo"), str(typeNames[rng.Intn(2)]))
	}
}

// the generator's own inliner: every call of a helper of the group is replaced by the helper's body with the parameters
// substituted simultaneously, and then the calls inside the result are replaced (its own tree, no go/ast involved)
func inlineAll(e *E, hs map[string]*helper) *E {
	if e == nil {
		return nil
	}
	if e.K == "call" && e.X.K == "ident" && !e.Pkg && !e.X.Pkg {
		if h := hs[e.X.Name]; h != nil && len(h.params) == len(e.Args) {
			// parameters first, nested calls afterwards: the names free in a nested helper's body (the matcher) are
			// not captured by this helper's parameters
			ps := map[string]*E{}
			for i, p := range h.params {
				ps[p.name] = e.Args[i]
			}
			return paren(inlineAll(h.body.subst(ps), hs))
		}
	}
	c := *e
	c.X = inlineAll(e.X, hs)
	c.Y = inlineAll(e.Y, hs)
	c.Args = nil
	for _, a := range e.Args {
		c.Args = append(c.Args, inlineAll(a, hs))
	}
	return &c
}

type scope struct {
	rng     *rand.Rand
	matcher string
	local   map[string]namedConst // constants declared in the group (they shadow the package-level ones)
	fc      *fileCase
	// the same in declaration order (generation must not depend on map iteration order)
	localOrder []namedConst
	constGroup bool // the helper bodies of this group refer to named constants
}

func (sc *scope) constByName(name string) (namedConst, bool) {
	if c, ok := sc.local[name]; ok {
		return c, true
	}
	for _, c := range pkgConsts {
		if c.name == name {
			return c, true
		}
	}
	return namedConst{}, false
}

func (sc *scope) mvar(name string) *E { return index(ident(sc.matcher), strLit(name)) }

// an argument for a parameter of type typ at a call written at the call site (outside helper bodies); avoid: never.
// callee: the helper being called -- identifier arguments are preferably spelled like one of its parameters
func (sc *scope) argFor(typ string, callee *helper) *E {
	rng := sc.rng
	namedLike := func(isStr bool) *E {
		var cands, all []namedConst
		seen := map[string]bool{}
		add := func(c namedConst) {
			if c.isStr != isStr || seen[c.name] {
				return
			}
			seen[c.name] = true
			all = append(all, c)
			for _, p := range callee.params {
				if p.name == c.name {
					cands = append(cands, c)
				}
			}
		}
		for _, c := range sc.localOrder {
			add(c)
		}
		for _, c := range pkgConsts {
			if lc, ok := sc.local[c.name]; ok {
				add(lc)
			} else {
				add(c)
			}
		}
		pick := all[rng.Intn(len(all))]
		if len(cands) > 0 && rng.Intn(3) != 0 {
			pick = cands[rng.Intn(len(cands))]
			sc.fc.paramNamed = true
		}
		if isStr {
			return cident(pick.name, &Const{IsStr: true, S: pick.s})
		}
		return cident(pick.name, &Const{I: pick.i})
	}
	switch typ {
	case "dsl.Var":
		a := sc.mvar(probeVars[rng.Intn(2)])
		if rng.Intn(5) == 0 {
			a = paren(a)
		}
		return a
	case "dsl.Matcher":
		return ident(sc.matcher)
	case "string":
		s := typeNames[rng.Intn(2)]
		switch rng.Intn(8) {
		case 0:
			return rawLit(s)
		case 1:
			return paren(strLit(s))
		case 2, 3, 4:
			return namedLike(true)
		case 5:
			if rng.Intn(4) == 0 {
				return ident("sv") // a package-level variable: not a constant
			}
			return strLit(s)
		default:
			return strLit(s)
		}
	default:
		v := append(append([]int64{}, sizes...), bigs...)[rng.Intn(7)]
		switch rng.Intn(8) {
		case 0, 1:
			sp := intLitSpellings(v)
			return intLit(sp[rng.Intn(len(sp))], v)
		case 2:
			return paren(intLit(fmt.Sprint(v), v))
		case 3, 4, 5:
			return namedLike(false)
		case 6:
			if rng.Intn(4) == 0 {
				return ident("nv")
			}
			return intLit(fmt.Sprint(v), v)
		default:
			return intLit(fmt.Sprint(v), v)
		}
	}
}

var unhygNames = []string{"Text", "Type", "Pure", "Size", "Value"}

func (sc *scope) genHelper(name string, earlier []*helper) *helper {
	rng := sc.rng
	h := &helper{name: name}
	used := map[string]bool{}
	add := func(typ string, names []string) *param {
		for try := 0; try < 8; try++ {
			n := names[rng.Intn(len(names))]
			if !used[n] {
				used[n] = true
				h.params = append(h.params, param{n, typ})
				return &h.params[len(h.params)-1]
			}
		}
		return nil
	}
	varNames := []string{"v", "w"}
	if rng.Intn(5) == 0 {
		varNames = append(append([]string{}, unhygNames...), sc.matcher)
		sc.fc.unhyg = true
	}
	nv := 1 + rng.Intn(2)
	if rng.Intn(8) == 0 {
		nv = 0 // the body uses the matcher directly
	}
	for i := 0; i < nv; i++ {
		add("dsl.Var", varNames)
		varNames = []string{"v", "w"}
	}
	for i := rng.Intn(3); i > 0; i-- {
		add("string", []string{"s", "t"})
	}
	for i := rng.Intn(3); i > 0; i-- {
		add("int", []string{"n", "k", "lo", "hi"})
	}
	if rng.Intn(12) == 0 && !used[sc.matcher] {
		add("dsl.Matcher", []string{"mm", "q2"})
	}
	if rng.Intn(2) == 0 {
		rng.Shuffle(len(h.params), func(i, j int) { h.params[i], h.params[j] = h.params[j], h.params[i] })
	}
	byType := func(typ string) []string {
		var out []string
		for _, p := range h.params {
			if p.typ == typ {
				out = append(out, p.name)
			}
		}
		return out
	}
	vars, strs, ints, mats := byType("dsl.Var"), byType("string"), byType("int"), byType("dsl.Matcher")
	matcherShadowed := used[sc.matcher]
	varExpr := func() *E {
		if len(mats) > 0 && rng.Intn(3) == 0 {
			return index(ident(mats[0]), strLit(probeVars[rng.Intn(2)]))
		}
		if len(vars) > 0 && (matcherShadowed || rng.Intn(5) != 0) {
			return ident(vars[rng.Intn(len(vars))])
		}
		if matcherShadowed {
			return ident(sc.matcher) // the parameter named like the matcher
		}
		return sc.mvar(probeVars[rng.Intn(2)]) // the body refers to the matcher directly
	}
	str := func(s string) *E {
		if len(strs) > 0 && rng.Intn(2) == 0 {
			return ident(strs[rng.Intn(len(strs))])
		}
		return strSpellingsIn(rng, s, true)
	}
	num := func(v int64) *E {
		if len(ints) > 0 && rng.Intn(2) == 0 {
			return ident(ints[rng.Intn(len(ints))])
		}
		e := intSpellingsIn(rng, v, true)
		if e.K == "lit" && e.LK == "LInt" && len(e.Text) > 1 && e.Text[0] == '0' && e.Text[1] >= '0' && e.Text[1] <= '9' {
			sc.fc.octal = true
		}
		return e
	}
	textInBody = true
	if sc.constGroup || rng.Intn(20) == 0 {
		// the body refers to named constants of the group's scope: preferably one declared in the group that shadows a
		// package-level constant of another value, else a package-level one, never one spelled like a parameter
		bodyNamed = func(isStr bool, s string, i int64) *E {
			var shadowing, local, pkg []namedConst
			for _, c := range sc.localOrder {
				if c.isStr == isStr && c.s == s && c.i == i && !used[c.name] {
					if isPkgConst(c.name) {
						shadowing = append(shadowing, c)
					} else {
						local = append(local, c)
					}
				}
			}
			for _, c := range pkgConsts {
				if _, sh := sc.local[c.name]; !sh && c.isStr == isStr && c.s == s && c.i == i && !used[c.name] {
					pkg = append(pkg, c)
				}
			}
			var pick namedConst
			switch {
			case len(shadowing) > 0 && rng.Intn(4) != 0:
				pick = shadowing[rng.Intn(len(shadowing))]
				sc.fc.shadowBody = true
			case len(local) > 0 && rng.Intn(2) == 0:
				pick = local[rng.Intn(len(local))]
			case len(pkg) > 0:
				pick = pkg[rng.Intn(len(pkg))]
			case len(shadowing) > 0:
				pick = shadowing[rng.Intn(len(shadowing))]
				sc.fc.shadowBody = true
			default:
				return nil
			}
			sc.fc.constBody = true
			if isStr {
				return cident(pick.name, &Const{IsStr: true, S: s})
			}
			return cident(pick.name, &Const{I: i})
		}
	}
	defer func() { bodyNamed = nil }()
	otherVar = varExpr
	matcherExpr = func() *E {
		if len(mats) > 0 && (matcherShadowed || rng.Intn(2) == 0) {
			return ident(mats[0])
		}
		if matcherShadowed {
			return nil
		}
		return ident(sc.matcher)
	}
	defer func() { textInBody = false }()
	body := atom(rng, varExpr(), str, num)
	for i := rng.Intn(3); i > 0; i-- {
		body = bin([]string{"&&", "||"}[rng.Intn(2)], body, atom(rng, varExpr(), str, num))
		if rng.Intn(3) == 0 {
			body = paren(body)
		}
	}
	// a nested call of an earlier helper of the group: parameters or constants as arguments
	if len(earlier) > 0 && rng.Intn(2) == 0 {
		g := earlier[rng.Intn(len(earlier))]
		var args []*E
		ok := true
		for _, p := range g.params {
			switch p.typ {
			case "dsl.Var":
				if len(vars) > 0 && rng.Intn(4) != 0 {
					args = append(args, ident(vars[rng.Intn(len(vars))]))
				} else if !matcherShadowed {
					args = append(args, sc.mvar(probeVars[rng.Intn(2)]))
				} else {
					ok = false
				}
			case "string":
				if len(strs) > 0 && rng.Intn(3) != 0 {
					args = append(args, ident(strs[rng.Intn(len(strs))]))
				} else {
					args = append(args, strLit(typeNames[rng.Intn(2)]))
				}
			case "int":
				if len(ints) > 0 && rng.Intn(3) != 0 {
					args = append(args, ident(ints[rng.Intn(len(ints))]))
				} else {
					e := intSpellings(rng, sizes[rng.Intn(3)])
					for e.K != "lit" {
						e = intSpellings(rng, sizes[rng.Intn(3)])
					}
					if e.LK == "LInt" && len(e.Text) > 1 && e.Text[0] == '0' && e.Text[1] >= '0' && e.Text[1] <= '9' {
						sc.fc.octal = true
					}
					args = append(args, e)
				}
			default:
				if len(mats) > 0 {
					args = append(args, ident(mats[0]))
				} else if !matcherShadowed {
					args = append(args, ident(sc.matcher))
				} else {
					ok = false
				}
			}
		}
		if ok && !used[g.name] {
			body = bin([]string{"&&", "||"}[rng.Intn(2)], call(ident(g.name), args...), body)
			sc.fc.nested = true
		}
	}
	h.body = body
	// blank parameters in every position (in front of, between and behind the named ones); the body cannot refer to them
	if rng.Intn(3) == 0 {
		for nb := 1 + rng.Intn(2); nb > 0; nb-- {
			pos := rng.Intn(len(h.params) + 1)
			if rng.Intn(2) == 0 {
				pos = 0
			}
			typ := []string{"dsl.Var", "dsl.Var", "string", "int"}[rng.Intn(4)]
			if pos < len(h.params) && rng.Intn(2) == 0 {
				typ = h.params[pos].typ // `_, v dsl.Var`
			}
			h.params = append(h.params[:pos], append([]param{{"_", typ}}, h.params[pos:]...)...)
			sc.fc.blank = true
			for _, p := range h.params[pos+1:] {
				if p.name != "_" {
					sc.fc.blankFirst = true
				}
			}
		}
	}
	h.grouped = rng.Intn(2) == 0
	return h
}

var helperNames = []string{"f", "g", "h"}

func genFileCase(rng *rand.Rand) fileCase {
	var fc fileCase
	ng := 1 + rng.Intn(3)
	if rng.Intn(3) == 0 {
		ng = 1
	}
	definedBefore := map[string]bool{}
	for gi := 0; gi < ng; gi++ {
		g := group{name: fmt.Sprintf("g%d", gi), matcher: "m"}
		if rng.Intn(6) == 0 {
			g.matcher = []string{"mt", "q"}[rng.Intn(2)]
		}
		sc := &scope{rng: rng, matcher: g.matcher, local: map[string]namedConst{}, fc: &fc}
		// constants of the group that shadow package-level ones; one group in nine declares many and its helper bodies refer to them
		sc.constGroup = rng.Intn(9) == 0
		nd := 0
		if sc.constGroup {
			nd = 5 + rng.Intn(6)
		} else if rng.Intn(4) == 0 {
			nd = 1 + rng.Intn(2)
		}
		{
			for ; nd > 0; nd-- {
				c := shadowPool[rng.Intn(len(shadowPool))]
				if _, dup := sc.local[c.name]; dup {
					continue
				}
				sc.local[c.name] = c
				sc.localOrder = append(sc.localOrder, c)
				if c.isStr {
					g.stmts = append(g.stmts, gstmt{decl: fmt.Sprintf("const %s = %q", c.name, c.s)})
				} else {
					g.stmts = append(g.stmts, gstmt{decl: fmt.Sprintf("const %s = %d", c.name, c.i)})
				}
			}
		}
		names := append([]string{}, helperNames...)
		rng.Shuffle(len(names), func(i, j int) { names[i], names[j] = names[j], names[i] })
		nh := 1 + rng.Intn(2)
		if rng.Intn(6) == 0 {
			nh = 3
		}
		var hs []*helper
		hmap := map[string]*helper{}
		calledBy := map[string]bool{}
		pkgCall := gi > 0 && definedBefore["f"] && rng.Intn(10) == 0
		for hi := 0; hi < nh; hi++ {
			name := names[hi]
			if pkgCall && name == "f" {
				continue // this group calls the package-level f
			}
			h := sc.genHelper(name, hs)
			// the package-level f(n int), called by a helper that is defined before the group's own f: in Go the name means
			// the package-level function there (which a filter cannot call: the group has to be rejected)
			if name != "f" && !pkgCall && rng.Intn(3) == 0 {
				for _, later := range names[hi+1 : nh] {
					if later == "f" {
						h.body = bin("&&", &E{K: "call", X: ident("f"), Args: []*E{intLit("8", 8)}, Pkg: true}, h.body)
						fc.pkgBefore = true // (the model gets the identifier under a name no helper has, see model.go)
					}
				}
			}
			hs = append(hs, h)
			hmap[name] = h
			if definedBefore[name] {
				fc.sameName = true
			}
			// which earlier helpers does the body call
			var walk func(e *E)
			walk = func(e *E) {
				if e == nil {
					return
				}
				if e.K == "call" && e.X.K == "ident" && !e.Pkg {
					calledBy[e.X.Name] = true
				}
				walk(e.X)
				walk(e.Y)
				for _, a := range e.Args {
					walk(a)
				}
			}
			walk(h.body)
			g.stmts = append(g.stmts, gstmt{def: h})
			// a rule between the definitions sees only the helpers defined so far
			if hi < nh-1 && rng.Intn(4) == 0 {
				w := sc.callOf(h)
				calledBy[h.name] = true
				g.stmts = append(g.stmts, gstmt{where: w, inlined: inlineAll(w, copyMap(hmap)), report: fmt.Sprintf("%s.r%d $x", g.name, len(g.stmts))})
			}
		}
		// a higher-order helper: a parameter of function type, called in the body; the argument is a one-variable helper of the
		// group; the parameter is spelled like nothing else, like one of the helpers of the group (in Go it hides that
		// helper), or like the higher-order helper itself
		var hoWhere *E
		if rng.Intn(4) == 0 {
			simple := func(name string) *helper {
				otherVar = func() *E { return ident("v") }
				matcherExpr = func() *E { return ident(sc.matcher) }
				textInBody = true
				defer func() { textInBody = false }()
				h := &helper{name: name, params: []param{{"v", "dsl.Var"}}}
				// literals only: a named constant in a helper body makes the converter reject the group
				h.body = atom(rng, ident("v"), func(s string) *E {
					if rng.Intn(2) == 0 {
						return rawLit(s)
					}
					return strLit(s)
				}, func(v int64) *E {
					sp := intLitSpellings(v)
					return intLit(sp[rng.Intn(len(sp))], v)
				})
				for h.body.hasNamedConst() {
					h.body = call(sel(sel(ident("v"), "Type"), "Is"), strLit(typeNames[rng.Intn(2)]))
				}
				return h
			}
			pa, pb := simple("pa"), simple("pb")
			cands := []string{"pred", "pa", "pb", "ck"}
			for _, h := range hs {
				cands = append(cands, h.name)
			}
			pname := cands[rng.Intn(len(cands))]
			if rng.Intn(2) == 0 {
				pname = []string{"pa", "pb"}[rng.Intn(2)]
			}
			ck := &helper{name: "ck", params: []param{{pname, "func(dsl.Var) bool"}, {"v", "dsl.Var"}}}
			if rng.Intn(2) == 0 {
				ck.params[0], ck.params[1] = ck.params[1], ck.params[0]
			}
			ck.body = call(ident(pname), ident("v"))
			switch rng.Intn(4) {
			case 0:
				ck.body = not(ck.body)
			case 1:
				ck.body = bin("||", ck.body, sel(ident("v"), "Const"))
			case 2:
				ck.body = bin("&&", sel(ident("v"), "Pure"), ck.body)
			}
			defs := []*helper{pa, pb, ck}
			if rng.Intn(3) == 0 { // the helper whose name the parameter may carry is defined after the higher-order helper
				defs = []*helper{pb, ck, pa}
			}
			// a helper that hands pa / pb on to the higher-order helper; where it is written the name may still mean the
			// package-level function variable (the helper of the group is defined later): in Go's reading the group then calls
			// that package-level function -- not a loadable rule
			var hk *helper
			if rng.Intn(2) == 0 {
				q := []string{"pa", "pb"}[rng.Intn(2)]
				qe := ident(q)
				defs = []*helper{pb, ck, nil, pa}
				if rng.Intn(4) == 0 {
					defs = []*helper{pa, ck, nil, pb}
				}
				if defs[3].name == q {
					qe.Pkg = true
					fc.pkgArg = true
				}
				hk = &helper{name: "hk", params: []param{{"u", "dsl.Var"}}}
				hkArgs := []*E{qe, ident("u")}
				if ck.params[0].typ == "dsl.Var" {
					hkArgs[0], hkArgs[1] = hkArgs[1], hkArgs[0]
				}
				hk.body = call(ident("ck"), hkArgs...)
				if rng.Intn(3) == 0 {
					hk.body = bin("||", sel(ident("u"), "Const"), hk.body)
				}
				defs[2] = hk
			}
			for _, h := range defs {
				hmap[h.name] = h
				g.stmts = append(g.stmts, gstmt{def: h})
			}
			arg := []string{"pa", "pb"}[rng.Intn(2)]
			ckArgs := []*E{ident(arg), sc.mvar("x")}
			if ck.params[0].typ == "dsl.Var" {
				ckArgs[0], ckArgs[1] = ckArgs[1], ckArgs[0]
			}
			// both one-variable helpers are used (Go rejects unused local functions)
			hoWhere = bin([]string{"&&", "||"}[rng.Intn(2)], call(ident("ck"), ckArgs...),
				bin("||", call(ident("pa"), sc.mvar("y")), call(ident("pb"), sc.mvar("y"))))
			if hk != nil {
				hoWhere = bin([]string{"&&", "||"}[rng.Intn(2)], call(ident("hk"), sc.mvar("x")), hoWhere)
			}
			fc.higher = true
			if pname != "pred" {
				fc.higherName = true
			}
		}
		// the last rule calls every helper nobody else calls (Go rejects unused local functions)
		var where *E
		for _, h := range hs {
			if calledBy[h.name] {
				continue
			}
			c := sc.callOf(h)
			if rng.Intn(5) == 0 {
				c = not(c)
			}
			if where == nil {
				where = c
			} else {
				where = bin([]string{"&&", "||"}[rng.Intn(2)], where, c)
			}
		}
		if where == nil && len(hs) > 0 {
			where = sc.callOf(hs[len(hs)-1])
		}
		if hoWhere != nil {
			if where == nil {
				where = hoWhere
			} else {
				where = bin([]string{"&&", "||"}[rng.Intn(2)], paren(hoWhere), where)
			}
		}
		// the same helper called again with other arguments (the template must survive an expansion unchanged)
		if len(hs) > 0 && rng.Intn(3) == 0 {
			c := sc.callOf(hs[rng.Intn(len(hs))])
			where = bin([]string{"&&", "||"}[rng.Intn(2)], where, c)
			fc.twice = true
		}
		if pkgCall {
			pc := call(ident("f"), intLit("8", 8))
			if where == nil {
				where = pc
			} else {
				where = bin("&&", where, pc)
			}
			fc.pkgFunc = true
		}
		switch rng.Intn(6) {
		case 0:
			where = bin("&&", where, sel(sc.mvar("y"), "Pure"))
		case 1:
			where = bin("||", sel(sc.mvar("y"), "Const"), paren(where))
		}
		g.stmts = append(g.stmts, gstmt{where: where, inlined: inlineAll(where, hmap), report: fmt.Sprintf("%s.r%d $x", g.name, len(g.stmts))})
		for _, h := range hs {
			definedBefore[h.name] = true
		}
		fc.groups = append(fc.groups, g)
	}
	return fc
}

func copyMap(m map[string]*helper) map[string]*helper {
	out := map[string]*helper{}
	for k, v := range m {
		out[k] = v
	}
	return out
}

func (sc *scope) callOf(h *helper) *E {
	var args []*E
	for _, p := range h.params {
		args = append(args, sc.argFor(p.typ, h))
	}
	return call(ident(h.name), args...)
}

func renderFile(fc fileCase, inlined bool) string {
	var sb strings.Builder
	sb.WriteString("package gorules\n\nimport \"github.com/quasilyte/go-ruleguard/dsl\"\n\n" + constsSrc() + "\n")
	for _, g := range fc.groups {
		fmt.Fprintf(&sb, "func %s(%s dsl.Matcher) {\n", g.name, g.matcher)
		for _, st := range g.stmts {
			switch {
			case st.decl != "":
				fmt.Fprintf(&sb, "\t%s\n", st.decl)
			case st.def != nil:
				if inlined {
					continue
				}
				var ps []string
				for i, p := range st.def.params {
					if st.def.grouped && i+1 < len(st.def.params) && st.def.params[i+1].typ == p.typ {
						ps = append(ps, p.name)
					} else {
						ps = append(ps, p.name+" "+p.typ)
					}
				}
				fmt.Fprintf(&sb, "\t%s := func(%s) bool { return %s }\n", st.def.name, strings.Join(ps, ", "), st.def.body.src())
			default:
				w := st.where
				if inlined {
					w = st.inlined
				}
				fmt.Fprintf(&sb, "\t%s.Match(`$x + $y`).\n\t\tWhere(%s).\n\t\tReport(`%s`)\n", g.matcher, w.src(), st.report)
			}
		}
		sb.WriteString("}\n\n")
	}
	return sb.String()
}

func renderRules(where string, pattern, report string) string {
	return "package gorules\n\nimport \"github.com/quasilyte/go-ruleguard/dsl\"\n\n" + constsSrc() +
		fmt.Sprintf("\nfunc g0(m dsl.Matcher) {\n\tm.Match(%s).\n\t\tWhere(%s).\n\t\tReport(%s)\n}\n", pattern, where, report)
}

const target = `package target

func use(xs ...interface{}) {}

func f(a8, b8 int64, a4, b4 int32, a2, b2 int16) {
	_ = a8 + b8
	_ = a4 + b4
	_ = a2 + b2
	_ = a8 + 1
	_ = 2 + a4
	_ = a8 + int64(a4)
	_ = use2(a8) + b8
	_ = 420 + 1
	_ = 644 + 1
	_ = 512 + 1
	_ = 1000 + 1
	_ = 64 + 1
	_ = 100 + 1
	_ = 8 + 1
	_ = 10 + 1
	_ = 4 + 1
	_ = 2 + 1
	_ = 97 + 1
}

func use2(x int64) int64 { return x }
`

// ------------------------------------------------------------------ observation

type side struct {
	ConvErr string   `json:"conv_err,omitempty"` // error of the source-to-IR conversion (parse / type check / irconv)
	LoadErr string   `json:"load_err,omitempty"` // error of Load
	Panic   string   `json:"panic,omitempty"`
	IR      string   `json:"ir,omitempty"` // normalised IR of the rule
	Reports []string `json:"reports"`
	RunProb string   `json:"run_problem,omitempty"`
}

func normExpr(e *ir.FilterExpr) {
	e.Src = ""
	e.Line = 0
	for i := range e.Args {
		normExpr(&e.Args[i])
	}
}

const importFlake = "could not import github.com/quasilyte/go-ruleguard/dsl"

func observe(t *hutil.Target, src string) (s side) {
	for try := 0; try < 4; try++ {
		s = observe1(t, src)
		if !strings.Contains(s.ConvErr+s.LoadErr, importFlake) {
			break
		}
	}
	return s
}

func observe1(t *hutil.Target, src string) (s side) {
	defer func() {
		if r := recover(); r != nil {
			s.Panic = fmt.Sprint(r)
		}
	}()
	e := ruleguard.NewEngine()
	ctx := &ruleguard.LoadContext{Fset: t.Fset}
	irf, err := ruleguard.VerifConvertAST(e, ctx, "rules.go", []byte(src))
	if err != nil {
		s.ConvErr = err.Error()
	} else {
		var rules []ir.Rule
		for _, g := range irf.RuleGroups {
			for _, r := range g.Rules {
				r.Line = 0
				normExpr(&r.WhereExpr)
				for i := range r.SyntaxPatterns {
					r.SyntaxPatterns[i].Line = 0
				}
				for i := range r.CommentPatterns {
					r.CommentPatterns[i].Line = 0
				}
				rules = append(rules, r)
			}
		}
		b, _ := json.Marshal(rules)
		s.IR = string(b)
	}
	e = ruleguard.NewEngine()
	if err := e.Load(ctx, "rules.go", strings.NewReader(src)); err != nil {
		s.LoadErr = err.Error()
		return s
	}
	reps, prob := hutil.Run(e, t, 0, "", nil)
	s.RunProb = prob
	s.Reports = []string{}
	for _, r := range reps {
		s.Reports = append(s.Reports, fmt.Sprintf("%d:%d:%s", r.Pos, r.End, r.Message))
	}
	return s
}

type Case struct {
	Kind     string `json:"kind"` // helper | const
	ID       int    `json:"id"`
	SrcA     string `json:"src_a"` // with helpers / with the constant spelling
	SrcB     string `json:"src_b"` // inlined / plain literal
	A        side   `json:"a"`
	B        side   `json:"b"`
	IREqual  bool   `json:"ir_equal"`
	Model    string `json:"model,omitempty"`   // Coq: the file as a list of groups (RG.Load.MacroEnv)
	ModelB   string `json:"model_b,omitempty"` // const cases: the literal twin as a list of groups
	Groups   int    `json:"groups"`
	Same     bool   `json:"same_name"`  // two groups define a helper of the same name
	PkgFunc  bool   `json:"pkg_func"`   // a later group calls a package-level function named like an earlier helper
	Unhyg    bool   `json:"unhygienic"` // a parameter is named like a selected field of the body or like the matcher
	Nested   bool   `json:"nested"`
	PNamed   bool   `json:"param_named"`               // an identifier argument is spelled like a parameter of the called helper
	Octal    bool   `json:"octal"`                     // a helper body contains a legacy octal literal
	Twice    bool   `json:"twice"`                     // a helper is called more than once
	Blank    bool   `json:"blank"`                     // a helper has a blank parameter
	BlankF   bool   `json:"blank_first"`               // ... followed by a named one
	ConstB   bool   `json:"const_body"`                // a helper body refers to a named constant
	ShadowB  bool   `json:"shadow_body"`               // ... that is declared in the group and shadows a package-level one
	PkgBef   bool   `json:"pkg_before"`                // a helper calls a package-level function whose name a later helper of the group carries
	TwinRej  bool   `json:"twin_rejected"`             // fixed catalogue: Go's reading of the group is itself not a loadable rule
	Higher   bool   `json:"higher_order"`              // a helper takes another helper as an argument and calls it
	HigherN  bool   `json:"higher_named"`              // ... through a parameter spelled like a helper of the group
	SpellCat string `json:"spell_catalogue,omitempty"` // const cases of the fixed catalogue: position and form
	PkgArg   bool   `json:"pkg_arg"`                   // a helper hands a package-level function to a higher-order helper; a later helper of the group carries its name
	GConst   bool   `json:"group_consts"`              // const case: several groups declare equal-named constants with other values
	Outside  bool   `json:"outside_model"`             // uses Type.IdenticalTo / Filter, whose argument the Coq skeleton does not model
	Fixed    string `json:"fixed,omitempty"`           // a case of the fixed catalogue (twins.go)
	Spell    string `json:"spelling,omitempty"`
	Crash    bool   `json:"crash,omitempty"` // reported by the supervisor: the process died on this case
}

// Begin announces a case to the supervisor (hutil.Supervise): if the process dies while converting / loading it, the
// supervisor reports the case with a.panic = the runtime's fatal error.
type Begin struct {
	Begin int    `json:"begin"`
	Kind  string `json:"kind"`
	SrcA  string `json:"src_a"`
	SrcB  string `json:"src_b"`
}

func crashCase(begin []byte, kind, detail string) []byte {
	var b Begin
	json.Unmarshal(begin, &b)
	out, _ := json.Marshal(Case{Kind: b.Kind, ID: b.Begin, SrcA: b.SrcA, SrcB: b.SrcB,
		A: side{Panic: "the process died (" + kind + "): " + detail}, Crash: true})
	return out
}

func main() {
	seed := flag.Int64("seed", 1, "PRNG seed")
	nh := flag.Int("helpers", 200, "helper cases")
	nc := flag.Int("consts", 120, "constant spelling cases")
	ng := flag.Int("gconsts", 30, "cases of equal-named constants in several groups")
	tmp := flag.String("tmp", "", "scratch directory")
	child := flag.Bool("child", false, "internal: generate and observe (run by the supervisor)")
	skip := flag.Int("skip", 0, "internal: generate but do not observe the cases up to this id")
	flag.Parse()
	if !*child {
		os.Exit(hutil.Supervise(os.Args[1:], crashCase))
	}
	hutil.ChildInit()
	rng := rand.New(rand.NewSource(*seed))
	stdout := bufio.NewWriterSize(os.Stdout, 1<<16)
	defer stdout.Flush()
	enc := json.NewEncoder(stdout)
	announce := func(c *Case) bool {
		if c.ID <= *skip {
			return false
		}
		enc.Encode(Begin{Begin: c.ID, Kind: c.Kind, SrcA: c.SrcA, SrcB: c.SrcB})
		stdout.Flush()
		return true
	}
	t, err := hutil.CheckTarget(*tmp, "target/target.go", []byte(target))
	if err != nil {
		fmt.Fprintln(os.Stderr, err)
		os.Exit(3)
	}
	id := 0
	for _, tw := range fixedTwins {
		id++
		c := Case{Kind: "helper", ID: id, Groups: 1 + len(tw.more), Fixed: tw.name, TwinRej: tw.rejected}
		c.SrcA, c.SrcB = tw.render(false), tw.render(true)
		if !announce(&c) {
			continue
		}
		c.A = observe(t, c.SrcA)
		c.B = observe(t, c.SrcB)
		c.IREqual = c.A.IR != "" && c.A.IR == c.B.IR
		if !strings.Contains(tw.helper, "m[name]") { // the model assumes that the matcher is indexed by a literal ([consistent])
			c.Model = modelOf(c.SrcA)
		}
		enc.Encode(c)
		stdout.Flush()
	}
	for i := 0; i < *nh; i++ {
		id++
		outsideModel = false
		fc := genFileCase(rng)
		c := Case{Kind: "helper", ID: id, Outside: outsideModel}
		c.SrcA = renderFile(fc, false)
		c.SrcB = renderFile(fc, true)
		if !announce(&c) {
			continue
		}
		c.A = observe(t, c.SrcA)
		c.B = observe(t, c.SrcB)
		c.IREqual = c.A.IR != "" && c.A.IR == c.B.IR
		c.Groups, c.Same, c.PkgFunc, c.Unhyg, c.Nested, c.PNamed, c.Octal = len(fc.groups), fc.sameName, fc.pkgFunc, fc.unhyg, fc.nested, fc.paramNamed, fc.octal
		c.Twice = fc.twice
		c.Blank, c.BlankF, c.ConstB, c.ShadowB = fc.blank, fc.blankFirst, fc.constBody, fc.shadowBody
		c.Higher, c.HigherN, c.PkgBef, c.PkgArg = fc.higher, fc.higherName, fc.pkgBefore, fc.pkgArg
		c.Outside = outsideModel
		if !outsideModel {
			c.Model = modelOf(c.SrcA)
		}
		enc.Encode(c)
		stdout.Flush()
	}
	// constant spellings outside helper bodies: the catalogue (every class of outermost node in every position), then random ones
	plainSide := map[string]side{} // the literal twin of a position is the same file for every spelling
	for _, sc := range spellCatalogue(*seed) {
		id++
		c := Case{Kind: "const", ID: id, Spell: sc.spell, SpellCat: sc.name, SrcA: sc.srcA, SrcB: sc.srcB}
		if !announce(&c) {
			continue
		}
		if sc.inWhere {
			c.Model, c.ModelB = modelOf(c.SrcA), modelOf(c.SrcB)
		}
		c.A = observe(t, c.SrcA)
		if b, ok := plainSide[c.SrcB]; ok {
			c.B = b
		} else {
			c.B = observe(t, c.SrcB)
			plainSide[c.SrcB] = c.B
		}
		c.IREqual = c.A.IR != "" && c.A.IR == c.B.IR
		enc.Encode(c)
		stdout.Flush()
	}
	for i := 0; i < *nc; i++ {
		id++
		c := Case{Kind: "const", ID: id}
		v := mvar("x")
		var spelled, plain *E
		pat := "`$x + $y`"
		switch rng.Intn(7) {
		case 0:
			s := typeNames[rng.Intn(2)]
			a := strSpellings(rng, s)
			spelled, plain = call(sel(sel(v, "Type"), "Is"), a), call(sel(sel(v, "Type"), "Is"), strLit(s))
			c.Spell = a.src()
		case 1:
			n := sizes[rng.Intn(3)]
			a := intSpellings(rng, n)
			spelled, plain = bin("==", sel(sel(v, "Type"), "Size"), a), bin("==", sel(sel(v, "Type"), "Size"), intLit(fmt.Sprint(n), n))
			c.Spell = a.src()
		case 2:
			a := strSpellings(rng, "a8")
			spelled, plain = bin("==", sel(v, "Text"), a), bin("==", sel(v, "Text"), strLit("a8"))
			c.Spell = a.src()
		case 3:
			a := strSpellings(rng, "a8")
			spelled, plain = bin("!=", a, sel(v, "Text")), bin("!=", strLit("a8"), sel(v, "Text"))
			c.Spell = a.src()
		case 4: // the variable name itself
			name := []string{"x", "y"}[rng.Intn(2)]
			spell := []string{"c" + strings.ToUpper(name), "(\"" + name + "\")", "`" + name + "`"}[rng.Intn(3)]
			spelled = sel(index(ident("m"), &E{K: "ident", Name: spell}), "Pure")
			plain = sel(mvar(name), "Pure")
			c.Spell = spell
		case 5:
			n := bigs[rng.Intn(len(bigs))]
			a := intSpellings(rng, n)
			spelled, plain = bin("==", call(sel(sel(v, "Value"), "Int")), a), bin("==", call(sel(sel(v, "Value"), "Int")), intLit(fmt.Sprint(n), n))
			c.Spell = a.src()
		default: // the pattern and the message
			spelled, plain = sel(v, "Pure"), sel(v, "Pure")
			pat = []string{"\"$x \" + \"+ $y\"", "cPat", "(`$x + $y`)"}[rng.Intn(3)]
			c.Spell = pat
		}
		extraConsts := "const (\n\tcX = \"x\"\n\tcY = \"y\"\n\tcPat = \"$x + $y\"\n)\n"
		c.SrcA = strings.Replace(renderRules(spelled.src(), pat, "`hit $x`"), "\nfunc g0", "\n"+extraConsts+"\nfunc g0", 1)
		c.SrcB = strings.Replace(renderRules(plain.src(), "`$x + $y`", "`hit $x`"), "\nfunc g0", "\n"+extraConsts+"\nfunc g0", 1)
		if !announce(&c) {
			continue
		}
		c.A = observe(t, c.SrcA)
		c.B = observe(t, c.SrcB)
		c.IREqual = c.A.IR != "" && c.A.IR == c.B.IR
		enc.Encode(c)
		stdout.Flush()
	}
	// several groups of one file spell their Where() alike over equal-named constants with other values
	for i := 0; i < *ng; i++ {
		id++
		c := Case{Kind: "const", ID: id, GConst: true, Spell: "equal-named constants in several groups"}
		c.SrcA, c.SrcB, c.Groups = genGroupConsts(rng)
		if !announce(&c) {
			continue
		}
		c.A = observe(t, c.SrcA)
		c.B = observe(t, c.SrcB)
		c.IREqual = c.A.IR != "" && c.A.IR == c.B.IR
		enc.Encode(c)
		stdout.Flush()
	}
	_ = reflect.DeepEqual
}

// genGroupConsts: one Where() text over the constant names kT (a type), kN (a size), kV (a value), kP (a text), used by every
// group of the file; every group gives the names its own values -- by declaring them, or by leaving them to the package level.
// Twin: the same file with the values written as literals.
func genGroupConsts(rng *rand.Rand) (withConsts, literal string, ngroups int) {
	kT, kN, kV, kP := cident("kT", nil), cident("kN", nil), cident("kV", nil), cident("kP", nil)
	v := func() *E { return mvar(probeVars[rng.Intn(2)]) }
	one := func() *E {
		switch rng.Intn(12) {
		case 0, 1:
			return call(sel(sel(v(), "Type"), "Is"), kT)
		case 2:
			return not(call(sel(sel(v(), "Type"), "Is"), kT))
		case 3:
			return bin("==", sel(sel(v(), "Type"), "Size"), kN)
		case 4:
			return bin(">=", sel(sel(v(), "Type"), "Size"), kN)
		case 5:
			return bin("==", kN, sel(sel(v(), "Type"), "Size"))
		case 6:
			return bin("==", call(sel(sel(v(), "Value"), "Int")), kV)
		case 7:
			return bin("<", call(sel(sel(v(), "Value"), "Int")), kV)
		case 8:
			return call(sel(sel(v(), "Text"), "Matches"), kP)
		case 9:
			return bin("==", sel(v(), "Text"), kP)
		case 10:
			return call(sel(call(sel(sel(v(), "Type"), "Underlying")), "Is"), kT)
		default:
			return call(sel(sel(v(), "Type"), "ConvertibleTo"), kT)
		}
	}
	where := one()
	for k := rng.Intn(3); k > 0; k-- {
		where = bin([]string{"&&", "||"}[rng.Intn(2)], where, one())
		if rng.Intn(3) == 0 {
			where = paren(where)
		}
	}
	// an equal-named helper over the same names in a third of the files
	withHelper := rng.Intn(3) == 0
	ngroups = 2 + rng.Intn(2)
	types_, sizes_, vals, pats := []string{"int64", "int32", "int16"}, []int64{8, 4, 2}, []int64{420, 512, 64, 8, 644, 1000, 100, 10}, []string{"a8", "a4", "a2", "b8"}
	pkg := []int{rng.Intn(3), rng.Intn(3), rng.Intn(len(vals)), rng.Intn(len(pats))}
	var a, b strings.Builder
	head := "package gorules\n\nimport \"github.com/quasilyte/go-ruleguard/dsl\"\n\n"
	a.WriteString(head + fmt.Sprintf("const (\n\tkT = %q\n\tkN = %d\n\tkV = %d\n\tkP = %q\n)\n\n", types_[pkg[0]], sizes_[pkg[1]], vals[pkg[2]], pats[pkg[3]]))
	b.WriteString(head)
	first := []int{rng.Intn(3), rng.Intn(3), rng.Intn(len(vals)), rng.Intn(len(pats))}
	for g := 0; g < ngroups; g++ {
		// the values of this group: other ones than the previous group's; the last group may repeat the first group's
		val := []int{(first[0] + g) % 3, (first[1] + g) % 3, (first[2] + g) % len(vals), (first[3] + g) % len(pats)}
		if g == ngroups-1 && g > 1 && rng.Intn(2) == 0 {
			val = first
		}
		var decls []string
		for k, d := range []string{fmt.Sprintf("const kT = %q", types_[val[0]]), fmt.Sprintf("const kN = %d", sizes_[val[1]]),
			fmt.Sprintf("const kV = %d", vals[val[2]]), fmt.Sprintf("const kP = %q", pats[val[3]])} {
			if rng.Intn(5) == 0 { // left to the package level
				val[k] = pkg[k]
				continue
			}
			decls = append(decls, "\t"+d+"\n")
		}
		lits := map[string]*E{"kT": strLit(types_[val[0]]), "kN": intLit(fmt.Sprint(sizes_[val[1]]), sizes_[val[1]]),
			"kV": intLit(fmt.Sprint(vals[val[2]]), vals[val[2]]), "kP": strLit(pats[val[3]])}
		wa, wb := where.src(), where.subst(lits).src()
		ha := ""
		if withHelper {
			// (a constant named inside a helper body makes the converter reject the group: the constants are arguments)
			body := bin("||", call(sel(sel(ident("v"), "Type"), "Is"), ident("s")), bin("==", sel(sel(ident("v"), "Type"), "Size"), ident("n")))
			ha = "\tf := func(v dsl.Var, s string, n int) bool { return " + body.src() + " }\n"
			wa = "f(m[\"y\"], kT, kN) && (" + wa + ")"
			wb = "(" + body.subst(map[string]*E{"v": mvar("y"), "s": lits["kT"], "n": lits["kN"]}).src() + ") && (" + wb + ")"
		}
		rule := func(w string) string {
			return fmt.Sprintf("\tm.Match(`$x + $y`).\n\t\tWhere(%s).\n\t\tReport(`g%d hit $x`)\n", w, g)
		}
		fmt.Fprintf(&a, "func g%d(m dsl.Matcher) {\n%s%s%s}\n\n", g, strings.Join(decls, ""), ha, rule(wa))
		fmt.Fprintf(&b, "func g%d(m dsl.Matcher) {\n%s}\n\n", g, rule(wb))
	}
	return a.String(), b.String(), ngroups
}
