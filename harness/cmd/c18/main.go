// c18: local helper functions and constant expressions in rules files are transparent.
// One abstract description of a Where expression with helper calls is rendered (a) with the helpers and (b) manually inlined
// (the generator substitutes on its own tree); both are converted (IR, Src/Line normalised) and loaded, and both engines are
// run on a probe file. Constant spellings of string / int arguments are rendered next to the plain literal.
// Output: one JSON object per case. The helper body and the call arguments are also printed as terms of the Coq model
// (RG.Load.Macro.dexpr) with the constant annotations go/types gives the original nodes.
package main

import (
	"encoding/json"
	"flag"
	"fmt"
	"math/rand"
	"os"
	"reflect"
	"strconv"
	"strings"

	"verif/harness/internal/hutil"

	"github.com/quasilyte/go-ruleguard/ruleguard"
	"github.com/quasilyte/go-ruleguard/ruleguard/ir"
)

// ------------------------------------------------------------------ abstract expressions

type Const struct {
	IsStr bool
	S     string
	I     int64
}

type E struct {
	K     string // ident lit paren unary binary sel index call
	Name  string
	Text  string // literal source text
	LK    string // LString LInt LFloat LChar
	C     *Const // the constant go/types folds the node to (string / int only), nil otherwise
	Op    string
	X, Y  *E
	Field string
	Args  []*E
}

func ident(n string) *E            { return &E{K: "ident", Name: n} }
func cident(n string, c *Const) *E { return &E{K: "ident", Name: n, C: c} }
func sel(x *E, f string) *E        { return &E{K: "sel", X: x, Field: f} }
func call(f *E, args ...*E) *E     { return &E{K: "call", X: f, Args: args} }
func index(x, i *E) *E             { return &E{K: "index", X: x, Y: i} }
func bin(op string, x, y *E) *E    { return &E{K: "binary", Op: op, X: x, Y: y} }
func not(x *E) *E                  { return &E{K: "unary", Op: "!", X: x} }
func paren(x *E) *E                { return &E{K: "paren", X: x, C: x.C} }
func strLit(s string) *E {
	return &E{K: "lit", LK: "LString", Text: strconv.Quote(s), C: &Const{IsStr: true, S: s}}
}
func rawLit(s string) *E {
	return &E{K: "lit", LK: "LString", Text: "`" + s + "`", C: &Const{IsStr: true, S: s}}
}
func intLit(text string, v int64) *E { return &E{K: "lit", LK: "LInt", Text: text, C: &Const{I: v}} }
func mvar(name string) *E            { return index(ident("m"), strLit(name)) }

func (e *E) src() string {
	switch e.K {
	case "ident":
		return e.Name
	case "lit":
		return e.Text
	case "paren":
		return "(" + e.X.src() + ")"
	case "unary":
		return e.Op + e.X.src()
	case "binary":
		return e.X.src() + " " + e.Op + " " + e.Y.src()
	case "sel":
		return e.X.src() + "." + e.Field
	case "index":
		return e.X.src() + "[" + e.Y.src() + "]"
	default:
		var as []string
		for _, a := range e.Args {
			as = append(as, a.src())
		}
		return e.X.src() + "(" + strings.Join(as, ", ") + ")"
	}
}

// substitution of parameters in expression position (the generator's own inliner); arguments lose their outer parentheses
func (e *E) subst(ps map[string]*E) *E {
	switch e.K {
	case "ident":
		if a, ok := ps[e.Name]; ok {
			for a.K == "paren" {
				a = a.X
			}
			return a
		}
		return e
	case "lit":
		return e
	}
	c := *e
	if e.X != nil {
		c.X = e.X.subst(ps)
	}
	if e.Y != nil {
		c.Y = e.Y.subst(ps)
	}
	c.Args = nil
	for _, a := range e.Args {
		c.Args = append(c.Args, a.subst(ps))
	}
	return &c
}

func coqStr(s string) string {
	ok := true
	for i := 0; i < len(s); i++ {
		if s[i] < 32 || s[i] > 126 {
			ok = false
		}
	}
	if ok {
		return `"` + strings.ReplaceAll(s, `"`, `""`) + `"`
	}
	var bs []string
	for i := 0; i < len(s); i++ {
		bs = append(bs, fmt.Sprintf("ascii_of_nat %d", s[i]))
	}
	return "(string_of_list_ascii [" + strings.Join(bs, "; ") + "])"
}

func (c *Const) coq() string {
	if c == nil {
		return "None"
	}
	if c.IsStr {
		return "(Some (CStr " + coqStr(c.S) + "))"
	}
	return fmt.Sprintf("(Some (CInt (%d)%%Z))", c.I)
}

func (e *E) coq() string {
	a := e.C.coq()
	switch e.K {
	case "ident":
		return fmt.Sprintf("(EIdent %s %s)", a, coqStr(e.Name))
	case "lit":
		patched := "None"
		switch e.LK {
		case "LString":
			if s, err := strconv.Unquote(e.Text); err == nil {
				patched = "(Some (CStr " + coqStr(s) + "))"
			}
		case "LInt":
			if v, err := strconv.ParseInt(e.Text, 0, 64); err == nil {
				patched = fmt.Sprintf("(Some (CInt (%d)%%Z))", v)
			}
		case "LFloat":
			patched = "(Some COther)"
		}
		return fmt.Sprintf("(ELit %s %s %s)", a, e.LK, patched)
	case "paren":
		return fmt.Sprintf("(EParen %s %s)", a, e.X.coq())
	case "unary":
		return fmt.Sprintf("(EUnary %s %s %s)", a, coqStr(e.Op), e.X.coq())
	case "binary":
		return fmt.Sprintf("(EBinary %s %s %s %s)", a, coqStr(e.Op), e.X.coq(), e.Y.coq())
	case "sel":
		return fmt.Sprintf("(ESel %s %s %s)", a, e.X.coq(), coqStr(e.Field))
	case "index":
		return fmt.Sprintf("(EIndex %s %s %s)", a, e.X.coq(), e.Y.coq())
	default:
		var as []string
		for _, x := range e.Args {
			as = append(as, x.coq())
		}
		return fmt.Sprintf("(ECall %s %s [%s])", a, e.X.coq(), strings.Join(as, "; "))
	}
}

// ------------------------------------------------------------------ generation

type param struct {
	name string
	typ  string // dsl.Var | string | int
}

type helper struct {
	name   string
	params []param
	body   *E
}

type helperCase struct {
	helpers []helper
	where   *E // uses the helpers
	inlined *E // the same with every call replaced
	// for the Coq model (single, non-nested call): body, parameters with arguments
	modelBody *E
	modelArgs map[string]*E
	modelOK   bool
}

var probeVars = []string{"x", "y"}

// string-valued expression spellings of s: which may appear inside a helper body (no helper parameter involved)
func strSpellings(rng *rand.Rand, s string) *E {
	switch rng.Intn(6) {
	case 0:
		return rawLit(s)
	case 1:
		if len(s) > 1 {
			e := bin("+", strLit(s[:1]), strLit(s[1:]))
			e.C = &Const{IsStr: true, S: s}
			return e
		}
		return strLit(s)
	case 2:
		return cident(constName(s), &Const{IsStr: true, S: s})
	case 3:
		return paren(strLit(s))
	default:
		return strLit(s)
	}
}

func constName(s string) string {
	switch s {
	case "int64":
		return "cInt64"
	case "int32":
		return "cInt32"
	case "a8":
		return "cA8"
	}
	return "cOther"
}

func intSpellings(rng *rand.Rand, v int64) *E {
	switch rng.Intn(8) {
	case 0:
		return intLit(fmt.Sprintf("0x%x", v), v)
	case 1:
		e := bin("+", intLit(fmt.Sprint(v-1), v-1), intLit("1", 1))
		e.C = &Const{I: v}
		return e
	case 2:
		return cident(map[int64]string{8: "cEight", 4: "cFour", 2: "cTwo"}[v], &Const{I: v})
	case 3:
		return paren(intLit(fmt.Sprint(v), v))
	case 4:
		return intLit(fmt.Sprintf("0o%o", v), v)
	case 5:
		e := bin("*", intLit(fmt.Sprint(v/2), v/2), intLit("2", 2))
		e.C = &Const{I: v}
		return e
	case 6:
		return &E{K: "lit", LK: "LFloat", Text: fmt.Sprintf("%d.0", v), C: &Const{I: v}}
	default:
		return intLit(fmt.Sprint(v), v)
	}
}

var typeNames = []string{"int64", "int32"}
var sizes = []int64{8, 4, 2}

// an atom over the variable expression v; str / num give the spelling of arguments
func atom(rng *rand.Rand, v *E, str func(string) *E, num func(int64) *E) *E {
	switch rng.Intn(9) {
	case 0:
		return sel(v, "Pure")
	case 1:
		return sel(v, "Const")
	case 2:
		return bin("==", sel(v, "Text"), str("a8"))
	case 3:
		return call(sel(sel(v, "Type"), "Is"), str(typeNames[rng.Intn(2)]))
	case 4:
		return bin("==", sel(sel(v, "Type"), "Size"), num(sizes[rng.Intn(3)]))
	case 5:
		return bin(">=", sel(sel(v, "Type"), "Size"), num(sizes[rng.Intn(3)]))
	case 6:
		return call(sel(sel(v, "Text"), "Matches"), str("a8"))
	case 7:
		return call(sel(sel(v, "Node"), "Is"), strLit("Ident"))
	default:
		return not(call(sel(sel(v, "Type"), "Is"), str(typeNames[rng.Intn(2)])))
	}
}

func genHelperCase(rng *rand.Rand) helperCase {
	var hc helperCase
	// parameter names: ordinary, or named like a selected field / the matcher
	names := []string{"v", "w", "s", "n", "Text", "Type", "m", "Pure", "Size"}
	pv := param{names[rng.Intn(2)], "dsl.Var"}
	if rng.Intn(4) == 0 {
		pv.name = names[4+rng.Intn(5)]
	}
	h := helper{name: "f", params: []param{pv}}
	args := map[string]*E{}
	callArgs := []*E{}
	av := mvar(probeVars[rng.Intn(2)])
	if rng.Intn(4) == 0 {
		av = paren(av)
	}
	args[pv.name] = av
	callArgs = append(callArgs, av)
	var ps, pn *param
	if rng.Intn(2) == 0 {
		ps = &param{"s", "string"}
		h.params = append(h.params, *ps)
		a := strSpellingArg(rng, typeNames[rng.Intn(2)])
		args["s"] = a
		callArgs = append(callArgs, a)
	}
	if rng.Intn(2) == 0 {
		pn = &param{"n", "int"}
		h.params = append(h.params, *pn)
		a := intSpellingArg(rng, sizes[rng.Intn(3)])
		args["n"] = a
		callArgs = append(callArgs, a)
	}
	str := func(s string) *E {
		if ps != nil && rng.Intn(2) == 0 && (s == "int64" || s == "int32") {
			return ident("s")
		}
		return strSpellings(rng, s)
	}
	num := func(v int64) *E {
		if pn != nil && rng.Intn(2) == 0 {
			return ident("n")
		}
		return intSpellings(rng, v)
	}
	v := ident(pv.name)
	body := atom(rng, v, str, num)
	for i := rng.Intn(3); i > 0; i-- {
		op := []string{"&&", "||"}[rng.Intn(2)]
		var other *E
		if rng.Intn(3) == 0 {
			other = atom(rng, mvar(probeVars[rng.Intn(2)]), str, num) // the body refers to the matcher directly
		} else {
			other = atom(rng, v, str, num)
		}
		body = bin(op, body, other)
		if rng.Intn(3) == 0 {
			body = paren(body)
		}
	}
	h.body = body
	hc.helpers = []helper{h}
	hc.where = call(ident("f"), callArgs...)
	hc.modelBody, hc.modelArgs, hc.modelOK = body, args, true
	inl := body.subst(args)
	// nested helper: g calls f and adds an atom of its own
	if rng.Intn(4) == 0 && pv.name != "m" {
		g := helper{name: "g", params: []param{{"u", "dsl.Var"}}}
		innerArgs := []*E{ident("u")}
		inner := map[string]*E{pv.name: ident("u")}
		for _, p := range h.params[1:] {
			innerArgs = append(innerArgs, args[p.name])
			inner[p.name] = args[p.name]
		}
		extra := atom(rng, ident("u"), func(s string) *E { return strLit(s) }, func(v int64) *E { return intLit(fmt.Sprint(v), v) })
		g.body = bin("||", call(ident("f"), innerArgs...), extra)
		hc.helpers = append(hc.helpers, g)
		hc.where = call(ident("g"), av)
		inl = bin("||", body.subst(inner), extra).subst(map[string]*E{"u": av})
		hc.modelOK = false
	}
	// the call combined with something else at the call site
	if rng.Intn(3) == 0 {
		extra := sel(mvar("y"), "Pure")
		hc.where = bin("&&", hc.where, extra)
		inl = bin("&&", paren(inl), extra)
		hc.modelOK = false
	} else if rng.Intn(5) == 0 {
		hc.where = not(hc.where)
		inl = not(paren(inl))
		hc.modelOK = false
	}
	hc.inlined = inl
	return hc
}

func strSpellingArg(rng *rand.Rand, s string) *E {
	switch rng.Intn(4) {
	case 0:
		return rawLit(s)
	case 1:
		return cident(constName(s), &Const{IsStr: true, S: s})
	case 2:
		return paren(strLit(s))
	default:
		return strLit(s)
	}
}

func intSpellingArg(rng *rand.Rand, v int64) *E {
	switch rng.Intn(4) {
	case 0:
		return intLit(fmt.Sprintf("0x%x", v), v)
	case 1:
		return cident(map[int64]string{8: "cEight", 4: "cFour", 2: "cTwo"}[v], &Const{I: v})
	case 2:
		return paren(intLit(fmt.Sprint(v), v))
	default:
		return intLit(fmt.Sprint(v), v)
	}
}

const consts = `const (
	cInt64 = "int64"
	cInt32 = "int32"
	cA8    = "a8"
	cOther = "zz"
	cEight = 8
	cFour  = 4
	cTwo   = 2
)
`

func renderRules(helpers []helper, where string, pattern, report string) string {
	var sb strings.Builder
	sb.WriteString("package gorules\n\nimport \"github.com/quasilyte/go-ruleguard/dsl\"\n\n" + consts + "\nfunc g0(m dsl.Matcher) {\n")
	for _, h := range helpers {
		var ps []string
		for _, p := range h.params {
			ps = append(ps, p.name+" "+p.typ)
		}
		fmt.Fprintf(&sb, "\t%s := func(%s) bool { return %s }\n", h.name, strings.Join(ps, ", "), h.body.src())
	}
	fmt.Fprintf(&sb, "\tm.Match(%s).\n\t\tWhere(%s).\n\t\tReport(%s)\n}\n", pattern, where, report)
	return sb.String()
}

const target = `package target

func use(xs ...interface{}) {}

func f(a8, b8 int64, a4, b4 int32, a2, b2 int16) {
	_ = a8 + b8
	_ = a4 + b4
	_ = a2 + b2
	_ = a8 + 1
	_ = 2 + a4
	_ = a8 + int64(a4)
	_ = use2(a8) + b8
}

func use2(x int64) int64 { return x }
`

// ------------------------------------------------------------------ observation

type side struct {
	ConvErr string   `json:"conv_err,omitempty"` // error of the source-to-IR conversion (parse / type check / irconv)
	LoadErr string   `json:"load_err,omitempty"` // error of Load
	Panic   string   `json:"panic,omitempty"`
	IR      string   `json:"ir,omitempty"` // normalised IR of the rule
	Reports []string `json:"reports"`
	RunProb string   `json:"run_problem,omitempty"`
}

func normExpr(e *ir.FilterExpr) {
	e.Src = ""
	e.Line = 0
	for i := range e.Args {
		normExpr(&e.Args[i])
	}
}

const importFlake = "could not import github.com/quasilyte/go-ruleguard/dsl"

func observe(t *hutil.Target, src string) (s side) {
	for try := 0; try < 4; try++ {
		s = observe1(t, src)
		if !strings.Contains(s.ConvErr+s.LoadErr, importFlake) {
			break
		}
	}
	return s
}

func observe1(t *hutil.Target, src string) (s side) {
	defer func() {
		if r := recover(); r != nil {
			s.Panic = fmt.Sprint(r)
		}
	}()
	e := ruleguard.NewEngine()
	ctx := &ruleguard.LoadContext{Fset: t.Fset}
	irf, err := ruleguard.VerifConvertAST(e, ctx, "rules.go", []byte(src))
	if err != nil {
		s.ConvErr = err.Error()
	} else {
		var rules []ir.Rule
		for _, g := range irf.RuleGroups {
			for _, r := range g.Rules {
				r.Line = 0
				normExpr(&r.WhereExpr)
				for i := range r.SyntaxPatterns {
					r.SyntaxPatterns[i].Line = 0
				}
				rules = append(rules, r)
			}
		}
		b, _ := json.Marshal(rules)
		s.IR = string(b)
	}
	e = ruleguard.NewEngine()
	if err := e.Load(ctx, "rules.go", strings.NewReader(src)); err != nil {
		s.LoadErr = err.Error()
		return s
	}
	reps, prob := hutil.Run(e, t, 0, "", nil)
	s.RunProb = prob
	s.Reports = []string{}
	for _, r := range reps {
		s.Reports = append(s.Reports, fmt.Sprintf("%d:%d:%s", r.Pos, r.End, r.Message))
	}
	return s
}

type Case struct {
	Kind    string `json:"kind"` // helper | const
	ID      int    `json:"id"`
	SrcA    string `json:"src_a"` // with helpers / with the constant spelling
	SrcB    string `json:"src_b"` // inlined / plain literal
	A       side   `json:"a"`
	B       side   `json:"b"`
	IREqual bool   `json:"ir_equal"`
	Model   string `json:"model,omitempty"` // Coq: (body, [(param, arg)...]) for single non-nested calls
	Unhyg   bool   `json:"unhygienic"`      // a parameter is named like a selected field of the body or like the matcher
	Nested  bool   `json:"nested"`
	Spell   string `json:"spelling,omitempty"`
}

func main() {
	seed := flag.Int64("seed", 1, "PRNG seed")
	nh := flag.Int("helpers", 200, "helper cases")
	nc := flag.Int("consts", 120, "constant spelling cases")
	tmp := flag.String("tmp", "", "scratch directory")
	flag.Parse()
	rng := rand.New(rand.NewSource(*seed))
	enc := json.NewEncoder(os.Stdout)
	t, err := hutil.CheckTarget(*tmp, "target/target.go", []byte(target))
	if err != nil {
		fmt.Fprintln(os.Stderr, err)
		os.Exit(3)
	}
	id := 0
	for i := 0; i < *nh; i++ {
		id++
		hc := genHelperCase(rng)
		c := Case{Kind: "helper", ID: id}
		c.SrcA = renderRules(hc.helpers, hc.where.src(), "`$x + $y`", "`hit $x`")
		c.SrcB = renderRules(nil, hc.inlined.src(), "`$x + $y`", "`hit $x`")
		c.A = observe(t, c.SrcA)
		c.B = observe(t, c.SrcB)
		c.IREqual = c.A.IR != "" && c.A.IR == c.B.IR
		c.Nested = len(hc.helpers) > 1
		pn := hc.helpers[0].params[0].name
		c.Unhyg = pn != "v" && pn != "w"
		if hc.modelOK {
			var ps []string
			for _, p := range hc.helpers[0].params {
				ps = append(ps, fmt.Sprintf("(%s, %s)", coqStr(p.name), hc.modelArgs[p.name].coq()))
			}
			c.Model = fmt.Sprintf("(%s, [%s])", hc.modelBody.coq(), strings.Join(ps, "; "))
		}
		enc.Encode(c)
	}
	// constant spellings outside helper bodies
	for i := 0; i < *nc; i++ {
		id++
		c := Case{Kind: "const", ID: id}
		v := mvar("x")
		var spelled, plain *E
		pat := "`$x + $y`"
		switch rng.Intn(6) {
		case 0:
			s := typeNames[rng.Intn(2)]
			a := strSpellings(rng, s)
			spelled, plain = call(sel(sel(v, "Type"), "Is"), a), call(sel(sel(v, "Type"), "Is"), strLit(s))
			c.Spell = a.src()
		case 1:
			n := sizes[rng.Intn(3)]
			a := intSpellings(rng, n)
			spelled, plain = bin("==", sel(sel(v, "Type"), "Size"), a), bin("==", sel(sel(v, "Type"), "Size"), intLit(fmt.Sprint(n), n))
			c.Spell = a.src()
		case 2:
			a := strSpellings(rng, "a8")
			spelled, plain = bin("==", sel(v, "Text"), a), bin("==", sel(v, "Text"), strLit("a8"))
			c.Spell = a.src()
		case 3:
			a := strSpellings(rng, "a8")
			spelled, plain = bin("!=", a, sel(v, "Text")), bin("!=", strLit("a8"), sel(v, "Text"))
			c.Spell = a.src()
		case 4: // the variable name itself
			name := []string{"x", "y"}[rng.Intn(2)]
			spell := []string{"c" + strings.ToUpper(name), "(\"" + name + "\")", "`" + name + "`"}[rng.Intn(3)]
			spelled = sel(index(ident("m"), &E{K: "ident", Name: spell}), "Pure")
			plain = sel(mvar(name), "Pure")
			c.Spell = spell
		default: // the pattern and the message
			spelled, plain = sel(v, "Pure"), sel(v, "Pure")
			pat = []string{"\"$x \" + \"+ $y\"", "cPat", "(`$x + $y`)"}[rng.Intn(3)]
			c.Spell = pat
		}
		extraConsts := "const (\n\tcX = \"x\"\n\tcY = \"y\"\n\tcPat = \"$x + $y\"\n)\n"
		c.SrcA = strings.Replace(renderRules(nil, spelled.src(), pat, "`hit $x`"), "\nfunc g0", "\n"+extraConsts+"\nfunc g0", 1)
		c.SrcB = strings.Replace(renderRules(nil, plain.src(), "`$x + $y`", "`hit $x`"), "\nfunc g0", "\n"+extraConsts+"\nfunc g0", 1)
		c.A = observe(t, c.SrcA)
		c.B = observe(t, c.SrcB)
		c.IREqual = c.A.IR != "" && c.A.IR == c.B.IR
		enc.Encode(c)
	}
	_ = reflect.DeepEqual
}
