package main

// A fixed catalogue of constant SPELLINGS in every argument position that reads a constant, present in every run: a constant
// expression must behave exactly like the plain literal of its value, whatever the outermost node of the expression is -- a literal,
// a name, a parenthesis, a unary or binary operator, a CALL (a conversion, a builtin with a constant result) or a SELECTOR (a
// constant of an imported package) -- and whichever reader of the converter the position goes through (the constant-first step of
// convertFilterExprImpl for filter arguments and comparison operands; toStringValue / parseStringArg for patterns, messages,
// variable names, imports, versions, file predicates, sub-patterns).
//
// Every (class of the outermost node) x (position) pair is present in every run; which spelling of the class stands there rotates
// with the seed. Twin: the same file with the plain literal.

import (
	"fmt"
	"strconv"
	"strings"
)

type spellForm struct {
	class string // lit ident paren unary binary call selector
	name  string
	// expr: the spelling of value v (s for strings, n for ints); decl: package-level declarations it needs; local: statements at
	// the start of the rule group; imp: an import
	expr  func(v string, n int64) string
	decl  func(v string, n int64) string
	local func(v string, n int64) string
	imp   string
	ok    func(v string, n int64) bool // the form can spell this value
	own   string                       // the form has a value of its own (a constant of a package): only in positions that take any value
	ownN  int64
	text  bool // only where the other operand is the matched text (dsl.MatchedText)
	typed bool // of type string: not comparable with the matched text
}

type spellPos struct {
	name string
	body string // the statements of the rule group; § is the argument
	str  bool   // a string position
	v    string // the value the position wants
	n    int64
	any  bool // any value will do
	text bool
}

func q(s string) string { return strconv.Quote(s) }

var strForms = []spellForm{
	{class: "lit", name: "interpreted literal", expr: func(v string, _ int64) string { return q(v) }},
	{class: "lit", name: "raw literal", expr: func(v string, _ int64) string { return "`" + v + "`" }},
	{class: "lit", name: "literal with an escape", expr: func(v string, _ int64) string { return fmt.Sprintf("\"\\x%02x%s\"", v[0], v[1:]) }},
	{class: "ident", name: "package-level constant", expr: func(string, int64) string { return "kS" }, decl: func(v string, _ int64) string { return "const kS = " + q(v) }},
	{class: "ident", typed: true, name: "package-level constant of type string", expr: func(string, int64) string { return "kS" }, decl: func(v string, _ int64) string { return "const kS string = " + q(v) }},
	{class: "ident", name: "constant of the group", expr: func(string, int64) string { return "kS" }, local: func(v string, _ int64) string { return "const kS = " + q(v) }},
	{class: "ident", name: "constant of the group that shadows a package-level one", expr: func(string, int64) string { return "kS" },
		decl: func(v string, _ int64) string { return "const kS = " + q("zz"+v) }, local: func(v string, _ int64) string { return "const kS = " + q(v) }},
	{class: "paren", name: "parenthesised literal", expr: func(v string, _ int64) string { return "(" + q(v) + ")" }},
	{class: "paren", name: "doubly parenthesised constant", expr: func(string, int64) string { return "((kS))" }, decl: func(v string, _ int64) string { return "const kS = " + q(v) }},
	{class: "binary", name: "concatenation of two literals", expr: func(v string, _ int64) string { return q(v[:1]) + " + " + q(v[1:]) }},
	{class: "binary", name: "concatenation of a constant and a literal", expr: func(v string, _ int64) string { return "kS + " + q(v[1:]) }, decl: func(v string, _ int64) string { return "const kS = " + q(v[:1]) }},
	{class: "binary", name: "concatenation with the empty string", expr: func(v string, _ int64) string { return "`` + " + q(v) }},
	{class: "call", typed: true, name: "conversion string(constant)", expr: func(string, int64) string { return "string(kS)" }, decl: func(v string, _ int64) string { return "const kS = " + q(v) }},
	{class: "call", typed: true, name: "conversion string(literal)", expr: func(v string, _ int64) string { return "string(" + q(v) + ")" }},
	{class: "call", typed: true, name: "conversion of a constant of a named string type", expr: func(string, int64) string { return "string(kN)" },
		decl: func(v string, _ int64) string { return "type str string\n\nconst kN str = " + q(v) }},
	{class: "call", typed: true, name: "conversion of a rune constant", expr: func(v string, _ int64) string { return "string('" + v + "')" }, ok: func(v string, _ int64) bool { return len(v) == 1 && v != "'" && v != "\\" }},
	{class: "call", name: "conversion dsl.MatchedText(literal)", expr: func(v string, _ int64) string { return "dsl.MatchedText(" + q(v) + ")" }, text: true},
	{class: "selector", name: "constant of an imported package (unicode.Version)", expr: func(string, int64) string { return "unicode.Version" }, imp: "unicode", own: "15.0.0"},
}

func pow2(n int64) (int, bool) {
	for k := 0; k < 62; k++ {
		if int64(1)<<k == n {
			return k, true
		}
	}
	return 0, false
}

var intForms = []spellForm{
	{class: "lit", name: "decimal literal", expr: func(_ string, n int64) string { return fmt.Sprint(n) }},
	{class: "lit", name: "hex literal", expr: func(_ string, n int64) string { return fmt.Sprintf("0x%X", n) }},
	{class: "lit", name: "legacy octal literal", expr: func(_ string, n int64) string { return fmt.Sprintf("0%o", n) }},
	{class: "lit", name: "0o literal", expr: func(_ string, n int64) string { return fmt.Sprintf("0o%o", n) }},
	{class: "lit", name: "binary literal with underscores", expr: func(_ string, n int64) string { return fmt.Sprintf("0b_%b", n) }},
	{class: "lit", name: "rune literal", expr: func(_ string, n int64) string { return fmt.Sprintf("'\\x%02x'", n) }, ok: func(_ string, n int64) bool { return n > 0 && n < 128 }},
	{class: "lit", name: "float literal", expr: func(_ string, n int64) string { return fmt.Sprintf("%d.0", n) }},
	{class: "lit", name: "float literal with an exponent", expr: func(_ string, n int64) string { return fmt.Sprintf("%de0", n) }},
	{class: "ident", name: "package-level constant", expr: func(string, int64) string { return "kI" }, decl: func(_ string, n int64) string { return fmt.Sprintf("const kI = %d", n) }},
	{class: "ident", name: "package-level constant of type int", expr: func(string, int64) string { return "kI" }, decl: func(_ string, n int64) string { return fmt.Sprintf("const kI int = %d", n) }},
	{class: "ident", name: "constant of the group", expr: func(string, int64) string { return "kI" }, local: func(_ string, n int64) string { return fmt.Sprintf("const kI = %d", n) }},
	{class: "ident", name: "constant declared with iota", expr: func(string, int64) string { return "kI" }, decl: func(_ string, n int64) string { return fmt.Sprintf("const (\n\t_ = iota * %d\n\tkI\n)", n) }},
	{class: "paren", name: "parenthesised literal", expr: func(_ string, n int64) string { return fmt.Sprintf("(%d)", n) }},
	{class: "paren", name: "doubly parenthesised constant", expr: func(string, int64) string { return "((kI))" }, decl: func(_ string, n int64) string { return fmt.Sprintf("const kI = %d", n) }},
	{class: "unary", name: "negated negative literal", expr: func(_ string, n int64) string { return fmt.Sprintf("-(-%d)", n) }},
	{class: "unary", name: "unary plus", expr: func(_ string, n int64) string { return fmt.Sprintf("+%d", n) }},
	{class: "unary", name: "bitwise complement", expr: func(_ string, n int64) string { return fmt.Sprintf("^-%d", n+1) }},
	{class: "unary", name: "negated constant", expr: func(string, int64) string { return "-kI" }, decl: func(_ string, n int64) string { return fmt.Sprintf("const kI = -%d", n) }},
	{class: "binary", name: "sum", expr: func(_ string, n int64) string { return fmt.Sprintf("%d + 1", n-1) }},
	{class: "binary", name: "product with a constant", expr: func(_ string, n int64) string { return "kI * 2" }, decl: func(_ string, n int64) string { return fmt.Sprintf("const kI = %d", n/2) }, ok: func(_ string, n int64) bool { return n%2 == 0 }},
	{class: "binary", name: "shift", expr: func(_ string, n int64) string { k, _ := pow2(n); return fmt.Sprintf("1 << %d", k) }, ok: func(_ string, n int64) bool { _, ok := pow2(n); return ok }},
	{class: "binary", name: "quotient", expr: func(_ string, n int64) string { return fmt.Sprintf("%d / 3", 3*n+1) }},
	{class: "binary", name: "remainder", expr: func(_ string, n int64) string { return fmt.Sprintf("%d %% %d", 3*n+2, 2*n+2) }},
	{class: "call", name: "conversion int(constant)", expr: func(string, int64) string { return "int(kI)" }, decl: func(_ string, n int64) string { return fmt.Sprintf("const kI = %d", n) }},
	{class: "call", name: "conversion int(literal)", expr: func(_ string, n int64) string { return fmt.Sprintf("int(%d)", n) }},
	{class: "call", name: "conversion of a constant of another integer type", expr: func(string, int64) string { return "int(kI)" }, decl: func(_ string, n int64) string { return fmt.Sprintf("const kI uint8 = %d", n) }, ok: func(_ string, n int64) bool { return n < 256 }},
	{class: "call", name: "len of a string literal", expr: func(_ string, n int64) string { return "len(" + q(strings.Repeat("a", int(n))) + ")" }, ok: func(_ string, n int64) bool { return n <= 64 }},
	{class: "call", name: "len of a string constant", expr: func(string, int64) string { return "len(kL)" }, decl: func(_ string, n int64) string { return "const kL = " + q(strings.Repeat("b", int(n))) }, ok: func(_ string, n int64) bool { return n <= 64 }},
	{class: "call", name: "conversion of unsafe.Sizeof", expr: func(string, int64) string { return "int(unsafe.Sizeof(int64(0)))" }, imp: "unsafe", ok: func(_ string, n int64) bool { return n == 8 }},
	{class: "selector", name: "constant of an imported package (utf8.UTFMax)", expr: func(string, int64) string { return "utf8.UTFMax" }, imp: "unicode/utf8", own: "int", ownN: 4},
	{class: "selector", name: "constant of an imported package (strconv.IntSize)", expr: func(string, int64) string { return "strconv.IntSize" }, imp: "strconv", own: "int", ownN: 64},
}

const spellRule = "m.Match(`$x + $y`).\n\t\tWhere(WHERE).\n\t\tReport(`hit $x`)"

func wherePos(name, where string, v string, any, text bool) spellPos {
	return spellPos{name: name, body: strings.Replace(spellRule, "WHERE", where, 1), str: true, v: v, any: any, text: text}
}

var spellPositions = []spellPos{
	// read by the constant-first step of convertFilterExprImpl
	wherePos("Type.Is", `m["x"].Type.Is(§)`, "int64", false, false),
	wherePos("Type.Underlying().Is", `m["x"].Type.Underlying().Is(§)`, "int64", false, false),
	wherePos("Type.ConvertibleTo", `m["x"].Type.ConvertibleTo(§)`, "int64", false, false),
	wherePos("Type.AssignableTo", `m["x"].Type.AssignableTo(§)`, "int64", false, false),
	wherePos("Type.OfKind", `m["x"].Type.OfKind(§)`, "int", false, false),
	wherePos("Type.Implements", `m["x"].Type.Implements(§)`, "error", false, false),
	wherePos("Object.Is", `m["x"].Object.Is(§)`, "Var", false, false),
	wherePos("Node.Is", `m["x"].Node.Is(§)`, "Ident", false, false),
	wherePos("Node.Parent().Is", `m["$$"].Node.Parent().Is(§)`, "AssignStmt", false, false),
	wherePos("Text.Matches", `m["x"].Text.Matches(§)`, "a8", true, false),
	wherePos("Text ==", `m["x"].Text == §`, "a8", true, true),
	wherePos("!= Text", `§ != m["x"].Text`, "a8", true, true),
	wherePos("Text == under a negation and a conjunction", `!(m["x"].Text == §) && m["y"].Pure`, "a8", true, true),
	// read by toStringValue / parseStringArg
	wherePos("the variable name", `m[§].Pure`, "x", false, false),
	wherePos("the variable name of Type.IdenticalTo", `m["x"].Type.IdenticalTo(m[§])`, "y", false, false),
	wherePos("Contains", `m["x"].Contains(§)`, "a8", false, false),
	wherePos("File().Imports", `m.File().Imports(§)`, "fmt", true, false),
	wherePos("File().Name.Matches", `m.File().Name.Matches(§)`, "target", true, false),
	wherePos("File().PkgPath.Matches", `m.File().PkgPath.Matches(§)`, "target", true, false),
	wherePos("GoVersion().GreaterEqThan", `m.GoVersion().GreaterEqThan(§)`, "1.16", false, false),
	{name: "Match", body: "m.Match(§).\n\t\tWhere(m[\"x\"].Pure).\n\t\tReport(`hit $x`)", str: true, v: "$x + $y"},
	{name: "the second pattern of Match", body: "m.Match(`$x - $y`, §).\n\t\tReport(`hit $x`)", str: true, v: "$x + $y"},
	{name: "Report", body: "m.Match(`$x + $y`).\n\t\tReport(§)", str: true, v: "hit $x", any: true},
	{name: "Suggest", body: "m.Match(`$x + $y`).\n\t\tReport(`hit`).\n\t\tSuggest(§)", str: true, v: "$y + $x"},
	{name: "At", body: "m.Match(`$x + $y`).\n\t\tAt(m[§]).\n\t\tReport(`hit $x`)", str: true, v: "y"},
	{name: "Import", body: "m.Import(§)\n\tm.Match(`$x + $y`).\n\t\tWhere(m[\"x\"].Type.Is(`fmt.Stringer`)).\n\t\tReport(`hit $x`)", str: true, v: "fmt"},
	{name: "MatchComment", body: "m.MatchComment(§).\n\t\tReport(`hit`)", str: true, v: "TODO"},
	// int
	{name: "Type.Size ==", body: strings.Replace(spellRule, "WHERE", `m["x"].Type.Size == §`, 1), n: 8, any: true},
	{name: "== Type.Size", body: strings.Replace(spellRule, "WHERE", `§ == m["x"].Type.Size`, 1), n: 8, any: true},
	{name: "Type.Size >=", body: strings.Replace(spellRule, "WHERE", `m["x"].Type.Size >= § && m["y"].Pure`, 1), n: 4, any: true},
	{name: "Value.Int() ==", body: strings.Replace(spellRule, "WHERE", `m["x"].Value.Int() == §`, 1), n: 64, any: true},
	{name: "!= Value.Int()", body: strings.Replace(spellRule, "WHERE", `§ != m["x"].Value.Int()`, 1), n: 64, any: true},
	{name: "Line ==", body: strings.Replace(spellRule, "WHERE", `m["x"].Line == §`, 1), n: 8, any: true},
}

type spellCase struct {
	name, spell, srcA, srcB string
	inWhere                 bool // the spelled argument stands inside Where(): the Coq model converts both files
}

var spellClasses = []string{"lit", "ident", "paren", "unary", "binary", "call", "selector"}

func spellCatalogue(seed int64) []spellCase {
	var out []spellCase
	for pi, p := range spellPositions {
		forms := intForms
		if p.str {
			forms = strForms
		}
		for ci, class := range spellClasses {
			var cands []spellForm
			for _, f := range forms {
				if f.class != class || (f.text && !p.text) || (f.typed && p.text) || (f.own != "" && !p.any) {
					continue
				}
				v, n := p.v, p.n
				if f.own != "" {
					v, n = f.own, f.ownN
				}
				if f.ok != nil && !f.ok(v, n) {
					continue
				}
				cands = append(cands, f)
			}
			if len(cands) == 0 {
				continue
			}
			// the classes whose outermost node is a call or a selector stand in every position in every run; of the other pairs
			// (their spellings are also drawn at random by the const cases) a third, rotating with the seed
			if class != "call" && class != "selector" && (pi+ci+int(seed))%3 != 0 {
				continue
			}
			f := cands[(pi+ci+int(seed))%len(cands)]
			v, n := p.v, p.n
			if f.own != "" {
				v, n = f.own, f.ownN
			}
			plain := fmt.Sprint(n)
			if p.str {
				plain = q(v)
			}
			render := func(arg string, withDecls bool) string {
				var sb strings.Builder
				sb.WriteString("package gorules\n\nimport (\n\t\"github.com/quasilyte/go-ruleguard/dsl\"\n")
				if withDecls && f.imp != "" {
					sb.WriteString("\t" + q(f.imp) + "\n")
				}
				sb.WriteString(")\n\n")
				if withDecls && f.decl != nil {
					sb.WriteString(f.decl(v, n) + "\n\n")
				}
				sb.WriteString("func g0(m dsl.Matcher) {\n")
				if withDecls && f.local != nil {
					sb.WriteString("\t" + f.local(v, n) + "\n")
				}
				sb.WriteString("\t" + strings.ReplaceAll(p.body, "§", arg) + "\n}\n")
				return sb.String()
			}
			spell := f.expr(v, n)
			out = append(out, spellCase{name: p.name + ": " + f.name, spell: spell, srcA: render(spell, true), srcB: render(plain, false),
				// (Type.IdenticalTo reads its argument as m["name"]: outside the skeleton of the model)
				inWhere: strings.Contains(p.body, "Where(") && strings.Index(p.body, "§") > strings.Index(p.body, "Where(") && !strings.Contains(p.body, "IdenticalTo")})
		}
	}
	return out
}
