// The rules file as a term of the Coq model (RG.Load.MacroEnv: groups of statements over RG.Load.Macro.dexpr), read off the
// parsed and type-checked source: every expression node carries the constant go/types computed for it (types.Info.Types),
// every literal what strconv makes of its text (the patch expandMacro applies to copied literals).
package main

import (
	"fmt"
	"go/ast"
	"go/constant"
	"go/importer"
	"go/parser"
	"go/token"
	"go/types"
	"strconv"
	"strings"
)

var modelFset = token.NewFileSet()
var modelImporter = importer.ForCompiler(modelFset, "source", nil)

func cvalOf(v constant.Value) string {
	if v == nil {
		return "None"
	}
	switch v.Kind() {
	case constant.String:
		return "(Some (CStr " + coqStr(constant.StringVal(v)) + "))"
	case constant.Int:
		if i, ok := constant.Int64Val(v); ok {
			return fmt.Sprintf("(Some (CInt (%d)%%Z))", i)
		}
	}
	return "(Some COther)"
}

type modelPrinter struct {
	info *types.Info
	bad  string
}

func (p *modelPrinter) expr(e ast.Expr) string {
	a := cvalOf(p.info.Types[e].Value)
	switch e := e.(type) {
	case *ast.Ident:
		// a name means what is in scope where it is written: an identifier that go/types binds to a package-level function or
		// variable, a builtin or a type is not the helper of the group that carries the same name (before or after); the model looks
		// helpers up by name, so such an identifier gets a name no helper can have
		if nonLocalObject(p.info.Uses[e]) {
			return fmt.Sprintf("(EIdent %s %s)", a, coqStr("pkg."+e.Name))
		}
		return fmt.Sprintf("(EIdent %s %s)", a, coqStr(e.Name))
	case *ast.BasicLit:
		kind, patched := "LImag", "None"
		switch e.Kind {
		case token.STRING:
			kind = "LString"
			if s, err := strconv.Unquote(e.Value); err == nil {
				patched = "(Some (CStr " + coqStr(s) + "))"
			}
		case token.INT:
			kind = "LInt"
			if v, err := strconv.ParseInt(e.Value, 0, 64); err == nil {
				patched = fmt.Sprintf("(Some (CInt (%d)%%Z))", v)
			}
		case token.FLOAT:
			kind = "LFloat"
			if _, err := strconv.ParseFloat(e.Value, 64); err == nil {
				patched = "(Some COther)"
			}
		case token.CHAR:
			kind = "LChar"
		}
		return fmt.Sprintf("(ELit %s %s %s)", a, kind, patched)
	case *ast.ParenExpr:
		return fmt.Sprintf("(EParen %s %s)", a, p.expr(e.X))
	case *ast.UnaryExpr:
		return fmt.Sprintf("(EUnary %s %s %s)", a, coqStr(e.Op.String()), p.expr(e.X))
	case *ast.BinaryExpr:
		return fmt.Sprintf("(EBinary %s %s %s %s)", a, coqStr(e.Op.String()), p.expr(e.X), p.expr(e.Y))
	case *ast.SelectorExpr:
		return fmt.Sprintf("(ESel %s %s %s)", a, p.expr(e.X), coqStr(e.Sel.Name))
	case *ast.IndexExpr:
		return fmt.Sprintf("(EIndex %s %s %s)", a, p.expr(e.X), p.expr(e.Index))
	case *ast.CallExpr:
		var as []string
		for _, x := range e.Args {
			as = append(as, p.expr(x))
		}
		return fmt.Sprintf("(ECall %s %s [%s])", a, p.expr(e.Fun), strings.Join(as, "; "))
	}
	p.bad = fmt.Sprintf("%T", e)
	return "(EIdent None \"?\")"
}

// nonLocalObject: a function, a builtin, a type, or a variable of the package scope
func nonLocalObject(obj types.Object) bool {
	switch obj := obj.(type) {
	case *types.Func, *types.Builtin, *types.TypeName:
		return true
	case *types.Var:
		return !obj.IsField() && obj.Pkg() != nil && obj.Parent() == obj.Pkg().Scope()
	}
	return false
}

// the Where argument of a rule chain m.Match(...).Where(e).Report(...)
func whereArg(e ast.Expr) ast.Expr {
	for {
		call, ok := e.(*ast.CallExpr)
		if !ok {
			return nil
		}
		sel, ok := call.Fun.(*ast.SelectorExpr)
		if !ok {
			return nil
		}
		if sel.Sel.Name == "Where" && len(call.Args) == 1 {
			return call.Args[0]
		}
		e = sel.X
	}
}

// modelOf returns "" when the file does not type-check or has a shape outside the model
func modelOf(src string) string {
	f, err := parser.ParseFile(modelFset, "rules.go", src, 0)
	if err != nil {
		return ""
	}
	info := &types.Info{Types: map[ast.Expr]types.TypeAndValue{}, Uses: map[*ast.Ident]types.Object{}}
	conf := types.Config{Importer: modelImporter}
	if _, err := conf.Check("gorules", modelFset, []*ast.File{f}, info); err != nil {
		return ""
	}
	p := &modelPrinter{info: info}
	var gs []string
	for _, d := range f.Decls {
		fd, ok := d.(*ast.FuncDecl)
		if !ok || fd.Recv != nil || fd.Type.Params.NumFields() != 1 || len(fd.Type.Params.List[0].Names) != 1 {
			continue
		}
		if types.ExprString(fd.Type.Params.List[0].Type) != "dsl.Matcher" || fd.Type.Results != nil {
			continue
		}
		var ss []string
		for _, st := range fd.Body.List {
			switch st := st.(type) {
			case *ast.AssignStmt:
				fl, ok := st.Rhs[0].(*ast.FuncLit)
				if !ok || st.Tok != token.DEFINE || len(st.Lhs) != 1 || len(fl.Body.List) != 1 {
					return ""
				}
				ret, ok := fl.Body.List[0].(*ast.ReturnStmt)
				if !ok || len(ret.Results) != 1 {
					return ""
				}
				var ps []string
				for _, fld := range fl.Type.Params.List {
					for _, n := range fld.Names {
						ps = append(ps, coqStr(n.Name))
					}
				}
				ss = append(ss, fmt.Sprintf("GDef (mkMacro %s [%s] %s)", coqStr(st.Lhs[0].(*ast.Ident).Name), strings.Join(ps, "; "), p.expr(ret.Results[0])))
			case *ast.ExprStmt:
				if w := whereArg(st.X); w != nil {
					ss = append(ss, "GRule "+p.expr(w))
				}
			case *ast.DeclStmt:
			default:
				return ""
			}
		}
		gs = append(gs, fmt.Sprintf("mkGroup %s [%s]", coqStr(fd.Type.Params.List[0].Names[0].Name), strings.Join(ss, ";\n   ")))
	}
	if p.bad != "" {
		return ""
	}
	return "[" + strings.Join(gs, ";\n  ") + "]"
}
