package main

// Object.Is / Object.IsGlobal / Object.IsVariadicParam on identifiers that DECLARE their object.
//
// go/types records an identifier in Info.Uses when it refers to an object and in Info.Defs when it declares one; the
// documentation of Object.Is speaks about "the object associated with the captured identifier", which is Info.ObjectOf. The
// column sweep only captures call arguments -- identifiers that refer. Here every kind of declaring position is captured: the
// left side of `:=` (new and re-declared names), range keys and values, names of functions, methods, constants, variables and
// types at package level and inside functions, labels, parameters (variadic and not), results, receivers, struct fields, type
// parameters, the symbolic variable of a type switch (declares NO object: go/types keeps one per clause), import names and
// blank identifiers -- next to referring identifiers matched by the same patterns.

import (
	"encoding/json"
	"fmt"
	"go/ast"
	"go/types"
	"os"
	"reflect"
	"strings"

	"verif/harness/internal/filt"
	"verif/harness/internal/hutil"
)

const defsTarget = `package defs

import (
	"fmt"
	str "strings"
)

var _ = str.ToUpper

const limit = 10

const (
	first = iota
	second
)

var counter, total int

var table = map[string]int{}

type Celsius float64

type Pair struct {
	Key   string
	Value int
}

type Number interface{ ~int | ~float64 }

type Shape interface{ Area() float64 }

func (c Celsius) String() string { return fmt.Sprint(float64(c)) }

func (p *Pair) Set(key string, value int) { p.Key, p.Value = key, value }

func pair() (int, string) { return 1, "a" }

func single(only int) int { return only }

func spread(all ...int) { all = nil }

func sum(base int, rest ...int) (result int) {
	result = base
	for i, v := range rest {
		result += v
		_ = i
	}
	rest = nil
	base, extra := 2, 3
	_ = extra
	return result
}

func generic[T Number, U any](a T, b U) T {
	var zero T
	type local struct{ f T }
	const c = 3
	_ = local{}
	_ = c
	_ = b
	zero = a
	return zero
}

func body(arg int, names ...string) {
	a := 1
	b, c := pair()
	a, d := 2, 3
	counter = a
	total, e := 4, 5
	_ = total
	var f int
	var g, h = 6, "h"
	const k = 7
	type T int
	f = k
	for key := range table {
		_ = key
	}
	for key, val := range table {
		_, _ = key, val
	}
	for idx := 0; idx < 3; idx++ {
		counter += idx
	}
	var key string
	var val int
	for key, val = range table {
	}
	_ = key
	for _, v := range names {
		_ = v
	}
outer:
	for {
	inner:
		for {
			break outer
			continue inner
		}
	}
	switch x := interface{}(a).(type) {
	case int:
		_ = x
	case string, error:
		_ = x
	}
	if n, err := fmt.Println(); err != nil {
		_ = n
	}
	fn := func(p int, q ...string) (r int) {
		p, s := 1, 2
		_ = s
		q = nil
		return p
	}
	names = nil
	arg = 0
	_, _, _, _, _, _, _, _, _, _ = b, c, d, e, f, g, h, fn, T(0), val
	select {
	case m := <-make(chan int):
		_ = m
	case m, ok := <-make(chan int):
		_, _ = m, ok
	}
	goto done
done:
	_ = 0
}

func keep(vals ...int) int { return len(vals) }

func (p *Pair) gather(label string, more ...int) {
	more = nil
	_ = label
	keep(more...)
	func() {
		more = nil
		_ = more
		keep(more...)
		func() {
			more = append(more, 1)
			_ = label
			go func(inner ...string) {
				more = nil
				_ = more
				inner = nil
				label = ""
				keep(more...)
			}()
		}()
	}()
	defer func(more []int) {
		more = nil
		_ = more
	}(nil)
	func(label ...string) {
		label = nil
		_ = label
		more = nil
		func() { _ = label }()
	}()
	{
		more := 1
		more = 2
		_ = more
	}
	for _, more := range []int{1} {
		_ = more
	}
}

var handler = func(pre int, tail ...string) {
	tail = nil
	func() {
		tail = nil
		pre = 0
		func() { _ = tail }()
	}()
}

func plain(list []int) {
	func(list ...int) {
		func() { list = nil }()
	}()
	list = nil
	func() { list = nil }()
}
`

// variadicParams: the objects go/types created for the `...T` parameter of a function declaration or a function literal of the
// file ("a function variadic param", as the documentation of Object.IsVariadicParam puts it)
func variadicParams(t *hutil.Target) map[types.Object]bool {
	out := map[types.Object]bool{}
	ast.Inspect(t.File, func(n ast.Node) bool {
		var sig *types.Signature
		switch v := n.(type) {
		case *ast.FuncDecl:
			sig, _ = t.Info.ObjectOf(v.Name).Type().(*types.Signature)
		case *ast.FuncLit:
			sig, _ = t.Info.TypeOf(v).(*types.Signature)
		}
		if sig != nil && sig.Variadic() {
			out[sig.Params().At(sig.Params().Len()-1)] = true
		}
		return true
	})
	return out
}

// funcsAround: for every identifier of the file the function declarations / literals around it, innermost first
func funcsAround(t *hutil.Target) map[*ast.Ident][]ast.Node {
	out := map[*ast.Ident][]ast.Node{}
	var stack []ast.Node
	ast.Inspect(t.File, func(n ast.Node) bool {
		if n == nil {
			stack = stack[:len(stack)-1]
			return false
		}
		stack = append(stack, n)
		if id, ok := n.(*ast.Ident); ok {
			for i := len(stack) - 1; i >= 0; i-- {
				switch stack[i].(type) {
				case *ast.FuncDecl, *ast.FuncLit:
					out[id] = append(out[id], stack[i])
				}
			}
		}
		return true
	})
	return out
}

// sigLast: the variadic parameter of a function declaration / literal (nil when it has none)
func sigLast(t *hutil.Target, fn ast.Node) types.Object {
	var sig *types.Signature
	switch v := fn.(type) {
	case *ast.FuncDecl:
		sig, _ = t.Info.ObjectOf(v.Name).Type().(*types.Signature)
	case *ast.FuncLit:
		sig, _ = t.Info.TypeOf(v).(*types.Signature)
	}
	if sig == nil || !sig.Variadic() {
		return nil
	}
	return sig.Params().At(sig.Params().Len() - 1)
}

func objKind(o types.Object) string {
	if o == nil {
		return "none"
	}
	return strings.TrimPrefix(reflect.TypeOf(o).String(), "*types.")
}

func defsRules(tmp string, enc *json.Encoder) []*ruleOut {
	t, err := hutil.CheckTargetPkg(tmp, "defs/x.go", []byte(defsTarget), "example.com/defs")
	if err != nil {
		fmt.Fprintln(os.Stderr, "defs target:", err)
		os.Exit(3)
	}
	fam := &family{kind: "defs", t: t}
	variadic := variadicParams(t)
	// the identifier the documentation's "object of the captured expression" is about: the expression itself or, for a
	// selector, its Sel; parentheses do not matter
	identIn := func(s *famSite) *ast.Ident {
		for _, n := range s.nodes {
			if x, ok := n.(ast.Expr); ok {
				switch v := unparen(x).(type) {
				case *ast.Ident:
					return v
				case *ast.SelectorExpr:
					return v.Sel
				}
				return nil
			}
		}
		return nil
	}
	objOf := func(s *famSite) types.Object {
		id := identIn(s)
		if id == nil {
			return nil
		}
		return t.Info.ObjectOf(id)
	}
	// what the site is: declares / refers / neither, and the kind of object go/types gives
	cov := map[string]int{}
	describe := func(s *famSite) string {
		id := identIn(s)
		if id == nil {
			return "not an identifier"
		}
		_, isDef := t.Info.Defs[id]
		_, isUse := t.Info.Uses[id]
		role := "neither declares nor refers"
		switch {
		case isDef && t.Info.Defs[id] == nil:
			role = "declares no object"
		case isDef:
			role = "declares"
		case isUse:
			role = "refers to"
		}
		return role + " " + objKind(t.Info.ObjectOf(id))
	}
	type capt struct{ pat, at string }
	captures := []capt{
		{"$x := $_", "x"},
		{"$x, $y := $_, $_", "x"}, {"$x, $y := $_, $_", "y"},
		{"$x, $y := $_", "x"}, {"$x, $y := $_", "y"},
		{"$x = $_", "x"},
		{"$x, $y = $_, $_", "y"},
		{"for $k := range $_ { $*_ }", "k"},
		{"for $k, $v := range $_ { $*_ }", "k"}, {"for $k, $v := range $_ { $*_ }", "v"},
		{"for $k, $v = range $_ { $*_ }", "v"},
		{"for $i := $_; $_; $_ { $*_ }", "i"},
		{"func $f($*_) $*_ { $*_ }", "f"},
		{"const $c = $_", "c"},
		{"var $v $_", "v"},
		{"var $v = $_", "v"},
		{"var $v, $w = $_, $_", "w"},
		{"type $t $_", "t"},
		{"$l: for { $*_ }", "l"},
		{"$l: $_ = $_", "l"},
		{"break $l", "l"},
		{"goto $l", "l"},
		{"switch $x := $_.(type) { $*_ }", "x"},
		{"if $x, $y := $_; $_ { $*_ }", "y"},
		{"_ = $x", "x"},
		{"func $f($a $_) $*_ { $*_ }", "a"},
		{"func $f($a ...$_) $*_ { $*_ }", "a"},
		{"func $f($a $_, $b ...$_) $*_ { $*_ }", "a"}, {"func $f($a $_, $b ...$_) $*_ { $*_ }", "b"},
		{"func $f[$t $_, $u $_]($*_) $*_ { $*_ }", "t"},
		{"func $f($*_) ($r $_) { $*_ }", "r"},
		{"func($p $_, $q ...$_) $*_ { $*_ }", "p"}, {"func($p $_, $q ...$_) $*_ { $*_ }", "q"},
		{"func ($r $_) $f($*_) $*_ { $*_ }", "r"}, {"func ($r $_) $f($*_) $*_ { $*_ }", "f"},
		{"struct{ $f $_; $*_ }", "f"},
		{"struct{ $f $_ }", "f"},
		{"$x, $y := <-$_", "y"},
		{"interface{ $m() $_ }", "m"},
		{"$x.$y", "y"},
		{"$x.$y", "x"},
		{"$x += $_", "x"},
		{"$x++", "x"},
		{"keep($x...)", "x"},
	}
	for _, c := range captures {
		c := c
		add := func(name, ctor string, where *filt.DExpr, fact func(s *famSite) tri) {
			fam.rules = append(fam.rules, &famRule{name: name, ctor: ctor, pat: c.pat, at: c.at, where: where, fact: fact, describe: describe})
			fam.rules = append(fam.rules, &famRule{name: "!" + name, ctor: "", pat: c.pat, at: c.at, where: filt.Not(where), describe: describe,
				fact: func(s *famSite) tri {
					switch fact(s) {
					case yes:
						return no
					case no:
						return yes
					}
					return either
				}})
		}
		for _, k := range []string{"Var", "Func", "Const", "TypeName", "Label", "PkgName", "Builtin", "Nil"} {
			k := k
			add("Object.Is:"+k, "makeObjectIsFilter", filt.Call("Object.Is", c.at, filt.Str(k)), func(s *famSite) tri {
				return b2t(objKind(objOf(s)) == k)
			})
		}
		// the type of a declaring identifier is the type of the object it declares (Info.TypeOf asks Defs as well; Info.Types has
		// no entry for it); an identifier without an object (a label, a package name, the symbol of a type switch) has none
		for _, tp := range []string{"int", "string", "func($*_) $*_", "map[string]int"} {
			tp := tp
			add("Type.Is:"+tp, "makeTypeIsFilter", filt.Call("Type.Is", c.at, filt.Str(tp)), func(s *famSite) tri {
				var typ types.Type
				for _, n := range s.nodes {
					if x, ok := n.(ast.Expr); ok {
						typ = t.Info.TypeOf(x)
						break
					}
				}
				if typ == nil {
					return no
				}
				switch tp {
				case "func($*_) $*_":
					_, ok := types.Unalias(typ).(*types.Signature)
					return b2t(ok)
				case "map[string]int":
					return b2t(types.Identical(typ, types.NewMap(types.Typ[types.String], types.Typ[types.Int])))
				}
				return b2t(types.Identical(typ, types.Universe.Lookup(tp).Type()))
			})
		}
		add("Object.IsGlobal", "makeObjectIsGlobalFilter", filt.Call("Object.IsGlobal", c.at), func(s *famSite) tri {
			o := objOf(s)
			return b2t(o != nil && o.Parent() == t.Pkg.Scope())
		})
		add("Object.IsVariadicParam", "makeObjectIsVariadicParamFilter", filt.Call("Object.IsVariadicParam", c.at), func(s *famSite) tri {
			o := objOf(s)
			return b2t(o != nil && variadic[o])
		})
	}
	// `$*xs` on the left of `:=`: Object.Is holds for a list capture when it holds for every element
	lhsOf := func(s *famSite) []ast.Expr {
		var found []ast.Expr
		ast.Inspect(t.File, func(n ast.Node) bool {
			if as, ok := n.(*ast.AssignStmt); ok && len(as.Lhs) > 0 {
				for i := range as.Lhs {
					for j := i; j < len(as.Lhs); j++ {
						if t.Fset.Position(as.Lhs[i].Pos()).Offset == s.from && t.Fset.Position(as.Lhs[j].End()).Offset == s.to {
							found = as.Lhs[i : j+1]
						}
					}
				}
			}
			return found == nil
		})
		return found
	}
	for _, c := range []capt{{"$*xs := $*_", "xs"}, {"$*xs, $_ := $*_", "xs"}, {"$_, $*xs = $*_", "xs"}} {
		c := c
		for _, k := range []string{"Var", "Func", "Const"} {
			k := k
			fam.rules = append(fam.rules, &famRule{name: "Object.Is:" + k + " for every element of $*xs", ctor: "makeObjectIsFilter", pat: c.pat, at: c.at,
				where: filt.Call("Object.Is", c.at, filt.Str(k)),
				describe: func(s *famSite) string {
					return fmt.Sprintf("%d identifiers on the left of an assignment", len(lhsOf(s)))
				},
				fact: func(s *famSite) tri {
					els := lhsOf(s)
					if _, whole := s.outer().(*ast.AssignStmt); whole && len(els) == 0 {
						return yes // an empty list (the location falls back to the statement): nothing to hold for
					}
					if len(els) == 0 {
						return either
					}
					for _, x := range els {
						id, ok := unparen(x).(*ast.Ident)
						if sel, isSel := unparen(x).(*ast.SelectorExpr); isSel {
							id, ok = sel.Sel, true
						}
						if !ok || objKind(t.Info.ObjectOf(id)) != k {
							return no
						}
					}
					return yes
				}})
		}
	}
	out := fam.run()
	// coverage: the roles x object kinds the located captures have
	for key, l := range fam.locs {
		if key[1] == "$$" {
			continue
		}
		for _, s := range l.sites {
			if identIn(s) != nil {
				cov[describe(s)]++
			}
		}
	}
	// coverage of Object.IsVariadicParam: captured identifiers that refer to a variadic parameter, by the number of function
	// literals between the identifier and the function that declares the parameter; identifiers named like a variadic parameter
	// of a function around them that denote something else (shadowed), and the other way round; and the sites on which the wrong
	// oracle "the variadic parameter of the INNERMOST function around the identifier" differs from the reference
	vcov := map[string]int{}
	around := funcsAround(t)
	seenIdent := map[*ast.Ident]bool{}
	for key, l := range fam.locs {
		if key[1] == "$$" {
			continue
		}
		for _, s := range l.sites {
			id := identIn(s)
			if id == nil || seenIdent[id] {
				continue
			}
			seenIdent[id] = true
			o := t.Info.ObjectOf(id)
			fns := around[id]
			innermost := len(fns) > 0 && sigLast(t, fns[0]) == o && o != nil
			if variadic[o] {
				depth := -1
				for i, fn := range fns {
					if sigLast(t, fn) == o {
						depth = i
					}
				}
				vcov[fmt.Sprintf("variadic parameter, %d function literals between use and function", depth)]++
				if !innermost {
					vcov[fmt.Sprintf("innermost-only oracle differs at depth %d", depth)]++
				}
				if depth >= 0 {
					if _, isDecl := fns[depth].(*ast.FuncDecl); isDecl && fns[depth].(*ast.FuncDecl).Recv != nil {
						vcov["variadic parameter of a method"]++
					}
					if _, isLit := fns[depth].(*ast.FuncLit); isLit {
						vcov["variadic parameter of a function literal"]++
					}
				}
				continue
			}
			for _, fn := range fns {
				if last := sigLast(t, fn); last != nil && last.Name() == id.Name && last != o {
					vcov["named like a variadic parameter of a function around it, denotes another object"]++
					break
				}
			}
		}
	}
	enc.Encode(map[string]interface{}{"k": "defs-cov", "captures": len(captures), "roles": cov, "variadic": vcov})
	return out
}
