package main

// Inputs of the Coq model RG.Filters.ExprFacts: every probe expression as an annotated `gexpr` term and every sink
// context as a `sink_parent` term, computed here from go/ast and go/types (never through ruleguard). The check evaluates
// is_pure / is_constant_slice / object_is / object_is_global / find_sink on them inside coqc and compares the results
// with the engine's verdicts.

import (
	"fmt"
	"go/ast"
	"go/token"
	"go/types"
	"reflect"
	"strings"

	"verif/harness/internal/filt"
)

func coqBool(b bool) string {
	if b {
		return "true"
	}
	return "false"
}

func (e *env) annOf(x ast.Expr) string {
	tv, ok := e.t.Info.Types[x]
	isConst := ok && tv.Value != nil
	byteSlice := false
	if t := e.t.Info.TypeOf(x); t != nil {
		if sl, ok := t.(*types.Slice); ok {
			if b, ok := sl.Elem().(*types.Basic); ok && b.Kind() == types.Uint8 {
				byteSlice = true
			}
		}
	}
	obj, global := "", false
	if id, ok := x.(*ast.Ident); ok {
		if o := e.t.Info.ObjectOf(id); o != nil {
			obj = strings.TrimPrefix(reflect.TypeOf(o).String(), "*types.")
			global = o.Parent() == e.t.Pkg.Scope()
		}
	}
	return fmt.Sprintf("{| a_const := %s; a_byteslice := %s; a_obj := %s; a_global := %s |}", coqBool(isConst), coqBool(byteSlice), filt.CoqString(obj), coqBool(global))
}

func (e *env) gexprList(l []ast.Expr) string {
	parts := make([]string, len(l))
	for i, x := range l {
		parts[i] = e.gexpr(x)
	}
	return "[" + strings.Join(parts, "; ") + "]"
}

func (e *env) gexpr(x ast.Expr) string {
	a := e.annOf(x)
	switch v := x.(type) {
	case *ast.Ident:
		return fmt.Sprintf("(GIdent %s %s)", a, filt.CoqString(v.Name))
	case *ast.BasicLit:
		return fmt.Sprintf("(GBasicLit %s %s)", a, filt.CoqString(v.Kind.String()))
	case *ast.FuncLit:
		return fmt.Sprintf("(GFuncLit %s)", a)
	case *ast.StarExpr:
		return fmt.Sprintf("(GStar %s %s)", a, e.gexpr(v.X))
	case *ast.UnaryExpr:
		op := "OTHER"
		if v.Op == token.ARROW {
			op = "ARROW"
		}
		return fmt.Sprintf("(GUnary %s %s %s)", a, filt.CoqString(op), e.gexpr(v.X))
	case *ast.BinaryExpr:
		return fmt.Sprintf("(GBinary %s %s %s)", a, e.gexpr(v.X), e.gexpr(v.Y))
	case *ast.IndexExpr:
		return fmt.Sprintf("(GIndex %s %s %s)", a, e.gexpr(v.X), e.gexpr(v.Index))
	case *ast.SelectorExpr:
		return fmt.Sprintf("(GSelector %s %s %s)", a, e.gexpr(v.X), e.gexpr(v.Sel))
	case *ast.ParenExpr:
		return fmt.Sprintf("(GParen %s %s)", a, e.gexpr(v.X))
	case *ast.CompositeLit:
		return fmt.Sprintf("(GComposite %s %s)", a, e.gexprList(v.Elts))
	case *ast.CallExpr:
		return fmt.Sprintf("(GCall %s %s %s)", a, e.gexpr(v.Fun), e.gexprList(v.Args))
	case *ast.KeyValueExpr:
		return fmt.Sprintf("(GKeyValue %s %s %s)", a, e.gexpr(v.Key), e.gexpr(v.Value))
	case *ast.FuncType, *ast.StructType, *ast.InterfaceType, *ast.ArrayType, *ast.MapType, *ast.ChanType:
		return fmt.Sprintf("(GTypeLit %s %s)", a, filt.CoqString(nodeTypeName(x)))
	}
	return fmt.Sprintf("(GOther %s %s [])", a, filt.CoqString(nodeTypeName(x)))
}

func tyStr(t types.Type) string {
	if t == nil || t == types.Typ[types.Invalid] {
		return ""
	}
	return types.TypeString(t, func(p *types.Package) string { return p.Name() })
}

func coqTyList(ts []types.Type) string {
	parts := make([]string, len(ts))
	for i, t := range ts {
		parts[i] = filt.CoqString(tyStr(t))
	}
	return "[" + strings.Join(parts, "; ") + "]"
}

func optNat(i int) string {
	if i < 0 {
		return "None"
	}
	return fmt.Sprintf("(Some %d%%nat)", i)
}

func indexOf(l []ast.Expr, x ast.Expr) int {
	for i, a := range l {
		if unparen(a) == x {
			return i
		}
	}
	return -1
}

// sinkParent renders the model's view of the context of a whole-match expression.
func (e *env) sinkParent(x ast.Expr) string {
	var n ast.Node = x
	p := e.parents[n]
	for {
		if _, ok := p.(*ast.ParenExpr); ok {
			p = e.parents[p]
			continue
		}
		break
	}
	kv := "None"
	if k, ok := p.(*ast.KeyValueExpr); ok {
		name := ""
		if id, ok := k.Key.(*ast.Ident); ok {
			name = id.Name
		}
		kv = fmt.Sprintf("(Some (%s, %s))", coqBool(unparen(k.Key) == x), filt.CoqString(name))
		p = e.parents[p]
	}
	switch v := p.(type) {
	case *ast.ValueSpec:
		var t types.Type
		if v.Type != nil {
			t = e.t.Info.TypeOf(v.Type)
		}
		return fmt.Sprintf("(PValueSpec %s)", filt.CoqString(tyStr(t)))
	case *ast.ReturnStmt:
		// the go/ast path from the statement outwards; every function on it with the FIELDS of its result list as written
		// (names per field, go/types' type of the field's type expression): the model picks the function and numbers the results
		var path []string
		for q := e.parents[ast.Node(v)]; q != nil; q = e.parents[q] {
			var ft *ast.FuncType
			lit := false
			switch f := q.(type) {
			case *ast.FuncDecl:
				ft = f.Type
			case *ast.FuncLit:
				ft, lit = f.Type, true
			}
			if ft == nil {
				path = append(path, "NOtherNode")
				continue
			}
			var fields []string
			if ft.Results != nil {
				for _, fld := range ft.Results.List {
					fields = append(fields, fmt.Sprintf("(%d%%nat, %s)", len(fld.Names), filt.CoqString(tyStr(e.t.Info.TypeOf(fld.Type)))))
				}
			}
			path = append(path, fmt.Sprintf("NFunc %s [%s]", coqBool(lit), strings.Join(fields, "; ")))
		}
		return fmt.Sprintf("(return_parent %s [%s])", optNat(indexOf(v.Results, x)), strings.Join(path, "; "))
	case *ast.IndexExpr:
		if unparen(v.Index) != x {
			return "POtherParent"
		}
		if m, ok := e.typeOf(v.X).Underlying().(*types.Map); ok {
			return fmt.Sprintf("(PIndexOperand (Some %s))", filt.CoqString(tyStr(m.Key())))
		}
		return "(PIndexOperand None)"
	case *ast.AssignStmt:
		var ts []types.Type
		for _, l := range v.Lhs {
			ts = append(ts, e.t.Info.TypeOf(l))
		}
		return fmt.Sprintf("(PAssign %s %s %s %s)", coqBool(v.Tok == token.ASSIGN), coqBool(len(v.Lhs) == len(v.Rhs)), optNat(indexOf(v.Rhs, x)), coqTyList(ts))
	case *ast.CompositeLit:
		lt := e.typeOf(v).Underlying()
		if ptr, ok := lt.(*types.Pointer); ok {
			lt = ptr.Elem().Underlying()
		}
		lit := "LOtherLit"
		switch t := lt.(type) {
		case *types.Slice:
			lit = fmt.Sprintf("(LSlice %s)", filt.CoqString(tyStr(t.Elem())))
		case *types.Array:
			lit = fmt.Sprintf("(LArray %s)", filt.CoqString(tyStr(t.Elem())))
		case *types.Map:
			lit = fmt.Sprintf("(LMap %s %s)", filt.CoqString(tyStr(t.Key())), filt.CoqString(tyStr(t.Elem())))
		case *types.Struct:
			var fs []string
			for i := 0; i < t.NumFields(); i++ {
				fs = append(fs, fmt.Sprintf("(%s, %s)", filt.CoqString(t.Field(i).Name()), filt.CoqString(tyStr(t.Field(i).Type()))))
			}
			lit = "(LStruct [" + strings.Join(fs, "; ") + "])"
		}
		return fmt.Sprintf("(PComposite %s %s %s)", lit, kv, optNat(indexOf(v.Elts, x)))
	case *ast.CallExpr:
		callee := "CNotCallable"
		if tv, ok := e.t.Info.Types[v.Fun]; ok && tv.IsType() {
			callee = fmt.Sprintf("(CConversion %s)", filt.CoqString(tyStr(tv.Type)))
		} else if sig, ok := e.typeOf(v.Fun).Underlying().(*types.Signature); ok {
			var ts []types.Type
			for i := 0; i < sig.Params().Len(); i++ {
				ts = append(ts, sig.Params().At(i).Type())
			}
			last := ""
			if n := sig.Params().Len(); n > 0 {
				if sl, ok := sig.Params().At(n - 1).Type().(*types.Slice); ok {
					last = tyStr(sl.Elem())
				}
			}
			callee = fmt.Sprintf("(CSignature %s %s %s)", coqTyList(ts), coqBool(sig.Variadic()), filt.CoqString(last))
		}
		return fmt.Sprintf("(PCall %s %s %s)", callee, optNat(indexOf(v.Args, x)), coqBool(v.Ellipsis.IsValid()))
	}
	return "POtherParent"
}
