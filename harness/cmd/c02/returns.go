package main

// Return statements as sink contexts. The operands of `return a, b, c` are numbered per RESULT of the innermost function
// around the statement, whatever way its result list is written: grouped names (`(first, second error, n int)`: two fields,
// three results), one name per field, no names, blank names; functions, methods (also of generic types), function literals
// (assigned, passed, invoked, at package level) and literals nested in one another with statements of the outer function
// behind the inner one. The probe call r<J>() has type int, so the probed results have the types int, interface{} (and int64
// behind a conversion); the results around them have other types, so that reading the neighbour's type is a wrong answer.
//
// The expected sink is written down by hand per site; the harness cross-checks it against go/types' Signature of the function
// go/ast finds around the statement and stops (exit 3) when the two disagree -- a wrong table entry is not a finding.

import (
	"fmt"
	"go/ast"
	"go/types"
	"os"
	"strings"
)

// retPart is either literal text of the shell or (stmt != "") a return statement with %s for the probe call
type retPart struct {
	text            string
	stmt, sink, par string
}

func shText(s string) retPart               { return retPart{text: s} }
func shRet(stmt, sink string) retPart       { return retPart{stmt: stmt, sink: sink, par: "ReturnStmt"} }
func shRetP(stmt, sink, par string) retPart { return retPart{stmt: stmt, sink: sink, par: par} }

var retShells = [][]retPart{
	// a declaration whose first field declares two names
	{shText("func grpA() (a, b interface{}, n int) {\n"),
		shRet("return %s, nil, 0", "interface{}"), shRet("return nil, %s, 0", "interface{}"), shRet("return nil, nil, %s", "int"),
		shRetP("return nil, (%s), 0", "interface{}", "ParenExpr"), shRetP("return nil, nil, ((%s))", "int", "ParenExpr"),
		shText("\treturn nil, nil, 0\n}\n")},
	// two grouped fields and a single one: the field index falls behind the result index by one, then by two
	{shText("func grpB() (s, t string, x, y int, z interface{}) {\n"),
		shRet("return \"\", \"\", %s, 0, nil", "int"), shRet("return \"\", \"\", 0, %s, nil", "int"), shRet("return \"\", \"\", 0, 0, %s", "interface{}"),
		shText("\treturn \"\", \"\", 0, 0, nil\n}\n")},
	// one field for all results
	{shText("func grpC() (a, b, c interface{}) {\n"),
		shRet("return nil, %s, nil", "interface{}"), shRet("return nil, nil, %s", "interface{}"),
		shText("\treturn nil, nil, nil\n}\n")},
	{shText("func grpD() (s string, a, b, c int) {\n"),
		shRet("return \"\", 0, %s, 0", "int"), shRet("return \"\", 0, 0, %s", "int"),
		shText("\treturn \"\", 0, 0, 0\n}\n")},
	// the group comes last: the operands in front of it are numbered alike either way, the ones inside are not
	{shText("func grpE() (e interface{}, s string, a, b int) {\n"),
		shRet("return %s, \"\", 0, 0", "interface{}"), shRet("return nil, \"\", %s, 0", "int"), shRet("return nil, \"\", 0, %s", "int"),
		shText("\treturn nil, \"\", 0, 0\n}\n")},
	// methods: value receiver, pointer receiver of a generic type
	{shText("func (S2) grpM() (x, y int64, e interface{}, k int) {\n"),
		shRetP("return 1, int64(%s), nil, 0", "int64", "CallExpr"), shRet("return 1, 2, %s, 0", "interface{}"), shRet("return 1, 2, nil, %s", "int"),
		shText("\treturn 1, 2, nil, 0\n}\n")},
	{shText("func (g *G[T]) grpG() (v T, a, b int, w interface{}) {\n"),
		shRet("return g.v, %s, 0, nil", "int"), shRet("return g.v, 0, %s, nil", "int"), shRet("return g.v, 0, 0, %s", "interface{}"),
		shText("\treturn g.v, 0, 0, nil\n}\n")},
	// no names, one name per field, blank names: field index = result index
	{shText("func grpU() (string, interface{}, int) {\n"),
		shRet("return \"\", %s, 0", "interface{}"), shRet("return \"\", nil, %s", "int"),
		shText("\treturn \"\", nil, 0\n}\n")},
	{shText("func grpN() (a string, b interface{}, c int) {\n"),
		shRet("return \"\", %s, 0", "interface{}"), shRet("return \"\", nil, %s", "int"),
		shText("\treturn \"\", nil, 0\n}\n")},
	{shText("func grpBl() (_, _ interface{}, _ int) {\n"),
		shRet("return nil, %s, 0", "interface{}"), shRet("return nil, nil, %s", "int"),
		shText("\treturn nil, nil, 0\n}\n")},
	// a result whose type is itself a function type with results
	{shText("func grpF() (f func() (int, string), a, b interface{}, n int) {\n"),
		shRet("return nil, nil, %s, 0", "interface{}"), shRet("return nil, nil, nil, %s", "int"),
		shText("\treturn nil, nil, nil, 0\n}\n")},
	// function literals: assigned, passed as an argument, invoked by defer, each inside a function with other results
	{shText("func grpLits() (p, q string) {\n\tfA := func() (a, b int, c interface{}) {\n"),
		shRet("return 0, %s, nil", "int"), shRet("return 0, 0, %s", "interface{}"),
		shText("\t\treturn 0, 0, nil\n\t}\n\t_ = fA\n\ttakeAny(func() (s string, a, b interface{}) {\n"),
		shRet("return \"\", nil, %s", "interface{}"),
		shText("\t\treturn \"\", nil, nil\n\t})\n\tdefer func() (x, y int) {\n"),
		shRet("return 0, %s", "int"),
		shText("\t\treturn 0, 0\n\t}()\n\treturn \"\", \"\"\n}\n")},
	// nesting: the innermost function decides; statements of the middle one behind the inner literal belong to the middle one
	{shText("func grpNest() (p, q string) {\n\tmid := func() (a, b interface{}, n int) {\n\t\tin := func() (m, k int, s interface{}) {\n"),
		shRet("return 0, %s, nil", "int"), shRet("return 0, 0, %s", "interface{}"),
		shText("\t\t\treturn 0, 0, nil\n\t\t}\n\t\t_ = in\n"),
		shRet("return nil, %s, 0", "interface{}"), shRet("return nil, nil, %s", "int"),
		shText("\t\treturn nil, nil, 0\n\t}\n\t_ = mid\n\treturn \"\", \"\"\n}\n")},
	// the declaration's own statements behind a literal with other results; an operand that is an invoked literal
	{shText("func grpOuter() (p, q interface{}, n int) {\n\tlit := func() (x, y string) { return \"\", \"\" }\n\t_ = lit\n"),
		shRet("return nil, %s, 0", "interface{}"), shRet("return nil, nil, %s", "int"),
		shRet("return nil, func() int { return %s }(), 0", "int"),
		shRet("return nil, func() (s string, a, b int) { return \"\", 0, %s }, 0", "int"),
		shText("\treturn nil, nil, 0\n}\n")},
	// a literal that is not inside any declaration
	{shText("var grpV = func() (a, b interface{}, c int) {\n"),
		shRet("return nil, %s, 0", "interface{}"), shRet("return nil, nil, %s", "int"),
		shText("\treturn nil, nil, 0\n}\n")},
	// a return of a literal BEHIND an inner literal that has ended in it (assigned, invoked, with a literal of its own, go / defer), inside
	// declarations with no result / one result and at package level: the function around a statement is the innermost one on the PATH
	// to it, not the one entered last; the declaration's result list is shorter than the literal's at every probed index
	{shText("func grpAfter() {\n\ttakeAny(func() (s string, e interface{}, n int) {\n\t\th1 := func() int64 { return 1 }\n\t\t_ = h1\n"),
		shRet("return \"\", %s, 0", "interface{}"), shRet("return \"\", nil, %s", "int"),
		shText("\t\tfunc() {\n\t\t\t_ = func() (a, b string) { return \"\", \"\" }\n\t\t}()\n"),
		shRet("return \"\", %s, 0", "interface{}"),
		shText("\t\tdeep := func() (x int64, y interface{}) {\n\t\t\tdefer func() {}()\n"),
		shRet("return 0, %s", "interface{}"),
		shText("\t\t\treturn 0, nil\n\t\t}\n\t\t_ = deep\n"),
		shRet("return \"\", nil, %s", "int"),
		shText("\t\treturn \"\", nil, 0\n\t})\n}\n")},
	{shText("func (S2) grpAfterM() (only string) {\n\tlit := func() (a int64, b int, c interface{}) {\n\t\tgo func() {}()\n"),
		shRet("return 0, %s, nil", "int"), shRet("return 0, 0, %s", "interface{}"),
		shText("\t\treturn 0, 0, nil\n\t}\n\t_ = lit\n\treturn \"\"\n}\n")},
	{shText("var grpAfterV = func() (a string, b interface{}) {\n\t_ = func() {}\n"),
		shRet("return \"\", %s", "interface{}"),
		shText("\treturn \"\", nil\n}\n")},
}

// retSites: the return contexts in source order
func retSites() []retPart {
	var out []retPart
	for _, sh := range retShells {
		for _, p := range sh {
			if p.stmt != "" {
				out = append(out, p)
			}
		}
	}
	return out
}

func retShellSource() string {
	var sb strings.Builder
	for _, sh := range retShells {
		for _, p := range sh {
			if p.stmt == "" {
				sb.WriteString(p.text)
				continue
			}
			for j := 0; j < W; j++ {
				fmt.Fprintf(&sb, "\tif gb {\n\t\t"+p.stmt+"\n\t}\n", fmt.Sprintf("r%d()", j))
			}
		}
	}
	return sb.String()
}

// funcAround: the innermost function declaration or literal around n and the go/ast path to it (inside out, n excluded)
func (e *env) funcAround(n ast.Node) (fn ast.Node, ft *ast.FuncType, path []ast.Node) {
	for q := e.parents[n]; q != nil; q = e.parents[q] {
		path = append(path, q)
		switch f := q.(type) {
		case *ast.FuncDecl:
			return f, f.Type, path
		case *ast.FuncLit:
			return f, f.Type, path
		}
	}
	return nil, nil, path
}

// checkReturnSite: the hand-written sink of a return context against go/types' view of the function go/ast finds around it
func (e *env) checkReturnSite(s *sinkSite) {
	var ret *ast.ReturnStmt
	var operand ast.Node = s.call
	for q := e.parents[operand]; q != nil; q = e.parents[q] {
		if r, ok := q.(*ast.ReturnStmt); ok {
			ret = r
			break
		}
		if _, ok := q.(*ast.ParenExpr); !ok {
			break
		}
		operand = q
	}
	if ret == nil {
		return // the probe is inside a conversion or a literal: the parent is not the return statement
	}
	idx := -1
	for i, r := range ret.Results {
		if r == operand {
			idx = i
		}
	}
	fn, _, _ := e.funcAround(ret)
	var sig *types.Signature
	switch f := fn.(type) {
	case *ast.FuncDecl:
		sig, _ = e.t.Info.Defs[f.Name].Type().(*types.Signature)
	case *ast.FuncLit:
		sig, _ = e.t.Info.TypeOf(f).(*types.Signature)
	}
	if sig == nil || idx < 0 || idx >= sig.Results().Len() {
		fmt.Fprintf(os.Stderr, "return site %q: no function / operand found\n", s.sink)
		os.Exit(3)
	}
	if !types.Identical(sig.Results().At(idx).Type(), e.eval(s.sink)) {
		fmt.Fprintf(os.Stderr, "return site: table says sink %s, go/types declares %s for result %d\n", s.sink, sig.Results().At(idx).Type(), idx)
		os.Exit(3)
	}
}

// returnCtx: how a return context is named in the observations
func (e *env) returnCtx(s *sinkSite) string {
	if s.retStmt == "" {
		return "return"
	}
	hdr := ""
	switch f, _, _ := e.funcAround(s.call); f := f.(type) {
	case *ast.FuncDecl:
		hdr = string(e.t.Src[e.t.Fset.Position(f.Pos()).Offset:e.t.Fset.Position(f.Body.Lbrace).Offset])
	case *ast.FuncLit:
		hdr = string(e.t.Src[e.t.Fset.Position(f.Pos()).Offset:e.t.Fset.Position(f.Body.Lbrace).Offset])
	}
	return fmt.Sprintf(s.retStmt, "r()") + " in " + strings.TrimSpace(hdr)
}
