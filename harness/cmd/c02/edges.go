package main

// Text / Text.Matches on captures that touch the edges of a file, in files whose byte layout is unusual.
//
// The documentation promises the exact source bytes of the capture. The engine slices them out of the file by the capture's
// extent, so what matters is WHERE in the file the extent lies and what the bytes look like: a capture whose last byte is the
// last byte of the file (a file that does not end in a newline), a file that begins with a byte order mark, CRLF line ends, a
// capture followed only by a comment, captures spelled the way gofmt would not spell them (the engine's fallback prints the node
// with go/printer, which normalises the spelling) next to gofmt-shaped twins of the same expression.
//
// One small package per layout; a list of generic patterns that match the final declaration of each file (and the twins in the
// prelude). For every (pattern, variable) a locating rule `Match(P).Report(..).At(m[v])` (no Where) yields the extents of the
// captures; the FACT about a capture is computed from the source bytes of its extent (positions come from go/ast, never from the
// engine's text). The constants of the predicates are the texts of the captures that end at the end of their file and what
// go/printer prints for them.

import (
	"bytes"
	"encoding/json"
	"fmt"
	"go/ast"
	"go/printer"
	"os"
	"regexp"
	"sort"
	"strings"

	"verif/harness/internal/filt"
	"verif/harness/internal/hutil"
)

const edgePrelude = `
var gi int
var gs string
var gsl []int

type S2 struct {
	a int
	b string
}

func g(a, b int) int { return a + b }

// gofmt-shaped twins of the final declarations
var (
	tw1  = gi + 1
	tw2  = g(gi, 1)
	tw3  = []int{1, 2}
	tw4  = (gi)
	tw5  = gsl[1:]
	tw6  = -gi
	tw7  = func() int { return 1 }
	tw8  = S2{a: 1}.a
	tw9  = gsl[0]
	tw10 = gs + "x"
	tw11 = 1 << 3
)

func twin() { gi = 1 }

type twinT struct{ a int }

`

type edgeFile struct {
	name, head, tail string // head: what stands before `package`; tail: the final declaration, byte for byte the end of the file
	crlf             bool   // every line end of the file is \r\n
}

var edgeFiles = []edgeFile{
	{name: "no final newline: binary expression", tail: "var last = gi+1"},
	{name: "no final newline: call", tail: "var last = g( gi,1 )"},
	{name: "no final newline: slice literal", tail: "var last = []int{ 1,2 }"},
	{name: "no final newline: parenthesised", tail: "var last = ( gi )"},
	{name: "no final newline: slice expression", tail: "var last = gsl[ 1: ]"},
	{name: "no final newline: unary", tail: "var last = - gi"},
	{name: "no final newline: function literal", tail: "var last = func( ) int { return 1 }"},
	{name: "no final newline: selector of a literal", tail: "var last = S2{ a:1 }.a"},
	{name: "no final newline: index", tail: "var last = gsl[ 0 ]"},
	{name: "no final newline: shift in a constant", tail: "const last = 1<<3"},
	{name: "no final newline: function declaration", tail: "func last() { gi=1 }"},
	{name: "no final newline: struct type", tail: "type last struct{ a   int }"},
	{name: "no final newline: call over several lines", tail: "var last = g(\n\tgi,\n\t1)"},
	{name: "no final newline: gofmt spelling", tail: "var last = gi + 1"},
	{name: "final newline", tail: "var last = gi+1\n"},
	{name: "two final newlines", tail: "var last = g( gi,1 )\n\n"},
	{name: "a comment behind the last node, no final newline", tail: "var last = gs+\"x\" // the end"},
	{name: "a block comment behind the last node", tail: "var last = gi+1 /* the end */"},
	{name: "byte order mark, no final newline", head: "\xef\xbb\xbf", tail: "var last = gi+1"},
	{name: "CRLF line ends, no final newline", tail: "var last = g( gi,1 )", crlf: true},
	{name: "CRLF line ends, final CRLF", tail: "var last = gi+1\n", crlf: true},
}

// edgeMaxConsts bounds the constants per (pattern, variable)
const edgeMaxConsts = 6

type edgePattern struct {
	pat  string
	vars []string // the variables looked at besides $$
}

var edgePatterns = []edgePattern{
	{"$x + $y", []string{"x", "y"}},
	{"$f($*_)", []string{"f"}},
	{"[]int{$*_}", nil},
	{"($x)", []string{"x"}},
	{"$x[$lo:]", []string{"x", "lo"}},
	{"-$x", []string{"x"}},
	{"func() int { $*_ }", nil},
	{"$x.a", []string{"x"}},
	{"$x[$i]", []string{"x", "i"}},
	{"$x << $y", []string{"y"}},
	{"func $f() { $*_ }", []string{"f"}},
	{"struct{ $*_ }", nil},
	{"var $x = $y", []string{"y"}},
	{"$x = $y", []string{"y"}},
}

type edgeCap struct {
	file     int
	from, to int
	text     string // source bytes of the extent
	printed  string // what go/printer prints for the (outermost) node of that extent
	atEOF    bool
}

// edgeRules runs the family and returns its rule records; model inputs are written to enc.
func edgeRules(tmp string, enc *json.Encoder) []*ruleOut {
	var targets []*hutil.Target
	for i, f := range edgeFiles {
		src := f.head + fmt.Sprintf("package edge%d\n", i) + edgePrelude + f.tail
		if f.crlf {
			src = strings.ReplaceAll(src, "\n", "\r\n")
		}
		t, err := hutil.CheckTargetPkg(tmp, fmt.Sprintf("edges/e%d/x.go", i), []byte(src), fmt.Sprintf("example.com/edge%d", i))
		if err != nil {
			fmt.Fprintln(os.Stderr, "edge file:", f.name, err)
			os.Exit(3)
		}
		targets = append(targets, t)
		ascii := true
		for _, b := range []byte(src) {
			if (b < 32 && b != '\n' && b != '\t') || b > 126 {
				ascii = false
			}
		}
		rec := map[string]interface{}{"k": "edgefile", "index": i, "name": f.name, "ascii": ascii, "len": len(src)}
		if ascii {
			rec["coq"] = filt.CoqString(src)
		}
		enc.Encode(rec)
	}
	fset := targets[0].Fset // every target has a file set of its own; rules files need one for Load only

	nodeAt := func(t *hutil.Target, from, to int) ast.Node {
		var found ast.Node
		ast.Inspect(t.File, func(n ast.Node) bool {
			if n == nil || found != nil {
				return false
			}
			if t.Fset.Position(n.Pos()).Offset == from && t.Fset.Position(n.End()).Offset == to {
				if _, isCG := n.(*ast.CommentGroup); !isCG {
					found = n
					return false
				}
			}
			return true
		})
		return found
	}

	var out []*ruleOut
	runRules := func(rs []filt.Rule) (perFile [][]hutil.Report, loadErr, panicMsg string) {
		eng, err := filt.Load(fset, filt.RulesFile("", rs))
		if err != nil {
			return nil, err.Error(), ""
		}
		for _, t := range targets {
			reps, pmsg := hutil.Run(eng, t, 0, "", nil)
			if pmsg != "" {
				return nil, "", pmsg
			}
			perFile = append(perFile, reps)
		}
		return perFile, "", ""
	}

	// ---- phase 1: locate the captures of every (pattern, variable) with a rule of its own; derive the predicates
	type pending struct {
		ro    *ruleOut
		rule  filt.Rule
		v     string
		caps  []edgeCap
		seen  map[[3]int]bool
		fact  func(text string) bool
		group string
	}
	perPattern := make([][]*pending, len(edgePatterns))
	matchOwner := map[[3]int]int{} // extent of a whole match -> pattern index: the patterns must not share a node
	for pi, ep := range edgePatterns {
		for _, v := range append([]string{"$$"}, ep.vars...) {
			v := v
			extra := ""
			if v != "$$" {
				extra = fmt.Sprintf(".At(m[%q])", v)
			}
			located, lerr, pmsg := runRules([]filt.Rule{{Name: "loc", Pattern: ep.pat, Extra: extra}})
			if lerr != "" || pmsg != "" {
				fmt.Fprintf(os.Stderr, "edge locating rule %q %s: %s%s\n", ep.pat, v, lerr, pmsg)
				os.Exit(3)
			}
			var caps []edgeCap
			seen := map[[3]int]bool{}
			for fi, reps := range located {
				t := targets[fi]
				for _, rep := range reps {
					k := [3]int{fi, rep.Pos, rep.End}
					if rep.NilNode || rep.End < rep.Pos || seen[k] {
						continue
					}
					seen[k] = true
					if v == "$$" {
						if o, ok := matchOwner[k]; ok && o != pi {
							fmt.Fprintf(os.Stderr, "edge patterns %q and %q match the same node: they cannot share an engine\n", edgePatterns[o].pat, ep.pat)
							os.Exit(3)
						}
						matchOwner[k] = pi
					}
					c := edgeCap{file: fi, from: rep.Pos, to: rep.End, text: string(t.Src[rep.Pos:rep.End]), atEOF: rep.End == len(t.Src)}
					if n := nodeAt(t, rep.Pos, rep.End); n != nil {
						var buf bytes.Buffer
						if err := printer.Fprint(&buf, t.Fset, n); err == nil {
							c.printed = buf.String()
						}
					}
					caps = append(caps, c)
				}
			}
			// constants: the texts of the captures that end where their file ends, and their printed forms
			constSet := map[string]bool{}
			for _, c := range caps {
				if c.atEOF {
					constSet[c.text] = true
					if c.printed != "" {
						constSet[c.printed] = true
					}
				}
			}
			var consts []string
			for s := range constSet {
				consts = append(consts, s)
			}
			sort.Strings(consts)
			if len(consts) > edgeMaxConsts {
				// a pattern that matches every final declaration: the first few texts (sorted) stand for all
				consts = consts[:edgeMaxConsts]
			}
			for _, k := range consts {
				k := k
				rx := regexp.MustCompile("^" + regexp.QuoteMeta(k) + "$")
				type variant struct {
					name, ctor string
					where      *filt.DExpr
					fact       func(text string) bool
				}
				variants := []variant{
					{"Text:EQL", "makeTextConstFilter", filt.Bin("EQL", filt.Sel("Text", v), filt.Str(k)), func(s string) bool { return s == k }},
					{"Text:NEQ", "makeTextConstFilter", filt.Bin("NEQ", filt.Sel("Text", v), filt.Str(k)), func(s string) bool { return s != k }},
					{"Text:const-left:EQL", "makeTextConstFilter", filt.Bin("EQL", filt.Str(k), filt.Sel("Text", v)), func(s string) bool { return s == k }},
					{"Text:GTR", "makeTextConstFilter", filt.Bin("GTR", filt.Sel("Text", v), filt.Str(k)), func(s string) bool { return s > k }},
					{"Text.Matches:exactly", "makeTextMatchesFilter", filt.Call("Text.Matches", v, filt.Str(rx.String())), func(s string) bool { return rx.MatchString(s) }},
					// the negation is part of the filter: no constructor summary applies to the whole
					{"!Text.Matches:exactly", "", filt.Not(filt.Call("Text.Matches", v, filt.Str(rx.String()))), func(s string) bool { return !rx.MatchString(s) }},
				}
				for _, vr := range variants {
					ro := &ruleOut{K: "rule", Name: fmt.Sprintf("%s %q on %s of `%s`", vr.name, k, v, ep.pat), Kind: "edge", Ctor: vr.ctor, Src: vr.where.Go(),
						Pattern: ep.pat, Mode: "node", Obs: []obs{}, Const: k}
					out = append(out, ro)
					group := fmt.Sprintf("e%d", pi)
					perPattern[pi] = append(perPattern[pi], &pending{ro: ro, v: v, caps: caps, seen: seen, fact: vr.fact, group: group,
						rule: filt.Rule{Name: group, Pattern: ep.pat, Where: vr.where, Extra: extra}})
				}
			}
		}
	}

	// ---- phase 2: the k-th predicate of every pattern shares an engine (the patterns match disjoint sets of nodes, so no rule
	// hides another one's matches)
	record := func(pd *pending, got [][]hutil.Report) {
		acc := map[[3]int]bool{}
		for fi, reps := range got {
			for _, rep := range reps {
				if rep.Group != pd.group {
					continue
				}
				k3 := [3]int{fi, rep.Pos, rep.End}
				if !pd.seen[k3] {
					fmt.Fprintf(os.Stderr, "edge rule %s reports a capture the locating rule did not: %+v\n", pd.ro.Name, rep)
					os.Exit(3)
				}
				acc[k3] = true
			}
		}
		for _, c := range pd.caps {
			where := "inside the file"
			if c.atEOF {
				where = "ends at the last byte of the file"
			}
			pd.ro.Obs = append(pd.ro.Obs, obs{
				Site:    fmt.Sprintf("file %q: %s = bytes [%d,%d) of %d %q (%s)", edgeFiles[c.file].name, pd.v, c.from, c.to, len(targets[c.file].Src), c.text, where),
				Shape:   "one",
				Facts:   []int{int(b2t(pd.fact(c.text)))},
				Verdict: acc[[3]int{c.file, c.from, c.to}],
				Node:    -1,
				Ext:     []int{c.file, c.from, c.to},
				Printed: c.printed,
			})
		}
	}
	for k := 0; ; k++ {
		var members []*pending
		var rs []filt.Rule
		for pi := range perPattern {
			if k < len(perPattern[pi]) {
				members = append(members, perPattern[pi][k])
				rs = append(rs, perPattern[pi][k].rule)
			}
		}
		if len(members) == 0 {
			break
		}
		got, lerr, pmsg := runRules(rs)
		if lerr == "" && pmsg == "" {
			for _, pd := range members {
				record(pd, got)
			}
			continue
		}
		for _, pd := range members { // something fails in the shared engine: every member on its own
			got, lerr, pmsg := runRules([]filt.Rule{pd.rule})
			switch {
			case lerr != "":
				pd.ro.LoadErr = lerr
			case pmsg != "":
				pd.ro.Panic = pmsg
			default:
				record(pd, got)
			}
		}
	}
	return out
}
