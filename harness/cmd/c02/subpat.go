package main

// Contains(sub-pattern): sub-patterns of every ROOT KIND gogrep knows.
//
// `m["x"].Contains(P)` holds when some node of the captured subtree (the capture itself included) matches P. A gogrep pattern
// is not always one node: `a; b` is a run of statements (matched inside the statement lists of blocks, case and comm clauses),
// `a, b` a run of expressions (inside the argument list of a call, the elements of a composite literal, the operands of a
// return), `range x` / `for k := range x` the head of a range statement; single-node patterns are expressions, statements,
// declarations and type expressions. The column sweep only had the expressions `gi` and `len($_)`.
//
// The fact is computed by a recogniser written directly on go/ast for every sub-pattern of the catalogue (token texts of the
// statements / expressions of a run, compared modulo white space); the captures are function declarations (the runs lie in the
// body, in nested blocks, in case / comm clauses, in function literals), function literals passed to `hold(...)`, if statements
// and, for sub-patterns that mention captured variables (`$y, $x`), the right side of an assignment.

import (
	"encoding/json"
	"fmt"
	"go/ast"
	"go/token"
	"os"
	"strings"

	"verif/harness/internal/filt"
	"verif/harness/internal/hutil"
)

const subpatPrelude = `package subpat

import "sync"

var mu, other sync.Mutex
var gi int
var gs string
var gb bool
var gsl []int
var gch chan int

func use(args ...interface{}) {}
func hold(x interface{})       {}
func pr(a, b int) (int, int)   { return a, b }

`

// bodies: statement lists; every one becomes the body of a function, of a nested block, of a case clause, of a comm clause and
// of a function literal passed to hold()
var subpatBodies = []string{
	"gi++; mu.Lock(); mu.Unlock(); gi--",
	"mu.Lock(); gi++; mu.Unlock()",
	"mu.Lock(); other.Unlock()",
	"mu.Unlock(); mu.Lock()",
	"mu.Lock(); if gb { mu.Unlock() }",
	"other.Lock(); other.Unlock()",
	"(&mu).Lock(); mu.Unlock()",
	"mu.Lock(); mu.Unlock()",
	"gi = 1; gi = 2",
	"gi = 2; gi = 1",
	"gi = 1; gs = \"a\"; gi = 2",
	"gs = \"b\"; gi = 1; gi = 2; gs = \"c\"",
	"gi++; gi++; gi++",
	"gi++; gi++",
	"gi--; gi++",
	"gi++; gs = \"\"; gi--",
	"use(gi, gs)",
	"use(1, gi, gs, 2)",
	"use(gs, gi)",
	"use(gi, 1, gs)",
	"use(gi); use(gs)",
	"_ = []interface{}{gi, gs}",
	"_ = []interface{}{0: gi, 1: gs}",
	"gi, gs = 1, \"a\"",
	"use([]int{1, 2, 3})",
	"use([]int{1, 2}, 3)",
	"use(1, 2, 3, 4)",
	"for range gsl { gi++ }",
	"for _, v := range gsl { _ = v }",
	"for i := range gs { _ = i }",
	"for i := 0; i < len(gsl); i++ { gi-- }",
	"_ = gsl[:]",
	"_ = gsl[1:]",
	"_ = map[string]int{}",
	"var m map[string]int; _ = m",
	"go use()",
	"go use(gi)",
	"defer use()",
	"var loc = gi; _ = loc",
	"loc := gi; _ = loc",
	"use(func() { gi++ })",
	"use(func(a int) { gi = a })",
	"select { case v := <-gch: _ = v; gi = 1; gi = 2 }",
	"",
}

// with results: the operands of a return
var subpatReturns = []string{
	"return gi, gs",
	"return gi, \"\"",
	"if gb { return gi, gs }; return 0, gs",
	"return 0, \"\"",
}

func spNorm(s string) string { return strings.Join(strings.Fields(s), "") }

type spEnv struct{ t *hutil.Target }

func (e *spEnv) text(n ast.Node) string { return spNorm(filt.Text(e.t, n)) }

// stmtLists: the statement lists gogrep's statement-run patterns are matched in
func stmtLists(root ast.Node) [][]ast.Stmt {
	var out [][]ast.Stmt
	ast.Inspect(root, func(n ast.Node) bool {
		switch v := n.(type) {
		case *ast.BlockStmt:
			out = append(out, v.List)
		case *ast.CaseClause:
			out = append(out, v.Body)
		case *ast.CommClause:
			out = append(out, v.Body)
		}
		return true
	})
	return out
}

type exprList struct {
	list     []ast.Expr
	searched bool // gogrep looks for expression runs here (call arguments, literal elements, return operands)
}

func exprLists(root ast.Node) []exprList {
	var out []exprList
	ast.Inspect(root, func(n ast.Node) bool {
		switch v := n.(type) {
		case *ast.CallExpr:
			out = append(out, exprList{v.Args, true})
		case *ast.CompositeLit:
			out = append(out, exprList{v.Elts, true})
		case *ast.ReturnStmt:
			out = append(out, exprList{v.Results, true})
		case *ast.AssignStmt:
			out = append(out, exprList{v.Lhs, false}, exprList{v.Rhs, false})
		case *ast.ValueSpec:
			out = append(out, exprList{v.Values, false})
		case *ast.CaseClause:
			out = append(out, exprList{v.List, false})
		case *ast.IndexListExpr:
			out = append(out, exprList{v.Indices, false})
		}
		return true
	})
	return out
}

// stmtRun: some statement list under root has consecutive statements with these texts
func (e *spEnv) stmtRun(root ast.Node, texts ...string) bool {
	for _, l := range stmtLists(root) {
		for i := 0; i+len(texts) <= len(l); i++ {
			ok := true
			for k, want := range texts {
				if e.text(l[i+k]) != spNorm(want) {
					ok = false
					break
				}
			}
			if ok {
				return true
			}
		}
	}
	return false
}

// exprRun: yes when a searched list has the run; either when only a list gogrep does not search has it (an assignment side,
// a value list, a case list: whether "a, b" is to be found there is not written down anywhere)
func (e *spEnv) exprRun(root ast.Node, texts ...string) tri {
	r := no
	for _, l := range exprLists(root) {
		for i := 0; i+len(texts) <= len(l.list); i++ {
			ok := true
			for k, want := range texts {
				if e.text(l.list[i+k]) != spNorm(want) {
					ok = false
					break
				}
			}
			if ok {
				if l.searched {
					return yes
				}
				r = either
			}
		}
	}
	return r
}

func (e *spEnv) any(root ast.Node, f func(n ast.Node) bool) tri {
	found := false
	ast.Inspect(root, func(n ast.Node) bool {
		if n != nil && !found && f(n) {
			found = true
		}
		return !found
	})
	return b2t(found)
}

// selCall: x is `recv.name()` without arguments; returns the receiver
func selCall(x ast.Node, name string) (ast.Expr, bool) {
	if es, ok := x.(*ast.ExprStmt); ok {
		x = es.X
	}
	c, ok := x.(*ast.CallExpr)
	if !ok || len(c.Args) != 0 || c.Ellipsis != token.NoPos {
		return nil, false
	}
	s, ok := c.Fun.(*ast.SelectorExpr)
	if !ok || s.Sel.Name != name {
		return nil, false
	}
	return s.X, true
}

type subPattern struct {
	pat  string
	root string // the kind of the pattern's root, for the coverage record
	has  func(e *spEnv, root ast.Node) tri
}

func subPatterns() []subPattern {
	return []subPattern{
		{"$mu.Lock(); $mu.Unlock()", "statement run", func(e *spEnv, root ast.Node) tri {
			for _, l := range stmtLists(root) {
				for i := 0; i+1 < len(l); i++ {
					a, ok1 := selCall(l[i], "Lock")
					b, ok2 := selCall(l[i+1], "Unlock")
					if ok1 && ok2 && e.text(a) == e.text(b) {
						return yes
					}
				}
			}
			return no
		}},
		{"gi = 1; gi = 2", "statement run", func(e *spEnv, root ast.Node) tri { return b2t(e.stmtRun(root, "gi = 1", "gi = 2")) }},
		{"gi++; gi++; gi++", "statement run", func(e *spEnv, root ast.Node) tri { return b2t(e.stmtRun(root, "gi++", "gi++", "gi++")) }},
		{"gi++; $*_; gi--", "statement run", func(e *spEnv, root ast.Node) tri {
			for _, l := range stmtLists(root) {
				for i := range l {
					for j := i + 1; j < len(l); j++ {
						if e.text(l[i]) == "gi++" && e.text(l[j]) == "gi--" {
							return yes
						}
					}
				}
			}
			return no
		}},
		{"gi, gs", "expression run", func(e *spEnv, root ast.Node) tri { return e.exprRun(root, "gi", "gs") }},
		{"gs, gi", "expression run", func(e *spEnv, root ast.Node) tri { return e.exprRun(root, "gs", "gi") }},
		{"1, 2, 3", "expression run", func(e *spEnv, root ast.Node) tri { return e.exprRun(root, "1", "2", "3") }},
		{"range gsl", "range clause", func(e *spEnv, root ast.Node) tri {
			return e.any(root, func(n ast.Node) bool { r, ok := n.(*ast.RangeStmt); return ok && e.text(r.X) == "gsl" })
		}},
		{"for $_, $_ := range gsl", "range header", func(e *spEnv, root ast.Node) tri {
			return e.any(root, func(n ast.Node) bool {
				r, ok := n.(*ast.RangeStmt)
				return ok && e.text(r.X) == "gsl" && r.Key != nil && r.Value != nil && r.Tok == token.DEFINE
			})
		}},
		{"$_.Unlock()", "expression", func(e *spEnv, root ast.Node) tri {
			return e.any(root, func(n ast.Node) bool {
				if _, isStmt := n.(ast.Stmt); isStmt {
					return false
				}
				_, ok := selCall(n, "Unlock")
				return ok
			})
		}},
		{"[]int{$*_}", "expression", func(e *spEnv, root ast.Node) tri {
			return e.any(root, func(n ast.Node) bool {
				c, ok := n.(*ast.CompositeLit)
				return ok && c.Type != nil && e.text(c.Type) == "[]int"
			})
		}},
		{"func() { $*_ }", "expression", func(e *spEnv, root ast.Node) tri {
			return e.any(root, func(n ast.Node) bool {
				f, ok := n.(*ast.FuncLit)
				return ok && len(f.Type.Params.List) == 0 && f.Type.Results == nil
			})
		}},
		{"$_[:]", "expression", func(e *spEnv, root ast.Node) tri {
			return e.any(root, func(n ast.Node) bool {
				s, ok := n.(*ast.SliceExpr)
				return ok && s.Low == nil && s.High == nil && s.Max == nil
			})
		}},
		{"map[string]int", "type expression", func(e *spEnv, root ast.Node) tri {
			return e.any(root, func(n ast.Node) bool { m, ok := n.(*ast.MapType); return ok && e.text(m) == "map[string]int" })
		}},
		{"gi++", "statement", func(e *spEnv, root ast.Node) tri {
			return e.any(root, func(n ast.Node) bool { s, ok := n.(*ast.IncDecStmt); return ok && e.text(s) == "gi++" })
		}},
		{"return gi, gs", "statement", func(e *spEnv, root ast.Node) tri {
			return e.any(root, func(n ast.Node) bool { s, ok := n.(*ast.ReturnStmt); return ok && e.text(s) == "returngi,gs" })
		}},
		{"go $_()", "statement", func(e *spEnv, root ast.Node) tri {
			return e.any(root, func(n ast.Node) bool { s, ok := n.(*ast.GoStmt); return ok && len(s.Call.Args) == 0 })
		}},
		{"var $_ = gi", "declaration", func(e *spEnv, root ast.Node) tri {
			return e.any(root, func(n ast.Node) bool {
				d, ok := n.(*ast.GenDecl)
				if !ok || d.Tok != token.VAR || len(d.Specs) != 1 {
					return false
				}
				vs := d.Specs[0].(*ast.ValueSpec)
				return len(vs.Names) == 1 && vs.Type == nil && len(vs.Values) == 1 && e.text(vs.Values[0]) == "gi"
			})
		}},
	}
}

func subpatRules(tmp string, enc *json.Encoder) []*ruleOut {
	var sb strings.Builder
	sb.WriteString(subpatPrelude)
	for i, b := range subpatBodies {
		body := strings.ReplaceAll(b, "; ", "\n\t")
		in2 := strings.ReplaceAll(b, "; ", "\n\t\t")
		fmt.Fprintf(&sb, "func c%d() {\n\t%s\n}\n\n", i, body)
		fmt.Fprintf(&sb, "func n%d() {\n\tfor {\n\t\t%s\n\t}\n}\n\n", i, in2)
		fmt.Fprintf(&sb, "func s%d() {\n\tswitch gi {\n\tcase 1:\n\t\t%s\n\t}\n}\n\n", i, in2)
		fmt.Fprintf(&sb, "func m%d() {\n\tselect {\n\tdefault:\n\t\t%s\n\t}\n}\n\n", i, in2)
		fmt.Fprintf(&sb, "func h%d() {\n\thold(func() {\n\t\t%s\n\t})\n}\n\n", i, in2)
		fmt.Fprintf(&sb, "func i%d() {\n\tif gb {\n\t\t%s\n\t}\n}\n\n", i, in2)
	}
	for i, b := range subpatReturns {
		fmt.Fprintf(&sb, "func r%d() (int, string) {\n\t%s\n}\n\n", i, strings.ReplaceAll(b, "; ", "\n\t"))
		fmt.Fprintf(&sb, "func hr%d() {\n\thold(func() (int, string) {\n\t\t%s\n\t})\n}\n\n", i, strings.ReplaceAll(b, "; ", "\n\t\t"))
	}
	// sub-patterns that mention the captures of the rule's own pattern
	sb.WriteString(`func swaps() {
	var p [2]int
	a, b := 1, 2
	p[0], p[1] = pr(p[1], p[0])
	p[0], p[1] = pr(p[0], p[1])
	a, b = pr(b, a)
	a, b = pr(a, b)
	a, b = pr(b, 1)
	a, b = pr(pr(b, a))
	a, b = pr(b+0, a)
	b, a = pr(b, a)
	_, _ = a, b
}
`)
	t, err := hutil.CheckTargetPkg(tmp, "subpat/x.go", []byte(sb.String()), "example.com/subpat")
	if err != nil {
		fmt.Fprintln(os.Stderr, "subpat target:", err)
		os.Exit(3)
	}
	e := &spEnv{t: t}
	fam := &family{kind: "subpat", t: t}
	roots := map[string]int{}
	decided := map[string][2]int{}
	type capt struct{ pat, at string }
	for _, sp := range subPatterns() {
		sp := sp
		roots[sp.root]++
		for _, c := range []capt{{"func $f($*_) $*_ { $*_ }", "$$"}, {"hold($x)", "x"}, {"if gb { $*_ }", "$$"}} {
			c := c
			raw := func(s *famSite) tri {
				n := s.outer()
				if n == nil {
					return either
				}
				return sp.has(e, n)
			}
			fact := func(s *famSite) tri {
				r := raw(s)
				d := decided[sp.pat]
				if r == yes {
					d[0]++
				} else if r == no {
					d[1]++
				}
				decided[sp.pat] = d
				return r
			}
			where := filt.Call("Contains", c.at, filt.Str(sp.pat))
			fam.rules = append(fam.rules, &famRule{name: "Contains:" + sp.pat, ctor: "makeVarContainsFilter", mode: "node", pat: c.pat, at: c.at, where: where, fact: fact})
			fam.rules = append(fam.rules, &famRule{name: "!Contains:" + sp.pat, ctor: "", mode: "node", pat: c.pat, at: c.at, where: filt.Not(where),
				fact: func(s *famSite) tri {
					switch raw(s) {
					case yes:
						return no
					case no:
						return yes
					}
					return either
				}})
		}
	}
	// `$x, $y = $rhs` with Contains("$y, $x") on the right side: the run is made of the texts captured on the left
	var assigns []*ast.AssignStmt
	ast.Inspect(t.File, func(n ast.Node) bool {
		if as, ok := n.(*ast.AssignStmt); ok {
			assigns = append(assigns, as)
		}
		return true
	})
	for _, v := range []struct{ sub, first, second string }{{"$y, $x", "y", "x"}, {"$x, $y", "x", "y"}, {"$x; $y", "", ""}} {
		v := v
		if v.first == "" {
			continue
		}
		roots["expression run over captured variables"]++
		where := filt.Call("Contains", "rhs", filt.Str(v.sub))
		fam.rules = append(fam.rules, &famRule{name: "Contains:" + v.sub, ctor: "makeVarContainsFilter", mode: "node", pat: "$x, $y = $rhs", at: "rhs", where: where,
			fact: func(s *famSite) tri {
				for _, as := range assigns {
					if len(as.Lhs) == 2 && len(as.Rhs) == 1 && t.Fset.Position(as.Rhs[0].Pos()).Offset == s.from && t.Fset.Position(as.Rhs[0].End()).Offset == s.to {
						caps := map[string]string{"x": filt.Text(t, as.Lhs[0]), "y": filt.Text(t, as.Lhs[1])}
						return e.exprRun(as.Rhs[0], caps[v.first], caps[v.second])
					}
				}
				return either
			}})
	}
	out := fam.run()
	dec := map[string][2]int{}
	for k, d := range decided {
		dec[k] = d
	}
	enc.Encode(map[string]interface{}{"k": "subpat-cov", "root_kinds": roots, "sites_yes_no": dec})
	return out
}
