// c02: observations for "Where() predicates mean what go/types says".
//
// A generated, type-checked target package holds a catalogue of probe sites
//
//	pJ(e)            one captured expression              pattern pJ($x)      / pJ($*xs)
//	pJ(a, b, ...)    list captures of length 0, 2, 3      pattern pJ($*xs)    / pJ($x, $y)
//	if qJ() { s }    a captured statement                 pattern if qJ() { $x }
//	... rJ() ...     the whole match in a sink context    pattern rJ()        ($$ predicates)
//
// for W probe functions; every predicate instance (predicate x argument) becomes up to three rules (single, list,
// statement), W rules per engine. For every (rule, site) the harness prints the engine's verdict and the FACT the dsl
// documentation names, computed here directly with go/types / go/ast / regexp on the target (never through ruleguard).
package main

import (
	"encoding/json"
	"flag"
	"fmt"
	"go/ast"
	"go/constant"
	"go/importer"
	"go/parser"
	"go/token"
	"go/types"
	"os"
	"path/filepath"
	"reflect"
	"regexp"
	"strconv"
	"strings"

	"verif/harness/internal/filt"
	"verif/harness/internal/hutil"

	"github.com/quasilyte/go-ruleguard/ruleguard"
)

const W = 64

// ---------------------------------------------------------------- target

const decls = `package target

import (
	"fmt"
	"os"
	"strings"
	"unsafe"
)

type S struct {
	a int
	b string
}
type SP struct {
	p *int
	s S
}
type S2 struct {
	a int
	b string
}
type Flat struct {
	a int8
	b [3]uint16
	c struct{ x, y float32 }
}
type Arr [4]int32
type ArrP [2]*int
type MyInt int
type MyStr string
type MyF float64
type MyU8 uint8
type MySl []int
type AInt = int
type APtr = *int
type ASt = S
type ASl = []int
type Iface interface{ M() }
type Impl struct{}

func (Impl) M() {}

type PImpl struct{}

func (*PImpl) M() {}

type Str struct{}

func (Str) String() string { return "" }

type PStr struct{}

func (*PStr) String() string { return "" }

type BadStr struct{}

func (BadStr) String() int { return 0 }

type Err struct{}

func (*Err) Error() string { return "" }

// fields of func type named like interface methods are not methods
type Hook struct{ Error func() string }
type HookE struct{ Hook }
type HookS struct{ String func() string }
type HookM struct{ M func() }
type HookW struct {
	Write func(p []byte) (n int, err error)
}
type Wr struct{}

func (*Wr) Write(p []byte) (int, error) { return 0, nil }
type ErrE struct{ *Err }
type IfaceE interface {
	Iface
	error
}

type G[T any] struct{ v T }
type Num interface{ ~int | ~float64 }

var gi int
var gs string
var gp *int
var gpp **int
var gsl []int
var gbs []byte
var gm map[string]int
var gm2 map[int]string
var gch chan int
var gf func(int) string
var ge error
var gif interface{}
var gI Iface
var gimpl Impl
var gpimpl *PImpl
var gstr Str
var gpstr *PStr
var gbad BadStr
var gerr *Err
var ghook Hook
var ghooke HookE
var ghooks HookS
var ghookm HookM
var ghookw HookW
var gwr Wr
var gerre ErrE
var gIE IfaceE
var gS S
var gSP SP
var gflat Flat
var garr Arr
var garrp ArrP
var gG G[int]
var gGs G[string]
var gu8 uint8
var gu uint
var gu64 uint64
var gi8 int8
var gi64 int64
var gr rune
var gby byte
var gf32 float32
var gf64 float64
var gc64 complex64
var gc128 complex128
var gb bool
var gup unsafe.Pointer
var guptr uintptr
var gAI AInt
var gAP APtr
var gAS ASt
var gASl ASl
var gmi MyInt
var gms MyStr
var gmf MyF
var gmu MyU8
var gmsl MySl
var gfn = fn

const ci = 5
const cs = "k"
const cf = 2.5
const cb = true
const cr = 'x'
const cti int8 = 3
const big = 1 << 40

func fn(a int, vs ...string) (int, error) { return a, nil }
func f1() int                            { return gi }
func takeI(int)                          {}
func takeI64(int64)                      {}
func takeAny(interface{})                {}
func takeV(string, ...int)               {}
func takeMy(MyInt)                       {}
func take2(string, int)                  {}
func take2i(int, string)                 {}
func takeIr(a int) int                   { return a }
func idT[T any](v T) T                   { return v }

type FnT func(int) string

var gF FnT

func takeG(a, b string, n int, e interface{})      {}
func takeGV(a, b int, e interface{}, vs ...int)    {}
func (S2) methG(a, b string, n int)                {}

type SG struct {
	a, b string
	n, m int
	e    interface{}
}

var gS2 S2

var _ = fmt.Sprint
var _ = os.Stdout
var _ = strings.ToUpper
`

type siteSpec struct {
	cat  string // expr multi stmt sink dead
	args []string
	stmt string // stmt: the statement; sink: a statement containing %s for the probe call; dead: idem
	sink string // sink: expected sink type as a Go type string ("" = none)
	par  string // sink: go/ast type name of the parent of the match
	fn   string // "" = the generic variadic function `sites`, "other" = a plain function
}

var exprs = []string{
	// literals and constants
	"1", "\"s\"", "2.5", "'c'", "true", "1i", "nil", "ci", "cs", "cf", "cb", "cr", "cti", "big", "ci + 1", "cs + \"x\"", "-ci", "1 << 3",
	"len(\"abc\")", "len(garr)", "unsafe.Sizeof(gi)", "MyInt(3)", "int8(1)", "float32(1)", "uint64(1 << 63)", "string(cr)",
	// variables of every type class
	"gi", "gs", "gp", "gpp", "gsl", "gbs", "gm", "gch", "gf", "ge", "gif", "gI", "gimpl", "gpimpl", "gstr", "gpstr", "gbad", "gerr", "gS", "gSP",
	"gflat", "garr", "garrp", "gG", "gGs", "gu8", "gu", "gu64", "gi8", "gi64", "gr", "gby", "gf32", "gf64", "gc64", "gc128", "gb", "gup", "guptr",
	"gAI", "gAP", "gAS", "gASl", "gmi", "gms", "gmf", "gmu", "gmsl", "gfn",
	// method sets: func-typed fields named like methods (also promoted / behind a pointer), promoted methods, embedded interfaces
	"ghook", "&ghook", "ghooke", "&ghooke", "ghooks", "&ghooks", "ghookm", "ghookw", "&ghookw", "gwr", "&gwr", "gerre", "&gerre", "gIE", "struct{ Error func() string }{}", "&struct{ String func() string }{}",
	// locals, parameters, type parameters
	"loc", "lp", "prm", "vs", "t", "u", "n", "&t", "lt", "[2]LT{}", "&lt",
	// selectors, qualified identifiers
	"gS.a", "gSP.s.b", "gSP.p", "(gS).b", "strings.ToUpper", "os.Stdout", "os.Args", "gimpl.M", "Impl.M", "gG.v", "fmt.Sprint",
	// calls, conversions, builtins
	"f1()", "fn(1)", "len(gsl)", "cap(gsl)", "string(gu8)", "string(gbs)", "[]byte(\"x\")", "[]byte(gs)", "[]byte(cs)", "MyInt(gi)", "(*int)(nil)",
	"float64(gi)", "strings.ToUpper(gs)", "gf(1)", "append(gsl, 1)", "make([]int, 2)", "new(int)", "Iface(gimpl)", "MyStr(gs)",
	// composite literals
	"S{}", "S{1, \"a\"}", "S{a: 1}", "S{a: gi}", "[]int{1, 2}", "[]int{}", "[]int{gi}", "[]int{1, gi}", "[2]int{1, 2}", "[]string{cs, \"b\"}", "[]byte{'f', 'o'}",
	"map[string]int{\"a\": 1}", "&S{}", "[]S{{1, \"a\"}}", "G[int]{}", "struct{}{}", "[]interface{}{1}", "Arr{}", "[][]int{{1}}",
	// operators
	"&gi", "*gp", "-gi", "!gb", "<-gch", "gi + 1", "gi + gi", "gs + \"x\"", "gi == 1", "gi < 2 && gb", "gi + f1()", "^gu",
	"gsl[0]", "gm[\"a\"]", "garr[1]", "gs[0]", "gsl[1:]", "gs[1:2]", "garr[:]", "(gi)", "((gsl))", "gif.(int)", "gI.(Impl)",
	"func() {}", "func(a int) int { return a }", "func() int { return f1() }", "*gpp", "**gpp", "gp == nil", "&gS.a", "&gsl[0]", "(*gp)",
	"gSP.s", "[]*int{gp}", "[3]*S{}", "struct{ p *int }{}", "struct{ a int; f float64 }{}", "[0]int{}", "(chan<- int)(gch)", "(func())(nil)",
}

var multis = [][]string{
	{},
	{"1", "2"},
	{"gi", "gi"},
	{"gi", "gs"},
	{"gs", "\"x\""},
	{"1", "ci", "big"},
	{"gi", "1", "gi"},
	{"gsl", "gASl"},
	{"gAI", "gi"},
	{"gp", "gAP"},
	{"gS", "gAS"},
	{"gmi", "gi"},
	{"gG", "gGs"},
	{"gG", "gG"},
	{"gimpl", "gstr", "gerr"},
	{"gstr", "gpstr"},
	{"[]int{1}", "[]byte(\"a\")", "[]string{\"q\"}"},
	{"gi", "gS.a", "loc"},
	{"f1()", "gi"},
	{"gi", "<-gch"},
	{"t", "t"},
	{"t", "u"},
	{"&gi", "gsl[0]", "*gp"},
	{"gu8", "gu", "gu64"},
	{"gi8", "gi64", "gr"},
	{"1", "2.5"},
	{"gf32", "gf64", "cf"},
	{"ge", "gerr"},
	{"gflat", "garr", "gi8"},
	{"gs", "gp", "gflat"},
	// pairs whose two elements differ in (almost) every fact, in both orders
	{"gs", "gi"}, {"1", "gi"}, {"gi", "1"}, {"f1()", "1"}, {"gsl", "gi"}, {"gp", "gs"}, {"gS", "gp"}, {"gi8", "gsl"}, {"gI", "gi"}, {"gstr", "gi"},
	{"gf64", "gs"}, {"gu8", "gf64"}, {"cs", "gi"}, {"gi", "cs"}, {"[]int{1}", "gsl"}, {"gsl", "[]int{1}"}, {"[]byte(\"a\")", "gi"}, {"&gi", "gi"},
	{"gi", "&gi"}, {"vs", "prm"}, {"prm", "vs"}, {"strings.ToUpper", "gi"}, {"gi", "strings.ToUpper"}, {"nil", "gi"}, {"gi", "nil"}, {"S{}", "gi"},
	{"gmi", "gms"}, {"gAI", "gs"}, {"func() {}", "gi"}, {"gi", "func() {}"}, {"gsl[0]", "f1()"}, {"t", "gi"}, {"gi", "t"},
	// x contains / does not contain y (Contains("$y") searches x for the expression captured as y)
	{"gi + f1()", "gi"}, {"gsl[gi]", "gi"}, {"S{a: gi}", "gi"}, {"gs + \"x\"", "gi"}, {"f1()", "gi"}, {"strings.ToUpper(gs)", "gs"}, {"gS.a", "gS"},
	{"gm[\"a\"]", "\"a\""}, {"[]int{1, gi}", "1"}, {"(gi)", "gi"}, {"gi + 1", "gi + 1"}, {"-gi", "gi"}, {"gi", "-gi"}, {"gi + 1", "1 + gi"},
	{"takeIr(gi + 1)", "gi + 1"}, {"gsl[1:]", "gsl"}, {"func() int { return gi }", "gi"}, {"gi", "gi + 1"}, {"gSP.s.b", "gSP.s"}, {"gSP.s.b", "gS"},
	// longer lists: the deciding element first / in the middle / last
	{"gi", "gi", "gs"}, {"gs", "gi", "gi"}, {"gi", "gs", "gi"}, {"1", "2", "gi"}, {"gi", "1", "2"}, {"gsl", "gsl", "gi"}, {"f1()", "gi", "gi"}, {"gi", "gi", "f1()"},
	{"&gi", "gi", "gi"}, {"gi", "gi", "&gi"}, {"[]int{1}", "[]int{2}", "gsl"}, {"gsl", "[]int{1}", "[]int{2}"}, {"gp", "gp", "gi"}, {"gi", "gp", "gp"},
	{"gstr", "gstr", "gi"}, {"gi", "gstr", "gstr"}, {"ge", "ge", "gi"}, {"gi", "ge", "ge"}, {"vs", "vs", "prm"}, {"prm", "vs", "vs"},
	{"ge", "ghook"}, {"ghook", "ge"}, {"gerr", "ghooke", "ge"}, {"gstr", "ghooks"}, {"gimpl", "ghookm"},
	{"ge", "gi", "ge"}, {"gi", "gsl", "gi"}, {"1", "gi", "2"}, {"[]int{1}", "gsl", "[]int{2}"}, {"gi", "f1()", "gi"}, {"gstr", "gi", "gstr"}, {"gi", "&gi", "gi"},
}

var stmts = []string{
	"f1()", "gi = 1", "gi++", "return 0, nil", "var _ int", "go f1()", "defer f1()", "gch <- 1", "for {}", "if gb {}", "{}", "gi, gs = 1, \"a\"",
	"_ = 0", // placeholder, not emitted
}

type sinkCtx struct {
	stmt, sink, par string
}

// contexts for the whole-match predicates; %s is the probe call rJ() of type int
var sinks = []sinkCtx{
	{"var _ int = %s", "int", "ValueSpec"},
	{"var _ interface{} = %s", "interface{}", "ValueSpec"},
	{"var _ MyInt = MyInt(%s)", "MyInt", "CallExpr"},
	{"var _ = int64(%s)", "int64", "CallExpr"},
	{"gi = %s", "int", "AssignStmt"},
	{"gi, gs = %s, \"a\"", "int", "AssignStmt"},
	{"gif = %s", "interface{}", "AssignStmt"},
	{"_ = gm2[%s]", "int", "IndexExpr"},
	{"_ = S2{%s, \"b\"}", "int", "CompositeLit"},
	{"_ = S2{a: %s}", "int", "KeyValueExpr"},
	{"_ = S2{b: \"q\", a: (%s)}", "int", "ParenExpr"},
	{"_ = []int{%s}", "int", "CompositeLit"},
	{"_ = [...]int64{int64(%s)}", "int64", "CallExpr"},
	{"_ = []interface{}{%s}", "interface{}", "CompositeLit"},
	{"_ = map[int]string{%s: \"a\"}", "int", "KeyValueExpr"},
	{"_ = map[string]int{\"a\": %s}", "int", "KeyValueExpr"},
	{"_ = map[string]interface{}{\"a\": %s}", "interface{}", "KeyValueExpr"},
	{"takeI(%s)", "int", "CallExpr"},
	{"takeAny(%s)", "interface{}", "CallExpr"},
	{"takeV(\"a\", %s)", "int", "CallExpr"},
	{"takeV(\"a\", 1, %s)", "int", "CallExpr"},
	{"takeMy(MyInt(%s))", "MyInt", "CallExpr"},
	{"takeI((%s))", "int", "ParenExpr"},
	{"_ = %s + 1", "", "BinaryExpr"},
	{"if %s > 0 {}", "", "BinaryExpr"},
	{"%s", "", "ExprStmt"},
	{"_ = -%s", "", "UnaryExpr"},
	{"_ = gsl[%s]", "", "IndexExpr"},
	{"gch <- %s", "", "SendStmt"},
	{"_ = []S2{{%s, \"x\"}}", "int", "CompositeLit"},
	{"_ = [2]S2{{a: %s}}", "int", "KeyValueExpr"},
	{"_ = &S2{%s, \"y\"}", "int", "CompositeLit"},
	{"_ = G[int]{%s}", "int", "CompositeLit"},
	{"_ = struct{ q interface{} }{%s}", "interface{}", "CompositeLit"},
	// the position of the match among its siblings decides
	{"gs, gi = \"a\", %s", "int", "AssignStmt"},
	{"take2(\"a\", %s)", "int", "CallExpr"},
	{"take2i(%s, \"a\")", "int", "CallExpr"},
	{"var _, _ int64 = 1, int64(%s)", "int64", "CallExpr"},
	{"_ = S2{b: \"q\", a: %s}", "int", "KeyValueExpr"},
	{"_ = []int{2: %s}", "int", "KeyValueExpr"},
	{"_ = map[string]S2{\"k\": {a: %s}}", "int", "KeyValueExpr"},
	{"_ = map[string]S2{\"k\": {%s, \"b\"}}", "int", "CompositeLit"},
	{"takeV(\"a\", []int{%s}...)", "int", "CompositeLit"},
	// callees that are not plain declared functions
	{"_ = gf(%s)", "int", "CallExpr"},
	{"_ = idT[int](%s)", "int", "CallExpr"},
	{"_ = idT(%s)", "int", "CallExpr"},
	{"_ = append(gsl, %s)", "int", "CallExpr"},
	{"_ = func(a string, b int) int { return b }(\"a\", %s)", "int", "CallExpr"},
	// assignments through an element
	{"gm2[%s] = \"v\"", "int", "IndexExpr"},
	{"gm[\"k\"] = %s", "int", "AssignStmt"},
	{"gsl[0] = %s", "int", "AssignStmt"},
	{"gS.a = %s", "int", "AssignStmt"},
	{"*gp = %s", "int", "AssignStmt"},
	// no sink
	{"gi += %s", "", "AssignStmt"},
	{"{\n\t\tv := %s\n\t\t_ = v\n\t}", "", "AssignStmt"},
	{"switch gi {\n\tcase %s:\n\t}", "", "CaseClause"},
	{"_ = gSP.s.a + %s", "", "BinaryExpr"},
	{"for range [1]int{} {\n\t\t_ = gi < %s\n\t}", "", "BinaryExpr"},
	// parentheses, elided element types, named function types
	{"gi = (%s)", "int", "ParenExpr"},
	{"_ = []*S2{{%s, \"x\"}}", "int", "CompositeLit"},
	{"_ = gF(%s)", "int", "CallExpr"},
	// declared names written in groups (`a, b string, n int`): parameters, struct fields and variables are numbered one by one,
	// not per group
	{"takeG(\"a\", \"b\", %s, nil)", "int", "CallExpr"},
	{"takeG(\"a\", \"b\", 1, %s)", "interface{}", "CallExpr"},
	{"takeGV(1, %s, nil)", "int", "CallExpr"},
	{"takeGV(1, 2, nil, %s)", "int", "CallExpr"},
	{"takeGV(1, 2, %s)", "interface{}", "CallExpr"},
	{"func(a, b string, c, d int, e interface{}) {}(\"\", \"\", 0, %s, nil)", "int", "CallExpr"},
	{"func(a, b string, c, d int, e interface{}) {}(\"\", \"\", 0, 0, %s)", "interface{}", "CallExpr"},
	{"gS2.methG(\"\", \"\", %s)", "int", "CallExpr"},
	{"S2.methG(gS2, \"\", \"\", %s)", "int", "CallExpr"},
	{"_ = SG{\"\", \"\", 0, %s, nil}", "int", "CompositeLit"},
	{"_ = SG{\"\", \"\", 0, 0, %s}", "interface{}", "CompositeLit"},
	{"_ = SG{m: %s}", "int", "KeyValueExpr"},
	{"_ = SG{e: %s}", "interface{}", "KeyValueExpr"},
	{"_ = struct {\n\t\ta, b string\n\t\tn    int\n\t}{\"\", \"\", %s}", "int", "CompositeLit"},
	{"var _, _, _ interface{} = nil, %s, nil", "interface{}", "ValueSpec"},
	{"gs, gs, gi, gif = \"\", \"\", %s, nil", "int", "AssignStmt"},
	{"gs, gs, gi, gif = \"\", \"\", 0, %s", "interface{}", "AssignStmt"},
}

func probeNames(prefix string, ret string) string {
	var sb strings.Builder
	for j := 0; j < W; j++ {
		switch prefix {
		case "p":
			fmt.Fprintf(&sb, "func p%d(args ...interface{}) {}\n", j)
		case "q":
			fmt.Fprintf(&sb, "func q%d() bool { return gb }\n", j)
		case "r":
			fmt.Fprintf(&sb, "func r%d() int { return gi }\n", j)
		}
	}
	return sb.String()
}

// targetSource renders the package; siteOrder lists the sites in the order their probe calls appear per J.
func targetSource() string {
	var sb strings.Builder
	sb.WriteString(decls)
	sb.WriteString(probeNames("p", ""))
	sb.WriteString(probeNames("q", ""))
	sb.WriteString(probeNames("r", ""))
	row := func(format func(j int) string) {
		for j := 0; j < W; j++ {
			if j%8 == 0 {
				sb.WriteString("\n\t")
			} else {
				sb.WriteString("; ")
			}
			sb.WriteString(format(j))
		}
		sb.WriteString("\n")
	}
	sb.WriteString("\nfunc sites[T any, U ~int64, N Num](t T, u U, n N, prm int, vs ...string) (int, error) {\n\tloc := 5\n\tlp := &loc\n\t_, _ = loc, lp\n\ttype LT struct{ a int64 }\n\tvar lt LT\n")
	for _, e := range exprs {
		e := e
		row(func(j int) string { return fmt.Sprintf("p%d(%s)", j, e) })
	}
	for _, m := range multis {
		m := m
		row(func(j int) string { return fmt.Sprintf("p%d(%s)", j, strings.Join(m, ", ")) })
	}
	for _, s := range stmts[:len(stmts)-1] {
		s := s
		for j := 0; j < W; j++ {
			fmt.Fprintf(&sb, "\tif q%d() {\n\t\t%s\n\t}\n", j, s)
		}
	}
	for _, c := range sinks {
		c := c
		for j := 0; j < W; j++ {
			fmt.Fprintf(&sb, "\t"+c.stmt+"\n", fmt.Sprintf("r%d()", j))
		}
	}
	// return statements: sink = result type
	for j := 0; j < W; j++ {
		fmt.Fprintf(&sb, "\tif gb {\n\t\treturn r%d(), nil\n\t}\n", j)
	}
	// dead code
	row(func(j int) string { return fmt.Sprintf("if false { p%d(gi) }", j) })
	row(func(j int) string { return fmt.Sprintf("if true { p%d(gi) } else { p%d(gs) }", j, j) })
	sb.WriteString("\treturn 0, nil\n}\n\n")
	// a plain, non-variadic function and a func literal returning a value
	sb.WriteString("func other(a int, b []string) int {\n")
	row(func(j int) string { return fmt.Sprintf("p%d(b)", j) })
	row(func(j int) string { return fmt.Sprintf("p%d(a)", j) })
	// distinct types that print alike (types.Type.String()) and differ in every fact: equally named types local to two
	// functions (the one of `sites` first, then a larger one with pointers, then the small one again), a local type that
	// shadows a package-level one, arrays and pointers of them
	sb.WriteString("\ttype LT struct {\n\t\tp *int\n\t\tq string\n\t}\n\ttype S []int\n\tvar lt LT\n\tvar ls S\n")
	for _, ex := range []string{"lt", "[2]LT{}", "&lt", "ls", "S{}"} {
		ex := ex
		row(func(j int) string { return fmt.Sprintf("p%d(%s)", j, ex) })
	}
	sb.WriteString("\tfl := func() int64 {\n")
	for j := 0; j < W; j++ {
		fmt.Fprintf(&sb, "\t\tif gb {\n\t\t\treturn int64(r%d())\n\t\t}\n", j)
	}
	sb.WriteString("\t\treturn 0\n\t}\n\t_ = fl\n")
	for j := 0; j < W; j++ {
		fmt.Fprintf(&sb, "\tif gb {\n\t\treturn (r%d())\n\t}\n", j)
	}
	sb.WriteString("\treturn 0\n}\n")
	// the match is the second result
	sb.WriteString("func second() (string, int) {\n\ttype LT struct{ a int64 }\n\tvar lt LT\n")
	for _, ex := range []string{"lt", "[2]LT{}", "&lt", "gS"} {
		ex := ex
		row(func(j int) string { return fmt.Sprintf("p%d(%s)", j, ex) })
	}
	for j := 0; j < W; j++ {
		fmt.Fprintf(&sb, "\tif gb {\n\t\treturn \"a\", r%d()\n\t}\n", j)
	}
	sb.WriteString("\treturn \"\", 0\n}\n")
	// result lists written in every way, functions of every kind (returns.go)
	sb.WriteString(retShellSource())
	return sb.String()
}

// ---------------------------------------------------------------- facts

type tri int

const (
	no tri = iota
	yes
	either
)

func b2t(b bool) tri {
	if b {
		return yes
	}
	return no
}

type env struct {
	t        *hutil.Target
	sizes    types.Sizes
	stringer *types.Interface
	errIface *types.Interface
	parents  map[ast.Node]ast.Node
	funcOf   map[ast.Node]*ast.FuncDecl
	variadic map[types.Object]bool // see variadicParams (defs.go)
}

func (e *env) typeOf(x ast.Expr) types.Type {
	if x == nil {
		return types.Typ[types.Invalid]
	}
	if t := e.t.Info.TypeOf(x); t != nil {
		return t
	}
	return types.Typ[types.Invalid]
}

// sliceText: the source text from the first to the last element (what nodeText yields for a non-empty slice node)
func (e *env) sliceText(l []ast.Expr) string {
	if len(l) == 0 {
		return ""
	}
	return string(e.t.Src[e.t.Fset.Position(l[0].Pos()).Offset:e.t.Fset.Position(l[len(l)-1].End()).Offset])
}

func (e *env) eval(s string) types.Type {
	tv, err := types.Eval(e.t.Fset, e.t.Pkg, token.NoPos, s)
	if err != nil {
		panic(fmt.Sprintf("oracle cannot evaluate type %q: %v", s, err))
	}
	return tv.Type
}

// denotes: does the type pattern p (closed, or one of the variable shapes used here) denote typ
func (e *env) denotes(p string, typ types.Type) bool {
	if typ == nil || typ == types.Typ[types.Invalid] {
		if p == "$t" {
			panic("whether a bare pattern variable matches the invalid type is typematch's business") // -> either
		}
		return false
	}
	u := types.Unalias(typ)
	switch p {
	case "$t":
		return true
	case "[]$t":
		_, ok := u.(*types.Slice)
		return ok
	case "*$t":
		_, ok := u.(*types.Pointer)
		return ok
	case "map[$k]$v":
		_, ok := u.(*types.Map)
		return ok
	case "[$_]$t":
		_, ok := u.(*types.Array)
		return ok
	case "func($*_) $_":
		s, ok := u.(*types.Signature)
		return ok && s.Results().Len() == 1
	case "chan $t":
		c, ok := u.(*types.Chan)
		return ok && c.Dir() == types.SendRecv
	case "struct{$*_}":
		_, ok := u.(*types.Struct)
		return ok
	}
	return types.Identical(typ, e.eval(p))
}

func (e *env) ptrClass(typ types.Type) tri {
	switch t := types.Unalias(typ).(type) {
	case *types.Basic:
		switch t.Kind() {
		case types.String, types.UnsafePointer, types.UntypedString, types.UntypedNil:
			return yes
		case types.Invalid:
			return either
		}
		return no
	case *types.Pointer, *types.Slice, *types.Map, *types.Chan, *types.Signature, *types.Interface:
		return yes
	case *types.Named:
		if t.TypeArgs() != nil || t.TypeParams() != nil {
			r := e.ptrClass(t.Underlying())
			if r == no {
				return either // generic named types: precision is not promised
			}
			return r
		}
		return e.ptrClass(t.Underlying())
	case *types.Struct:
		r := no
		for i := 0; i < t.NumFields(); i++ {
			switch e.ptrClass(t.Field(i).Type()) {
			case yes:
				return yes
			case either:
				r = either
			}
		}
		return r
	case *types.Array:
		r := e.ptrClass(t.Elem())
		if t.Len() == 0 && r == yes {
			return either
		}
		return r
	}
	return either
}

var kindDoc = map[string]func(b *types.Basic) bool{
	"integer":  func(b *types.Basic) bool { return b.Info()&types.IsInteger != 0 },
	"unsigned": func(b *types.Basic) bool { return b.Info()&types.IsUnsigned != 0 },
	"float":    func(b *types.Basic) bool { return b.Info()&types.IsFloat != 0 },
	"complex":  func(b *types.Basic) bool { return b.Info()&types.IsComplex != 0 },
	"untyped":  func(b *types.Basic) bool { return b.Info()&types.IsUntyped != 0 },
	"numeric":  func(b *types.Basic) bool { return b.Info()&types.IsNumeric != 0 },
	"signed":   func(b *types.Basic) bool { return b.Info()&types.IsInteger != 0 && b.Info()&types.IsUnsigned == 0 },
	"int": func(b *types.Basic) bool {
		switch b.Kind() {
		case types.Int, types.Int8, types.Int16, types.Int32, types.Int64:
			return true
		}
		return false
	},
	"uint": func(b *types.Basic) bool {
		switch b.Kind() {
		case types.Uint, types.Uint8, types.Uint16, types.Uint32, types.Uint64:
			return true
		}
		return false
	},
}

func ofKind(k string, typ types.Type) bool {
	b, ok := types.Unalias(typ).(*types.Basic)
	return ok && kindDoc[k](b)
}

func (e *env) hasMethod(typ types.Type, name string, sig *types.Signature) bool {
	for _, t := range []types.Type{typ, types.NewPointer(typ)} {
		ms := types.NewMethodSet(t)
		for i := 0; i < ms.Len(); i++ {
			f, ok := ms.At(i).Obj().(*types.Func)
			if ok && f.Name() == name && types.Identical(f.Type(), sig) {
				return true
			}
		}
	}
	return false
}

func unparen(x ast.Expr) ast.Expr {
	for {
		p, ok := x.(*ast.ParenExpr)
		if !ok {
			return x
		}
		x = p.X
	}
}

func (e *env) objectOf(x ast.Expr) types.Object {
	switch v := unparen(x).(type) {
	case *ast.Ident:
		return e.t.Info.ObjectOf(v)
	case *ast.SelectorExpr:
		return e.t.Info.ObjectOf(v.Sel)
	}
	return nil
}

// pure: the documented whitelist reading -- yes/no inside the shapes the whitelist speaks about, either outside
func (e *env) pure(x ast.Expr) tri {
	impure := false
	outside := false
	ast.Inspect(x, func(n ast.Node) bool {
		switch v := n.(type) {
		case *ast.CallExpr:
			if tv, ok := e.t.Info.Types[v.Fun]; !ok || !tv.IsType() {
				impure = true
			}
		case *ast.UnaryExpr:
			if v.Op == token.ARROW {
				impure = true
			}
		case *ast.FuncLit:
			return false // a function literal is a value; its body is not evaluated
		case *ast.SliceExpr, *ast.TypeAssertExpr, *ast.KeyValueExpr, *ast.ArrayType, *ast.MapType, *ast.ChanType, *ast.FuncType, *ast.StructType, *ast.InterfaceType, *ast.IndexListExpr, *ast.Ellipsis:
			outside = true
		}
		return true
	})
	if impure {
		return no
	}
	if outside {
		return either
	}
	return yes
}

func (e *env) constSlice(x ast.Expr) tri {
	switch v := x.(type) {
	case *ast.CallExpr:
		if len(v.Args) != 1 {
			return no
		}
		tv, ok := e.t.Info.Types[v.Fun]
		if !ok || !tv.IsType() {
			return no
		}
		sl, ok := tv.Type.(*types.Slice)
		if !ok {
			return no
		}
		b, ok := sl.Elem().(*types.Basic)
		if !ok || b.Kind() != types.Uint8 {
			return no
		}
		if lit, ok := v.Args[0].(*ast.BasicLit); ok && lit.Kind == token.STRING {
			return yes
		}
		if e.t.Info.Types[v.Args[0]].Value != nil {
			return either // []byte(namedConst): constant content, but not the documented literal form
		}
		return no
	case *ast.CompositeLit:
		_, isSlice := e.typeOf(v).Underlying().(*types.Slice)
		all := true
		for _, el := range v.Elts {
			if kv, ok := el.(*ast.KeyValueExpr); ok {
				el = kv.Value
				if e.t.Info.Types[kv.Value].Value == nil {
					all = false
				}
				continue
			}
			if e.t.Info.Types[el].Value == nil {
				all = false
			}
		}
		if !all {
			return no
		}
		if !isSlice {
			return either // documented for slice literals; arrays/structs of constants are outside the text
		}
		for _, el := range v.Elts {
			if _, ok := el.(*ast.KeyValueExpr); ok {
				return either
			}
		}
		return yes
	}
	return no
}

func nodeTypeName(n ast.Node) string {
	return strings.TrimPrefix(reflect.TypeOf(n).String(), "*ast.")
}

func nodeIs(n ast.Node, tag string) bool {
	switch tag {
	case "Expr":
		_, ok := n.(ast.Expr)
		return ok
	case "Stmt":
		_, ok := n.(ast.Stmt)
		return ok
	case "Node":
		return true
	}
	return nodeTypeName(n) == tag
}

func contains(x ast.Node, what string) bool {
	found := false
	ast.Inspect(x, func(n ast.Node) bool {
		switch what {
		case "gi":
			if id, ok := n.(*ast.Ident); ok && id.Name == "gi" {
				found = true
			}
		case "len($_)":
			if c, ok := n.(*ast.CallExpr); ok && len(c.Args) == 1 {
				if id, ok := c.Fun.(*ast.Ident); ok && id.Name == "len" {
					found = true
				}
			}
		}
		return true
	})
	return found
}

// sameExpr: two expressions are the same syntax (compared on their gofmt-independent token text)
func (e *env) sameExpr(a, b ast.Expr) bool {
	if reflect.TypeOf(a) != reflect.TypeOf(b) {
		return false
	}
	norm := func(x ast.Expr) string { return strings.Join(strings.Fields(filt.Text(e.t, x)), "") }
	return norm(a) == norm(b)
}

// containsExpr: does x have a sub-expression (x itself included) that is the same syntax as y
func (e *env) containsExpr(x, y ast.Expr) bool {
	found := false
	ast.Inspect(x, func(n ast.Node) bool {
		if ex, ok := n.(ast.Expr); ok && e.sameExpr(ex, y) {
			found = true
		}
		return !found
	})
	return found
}

// ---------------------------------------------------------------- predicate instances

type pred struct {
	name      string                          // stable key
	ctor      string                          // constructor in filters.go that ir_loader builds for it
	mk        func(v string) *filt.DExpr      // DSL expression on variable v
	fact      func(e *env, x ast.Expr) tri    // documented fact for one captured expression
	nilRes    bool                            // what the closure answers when it gets no expression (nil / invalid type)
	kinds     string                          // which rule kinds: s(ingle) l(ist) t(statement) p(air) r(oot) f(ile-level, single)
	factP     func(e *env, x, y ast.Expr) tri // pair predicates
	factR     func(e *env, s *sinkSite) tri   // root predicates
	gover     string                          // GoVersion predicates: comparison token
	ver       string
	mode      string                         // typed | expr | node : what the closure looks at
	nilT      func(e *env) tri               // typed: the fact about the invalid type (what the closure sees when there is no expression)
	onStmt    func(e *env, s ast.Stmt) tri   // node: the fact about a captured statement
	onList    func(e *env, l []ast.Expr) tri // node: the closure's answer for a `$*xs` slice node (faithful, for the known finding)
	refusable bool                           // see ruleOut.Refusable
}

type sinkSite struct {
	call *ast.CallExpr
	ctx  *sinkCtx // nil for the return sites
	sink string
	par  string
	// retStmt: the return contexts of returns.go: the statement (the function around it is in the model input)
	retStmt string
}

func typePred(name, ctor string, mk func(v string) *filt.DExpr, f func(e *env, t types.Type) tri) pred {
	return pred{name: name, ctor: ctor, mk: mk, kinds: "slt", mode: "typed", fact: func(e *env, x ast.Expr) tri { return f(e, e.typeOf(x)) },
		nilT: func(e *env) tri { return f(e, types.Typ[types.Invalid]) }}
}

func preds(e0 *env) []pred {
	var ps []pred
	add := func(p pred) { ps = append(ps, p) }
	for _, p := range []string{"int", "string", "*int", "[]int", "map[string]int", "error", "interface{}", "func(int) string", "[4]int32", "chan int",
		"$t", "[]$t", "*$t", "map[$k]$v", "S", "MyInt", "*S", "[]byte", "float64", "uint8", "rune", "unsafe.Pointer", "struct{}"} {
		p := p
		if !strings.Contains(p, "S") && !strings.Contains(p, "MyInt") && p != "unsafe.Pointer" {
			add(typePred("Type.Is:"+p, "makeTypeIsFilter", func(v string) *filt.DExpr { return filt.Call("Type.Is", v, filt.Str(p)) },
				func(e *env, t types.Type) tri { return b2t(e.denotes(p, t)) }))
			add(typePred("Type.Underlying.Is:"+p, "makeTypeIsFilter/underlying", func(v string) *filt.DExpr { return filt.Call("Type.Underlying.Is", v, filt.Str(p)) },
				func(e *env, t types.Type) tri {
					if _, ok := t.(*types.TypeParam); ok && p == "interface{}" {
						return either // whether a constraint interface "is" interface{} is typematch's business (C10)
					}
					return b2t(e.denotes(p, t.Underlying()))
				}))
		}
	}
	for _, p := range []string{"int", "string", "interface{}", "[]byte", "error", "*int", "float64", "map[string]int", "[4]int32", "uint8", "[]int", "uintptr", "complex128"} {
		p := p
		add(typePred("Type.AssignableTo:"+p, "makeTypeAssignableToFilter", func(v string) *filt.DExpr { return filt.Call("Type.AssignableTo", v, filt.Str(p)) },
			func(e *env, t types.Type) tri { return b2t(types.AssignableTo(t, e.eval(p))) }))
		add(typePred("Type.ConvertibleTo:"+p, "makeTypeConvertibleToFilter", func(v string) *filt.DExpr { return filt.Call("Type.ConvertibleTo", v, filt.Str(p)) },
			func(e *env, t types.Type) tri { return b2t(types.ConvertibleTo(t, e.eval(p))) }))
	}
	add(typePred("Type.Implements:error", "makeTypeImplementsFilter", func(v string) *filt.DExpr { return filt.Call("Type.Implements", v, filt.Str("error")) },
		func(e *env, t types.Type) tri { return b2t(types.Implements(t, e.errIface)) }))
	add(typePred("Type.Implements:fmt.Stringer", "makeTypeImplementsFilter", func(v string) *filt.DExpr { return filt.Call("Type.Implements", v, filt.Str("fmt.Stringer")) },
		func(e *env, t types.Type) tri { return b2t(types.Implements(t, e.stringer)) }))
	strSig := types.NewSignatureType(nil, nil, nil, nil, types.NewTuple(types.NewVar(token.NoPos, nil, "", types.Typ[types.String])), false)
	hm := typePred("Type.HasMethod:fmt.Stringer.String", "makeTypeHasMethodFilter", func(v string) *filt.DExpr { return filt.Call("Type.HasMethod", v, filt.Str("fmt.Stringer.String")) },
		func(e *env, t types.Type) tri { return b2t(e.hasMethod(t, "String", strSig)) })
	add(hm)
	wrSig := types.NewSignatureType(nil, nil, nil, types.NewTuple(types.NewVar(token.NoPos, nil, "p", types.NewSlice(types.Typ[types.Byte]))),
		types.NewTuple(types.NewVar(token.NoPos, nil, "n", types.Typ[types.Int]), types.NewVar(token.NoPos, nil, "err", types.Universe.Lookup("error").Type())), false)
	add(typePred("Type.HasMethod:io.Writer.Write", "makeTypeHasMethodFilter", func(v string) *filt.DExpr { return filt.Call("Type.HasMethod", v, filt.Str("io.Writer.Write")) },
		func(e *env, t types.Type) tri { return b2t(e.hasMethod(t, "Write", wrSig)) }))
	hp := typePred("Type.HasPointers", "makeTypeHasPointersFilter", func(v string) *filt.DExpr { return filt.Call("Type.HasPointers", v) },
		func(e *env, t types.Type) tri { return e.ptrClass(t) })
	hp.nilT = func(e *env) tri { return no } // the invalid type is a basic type that is not in the pointer-kind list (model: has_pointers (SBasic "Invalid"))
	add(hp)
	for k := range kindDoc {
		k := k
		add(typePred("Type.OfKind:"+k, "makeTypeOfKindFilter", func(v string) *filt.DExpr { return filt.Call("Type.OfKind", v, filt.Str(k)) },
			func(e *env, t types.Type) tri { return b2t(ofKind(k, t)) }))
		add(typePred("Type.Underlying.OfKind:"+k, "makeTypeOfKindFilter", func(v string) *filt.DExpr { return filt.Call("Type.Underlying.OfKind", v, filt.Str(k)) },
			func(e *env, t types.Type) tri { return b2t(ofKind(k, t.Underlying())) }))
	}
	for _, c := range []struct {
		tok string
		z   int64
	}{{"EQL", 8}, {"LSS", 8}, {"GEQ", 16}, {"NEQ", 0}, {"GTR", 24}, {"LEQ", 1}} {
		c := c
		add(pred{name: fmt.Sprintf("Type.Size:%s:%d", c.tok, c.z), ctor: "makeTypeSizeConstFilter", kinds: "slt", mode: "typed",
			nilT: func(e *env) tri { return b2t(cmpInt(c.tok, e.sizes.Sizeof(types.Typ[types.Invalid]), c.z)) },
			mk:   func(v string) *filt.DExpr { return filt.Bin(c.tok, filt.Sel("Type.Size", v), filt.Int(c.z)) },
			fact: func(e *env, x ast.Expr) tri {
				t := e.typeOf(x)
				if _, ok := t.(*types.TypeParam); ok {
					return no
				}
				if b, ok := t.(*types.Basic); ok && b.Info()&types.IsUntyped != 0 {
					return either // no size is defined for an untyped type; see C07 for the crash
				}
				if tp, ok := t.(*types.Tuple); ok && tp != nil {
					return either
				}
				return b2t(cmpInt(c.tok, e.sizes.Sizeof(t), c.z))
			}})
	}
	// the constant written on the left: `c op x` means `x mirror(op) c`; the loader refuses the ordering operators today
	mirror := map[string]string{"EQL": "EQL", "NEQ": "NEQ", "LSS": "GTR", "GTR": "LSS", "LEQ": "GEQ", "GEQ": "LEQ"}
	for _, c := range []struct {
		tok string
		z   int64
	}{{"EQL", 8}, {"NEQ", 8}, {"LSS", 8}, {"LEQ", 8}, {"GTR", 8}, {"GEQ", 16}} {
		c := c
		add(pred{name: fmt.Sprintf("Type.Size:const-left:%d:%s", c.z, c.tok), ctor: "makeTypeSizeConstFilter", kinds: "s", mode: "typed", refusable: c.tok != "EQL" && c.tok != "NEQ",
			nilT: func(e *env) tri { return b2t(cmpInt(mirror[c.tok], e.sizes.Sizeof(types.Typ[types.Invalid]), c.z)) },
			mk:   func(v string) *filt.DExpr { return filt.Bin(c.tok, filt.Int(c.z), filt.Sel("Type.Size", v)) },
			fact: func(e *env, x ast.Expr) tri {
				t := e.typeOf(x)
				if _, ok := t.(*types.TypeParam); ok {
					return no
				}
				if b, ok := t.(*types.Basic); ok && b.Info()&types.IsUntyped != 0 {
					return either
				}
				if tp, ok := t.(*types.Tuple); ok && tp != nil {
					return either
				}
				return b2t(cmpInt(mirror[c.tok], e.sizes.Sizeof(t), c.z))
			}})
		add(pred{name: fmt.Sprintf("Value.Int:const-left:%d:%s", c.z-3, c.tok), ctor: "makeValueIntConstFilter", kinds: "s", refusable: c.tok != "EQL" && c.tok != "NEQ",
			mk: func(v string) *filt.DExpr { return filt.Bin(c.tok, filt.Int(c.z-3), filt.Call("Value.Int", v)) },
			fact: func(e *env, x ast.Expr) tri {
				v := e.t.Info.Types[x].Value
				if v == nil || v.Kind() != constant.Int {
					return no
				}
				z, ok := constant.Int64Val(v)
				if !ok {
					return either
				}
				return b2t(cmpInt(mirror[c.tok], z, c.z-3))
			}})
		add(pred{name: "Text:const-left:gi:" + c.tok, ctor: "makeTextConstFilter", kinds: "s", mode: "node", refusable: c.tok != "EQL" && c.tok != "NEQ",
			mk:   func(v string) *filt.DExpr { return filt.Bin(c.tok, filt.Str("gi"), filt.Sel("Text", v)) },
			fact: func(e *env, x ast.Expr) tri { return b2t(cmpStr(mirror[c.tok], filt.Text(e.t, x), "gi")) }})
		add(pred{name: "Line:const-left:1500:" + c.tok, ctor: "makeLineConstFilter", kinds: "s", mode: "node", refusable: c.tok != "EQL" && c.tok != "NEQ",
			mk: func(v string) *filt.DExpr { return filt.Bin(c.tok, filt.Int(1500), filt.Sel("Line", v)) },
			fact: func(e *env, x ast.Expr) tri {
				return b2t(cmpInt(mirror[c.tok], int64(e.t.Fset.Position(x.Pos()).Line), 1500))
			}})
		add(pred{name: "Line:1500:" + c.tok, ctor: "makeLineConstFilter", kinds: "st", mode: "node",
			mk:     func(v string) *filt.DExpr { return filt.Bin(c.tok, filt.Sel("Line", v), filt.Int(1500)) },
			fact:   func(e *env, x ast.Expr) tri { return b2t(cmpInt(c.tok, int64(e.t.Fset.Position(x.Pos()).Line), 1500)) },
			onStmt: func(e *env, s ast.Stmt) tri { return b2t(cmpInt(c.tok, int64(e.t.Fset.Position(s.Pos()).Line), 1500)) }})
	}
	add(typePred("Comparable", "makeComparableFilter", func(v string) *filt.DExpr { return filt.Sel("Comparable", v) },
		func(e *env, t types.Type) tri { return b2t(types.Comparable(t)) }))
	add(pred{name: "Addressable", ctor: "makeAddressableFilter", kinds: "slt", mk: func(v string) *filt.DExpr { return filt.Sel("Addressable", v) },
		fact: func(e *env, x ast.Expr) tri { tv, ok := e.t.Info.Types[x]; return b2t(ok && tv.Addressable()) }})
	add(pred{name: "Const", ctor: "makeConstFilter", kinds: "slt", mk: func(v string) *filt.DExpr { return filt.Sel("Const", v) },
		fact: func(e *env, x ast.Expr) tri { return b2t(e.t.Info.Types[x].Value != nil) }})
	add(pred{name: "ConstSlice", ctor: "makeConstSliceFilter", kinds: "slt", mk: func(v string) *filt.DExpr { return filt.Sel("ConstSlice", v) },
		fact: func(e *env, x ast.Expr) tri { return e.constSlice(x) }})
	add(pred{name: "Pure", ctor: "makePureFilter", kinds: "slt", mk: func(v string) *filt.DExpr { return filt.Sel("Pure", v) },
		fact: func(e *env, x ast.Expr) tri { return e.pure(x) }})
	for _, c := range []struct {
		tok string
		z   int64
	}{{"EQL", 5}, {"LSS", 6}, {"GEQ", 120}, {"NEQ", 1}} {
		c := c
		add(pred{name: fmt.Sprintf("Value.Int:%s:%d", c.tok, c.z), ctor: "makeValueIntConstFilter", kinds: "slt",
			mk: func(v string) *filt.DExpr { return filt.Bin(c.tok, filt.Call("Value.Int", v), filt.Int(c.z)) },
			fact: func(e *env, x ast.Expr) tri {
				v := e.t.Info.Types[x].Value
				if v == nil || v.Kind() != constant.Int {
					return no
				}
				return b2t(constant.Compare(v, map[string]token.Token{"EQL": token.EQL, "LSS": token.LSS, "GEQ": token.GEQ, "NEQ": token.NEQ}[c.tok], constant.MakeInt64(c.z)))
			}})
	}
	for _, k := range []string{"Func", "Var", "Const", "TypeName", "Label", "PkgName", "Builtin", "Nil"} {
		k := k
		add(pred{name: "Object.Is:" + k, ctor: "makeObjectIsFilter", kinds: "slt", mk: func(v string) *filt.DExpr { return filt.Call("Object.Is", v, filt.Str(k)) },
			fact: func(e *env, x ast.Expr) tri {
				o := e.objectOf(x)
				return b2t(o != nil && strings.TrimPrefix(reflect.TypeOf(o).String(), "*types.") == k)
			}})
	}
	add(pred{name: "Object.IsGlobal", ctor: "makeObjectIsGlobalFilter", kinds: "slt", mk: func(v string) *filt.DExpr { return filt.Call("Object.IsGlobal", v) },
		fact: func(e *env, x ast.Expr) tri {
			o := e.objectOf(x)
			return b2t(o != nil && o.Parent() == e.t.Pkg.Scope())
		}})
	add(pred{name: "Object.IsVariadicParam", ctor: "makeObjectIsVariadicParamFilter", kinds: "slt", mk: func(v string) *filt.DExpr { return filt.Call("Object.IsVariadicParam", v) },
		fact: func(e *env, x ast.Expr) tri {
			o := e.objectOf(x)
			if e.variadic == nil {
				e.variadic = variadicParams(e.t)
			}
			return b2t(o != nil && e.variadic[o])
		}})
	for _, tag := range []string{"Ident", "BasicLit", "CallExpr", "Expr", "Stmt", "Node", "CompositeLit", "SelectorExpr", "BinaryExpr", "UnaryExpr", "StarExpr", "FuncLit",
		"IndexExpr", "ParenExpr", "ExprStmt", "AssignStmt", "SliceExpr", "TypeAssertExpr", "ReturnStmt", "IfStmt", "BlockStmt", "DeclStmt", "GoStmt"} {
		tag := tag
		add(pred{name: "Node.Is:" + tag, ctor: "makeNodeIsFilter", kinds: "slt", mode: "node", mk: func(v string) *filt.DExpr { return filt.Call("Node.Is", v, filt.Str(tag)) },
			fact:   func(e *env, x ast.Expr) tri { return b2t(nodeIs(x, tag)) },
			onStmt: func(e *env, s ast.Stmt) tri { return b2t(nodeIs(s, tag)) },
			onList: func(e *env, l []ast.Expr) tri { return b2t(tag == "Node") }})
	}
	for _, re := range []string{"^g", "^[0-9]+$", "\\(.*\\)$", "gi", "^$", "(?i)^GI$", "^.{1,3}$"} {
		re := re
		rx := regexp.MustCompile(re)
		add(pred{name: "Text.Matches:" + re, ctor: "makeTextMatchesFilter", kinds: "slt", mode: "node", mk: func(v string) *filt.DExpr { return filt.Call("Text.Matches", v, filt.Str(re)) },
			fact:   func(e *env, x ast.Expr) tri { return b2t(rx.MatchString(filt.Text(e.t, x))) },
			onStmt: func(e *env, s ast.Stmt) tri { return b2t(rx.MatchString(filt.Text(e.t, s))) },
			onList: func(e *env, l []ast.Expr) tri { return b2t(rx.MatchString(e.sliceText(l))) }})
	}
	for _, c := range []struct{ tok, s string }{{"EQL", "gi"}, {"NEQ", "gi"}, {"LSS", "gi"}, {"GEQ", "gs"}} {
		c := c
		add(pred{name: "Text:" + c.tok + ":" + c.s, ctor: "makeTextConstFilter", kinds: "slt", mode: "node",
			mk:     func(v string) *filt.DExpr { return filt.Bin(c.tok, filt.Sel("Text", v), filt.Str(c.s)) },
			fact:   func(e *env, x ast.Expr) tri { return b2t(cmpStr(c.tok, filt.Text(e.t, x), c.s)) },
			onStmt: func(e *env, s ast.Stmt) tri { return b2t(cmpStr(c.tok, filt.Text(e.t, s), c.s)) },
			onList: func(e *env, l []ast.Expr) tri { return b2t(cmpStr(c.tok, e.sliceText(l), c.s)) }})
	}
	for _, pat := range []string{"gi", "len($_)"} {
		pat := pat
		add(pred{name: "Contains:" + pat, ctor: "makeVarContainsFilter", kinds: "slt", mode: "node", mk: func(v string) *filt.DExpr { return filt.Call("Contains", v, filt.Str(pat)) },
			fact:   func(e *env, x ast.Expr) tri { return b2t(contains(x, pat)) },
			onStmt: func(e *env, s ast.Stmt) tri { return b2t(contains(s, pat)) },
			onList: func(e *env, l []ast.Expr) tri {
				for _, x := range l {
					if contains(x, pat) {
						return yes
					}
				}
				return no
			}})
	}
	// pair
	add(pred{name: "Contains:$y", ctor: "makeVarContainsFilter", kinds: "p", mk: func(v string) *filt.DExpr { return filt.Call("Contains", "x", filt.Str("$y")) },
		factP: func(e *env, x, y ast.Expr) tri { return b2t(e.containsExpr(x, y)) }})
	add(pred{name: "Contains:$y+1", ctor: "makeVarContainsFilter", kinds: "p", mk: func(v string) *filt.DExpr { return filt.Call("Contains", "x", filt.Str("$y + 1")) },
		factP: func(e *env, x, y ast.Expr) tri {
			found := false
			ast.Inspect(x, func(n ast.Node) bool {
				if b, ok := n.(*ast.BinaryExpr); ok && b.Op == token.ADD && e.sameExpr(b.X, y) {
					if l, ok := b.Y.(*ast.BasicLit); ok && l.Value == "1" {
						found = true
					}
				}
				return true
			})
			return b2t(found)
		}})
	add(pred{name: "Type.IdenticalTo", ctor: "makeTypesIdenticalFilter", kinds: "p", mk: func(v string) *filt.DExpr { return filt.Call("Type.IdenticalTo", "x", filt.Index("y")) },
		factP: func(e *env, x, y ast.Expr) tri { return b2t(types.Identical(e.typeOf(x), e.typeOf(y))) }})
	for _, tok := range []string{"EQL", "LSS", "GEQ"} {
		tok := tok
		add(pred{name: "Type.Size:vv:" + tok, ctor: "makeTypeSizeFilter", kinds: "p", mk: func(v string) *filt.DExpr {
			return filt.Bin(tok, filt.Sel("Type.Size", "x"), filt.Sel("Type.Size", "y"))
		},
			factP: func(e *env, x, y ast.Expr) tri {
				tx, ty := e.typeOf(x), e.typeOf(y)
				for _, t := range []types.Type{tx, ty} {
					if _, ok := t.(*types.TypeParam); ok {
						return no
					}
					if b, ok := t.(*types.Basic); ok && b.Info()&types.IsUntyped != 0 {
						return either
					}
				}
				return b2t(cmpInt(tok, e.sizes.Sizeof(tx), e.sizes.Sizeof(ty)))
			}})
	}
	// root ($$)
	for _, tag := range []string{"ValueSpec", "CallExpr", "AssignStmt", "IndexExpr", "CompositeLit", "KeyValueExpr", "ParenExpr", "BinaryExpr", "ExprStmt", "UnaryExpr",
		"SendStmt", "ReturnStmt", "CaseClause", "Expr", "Stmt", "Node"} {
		tag := tag
		add(pred{name: "Node.Parent.Is:" + tag, ctor: "makeRootParentNodeIsFilter", kinds: "r", mk: func(v string) *filt.DExpr { return filt.Call("Node.Parent.Is", "$$", filt.Str(tag)) },
			factR: func(e *env, s *sinkSite) tri { return b2t(nodeIs(e.parents[s.call], tag)) }})
	}
	for _, p := range []string{"int", "int64", "interface{}", "string", "MyInt", "$t", "[]$t"} {
		p := p
		if p == "MyInt" {
			continue // unqualified named types of the target package are C10/C20 territory
		}
		add(pred{name: "SinkType.Is:" + p, ctor: "makeRootSinkTypeIsFilter", kinds: "r", mk: func(v string) *filt.DExpr { return filt.Call("SinkType.Is", "$$", filt.Str(p)) },
			factR: func(e *env, s *sinkSite) tri {
				if s.sink == "" {
					if strings.Contains(p, "$") {
						return either // no sink: whether a pattern variable matches "no type" is not documented
					}
					return no
				}
				return b2t(e.denotes(p, e.eval(s.sink)))
			}})
	}
	// file / run level (observed through single captures)
	for _, p := range []string{"strings", "os", "unsafe", "io", "fmt", "nosuch/pkg", ""} {
		p := p
		if p == "" {
			continue
		}
		add(pred{name: "File.Imports:" + p, ctor: "makeFileImportsFilter", kinds: "f", mk: func(v string) *filt.DExpr { return filt.Call("File.Imports", "", filt.Str(p)) },
			fact: func(e *env, x ast.Expr) tri { return b2t(importsOf(e.t)[p]) }})
	}
	for _, re := range []string{"^target\\.go$", "_test\\.go$", "arget", "^/", "^b_"} {
		re := re
		rx := regexp.MustCompile(re)
		add(pred{name: "File.Name.Matches:" + re, ctor: "makeFileNameMatchesFilter", kinds: "f", mk: func(v string) *filt.DExpr { return filt.Call("File.Name.Matches", "", filt.Str(re)) },
			fact: func(e *env, x ast.Expr) tri { return b2t(rx.MatchString(filepath.Base(e.t.Path))) }})
	}
	for _, re := range []string{"^target$", "^tar", "/", "^$", "pkgb$"} {
		re := re
		rx := regexp.MustCompile(re)
		add(pred{name: "File.PkgPath.Matches:" + re, ctor: "makeFilePkgPathMatchesFilter", kinds: "f", mk: func(v string) *filt.DExpr { return filt.Call("File.PkgPath.Matches", "", filt.Str(re)) },
			fact: func(e *env, x ast.Expr) tri { return b2t(rx.MatchString(e.t.Pkg.Path())) }})
	}
	for _, g := range []struct{ path, tok string }{{"GoVersion.Eq", "EQL"}, {"GoVersion.LessThan", "LSS"}, {"GoVersion.GreaterThan", "GTR"}, {"GoVersion.LessEqThan", "LEQ"}, {"GoVersion.GreaterEqThan", "GEQ"}} {
		for _, ver := range []string{"1.18", "1.9", "2.0", "1.21"} {
			g, ver := g, ver
			add(pred{name: g.path + ":" + ver, ctor: "makeGoVersionFilter", kinds: "f", gover: g.tok, ver: ver,
				mk: func(v string) *filt.DExpr { return filt.Call(g.path, "", filt.Str(ver)) }})
		}
	}
	add(pred{name: "Deadcode", ctor: "makeDeadcodeFilter", kinds: "f", mk: func(v string) *filt.DExpr { return filt.Call("Deadcode", "") }})
	return ps
}

// importsOf: the paths of the packages THIS FILE imports, as go/types resolved them: the PkgName object go/types records for
// every import spec (Info.Defs of its name, Info.Implicits of the spec). Every spec's literal must unquote (strconv.Unquote:
// interpreted and raw string literals, escapes) to that path, and the package must be among the importing package's imports.
func importsOf(t *hutil.Target) map[string]bool {
	ofPkg := map[string]bool{}
	for _, im := range t.Pkg.Imports() {
		ofPkg[im.Path()] = true
	}
	out := map[string]bool{}
	for _, spec := range t.File.Imports {
		var obj types.Object
		if spec.Name != nil {
			obj = t.Info.Defs[spec.Name]
		} else {
			obj = t.Info.Implicits[spec]
		}
		pn, ok := obj.(*types.PkgName)
		p, err := strconv.Unquote(spec.Path.Value)
		if !ok || err != nil || pn.Imported().Path() != p || !ofPkg[p] {
			fmt.Fprintf(os.Stderr, "import spec %s of %s: go/types says %v, the package imports %v\n", spec.Path.Value, t.Path, obj, ofPkg)
			os.Exit(3)
		}
		out[p] = true
	}
	return out
}

// importFiles: one small file per way of spelling import declarations (Go spec: ImportPath = string_lit, interpreted or raw;
// a name, `.` or `_` before it; grouped or not; several declarations). Every file uses what it imports.
var importFiles = []struct{ name, imports, uses string }{
	{"plain", "import \"fmt\"\n", "var _ = fmt.Sprint"},
	{"raw", "import `fmt`\n", "var _ = fmt.Sprint"},
	{"group-raw-and-plain", "import (\n\t`os`\n\t\"strings\"\n)\n", "var _ = os.Exit\nvar _ = strings.ToUpper"},
	{"group-raw-only", "import (\n\t`fmt`\n\t`io`\n)\n", "var _ = fmt.Sprint\nvar _ = io.EOF"},
	{"alias", "import f \"fmt\"\nimport str `strings`\n", "var _ = f.Sprint\nvar _ = str.ToUpper"},
	{"alias-named-like-another-package", "import os \"strings\"\n", "var _ = os.ToUpper"},
	{"dot", "import . \"strings\"\n", "var _ = ToUpper"},
	{"dot-raw", "import . `strings`\n", "var _ = ToUpper"},
	{"blank", "import _ \"os\"\nimport _ `unsafe`\n", ""},
	{"escapes", "import \"\\x66mt\"\nimport (\n\t\"\\u0069o\"\n\t\"st\\162ings\"\n)\n", "var _ = fmt.Sprint\nvar _ = io.EOF\nvar _ = strings.ToUpper"},
	{"two-declarations", "import \"fmt\"\n\nimport (\n\t\"os\"\n)\n", "var _ = fmt.Sprint\nvar _ = os.Exit"},
	{"subpackage-only", "import \"io/fs\"\nimport \"text/template\"\n", "var _ = fs.ValidPath\nvar _ = template.New"},
	{"subpackage-raw", "import `io/fs`\nimport tt `html/template`\n", "var _ = fs.ValidPath\nvar _ = tt.New"},
	{"twice", "import a \"fmt\"\nimport b `fmt`\n", "var _ = a.Sprint\nvar _ = b.Sprint"},
	{"nothing", "", ""},
	{"semicolons", "import (\"fmt\"; `os`)\n", "var _ = fmt.Sprint\nvar _ = os.Exit"},
}

// importPaths: the arguments of File().Imports(): the packages above, near misses (a prefix, a suffix, a last element, an alias
// name) and the path spelled with its quotes
var importPaths = []string{"fmt", "os", "strings", "io", "io/fs", "fs", "unsafe", "text/template", "html/template", "template", "f", "str", "tt",
	"`fmt`", "\"fmt\"", "`os`", "`io/fs`", "\\x66mt", "nosuch/pkg", "fm", "mt"}

// safe: an oracle that cannot answer (go/types panics on exotic operands such as tuples) makes no claim
func safe(f func() tri) (r tri) {
	defer func() {
		if x := recover(); x != nil {
			r = either
		}
	}()
	return f()
}

func cmpInt(tok string, a, b int64) bool {
	switch tok {
	case "EQL":
		return a == b
	case "NEQ":
		return a != b
	case "LSS":
		return a < b
	case "LEQ":
		return a <= b
	case "GTR":
		return a > b
	}
	return a >= b
}

func cmpStr(tok string, a, b string) bool {
	switch tok {
	case "EQL":
		return a == b
	case "NEQ":
		return a != b
	case "LSS":
		return a < b
	case "LEQ":
		return a <= b
	case "GTR":
		return a > b
	}
	return a >= b
}

func verCmp(tok string, a, b [2]int) bool {
	c := 0
	if a[0] != b[0] {
		c = a[0] - b[0]
	} else {
		c = a[1] - b[1]
	}
	switch tok {
	case "EQL":
		return c == 0
	case "LSS":
		return c < 0
	case "LEQ":
		return c <= 0
	case "GTR":
		return c > 0
	}
	return c >= 0
}

func parseVer(s string) [2]int {
	var a, b int
	fmt.Sscanf(s, "%d.%d", &a, &b)
	return [2]int{a, b}
}

// ---------------------------------------------------------------- rules and observations

type obs struct {
	Site    string `json:"site"`            // expression / statement / context text
	Shape   string `json:"shape"`           // one | list | stmt | exprstmt | root
	Facts   []int  `json:"facts"`           // per element: 0 no, 1 yes, 2 either
	Verdict bool   `json:"verdict"`         // engine accepted
	Dead    bool   `json:"dead,omitempty"`  // site inside statically dead code
	GoVer   string `json:"gover,omitempty"` // run's Go version ("" = unset)
	Nil     int    `json:"nil"`             // the fact about "no expression / invalid type" (0 no, 1 yes, 2 either)
	Node    int    `json:"node"`            // node-level predicates: the closure's answer for this non-expression capture; -1 n/a
	// Detached: the verdict on a copy of the file that exists in memory only (nothing is saved at its path); absent for the
	// predicates that read the capture's text where the engine's rendering of the capture is not the source spelling
	Detached *bool `json:"detached,omitempty"`
	// edge family: the capture (file index, from, to) and what go/printer prints for its node
	Ext     []int  `json:"ext,omitempty"`
	Printed string `json:"printed,omitempty"`
}

type ruleOut struct {
	K       string `json:"k"`
	Name    string `json:"name"`
	Kind    string `json:"kind"` // single list stmt pair root file
	Ctor    string `json:"ctor"`
	Src     string `json:"src"`
	Pattern string `json:"pattern"`
	Mode    string `json:"mode"`
	LoadErr string `json:"load_err,omitempty"`
	Panic   string `json:"panic,omitempty"`
	Obs     []obs  `json:"obs"`
	// Refusable: the spelling is one the loader may refuse (an ordering comparison with the constant on the left); if it
	// loads it must mean the mirrored comparison
	Refusable bool `json:"refusable,omitempty"`
	// Const: edge family: the constant the capture's text is compared with
	Const string `json:"const,omitempty"`
	// ElidedNo: located families with large catalogues: the number of sites that are not listed in Obs because the fact does
	// not hold there and the rule does not report them
	ElidedNo int `json:"elided_no,omitempty"`
}

type rule struct {
	p      *pred
	kind   string
	out    *ruleOut
	j      int
	where  *filt.DExpr
	locals string // constant declarations of the group (arguments written as names)
}

func main() {
	tmp := flag.String("tmp", "", "scratch directory")
	only := flag.String("only", "", "restrict to predicates whose name contains this")
	edges := flag.Bool("edges", false, "also run the Text predicates on captures at the edges of files (edges.go)")
	families := flag.String("families", "", "comma-separated located families to run as well: tpat (tpat.go), defs (defs.go), subpat (subpat.go)")
	famOnly := flag.Bool("famonly", false, "run the located families only")
	flag.Parse()
	enc := json.NewEncoder(os.Stdout)
	runFamilies := func() {
		for _, f := range strings.Split(*families, ",") {
			var ros []*ruleOut
			switch f {
			case "tpat":
				ros = tpatRules(*tmp, enc)
			case "defs":
				ros = defsRules(*tmp, enc)
			case "subpat":
				ros = subpatRules(*tmp, enc)
			case "":
			default:
				fmt.Fprintln(os.Stderr, "unknown family", f)
				os.Exit(3)
			}
			for _, ro := range ros {
				enc.Encode(ro)
			}
		}
	}
	if *famOnly {
		runFamilies()
		return
	}
	t, err := hutil.CheckTarget(*tmp, "target/target.go", []byte(targetSource()))
	if err != nil {
		fmt.Fprintln(os.Stderr, err)
		os.Exit(3)
	}
	// the same source under the same file name in a directory where it was never saved (byte offsets coincide)
	tm, err := filt.CheckDetachedTarget(filepath.Join(*tmp, "detached", "target.go"), []byte(targetSource()), nil)
	if err != nil {
		fmt.Fprintln(os.Stderr, err)
		os.Exit(3)
	}
	e := &env{t: t, sizes: types.SizesFor("gc", "amd64"), parents: map[ast.Node]ast.Node{}, funcOf: map[ast.Node]*ast.FuncDecl{}}
	for _, im := range t.Pkg.Imports() {
		if im.Path() == "fmt" {
			e.stringer = im.Scope().Lookup("Stringer").Type().Underlying().(*types.Interface)
		}
	}
	e.errIface = types.Universe.Lookup("error").Type().Underlying().(*types.Interface)
	var stack []ast.Node
	var curFn *ast.FuncDecl
	ast.Inspect(t.File, func(n ast.Node) bool {
		if n == nil {
			if _, ok := stack[len(stack)-1].(*ast.FuncDecl); ok {
				curFn = nil
			}
			stack = stack[:len(stack)-1]
			return true
		}
		if len(stack) > 0 {
			e.parents[n] = stack[len(stack)-1]
		}
		if fd, ok := n.(*ast.FuncDecl); ok {
			curFn = fd
		}
		e.funcOf[n] = curFn
		stack = append(stack, n)
		return true
	})

	// ---- index the probe sites per J: p-calls, q-ifs, r-calls (in source order)
	type psite struct {
		call *ast.CallExpr
		dead bool
	}
	pcalls := map[int][]psite{}
	qifs := map[int][]*ast.IfStmt{}
	rcalls := map[int][]*sinkSite{}
	posToP := map[int][2]int{}
	posToQ := map[int][2]int{}
	posToR := map[int][2]int{}
	probeIdx := func(name string, prefix byte) int {
		if len(name) < 2 || name[0] != prefix {
			return -1
		}
		j := 0
		for _, c := range name[1:] {
			if c < '0' || c > '9' {
				return -1
			}
			j = j*10 + int(c-'0')
		}
		return j
	}
	isDead := func(n ast.Node) bool {
		for p := e.parents[n]; p != nil; p = e.parents[p] {
			if is, ok := p.(*ast.IfStmt); ok {
				if tv := t.Info.Types[is.Cond]; tv.Value != nil {
					cv := constant.BoolVal(tv.Value)
					inBody := n.Pos() >= is.Body.Pos() && n.End() <= is.Body.End()
					if (inBody && !cv) || (!inBody && cv) {
						return true
					}
				}
			}
		}
		return false
	}
	ast.Inspect(t.File, func(n ast.Node) bool {
		switch v := n.(type) {
		case *ast.CallExpr:
			id, ok := v.Fun.(*ast.Ident)
			if !ok {
				return true
			}
			if j := probeIdx(id.Name, 'p'); j >= 0 {
				posToP[t.Fset.Position(v.Pos()).Offset] = [2]int{j, len(pcalls[j])}
				pcalls[j] = append(pcalls[j], psite{v, isDead(v)})
			}
			if j := probeIdx(id.Name, 'r'); j >= 0 {
				posToR[t.Fset.Position(v.Pos()).Offset] = [2]int{j, len(rcalls[j])}
				rcalls[j] = append(rcalls[j], &sinkSite{call: v})
			}
		case *ast.IfStmt:
			if c, ok := v.Cond.(*ast.CallExpr); ok {
				if id, ok := c.Fun.(*ast.Ident); ok {
					if j := probeIdx(id.Name, 'q'); j >= 0 {
						posToQ[t.Fset.Position(v.Pos()).Offset] = [2]int{j, len(qifs[j])}
						qifs[j] = append(qifs[j], v)
					}
				}
			}
		}
		return true
	})
	// expected sink / parent of the r sites: the first len(sinks) follow the table, then the three return forms
	rsites := retSites()
	for j := 0; j < W; j++ {
		if len(rcalls[j]) != len(sinks)+4+len(rsites) {
			fmt.Fprintf(os.Stderr, "r%d has %d sites, expected %d\n", j, len(rcalls[j]), len(sinks)+4+len(rsites))
			os.Exit(3)
		}
		for i, s := range rcalls[j] {
			switch {
			case i < len(sinks):
				s.ctx = &sinks[i]
				s.sink, s.par = sinks[i].sink, sinks[i].par
			case i == len(sinks):
				s.sink, s.par = "int", "ReturnStmt"
			case i == len(sinks)+1:
				s.sink, s.par = "int64", "CallExpr"
			case i == len(sinks)+2:
				s.sink, s.par = "int", "ParenExpr"
			case i == len(sinks)+3:
				s.sink, s.par = "int", "ReturnStmt" // second result of (string, int)
			default:
				rs := rsites[i-len(sinks)-4]
				s.sink, s.par = rs.sink, rs.par
				s.retStmt = rs.stmt
			}
			if i >= len(sinks) {
				e.checkReturnSite(s)
			}
		}
	}

	// where the engine's own rendering of a capture of the in-memory copy (`$x` in a message) is its source spelling
	textSame := map[int]bool{}
	{
		eng, lerr := filt.Load(t.Fset, filt.RulesFile("", []filt.Rule{{Name: "txt", Pattern: "p0($x)", Report: "$x"}}))
		if lerr != nil {
			fmt.Fprintln(os.Stderr, "text probe:", lerr)
			os.Exit(3)
		}
		reports, pmsg := hutil.Run(eng, tm, 0, "", nil)
		if pmsg != "" {
			fmt.Fprintln(os.Stderr, "text probe:", pmsg)
			os.Exit(3)
		}
		for _, rep := range reports {
			if ji, ok := posToP[rep.Pos]; ok && ji[0] == 0 && len(pcalls[0][ji[1]].call.Args) == 1 {
				textSame[ji[1]] = rep.Message == filt.Text(t, pcalls[0][ji[1]].call.Args[0])
			}
		}
	}

	// ---- rules
	all := preds(e)
	var rules []*rule
	for i := range all {
		p := &all[i]
		if *only != "" && !strings.Contains(p.name, *only) {
			continue
		}
		mkRule := func(kind, pattern, v string) {
			d := p.mk(v)
			rules = append(rules, &rule{p: p, kind: kind, where: d,
				out: &ruleOut{K: "rule", Name: p.name, Kind: kind, Ctor: p.ctor, Src: d.Go(), Pattern: pattern, Mode: p.mode, Obs: []obs{}, Refusable: p.refusable}})
		}
		for _, k := range p.kinds {
			switch k {
			case 's':
				mkRule("single", "p%d($x)", "x")
				// the same rule with its arguments written another way (raw / escaped / concatenated strings, hexadecimal / octal /
				// computed numbers, names of group constants): irconv reads the VALUE go/types gives the argument
				if d, locals, changed := filt.Respelled(p.mk("x"), i%4); changed && !p.refusable {
					rules = append(rules, &rule{p: p, kind: "single", where: d, locals: locals,
						out: &ruleOut{K: "rule", Name: p.name + " [arguments written another way]", Kind: "single", Ctor: p.ctor, Src: strings.TrimSpace(strings.ReplaceAll(locals, "\n\t", "; ")) + " " + d.Go(),
							Pattern: "p%d($x)", Mode: p.mode, Obs: []obs{}}})
				}
				// the same predicate in a pattern with two variables, on the first and on the second one
				mkRule("first", "p%d($x, $y)", "x")
				mkRule("second", "p%d($x, $y)", "y")
				// ... and about the whole match: `$$` is the matched call r<J>() (an int-valued call in 66 contexts)
				if !p.refusable {
					mkRule("dollar", "r%d()", "$$")
				}
			case 'l':
				mkRule("list", "p%d($*xs)", "xs")
				// a list capture that does not start at the first argument
				mkRule("tail", "p%d($_, $*xs)", "xs")
			case 't':
				mkRule("stmt", "if q%d() { $x }", "x")
			case 'p':
				mkRule("pair", "p%d($x, $y)", "x")
			case 'r':
				mkRule("root", "r%d()", "$$")
			case 'f':
				mkRule("file", "p%d($x)", "x")
			}
		}
	}

	runBatch := func(batch []*rule, gover string) {
		frules := make([]filt.Rule, len(batch))
		byName := map[string]*rule{}
		for k, r := range batch {
			r.j = k
			name := fmt.Sprintf("g%d", k)
			byName[name] = r
			frules[k] = filt.Rule{Name: name, Pattern: fmt.Sprintf(r.out.Pattern, k), Where: r.where, Locals: r.locals}
		}
		src := filt.RulesFile("", frules)
		eng, lerr := filt.Load(t.Fset, src)
		if lerr != nil {
			if len(batch) == 1 {
				batch[0].out.LoadErr = lerr.Error()
				return
			}
			for _, r := range batch {
				runBatchOne(r, gover)
			}
			return
		}
		reports, pmsg := hutil.Run(eng, t, 0, gover, nil)
		if pmsg != "" {
			if len(batch) == 1 {
				batch[0].out.Panic = pmsg
				return
			}
			for _, r := range batch {
				runBatchOne(r, gover)
			}
			return
		}
		reportsM, pmsgM := hutil.Run(eng, tm, 0, gover, nil)
		if pmsgM != "" {
			if len(batch) == 1 {
				batch[0].out.Panic = "on a copy of the file that exists in memory only: " + pmsgM
				return
			}
			for _, r := range batch {
				runBatchOne(r, gover)
			}
			return
		}
		attribute := func(reports []hutil.Report) map[*rule]map[int]bool {
			acc := map[*rule]map[int]bool{}
			for _, rep := range reports {
				r := byName[rep.Group]
				var ji [2]int
				var ok bool
				switch r.kind {
				case "stmt":
					ji, ok = posToQ[rep.Pos]
				case "root", "dollar":
					ji, ok = posToR[rep.Pos]
				default:
					ji, ok = posToP[rep.Pos]
				}
				if !ok || ji[0] != r.j {
					fmt.Fprintf(os.Stderr, "report cannot be attributed: %+v\n", rep)
					os.Exit(3)
				}
				if acc[r] == nil {
					acc[r] = map[int]bool{}
				}
				acc[r][ji[1]] = true
			}
			return acc
		}
		acc, accM := attribute(reports), attribute(reportsM)
		// detached: the verdict on the in-memory copy, where it has to equal the one on the saved file
		detached := func(r *rule, i int) *bool {
			if strings.HasPrefix(r.p.name, "Text") && !((r.kind == "single" || r.kind == "file") && textSame[i]) {
				return nil
			}
			v := accM[r][i]
			return &v
		}
		for _, r := range batch {
			p := r.p
			switch r.kind {
			case "single", "list", "pair", "file", "first", "second", "tail":
				for i, ps := range pcalls[r.j] {
					args := ps.call.Args
					o := obs{Site: filt.Text(t, ps.call)[strings.Index(filt.Text(t, ps.call), "("):], Verdict: acc[r][i], Dead: ps.dead, GoVer: gover, Facts: []int{}, Node: -1, Detached: detached(r, i)}
					if p.nilT != nil {
						o.Nil = int(safe(func() tri { return p.nilT(e) }))
					}
					if r.kind == "list" && p.onList != nil {
						o.Node = int(safe(func() tri { return p.onList(e, args) }))
					}
					if r.kind == "tail" && p.onList != nil && len(args) >= 1 {
						o.Node = int(safe(func() tri { return p.onList(e, args[1:]) }))
					}
					switch r.kind {
					case "single":
						if len(args) != 1 {
							continue
						}
						o.Shape = "one"
						o.Facts = []int{int(safe(func() tri { return p.fact(e, args[0]) }))}
					case "first", "second":
						if len(args) != 2 {
							continue
						}
						o.Shape = "one"
						a := args[0]
						if r.kind == "second" {
							a = args[1]
						}
						o.Facts = []int{int(safe(func() tri { return p.fact(e, a) }))}
					case "list":
						o.Shape = "list"
						for _, a := range args {
							a := a
							o.Facts = append(o.Facts, int(safe(func() tri { return p.fact(e, a) })))
						}
					case "tail":
						if len(args) < 1 {
							continue
						}
						o.Shape = "list"
						for _, a := range args[1:] {
							a := a
							o.Facts = append(o.Facts, int(safe(func() tri { return p.fact(e, a) })))
						}
					case "pair":
						if len(args) != 2 {
							continue
						}
						o.Shape = "one"
						o.Facts = []int{int(safe(func() tri { return p.factP(e, args[0], args[1]) }))}
					case "file":
						if len(args) != 1 {
							continue
						}
						o.Shape = "one"
						switch {
						case p.gover != "":
							if gover == "" {
								o.Facts = []int{int(yes)}
							} else {
								o.Facts = []int{int(b2t(verCmp(p.gover, parseVer(gover), parseVer(p.ver))))}
							}
						case p.name == "Deadcode":
							o.Facts = []int{int(b2t(ps.dead))}
						default:
							o.Facts = []int{int(p.fact(e, args[0]))}
						}
					}
					r.out.Obs = append(r.out.Obs, o)
				}
			case "stmt":
				for i, is := range qifs[r.j] {
					st := is.Body.List[0]
					o := obs{Site: filt.Text(t, st), Verdict: acc[r][i], GoVer: gover, Facts: []int{}, Node: -1, Detached: detached(r, i)}
					if p.nilT != nil {
						o.Nil = int(safe(func() tri { return p.nilT(e) }))
					}
					if p.onStmt != nil {
						o.Node = int(safe(func() tri { return p.onStmt(e, st) }))
					}
					if es, ok := st.(*ast.ExprStmt); ok {
						o.Shape = "exprstmt"
						o.Facts = []int{int(safe(func() tri { return p.fact(e, es.X) }))}
					} else {
						o.Shape = "stmt"
					}
					r.out.Obs = append(r.out.Obs, o)
				}
			case "dollar":
				for i, s := range rcalls[r.j] {
					s := s
					if s.retStmt != "" {
						continue // the return contexts of returns.go are about the sink; `$$` is the same call everywhere
					}
					ctx := e.returnCtx(s)
					if s.ctx != nil {
						ctx = s.ctx.stmt
					}
					o := obs{Site: "$$ = the call r() in: " + ctx, Shape: "one", Verdict: acc[r][i], GoVer: gover, Node: -1, Detached: detached(r, i),
						Facts: []int{int(safe(func() tri { return p.fact(e, s.call) }))}}
					if p.nilT != nil {
						o.Nil = int(safe(func() tri { return p.nilT(e) }))
					}
					r.out.Obs = append(r.out.Obs, o)
				}
			case "root":
				for i, s := range rcalls[r.j] {
					ctx := e.returnCtx(s)
					if s.ctx != nil {
						ctx = s.ctx.stmt
					}
					o := obs{Site: ctx + " /" + s.par + "/" + s.sink, Shape: "root", Verdict: acc[r][i], GoVer: gover, Facts: []int{int(p.factR(e, s))}, Node: -1, Detached: detached(r, i)}
					r.out.Obs = append(r.out.Obs, o)
				}
			}
		}
	}
	runBatchOne = func(r *rule, gover string) { runBatch([]*rule{r}, gover) }

	var normal, versioned []*rule
	for _, r := range rules {
		if r.p.gover != "" {
			versioned = append(versioned, r)
		} else {
			normal = append(normal, r)
		}
	}
	for i := 0; i < len(normal); i += W {
		end := i + W
		if end > len(normal) {
			end = len(normal)
		}
		runBatch(normal[i:end], "")
	}
	for _, gv := range []string{"", "1.9", "1.18", "1.21", "2.0", "1.0"} {
		for i := 0; i < len(versioned); i += W {
			end := i + W
			if end > len(versioned) {
				end = len(versioned)
			}
			runBatch(versioned[i:end], gv)
		}
	}
	// ---- a run sequence over two files of different packages, with and without a reused RunnerState: what a predicate
	// says about the file (imports, name, package path), about the source text and about the types must follow the file
	// that is being run, not the one before it
	{
		var sb strings.Builder
		sb.WriteString("package pkgb\n\nimport (\n\t\"io\"\n\t\"strings\"\n)\n\nvar gi string\nvar hs int\n\nconst ci = \"five\"\n\nvar _ = io.EOF\nvar _ = strings.ToLower\n\n")
		for j := 0; j < W; j++ {
			fmt.Fprintf(&sb, "func p%d(args ...interface{}) {}\n", j)
		}
		sb.WriteString("\nfunc sitesB() {\n")
		for _, ex := range []string{"gi", "hs", "ci", "gi + \"x\"", "hs + 1", "strings.ToLower(gi)"} {
			for j := 0; j < W; j++ {
				fmt.Fprintf(&sb, "\tp%d(%s)\n", j, ex)
			}
		}
		sb.WriteString("}\n")
		tb, err := hutil.CheckTargetPkg(*tmp, "otherdir/b_test.go", []byte(sb.String()), "example.com/other/pkgb")
		if err != nil {
			fmt.Fprintln(os.Stderr, err)
			os.Exit(3)
		}
		eb := &env{t: tb, sizes: e.sizes, parents: map[ast.Node]ast.Node{}, funcOf: map[ast.Node]*ast.FuncDecl{}, stringer: e.stringer, errIface: e.errIface}
		type fileIdx struct {
			t      *hutil.Target
			e      *env
			name   string
			pcalls map[int][]*ast.CallExpr
			pos    map[int][2]int
		}
		index := func(t *hutil.Target, en *env, name string) *fileIdx {
			fi := &fileIdx{t: t, e: en, name: name, pcalls: map[int][]*ast.CallExpr{}, pos: map[int][2]int{}}
			ast.Inspect(t.File, func(n ast.Node) bool {
				if v, ok := n.(*ast.CallExpr); ok {
					if id, ok := v.Fun.(*ast.Ident); ok {
						if j := probeIdx(id.Name, 'p'); j >= 0 {
							fi.pos[t.Fset.Position(v.Pos()).Offset] = [2]int{j, len(fi.pcalls[j])}
							fi.pcalls[j] = append(fi.pcalls[j], v)
						}
					}
				}
				return true
			})
			return fi
		}
		fa, fb := index(t, e, "target.go"), index(tb, eb, "b_test.go")
		var seq []*rule
		for i := range all {
			p := &all[i]
			if *only != "" && !strings.Contains(p.name, *only) {
				continue
			}
			pick := strings.Contains(p.kinds, "f") && p.gover == "" && p.name != "Deadcode"
			for _, pre := range []string{"Text:", "Text.Matches:^g", "Text.Matches:gi", "Type.Is:int", "Type.Is:string", "Const", "Object.IsGlobal", "Object.Is:Var", "Type.Size:EQL:8", "Value.Int:"} {
				if strings.HasPrefix(p.name, pre) && p.name != "ConstSlice" {
					pick = true
				}
			}
			if !pick || p.refusable || len(seq) >= W {
				continue
			}
			d := p.mk("x")
			seq = append(seq, &rule{p: p, kind: "seq", where: d, j: len(seq),
				out: &ruleOut{K: "rule", Name: p.name, Kind: "seq", Ctor: p.ctor, Src: d.Go(), Pattern: "p%d($x)", Mode: p.mode, Obs: []obs{}}})
		}
		if len(seq) > 0 {
			frules := make([]filt.Rule, len(seq))
			byName := map[string]*rule{}
			for k, r := range seq {
				name := fmt.Sprintf("g%d", k)
				byName[name] = r
				frules[k] = filt.Rule{Name: name, Pattern: fmt.Sprintf(r.out.Pattern, k), Where: r.where}
			}
			eng, lerr := filt.Load(t.Fset, filt.RulesFile("", frules))
			if lerr != nil {
				for _, r := range seq {
					r.out.LoadErr = lerr.Error()
				}
			} else {
				st := ruleguard.NewRunnerState(eng)
				type step struct {
					f     *fileIdx
					state *ruleguard.RunnerState
				}
				for si, sp := range []step{{fb, nil}, {fa, nil}, {fb, st}, {fa, st}, {fb, st}, {fb, nil}} {
					reports, pmsg := hutil.Run(eng, sp.f.t, 0, "", sp.state)
					if pmsg != "" {
						for _, r := range seq {
							r.out.Panic = pmsg
						}
						break
					}
					acc := map[*rule]map[int]bool{}
					for _, rep := range reports {
						r := byName[rep.Group]
						ji, ok := sp.f.pos[rep.Pos]
						if r == nil || !ok || ji[0] != r.j {
							fmt.Fprintf(os.Stderr, "sequence report cannot be attributed: %+v\n", rep)
							os.Exit(3)
						}
						if acc[r] == nil {
							acc[r] = map[int]bool{}
						}
						acc[r][ji[1]] = true
					}
					for _, r := range seq {
						for i, call := range sp.f.pcalls[r.j] {
							if len(call.Args) != 1 {
								continue
							}
							arg, en := call.Args[0], sp.f.e
							o := obs{Site: fmt.Sprintf("run %d of the sequence, file %s (state reused: %v): %s", si+1, sp.f.name, sp.state != nil, filt.Text(sp.f.t, call)),
								Shape: "one", Verdict: acc[r][i], Node: -1, Facts: []int{int(safe(func() tri { return r.p.fact(en, arg) }))}}
							if r.p.nilT != nil {
								o.Nil = int(safe(func() tri { return r.p.nilT(en) }))
							}
							r.out.Obs = append(r.out.Obs, o)
						}
					}
				}
			}
			rules = append(rules, seq...)
		}
	}

	// ---- File().Imports over files that spell their imports in every way the Go grammar allows; positive and negated
	if *only == "" || strings.Contains("File.Imports", *only) {
		var irules []*rule
		var frules []filt.Rule
		for k, ip := range importPaths {
			ip := ip
			for neg := 0; neg < 2; neg++ {
				d := filt.Call("File.Imports", "", filt.Str(ip))
				name := "File.Imports:" + ip
				if neg == 1 {
					d = filt.Not(d)
					name = "!File.Imports:" + ip
				}
				j := 2*k + neg
				irules = append(irules, &rule{kind: "imports", where: d, j: j,
					out: &ruleOut{K: "rule", Name: name, Kind: "imports", Ctor: "makeFileImportsFilter", Src: d.Go(), Pattern: "p%d($x)", Mode: "typed", Obs: []obs{}}})
				frules = append(frules, filt.Rule{Name: fmt.Sprintf("g%d", j), Pattern: fmt.Sprintf("p%d($x)", j), Where: d})
			}
		}
		eng, lerr := filt.Load(t.Fset, filt.RulesFile("", frules))
		if lerr != nil {
			for _, r := range irules {
				r.out.LoadErr = lerr.Error()
			}
		} else {
			st := ruleguard.NewRunnerState(eng)
			type impTarget struct {
				name, imports string
				t             *hutil.Target
			}
			var itargets []impTarget
			fileSrc := func(pkg, imports, uses, sitesFn string, declare bool) string {
				var sb strings.Builder
				fmt.Fprintf(&sb, "package %s\n\n%s\n%s\n\n", pkg, imports, uses)
				if declare {
					for j := range irules {
						fmt.Fprintf(&sb, "func p%d(args ...interface{}) {}\n", j)
					}
				}
				fmt.Fprintf(&sb, "\nfunc %s() {\n", sitesFn)
				for j := range irules {
					fmt.Fprintf(&sb, "\tp%d(1)\n", j)
				}
				sb.WriteString("}\n")
				return sb.String()
			}
			for fi, f := range importFiles {
				ti, err := hutil.CheckTargetPkg(*tmp, fmt.Sprintf("imports/%s/x.go", f.name), []byte(fileSrc(fmt.Sprintf("imp%d", fi), f.imports, f.uses, "sites", true)), fmt.Sprintf("example.com/imp%d", fi))
				if err != nil {
					fmt.Fprintln(os.Stderr, err)
					os.Exit(3)
				}
				itargets = append(itargets, impTarget{f.name, f.imports, ti})
			}
			// one package of three files with different imports: the predicate is about the file, not about the package
			{
				parts := []struct{ name, imports, uses string }{
					{"multi/a.go", "import \"fmt\"\nimport `os`\n", "var _ = fmt.Sprint\nvar _ = os.Exit"},
					{"multi/b.go", "import (\n\tstr \"strings\"\n\t_ \"io/fs\"\n)\n", "var _ = str.ToUpper"},
					{"multi/c.go", "", ""},
				}
				fset := token.NewFileSet()
				var files []*ast.File
				var srcs [][]byte
				var paths []string
				for k, pt := range parts {
					src := []byte(fileSrc("impmulti", pt.imports, pt.uses, fmt.Sprintf("sites%d", k), k == 0))
					path := filepath.Join(*tmp, "imports", pt.name)
					if err := os.MkdirAll(filepath.Dir(path), 0o755); err != nil {
						fmt.Fprintln(os.Stderr, err)
						os.Exit(3)
					}
					if err := os.WriteFile(path, src, 0o644); err != nil {
						fmt.Fprintln(os.Stderr, err)
						os.Exit(3)
					}
					af, err := parser.ParseFile(fset, path, src, parser.ParseComments)
					if err != nil {
						fmt.Fprintln(os.Stderr, err)
						os.Exit(3)
					}
					files, srcs, paths = append(files, af), append(srcs, src), append(paths, path)
				}
				info := hutil.NewInfo()
				conf := types.Config{Importer: importer.ForCompiler(fset, "source", nil)}
				pkg, err := conf.Check("example.com/impmulti", fset, files, info)
				if err != nil {
					fmt.Fprintln(os.Stderr, "multi-file package:", err)
					os.Exit(3)
				}
				for k, pt := range parts {
					itargets = append(itargets, impTarget{"one of three files of a package: " + pt.name, pt.imports,
						&hutil.Target{Fset: fset, File: files[k], Info: info, Pkg: pkg, Src: srcs[k], Path: paths[k]}})
				}
			}
			for fi, f := range itargets {
				ti := f.t
				imported := importsOf(ti)
				// the model's input: the spelling of every import path literal and what strconv.Unquote makes of it
				specs := [][2]string{}
				for _, spec := range ti.File.Imports {
					v, _ := strconv.Unquote(spec.Path.Value)
					specs = append(specs, [2]string{spec.Path.Value, v})
				}
				enc.Encode(map[string]interface{}{"k": "impfile", "index": fi, "name": f.name, "specs": specs})
				// odd files run through one reused state (after the previous odd file), even ones with a fresh state
				var state *ruleguard.RunnerState
				if fi%2 == 1 {
					state = st
				}
				reports, pmsg := hutil.Run(eng, ti, 0, "", state)
				if pmsg != "" {
					for _, r := range irules {
						r.out.Panic = pmsg
					}
					break
				}
				acc := map[int]bool{}
				for _, rep := range reports {
					var j int
					if _, err := fmt.Sscanf(rep.Group, "g%d", &j); err != nil || j < 0 || j >= len(irules) {
						fmt.Fprintf(os.Stderr, "imports report cannot be attributed: %+v\n", rep)
						os.Exit(3)
					}
					acc[j] = true
				}
				for j, r := range irules {
					fact := imported[importPaths[j/2]]
					if j%2 == 1 {
						fact = !fact
					}
					r.out.Obs = append(r.out.Obs, obs{Site: fmt.Sprintf("file %s (state reused: %v): %s", f.name, state != nil, strings.Join(strings.Fields(f.imports), " ")),
						Shape: "one", Verdict: acc[j], Node: -1, Facts: []int{int(b2t(fact))}, Nil: int(b2t(fact))})
				}
			}
		}
		rules = append(rules, irules...)
	}

	// ---- inputs of the Coq model: the probe expressions and sink contexts of column 0
	for _, ps := range pcalls[0] {
		if len(ps.call.Args) == 1 {
			txt := filt.Text(t, ps.call)
			enc.Encode(map[string]interface{}{"k": "gexpr", "site": txt[strings.Index(txt, "("):], "coq": e.gexpr(ps.call.Args[0])})
		}
	}
	for _, s := range rcalls[0] {
		ctx := e.returnCtx(s)
		if s.ctx != nil {
			ctx = s.ctx.stmt
		}
		enc.Encode(map[string]interface{}{"k": "gsink", "site": ctx + " /" + s.par + "/" + s.sink, "coq": e.sinkParent(s.call)})
	}
	for _, r := range rules {
		enc.Encode(r.out)
	}
	// ---- Text predicates on captures at the edges of files with unusual byte layouts (edges.go)
	if *edges {
		for _, ro := range edgeRules(*tmp, enc) {
			enc.Encode(ro)
		}
	}
	runFamilies()
	enc.Encode(map[string]interface{}{"k": "meta", "rules": len(rules), "exprs": len(exprs), "multis": len(multis), "stmts": len(stmts) - 1, "sinks": len(sinks) + 4,
		"gotypesalias": os.Getenv("GODEBUG")})
}

var runBatchOne func(r *rule, gover string)
