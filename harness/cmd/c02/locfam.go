package main

// Located families: predicates over patterns of ANY shape.
//
// The column sweep of main.go binds every rule to a probe function (`pJ($x)`), so its captures are call arguments. The families
// built on this file put a predicate on captures the column sweep cannot produce: identifiers that declare an object, whole
// declarations, function bodies, operands of an assignment ... For every (pattern, capture) a LOCATING rule
// `Match(P).Report(..).At(m[v])` without Where() yields the extents of the captures of all matches; the fact about a capture is
// computed from the go/ast node(s) found at that extent with go/types (never through ruleguard). The rule with the predicate
// must report exactly the located captures for which the fact holds.
//
// Rules that share an engine hide one another when their patterns match the same node (the engine stops at the first rule that
// accepts a node), so the patterns are packed into slots of pairwise node-disjoint patterns (whole-match extents, measured by a
// `$$` locating rule per pattern); the k-th rule of every pattern of a slot shares an engine.

import (
	"fmt"
	"go/ast"
	"os"
	"sort"
	"strings"

	"verif/harness/internal/filt"
	"verif/harness/internal/hutil"
)

// famSite is one located capture: its extent in the file and the go/ast nodes that have exactly this extent, outermost first.
type famSite struct {
	from, to int
	nodes    []ast.Node
}

// ident: the identifier that IS the capture (nil if the capture is something else)
func (s *famSite) ident() *ast.Ident {
	for _, n := range s.nodes {
		if id, ok := n.(*ast.Ident); ok {
			return id
		}
	}
	return nil
}

func (s *famSite) outer() ast.Node {
	if len(s.nodes) == 0 {
		return nil
	}
	return s.nodes[0]
}

type famRule struct {
	name, ctor, mode string
	pat              string // gogrep pattern of the rule
	at               string // the capture the predicate speaks about ("$$": the whole match)
	where            *filt.DExpr
	whereSrc         string // when the filter is outside the DExpr grammar
	fact             func(s *famSite) tri
	describe         func(s *famSite) string // optional: what the site is, for the report

	ro *ruleOut
}

type famLoc struct {
	sites []*famSite
	seen  map[[2]int]*famSite
}

type family struct {
	kind  string // ruleOut.Kind
	t     *hutil.Target
	rules []*famRule
	locs  map[[2]string]*famLoc // (pattern, at)
	index map[[2]int][]ast.Node
	// elide: sites where the fact does not hold and the rule does not report are counted (ruleOut.ElidedNo), not listed
	elide bool
	// problems: patterns of the catalogue that do not load or match nothing (reported together; the family then stops)
	problems []string
}

// nodesAt: the nodes with exactly this extent, outermost first (one traversal of the file indexes every extent)
func (f *family) nodesAt(from, to int) []ast.Node {
	if f.index == nil {
		f.index = map[[2]int][]ast.Node{}
		ast.Inspect(f.t.File, func(n ast.Node) bool {
			if n == nil {
				return false
			}
			if _, isCG := n.(*ast.CommentGroup); isCG {
				return false
			}
			k := [2]int{f.t.Fset.Position(n.Pos()).Offset, f.t.Fset.Position(n.End()).Offset}
			f.index[k] = append(f.index[k], n)
			return true
		})
	}
	return f.index[[2]int{from, to}]
}

func (f *family) die(format string, args ...interface{}) {
	fmt.Fprintf(os.Stderr, "family %s: "+format+"\n", append([]interface{}{f.kind}, args...)...)
	os.Exit(3)
}

func famExtra(at string) string {
	if at == "$$" {
		return ""
	}
	return fmt.Sprintf(".At(m[%q])", at)
}

// locate runs `Match(pat).Report().At(m[at])` and returns the distinct capture extents
func (f *family) locate(pat, at string) *famLoc {
	key := [2]string{pat, at}
	if l, ok := f.locs[key]; ok {
		return l
	}
	eng, err := filt.Load(f.t.Fset, filt.RulesFile("", []filt.Rule{{Name: "loc", Pattern: pat, Extra: famExtra(at)}}))
	if err != nil {
		f.problems = append(f.problems, fmt.Sprintf("locating rule %q At %s does not load: %v", pat, at, err))
		l := &famLoc{seen: map[[2]int]*famSite{}}
		f.locs[key] = l
		return l
	}
	reps, pmsg := hutil.Run(eng, f.t, 0, "", nil)
	if pmsg != "" {
		f.die("locating rule %q At %s: %s", pat, at, pmsg)
	}
	l := &famLoc{seen: map[[2]int]*famSite{}}
	for _, rep := range reps {
		k := [2]int{rep.Pos, rep.End}
		if rep.NilNode || rep.End < rep.Pos {
			f.die("locating rule %q At %s reports no usable node: %+v", pat, at, rep)
		}
		if l.seen[k] != nil {
			f.die("pattern %q: two matches have the same %s capture [%d,%d): the sites of this catalogue must be told apart by their captures", pat, at, rep.Pos, rep.End)
		}
		s := &famSite{from: rep.Pos, to: rep.End, nodes: f.nodesAt(rep.Pos, rep.End)}
		l.seen[k] = s
		l.sites = append(l.sites, s)
	}
	if len(l.sites) == 0 {
		f.problems = append(f.problems, fmt.Sprintf("pattern %q (At %s) matches nothing in the family's target", pat, at))
	}
	f.locs[key] = l
	return l
}

func (f *family) run() []*ruleOut {
	f.locs = map[[2]string]*famLoc{}
	// whole-match extents per pattern
	var pats []string
	byPat := map[string][]*famRule{}
	for _, r := range f.rules {
		if _, ok := byPat[r.pat]; !ok {
			pats = append(pats, r.pat)
		}
		byPat[r.pat] = append(byPat[r.pat], r)
	}
	whole := map[string]map[[2]int]bool{}
	for _, p := range pats {
		whole[p] = map[[2]int]bool{}
		for k := range f.locate(p, "$$").seen {
			whole[p][k] = true
		}
	}
	for _, r := range f.rules {
		f.locate(r.pat, r.at)
	}
	if len(f.problems) > 0 && os.Getenv("C02_FAM_PROBE") != "" {
		// development aid: show which patterns of a draft catalogue are usable
		fmt.Fprintf(os.Stderr, "family %s (probe):\n  %s\n", f.kind, strings.Join(f.problems, "\n  "))
		var keep []*famRule
		for _, r := range f.rules {
			if len(f.locs[[2]string{r.pat, r.at}].sites) > 0 {
				keep = append(keep, r)
			}
		}
		f.rules, f.problems = keep, nil
		byPat = map[string][]*famRule{}
		pats = nil
		for _, r := range f.rules {
			if _, ok := byPat[r.pat]; !ok {
				pats = append(pats, r.pat)
			}
			byPat[r.pat] = append(byPat[r.pat], r)
		}
	}
	if len(f.problems) > 0 {
		f.die("the catalogue is not usable:\n  %s", strings.Join(f.problems, "\n  "))
	}
	overlap := func(a, b string) bool {
		x, y := whole[a], whole[b]
		if len(x) > len(y) {
			x, y = y, x
		}
		for k := range x {
			if y[k] {
				return true
			}
		}
		return false
	}
	var slots [][]string
	for _, p := range pats {
		placed := false
		for i := range slots {
			ok := true
			for _, q := range slots[i] {
				if overlap(p, q) {
					ok = false
					break
				}
			}
			if ok {
				slots[i] = append(slots[i], p)
				placed = true
				break
			}
		}
		if !placed {
			slots = append(slots, []string{p})
		}
	}

	var out []*ruleOut
	for _, r := range f.rules {
		src := r.whereSrc
		if src == "" {
			src = r.where.Go()
		}
		r.ro = &ruleOut{K: "rule", Name: r.name, Kind: f.kind, Ctor: r.ctor, Src: src, Pattern: r.pat, Mode: r.mode, Obs: []obs{}}
		out = append(out, r.ro)
	}
	record := func(r *famRule, reps []hutil.Report, group string) {
		l := f.locate(r.pat, r.at)
		acc := map[[2]int]bool{}
		for _, rep := range reps {
			if rep.Group != group {
				continue
			}
			k := [2]int{rep.Pos, rep.End}
			if l.seen[k] == nil {
				f.die("rule %s (%s) reports a capture the locating rule did not: %+v", r.name, r.pat, rep)
			}
			acc[k] = true
		}
		for _, s := range l.sites {
			s := s
			what := fmt.Sprintf("%s = %q", r.at, string(f.t.Src[s.from:s.to]))
			if len(what) > 90 {
				what = what[:90] + "..."
			}
			if r.describe != nil {
				what += " (" + r.describe(s) + ")"
			}
			tf := f.t.Fset.File(f.t.File.Pos())
			line := tf.Line(tf.Pos(s.from))
			fact, verdict := safe(func() tri { return r.fact(s) }), acc[[2]int{s.from, s.to}]
			if f.elide && fact == no && !verdict {
				r.ro.ElidedNo++ // the fact does not hold and the rule does not report: counted, not listed
				continue
			}
			r.ro.Obs = append(r.ro.Obs, obs{Site: fmt.Sprintf("line %d: %s", line, what), Shape: "one", Verdict: verdict, Facts: []int{int(fact)}, Node: -1})
		}
	}
	mk := func(r *famRule, group string) filt.Rule {
		return filt.Rule{Name: group, Pattern: r.pat, Where: r.where, WhereSrc: r.whereSrc, Extra: famExtra(r.at)}
	}
	runOne := func(r *famRule) {
		eng, err := filt.Load(f.t.Fset, filt.RulesFile("", []filt.Rule{mk(r, "f0")}))
		if err != nil {
			r.ro.LoadErr = err.Error()
			return
		}
		reps, pmsg := hutil.Run(eng, f.t, 0, "", nil)
		if pmsg != "" {
			r.ro.Panic = pmsg
			return
		}
		record(r, reps, "f0")
	}
	for _, slot := range slots {
		for k := 0; ; k++ {
			var members []*famRule
			var rs []filt.Rule
			for _, p := range slot {
				if k < len(byPat[p]) {
					r := byPat[p][k]
					rs = append(rs, mk(r, fmt.Sprintf("f%d", len(members))))
					members = append(members, r)
				}
			}
			if len(members) == 0 {
				break
			}
			eng, err := filt.Load(f.t.Fset, filt.RulesFile("", rs))
			var reps []hutil.Report
			pmsg := ""
			if err == nil {
				reps, pmsg = hutil.Run(eng, f.t, 0, "", nil)
			}
			if err != nil || pmsg != "" {
				for _, r := range members {
					runOne(r)
				}
				continue
			}
			for i, r := range members {
				record(r, reps, fmt.Sprintf("f%d", i))
			}
		}
	}
	return out
}

func sortedKeys(m map[string]int) []string {
	var ks []string
	for k := range m {
		ks = append(ks, k)
	}
	sort.Strings(ks)
	return ks
}
