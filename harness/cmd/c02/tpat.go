package main

// Type.Is patterns with variables: what a pattern DENOTES.
//
// A type pattern with variables (`$t`, `[$n]T`, `$*_`) denotes the types for which SOME assignment of the variables makes the
// pattern the type: one type per `$t` (the same at every occurrence), one length per `$n`, any run of parameters / results /
// fields per `$*_`. The reference below computes exactly that, as the list of ALL assignments under which a sub-pattern matches
// (no state, nothing to undo); go/types decides type identity. The engine's matcher walks the alternatives one after another
// with a mutable table of bindings, so whatever it binds while exploring an alternative that fails must be gone when the next
// one is tried: the catalogue is built so that this matters -- per container (parameter list, result list, field list) a
// `$*_` run stands in front of a sub-pattern that binds a variable, and the types have an earlier element the binding
// sub-pattern fits while the rest does not. Four deliberately wrong matchers (bindings of lengths / of types are never undone;
// only the shortest / only the longest run is tried for `$*_`) are run beside the reference: the catalogue must tell each of
// them from the reference in every container kind (coverage record `tpat-cov`).

import (
	"encoding/json"
	"fmt"
	"go/ast"
	"go/types"
	"os"
	"strings"

	"verif/harness/internal/filt"
	"verif/harness/internal/hutil"
)

type tpat struct {
	k       string // basic var seq ptr slice arrN arrV map chan func struct anyiface
	name    string // basic: type name; var / arrV: variable name ("_" = anonymous)
	n       int64
	subs    []*tpat
	nparams int
}

func tpB(name string) *tpat          { return &tpat{k: "basic", name: name} }
func tpV(name string) *tpat          { return &tpat{k: "var", name: name} }
func tpSeq() *tpat                   { return &tpat{k: "seq"} }
func tpPtr(x *tpat) *tpat            { return &tpat{k: "ptr", subs: []*tpat{x}} }
func tpSlice(x *tpat) *tpat          { return &tpat{k: "slice", subs: []*tpat{x}} }
func tpArrN(n int64, x *tpat) *tpat  { return &tpat{k: "arrN", n: n, subs: []*tpat{x}} }
func tpArrV(v string, x *tpat) *tpat { return &tpat{k: "arrV", name: v, subs: []*tpat{x}} }
func tpMap(k, v *tpat) *tpat         { return &tpat{k: "map", subs: []*tpat{k, v}} }
func tpChan(x *tpat) *tpat           { return &tpat{k: "chan", subs: []*tpat{x}} }
func tpStruct(fs ...*tpat) *tpat     { return &tpat{k: "struct", subs: fs} }
func tpFunc(ps, rs []*tpat) *tpat {
	return &tpat{k: "func", nparams: len(ps), subs: append(append([]*tpat{}, ps...), rs...)}
}
func tps(xs ...*tpat) []*tpat    { return xs }
func (p *tpat) params() []*tpat  { return p.subs[:p.nparams] }
func (p *tpat) results() []*tpat { return p.subs[p.nparams:] }
func tpJoin(xs []*tpat, sep string) string {
	parts := make([]string, len(xs))
	for i, x := range xs {
		parts[i] = x.String()
	}
	return strings.Join(parts, sep)
}

func (p *tpat) String() string {
	switch p.k {
	case "basic":
		return p.name
	case "var":
		return "$" + p.name
	case "seq":
		return "$*_"
	case "ptr":
		return "*" + p.subs[0].String()
	case "slice":
		return "[]" + p.subs[0].String()
	case "arrN":
		return fmt.Sprintf("[%d]%s", p.n, p.subs[0])
	case "arrV":
		return fmt.Sprintf("[$%s]%s", p.name, p.subs[0])
	case "map":
		return fmt.Sprintf("map[%s]%s", p.subs[0], p.subs[1])
	case "chan":
		return "chan " + p.subs[0].String()
	case "struct":
		return "struct{" + tpJoin(p.subs, "; ") + "}"
	case "func":
		s := "func(" + tpJoin(p.params(), ", ") + ")"
		switch rs := p.results(); len(rs) {
		case 0:
		case 1:
			s += " " + rs[0].String()
		default:
			s += " (" + tpJoin(rs, ", ") + ")"
		}
		return s
	}
	panic("bad tpat " + p.k)
}

// ---- the reference: all assignments

type tenv struct {
	ty map[string]types.Type
	in map[string]int64
}

func (e tenv) withType(v string, t types.Type) tenv {
	m := map[string]types.Type{v: t}
	for k, x := range e.ty {
		m[k] = x
	}
	return tenv{ty: m, in: e.in}
}

func (e tenv) withInt(v string, n int64) tenv {
	m := map[string]int64{v: n}
	for k, x := range e.in {
		m[k] = x
	}
	return tenv{ty: e.ty, in: m}
}

var tpBasics = map[string]types.Type{"int": types.Typ[types.Int], "string": types.Typ[types.String], "bool": types.Typ[types.Bool],
	"float64": types.Typ[types.Float64], "byte": types.Typ[types.Uint8], "error": types.Universe.Lookup("error").Type()}

// refMatch: every assignment extending env under which p is typ
func refMatch(p *tpat, typ types.Type, env tenv) []tenv {
	typ = types.Unalias(typ)
	switch p.k {
	case "basic":
		if types.Identical(typ, tpBasics[p.name]) {
			return []tenv{env}
		}
		return nil
	case "var":
		if p.name == "_" {
			return []tenv{env}
		}
		if b, ok := env.ty[p.name]; ok {
			if types.Identical(b, typ) {
				return []tenv{env}
			}
			return nil
		}
		return []tenv{env.withType(p.name, typ)}
	case "ptr":
		if t, ok := typ.(*types.Pointer); ok {
			return refMatch(p.subs[0], t.Elem(), env)
		}
	case "slice":
		if t, ok := typ.(*types.Slice); ok {
			return refMatch(p.subs[0], t.Elem(), env)
		}
	case "chan":
		if t, ok := typ.(*types.Chan); ok && t.Dir() == types.SendRecv {
			return refMatch(p.subs[0], t.Elem(), env)
		}
	case "arrN":
		if t, ok := typ.(*types.Array); ok && t.Len() == p.n {
			return refMatch(p.subs[0], t.Elem(), env)
		}
	case "arrV":
		t, ok := typ.(*types.Array)
		if !ok {
			return nil
		}
		if p.name != "_" {
			if b, bound := env.in[p.name]; bound {
				if b != t.Len() {
					return nil
				}
			} else {
				env = env.withInt(p.name, t.Len())
			}
		}
		return refMatch(p.subs[0], t.Elem(), env)
	case "map":
		if t, ok := typ.(*types.Map); ok {
			var out []tenv
			for _, e1 := range refMatch(p.subs[0], t.Key(), env) {
				out = append(out, refMatch(p.subs[1], t.Elem(), e1)...)
			}
			return out
		}
	case "struct":
		if t, ok := typ.(*types.Struct); ok {
			ts := make([]types.Type, t.NumFields())
			for i := range ts {
				ts[i] = t.Field(i).Type()
			}
			return refSeq(p.subs, ts, env)
		}
	case "func":
		if t, ok := typ.(*types.Signature); ok {
			if t.Variadic() {
				panic("the catalogue has no variadic signatures")
			}
			var out []tenv
			for _, e1 := range refSeq(p.params(), tupleTypes(t.Params()), env) {
				out = append(out, refSeq(p.results(), tupleTypes(t.Results()), e1)...)
			}
			return out
		}
	}
	return nil
}

func tupleTypes(t *types.Tuple) []types.Type {
	ts := make([]types.Type, t.Len())
	for i := range ts {
		ts[i] = t.At(i).Type()
	}
	return ts
}

func refSeq(ps []*tpat, ts []types.Type, env tenv) []tenv {
	if len(ps) == 0 {
		if len(ts) == 0 {
			return []tenv{env}
		}
		return nil
	}
	if ps[0].k == "seq" {
		var out []tenv
		for n := 0; n <= len(ts); n++ {
			out = append(out, refSeq(ps[1:], ts[n:], env)...)
		}
		return out
	}
	if len(ts) == 0 {
		return nil
	}
	var out []tenv
	for _, e1 := range refMatch(ps[0], ts[0], env) {
		out = append(out, refSeq(ps[1:], ts[1:], e1)...)
	}
	return out
}

// ---- deliberately wrong matchers (for the coverage record only): a mutable table, alternatives tried in order

type tpMutant struct {
	noUndoInt, noUndoType, shortestOnly, longestOnly bool
	ty                                               map[string]types.Type
	in                                               map[string]int64
}

func (m *tpMutant) match(p *tpat, typ types.Type, k func() bool) bool {
	typ = types.Unalias(typ)
	switch p.k {
	case "basic":
		return types.Identical(typ, tpBasics[p.name]) && k()
	case "var":
		if p.name == "_" {
			return k()
		}
		if b, ok := m.ty[p.name]; ok {
			return types.Identical(b, typ) && k()
		}
		m.ty[p.name] = typ
		if k() {
			return true
		}
		if !m.noUndoType {
			delete(m.ty, p.name)
		}
		return false
	case "ptr":
		t, ok := typ.(*types.Pointer)
		return ok && m.match(p.subs[0], t.Elem(), k)
	case "slice":
		t, ok := typ.(*types.Slice)
		return ok && m.match(p.subs[0], t.Elem(), k)
	case "chan":
		t, ok := typ.(*types.Chan)
		return ok && t.Dir() == types.SendRecv && m.match(p.subs[0], t.Elem(), k)
	case "arrN":
		t, ok := typ.(*types.Array)
		return ok && t.Len() == p.n && m.match(p.subs[0], t.Elem(), k)
	case "arrV":
		t, ok := typ.(*types.Array)
		if !ok {
			return false
		}
		if p.name == "_" {
			return m.match(p.subs[0], t.Elem(), k)
		}
		if b, bound := m.in[p.name]; bound {
			return b == t.Len() && m.match(p.subs[0], t.Elem(), k)
		}
		m.in[p.name] = t.Len()
		if m.match(p.subs[0], t.Elem(), k) {
			return true
		}
		if !m.noUndoInt {
			delete(m.in, p.name)
		}
		return false
	case "map":
		t, ok := typ.(*types.Map)
		return ok && m.match(p.subs[0], t.Key(), func() bool { return m.match(p.subs[1], t.Elem(), k) })
	case "struct":
		t, ok := typ.(*types.Struct)
		if !ok {
			return false
		}
		ts := make([]types.Type, t.NumFields())
		for i := range ts {
			ts[i] = t.Field(i).Type()
		}
		return m.seq(p.subs, ts, k)
	case "func":
		t, ok := typ.(*types.Signature)
		return ok && m.seq(p.params(), tupleTypes(t.Params()), func() bool { return m.seq(p.results(), tupleTypes(t.Results()), k) })
	}
	return false
}

func (m *tpMutant) seq(ps []*tpat, ts []types.Type, k func() bool) bool {
	if len(ps) == 0 {
		return len(ts) == 0 && k()
	}
	if ps[0].k == "seq" {
		// the runs that leave room for the patterns behind the `$*_` (a fixed count when there is no second `$*_`)
		var ns []int
		for n := 0; n <= len(ts); n++ {
			ns = append(ns, n)
		}
		if m.shortestOnly || m.longestOnly {
			var fit []int
			for _, n := range ns {
				if tpFits(ps[1:], len(ts)-n) {
					fit = append(fit, n)
				}
			}
			ns = fit
			if len(ns) > 1 {
				if m.shortestOnly {
					ns = ns[:1]
				} else {
					ns = ns[len(ns)-1:]
				}
			}
		}
		for _, n := range ns {
			if m.seq(ps[1:], ts[n:], k) {
				return true
			}
		}
		return false
	}
	if len(ts) == 0 {
		return false
	}
	return m.match(ps[0], ts[0], func() bool { return m.seq(ps[1:], ts[1:], k) })
}

// tpBinds: does the pattern bind a length variable / a type variable
func tpBinds(p *tpat) (ints, typs bool) {
	switch p.k {
	case "arrV":
		ints = p.name != "_"
	case "var":
		typs = p.name != "_"
	}
	for _, s := range p.subs {
		i, t := tpBinds(s)
		ints, typs = ints || i, typs || t
	}
	return
}

// tpEmbeddable: can the pattern be written as a field of a struct pattern
func tpEmbeddable(p *tpat) bool {
	switch p.k {
	case "basic", "var":
		return true
	case "ptr":
		return p.subs[0].k == "basic" || p.subs[0].k == "var"
	}
	return false
}

// tpFits: can the patterns stand for exactly n elements (counting only)
func tpFits(ps []*tpat, n int) bool {
	fixed, seqs := 0, 0
	for _, p := range ps {
		if p.k == "seq" {
			seqs++
		} else {
			fixed++
		}
	}
	if seqs == 0 {
		return fixed == n
	}
	return fixed <= n
}

// ---- the catalogue

const tpatW = 8

type tpatEntry struct {
	p     *tpat
	class string // the container the `$*_` run stands in: params results fields; "" = no `$*_`
}

func tpatPatterns() []tpatEntry {
	I, S := tpB("int"), tpB("string")
	n, t := "n", "t"
	type binder struct{ b, r *tpat } // b binds; r uses the binding again
	binders := []binder{
		{tpArrV(n, I), tpArrV(n, S)},
		{tpArrV(n, S), tpArrV(n, I)},
		{tpArrV(n, tpV(t)), tpV(t)},
		{tpArrV(n, tpArrV(n, I)), tpArrV(n, I)},
		{tpArrV(n, tpArrV("m", I)), tpArrV("m", I)},
		{tpPtr(tpV(t)), tpV(t)},
		{tpSlice(tpV(t)), tpPtr(tpV(t))},
		{tpMap(tpV(t), tpV(t)), tpV(t)},
		{tpMap(I, tpV(t)), tpSlice(tpV(t))},
		{tpMap(tpV("k"), tpArrV(n, tpV("k"))), tpArrV(n, S)},
		{tpV(t), tpPtr(tpV(t))},
		{tpArrV("_", tpV(t)), tpV(t)},
		{tpV(t), tpV(t)},
		{tpPtr(tpV(t)), tpPtr(tpV(t))},
		{tpPtr(tpV(t)), tpV("u")},
	}
	var out []tpatEntry
	add := func(class string, p *tpat) { out = append(out, tpatEntry{p, class}) }
	for _, b := range binders {
		// parameters
		add("params", tpFunc(tps(tpSeq(), b.b, tpSeq()), nil))
		add("params", tpFunc(tps(tpSeq(), b.b, b.r, tpSeq()), nil))
		add("params", tpFunc(tps(tpSeq(), b.b, b.r), nil))
		add("params", tpFunc(tps(tpSeq(), b.b, tpSeq(), b.r, tpSeq()), nil))
		add("params", tpFunc(tps(tpSeq(), b.b, tpSeq()), tps(b.r)))
		add("params", tpFunc(tps(tpSeq(), b.b), tps(b.r)))
		// results
		add("results", tpFunc(nil, tps(tpSeq(), b.b, tpSeq())))
		add("results", tpFunc(nil, tps(tpSeq(), b.b, b.r, tpSeq())))
		add("results", tpFunc(nil, tps(tpSeq(), b.b, b.r)))
		add("results", tpFunc(tps(b.r), tps(tpSeq(), b.b, tpSeq())))
		// fields: a field of a struct pattern is written like an embedded field, so Go's grammar allows a name or a pointer to one
		if tpEmbeddable(b.b) && tpEmbeddable(b.r) {
			add("fields", tpStruct(tpSeq(), b.b, tpSeq()))
			add("fields", tpStruct(tpSeq(), b.b, b.r, tpSeq()))
			add("fields", tpStruct(tpSeq(), b.b, b.r))
			add("fields", tpStruct(tpSeq(), b.b, tpSeq(), b.r, tpSeq()))
			add("", tpStruct(b.b, b.r))
		}
		// the same variables without any `$*_`: one alternative only
		add("", tpFunc(tps(b.b, b.r), nil))
		add("", tpFunc(tps(b.b), tps(b.r)))
	}
	// a container inside a container: the inner alternatives are retried for every outer one
	inner := tpFunc(tps(tpSeq(), tpArrV(n, I), tpSeq()), nil)
	add("params", tpFunc(tps(tpSeq(), inner, tpArrV(n, S)), nil))
	add("params", tpFunc(tps(tpSeq(), tpStruct(tpSeq(), tpPtr(tpV(t)), tpSeq()), tpSeq(), tpStruct(tpSeq(), tpV(t), tpSeq())), nil))
	add("params", tpFunc(tps(tpSeq(), tpStruct(tpSeq(), tpPtr(tpV(t)), tpSeq()), tpV(t)), nil))
	// closed patterns and anonymous variables in the same containers
	add("params", tpFunc(tps(tpSeq(), tpArrN(3, I), tpSeq()), nil))
	add("params", tpFunc(tps(tpSeq(), tpArrV("_", I), tpSeq()), nil))
	add("params", tpFunc(tps(tpSeq()), nil))
	add("params", tpFunc(tps(tpSeq(), tpSeq()), nil))
	add("params", tpFunc(tps(tpV("_"), tpSeq()), nil))
	add("params", tpFunc(tps(tpSeq(), tpV("_")), nil))
	add("fields", tpStruct(tpSeq(), tpPtr(I), tpSeq()))
	add("fields", tpStruct(tpSeq(), I, S, tpSeq()))
	add("fields", tpStruct(tpSeq()))
	add("fields", tpStruct(tpV("_"), tpSeq(), tpV("_")))
	add("results", tpFunc(tps(tpSeq()), tps(tpSeq(), tpArrN(2, I))))
	add("results", tpFunc(tps(tpSeq()), tps(tpSeq())))
	return out
}

// tpatTypes: parameter / result / field lists over a pool of element types in which arrays of every (length, element) pair,
// pointers, slices and maps of the same elements stand next to one another, so that a binding sub-pattern fits an element
// while what follows it in the pattern does not
func tpatTypes() []string {
	pool := []string{"int", "string", "[2]int", "[3]int", "[2]string", "[3]string", "*int", "*string", "[]int", "[]string", "map[int]int", "map[int]string",
		"[2][2]int", "[2][3]int", "[3][3]int", "A2", "map[string][2]string", "map[string][3]string"}
	small := []string{"[2]int", "[3]int", "[2]string", "[3]string", "*int", "int"}
	lists := func(pool []string) []string {
		small := small
		if pool[0] == "int" && len(pool) < 10 {
			small = pool
		}
		var ls []string
		for _, a := range pool {
			ls = append(ls, a)
			for _, b := range pool {
				ls = append(ls, a+", "+b)
			}
		}
		for _, a := range small {
			for _, b := range small {
				for _, c := range small {
					ls = append(ls, a+", "+b+", "+c)
				}
			}
		}
		return append(ls, "[2]string, [2]string, [3]int, [3]string, [2]int", "*string, []int, *int, int, string", "[3][2]int, [2][2]int, [2]int, [3]int",
			"[2][3]int, [3][3]int, [3]int", "map[string][2]string, map[string][3]string, [3]string", "map[int]int, map[int]string, []string")
	}
	var out []string
	out = append(out, "func()", "struct{}")
	for _, l := range lists(pool) {
		out = append(out, "func("+l+")")
	}
	for _, l := range lists([]string{"int", "string", "*int", "*string", "[2]int", "**int"}) {
		out = append(out, "struct{ "+tpatFields(l)+" }")
	}
	for _, l := range lists(small) {
		if strings.Count(l, ", ") == 0 {
			out = append(out, "func() "+l)
		} else {
			out = append(out, "func() ("+l+")")
		}
	}
	// parameters and results together (what the result is decides which parameter the pattern has to pick)
	for _, a := range small {
		for _, b := range small {
			for _, r := range append(append([]string{}, small[:4]...), "int", "string", "*string", "[]int") {
				out = append(out, "func("+a+", "+b+") "+r)
				out = append(out, "func("+r+") ("+a+", "+b+")")
			}
		}
	}
	// containers in containers
	for _, a := range []string{"[2]int", "[3]int", "[2]string"} {
		for _, b := range []string{"[2]string", "[3]string", "int"} {
			out = append(out, "func(func(int, "+a+"), func("+b+", [3]int), "+b+")")
			out = append(out, "struct{ a struct{ x "+a+" }; b struct{ x, y [3]int }; c "+b+" }")
			out = append(out, "func(struct{ p *int }, struct{ q *string; r *int }, "+strings.TrimPrefix(strings.TrimPrefix(b, "[2]"), "[3]")+")")
		}
	}
	return out
}

func tpatFields(l string) string {
	parts := strings.Split(l, ", ")
	for i := range parts {
		parts[i] = fmt.Sprintf("f%d %s", i, parts[i])
	}
	return strings.Join(parts, "; ")
}

func tpatRules(tmp string, enc *json.Encoder) []*ruleOut {
	typs := tpatTypes()
	var sb strings.Builder
	sb.WriteString("package tpat\n\ntype A2 = [2]int\n\n")
	for j := 0; j < tpatW; j++ {
		fmt.Fprintf(&sb, "func p%d(args ...interface{}) {}\n", j)
	}
	sb.WriteString("\nvar (\n")
	for i, ty := range typs {
		fmt.Fprintf(&sb, "\tv%d %s\n", i, ty)
	}
	sb.WriteString(")\n\nfunc sites() {\n")
	for i := range typs {
		for j := 0; j < tpatW; j++ {
			if j > 0 {
				sb.WriteString("; ")
			} else {
				sb.WriteString("\t")
			}
			fmt.Fprintf(&sb, "p%d(v%d)", j, i)
		}
		sb.WriteString("\n")
	}
	sb.WriteString("}\n")
	t, err := hutil.CheckTargetPkg(tmp, "tpat/x.go", []byte(sb.String()), "example.com/tpat")
	if err != nil {
		fmt.Fprintln(os.Stderr, "tpat target:", err)
		os.Exit(3)
	}
	fam := &family{kind: "tpat", t: t, elide: true}
	typeOfSite := func(s *famSite) types.Type {
		id := s.ident()
		if id == nil {
			panic("a tpat site is not an identifier")
		}
		return t.Info.TypeOf(ast.Expr(id))
	}
	entries := tpatPatterns()
	seen := map[string]bool{}
	type covKey struct{ mutant, class string }
	cov := map[covKey]int{}
	applicable := map[covKey]int{} // patterns of the class in which the mutant's mistake can show at all
	classes := map[string]bool{}
	mutants := []struct {
		name string
		mk   func() *tpMutant
	}{
		{"length bindings are never undone", func() *tpMutant { return &tpMutant{noUndoInt: true} }},
		{"type bindings are never undone", func() *tpMutant { return &tpMutant{noUndoType: true} }},
		{"only the shortest run is tried for $*_", func() *tpMutant { return &tpMutant{shortestOnly: true} }},
		{"only the longest run is tried for $*_", func() *tpMutant { return &tpMutant{longestOnly: true} }},
	}
	k := 0
	for _, en := range entries {
		en := en
		ps := en.p.String()
		if seen[ps] {
			continue
		}
		seen[ps] = true
		if en.class != "" {
			classes[en.class] = true
		}
		for _, path := range []string{"Type.Is", "Type.Underlying.Is"} {
			ctor := "makeTypeIsFilter"
			if path != "Type.Is" {
				ctor = "makeTypeIsFilter/underlying"
				if k%3 != 0 {
					continue // every third pattern also through Underlying(): the types of the catalogue are their own underlying types
				}
			}
			fam.rules = append(fam.rules, &famRule{name: path + ":" + ps, ctor: ctor, mode: "typed", pat: fmt.Sprintf("p%d($x)", k%tpatW), at: "x",
				where: filt.Call(path, "x", filt.Str(ps)),
				fact:  func(s *famSite) tri { return b2t(len(refMatch(en.p, typeOfSite(s), tenv{})) > 0) },
				describe: func(s *famSite) string {
					return "of type " + types.TypeString(typeOfSite(s), func(*types.Package) string { return "" })
				}})
		}
		k++
		// coverage: which wrong matchers the catalogue tells from the reference on this pattern
		if en.class != "" {
			hasInt, hasType := tpBinds(en.p)
			for _, mu := range mutants {
				if (mu.name == mutants[0].name && !hasInt) || (mu.name == mutants[1].name && !hasType) {
					continue
				}
				applicable[covKey{mu.name, en.class}]++
			}
			for i := range typs {
				obj := t.Pkg.Scope().Lookup(fmt.Sprintf("v%d", i))
				want := len(refMatch(en.p, obj.Type(), tenv{})) > 0
				for _, mu := range mutants {
					m := mu.mk()
					m.ty, m.in = map[string]types.Type{}, map[string]int64{}
					if m.match(en.p, obj.Type(), func() bool { return true }) != want {
						cov[covKey{mu.name, en.class}]++
					}
				}
			}
		}
	}
	out := fam.run()
	rec := map[string]interface{}{"k": "tpat-cov", "patterns": k, "types": len(typs)}
	cells := map[string]int{}
	for _, mu := range mutants {
		for c := range classes {
			if applicable[covKey{mu.name, c}] > 0 {
				cells[mu.name+" / "+c] = cov[covKey{mu.name, c}]
			}
		}
	}
	rec["told_apart"] = cells
	enc.Encode(rec)
	return out
}
