package main

// Engine-level section "untyped": the relation filters applied to expressions whose RECORDED type is an untyped basic type.
//
// go/types leaves the operands of constant expressions untyped (`4` and `1` in `n = 4 + 1`, `'a'` in `'a' + 1`, `K` of
// `const K = 5` inside `K + 1`, the operands of a constant comparison) and records `untyped bool` for a comparison used as an
// `if` condition; everything that is materialised (an argument, an operand next to a typed variable) gets its default or
// context type. types.Identical(untyped int, int) is false, and so must be Type.IdenticalTo / Type.Is / Underlying().Is:
// nothing between the recorded type and the relation may convert it (types.Default, a "representable as" shortcut, a kind test).
//
// Every (capture shape, filter) is a rule with a probe function of its own; the capture shapes pick operands out of the
// arguments: `u($x, $y)`, `u($x, $y + $_)`, `u($x, $_ + $y)`, `u($x + $_, $y + $_)`, `u($x, $y && $_)`, `u($x, $y == $_)`,
// `u($x, -$y)`, `if $y { u($x) }`, `u($x, $y << $_)`, `u($x, $_ << $y)`. Operands: literals of every kind, untyped and typed
// named constants, variables of basic and named types. Oracle: go/types on the types recorded in the target's own types.Info.

import (
	"fmt"
	"go/ast"
	"go/token"
	"go/types"
	"strings"

	"verif/harness/internal/hutil"

	"github.com/quasilyte/go-ruleguard/ruleguard"
)

const utDecls = `
type MyInt int
type MyStr string

func (MyStr) String() string { return "" }

const (
	K  = 5
	KR = 'a'
	KF = 1.5
	KC = 2i
	KS = "s"
	KB = true
)
const (
	TK int     = 4
	TR rune    = 'b'
	TF float64 = 2.5
	TS string  = "t"
	TB bool    = false
	KM MyInt   = 3
)

var (
	n   int
	r   rune
	i32 int32
	f   float64
	f32 float32
	c   complex128
	s   string
	b   bool
	by  byte
	u   uint
	i64 int64
	mi  MyInt
	ms  MyStr
	e   interface{}
	st  fmt.Stringer
)
`

type utShape struct {
	pat   string // %[1]s = probe function name
	call  string // %[1]s = function, %[2]s = X, %[3]s = Y
	kinds string // operand kinds of Y the shape accepts: n(umeric) s(tring) b(ool) i(nteger only) h (shift count) c(ondition)
	xop   bool   // X is an operand of `+ 1` too (numeric X only)
}

var utShapes = []utShape{
	{"%[1]s($x, $y)", "%[1]s(%[2]s, %[3]s)", "nsbi", false},
	{"%[1]s($x, $y + $_)", "%[1]s(%[2]s, %[3]s + @)", "nsi", false},
	{"%[1]s($x, $_ + $y)", "%[1]s(%[2]s, @ + %[3]s)", "nsi", false},
	{"%[1]s($x + $_, $y + $_)", "%[1]s(%[2]s + 1, %[3]s + 1)", "ni", true},
	{"%[1]s($x, $y && $_)", "%[1]s(%[2]s, %[3]s && true)", "b", false},
	{"%[1]s($x, $y == $_)", "%[1]s(%[2]s, %[3]s == @)", "nsbi", false},
	{"%[1]s($x, -$y)", "%[1]s(%[2]s, -%[3]s)", "ni", false},
	{"if $y { %[1]s($x) }", "if %[3]s { %[1]s(%[2]s) }", "c", false},
	{"%[1]s($x, $y << $_)", "%[1]s(%[2]s, %[3]s << 3)", "i", false},
	{"%[1]s($x, $_ << $y)", "%[1]s(%[2]s, n << %[3]s)", "h", false},
}

// operands by kind; the partner of a binary shape (`@`) is a literal of the operand's kind
var utOperands = map[byte][]string{
	'i': {"4", "0x10", "K", "TK", "KM", "n", "mi", "u", "by", "i64", "'a'", "KR", "TR", "r", "i32"},
	'n': {"1.5", "KF", "TF", "f", "f32", "2i", "KC", "c"},
	'h': {"3", "K", "TK", "n", "u", "by"},
	's': {`"s"`, "KS", "TS", "s", "ms"},
	'b': {"true", "KB", "TB", "b"},
	'c': {"n == 4", "4 == 5", "K == 5", `s == "t"`, `"a" == "b"`, "b", "KB", "true", "TB", "b && true", "!b", "f < 2", "1.5 < 2", "e == nil", "r == 'a'", "mi == KM", "n != TK"},
}
var utPartner = map[byte]string{'i': "1", 'n': "1", 's': `"t"`, 'b': "true"}

var utXs = []string{"n", "r", "i32", "f", "c", "s", "b", "by", "u", "mi", "ms", "TK", "TS", "4", "e"}
var utNumXs = []string{"n", "r", "f", "c", "mi", "TK", "4", "'a'", "K", "1.5"}

type utFilter struct {
	where string                               // the Where() expression
	text  string                               // for reports
	useX  bool                                 // the verdict depends on $x too
	ok    func(env *utEnv, x, y types.Type) bool // oracle
}

type utEnv struct {
	stringer *types.Interface
	strFn    *types.Func
}

func utIs(name string, kind types.BasicKind, under bool) utFilter {
	if under {
		return utFilter{"m[\"y\"].Type.Underlying().Is(`" + name + "`)", "m[\"y\"].Type.Underlying().Is(`" + name + "`)", false,
			func(_ *utEnv, _, y types.Type) bool { return types.Identical(types.Typ[kind], y.Underlying()) }}
	}
	return utFilter{"m[\"y\"].Type.Is(`" + name + "`)", "m[\"y\"].Type.Is(`" + name + "`)", false,
		func(_ *utEnv, _, y types.Type) bool { return types.Identical(types.Typ[kind], y) }}
}

var utFilters = []utFilter{
	{`m["x"].Type.IdenticalTo(m["y"])`, `m["x"].Type.IdenticalTo(m["y"])`, true, func(_ *utEnv, x, y types.Type) bool { return types.Identical(x, y) }},
	{`m["y"].Type.IdenticalTo(m["x"])`, `m["y"].Type.IdenticalTo(m["x"])`, true, func(_ *utEnv, x, y types.Type) bool { return types.Identical(y, x) }},
	utIs("int", types.Int, false), utIs("int32", types.Int32, false), utIs("rune", types.Int32, false), utIs("float64", types.Float64, false),
	utIs("complex128", types.Complex128, false), utIs("string", types.String, false), utIs("bool", types.Bool, false), utIs("uint", types.Uint, false),
	utIs("int", types.Int, true), utIs("string", types.String, true), utIs("bool", types.Bool, true),
	{"m[\"y\"].Type.Implements(`fmt.Stringer`)", "m[\"y\"].Type.Implements(`fmt.Stringer`)", false,
		func(env *utEnv, _, y types.Type) bool { return types.Implements(y, env.stringer) }},
	{"m[\"y\"].Type.HasMethod(`fmt.Stringer.String`)", "m[\"y\"].Type.HasMethod(`fmt.Stringer.String`)", false,
		func(env *utEnv, _, y types.Type) bool {
			obj, _, _ := types.LookupFieldOrMethod(y, true, env.strFn.Pkg(), env.strFn.Name())
			fn, ok := obj.(*types.Func)
			return ok && types.Identical(fn.Type(), env.strFn.Type())
		}},
}

func emUntyped(tmp string) *emOut {
	eo := &emOut{}
	name := func(si, fi int) string { return fmt.Sprintf("u%d_%d", si, fi) }
	// ---- rules
	var rb strings.Builder
	rb.WriteString("package gorules\n\nimport \"github.com/quasilyte/go-ruleguard/dsl\"\n\nfunc c14untyped(m dsl.Matcher) {\n")
	for si, sh := range utShapes {
		for fi, fl := range utFilters {
			fmt.Fprintf(&rb, "\tm.Match(`%s`).Where(%s).Report(`%s`)\n", fmt.Sprintf(sh.pat, name(si, fi)), fl.where, name(si, fi))
			eo.Rules++
		}
	}
	rb.WriteString("}\n")
	eng := ruleguard.NewEngine()
	func() {
		defer func() {
			if p := recover(); p != nil {
				eo.LoadErr = fmt.Sprintf("PANIC: %v", p)
			}
		}()
		if err := eng.Load(&ruleguard.LoadContext{Fset: token.NewFileSet()}, "c14untyped.go", strings.NewReader(rb.String())); err != nil {
			eo.LoadErr = err.Error()
		}
	}()
	if eo.LoadErr != "" {
		return eo
	}
	// ---- target
	var b strings.Builder
	b.WriteString("package target\n\nimport \"fmt\"\n" + utDecls + "\n")
	for si := range utShapes {
		for fi := range utFilters {
			if si == 7 {
				fmt.Fprintf(&b, "func %s(interface{}) {}\n", name(si, fi))
			} else {
				fmt.Fprintf(&b, "func %s(a, b interface{}) {}\n", name(si, fi))
			}
		}
	}
	b.WriteString("\nfunc probes() {\n")
	for si, sh := range utShapes {
		for fi, fl := range utFilters {
			xs := []string{"n"}
			if fl.useX {
				xs = utXs
				if sh.xop {
					xs = utNumXs
				}
			}
			for ki := 0; ki < len(sh.kinds); ki++ {
				k := sh.kinds[ki]
				for _, y := range utOperands[k] {
					for _, x := range xs {
						call := fmt.Sprintf(sh.call, name(si, fi), x, y)
						call = strings.ReplaceAll(call, "@", utPartner[k])
						b.WriteString("\t" + call + "\n")
					}
				}
			}
		}
	}
	b.WriteString("}\n")
	t, err := hutil.CheckTarget(tmp+"/untyped", "target.go", []byte(b.String()))
	if err != nil {
		eo.LoadErr = "target: " + err.Error()
		return eo
	}
	reports, pmsg := hutil.Run(eng, t, 0, "", nil)
	if pmsg != "" {
		eo.Panics = append(eo.Panics, "untyped: "+pmsg)
	}
	eo.Runs = 1
	got := map[int]string{}
	for _, r := range reports {
		got[r.Pos] = r.Message
	}
	env := &utEnv{}
	for _, imp := range t.Pkg.Imports() {
		if imp.Path() == "fmt" {
			env.stringer = imp.Scope().Lookup("Stringer").Type().Underlying().(*types.Interface)
			env.strFn = env.stringer.Method(0)
		}
	}
	seen := map[int]bool{}
	probe := func(pos token.Pos, fname string, xn, yn ast.Expr, text string) {
		var si, fi int
		if _, err := fmt.Sscanf(fname, "u%d_%d", &si, &fi); err != nil || si >= len(utShapes) || fi >= len(utFilters) {
			return
		}
		off := t.Fset.Position(pos).Offset
		seen[off] = true
		eo.Probes++
		tx, ty := t.Info.TypeOf(xn), t.Info.TypeOf(yn)
		exp := utFilters[fi].ok(env, tx, ty)
		if exp {
			eo.Positive++
		}
		if bt, ok := ty.(*types.Basic); ok && bt.Info()&types.IsUntyped != 0 {
			eo.Nested++ // here: probes whose $y is recorded with an untyped type
		}
		if exp != (got[off] == fname) {
			eo.NDiffs++
			if len(eo.Diffs) < 12 {
				eo.Diffs = append(eo.Diffs, emDiff{Run: 1, Filter: fmt.Sprintf(utShapes[si].pat, fname) + " with " + utFilters[fi].text, Scope: "probes",
					Decls: utDecls, Expr: text + "   ($x = " + types.ExprString(xn) + ", $y = " + types.ExprString(yn) + ")",
					Type: "$x: " + types.TypeString(tx, nil) + ", $y: " + types.TypeString(ty, nil), Expected: exp, Observed: got[off] == fname})
			}
		}
	}
	operand := func(e ast.Expr, side int) ast.Expr {
		switch e := e.(type) {
		case *ast.BinaryExpr:
			if side == 0 {
				return e.X
			}
			return e.Y
		case *ast.UnaryExpr:
			return e.X
		}
		return e
	}
	ast.Inspect(t.File, func(nd ast.Node) bool {
		switch nd := nd.(type) {
		case *ast.IfStmt:
			if len(nd.Body.List) == 1 {
				if es, ok := nd.Body.List[0].(*ast.ExprStmt); ok {
					if call, ok := es.X.(*ast.CallExpr); ok {
						if id, ok := call.Fun.(*ast.Ident); ok && strings.HasPrefix(id.Name, "u7_") {
							probe(nd.Pos(), id.Name, call.Args[0], nd.Cond, "if "+types.ExprString(nd.Cond)+" { "+types.ExprString(call)+" }")
							return false
						}
					}
				}
			}
		case *ast.CallExpr:
			id, ok := nd.Fun.(*ast.Ident)
			if !ok || !strings.HasPrefix(id.Name, "u") || len(nd.Args) != 2 {
				return true
			}
			var si, fi int
			if _, err := fmt.Sscanf(id.Name, "u%d_%d", &si, &fi); err != nil {
				return true
			}
			x, y := nd.Args[0], nd.Args[1]
			switch si {
			case 1, 4, 5, 6, 8:
				y = operand(y, 0)
			case 2, 9:
				y = operand(y, 1)
			case 3:
				x, y = operand(x, 0), operand(y, 0)
			}
			probe(nd.Pos(), id.Name, x, y, types.ExprString(nd))
		}
		return true
	})
	for off := range got {
		if !seen[off] && len(eo.Stray) < 5 {
			eo.Stray = append(eo.Stray, fmt.Sprintf("untyped: report %q at offset %d belongs to no probe", got[off], off))
		}
	}
	return eo
}
