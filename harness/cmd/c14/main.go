// c14: observations for "xtypes identity / implements agree with go/types, are an equivalence, and relate a type to its
// counterpart from a second independent type-check and to nothing else".
//
// A pool of Go types is written as source (fixed catalogue + seeded random composites and near-miss mutants), type-checked
// TWICE independently (universe 1 and 2). For all pairs the harness records
//
//	x11/x12/x21/x22 : xtypes.Identical (through the verif hook) within and across universes
//	g1/g2           : types.Identical within a universe (the independent oracle)
//	i11/i12/i21     : xtypes.Implements(type, interface)        gi1 : types.Implements
//
// plus every type as a Coq `gtype` term, and the LookupFieldOrMethod results the Implements model takes as input.
// Output: one JSON object on stdout.
package main

import (
	"encoding/json"
	"flag"
	"fmt"
	"go/types"
	"math/rand"
	"os"
	"strings"

	"go/token"

	"verif/harness/internal/gtypes"
	"verif/harness/internal/hutil"

	"github.com/quasilyte/go-ruleguard/ruleguard"
)

const srcTmpl = `package tmpl

type Template struct{ Name string }
type hidden int
type Hid = hidden
type Iface interface {
	Exec(t *Template) error
	secret()
}
type Set[T comparable] map[T]struct{}
type S struct {
	a int
	B string
}
type AnonS = struct {
	a int
	B string
}
type AnonI = interface{ secret() }

func (t *Template) Exec(x *Template) error { return nil }
func (t *Template) secret()                {}
func (t Template) Val() int                { return 0 }
`

const srcGen = `package gen

type L[T any] struct {
	V    T
	next *L[T]
}

func (l *L[T]) Get() T   { var z T; return z }
func (l *L[T]) Len() int { return 0 }

type Pair[K comparable, V any] struct {
	K K
	V V
}
type Getter[T any] interface{ Get() T }
`

const poolHeader = `package pool

import (
	"unsafe"

	ta "example.com/c14/a/tmpl"
	tb "example.com/c14/b/tmpl"
	"example.com/c14/gen"
)

var _ unsafe.Pointer
var _ ta.Template
var _ tb.Template
var _ gen.L[int]

type A = int
type AP = *int
type AS = []string
type AA = A
type A8 = byte
type ATa = ta.Template
type AL = gen.L[int]
type AStr = struct{ X A }
type N int
type N2 int
type PN *N
type RecI interface{ m() RecI }
type RecJ interface{ m() RecJ }
type Rd interface{ Read(p []byte) (int, error) }
type RdA interface{ Read(p []A8) (A, error) }
type RdW interface {
	Rd
	Write(p []byte) (int, error)
}
type Str struct {
	a int
	B string ` + "`json:\"b\"`" + `
}
type Impl struct{}

func (Impl) Read(p []byte) (int, error) { return 0, nil }
func (Impl) m() RecI                    { return nil }
func (Impl) Get() int                   { return 0 }

type PImpl struct{}

func (*PImpl) Read(p []byte) (int, error)  { return 0, nil }
func (*PImpl) Write(p []byte) (int, error) { return 0, nil }

type Emb struct{ Impl }
type EmbP struct{ *PImpl }
type F func(int) string
type FieldNotMethod struct {
	Read func(p []byte) (int, error)
}
type WrongSig struct{}

func (WrongSig) Read(p []int8) (int, error) { return 0, nil }

type TaUser struct{}

func (TaUser) Exec(t *ta.Template) error { return nil }

type TbUser struct{}

func (TbUser) Exec(t *tb.Template) error { return nil }

type ExecA interface{ Exec(t *ta.Template) error }
type ExecB interface{ Exec(t *tb.Template) error }
type CycT interface{ m() interface{ CycT } }
type CycU interface{ m() interface{ CycU } }
type CycV interface {
	m() interface{ CycV }
	n()
}
type Num interface{ ~int | ~float64 }
type Num2 interface{ ~int | ~string }
type Cmp interface{ comparable }

func GF[T any](x T) T       { return x }
func GG[U any](x U) U       { return x }
func GH[T any](x T) []T     { return nil }
func GC[T comparable](x T) T { return x }
func NG(x int) int          { return x }

func locals() {
	type Loc int
	type Loc2 int
	var a Loc
	var b Loc2
	_, _ = a, b
}
func locals2() {
	type Loc int
	var a Loc
	_ = a
}

type MutA interface{ a() interface{ MutB } }
type MutB interface{ a() interface{ MutA } }
type CycP interface{ m(x interface{ CycP }) }

var (
	XMutA   interface{ MutA }
	XMutB   interface{ MutB }
	XCycP   interface{ CycP }
	XDiv1   interface{ m() interface{ m() int } }
	XDiv2   interface {
		m() interface{ m() interface{ m() int } }
	}
	XDiv3 interface {
		m() interface {
			m() interface{ m() interface{ m() int } }
		}
	}
	XDivN interface {
		m() interface{ m() interface{ n() interface{ CycT } } }
	}
	XUnr1 interface{ m() interface{ CycT } }
	XUnr2 interface{ m() interface{ m() interface{ CycT } } }
	XUnrU interface{ m() interface{ m() interface{ CycU } } }
	XUnrV interface{ m() interface{ m() interface{ CycV } } }
	XDivS interface {
		m() interface{ m() interface{ m() string } }
	}
)

var (
	XCycT interface{ CycT }
	XCycU interface{ CycU }
	XCycV interface{ CycV }
	XCycT2 interface{ m() interface{ CycT } }
)

type TP1[T any, U comparable] struct {
	F0 T
	F1 U
	F2 []T
	F3 func(T) U
	F4 gen.L[T]
	F5 map[U]T
	F6 *TP1[T, U]
}
type TP2[T any, U comparable] struct {
	F0 T
	F1 U
	F2 []T
	F3 func(T) U
	F4 gen.L[T]
	F5 map[U]T
	F6 *TP2[T, U]
}
`

// ---- type expression trees (rendered to Go source inside package pool)

type tx struct {
	k    string // leaf, ptr, slice, arr, map, chan, func, struct, iface
	s    string // leaf text / array length / chan prefix / struct tag flavour
	subs []*tx
	n    int // func: number of params;  variadic flag in s
}

var leaves = []string{
	"int", "string", "byte", "uint8", "rune", "int32", "bool", "float64", "error", "any", "interface{}", "unsafe.Pointer",
	"ta.Template", "tb.Template", "ta.S", "tb.S", "ta.Hid", "tb.Hid", "ta.Iface", "tb.Iface", "ta.AnonS", "tb.AnonS", "ta.AnonI", "tb.AnonI",
	"gen.L[int]", "gen.L[string]", "gen.L[A]", "gen.L[ta.Template]", "gen.L[tb.Template]", "gen.L[gen.L[int]]",
	"gen.Pair[string, int]", "gen.Pair[int, string]", "ta.Set[int]", "tb.Set[int]", "ta.Set[string]",
	"A", "AP", "AS", "AA", "A8", "ATa", "AL", "AStr", "N", "N2", "PN", "RecI", "RecJ", "Rd", "RdA", "RdW", "Str", "Impl", "PImpl",
	"Emb", "EmbP", "F", "FieldNotMethod", "WrongSig", "TaUser", "TbUser", "ExecA", "ExecB",
	"gen.Getter[int]", "gen.Getter[string]", "TP1[int, string]", "TP2[int, string]", "TP1[A, string]",
}

// groups of leaves that are easily confused: a mutant swaps a leaf for another member of its group
var confusable = [][]string{
	{"int", "A", "AA", "N", "N2", "int32", "rune"},
	{"byte", "uint8", "A8", "int"},
	{"ta.Template", "tb.Template", "ATa"},
	{"ta.S", "tb.S", "Str"}, {"ta.AnonS", "tb.AnonS", "struct{ a int; B string }"}, {"ta.AnonI", "tb.AnonI", "interface{ secret() }"},
	{"ta.Hid", "tb.Hid", "int"},
	{"ta.Iface", "tb.Iface"},
	{"gen.L[int]", "gen.L[string]", "gen.L[A]", "AL", "gen.L[N]"},
	{"gen.L[ta.Template]", "gen.L[tb.Template]", "gen.L[ATa]"},
	{"gen.Pair[string, int]", "gen.Pair[int, string]", "gen.Pair[string, string]", "gen.Pair[string, N]", "gen.Pair[string, A]"},
	{"ta.Set[int]", "tb.Set[int]", "ta.Set[string]", "ta.Set[A]"},
	{"any", "interface{}", "error"},
	{"RecI", "RecJ"}, {"Rd", "RdA", "RdW"}, {"AP", "*int", "PN", "*N"}, {"AS", "[]string"},
	{"TP1[int, string]", "TP2[int, string]", "TP1[A, string]", "TP1[int, int]"},
	{"ExecA", "ExecB"}, {"Impl", "PImpl", "Emb", "EmbP"}, {"string", "int"}, {"bool", "int"}, {"float64", "int"},
	{"gen.Getter[int]", "gen.Getter[string]"},
}

var mapKeys = []string{"int", "string", "N", "A", "ta.Hid", "tb.Hid", "byte", "ta.Template", "tb.Template"}

func (t *tx) render() string {
	switch t.k {
	case "leaf":
		return t.s
	case "ptr":
		return "*" + t.subs[0].render()
	case "slice":
		return "[]" + t.subs[0].render()
	case "arr":
		return "[" + t.s + "]" + t.subs[0].render()
	case "map":
		return "map[" + t.subs[0].render() + "]" + t.subs[1].render()
	case "chan":
		// parenthesise a channel element so that `chan (<-chan T)` parses as intended
		return t.s + " (" + t.subs[0].render() + ")"
	case "func":
		var ps, rs []string
		for i, s := range t.subs {
			r := s.render()
			if i < t.n {
				if t.s == "variadic" && i == t.n-1 {
					r = "..." + r
				}
				ps = append(ps, r)
			} else {
				rs = append(rs, r)
			}
		}
		return "func(" + strings.Join(ps, ", ") + ") (" + strings.Join(rs, ", ") + ")"
	case "struct":
		var fs []string
		for i, s := range t.subs {
			name := fmt.Sprintf("f%d", i)
			if (i+len(t.s))%2 == 1 {
				name = fmt.Sprintf("G%d", i)
			}
			tag := ""
			if t.s == "tag" && i == 0 {
				tag = " `k:\"v\"`"
			} else if t.s == "tag2" && i == 0 {
				tag = " `k:\"w\"`"
			}
			fs = append(fs, name+" "+s.render()+tag)
		}
		return "struct{ " + strings.Join(fs, "; ") + " }"
	case "estruct": // first field embedded (must be a named leaf); flavour "named": a field named exactly like its type instead
		var fs []string
		for i, s := range t.subs {
			if i == 0 && t.s == "named" {
				fs = append(fs, embeddedName(s.render())+" "+s.render())
			} else if i == 0 && t.s == "pnamed" {
				fs = append(fs, embeddedName(s.render())+" *"+s.render())
			} else if i == 0 && t.s == "ptr" {
				fs = append(fs, "*"+s.render())
			} else if i == 0 {
				fs = append(fs, s.render())
			} else {
				fs = append(fs, fmt.Sprintf("f%d %s", i, s.render()))
			}
		}
		return "struct{ " + strings.Join(fs, "; ") + " }"
	case "iface":
		// t.s: "M" exported method only, "Mn" exported + unexported
		// "Me" / "Mne" / "Mnee": the same method sets spelled through embedded interface literals (interface identity is the
		// method set, whatever the embedding structure)
		m := "M(" + t.subs[0].render() + ") " + t.subs[1].render()
		switch t.s {
		case "M":
			return "interface{ " + m + " }"
		case "Me":
			return "interface{ interface{ " + m + " } }"
		case "Mn":
			return "interface{ " + m + "; n() }"
		case "Mne":
			return "interface{ interface{ " + m + " }; n() }"
		case "Mnee":
			return "interface{ interface{ n() }; interface{ " + m + " } }"
		}
		panic("bad iface flavour " + t.s)
	}
	panic("bad tx")
}

var ifaceFlavours = []string{"M", "Mn", "Me", "Mne", "Mnee"}

// estruct flavours: embedded T, field `T T`, embedded *T, field `T *T` (interfaces cannot be embedded through a pointer)
var estructFlavours = []string{"", "named", "ptr", "pnamed"}

// embeddedName: the field name of an embedded field of the named type written as s (pkg.T[args] -> T)
func embeddedName(s string) string {
	if i := strings.Index(s, "["); i >= 0 {
		s = s[:i]
	}
	return s[strings.LastIndex(s, ".")+1:]
}

func leaf(s string) *tx { return &tx{k: "leaf", s: s} }

func genTx(r *rand.Rand, depth int) *tx {
	if depth <= 0 || r.Intn(5) == 0 {
		return leaf(leaves[r.Intn(len(leaves))])
	}
	sub := func() *tx { return genTx(r, depth-1) }
	switch r.Intn(11) {
	case 0:
		return &tx{k: "ptr", subs: []*tx{sub()}}
	case 1:
		return &tx{k: "slice", subs: []*tx{sub()}}
	case 2:
		return &tx{k: "arr", s: []string{"0", "2", "3"}[r.Intn(3)], subs: []*tx{sub()}}
	case 3:
		return &tx{k: "map", subs: []*tx{leaf(mapKeys[r.Intn(len(mapKeys))]), sub()}}
	case 4:
		return &tx{k: "chan", s: []string{"chan", "<-chan", "chan<-"}[r.Intn(3)], subs: []*tx{sub()}}
	case 5, 6:
		np, nr := r.Intn(3), r.Intn(3)
		t := &tx{k: "func", n: np}
		for i := 0; i < np+nr; i++ {
			t.subs = append(t.subs, sub())
		}
		if np > 0 && r.Intn(3) == 0 {
			t.s = "variadic"
		}
		return t
	case 7, 8:
		t := &tx{k: "struct", s: []string{"", "x", "tag", "tag2"}[r.Intn(4)]}
		for i, n := 0, 1+r.Intn(3); i < n; i++ {
			t.subs = append(t.subs, sub())
		}
		return t
	case 9:
		emb := []string{"ta.Template", "tb.Template", "Impl", "N", "Rd", "ATa", "gen.L[int]", "gen.L[string]"}
		e := &tx{k: "estruct", subs: []*tx{leaf(emb[r.Intn(len(emb))]), sub()}}
		if !strings.HasPrefix(e.subs[0].s, "Rd") { // an interface cannot be embedded through a pointer; keep the flavours comparable
			e.s = estructFlavours[r.Intn(len(estructFlavours))]
		} else if r.Intn(2) == 0 {
			e.s = "named"
		}
		return e
	default:
		return &tx{k: "iface", s: ifaceFlavours[r.Intn(len(ifaceFlavours))], subs: []*tx{sub(), sub()}}
	}
}

func (t *tx) clone() *tx {
	c := *t
	c.subs = nil
	for _, s := range t.subs {
		c.subs = append(c.subs, s.clone())
	}
	return &c
}

func (t *tx) nodes(acc *[]*tx) {
	*acc = append(*acc, t)
	for _, s := range t.subs {
		s.nodes(acc)
	}
}

// mutate changes exactly one small thing: a leaf (to a confusable one), a chan direction, an array length,
// a variadic flag, a struct tag / field-name flavour, an interface flavour.
func mutate(r *rand.Rand, t *tx) *tx {
	c := t.clone()
	var ns []*tx
	c.nodes(&ns)
	for try := 0; try < 20; try++ {
		n := ns[r.Intn(len(ns))]
		switch n.k {
		case "leaf":
			if n.s == "" {
				continue
			}
			var cands []string
			for _, g := range confusable {
				for _, m := range g {
					if m == n.s {
						cands = append(cands, g...)
					}
				}
			}
			if len(cands) == 0 {
				continue
			}
			pick := cands[r.Intn(len(cands))]
			if pick == n.s {
				continue
			}
			n.s = pick
			return c
		case "chan":
			n.s = []string{"chan", "<-chan", "chan<-"}[r.Intn(3)]
			return c
		case "arr":
			n.s = []string{"0", "2", "3"}[r.Intn(3)]
			return c
		case "func":
			if n.n > 0 {
				if n.s == "variadic" {
					n.s = ""
				} else {
					n.s = "variadic"
				}
				return c
			}
		case "struct":
			n.s = []string{"", "x", "tag", "tag2"}[r.Intn(4)]
			return c
		case "iface":
			n.s = ifaceFlavours[r.Intn(len(ifaceFlavours))]
			return c
		case "estruct": // embedded <-> named like its type (<-> through a pointer)
			if strings.HasPrefix(n.subs[0].s, "Rd") {
				n.s = map[string]string{"": "named", "named": ""}[n.s]
			} else {
				n.s = estructFlavours[r.Intn(len(estructFlavours))]
			}
			return c
		}
	}
	return c
}

var fixed = []string{
	"bool", "int8", "int16", "int64", "uint", "uint16", "uint32", "uint64", "uintptr", "float32", "float64", "complex64", "complex128",
	"int", "A", "AA", "N", "N2", "byte", "uint8", "A8", "rune", "int32", "string", "error", "any", "interface{}", "unsafe.Pointer",
	"*int", "AP", "*A", "**int", "*AP", "PN", "*N", "[]string", "AS", "[]AS", "[][]string", "[2]int", "[3]int", "[2]A", "[2]N",
	"map[string]int", "map[string]A", "map[A]string", "map[int]string", "map[N]string",
	"chan int", "<-chan int", "chan<- int", "chan A",
	"func()", "func(int)", "func(A)", "func(int) string", "func(...int)", "func([]int)", "func(...A)", "func(int, ...string)",
	"func(int, []string)", "func() (int, error)", "func() (A, error)", "func(int) (string)", "F",
	"struct{}", "struct{ a int }", "struct{ a A }", "struct{ A int }", "struct{ a int; B string }", "Str",
	"struct{ a int; B string `json:\"b\"` }", "struct{ a int; B string `json:\"c\"` }", "struct{ X int }", "AStr", "struct{ X A }",
	"ta.AnonS", "tb.AnonS", "ta.AnonI", "tb.AnonI", "struct{ ta.Template }", "struct{ tb.Template }", "struct{ Template ta.Template }", "struct{ ATa }", "ta.S", "tb.S",
	"ta.Template", "tb.Template", "ATa", "*ta.Template", "*tb.Template", "*ATa", "ta.Hid", "tb.Hid", "ta.Iface", "tb.Iface",
	"gen.L[int]", "gen.L[string]", "AL", "gen.L[A]", "gen.L[N]", "*gen.L[int]", "*gen.L[string]", "gen.L[gen.L[int]]", "gen.L[gen.L[string]]",
	"gen.L[ta.Template]", "gen.L[tb.Template]", "gen.Pair[string, int]", "gen.Pair[int, string]", "gen.Pair[string, A]",
	"ta.Set[int]", "tb.Set[int]", "ta.Set[string]",
	"RecI", "RecJ", "interface{ m() RecI }", "interface{ m() RecJ }", "Rd", "RdA", "RdW", "interface{ Read(p []byte) (int, error) }",
	"interface{ Read(p []byte) (int, error); Write(p []byte) (int, error) }", "interface{ Get() int }", "gen.Getter[int]", "gen.Getter[string]",
	"interface{ M() }", "interface{ m() }", "interface{ M(); m() }", "interface{ secret() }", "ExecA", "ExecB",
	"interface{ Exec(t *ta.Template) error }", "interface{ Exec(t *tb.Template) error }", "interface{ Val() int }", "interface{ Len() int }",
	"Impl", "*Impl", "PImpl", "*PImpl", "Emb", "EmbP", "*Emb", "FieldNotMethod", "WrongSig", "TaUser", "TbUser",
	"TP1[int, string]", "TP2[int, string]", "TP1[A, string]", "TP1[string, int]", "TP1[int, int]", "TP1[int, A]",
	"gen.Pair[string, string]", "gen.Pair[string, N]", "gen.Pair[A, N]", "gen.Pair[int, N]",
	"func() (int, string)", "func(int, string)", "func(string, int)", "func(int, string) string", "func(int) (string, string)",
	"map[string]string", "struct{ a int; B int }", "struct{ a int; B string; c int }", "[2]string", "[]int", "*string", "chan string",
	"interface{ M(int) }", "interface{ M(string) }", "interface{ M() int }", "interface{ M() string }", "interface{ M(); N() }",
	// one method set under several spellings (embedding structure, method order, parameter names) and near misses
	"interface{ Rd; Write(p []byte) (int, error) }", "interface{ Write([]byte) (int, error); Rd }", "interface{ RdW }", "interface{ Rd }",
	"interface{ interface{ Rd }; interface{ Write(p []byte) (int, error) } }", "interface{ Rd; Write(p []byte) (int, bool) }",
	"interface{ interface{} }", "interface{ any }", "interface{ interface{ interface{} } }", "interface{ error }", "interface{ Error() string }",
	"interface{ m(); M() }", "interface{ interface{ M() }; m() }", "interface{ interface{ m() }; interface{ M() } }", "interface{ RecI }",
	"interface{ interface{ M() } }", "interface{ N(); M() }", "interface{ ta.AnonI }", "interface{ tb.AnonI }", "interface{ ta.Iface }",
	"interface{ gen.Getter[int] }", "interface{ gen.Getter[string] }", "interface{ ExecA }", "interface{ ExecB }",
	"func(interface{ Rd }) interface{ any }", "func(interface{ Read(p []byte) (int, error) }) interface{}",
	"struct{ a, b int }", "struct{ a int; b int }", "func(a, b int)", "func(int, int)", "func(x int) (r string)",
	// an embedded field vs a field NAMED exactly like its type (same name, type, tag: only embeddedness differs): package-level
	// and qualified names, pointers, aliases, instantiations, predeclared names, interfaces; two embedded fields whose types are
	// identical but written with different names (the field name is the name as written)
	"struct{ N }", "struct{ N N }", "struct{ *N }", "struct{ N *N }", "struct{ A }", "struct{ A A }", "struct{ A int }", "struct{ int }", "struct{ int int }",
	"struct{ ATa ta.Template }", "struct{ ATa ATa }", "struct{ *ta.Template }", "struct{ Template *ta.Template }", "struct{ *ATa }", "struct{ ATa *ta.Template }",
	"struct{ gen.L[int] }", "struct{ L gen.L[int] }", "struct{ *gen.L[int] }", "struct{ L *gen.L[int] }", "struct{ AL }", "struct{ AL AL }", "struct{ AL gen.L[int] }",
	"struct{ gen.L[string] }", "struct{ L gen.L[string] }", "struct{ Rd }", "struct{ Rd Rd }", "struct{ error }", "struct{ error error }",
	"struct{ Impl }", "struct{ Impl Impl }", "struct{ byte }", "struct{ uint8 }", "struct{ A8 }", "struct{ A8 byte }", "struct{ AA }", "struct{ AA A }",
	"struct{ N; B string }", "struct{ N N; B string }", "struct{ a int; Str }", "struct{ a int; Str Str }", "struct{ N `k:\"v\"` }", "struct{ N N `k:\"v\"` }",
	"*struct{ N }", "*struct{ N N }", "[]struct{ ta.Template }", "[]struct{ Template ta.Template }", "func(struct{ N }) struct{ N N }", "func(struct{ N N }) struct{ N }",
	// boundary values. A zero-length array is an array type like any other (only a NEGATIVE length stands for "unknown"): every
	// length 0 / 1 / 2 / 4 over one element type, at the top and below every constructor, zero in either position of a nested array;
	// identical zero-length arrays under several spellings; the empty struct / parameter list / result list / method set next to
	// their one-member neighbours
	"[0]int", "[1]int", "[4]int", "[0]A", "[0x0]int", "[0]N", "[0]string", "[0]byte", "[0]uint8", "[8]byte", "[0]any", "[0]interface{}",
	"[0][2]int", "[0][3]int", "[2][0]int", "[2][3]int", "[0][0]int", "[0][1]int", "[1][0]int", "*[0]int", "*[2]int", "[][0]int", "[][2]int",
	"func([0]int)", "func([2]int)", "func() [0]int", "func() [2]int", "struct{ a [0]int }", "struct{ a [2]int }", "struct{ _ [0]int; v int }", "struct{ _ [4]int; v int }",
	"chan [0]int", "chan [2]int", "map[[0]int]int", "map[[2]int]int", "map[int][0]int", "map[int][2]int", "gen.L[[0]int]", "gen.L[[2]int]",
	"[0]struct{}", "[1]struct{}", "[0]gen.L[int]", "[2]gen.L[int]", "[0]gen.L[string]", "[0]ta.Template", "[0]tb.Template", "[1]ta.Template",
	"interface{ M([0]int) }", "interface{ M([2]int) }", "struct{ _ int }", "struct{ a struct{} }", "*struct{}", "[]struct{}", "[]interface{}",
	"func() ()", "func(struct{})", "func() struct{}", "func(...struct{})", "interface{ interface{}; M() }", "map[struct{}]struct{}", "map[[0]int][0]int",
}

// the generic types themselves (what Scope.Lookup(name).Type() -- hence ctx.GetType(`pkg.Name`) -- gives for a generic declaration:
// the origin type, no type arguments) next to their instantiations: identical to itself and to its counterpart of the other
// type-check, to no instantiation
var origins = [][2]string{{"example.com/c14/gen", "L"}, {"example.com/c14/gen", "Pair"}, {"example.com/c14/gen", "Getter"},
	{"example.com/c14/a/tmpl", "Set"}, {"example.com/c14/b/tmpl", "Set"}, {"example.com/c14/pool", "TP1"}, {"example.com/c14/pool", "TP2"}}

type out struct {
	Mode      string     `json:"mode"`
	Seed      int64      `json:"seed"`
	N         int        `json:"n"`
	Exprs     []string   `json:"exprs"`
	HasTP     []bool     `json:"has_tp"`
	Terms1    []string   `json:"terms1"`
	Terms2    []string   `json:"terms2"`
	X11       []string   `json:"x11"`
	X12       []string   `json:"x12"`
	X21       []string   `json:"x21"`
	X22       []string   `json:"x22"`
	G1        []string   `json:"g1"`
	G2        []string   `json:"g2"`
	Ifaces    []int      `json:"ifaces"`
	IfTerms1  []string   `json:"ifterms1"`
	IfTerms2  []string   `json:"ifterms2"`
	I11       []string   `json:"i11"`
	I12       []string   `json:"i12"`
	I21       []string   `json:"i21"`
	GI1       []string   `json:"gi1"`
	GI2       []string   `json:"gi2"`
	MethodIDs []string   `json:"method_ids"`
	IsIface   []bool     `json:"is_iface"`
	Lookups1  [][]string `json:"lookups1"`
	Lookups2  [][]string `json:"lookups2"`
	Panics    []string   `json:"panics"`
	// extra pool: types outside the term model, compared with go/types only
	XNames      []string   `json:"xnames"`
	XClass      []string   `json:"xclass"`
	XX11        []string   `json:"xx11"`
	XX12        []string   `json:"xx12"`
	XX21        []string   `json:"xx21"`
	XG1         []string   `json:"xg1"`
	Unsupported string     `json:"unsupported"`
	Engine      *engineOut `json:"engine,omitempty"`
	Matrix      *emOut     `json:"matrix,omitempty"`
	Untyped     *emOut     `json:"untyped,omitempty"`
	Lookalike   *emOut     `json:"lookalike,omitempty"`
	Error       string     `json:"error,omitempty"`
}

// ---- engine level: ONE engine over two independent type-checks of the same target package. Whatever the engine keeps
// between runs (ctx.GetInterface / GetType results are cached by name in the engine state) belongs to the first universe,
// so the second run only works if every relation goes through xtypes.
type engineOut struct {
	LoadErr string     `json:"load_err"`
	Runs    [][]string `json:"runs"`   // per run: sorted "rule probe" report messages
	Oracle  [][]string `json:"oracle"` // per run: what go/types says inside that run's own universe
	Panics  []string   `json:"panics"`
}

const engRules = "package gorules\n\nimport (\n\t\"github.com/quasilyte/go-ruleguard/dsl\"\n\t\"github.com/quasilyte/go-ruleguard/dsl/types\"\n)\n\n" +
	"func implWT(ctx *dsl.VarFilterContext) bool {\n\treturn types.Implements(ctx.Type, ctx.GetInterface(`io.WriterTo`))\n}\n\n" +
	"func identBuf(ctx *dsl.VarFilterContext) bool {\n\treturn types.Identical(ctx.Type, ctx.GetType(`bytes.Buffer`))\n}\n\n" +
	"func c14engine(m dsl.Matcher) {\n" +
	"\tm.Match(`probeA($x)`).Where(m[\"x\"].Filter(implWT)).Report(`customImplements $x`)\n" +
	"\tm.Match(`probeB($x)`).Where(m[\"x\"].Type.Implements(`io.WriterTo`)).Report(`filterImplements $x`)\n" +
	"\tm.Match(`probeC($x)`).Where(m[\"x\"].Filter(identBuf)).Report(`customIdentical $x`)\n" +
	"\tm.Match(`probeD($x)`).Where(m[\"x\"].Type.HasMethod(`io.WriterTo.WriteTo`)).Report(`filterHasMethod $x`)\n" +
	"\tm.Match(`probeE($x, $y)`).Where(m[\"x\"].Type.IdenticalTo(m[\"y\"])).Report(`filterIdenticalTo $x`)\n" +
	"\tm.Match(`probeF($x)`).Where(m[\"x\"].Type.Is(`*bytes.Buffer`)).Report(`filterIs $x`)\n" +
	"}\n"

const engTarget = `package target

import (
	"bytes"
	"io"
)

type W struct{}

func (W) WriteTo(w io.Writer) (int64, error) { return 0, nil }

type NotW struct{}

func (NotW) WriteTo(w *bytes.Buffer) (int64, error) { return 0, nil }

type PW struct{}

func (*PW) WriteTo(w io.Writer) (int64, error) { return 0, nil }

func probeA(interface{})    {}
func probeB(interface{})    {}
func probeC(interface{})    {}
func probeD(interface{})    {}
func probeE(a, b interface{}) {}
func probeF(interface{})    {}

var (
	v0 W
	v1 NotW
	v2 bytes.Buffer
	v3 *bytes.Buffer
	v4 int
	v5 io.WriterTo
	v6 PW
	v7 *PW
	v8 io.Writer
)

func use() {
	probeA(v0); probeA(v1); probeA(v2); probeA(v3); probeA(v4); probeA(v5); probeA(v6); probeA(v7); probeA(v8)
	probeB(v0); probeB(v1); probeB(v2); probeB(v3); probeB(v4); probeB(v5); probeB(v6); probeB(v7); probeB(v8)
	probeC(v0); probeC(v1); probeC(v2); probeC(v3); probeC(v4); probeC(v5); probeC(v6); probeC(v7); probeC(v8)
	probeD(v0); probeD(v1); probeD(v2); probeD(v3); probeD(v4); probeD(v5); probeD(v6); probeD(v7); probeD(v8)
	probeF(v0); probeF(v1); probeF(v2); probeF(v3); probeF(v4); probeF(v5); probeF(v6); probeF(v7); probeF(v8)
	probeE(v2, v2); probeE(v3, &v2); probeE(v0, v1); probeE(v5, v8); probeE(v7, &v6); probeE(v4, v4)
}
`

func engineSection(tmp string) *engineOut {
	eo := &engineOut{}
	fset := token.NewFileSet()
	eng := ruleguard.NewEngine()
	func() {
		defer func() {
			if p := recover(); p != nil {
				eo.LoadErr = fmt.Sprintf("PANIC: %v", p)
			}
		}()
		if err := eng.Load(&ruleguard.LoadContext{Fset: fset}, "c14engine.go", strings.NewReader(engRules)); err != nil {
			eo.LoadErr = err.Error()
		}
	}()
	if eo.LoadErr != "" {
		return eo
	}
	for run := 0; run < 2; run++ {
		t, err := hutil.CheckTarget(fmt.Sprintf("%s/run%d", tmp, run), "target.go", []byte(engTarget))
		if err != nil {
			eo.LoadErr = "target: " + err.Error()
			return eo
		}
		reports, pmsg := hutil.Run(eng, t, 0, "", nil)
		if pmsg != "" {
			eo.Panics = append(eo.Panics, fmt.Sprintf("run %d: %s", run, pmsg))
		}
		var msgs []string
		for _, r := range reports {
			msgs = append(msgs, r.Message)
		}
		sortStrings(msgs)
		eo.Runs = append(eo.Runs, msgs)
		// oracle inside this run's universe
		sc := t.Pkg.Scope()
		var iop, bp *types.Package
		for _, imp := range t.Pkg.Imports() {
			if imp.Path() == "io" {
				iop = imp
			}
			if imp.Path() == "bytes" {
				bp = imp
			}
		}
		wt := iop.Scope().Lookup("WriterTo").Type().Underlying().(*types.Interface)
		var wtFn *types.Func
		for i := 0; i < wt.NumMethods(); i++ {
			wtFn = wt.Method(i)
		}
		buf := bp.Scope().Lookup("Buffer").Type()
		var exp []string
		vt := func(i int) types.Type { return sc.Lookup(fmt.Sprintf("v%d", i)).Type() }
		for i := 0; i < 9; i++ {
			name := fmt.Sprintf("v%d", i)
			if types.Implements(vt(i), wt) {
				exp = append(exp, "customImplements "+name, "filterImplements "+name)
			}
			if types.Identical(vt(i), buf) {
				exp = append(exp, "customIdentical "+name)
			}
			if obj, _, _ := types.LookupFieldOrMethod(vt(i), true, wtFn.Pkg(), wtFn.Name()); obj != nil {
				if f, ok := obj.(*types.Func); ok && types.Identical(f.Type(), wtFn.Type()) {
					exp = append(exp, "filterHasMethod "+name)
				}
			}
			if types.Identical(vt(i), types.NewPointer(buf)) {
				exp = append(exp, "filterIs "+name)
			}
		}
		pairs := [][2]types.Type{{vt(2), vt(2)}, {vt(3), types.NewPointer(vt(2))}, {vt(0), vt(1)}, {vt(5), vt(8)}, {vt(7), types.NewPointer(vt(6))}, {vt(4), vt(4)}}
		firsts := []string{"v2", "v3", "v0", "v5", "v7", "v4"}
		for i, pr := range pairs {
			if types.Identical(pr[0], pr[1]) {
				exp = append(exp, "filterIdenticalTo "+firsts[i])
			}
		}
		sortStrings(exp)
		eo.Oracle = append(eo.Oracle, exp)
	}
	return eo
}

func bit(b bool) byte {
	if b {
		return '1'
	}
	return '0'
}

func main() {
	seed := flag.Int64("seed", 1, "PRNG seed")
	nrand := flag.Int("rand", 30, "number of random composite types (each also yields one near-miss mutant)")
	depth := flag.Int("depth", 3, "max depth of random composites")
	dump := flag.Bool("dumpsrc", false, "print the generated pool source to stderr")
	tmp := flag.String("tmp", "", "scratch directory (enables the engine-level two-type-check section)")
	flag.Parse()
	o := out{Mode: os.Getenv("GODEBUG"), Seed: *seed}
	enc := json.NewEncoder(os.Stdout)
	r := rand.New(rand.NewSource(*seed))

	exprs := append([]string{}, fixed...)
	for i := 0; i < *nrand; i++ {
		t := genTx(r, *depth)
		exprs = append(exprs, t.render(), mutate(r, t).render())
	}
	var sb strings.Builder
	sb.WriteString(poolHeader)
	sb.WriteString("\nvar (\n")
	for i, e := range exprs {
		fmt.Fprintf(&sb, "\tV%03d %s\n", i, e)
	}
	sb.WriteString(")\n")
	if *dump {
		fmt.Fprintln(os.Stderr, sb.String())
	}
	srcs := map[string]string{
		"example.com/c14/a/tmpl": srcTmpl,
		"example.com/c14/b/tmpl": srcTmpl,
		"example.com/c14/gen":    srcGen,
		"example.com/c14/pool":   sb.String(),
	}
	u1, err := gtypes.NewUniverse(1, srcs, nil)
	if err != nil {
		o.Error = err.Error()
		enc.Encode(o)
		os.Exit(1)
	}
	u2, err := gtypes.NewUniverse(2, srcs, nil)
	if err != nil {
		o.Error = err.Error()
		enc.Encode(o)
		os.Exit(1)
	}
	ser := gtypes.NewSer(u1, u2)
	isOrigin := map[int]bool{} // pool indices of the uninstantiated generic types (left out of the Implements section)
	collect := func(u *gtypes.Universe) (ts []types.Type, names []string, hasTP []bool) {
		sc := u.Pkgs["example.com/c14/pool"].Scope()
		for i, e := range exprs {
			ts = append(ts, sc.Lookup(fmt.Sprintf("V%03d", i)).Type())
			names = append(names, e)
			hasTP = append(hasTP, false)
		}
		// types that mention type parameters: field types of the uninstantiated generic structs
		for _, g := range []string{"TP1", "TP2"} {
			st := sc.Lookup(g).Type().Underlying().(*types.Struct)
			for i := 0; i < st.NumFields(); i++ {
				ts = append(ts, st.Field(i).Type())
				names = append(names, fmt.Sprintf("%s.F%d: %s", g, i, st.Field(i).Type()))
				hasTP = append(hasTP, true)
			}
		}
		// the generic types themselves, and composites over them built with the go/types constructors (no source spells these)
		for _, og := range origins {
			ot := u.Pkgs[og[0]].Scope().Lookup(og[1]).Type()
			nm := og[0][strings.LastIndex(og[0], "/")+1:] + "." + og[1]
			for k, t := range []types.Type{ot, types.NewPointer(ot), types.NewSlice(ot)} {
				ts = append(ts, t)
				names = append(names, "origin "+[]string{"", "*", "[]"}[k]+nm+" (Scope.Lookup, no type arguments)")
				hasTP = append(hasTP, false)
				isOrigin[len(ts)-1] = true
			}
		}
		// the untyped basic types (what go/types records for operands of constant expressions): identical to themselves only,
		// never to their default types (int, rune, float64, ...), which are in the pool
		for _, k := range []types.BasicKind{types.UntypedBool, types.UntypedInt, types.UntypedRune, types.UntypedFloat, types.UntypedComplex,
			types.UntypedString, types.UntypedNil} {
			ts = append(ts, types.Typ[k])
			names = append(names, types.Typ[k].String())
			hasTP = append(hasTP, false)
		}
		return
	}
	t1, names, hasTP := collect(u1)
	t2, _, _ := collect(u2)
	n := len(t1)
	o.N, o.Exprs, o.HasTP = n, names, hasTP
	for i := 0; i < n; i++ {
		o.Terms1 = append(o.Terms1, ser.Term(t1[i]))
		o.Terms2 = append(o.Terms2, ser.Term(t2[i]))
	}

	ident := func(x, y types.Type, what string, i, j int) (res bool) {
		defer func() {
			if p := recover(); p != nil {
				o.Panics = append(o.Panics, fmt.Sprintf("%s[%d,%d] %s ~ %s: %v", what, i, j, names[i], names[j], p))
				res = false
			}
		}()
		return ruleguard.VerifXtypesIdentical(x, y)
	}
	matrix := func(a, b []types.Type, what string, f func(x, y types.Type, i, j int) bool) []string {
		rows := make([]string, len(a))
		for i := range a {
			row := make([]byte, len(b))
			for j := range b {
				row[j] = bit(f(a[i], b[j], i, j))
			}
			rows[i] = string(row)
		}
		return rows
	}
	xi := func(what string) func(x, y types.Type, i, j int) bool {
		return func(x, y types.Type, i, j int) bool { return ident(x, y, what, i, j) }
	}
	gi := func(x, y types.Type, i, j int) bool { return types.Identical(x, y) }
	o.X11 = matrix(t1, t1, "x11", xi("x11"))
	o.X12 = matrix(t1, t2, "x12", xi("x12"))
	o.X21 = matrix(t2, t1, "x21", xi("x21"))
	o.X22 = matrix(t2, t2, "x22", xi("x22"))
	o.G1 = matrix(t1, t1, "g1", gi)
	o.G2 = matrix(t2, t2, "g2", gi)

	// ---- extra pool (no terms): cyclic anonymous interfaces, constraint interfaces, generic signatures, local named types
	extra := func(u *gtypes.Universe) (ts []types.Type, names, class []string) {
		pk := u.Pkgs["example.com/c14/pool"]
		sc := pk.Scope()
		add := func(t types.Type, n, c string) {
			ts = append(ts, t)
			names = append(names, n)
			class = append(class, c)
		}
		for _, n := range []string{"XCycT", "XCycU", "XCycV", "XCycT2", "XMutA", "XMutB", "XCycP", "XDiv1", "XDiv2", "XDiv3", "XDivN", "XUnr1", "XUnr2", "XUnrU", "XUnrV", "XDivS"} {
			add(sc.Lookup(n).Type(), n+": "+sc.Lookup(n).Type().String(), "cyclic-interface")
		}
		for _, n := range []string{"CycT", "CycU", "CycV", "MutA", "MutB", "CycP"} {
			add(sc.Lookup(n).Type().Underlying(), n+".Underlying()", "cyclic-interface")
		}
		for _, n := range []string{"Num", "Num2", "Cmp"} {
			add(sc.Lookup(n).Type().Underlying(), n+".Underlying()", "constraint-interface")
		}
		add(types.NewInterfaceType(nil, nil), "interface{}", "constraint-interface")
		for _, n := range []string{"GF", "GG", "GH", "GC", "NG"} {
			add(sc.Lookup(n).Type(), "func "+n+": "+sc.Lookup(n).Type().String(), "generic-signature")
		}
		// function-local named types, in source order
		var locs []*types.TypeName
		for _, obj := range u.Infos["example.com/c14/pool"].Defs {
			if tn, ok := obj.(*types.TypeName); ok && tn.Parent() != sc && tn.Pkg() == pk {
				if _, isTP := tn.Type().(*types.TypeParam); !isTP {
					locs = append(locs, tn)
				}
			}
		}
		for i := range locs {
			for j := i + 1; j < len(locs); j++ {
				if locs[j].Pos() < locs[i].Pos() {
					locs[i], locs[j] = locs[j], locs[i]
				}
			}
		}
		for _, tn := range locs {
			add(tn.Type(), "local "+tn.Name()+"@"+u.Fset.Position(tn.Pos()).String(), "local-named")
		}
		add(sc.Lookup("N").Type(), "N", "local-named")
		return
	}
	e1, xn, xc := extra(u1)
	e2, _, _ := extra(u2)
	o.XNames, o.XClass = xn, xc
	xident := func(what string) func(x, y types.Type, i, j int) bool {
		return func(x, y types.Type, i, j int) (res bool) {
			defer func() {
				if p := recover(); p != nil {
					o.Panics = append(o.Panics, fmt.Sprintf("%s[%d,%d] %s ~ %s: %v", what, i, j, xn[i], xn[j], p))
				}
			}()
			return ruleguard.VerifXtypesIdentical(x, y)
		}
	}
	o.XX11 = matrix(e1, e1, "xx11", xident("xx11"))
	o.XX12 = matrix(e1, e2, "xx12", xident("xx12"))
	o.XX21 = matrix(e2, e1, "xx21", xident("xx21"))
	o.XG1 = matrix(e1, e1, "xg1", gi)

	// ---- implements
	var if1, if2 []types.Type
	for i := 0; i < n; i++ {
		_, ok := t1[i].Underlying().(*types.Interface)
		o.IsIface = append(o.IsIface, ok)
		if ok && !hasTP[i] && !isOrigin[i] {
			o.Ifaces = append(o.Ifaces, i)
			if1 = append(if1, t1[i])
			if2 = append(if2, t2[i])
			o.IfTerms1 = append(o.IfTerms1, ser.Term(t1[i].Underlying()))
			o.IfTerms2 = append(o.IfTerms2, ser.Term(t2[i].Underlying()))
		}
	}
	impl := func(what string) func(v, it types.Type, i, j int) bool {
		return func(v, it types.Type, i, j int) (res bool) {
			defer func() {
				if p := recover(); p != nil {
					o.Panics = append(o.Panics, fmt.Sprintf("%s[%d,%d] %s impl %s: %v", what, i, j, names[i], names[o.Ifaces[j]], p))
					res = false
				}
			}()
			return ruleguard.VerifXtypesImplements(v, it.Underlying().(*types.Interface))
		}
	}
	gimpl := func(v, it types.Type, i, j int) bool { return types.Implements(v, it.Underlying().(*types.Interface)) }
	o.I11 = matrix(t1, if1, "i11", impl("i11"))
	o.I12 = matrix(t1, if2, "i12", impl("i12"))
	o.I21 = matrix(t2, if1, "i21", impl("i21"))
	o.GI1 = matrix(t1, if1, "gi1", gimpl)
	o.GI2 = matrix(t2, if2, "gi2", gimpl)

	// method ids used by the pool's interfaces, with one representative (pkg, name) each
	type mrep struct {
		pkg  *types.Package
		name string
	}
	reps1, reps2 := map[string]mrep{}, map[string]mrep{}
	addIDs := func(ifs []types.Type, reps map[string]mrep) {
		for _, it := range ifs {
			in := it.Underlying().(*types.Interface)
			for k := 0; k < in.NumMethods(); k++ {
				m := in.Method(k)
				if _, ok := reps[m.Id()]; !ok {
					reps[m.Id()] = mrep{m.Pkg(), m.Name()}
				}
			}
		}
	}
	addIDs(if1, reps1)
	addIDs(if2, reps2)
	for id := range reps1 {
		o.MethodIDs = append(o.MethodIDs, id)
	}
	sortStrings(o.MethodIDs)
	look := func(ts []types.Type, reps map[string]mrep) [][]string {
		res := make([][]string, len(ts))
		for i, t := range ts {
			for _, id := range o.MethodIDs {
				rp := reps[id]
				obj, _, _ := types.LookupFieldOrMethod(t, false, rp.pkg, rp.name)
				switch ob := obj.(type) {
				case nil:
					res[i] = append(res[i], "LNone")
				case *types.Func:
					res[i] = append(res[i], "LFunc ("+ser.Term(ob.Type())+")")
				default:
					res[i] = append(res[i], "LVar ("+ser.Term(ob.Type())+")")
				}
			}
		}
		return res
	}
	o.Lookups1 = look(t1, reps1)
	o.Lookups2 = look(t2, reps2)
	o.Unsupported = ser.Unsupported
	if *tmp != "" {
		o.Engine = engineSection(*tmp)
		o.Matrix = emMatrix(*tmp, *seed)
		o.Untyped = emUntyped(*tmp)
		o.Lookalike = emLookalike(*seed)
	}
	enc.Encode(o)
}

func sortStrings(s []string) {
	for i := 1; i < len(s); i++ {
		for j := i; j > 0 && s[j] < s[j-1]; j-- {
			s[j], s[j-1] = s[j-1], s[j]
		}
	}
}
