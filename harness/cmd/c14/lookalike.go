package main

// Engine-level section "lookalike": which package a fully-qualified name stands for when the relation's second operand is
// looked up at RUN time (ctx.GetInterface / ctx.GetType of custom filters resolve through engineState.FindType with the package
// being analysed as the starting point) or at load time (Type.Implements / Type.HasMethod).
//
// `io.Reader` is the Reader of the package whose import path is exactly `io` -- whatever the analysed package happens to
// depend on. The target packages here depend on packages whose paths merely END in the asked path (example.com/x/io,
// github.com/pkg/errors-style: example.com/x/bytes, example.com/y/fmt, golang.org/x/net/context) and declare UNRELATED types
// of the same names, and do or do not depend on the real package as well (directly, through another package, not at all);
// they are run through one engine in several orders (what one package resolved must not leak into the next one).
//
// Oracle: the package with exactly the asked path (an in-memory package of the target's universe, else what the universe's
// own importer returns for that path), then go/types' Implements / Identical inside the target's universe.

import (
	"fmt"
	"go/ast"
	"go/importer"
	"go/token"
	"go/types"
	"sort"
	"strings"

	"verif/harness/internal/gtypes"
	"verif/harness/internal/hutil"

	"github.com/quasilyte/go-ruleguard/ruleguard"
)

// look-alike packages: the last path elements are names of standard packages, the declared names are those packages' names,
// the types have nothing in common with them
var laPkgs = map[string]string{
	"example.com/x/io": "package io\n\ntype Reader interface{ ReadAll() string }\ntype Writer struct{ N int }\ntype WriterTo interface{ WriteTo() }\n" +
		"type Impl struct{}\n\nfunc (Impl) ReadAll() string { return \"\" }\nfunc (Impl) WriteTo()        {}\n",
	"example.com/x/bytes":      "package bytes\n\ntype Buffer struct{ N int }\n\nfunc (*Buffer) String() int { return 0 }\n",
	"example.com/y/fmt":        "package fmt\n\ntype Stringer interface{ Str() string }\ntype S struct{}\n\nfunc (S) Str() string { return \"\" }\n",
	"golang.org/x/net/context": "package context\n\ntype Context interface{ Done() bool }\ntype C struct{}\n\nfunc (C) Done() bool { return false }\n",
	// a package that depends on a look-alike (the look-alike is an INDIRECT dependency of whoever imports this one)
	"example.com/mid": "package mid\n\nimport xio \"example.com/x/io\"\n\ntype M struct{ R xio.Reader }\n\nvar V xio.Impl\n",
}

type laAsk struct {
	kind string // customImplements customIdentical implements hasMethod
	fqn  string
}

var laAsks = []laAsk{
	{"customImplements", "io.Reader"}, {"customImplements", "io.WriterTo"}, {"customImplements", "fmt.Stringer"}, {"customImplements", "context.Context"},
	{"customIdentical", "io.Reader"}, {"customIdentical", "bytes.Buffer"}, {"customIdentical", "io.Writer"},
	{"customImplements", "example.com/x/io.Reader"}, {"customIdentical", "example.com/x/bytes.Buffer"}, {"customImplements", "example.com/y/fmt.Stringer"},
	{"implements", "io.Reader"}, {"implements", "fmt.Stringer"}, {"hasMethod", "io.Reader.Read"},
}

type laTarget struct {
	name    string
	imports []string // `alias "path"`
	needs   []string // look-alike FQN asks are only made from targets that depend on the look-alike
	decls   string
	values  []string
}

const laLocal = `
type RealRd struct{}

func (RealRd) Read(p []byte) (int, error) { return 0, nil }

type FakeRd struct{}

func (FakeRd) ReadAll() string { return "" }

// types of the analysed package itself that are named like the ones asked for (a lookup must not start in the current package's scope)
type Reader interface{ LocalRead() }
type Buffer struct{ local int }
type Stringer interface{ LocalString() }
type LocalRd struct{}

func (LocalRd) LocalRead()   {}
func (LocalRd) LocalString() {}

type Both struct{}

func (Both) Read(p []byte) (int, error) { return 0, nil }
func (Both) ReadAll() string            { return "" }
func (Both) String() string             { return "" }
func (Both) Str() string                { return "" }
func (Both) Done() bool                 { return false }
`

func laTargets() []laTarget {
	loc := []string{"RealRd{}", "FakeRd{}", "Both{}", "0", "LocalRd{}", "Buffer{}", "Reader(nil)", "Stringer(nil)"}
	return []laTarget{
		{"onlyLookalikes", []string{`xio "example.com/x/io"`, `xbytes "example.com/x/bytes"`, `yfmt "example.com/y/fmt"`, `xctx "golang.org/x/net/context"`},
			[]string{"example.com/x/io", "example.com/x/bytes", "example.com/y/fmt"}, "",
			append([]string{"xio.Impl{}", "xio.Writer{}", "xbytes.Buffer{}", "&xbytes.Buffer{}", "yfmt.S{}", "xctx.C{}", "xio.Reader(nil)", "yfmt.Stringer(nil)"}, loc...)},
		{"both", []string{`"io"`, `"bytes"`, `"fmt"`, `xio "example.com/x/io"`, `xbytes "example.com/x/bytes"`, `yfmt "example.com/y/fmt"`},
			[]string{"example.com/x/io", "example.com/x/bytes", "example.com/y/fmt"}, "var _ fmt.Stringer\n",
			append([]string{"xio.Impl{}", "xbytes.Buffer{}", "bytes.Buffer{}", "&bytes.Buffer{}", "io.Reader(nil)", "xio.Reader(nil)", "io.Writer(nil)", "yfmt.S{}", "io.Discard"}, loc...)},
		{"onlyReal", []string{`"io"`, `"bytes"`}, nil, "",
			append([]string{"bytes.Buffer{}", "&bytes.Buffer{}", "io.Reader(nil)", "io.Writer(nil)", "io.Discard"}, loc...)},
		{"indirect", []string{`"example.com/mid"`}, []string{"example.com/x/io"}, "", append([]string{"mid.V", "mid.M{}", "mid.M{}.R"}, loc...)},
		{"nothing", nil, nil, "", loc},
	}
}

func emLookalike(seed int64) *emOut {
	eo := &emOut{}
	// ---- rules: every ask has a probe function of its own
	var rb strings.Builder
	rb.WriteString("package gorules\n\nimport (\n\t\"github.com/quasilyte/go-ruleguard/dsl\"\n\t\"github.com/quasilyte/go-ruleguard/dsl/types\"\n)\n\n")
	for k, a := range laAsks {
		switch a.kind {
		case "customImplements":
			fmt.Fprintf(&rb, "func la%d(ctx *dsl.VarFilterContext) bool {\n\treturn types.Implements(ctx.Type, ctx.GetInterface(`%s`))\n}\n\n", k, a.fqn)
		case "customIdentical":
			fmt.Fprintf(&rb, "func la%d(ctx *dsl.VarFilterContext) bool {\n\treturn types.Identical(ctx.Type, ctx.GetType(`%s`))\n}\n\n", k, a.fqn)
		}
	}
	rb.WriteString("func c14lookalike(m dsl.Matcher) {\n")
	for k, a := range laAsks {
		w := fmt.Sprintf("m[\"x\"].Filter(la%d)", k)
		switch a.kind {
		case "implements":
			w = "m[\"x\"].Type.Implements(`" + a.fqn + "`)"
		case "hasMethod":
			w = "m[\"x\"].Type.HasMethod(`" + a.fqn + "`)"
		}
		fmt.Fprintf(&rb, "\tm.Match(`q%d($x)`).Where(%s).Report(`q%d`)\n", k, w, k)
	}
	rb.WriteString("}\n")
	eo.Rules = len(laAsks)
	targets := laTargets()
	render := func(t laTarget) string {
		var b strings.Builder
		b.WriteString("package " + t.name + "\n\n")
		if len(t.imports) > 0 {
			b.WriteString("import (\n")
			for _, i := range t.imports {
				b.WriteString("\t" + i + "\n")
			}
			b.WriteString(")\n")
		}
		b.WriteString(laLocal + t.decls + "\n")
		for k := range laAsks {
			fmt.Fprintf(&b, "func q%d(interface{}) {}\n", k)
		}
		b.WriteString("\nfunc probes() {\n")
		for k, a := range laAsks {
			if i := strings.LastIndex(a.fqn, "."); strings.Contains(a.fqn, "/") {
				dep := false
				for _, n := range t.needs {
					dep = dep || n == a.fqn[:i]
				}
				if !dep {
					continue // the importer of the engine cannot find an in-memory package: only dependants may ask for it
				}
			}
			for _, v := range t.values {
				fmt.Fprintf(&b, "\tq%d(%s)\n", k, v)
			}
		}
		b.WriteString("}\n")
		return b.String()
	}
	n := len(targets)
	orders := [][]int{make([]int, n), make([]int, n)}
	for i := 0; i < n; i++ {
		orders[0][i], orders[1][i] = i, n-1-i
	}
	// the standard library is imported once (the in-memory packages are type-checked per target and run)
	std := importer.ForCompiler(token.NewFileSet(), "source", nil)
	for run, order := range orders {
		eng := ruleguard.NewEngine()
		func() {
			defer func() {
				if p := recover(); p != nil {
					eo.LoadErr = fmt.Sprintf("PANIC: %v", p)
				}
			}()
			if err := eng.Load(&ruleguard.LoadContext{Fset: token.NewFileSet()}, "c14lookalike.go", strings.NewReader(rb.String())); err != nil {
				eo.LoadErr = err.Error()
			}
		}()
		if eo.LoadErr != "" {
			return eo
		}
		var names []string
		for _, ti := range order {
			names = append(names, targets[ti].name)
		}
		for _, ti := range order {
			tg := targets[ti]
			srcs := map[string]string{"example.com/target/" + tg.name: render(tg)}
			for p, s := range laPkgs {
				srcs[p] = s
			}
			u, err := gtypes.NewUniverse(1, srcs, std)
			if err != nil {
				eo.LoadErr = "target " + tg.name + ": " + err.Error()
				return eo
			}
			pp := "example.com/target/" + tg.name
			t := &hutil.Target{Fset: u.Fset, File: u.Files[pp], Info: u.Infos[pp], Pkg: u.Pkgs[pp], Path: pp + "/src.go"}
			reports, pmsg := hutil.Run(eng, t, 0, "", nil)
			if pmsg != "" {
				eo.Panics = append(eo.Panics, fmt.Sprintf("order %v, package %s: %s", names, tg.name, pmsg))
			}
			eo.Runs++
			got := map[int]bool{}
			for _, r := range reports {
				got[r.Pos] = true
			}
			// the package with EXACTLY the asked path: a dependency of the target's universe, else what the universe's importer finds
			exact := func(path string) *types.Package {
				if _, mem := srcs[path]; mem {
					return u.Pkgs[path]
				}
				p, err := std.Import(path)
				if err != nil {
					panic("oracle: cannot import " + path + ": " + err.Error())
				}
				return p
			}
			named := func(fqn string) types.Type {
				i := strings.LastIndex(fqn, ".")
				return exact(fqn[:i]).Scope().Lookup(fqn[i+1:]).Type()
			}
			oracles := make([]func(types.Type) bool, len(laAsks))
			for k, a := range laAsks {
				switch a.kind {
				case "customImplements", "implements":
					it := named(a.fqn).Underlying().(*types.Interface)
					oracles[k] = func(x types.Type) bool { return types.Implements(x, it) }
				case "customIdentical":
					nt := named(a.fqn)
					oracles[k] = func(x types.Type) bool { return types.Identical(x, nt) }
				case "hasMethod":
					i := strings.LastIndex(a.fqn, ".")
					it := named(a.fqn[:i]).Underlying().(*types.Interface)
					var fn *types.Func
					for j := 0; j < it.NumMethods(); j++ {
						if it.Method(j).Name() == a.fqn[i+1:] {
							fn = it.Method(j)
						}
					}
					oracles[k] = func(x types.Type) bool {
						obj, _, _ := types.LookupFieldOrMethod(x, true, fn.Pkg(), fn.Name())
						f, ok := obj.(*types.Func)
						return ok && types.Identical(f.Type(), fn.Type())
					}
				}
			}
			var deps []string
			for _, imp := range t.Pkg.Imports() {
				deps = append(deps, imp.Path())
			}
			sort.Strings(deps)
			seen := map[int]bool{}
			ast.Inspect(t.File, func(nd ast.Node) bool {
				call, ok := nd.(*ast.CallExpr)
				if !ok {
					return true
				}
				id, ok := call.Fun.(*ast.Ident)
				var k int
				if !ok || len(call.Args) != 1 {
					return true
				}
				if _, err := fmt.Sscanf(id.Name, "q%d", &k); err != nil || k >= len(laAsks) || id.Name != fmt.Sprintf("q%d", k) {
					return true
				}
				off := t.Fset.Position(call.Pos()).Offset
				seen[off] = true
				eo.Probes++
				at := t.Info.TypeOf(call.Args[0])
				exp := oracles[k](at)
				if exp {
					eo.Positive++
				}
				if exp != got[off] {
					eo.NDiffs++
					if len(eo.Diffs) < 12 {
						a := laAsks[k]
						eo.Diffs = append(eo.Diffs, emDiff{Run: run + 1, Order: names, Filter: emRule{Kind: a.kind, Spec: a.fqn}.filterText(),
							Scope: "package " + pp + " (imports " + strings.Join(deps, ", ") + ")", Decls: "import " + strings.Join(tg.imports, "; "),
							Expr: types.ExprString(call.Args[0]), Type: types.TypeString(at, nil), Expected: exp, Observed: got[off]})
					}
				}
				return true
			})
			for off := range got {
				if !seen[off] && len(eo.Stray) < 5 {
					eo.Stray = append(eo.Stray, fmt.Sprintf("lookalike %s: report at offset %d belongs to no probe", tg.name, off))
				}
			}
		}
	}
	_ = seed
	return eo
}
