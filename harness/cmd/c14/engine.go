package main

// Engine-level matrix: every relation filter of the engine (Type.Implements, Type.HasMethod, Type.Is, Type.Underlying().Is,
// Type.IdenticalTo, dsl/types Implements / Identical in custom filters) x every probe value of a generated target file.
//
// The probe values are chosen for what a shortcut on the way from the filter to xtypes / typematch would confuse:
//
//   - aliases NESTED inside composites ([]P with P = *int, *Bytes, []Dict, chan Pair, func(Fn) Ints, aliases of aliases), next to
//     the same types spelled without an alias;
//   - distinct types that PRINT alike inside one file: function-local types of the same name in several functions / blocks,
//     type parameters of the same name (of generic functions and of generic types) with different constraints;
//   - interface types with one method set under several spellings.
//
// The functions holding the probes are emitted in several orders (as listed, reversed, seeded shuffle), each order is its own
// type-check and its own Run of ONE engine: whatever the engine remembers (per run: keyed by a printed type; across runs: objects
// of an earlier type-check) decides some later probe wrongly in at least one order.
//
// Oracle: go/types inside the run's own type-check -- types.Implements, types.LookupFieldOrMethod + types.Identical,
// types.Identical with the type the (variable-free) pattern spells (declared as `var ptN <pattern>` in the target itself).

import (
	"fmt"
	"go/ast"
	"go/token"
	"go/types"
	"math/rand"
	"sort"
	"strings"

	"verif/harness/internal/hutil"

	"github.com/quasilyte/go-ruleguard/ruleguard"
)

type emScope struct {
	name   string
	head   string   // "func name[...](...) {"
	decls  string   // local declarations
	values []string // probe expressions valid inside the body
	blocks []emScope
}

const emDecls = `
type P = *int
type R = io.Reader
type Bytes = []byte
type Dict = map[string]int
type Pair = struct{ a, b int }
type Fn = func(int) string
type Ints = []int
type Buf = bytes.Buffer
type PBuf = *bytes.Buffer
type PP = P
type RR = R
type St = fmt.Stringer
type E = interface{}

type Rd struct{ io.Reader }
type NoRd struct{ n int }
type W struct{}

func (W) WriteTo(w io.Writer) (int64, error) { return 0, nil }

type NotW struct{}

func (NotW) WriteTo(w *bytes.Buffer) (int64, error) { return 0, nil }

type PW struct{}

func (*PW) WriteTo(w io.Writer) (int64, error) { return 0, nil }

type AW struct{}

func (AW) WriteTo(w RR) (int64, error) { return 0, nil }

type Str struct{}

func (Str) String() string { return "" }

type Err struct{}

func (*Err) Error() string { return "" }

type RW struct {
	io.Reader
	io.Writer
}
type FieldRead struct {
	Read func(p []byte) (int, error)
}
type G1[T io.Reader] struct{ v T }
type G2[T any] struct{ v T }
type G3[T fmt.Stringer] struct{ v T }
type Pr[K comparable, V any] struct {
	k K
	v V
}
`

// package-level probe values: (type expression)
var emGlobals = []string{
	// nested aliases and the same types without them
	"[]P", "[]*int", "[]PP", "[]R", "[]io.Reader", "[]RR", "*Bytes", "*[]byte", "[]Dict", "[]map[string]int", "chan Pair", "chan struct{ a, b int }",
	"map[string]P", "map[string]*int", "map[P]R", "map[*int]io.Reader", "func(Fn) Ints", "func(func(int) string) []int", "[2]P", "[2]*int", "*P", "**int",
	"*Buf", "PBuf", "*bytes.Buffer", "[]Buf", "[]bytes.Buffer", "[]PBuf", "[]*bytes.Buffer", "func(R) PBuf", "func(io.Reader) *bytes.Buffer",
	"[][]Bytes", "[][][]byte", "map[string]Bytes", "map[string][]byte", "chan R", "chan io.Reader", "<-chan P", "<-chan *int", "func(...P)", "func(...*int)",
	"struct{ F P }", "struct{ F *int }", "*struct{ R }", "*struct{ io.Reader }", "[]E", "[]interface{}", "[]any", "map[E]E",
	// roots
	"P", "*int", "R", "io.Reader", "Bytes", "[]byte", "Dict", "Fn", "Ints", "Buf", "bytes.Buffer", "int", "string", "E",
	// method sets
	"W", "NotW", "PW", "*PW", "AW", "io.WriterTo", "io.Writer", "Str", "*Str", "Err", "*Err", "error", "Rd", "*Rd", "NoRd", "RW", "*RW", "FieldRead",
	"*strings.Reader", "strings.Reader", "*os.File", "St", "fmt.Stringer", "io.ReadWriter", "io.ReadCloser",
	"interface{ io.Reader; io.Writer }", "interface{ Read(p []byte) (int, error); Write(p []byte) (int, error) }", "interface{ io.ReadWriter }",
	"interface{ R }", "interface{ Read(p []byte) (n int, err error) }", "interface{ String() string }", "interface{ St }", "interface{ Error() string }",
	"interface{ error }", "interface{ interface{} }", "G1[*strings.Reader]", "G2[int]", "G2[P]", "G2[*int]", "[]G2[P]", "[]G2[*int]",
	// instantiations of a generic type of another package, next to a non-generic type of that package
	"atomic.Pointer[int]", "atomic.Pointer[string]", "atomic.Pointer[P]", "*atomic.Pointer[int]", "[]atomic.Pointer[int]", "atomic.Int64", "*atomic.Int64",
	"G2[atomic.Pointer[int]]", "atomic.Pointer[atomic.Pointer[int]]",
	// two positions of one composite holding instantiations of ONE generic type (every instantiation shares the TypeName of its
	// origin): different type arguments, the same ones, the same ones spelled through an alias, swapped, nested, below a pointer --
	// what a repeated pattern variable has to tell apart
	"map[G2[int]]G2[string]", "map[G2[int]]G2[int]", "map[G2[P]]G2[*int]", "map[atomic.Pointer[int]]atomic.Pointer[string]",
	"map[atomic.Pointer[int]]atomic.Pointer[int]", "map[Pr[string, int]]Pr[int, string]", "map[Pr[int, string]]Pr[int, string]", "map[*G2[int]]*G2[string]",
	"func(G2[int]) G2[string]", "func(G2[int]) G2[int]", "func(G2[P]) G2[*int]", "func(atomic.Pointer[int]) atomic.Pointer[string]",
	"func(Pr[string, int]) Pr[int, string]", "func(Pr[int, int]) Pr[int, int]", "func(G2[G2[int]]) G2[G2[string]]", "func(*G2[int]) *G2[string]",
	"func([]G2[string]) []G2[string]", "func(G2[int], G2[string])", "func(G2[string], G2[string])", "func(atomic.Pointer[P], atomic.Pointer[*int])",
	"struct{ a G2[int]; b G2[string] }", "struct{ a G2[int]; b G2[int] }", "struct{ a Pr[int, P]; b Pr[int, *int] }", "func(G2[int]) G3[Str]", "func(int) string", "func(Buf) bytes.Buffer",
}

// variable-free patterns (Go type expressions at the same time) for Type.Is / Type.Underlying().Is
var emIsPats = []string{
	"[]*int", "[]io.Reader", "*[]byte", "[]map[string]int", "map[string]*int", "map[*int]io.Reader", "func(func(int) string) []int", "[2]*int", "**int",
	"*bytes.Buffer", "[]bytes.Buffer", "[]*bytes.Buffer", "func(io.Reader) *bytes.Buffer", "[][][]byte", "map[string][]byte", "chan io.Reader",
	"<-chan *int", "*int", "io.Reader", "[]byte", "bytes.Buffer", "[]interface{}", "map[string]int", "func(int) string", "[]int", "error", "fmt.Stringer",
}

// patterns with variables: a small oracle of their own
var emVarPats = []struct {
	kind string
	pat  string
	ok   func(t types.Type) bool
}{
	// what tells same-named local types apart is their underlying type
	{"uis", "struct{io.Reader}", func(t types.Type) bool {
		s, ok := t.Underlying().(*types.Struct)
		if !ok || s.NumFields() != 1 {
			return false
		}
		n, ok := types.Unalias(s.Field(0).Type()).(*types.Named)
		return ok && n.Obj().Pkg() != nil && n.Obj().Pkg().Path() == "io" && n.Obj().Name() == "Reader"
	}},
	{"uis", "struct{$_}", func(t types.Type) bool {
		s, ok := t.Underlying().(*types.Struct)
		return ok && s.NumFields() == 1
	}},
	{"uis", "int", func(t types.Type) bool {
		b, ok := t.Underlying().(*types.Basic)
		return ok && b.Kind() == types.Int
	}},
	{"is", "[]$_", func(t types.Type) bool { _, ok := types.Unalias(t).(*types.Slice); return ok }},
	{"is", "map[$t]$t", func(t types.Type) bool {
		m, ok := types.Unalias(t).(*types.Map)
		return ok && types.Identical(m.Key(), m.Elem())
	}},
	// a repeated variable: the second occurrence must be IDENTICAL to the first binding (go/types is asked about the two components)
	{"is", "func($t) $t", func(t types.Type) bool {
		s, ok := types.Unalias(t).(*types.Signature)
		return ok && !s.Variadic() && s.Params().Len() == 1 && s.Results().Len() == 1 && types.Identical(s.Params().At(0).Type(), s.Results().At(0).Type())
	}},
	{"is", "func($t, $t)", func(t types.Type) bool {
		s, ok := types.Unalias(t).(*types.Signature)
		return ok && !s.Variadic() && s.Params().Len() == 2 && s.Results().Len() == 0 && types.Identical(s.Params().At(0).Type(), s.Params().At(1).Type())
	}},
	{"is", "struct{$t; $t}", func(t types.Type) bool {
		s, ok := types.Unalias(t).(*types.Struct)
		return ok && s.NumFields() == 2 && types.Identical(s.Field(0).Type(), s.Field(1).Type())
	}},
	{"uis", "map[$k]$k", func(t types.Type) bool {
		m, ok := t.Underlying().(*types.Map)
		return ok && types.Identical(m.Key(), m.Elem())
	}},
	{"is", "func($*_, $t) $t", func(t types.Type) bool {
		s, ok := types.Unalias(t).(*types.Signature)
		return ok && !s.Variadic() && s.Params().Len() >= 1 && s.Results().Len() == 1 &&
			types.Identical(s.Params().At(s.Params().Len()-1).Type(), s.Results().At(0).Type())
	}},
	{"is", "[]*$_", func(t types.Type) bool {
		s, ok := types.Unalias(t).(*types.Slice)
		if !ok {
			return false
		}
		_, ok = types.Unalias(s.Elem()).(*types.Pointer)
		return ok
	}},
	{"is", "func($_) $_", func(t types.Type) bool {
		s, ok := types.Unalias(t).(*types.Signature)
		return ok && s.Params().Len() == 1 && s.Results().Len() == 1 && !s.Variadic()
	}},
	{"is", "*$_", func(t types.Type) bool { _, ok := types.Unalias(t).(*types.Pointer); return ok }},
}

var emIfaces = []string{"io.Reader", "io.Writer", "io.WriterTo", "fmt.Stringer", "error", "io.ReadWriter"}
var emMethods = []string{"io.WriterTo.WriteTo", "io.Reader.Read", "fmt.Stringer.String"}
var emCustomIfaces = []string{"io.Reader", "io.WriterTo", "fmt.Stringer"}
// ... `sync/atomic.Pointer` is a GENERIC type: ctx.GetType gives the generic type itself (no type arguments), which is identical
// to none of its instantiations
var emCustomTypes = []string{"bytes.Buffer", "io.Reader", "strings.Reader", "sync/atomic.Pointer", "sync/atomic.Int64"}

// same-printing-but-different types: every scope is a function of its own
func emScopes() []emScope {
	loc := func(name, decl string) emScope {
		return emScope{name: name, head: "func " + name + "() {", decls: "\ttype T " + decl + "\n\tvar x T\n\tvar px *T\n\tvar xs []T\n\tvar gx G2[T]\n",
			values: []string{"x", "px", "xs", "gx", "&x"}}
	}
	gen := func(name, tparams, params string, values ...string) emScope {
		return emScope{name: name, head: "func " + name + "[" + tparams + "](" + params + ") {", values: values}
	}
	return []emScope{
		loc("locRd", "struct{ io.Reader }"), loc("locPlain", "struct{ n int }"), loc("locWr", "struct{ io.Writer }"), loc("locInt", "int"),
		loc("locStr", "struct{ fmt.Stringer }"), loc("locRW", "struct{ io.ReadWriter }"), loc("locErr", "struct{ error }"), loc("locIface", "interface{ io.Reader }"),
		loc("locWT", "struct{ W }"), loc("locPW", "struct{ *PW }"),
		{name: "locBlocks", head: "func locBlocks() {", blocks: []emScope{
			{decls: "\t\ttype T struct{ io.Writer }\n\t\tvar x T\n\t\tvar xs []T\n", values: []string{"x", "xs"}},
			{decls: "\t\ttype T struct{ io.Reader }\n\t\tvar x T\n\t\tvar xs []T\n", values: []string{"x", "xs"}},
			{decls: "\t\ttype T int\n\t\tvar x T\n\t\tvar xs []T\n", values: []string{"x", "xs"}},
		}},
		gen("genRd", "T io.Reader", "x T, xs []T, px *T", "x", "xs", "px"), gen("genAny", "T any", "x T, xs []T, px *T", "x", "xs", "px"),
		gen("genStr", "T fmt.Stringer", "x T, xs []T, px *T", "x", "xs", "px"), gen("genWT", "T io.WriterTo", "x T, xs []T, px *T", "x", "xs", "px"),
		gen("genRS", "T interface{ io.Reader; fmt.Stringer }", "x T, xs []T, px *T", "x", "xs", "px"),
		gen("genErr", "T error", "x T, xs []T, px *T", "x", "xs", "px"), gen("genW", "T io.Writer", "x T, xs []T, px *T", "x", "xs", "px"),
		gen("genTU", "T io.Reader, U any", "x T, y U", "x", "y"), gen("genUT", "U io.Reader, T any", "x T, y U", "x", "y"),
		gen("genCmp", "T comparable", "x T, xs []T, px *T", "x", "xs", "px"),
		{name: "m1", head: "func (g G1[T]) m1(gs []G1[T]) {", values: []string{"g.v", "g", "gs"}},
		{name: "m2", head: "func (g G2[T]) m2(gs []G2[T]) {", values: []string{"g.v", "g", "gs"}},
		{name: "m3", head: "func (g G3[T]) m3(gs []G3[T]) {", values: []string{"g.v", "g", "gs"}},
	}
}

type emRule struct {
	Kind string `json:"kind"` // implements, customImplements, hasMethod, is, uis, customIdentical, identicalTo
	Spec string `json:"spec"`
	ok   func(t types.Type) bool
	ok2  func(x, y types.Type) bool
}

type emDiff struct {
	Run      int      `json:"run"`
	Order    []string `json:"order"`
	Filter   string   `json:"filter"`
	Scope    string   `json:"scope"`
	Decls    string   `json:"decls,omitempty"`
	Expr     string   `json:"expr"`
	Type     string   `json:"type"`
	Expected bool     `json:"expected"`
	Observed bool     `json:"observed"`
}

type emOut struct {
	LoadErr  string   `json:"load_err"`
	Rules    int      `json:"rules"`
	Probes   int      `json:"probes"`   // calls per run
	Positive int      `json:"positive"` // calls the oracle expects to be reported, all runs
	SameName int      `json:"same_printing_probes"`
	Nested   int      `json:"nested_alias_probes"`
	Runs     int      `json:"runs"`
	Diffs    []emDiff `json:"diffs"`
	NDiffs   int      `json:"ndiffs"`
	Panics   []string `json:"panics"`
	Stray    []string `json:"stray"` // reports that belong to no probe call
}

func (r emRule) filterText() string {
	switch r.Kind {
	case "implements":
		return "m[\"x\"].Type.Implements(`" + r.Spec + "`)"
	case "customImplements":
		return "m[\"x\"].Filter: types.Implements(ctx.Type, ctx.GetInterface(`" + r.Spec + "`))"
	case "hasMethod":
		return "m[\"x\"].Type.HasMethod(`" + r.Spec + "`)"
	case "is":
		return "m[\"x\"].Type.Is(`" + r.Spec + "`)"
	case "uis":
		return "m[\"x\"].Type.Underlying().Is(`" + r.Spec + "`)"
	case "customIdentical":
		return "m[\"x\"].Filter: types.Identical(ctx.Type, ctx.GetType(`" + r.Spec + "`))"
	case "identicalTo":
		return "m[\"x\"].Type.IdenticalTo(m[\"y\"])"
	}
	return r.Kind
}

func emMatrix(tmp string, seed int64) *emOut {
	eo := &emOut{}
	var rules []emRule
	for _, s := range emIfaces {
		rules = append(rules, emRule{Kind: "implements", Spec: s})
	}
	for _, s := range emCustomIfaces {
		rules = append(rules, emRule{Kind: "customImplements", Spec: s})
	}
	for _, s := range emMethods {
		rules = append(rules, emRule{Kind: "hasMethod", Spec: s})
	}
	for _, s := range emIsPats {
		rules = append(rules, emRule{Kind: "is", Spec: s})
	}
	for i, s := range emIsPats {
		if i%2 == 0 {
			rules = append(rules, emRule{Kind: "uis", Spec: s})
		}
	}
	for _, vp := range emVarPats {
		rules = append(rules, emRule{Kind: vp.kind, Spec: vp.pat, ok: vp.ok})
	}
	for _, s := range emCustomTypes {
		rules = append(rules, emRule{Kind: "customIdentical", Spec: s})
	}
	rules = append(rules, emRule{Kind: "identicalTo"})
	eo.Rules = len(rules)

	// ---- rules file
	var rb strings.Builder
	rb.WriteString("package gorules\n\nimport (\n\t\"github.com/quasilyte/go-ruleguard/dsl\"\n\t\"github.com/quasilyte/go-ruleguard/dsl/types\"\n)\n\n")
	for k, r := range rules {
		switch r.Kind {
		case "customImplements":
			fmt.Fprintf(&rb, "func cf%d(ctx *dsl.VarFilterContext) bool {\n\treturn types.Implements(ctx.Type, ctx.GetInterface(`%s`))\n}\n\n", k, r.Spec)
		case "customIdentical":
			fmt.Fprintf(&rb, "func cf%d(ctx *dsl.VarFilterContext) bool {\n\treturn types.Identical(ctx.Type, ctx.GetType(`%s`))\n}\n\n", k, r.Spec)
		}
	}
	rb.WriteString("func c14matrix(m dsl.Matcher) {\n")
	for k, r := range rules {
		var w string
		switch r.Kind {
		case "implements":
			w = "m[\"x\"].Type.Implements(`" + r.Spec + "`)"
		case "hasMethod":
			w = "m[\"x\"].Type.HasMethod(`" + r.Spec + "`)"
		case "is":
			w = "m[\"x\"].Type.Is(`" + r.Spec + "`)"
		case "uis":
			w = "m[\"x\"].Type.Underlying().Is(`" + r.Spec + "`)"
		case "customImplements", "customIdentical":
			w = fmt.Sprintf("m[\"x\"].Filter(cf%d)", k)
		case "identicalTo":
			fmt.Fprintf(&rb, "\tm.Match(`p%d($x, $y)`).Where(m[\"x\"].Type.IdenticalTo(m[\"y\"])).Report(`p%d`)\n", k, k)
			continue
		}
		fmt.Fprintf(&rb, "\tm.Match(`p%d($x)`).Where(%s).Report(`p%d`)\n", k, w, k)
	}
	rb.WriteString("}\n")
	eng := ruleguard.NewEngine()
	func() {
		defer func() {
			if p := recover(); p != nil {
				eo.LoadErr = fmt.Sprintf("PANIC: %v", p)
			}
		}()
		if err := eng.Load(&ruleguard.LoadContext{Fset: token.NewFileSet()}, "c14matrix.go", strings.NewReader(rb.String())); err != nil {
			eo.LoadErr = err.Error()
		}
	}()
	if eo.LoadErr != "" {
		return eo
	}

	// ---- target file, one per order of the scopes
	scopes := emScopes()
	scopes = append(scopes, emScope{name: "globals", head: "func globals() {"})
	gi := len(scopes) - 1
	for i := range emGlobals {
		scopes[gi].values = append(scopes[gi].values, fmt.Sprintf("g%d", i))
	}
	// IdenticalTo pairs: every ordered pair of the composite / interface-spelling globals
	var pairIdx []int
	for i, g := range emGlobals {
		if strings.ContainsAny(g, "[]*{") || strings.HasPrefix(g, "func") || strings.HasPrefix(g, "chan") || strings.HasPrefix(g, "<-chan") || strings.HasPrefix(g, "map") {
			pairIdx = append(pairIdx, i)
		}
	}
	render := func(order []int) (string, []string) {
		var b strings.Builder
		b.WriteString("package target\n\nimport (\n\t\"bytes\"\n\t\"fmt\"\n\t\"io\"\n\t\"os\"\n\t\"strings\"\n\t\"sync/atomic\"\n)\n\nvar _ = os.Stdin\nvar _ strings.Reader\n")
		b.WriteString(emDecls)
		for k, r := range rules {
			if r.Kind == "identicalTo" {
				fmt.Fprintf(&b, "func p%d(a, b interface{}) {}\n", k)
			} else {
				fmt.Fprintf(&b, "func p%d(interface{}) {}\n", k)
			}
		}
		b.WriteString("\nvar (\n")
		for i, g := range emGlobals {
			fmt.Fprintf(&b, "\tg%d %s\n", i, g)
		}
		for i, p := range emIsPats {
			fmt.Fprintf(&b, "\tpt%d %s\n", i, p)
		}
		b.WriteString(")\n")
		var names []string
		emitProbes := func(ind string, values []string) {
			for _, v := range values {
				for k, r := range rules {
					if r.Kind == "identicalTo" {
						continue
					}
					fmt.Fprintf(&b, "%sp%d(%s)\n", ind, k, v)
				}
			}
		}
		for _, si := range order {
			sc := scopes[si]
			names = append(names, sc.name)
			b.WriteString("\n" + sc.head + "\n" + sc.decls)
			emitProbes("\t", sc.values)
			for _, bl := range sc.blocks {
				b.WriteString("\t{\n" + bl.decls)
				emitProbes("\t\t", bl.values)
				b.WriteString("\t}\n")
			}
			if sc.name == "globals" {
				k := len(rules) - 1
				for _, i := range pairIdx {
					for _, j := range pairIdx {
						fmt.Fprintf(&b, "\tp%d(g%d, g%d)\n", k, i, j)
					}
				}
			}
			b.WriteString("}\n")
		}
		return b.String(), names
	}
	n := len(scopes)
	given := make([]int, n)
	rev := make([]int, n)
	for i := range given {
		given[i] = i
		rev[i] = n - 1 - i
	}
	shuf := append([]int{}, given...)
	rand.New(rand.NewSource(seed+104729)).Shuffle(n, func(i, j int) { shuf[i], shuf[j] = shuf[j], shuf[i] })
	orders := [][]int{given, rev, shuf}

	for run, order := range orders {
		src, names := render(order)
		t, err := hutil.CheckTarget(fmt.Sprintf("%s/matrix%d", tmp, run), "target.go", []byte(src))
		if err != nil {
			eo.LoadErr = "target: " + err.Error()
			return eo
		}
		reports, pmsg := hutil.Run(eng, t, 0, "", nil)
		if pmsg != "" {
			eo.Panics = append(eo.Panics, fmt.Sprintf("run %d: %s", run+1, pmsg))
		}
		eo.Runs++
		got := map[int]bool{} // offset of the call
		for _, r := range reports {
			got[r.Pos] = true
		}
		// per-rule oracles inside this type-check
		findNamed := func(fqn string) types.Type {
			if fqn == "error" {
				return types.Universe.Lookup("error").Type()
			}
			i := strings.LastIndex(fqn, ".")
			for _, imp := range t.Pkg.Imports() {
				if imp.Path() == fqn[:i] {
					return imp.Scope().Lookup(fqn[i+1:]).Type()
				}
			}
			panic("oracle: cannot find " + fqn)
		}
		sc := t.Pkg.Scope()
		patIdx := map[string]int{}
		for i, p := range emIsPats {
			patIdx[p] = i
		}
		oracles := make([]emRule, len(rules))
		for k, r := range rules {
			r := r
			switch r.Kind {
			case "implements", "customImplements":
				it := findNamed(r.Spec).Underlying().(*types.Interface)
				r.ok = func(t types.Type) bool { return types.Implements(t, it) }
			case "hasMethod":
				i := strings.LastIndex(r.Spec, ".")
				it := findNamed(r.Spec[:i]).Underlying().(*types.Interface)
				var fn *types.Func
				for j := 0; j < it.NumMethods(); j++ {
					if it.Method(j).Name() == r.Spec[i+1:] {
						fn = it.Method(j)
					}
				}
				r.ok = func(t types.Type) bool {
					obj, _, _ := types.LookupFieldOrMethod(t, true, fn.Pkg(), fn.Name())
					f, ok := obj.(*types.Func)
					return ok && types.Identical(f.Type(), fn.Type())
				}
			case "is":
				if r.ok == nil {
					pt := sc.Lookup(fmt.Sprintf("pt%d", patIdx[r.Spec])).Type()
					r.ok = func(t types.Type) bool { return types.Identical(pt, t) }
				}
			case "uis":
				if r.ok == nil {
					pt := sc.Lookup(fmt.Sprintf("pt%d", patIdx[r.Spec])).Type()
					r.ok = func(t types.Type) bool { return types.Identical(pt, t.Underlying()) }
				}
			case "customIdentical":
				nt := findNamed(r.Spec)
				r.ok = func(t types.Type) bool { return types.Identical(nt, t) }
			case "identicalTo":
				r.ok2 = types.Identical
			}
			oracles[k] = r
		}
		// walk the probe calls
		seen := map[int]bool{}
		for _, d := range t.File.Decls {
			fd, ok := d.(*ast.FuncDecl)
			if !ok || fd.Body == nil {
				continue
			}
			scopeName := fd.Name.Name
			ast.Inspect(fd.Body, func(nd ast.Node) bool {
				call, ok := nd.(*ast.CallExpr)
				if !ok {
					return true
				}
				id, ok := call.Fun.(*ast.Ident)
				if !ok || !strings.HasPrefix(id.Name, "p") {
					return true
				}
				var k int
				if _, err := fmt.Sscanf(id.Name, "p%d", &k); err != nil || k >= len(rules) {
					return true
				}
				off := t.Fset.Position(call.Pos()).Offset
				seen[off] = true
				eo.Probes++
				r := oracles[k]
				var exp bool
				at := t.Info.TypeOf(call.Args[0])
				typeText := types.TypeString(at, nil)
				if r.ok2 != nil {
					bt := t.Info.TypeOf(call.Args[1])
					exp = r.ok2(at, bt)
					typeText += " ~ " + types.TypeString(bt, nil)
				} else {
					exp = r.ok(at)
				}
				if exp {
					eo.Positive++
				}
				if scopeName != "globals" {
					eo.SameName++
				} else if nestedAlias(at) {
					eo.Nested++
				}
				if exp != got[off] {
					eo.NDiffs++
					if len(eo.Diffs) < 12 {
						decl := ""
						for _, s := range scopes {
							if s.name == fd.Name.Name {
								decl = s.head + "\n" + s.decls
								for _, bl := range s.blocks {
									decl += "\t{\n" + bl.decls + "\t}\n"
								}
							}
						}
						if scopeName == "globals" {
							decl = ""
							for _, a := range call.Args {
								var gidx int
								if aid, ok := a.(*ast.Ident); ok {
									if _, err := fmt.Sscanf(aid.Name, "g%d", &gidx); err == nil {
										decl += fmt.Sprintf("var %s %s\n", aid.Name, emGlobals[gidx])
									}
								}
							}
						}
						var args []string
						for _, a := range call.Args {
							args = append(args, types.ExprString(a))
						}
						eo.Diffs = append(eo.Diffs, emDiff{Run: run + 1, Order: names, Filter: r.filterText(), Scope: scopeName, Decls: decl,
							Expr: strings.Join(args, ", "), Type: typeText, Expected: exp, Observed: got[off]})
					}
				}
				return true
			})
		}
		var stray []int
		for off := range got {
			if !seen[off] {
				stray = append(stray, off)
			}
		}
		sort.Ints(stray)
		for _, off := range stray {
			if len(eo.Stray) < 5 {
				eo.Stray = append(eo.Stray, fmt.Sprintf("run %d: report at offset %d", run+1, off))
			}
		}
	}
	return eo
}

// nestedAlias: an alias occurs below the root of the type
func nestedAlias(t types.Type) bool {
	var rec func(t types.Type, root bool, depth int) bool
	rec = func(t types.Type, root bool, depth int) bool {
		if depth > 8 {
			return false
		}
		if _, ok := t.(*types.Alias); ok && !root {
			return true
		}
		switch u := types.Unalias(t).(type) {
		case *types.Pointer:
			return rec(u.Elem(), false, depth+1)
		case *types.Slice:
			return rec(u.Elem(), false, depth+1)
		case *types.Array:
			return rec(u.Elem(), false, depth+1)
		case *types.Chan:
			return rec(u.Elem(), false, depth+1)
		case *types.Map:
			return rec(u.Key(), false, depth+1) || rec(u.Elem(), false, depth+1)
		case *types.Signature:
			for i := 0; i < u.Params().Len(); i++ {
				if rec(u.Params().At(i).Type(), false, depth+1) {
					return true
				}
			}
			for i := 0; i < u.Results().Len(); i++ {
				if rec(u.Results().At(i).Type(), false, depth+1) {
					return true
				}
			}
		case *types.Struct:
			for i := 0; i < u.NumFields(); i++ {
				if rec(u.Field(i).Type(), false, depth+1) {
					return true
				}
			}
		case *types.Named:
			for i := 0; i < u.TypeArgs().Len(); i++ {
				if rec(u.TypeArgs().At(i), false, depth+1) {
					return true
				}
			}
		}
		return false
	}
	return rec(t, true, 0)
}
