// c05: observations for "precompiled IR behaves like the source rules".
//
// Phase A (this program):
//   * cases: random ir.File values (within the domain the printer assumes), a few probes outside that domain, and the IR
//     (irconv) of the fixture rules files of analyzer/testdata plus generated rules files;
//   * every case is printed with the real irprint.File, the text is parsed (go/parser) into a literal tree, the value is
//     walked by reflection into a value tree, the printed literal is type-checked on its own (go/types);
//   * one JSON line per case on stdout;
//   * a self-contained Go program is written to -gendir: it embeds every printed literal that type-checks, is compiled by
//     the real toolchain (phase B: `go run .` in that directory, driven by the check), rebuilds the originals from their
//     value trees and reflect.DeepEquals them, and for rules-file cases loads both forms (Load vs LoadFromIR) and diffs
//     LoadedGroups and the report streams on target files.
package main

import (
	"bytes"
	"encoding/json"
	"flag"
	"fmt"
	"go/ast"
	"go/importer"
	"go/parser"
	"go/token"
	"go/types"
	"math"
	"math/rand"
	"os"
	"os/exec"
	"path/filepath"
	"reflect"
	"sort"
	"strconv"
	"strings"
	"sync"

	"github.com/quasilyte/go-ruleguard/ruleguard"
	"github.com/quasilyte/go-ruleguard/ruleguard/ir"
	"github.com/quasilyte/go-ruleguard/ruleguard/irconv"
	"github.com/quasilyte/go-ruleguard/ruleguard/irprint"
)

// ---------------------------------------------------------------- trees

func bytesOf(s string) []int {
	out := make([]int, len(s))
	for i := 0; i < len(s); i++ {
		out[i] = int(s[i])
	}
	return out
}

// encVal: ["I",z] ["S",bytes] ["O",n] ["N"] ["IS",bytes] ["I64",z] ["ST",name,[fields]] ["SL",null|[elems]] ["X",desc]
func encVal(v reflect.Value) interface{} {
	switch v.Kind() {
	case reflect.Int:
		if v.Type().Name() == "FilterOp" {
			return []interface{}{"O", v.Int()}
		}
		return []interface{}{"I", v.Int()}
	case reflect.String:
		return []interface{}{"S", bytesOf(v.String())}
	case reflect.Interface:
		if v.IsNil() {
			return []interface{}{"N"}
		}
		switch x := v.Interface().(type) {
		case string:
			return []interface{}{"IS", bytesOf(x)}
		case int64:
			return []interface{}{"I64", x}
		default:
			return []interface{}{"X", fmt.Sprintf("%T", x)}
		}
	case reflect.Struct:
		fields := make([]interface{}, 0, v.NumField())
		for i := 0; i < v.NumField(); i++ {
			fields = append(fields, encVal(v.Field(i)))
		}
		return []interface{}{"ST", v.Type().Name(), fields}
	case reflect.Slice:
		if v.IsNil() {
			return []interface{}{"SL", nil}
		}
		elems := make([]interface{}, 0, v.Len())
		for i := 0; i < v.Len(); i++ {
			elems = append(elems, encVal(v.Index(i)))
		}
		return []interface{}{"SL", elems}
	}
	return []interface{}{"X", v.Kind().String()}
}

func exprText(fset *token.FileSet, e ast.Expr) string {
	var sb strings.Builder
	_ = printerFprint(&sb, fset, e)
	return sb.String()
}

// encLit: ["s",bytes] ["i",z] ["c64",z] ["op",name] ["c",tag|null,[[key|null,lit]...]] ["bad",text]
func encLit(fset *token.FileSet, e ast.Expr) interface{} {
	switch e := e.(type) {
	case *ast.ParenExpr:
		return encLit(fset, e.X)
	case *ast.BasicLit:
		switch e.Kind {
		case token.STRING:
			s, err := strconv.Unquote(e.Value)
			if err == nil {
				return []interface{}{"s", bytesOf(s)}
			}
		case token.INT:
			if z, err := strconv.ParseInt(e.Value, 0, 64); err == nil {
				return []interface{}{"i", z}
			}
		}
	case *ast.UnaryExpr:
		if e.Op == token.SUB {
			if bl, ok := e.X.(*ast.BasicLit); ok && bl.Kind == token.INT {
				// -9223372036854775808 does not fit ParseInt of the positive part
				if z, err := strconv.ParseInt("-"+bl.Value, 0, 64); err == nil {
					return []interface{}{"i", z}
				}
			}
		}
	case *ast.CallExpr:
		if id, ok := e.Fun.(*ast.Ident); ok && id.Name == "int64" && len(e.Args) == 1 {
			if inner, ok := encLit(fset, e.Args[0]).([]interface{}); ok && inner[0] == "i" {
				return []interface{}{"c64", inner[1]}
			}
		}
	case *ast.SelectorExpr:
		if id, ok := e.X.(*ast.Ident); ok && id.Name == "ir" {
			return []interface{}{"op", e.Sel.Name}
		}
	case *ast.CompositeLit:
		var tag interface{}
		if e.Type != nil {
			tag = strings.ReplaceAll(exprText(fset, e.Type), " ", "")
		}
		elts := make([]interface{}, 0, len(e.Elts))
		for _, el := range e.Elts {
			if kv, ok := el.(*ast.KeyValueExpr); ok {
				if id, ok := kv.Key.(*ast.Ident); ok {
					elts = append(elts, []interface{}{id.Name, encLit(fset, kv.Value)})
					continue
				}
				return []interface{}{"bad", exprText(fset, e)}
			}
			elts = append(elts, []interface{}{nil, encLit(fset, el)})
		}
		return []interface{}{"c", tag, elts}
	}
	return []interface{}{"bad", exprText(fset, e)}
}

// ---------------------------------------------------------------- random IR values (inside the printer's domain)

var strPool = []string{"a", "x", "$x", "hello world", "", "\"quoted\"", "back\\slash", "`tick`", "new\nline", "tab\t", "\x00", "\xff\xfe",
	"日本語", "a\"b`c\\d", "%d %s %%", "'", "{}", "},", "ir.File{", "int64(5)", " ", "\r\n", strings.Repeat("z", 70)}

var intPool = []int{0, 1, -1, 2, 7, 42, -42, 1 << 20, math.MaxInt32, math.MinInt32, math.MaxInt64, math.MinInt64, -1 << 40}

type gen struct {
	rng     *rand.Rand
	nops    int
	compact map[ir.FilterOp]bool
}

func (g *gen) str(nonEmpty bool) string {
	for {
		s := strPool[g.rng.Intn(len(strPool))]
		if g.rng.Intn(6) == 0 {
			b := make([]byte, g.rng.Intn(6))
			for i := range b {
				b[i] = byte(g.rng.Intn(256))
			}
			s = string(b)
		}
		if !nonEmpty || s != "" {
			return s
		}
	}
}

func (g *gen) int() int { return intPool[g.rng.Intn(len(intPool))] }

func (g *gen) strSlice() []string {
	switch g.rng.Intn(5) {
	case 0:
		return nil
	case 1:
		return []string{}
	}
	n := 1 + g.rng.Intn(6)
	out := make([]string, n)
	for i := range out {
		out[i] = g.str(true) // a "" element would be dropped by the printer: outside the domain
	}
	return out
}

func (g *gen) patterns() []ir.PatternString {
	switch g.rng.Intn(4) {
	case 0:
		return nil
	case 1:
		return []ir.PatternString{}
	}
	n := 1 + g.rng.Intn(3)
	out := make([]ir.PatternString, n)
	for i := range out {
		for {
			out[i] = ir.PatternString{Line: g.int(), Value: g.str(false)}
			if out[i] != (ir.PatternString{}) {
				break
			}
		}
	}
	return out
}

func (g *gen) filter(depth int, allowZero bool) ir.FilterExpr {
	if allowZero && g.rng.Intn(4) == 0 {
		return ir.FilterExpr{}
	}
	op := ir.FilterOp(g.rng.Intn(g.nops))
	e := ir.FilterExpr{Line: g.int(), Op: op, Src: g.str(false)}
	if g.compact[op] {
		e.Value = g.str(false)
		return e
	}
	switch g.rng.Intn(4) {
	case 0:
		e.Value = g.str(false)
	case 1:
		e.Value = int64(g.int())
	}
	if depth > 0 {
		switch g.rng.Intn(4) {
		case 0:
			e.Args = []ir.FilterExpr{}
		case 1, 2:
			n := 1 + g.rng.Intn(3)
			for i := 0; i < n; i++ {
				for {
					a := g.filter(depth-1, false)
					if !reflect.ValueOf(a).IsZero() {
						e.Args = append(e.Args, a)
						break
					}
				}
			}
		}
	}
	if reflect.ValueOf(e).IsZero() && !allowZero {
		e.Line = 1
	}
	return e
}

// onePattern: a list with exactly one pattern, on a line of its own choosing
func (g *gen) nPatterns(n int) []ir.PatternString {
	out := make([]ir.PatternString, n)
	for i := range out {
		out[i] = ir.PatternString{Line: g.int(), Value: g.str(true)}
	}
	return out
}

// shapedRule: the shapes rules files convert to (a pattern and a message; alternatives; with a filter / a suggestion / a
// location / a handler; a comment pattern) -- only the fields of the shape are set, every line number (of the rule, of each
// pattern, of the filter) is drawn independently: whatever form the printer picks for a shape by looking at which fields
// are set has to carry each of them.
func (g *gen) shapedRule() ir.Rule {
	r := ir.Rule{Line: g.int()}
	shape := g.rng.Intn(13) // 0, 4, 10..12: a pattern and a message
	switch shape {
	case 8:
		r.CommentPatterns = g.nPatterns(1)
	case 1, 9:
		r.SyntaxPatterns = g.nPatterns(2 + g.rng.Intn(2))
	default:
		r.SyntaxPatterns = g.nPatterns(1)
	}
	switch shape {
	case 3:
		r.SuggestTemplate = g.str(true)
	case 6:
		r.DoFuncName = g.str(true)
	default:
		r.ReportTemplate = g.str(true)
	}
	switch shape {
	case 2, 9:
		for {
			r.WhereExpr = g.filter(2, false)
			if r.WhereExpr.IsValid() {
				break
			}
		}
	case 5:
		r.SuggestTemplate = g.str(true)
	case 7:
		r.LocationVar = g.str(true)
	}
	return r
}

func (g *gen) rule() ir.Rule {
	if g.rng.Intn(5) < 2 {
		return g.shapedRule()
	}
	r := ir.Rule{Line: g.int(), SyntaxPatterns: g.patterns(), CommentPatterns: g.patterns(),
		ReportTemplate: g.str(false), SuggestTemplate: g.str(false), DoFuncName: g.str(false),
		WhereExpr: g.filter(3, true), LocationVar: g.str(false)}
	if reflect.ValueOf(r).IsZero() {
		r.Line = 3
	}
	return r
}

func (g *gen) group() ir.RuleGroup {
	rg := ir.RuleGroup{Line: g.int(), Name: g.str(false), MatcherName: g.str(false), DocTags: g.strSlice(),
		DocSummary: g.str(false), DocBefore: g.str(false), DocAfter: g.str(false), DocNote: g.str(false)}
	switch g.rng.Intn(3) {
	case 0:
		rg.Imports = []ir.PackageImport{}
	case 1:
		n := 1 + g.rng.Intn(3)
		for i := 0; i < n; i++ {
			rg.Imports = append(rg.Imports, ir.PackageImport{Path: g.str(true), Name: g.str(false)})
		}
	}
	switch g.rng.Intn(5) {
	case 0:
	case 1:
		rg.Rules = []ir.Rule{}
	default:
		n := 1 + g.rng.Intn(3)
		for i := 0; i < n; i++ {
			rg.Rules = append(rg.Rules, g.rule())
		}
	}
	if reflect.ValueOf(rg).IsZero() {
		rg.Line = 5
	}
	return rg
}

func (g *gen) file() *ir.File {
	f := &ir.File{PkgPath: g.str(false)}
	switch g.rng.Intn(5) {
	case 0:
	case 1:
		f.RuleGroups = []ir.RuleGroup{}
	default:
		n := 1 + g.rng.Intn(3)
		for i := 0; i < n; i++ {
			f.RuleGroups = append(f.RuleGroups, g.group())
		}
	}
	switch g.rng.Intn(4) {
	case 0:
	case 1:
		f.CustomDecls = []string{}
	default:
		n := 1 + g.rng.Intn(3)
		for i := 0; i < n; i++ {
			f.CustomDecls = append(f.CustomDecls, g.str(false)) // explicit loop: "" is printed
		}
	}
	switch g.rng.Intn(3) {
	case 0:
	case 1:
		f.BundleImports = []ir.BundleImport{}
	default:
		n := 1 + g.rng.Intn(3)
		for i := 0; i < n; i++ {
			f.BundleImports = append(f.BundleImports, ir.BundleImport{Line: g.int(), PkgPath: g.str(false), Prefix: g.str(false)})
		}
	}
	return f
}

// probes outside the domain (the printer drops zero-valued slice elements, and its compact FilterExpr form drops Args)
func outsideDomain() []*ir.File {
	return []*ir.File{
		{PkgPath: "p", RuleGroups: []ir.RuleGroup{{Line: 1, Name: "g", DocTags: []string{"a", "", "b"}}}},
		{PkgPath: "p", RuleGroups: []ir.RuleGroup{{Line: 1, Name: "g", Rules: []ir.Rule{{Line: 2}, {}}}}},
		{PkgPath: "p", RuleGroups: []ir.RuleGroup{{Line: 1, Name: "g", Rules: []ir.Rule{{Line: 2, WhereExpr: ir.FilterExpr{
			Line: 2, Op: ir.FilterVarPureOp, Value: "x", Args: []ir.FilterExpr{{Line: 3, Op: ir.FilterNotOp}}}}}}}},
		{PkgPath: "p", RuleGroups: []ir.RuleGroup{{Line: 1, Name: "g", Rules: []ir.Rule{{Line: 2, SyntaxPatterns: []ir.PatternString{{}, {Line: 1, Value: "x"}}}}}}},
	}
}

// ---------------------------------------------------------------- generated rules files

var whereAtoms = []string{
	`m["x"].Type.Is("int")`, `m["x"].Type.Is("string")`, `m["x"].Const`, `m["x"].Pure`, `m["x"].Addressable`, `m["x"].Comparable`,
	`m["x"].Text == "a"`, `m["x"].Text == ""`, `m["x"].Text != "\"q\" \\ ` + "`" + `"`, `m["x"].Text.Matches("^a.*$")`,
	`m["x"].Type.Size >= 4`, `m["x"].Type.Size == 0`, `m["x"].Value.Int() > -5`, `m["x"].Value.Int() == 0`, `m["x"].Value.Int() <= 100`,
	`m["x"].Line == m["y"].Line`, `m["x"].Line < 1000`, `m.File().Imports("fmt")`, `m.File().PkgPath.Matches("targ")`, `m.File().Name.Matches("\\.go$")`,
	`m["x"].Node.Is("Ident")`, `m["x"].Node.Is("BasicLit")`, `m["x"].Type.Underlying().Is("int")`, `m["x"].Type.ConvertibleTo("float64")`,
	`m["x"].Type.AssignableTo("interface{}")`, `m["x"].Type.Implements("error")`, `m["x"].Type.Implements("fmt.Stringer")`,
	`m["x"].Type.HasPointers()`, `m["x"].Type.OfKind("numeric")`, `m["x"].Type.OfKind("int")`, `m["x"].Type.IdenticalTo(m["y"])`,
	`m["x"].Type.HasMethod("fmt.Stringer.String")`, `m["x"].Object.Is("Var")`, `m["x"].Object.IsGlobal()`, `m["$$"].SinkType.Is("interface{}")`,
	`m.GoVersion().GreaterEqThan("1.18")`, `m.GoVersion().LessThan("1.30")`, `m.GoVersion().Eq("1.22")`, `m.Deadcode()`, `m["x"].Contains("$y")`,
	`m["x"].Filter(isZeroInt)`, `m["x"].Filter(startsWithA)`, `m["$$"].Node.Parent().Is("ExprStmt")`, `isNum(m["x"])`, `m["x"].Text.Matches("(?i)a")`,
	`m["x"].Type.Is("[]$elem")`, `m["x"].Type.Is("map[$k]$v")`, `m["y"].Type.Is("chk.T")`, `m["x"].Type.Underlying().Is("struct{$*_}")`,
	// a constant on the left of a commutative comparison (the loader moves it to the right)
	`"aa" == m["x"].Text`, `"" != m["y"].Text`, `32 == m["x"].Value.Int()`, `0 != m["y"].Value.Int()`, `8 == m["x"].Type.Size`, `limitC != m["x"].Value.Int()`,
	`m["x"].Value.Int() >= 31 && m["x"].Value.Int() < limitC`, `m["x"].Text > "aa"`, `m["x"].Text <= m["y"].Text`, `m["x"].Value.Int() > m["y"].Value.Int()`,
	`m["x"].Type.Size < m["y"].Type.Size`,
	// an interface that exists only under the build tag the engines are configured with (resolved while loading)
	`m["y"].Type.Implements("chk.TaggedIface")`, `!m["x"].Type.HasMethod("chk.TaggedIface.Tag")`,
	// an interface the rules file declares itself: its qualified name is <the package Load checks rules files as>.<name>
	`m["x"].Type.Implements("gorules.localNamed")`, `!m["y"].Type.HasMethod("gorules.localNamed.String")`,
	// types named by their full import path
	`m["y"].Type.Implements("example.com/chk.TaggedIface")`, `!m["x"].Type.Implements("example.com/chk.TaggedIface")`,
}

// Comparisons with the constant on the LEFT. The loader accepts the commutative ones; what it does with the ordering
// ones is its business (today: a load error) -- the property only wants source and precompiled form to agree, on the
// outcome of the load and on every report, for every load of the same precompiled value.
var lhsOperands = []struct {
	expr   string
	consts []string
}{
	{`m["x"].Value.Int()`, []string{"0", "3", "31", "32", "33", "40", "-1", "limitC"}},
	{`m["y"].Value.Int()`, []string{"2", "32", "33"}},
	{`m["x"].Text`, []string{`"aa"`, `"bb"`, `"cc"`, `""`, `"32"`}},
	{`m["x"].Line`, []string{"0", "1", "1000", "560"}},
	{`m["x"].Type.Size`, []string{"0", "4", "8", "16"}},
}

func (g *gen) lhsCmp(ordering bool) string {
	o := lhsOperands[g.rng.Intn(len(lhsOperands))]
	ops := []string{"==", "!="}
	if ordering {
		ops = []string{"<", ">", "<=", ">=", "<", ">", "<=", ">=", "==", "!="}
	}
	return o.consts[g.rng.Intn(len(o.consts))] + " " + ops[g.rng.Intn(len(ops))] + " " + o.expr
}

// lhsRulesFile: rules whose filters compare with the constant on the left, alone and inside && / || / !.
func (g *gen) lhsRulesFile(id int, ordering bool) string {
	var sb strings.Builder
	sb.WriteString("package " + pkgClause(id+3) + "\n\nimport \"github.com/quasilyte/go-ruleguard/dsl\"\n\nconst limitC = 32\n\n")
	ng := 1 + g.rng.Intn(2)
	pats := []string{"f($x, $y)", "f($y, $x)", "g($x)", "h($x, $y, $*_)"}
	for gi := 0; gi < ng; gi++ {
		fmt.Fprintf(&sb, "func lhs%d_%d(m dsl.Matcher) {\n", id, gi)
		nr := 2 + g.rng.Intn(3)
		for ri := 0; ri < nr; ri++ {
			pat := pats[g.rng.Intn(len(pats))]
			cmp := g.lhsCmp(ordering)
			if pat == "g($x)" {
				cmp = strings.ReplaceAll(cmp, `m["y"]`, `m["x"]`)
			}
			switch g.rng.Intn(5) {
			case 0:
				cmp = "!(" + cmp + ")"
			case 1:
				cmp = cmp + " && " + strings.ReplaceAll(g.lhsCmp(ordering), `m["y"]`, `m["x"]`)
			case 2:
				cmp = `m["x"].Const && (` + cmp + ")"
			}
			fmt.Fprintf(&sb, "\tm.Match(`%s`).\n\t\tWhere(%s).\n\t\tReport(`lhs %d.%d.%d $x`)\n", pat, cmp, id, gi, ri)
		}
		sb.WriteString("}\n\n")
	}
	return sb.String()
}

func (g *gen) where(depth int) string {
	if depth == 0 || g.rng.Intn(3) == 0 {
		return whereAtoms[g.rng.Intn(len(whereAtoms))]
	}
	switch g.rng.Intn(4) {
	case 0:
		return "!" + g.whereParen(depth-1)
	case 1:
		return g.whereParen(depth-1) + " && " + g.whereParen(depth-1)
	case 2:
		return g.whereParen(depth-1) + " || " + g.whereParen(depth-1)
	}
	return "(" + g.where(depth-1) + ")"
}

func (g *gen) whereParen(depth int) string { return "(" + g.where(depth) + ")" }

// Doc pragmas. What follows `//doc:<pragma>` is the author's text: any amount of any white space in front of, behind and
// inside it, or nothing at all; a pragma may be repeated (the last one wins). Every spelling of the tags line is used in
// turn (docSeq counts the groups of the run), the other pragmas are drawn at random.
var docTagLines = []string{
	"//doc:tags    style experimental",
	"//doc:tags style  experimental",
	"//doc:tags\tstyle\t\texperimental",
	"//doc:tags",
	"//doc:tags   ",
	"//doc:tags diagnostic",
	"//doc:tags  a  b   c    d     e ",
	"//doc:tags style\u00a0experimental\u3000opinionated",
	"//doc:tags \t style \t ",
	"//doc:tagsglued to the pragma",
	"//doc:tags style experimental\n//doc:tags",
	"//doc:tags\n//doc:tags  performance  ",
}

var docValueTexts = []string{
	" summary %d \"q\" `b`", "", "   ", "  two  spaces   inside %d ", "\ttabbed\ttext\t", " f(1, 2)", "   g(1)", "    see https://example.com/?a=b&c=d",
	" \u00a0nbsp at both ends\u00a0", "x", " %% 100% {{.}} $x",
}

var docSeq int

func docText(t string, gi int) string {
	if strings.Contains(t, "%d") {
		return fmt.Sprintf(t, gi)
	}
	return strings.ReplaceAll(t, "%%", "%")
}

func (g *gen) docPragmas(gi int) string {
	docSeq++
	if docSeq%4 == 3 && g.rng.Intn(2) == 0 {
		return "" // a group without documentation
	}
	var lines []string
	for _, pragma := range []string{"summary", "before", "after", "note"} {
		switch g.rng.Intn(4) {
		case 0:
			continue
		case 1:
			// the pragma twice
			lines = append(lines, "//doc:"+pragma+docText(docValueTexts[g.rng.Intn(len(docValueTexts))], gi))
		}
		lines = append(lines, "//doc:"+pragma+docText(docValueTexts[g.rng.Intn(len(docValueTexts))], gi))
	}
	tags := docTagLines[docSeq%len(docTagLines)]
	at := g.rng.Intn(len(lines) + 1)
	lines = append(lines[:at], append([]string{tags}, lines[at:]...)...)
	return strings.Join(lines, "\n") + "\n"
}

// Rules files whose custom declarations contain NO function: types, constants, variables only -- in every combination --
// named by the filters (Implements("gorules.T"), HasMethod("gorules.T.M"), constants as operands). Nothing is compiled for
// such a file, yet its types must be found the same way from source and from IR.
func (g *gen) declRulesFile(id int) string {
	var sb strings.Builder
	sb.WriteString("package " + pkgClause(id+5) + "\n\nimport \"github.com/quasilyte/go-ruleguard/dsl\"\n\n")
	variant := id % 6
	hasType := variant != 2
	if hasType {
		if variant == 3 {
			sb.WriteString("type (\n\tlocalIface interface{ String() string }\n\tlocalOther interface {\n\t\tError() string\n\t}\n)\n\n")
		} else {
			sb.WriteString("type localIface interface{ String() string }\n\n")
		}
	}
	switch variant {
	case 1, 2:
		sb.WriteString("const limitD = 31\n\n")
	case 4:
		sb.WriteString("const (\n\tlimitD = 31\n\tnameD  = \"aa\"\n)\n\n")
	default:
		sb.WriteString("const limitD = 32\n\n")
	}
	if variant == 2 || variant == 4 {
		sb.WriteString("var tagD = \"t\"\n\n")
	}
	if variant == 5 {
		// the control: the same declarations next to a custom function
		sb.WriteString("func isStr(ctx *dsl.VarFilterContext) bool {\n\treturn ctx.Type.String() == \"string\"\n}\n\n")
	}
	sb.WriteString(g.docPragmas(id))
	fmt.Fprintf(&sb, "func decl%d(m dsl.Matcher) {\n", id)
	if hasType {
		fmt.Fprintf(&sb, "\tm.Match(`k($x, $y)`).Where(m[\"y\"].Type.Implements(`gorules.localIface`)).Report(`decl %d: $y implements the local interface`)\n", id)
		fmt.Fprintf(&sb, "\tm.Match(`k($x, $y)`).Where(m[\"x\"].Type.HasMethod(`gorules.localIface.String`) || m[\"y\"].Type.HasMethod(\"gorules.localIface.String\")).Report(`decl %d: $x or $y has the method`)\n", id)
		fmt.Fprintf(&sb, "\tm.Match(`f($x, $y)`).Where(!m[\"x\"].Type.Implements(\"gorules.localIface\") && m[\"x\"].Value.Int() >= limitD).Report(`decl %d: $x at least the limit`)\n", id)
	}
	if variant == 3 {
		fmt.Fprintf(&sb, "\tm.Match(`f($x, $y)`).Where(m[\"x\"].Type.Implements(`gorules.localOther`) || m[\"y\"].Type.HasMethod(`gorules.localOther.Error`)).Report(`decl %d: an error by another name`)\n", id)
	}
	if variant == 5 {
		fmt.Fprintf(&sb, "\tm.Match(`f($x, $y)`).Where(m[\"x\"].Filter(isStr)).Report(`decl %d: a string $x`)\n", id)
	}
	fmt.Fprintf(&sb, "\tm.Match(`g($x)`).Where(m[\"x\"].Value.Int() == limitD).Report(`decl %d: the limit`)\n", id)
	fmt.Fprintf(&sb, "\tm.Match(`h($x, $y, $*_)`).Where(m[\"x\"].Value.Int() > limitD-1 || m[\"y\"].Value.Int() > limitD).Report(`decl %d: h near the limit`)\n", id)
	sb.WriteString("}\n\n")
	return sb.String()
}

// The package clause of a rules file is the author's business: Engine.Load type-checks every rules file as package
// "gorules" whatever it declares, and the custom functions of a file (Filter(fn) / Do(fn)) are compiled, registered and
// looked up under that one name. Every generated file declares the next name of this pool.
var pkgClauses = []string{"gorules", "lintrules", "rules", "gorules_test", "p", "ir", "dsl", "quasigo"}

func pkgClause(id int) string { return pkgClauses[id%len(pkgClauses)] }

func (g *gen) rulesFile(id int) string {
	var sb strings.Builder
	sb.WriteString("package " + pkgClause(id) + "\n\nimport (\n\t\"github.com/quasilyte/go-ruleguard/dsl\"\n")
	useStrings := g.rng.Intn(2) == 0
	if useStrings {
		sb.WriteString("\t\"strings\"\n")
	}
	// the package of the types named by full path below is, in half of the files, a dependency of the rules package
	// itself: loading from source may find it there, loading from IR has only the importer
	if id%2 == 1 {
		sb.WriteString("\t_ \"example.com/chk\"\n")
	}
	sb.WriteString(")\n\n")
	if useStrings {
		sb.WriteString("func startsWithA(ctx *dsl.VarFilterContext) bool {\n\treturn strings.HasPrefix(ctx.GetType(\"string\").String(), \"s\")\n}\n\n")
	} else {
		sb.WriteString("func startsWithA(ctx *dsl.VarFilterContext) bool {\n\treturn ctx.Type.String() == \"string\"\n}\n\n")
	}
	sb.WriteString("func isZeroInt(ctx *dsl.VarFilterContext) bool {\n\tn := 0\n\tif ctx.SizeOf(ctx.Type) > 4 {\n\t\tn = -3\n\t}\n\treturn n+3 == 0\n}\n\n")
	if g.rng.Intn(2) == 0 {
		sb.WriteString("const limit = 100\n\nvar tag = \"t\"\n\n")
	}
	sb.WriteString("const limitC = 40\n\n")
	// a type of the rules file's own, named in filters
	sb.WriteString("type localNamed interface{ String() string }\n\n")
	// handlers: the report / the suggestion is computed by a custom function
	sb.WriteString("func reportDo(ctx *dsl.DoContext) {\n\tctx.SetReport(\"do: \" + ctx.Var(\"x\").Text() + \" / \" + ctx.Var(\"y\").Text())\n}\n\n")
	sb.WriteString("func suggestDo(ctx *dsl.DoContext) {\n\tctx.SetSuggest(\"k(\" + ctx.Var(\"y\").Text() + \", \" + ctx.Var(\"x\").Text() + \")\")\n}\n\n")
	ng := 1 + g.rng.Intn(4)
	pats := []string{"f($x, $y)", "$x + $y", "h($x, $y, $*_)", "$x == $y", "if $x != $y { $*_ }", "$x.m($y)", "f($y, $x)", "$x - $y", "$x * $y"}
	for gi := 0; gi < ng; gi++ {
		sb.WriteString(g.docPragmas(gi))
		fmt.Fprintf(&sb, "func group%d_%d(m dsl.Matcher) {\n", id, gi)
		if g.rng.Intn(3) == 0 {
			sb.WriteString("\tm.Import(\"example.com/chk\")\n")
		} else {
			sb.WriteString("\tm.Import(`example.com/chk`)\n")
		}
		sb.WriteString("\tisNum := func(v dsl.Var) bool {\n\t\treturn v.Type.Is(\"int\") || v.Type.Is(\"float64\")\n\t}\n")
		nr := 1 + g.rng.Intn(4)
		for ri := 0; ri < nr; ri++ {
			np := 1 + g.rng.Intn(2)
			var ps []string
			for i := 0; i < np; i++ {
				ps = append(ps, "`"+pats[g.rng.Intn(len(pats))]+"`")
			}
			if g.rng.Intn(8) == 0 {
				if g.rng.Intn(2) == 0 {
					fmt.Fprintf(&sb, "\tm.MatchComment(`TODO\\((?P<who>\\w+)\\)`).Report(`comment %d.%d $who`)\n", gi, ri)
				} else {
					fmt.Fprintf(&sb, "\tm.MatchComment(`TODO`, `FIXME`).Report(`comment %d.%d`)\n", gi, ri)
				}
				continue
			}
			fmt.Fprintf(&sb, "\tm.Match(%s)", strings.Join(ps, ", "))
			if g.rng.Intn(5) != 0 {
				fmt.Fprintf(&sb, ".\n\t\tWhere(%s)", g.where(2))
			}
			msgs := []string{"r%d.%d $x", "r%d.%d: \\\"$$\\\" 100%%", "r%d.%d", "r%d.%d $y and $x"}
			msg := fmt.Sprintf(msgs[g.rng.Intn(len(msgs))], gi, ri)
			switch g.rng.Intn(5) {
			case 0:
				fmt.Fprintf(&sb, ".\n\t\tSuggest(`g($x)`)")
			case 1:
				fmt.Fprintf(&sb, ".\n\t\tReport(\"%s\").\n\t\tSuggest(\"$x\")", msg)
			case 2:
				fmt.Fprintf(&sb, ".\n\t\tReport(\"%s\").\n\t\tAt(m[\"x\"])", msg)
			default:
				fmt.Fprintf(&sb, ".\n\t\tReport(\"%s\")", msg)
			}
			sb.WriteString("\n")
		}
		fmt.Fprintf(&sb, "\tm.Match(`g($x)`).Where(isNum(m[\"x\"]) && m[\"x\"].Const).Report(`num %d`)\n", gi)
		sb.WriteString("}\n\n")
	}
	// custom functions in every position they can take: a Filter() alone and inside && / || / !, Do() with and without Where()
	fmt.Fprintf(&sb, "func custom%d(m dsl.Matcher) {\n", id)
	fmt.Fprintf(&sb, "\tm.Match(`k($x, $y)`).Where(m[\"y\"].Type.Implements(`gorules.localNamed`) && !m[\"y\"].Type.Implements(`error`)).Report(`file %d: k with a local interface $y`)\n", id)
	fmt.Fprintf(&sb, "\tm.Match(`k($x, $y)`).Where(m[\"y\"].Type.Implements(`example.com/chk.TaggedIface`)).Report(`file %d: k with a tagged $y`)\n", id)
	fmt.Fprintf(&sb, "\tm.Match(`k($x, $y)`).Where(m[\"x\"].Filter(startsWithA)).Report(`file %d: k with string $x`)\n", id)
	fmt.Fprintf(&sb, "\tm.Match(`k($x, $y)`).Where(!m[\"x\"].Filter(isZeroInt) && (m[\"y\"].Filter(startsWithA) || m[\"y\"].Const)).Do(reportDo)\n")
	fmt.Fprintf(&sb, "\tm.Match(`k($x, $y)`).Where(m[\"y\"].Type.Is(`error`)).Do(suggestDo)\n")
	fmt.Fprintf(&sb, "\tm.Match(`k($x, $y)`).Do(reportDo)\n")
	sb.WriteString("}\n\n")
	sb.WriteString(layoutGroup(id))
	// Rules that accept nodes other files' rules accept too: only the first accepting rule of an engine reports, so the
	// order in which loads merge their rules is observable whenever two such files meet in one engine.
	fmt.Fprintf(&sb, "func overlap%d(m dsl.Matcher) {\n", id)
	fmt.Fprintf(&sb, "\tm.Match(`f($x, $y)`, `g($x)`).Report(`file %d: call with $x`)\n", id)
	if g.rng.Intn(2) == 0 {
		fmt.Fprintf(&sb, "\tm.Match(`$x + $y`, `$x - $y`, `$x == $y`).Where(m[\"x\"].Pure).Report(`file %d: binary $x`)\n", id)
	}
	if g.rng.Intn(2) == 0 {
		fmt.Fprintf(&sb, "\tm.MatchComment(`TODO`).Report(`file %d: todo`)\n", id)
	}
	sb.WriteString("}\n\n")
	return sb.String()
}

// layoutCall: one call `m.<method>(patterns...)` of a rule chain in source layout k -- where the chain starts, where the
// call's parenthesis opens and where each pattern literal is written are different lines in all layouts but the last.
func layoutCall(k int, method string, pats []string) string {
	q := make([]string, len(pats))
	for i, p := range pats {
		q[i] = "`" + p + "`"
	}
	switch k % 6 {
	case 0: // every pattern on a line of its own, closing parenthesis on the next
		return "\tm." + method + "(\n\t\t" + strings.Join(q, ",\n\t\t") + ",\n\t)"
	case 1: // the first pattern on the line of the call, the others below
		return "\tm." + method + "(" + strings.Join(q, ",\n\t\t") + ")"
	case 2: // a blank line and a comment between the parenthesis and the first pattern
		return "\tm." + method + "(\n\n\t\t// what to look for\n\t\t" + strings.Join(q, ", ") + ")"
	case 3: // the chain breaks before the method
		return "\tm.\n\t\t" + method + "(" + strings.Join(q, ", ") + ")"
	case 4: // ... and again after the parenthesis
		return "\tm.\n\t\t" + method + "(\n\t\t\t" + strings.Join(q, ",\n\n\t\t\t") + ")"
	default:
		return "\tm." + method + "(" + strings.Join(q, ", ") + ")"
	}
}

// layoutGroup: rules whose patterns are written on other lines than the start of their chain, in every shape of a rule (a
// pattern and a message and nothing else; alternatives; with a filter, a suggestion, a location; a comment pattern). Every
// rule accepts calls of its own (lay(<n>, ..)) so that each of them reports: the line a report names (RuleInfo.Line) and
// the lines in the IR are compared between the source and the precompiled path.
func layoutGroup(id int) string {
	var sb strings.Builder
	fmt.Fprintf(&sb, "func layout%d(m dsl.Matcher) {\n", id)
	rep := func(text string, nl bool) string {
		if nl {
			return ".\n\t\tReport(`" + text + "`)\n"
		}
		return ".Report(`" + text + "`)\n"
	}
	msg := func(n int) string { return fmt.Sprintf("layout %d.%d $x", id, n) }
	// nothing but a pattern and a message
	sb.WriteString(layoutCall(0, "Match", []string{"lay(1, $x)"}) + rep(msg(1), false))
	sb.WriteString(layoutCall(2, "Match", []string{"lay(2, $x)"}) + rep(msg(2), true))
	sb.WriteString(layoutCall(3+id%2, "Match", []string{"lay(3, $x)"}) + rep(msg(3), id%3 == 0))
	// alternatives
	sb.WriteString(layoutCall(id%2, "Match", []string{"lay(4, $x)", "lay(104, $x)"}) + rep(msg(4), false))
	sb.WriteString(layoutCall(4, "Match", []string{"lay(5, $x)", "lay(105, $x)"}) + rep(msg(5), true))
	// with a filter / a suggestion / a location
	sb.WriteString(layoutCall(id, "Match", []string{"lay(6, $x)"}) + ".Where(m[\"x\"].Type.Is(`string`))" + rep(msg(6), false))
	sb.WriteString(layoutCall(id+1, "Match", []string{"lay(7, $x)"}) + ".Suggest(`lay(70, $x)`)\n")
	sb.WriteString(layoutCall(id+2, "Match", []string{"lay(8, $x)"}) + ".\n\t\tReport(`" + msg(8) + "`).\n\t\tAt(m[\"x\"])\n")
	// a comment pattern
	sb.WriteString(layoutCall(id*5, "MatchComment", []string{"LAYOUT"}) + rep(fmt.Sprintf("layout %d.9", id), false))
	// the remaining layouts in turn
	sb.WriteString(layoutCall(id+3, "Match", []string{"lay(10, $x)"}) + rep(msg(10), false))
	sb.WriteString(layoutCall(id+4, "Match", []string{"lay(11, $x)", "lay(111, $x)"}) + rep(msg(11), true))
	sb.WriteString(layoutCall(5, "Match", []string{"lay(12, $x)"}) + rep(msg(12), false))
	sb.WriteString("}\n\n")
	return sb.String()
}

// offLineRules: rules of f with a pattern written on another line than the rule starts on; plain: those that are nothing
// but one syntax pattern and a message
func offLineRules(f *ir.File) (all, plain int) {
	for _, g := range f.RuleGroups {
		for _, r := range g.Rules {
			off := false
			for _, p := range append(append([]ir.PatternString{}, r.SyntaxPatterns...), r.CommentPatterns...) {
				if p.Line != r.Line {
					off = true
				}
			}
			if !off {
				continue
			}
			all++
			if len(r.SyntaxPatterns) == 1 && len(r.CommentPatterns) == 0 && r.ReportTemplate != "" && r.SuggestTemplate == "" &&
				r.DoFuncName == "" && r.LocationVar == "" && !r.WhereExpr.IsValid() {
				plain++
			}
		}
	}
	return
}

const genTarget = `package targ

import (
	"errors"
	"fmt"

	"example.com/chk"
)

type S struct{ a, b int }

func (S) String() string { return "s" }
func (S) m(x int) int    { return x }

func f(a, b interface{})             {}
func g(a interface{})                {}
func h(a, b interface{}, rest ...int) {}
func k(a, b interface{})             {}

var global = 10

func run(p *int, s string, e error, t chk.T) int {
	// TODO(bob): first
	var local = 5
	f(1, 2)
	f(local, global)
	f(s, "a")
	f(e, errors.New("x"))
	f(S{}, t)
	g(a0())
	g(*p)
	g("")
	h(1, 2, 3, 4)
	h(s, s)
	_ = local + global
	_ = s + "a"
	_ = 1 + 2
	_ = local - global
	_ = int32(local) * int32(2)
	if local == global {
		g(local)
	}
	if s != "a" {
		f(s, s)
	}
	_ = []int{1, 2}
	_ = []string{}
	_ = S{}.m(7)
	/* FIXME later */
	if false {
		g(0)
	}
	fmt.Println(local)
	k(s, 1)
	k(s+"x", e)
	k(local, s)
	k(int64(local), "const")
	k(*p, e)
	k(int8(1), t)
	k(local, S{})
	k(s, &S{})
	cmpOperands(1, 2, 3)
	return local
}

func cmpOperands(aa, bb, cc int) {
	f(31, 32)
	f(32, 33)
	f(33, 2)
	f(40, 3)
	f(0, -1)
	f(3, 40)
	f(aa, bb)
	f(bb, cc)
	f(cc, aa)
	f(int8(1), int64(2))
	f(int64(31), int32(32))
	g(31)
	g(32)
	g(33)
	g(bb)
	h(32, 31)
	h(cc, 32, 1)
}

func a0() int { return 0 }

func lay(n int, x interface{}) {}

func layouts(s string, n int) {
	// LAYOUT comment
	lay(1, s)
	lay(2, n)
	lay(3, s)
	lay(4, n)
	lay(104, s)
	lay(5, n)
	lay(105, "five")
	lay(6, s)
	lay(6, n)
	lay(7, n)
	lay(8, s+"x")
	lay(9, n)
	lay(10, s)
	lay(11, n)
	lay(111, s)
	lay(12, n)
}
`

// ---------------------------------------------------------------- cases

type Case struct {
	ID        int         `json:"id"`
	Kind      string      `json:"kind"` // random | outside | fixture | generated
	Name      string      `json:"name"`
	Val       interface{} `json:"val"`
	Lit       interface{} `json:"lit"`
	Text      string      `json:"text"`
	PrintErr  string      `json:"print_err,omitempty"`
	ParseErr  string      `json:"parse_err,omitempty"`
	TypeErr   string      `json:"type_err,omitempty"`
	ConvErr   string      `json:"conv_err,omitempty"`
	RulesPath string      `json:"rules_path,omitempty"`
	Ops       []int       `json:"ops"`
	NGroups   int         `json:"ngroups"`
	MayReject bool        `json:"may_reject,omitempty"`
	// the real `gorules precompile` was run on the rules file: Text is ITS output
	FromTool    bool   `json:"from_tool,omitempty"`
	ToolErr     string `json:"tool_err,omitempty"`
	ToolDiffers string `json:"tool_differs,omitempty"` // the tool's output vs irprint.File(irconv.ConvertFile(...)) in this process
	// the IR that Load converts internally (convertAST with the engine's importer) vs the stand-alone conversion
	EngineConvDiffers string `json:"engine_conv_differs,omitempty"`
	// the first zero-valued element of a list in the value (printed RuleGroups part only; CustomDecls / BundleImports are
	// written by explicit loops), "" if there is none
	ZeroElem string `json:"zero_elem,omitempty"`
	// rules-file cases: number of function declarations among the CustomDecls (-1: none at all)
	FuncDecls int `json:"func_decls"`
	// rules with a pattern on another line than the rule's own; those of them that are one pattern + a message only
	OffLine      int `json:"off_line,omitempty"`
	OffLinePlain int `json:"off_line_plain,omitempty"`
}

// zeroElem: the path of the first zero-valued element of a (non-nil) slice inside v. The reflective printer writes
// nothing for a zero value, list elements included; the IR a rules file converts to must not contain one.
func zeroElem(v reflect.Value, path string) string {
	switch v.Kind() {
	case reflect.Struct:
		for i := 0; i < v.NumField(); i++ {
			if p := zeroElem(v.Field(i), path+"."+v.Type().Field(i).Name); p != "" {
				return p
			}
		}
	case reflect.Slice:
		for i := 0; i < v.Len(); i++ {
			p := fmt.Sprintf("%s[%d]", path, i)
			if v.Index(i).IsZero() {
				return p
			}
			if q := zeroElem(v.Index(i), p); q != "" {
				return q
			}
		}
	case reflect.Interface:
		if !v.IsNil() {
			return zeroElem(v.Elem(), path)
		}
	}
	return ""
}

// funcDecls: number of function declarations among the custom declarations of a converted file (-1: no declarations)
func funcDecls(f *ir.File) int {
	if len(f.CustomDecls) == 0 {
		return -1
	}
	n := 0
	for _, d := range f.CustomDecls {
		fs := token.NewFileSet()
		pf, err := parser.ParseFile(fs, "decl.go", "package p\n"+d, 0)
		if err != nil {
			continue
		}
		for _, dd := range pf.Decls {
			if _, ok := dd.(*ast.FuncDecl); ok {
				n++
			}
		}
	}
	return n
}

func collectOps(f *ir.File) []int {
	seen := map[int]bool{}
	var walk func(e ir.FilterExpr)
	walk = func(e ir.FilterExpr) {
		seen[int(e.Op)] = true
		for _, a := range e.Args {
			walk(a)
		}
	}
	for _, g := range f.RuleGroups {
		for _, r := range g.Rules {
			walk(r.WhereExpr)
		}
	}
	var out []int
	for k := range seen {
		out = append(out, k)
	}
	sort.Ints(out)
	return out
}

type checker struct {
	fset *token.FileSet
	imp  types.Importer
}

func (c *checker) typecheckLiteral(text string) string {
	src := "package p\n\nimport \"github.com/quasilyte/go-ruleguard/ruleguard/ir\"\n\nvar X = " + text + "\n"
	f, err := parser.ParseFile(c.fset, "lit.go", src, 0)
	if err != nil {
		return "parse: " + err.Error()
	}
	var first error
	conf := types.Config{Importer: c.imp, Error: func(e error) {
		if first == nil {
			first = e
		}
	}}
	_, _ = conf.Check("p", c.fset, []*ast.File{f}, nil)
	if first != nil {
		return first.Error()
	}
	return ""
}

func convertRules(path string, src []byte) (*ir.File, error) {
	fset := token.NewFileSet()
	f, err := parser.ParseFile(fset, path, src, parser.ParseComments)
	if err != nil {
		return nil, err
	}
	info := &types.Info{Types: map[ast.Expr]types.TypeAndValue{}, Uses: map[*ast.Ident]types.Object{}, Defs: map[*ast.Ident]types.Object{}}
	conf := types.Config{Importer: importer.ForCompiler(fset, "source", nil)}
	pkg, err := conf.Check("gorules", fset, []*ast.File{f}, info)
	if err != nil {
		return nil, err
	}
	return irconv.ConvertFile(&irconv.Context{Pkg: pkg, Types: info, Fset: fset, Src: src}, f)
}

// histories: sequences of loads into one engine. Generated files share the target and accept common nodes (overlap
// groups), so the merge order is observable; every shape of history is produced for every run, the files are drawn at random.
func (g *gen) histories(batch []Case, targDir string, n int) []History {
	var gens, lhs, bundles, fixtures []Case
	for _, c := range batch {
		if c.RulesPath == "" || c.PrintErr != "" || c.ParseErr != "" || c.TypeErr != "" || c.Text == "" {
			continue
		}
		switch {
		case c.Kind == "fixture":
			fixtures = append(fixtures, c)
		case strings.HasPrefix(c.Name, "bundle"):
			bundles = append(bundles, c)
		case strings.HasPrefix(c.Name, "lhs"):
			lhs = append(lhs, c)
		default:
			gens = append(gens, c)
		}
	}
	if len(gens) < 3 {
		return nil
	}
	pick := func(pool []Case, not ...int) Case {
		for {
			c := pool[g.rng.Intn(len(pool))]
			ok := true
			for _, x := range not {
				if x == c.ID {
					ok = false
				}
			}
			if ok {
				return c
			}
		}
	}
	shapes := [][]string{{"ir", "ir"}, {"src", "ir"}, {"ir", "src"}, {"src", "ir", "ir"}, {"ir", "src", "ir"}, {"src", "src", "ir"}, {"ir", "ir", "src"}}
	var out []History
	add := func(steps []HistStep, filtered bool, dir string) {
		out = append(out, History{ID: -(len(out) + 1), Steps: steps, Filtered: filtered, TargetDir: dir})
	}
	for k := 0; len(out) < n; k++ {
		switch k % 12 {
		default: // distinct generated files, every shape in turn
			shape := shapes[k%len(shapes)]
			var steps []HistStep
			var used []int
			for _, mode := range shape {
				c := pick(gens, used...)
				used = append(used, c.ID)
				steps = append(steps, HistStep{c.ID, mode})
			}
			add(steps, k%5 == 4, targDir)
		case 7: // the same file twice: a redefinition error on every path
			c := pick(gens)
			modes := [][]string{{"ir", "ir"}, {"src", "ir"}, {"ir", "src"}}[(k/12)%3]
			add([]HistStep{{c.ID, modes[0]}, {c.ID, modes[1]}}, false, targDir)
		case 8: // left-hand constants next to an ordinary file
			if len(lhs) > 0 {
				a, b := pick(lhs), pick(gens)
				if (k/12)%2 == 0 {
					add([]HistStep{{b.ID, "src"}, {a.ID, "ir"}}, false, targDir)
				} else {
					add([]HistStep{{a.ID, "ir"}, {b.ID, "ir"}}, false, targDir)
				}
			}
		case 9: // a file with bundle imports
			if len(bundles) > 0 {
				a, b := pick(bundles), pick(gens)
				if (k/12)%2 == 0 {
					add([]HistStep{{a.ID, "ir"}, {b.ID, "src"}}, (k/12)%4 == 2, targDir)
				} else {
					add([]HistStep{{b.ID, "src"}, {a.ID, "ir"}}, (k/12)%4 == 3, targDir)
				}
			}
		case 10, 11: // fixture rules files on the fixture's own target
			if len(fixtures) > 1 {
				a := pick(fixtures)
				b := pick(fixtures, a.ID)
				modes := [][]string{{"ir", "ir"}, {"src", "ir"}, {"ir", "src"}}[(k/12+k)%3]
				dir := filepath.Dir(a.RulesPath)
				if k%2 == 0 {
					dir = filepath.Dir(b.RulesPath)
				}
				add([]HistStep{{a.ID, modes[0]}, {b.ID, modes[1]}}, false, dir)
			}
		}
		if k > 20*n {
			break
		}
	}
	return out
}

func firstTextDiff(a, b string) string {
	la, lb := strings.Split(a, "\n"), strings.Split(b, "\n")
	for i := 0; i < len(la) || i < len(lb); i++ {
		x, y := "<end>", "<end>"
		if i < len(la) {
			x = la[i]
		}
		if i < len(lb) {
			y = lb[i]
		}
		if x != y {
			return fmt.Sprintf("line %d: gorules precompile %q <> in-process %q", i+1, x, y)
		}
	}
	return ""
}

// engineConvDiff: Load converts the source with convertAST (the engine's importer, the load context's file set); the
// precompiler converts with its own parser / type-checker set-up. Both must arrive at the same IR.
func engineConvDiff(path string, standalone *ir.File) (out string) {
	src, err := os.ReadFile(path)
	if err != nil {
		return ""
	}
	defer func() {
		if r := recover(); r != nil {
			out = fmt.Sprintf("convertAST panics: %v", r)
		}
	}()
	e := ruleguard.NewEngine()
	e.InferBuildContext()
	f, err := ruleguard.VerifConvertAST(e, &ruleguard.LoadContext{Fset: token.NewFileSet()}, path, src)
	if err != nil {
		return "convertAST: " + err.Error()
	}
	if reflect.DeepEqual(f, standalone) {
		return ""
	}
	var a, b bytes.Buffer
	func() {
		defer func() { recover() }()
		irprint.File(&a, f)
		irprint.File(&b, standalone)
	}()
	if d := firstTextDiff(b.String(), a.String()); d != "" {
		return strings.Replace(strings.Replace(d, "gorules precompile", "stand-alone conversion", 1), "in-process", "convertAST inside Load", 1)
	}
	return "values differ (reflect.DeepEqual) but print alike"
}

func main() {
	seed := flag.Int64("seed", 1, "PRNG seed")
	nrand := flag.Int("n", 150, "random IR values")
	nrules := flag.Int("nrules", 12, "generated rules files")
	tmp := flag.String("tmp", "", "scratch directory")
	gendir := flag.String("gendir", "", "directory for the generated batch program")
	repo := flag.String("repo", "/repo", "repository root (fixture rules files)")
	nhist := flag.Int("nhist", 24, "load histories")
	gorules := flag.String("gorules", "", "path of the built cmd/gorules binary (its `precompile` output becomes the printed text of rules-file cases)")
	flag.Parse()
	if *tmp == "" || *gendir == "" {
		fmt.Fprintln(os.Stderr, "need -tmp and -gendir")
		os.Exit(3)
	}
	rng := rand.New(rand.NewSource(*seed))
	nops := 0
	for op := ir.FilterOp(0); op < 1000; op++ {
		if op.String() == "" {
			break
		}
		nops++
	}
	g := &gen{rng: rng, nops: nops, compact: map[ir.FilterOp]bool{ir.FilterStringOp: true, ir.FilterVarPureOp: true, ir.FilterVarTextOp: true}}
	cfset := token.NewFileSet()
	chk := &checker{fset: cfset, imp: importer.ForCompiler(cfset, "source", nil)}

	type item struct {
		kind, name string
		f          *ir.File
		rulesPath  string
		convErr    string
		mayReject  bool
	}
	var items []item
	for i := 0; i < *nrand; i++ {
		items = append(items, item{kind: "random", name: fmt.Sprintf("random%d", i), f: g.file()})
	}
	for i, f := range outsideDomain() {
		items = append(items, item{kind: "outside", name: fmt.Sprintf("outside%d", i), f: f})
	}
	// fixture rules files
	fixtures, _ := filepath.Glob(filepath.Join(*repo, "analyzer", "testdata", "src", "*", "rules.go"))
	sort.Strings(fixtures)
	for _, p := range fixtures {
		src, err := os.ReadFile(p)
		if err != nil {
			continue
		}
		f, err := convertRules(p, src)
		it := item{kind: "fixture", name: filepath.Base(filepath.Dir(p)), rulesPath: p}
		if err != nil {
			it.convErr = err.Error()
		} else {
			it.f = f
		}
		items = append(items, it)
	}
	// generated rules files
	rulesDir := filepath.Join(*tmp, "rules")
	os.MkdirAll(rulesDir, 0o755)
	for i := 0; i < *nrules; i++ {
		p := filepath.Join(rulesDir, fmt.Sprintf("gen%d.go", i))
		src := g.rulesFile(i)
		os.WriteFile(p, []byte(src), 0o644)
		f, err := convertRules(p, []byte(src))
		it := item{kind: "generated", name: fmt.Sprintf("gen%d", i), rulesPath: p}
		if err != nil {
			it.convErr = err.Error()
		} else {
			it.f = f
		}
		items = append(items, it)
	}
	// rules files comparing with the constant on the left: the first has commutative comparisons only
	nlhs := 2 + *nrules/6
	for i := 0; i < nlhs; i++ {
		p := filepath.Join(rulesDir, fmt.Sprintf("lhs%d.go", i))
		src := g.lhsRulesFile(i, i > 0)
		os.WriteFile(p, []byte(src), 0o644)
		f, err := convertRules(p, []byte(src))
		it := item{kind: "generated", name: fmt.Sprintf("lhs%d", i), rulesPath: p, mayReject: i > 0}
		if err != nil {
			it.convErr = err.Error()
		} else {
			it.f = f
		}
		items = append(items, it)
	}
	// rules files that declare types / constants / variables and no custom function
	ndecl := 6
	for i := 0; i < ndecl; i++ {
		p := filepath.Join(rulesDir, fmt.Sprintf("decl%d.go", i))
		src := g.declRulesFile(i)
		os.WriteFile(p, []byte(src), 0o644)
		f, err := convertRules(p, []byte(src))
		it := item{kind: "generated", name: fmt.Sprintf("decl%d", i), rulesPath: p}
		if err != nil {
			it.convErr = err.Error()
		} else {
			it.f = f
		}
		items = append(items, it)
	}
	// rules files with bundle imports (prefix != package path, empty prefix)
	bundleSrcs := []string{
		"package lintbundle\n\nimport (\n\t\"github.com/quasilyte/go-ruleguard/dsl\"\n\trb1 \"example.com/rb1\"\n)\n\nfunc init() {\n\tdsl.ImportRules(\"pfx\", rb1.Bundle)\n}\n\nfunc notConst(ctx *dsl.VarFilterContext) bool {\n\treturn ctx.Type.String() != \"untyped int\"\n}\n\nfunc local(m dsl.Matcher) {\n\tm.Match(`g($x)`).Where(m[\"x\"].Filter(notConst)).Report(`local $x`)\n}\n",
		"package gorules\n\nimport (\n\t\"github.com/quasilyte/go-ruleguard/dsl\"\n\t\"example.com/rb1\"\n\t\"example.com/rb2\"\n)\n\nfunc init() {\n\tdsl.ImportRules(\"\", rb1.Bundle)\n\tdsl.ImportRules(\"two\", rb2.Bundle)\n}\n",
	}
	for i, src := range bundleSrcs {
		p := filepath.Join(rulesDir, fmt.Sprintf("bundle%d.go", i))
		os.WriteFile(p, []byte(src), 0o644)
		f, err := convertRules(p, []byte(src))
		it := item{kind: "generated", name: fmt.Sprintf("bundle%d", i), rulesPath: p}
		if err != nil {
			it.convErr = err.Error()
		} else {
			it.f = f
		}
		items = append(items, it)
	}
	targDir := filepath.Join(*tmp, "targ")
	os.MkdirAll(targDir, 0o755)
	os.WriteFile(filepath.Join(targDir, "targ.go"), []byte(genTarget), 0o644)

	// the real precompiler, run on every rules file (in parallel; each is a process of its own)
	toolOut := make([]string, len(items))
	toolErr := make([]string, len(items))
	convDiff := make([]string, len(items))
	{
		var wg sync.WaitGroup
		sem := make(chan struct{}, 8)
		for id, it := range items {
			if it.rulesPath == "" || it.f == nil {
				continue
			}
			wg.Add(1)
			go func(id int, path string, f *ir.File) {
				defer wg.Done()
				sem <- struct{}{}
				defer func() { <-sem }()
				convDiff[id] = engineConvDiff(path, f)
				if *gorules == "" {
					return
				}
				var stdout, stderr bytes.Buffer
				cmd := exec.Command(*gorules, "precompile", "-rules", path)
				cmd.Stdout, cmd.Stderr = &stdout, &stderr
				if err := cmd.Run(); err != nil {
					toolErr[id] = fmt.Sprintf("%v: %s", err, stderr.String())
					return
				}
				toolOut[id] = stdout.String()
			}(id, it.rulesPath, it.f)
		}
		wg.Wait()
	}

	// every distinct string token of the printed texts, with what strconv.Unquote makes of it (the literal trees carry the
	// decoded strings; the Coq model of Go's interpreted string literals is run on the raw tokens)
	tokens := map[string]string{}
	tokenCase := map[string]string{}

	enc := json.NewEncoder(os.Stdout)
	var batch []Case
	for id, it := range items {
		c := Case{ID: id, Kind: it.kind, Name: it.name, RulesPath: it.rulesPath, ConvErr: it.convErr, MayReject: it.mayReject}
		if it.f == nil {
			enc.Encode(c)
			continue
		}
		c.Val = encVal(reflect.ValueOf(*it.f))
		c.ZeroElem = zeroElem(reflect.ValueOf(it.f.RuleGroups), "RuleGroups")
		c.FuncDecls = -1
		if it.rulesPath != "" {
			c.FuncDecls = funcDecls(it.f)
		}
		c.Ops = collectOps(it.f)
		c.NGroups = len(it.f.RuleGroups)
		c.OffLine, c.OffLinePlain = offLineRules(it.f)
		func() {
			defer func() {
				if r := recover(); r != nil {
					c.PrintErr = fmt.Sprint(r)
				}
			}()
			var buf bytes.Buffer
			// irprint.File prints to stdout before panicking on unformattable output: keep our stdout clean
			old := os.Stdout
			devnull, _ := os.OpenFile(os.DevNull, os.O_WRONLY, 0)
			os.Stdout = devnull
			defer func() { os.Stdout = old; devnull.Close() }()
			irprint.File(&buf, it.f)
			c.Text = buf.String()
		}()
		if it.rulesPath != "" && *gorules != "" {
			c.FromTool = true
			if toolErr[id] != "" {
				c.ToolErr = toolErr[id]
			} else {
				if toolOut[id] != c.Text {
					c.ToolDiffers = firstTextDiff(toolOut[id], c.Text)
				}
				c.Text, c.PrintErr = toolOut[id], ""
			}
		}
		c.EngineConvDiffers = convDiff[id]
		if c.PrintErr == "" {
			fset := token.NewFileSet()
			e, err := parser.ParseExprFrom(fset, "lit.go", c.Text, 0)
			if err != nil {
				c.ParseErr = err.Error()
			} else {
				c.Lit = encLit(fset, e)
				ast.Inspect(e, func(n ast.Node) bool {
					if bl, ok := n.(*ast.BasicLit); ok && bl.Kind == token.STRING {
						if _, seen := tokens[bl.Value]; !seen {
							if dec, err := strconv.Unquote(bl.Value); err == nil {
								tokens[bl.Value] = dec
								tokenCase[bl.Value] = it.name
							}
						}
					}
					return true
				})
				c.TypeErr = chk.typecheckLiteral(c.Text)
			}
		}
		enc.Encode(c)
		batch = append(batch, c)
	}
	{
		var raws []string
		for raw := range tokens {
			raws = append(raws, raw)
		}
		sort.Strings(raws)
		type tok struct {
			Raw  []int  `json:"raw"`
			Dec  []int  `json:"dec"`
			Case string `json:"case"`
		}
		var toks []tok
		for _, raw := range raws {
			toks = append(toks, tok{bytesOf(raw), bytesOf(tokens[raw]), tokenCase[raw]})
		}
		enc.Encode(map[string]interface{}{"string_tokens": toks})
	}
	histories := g.histories(batch, targDir, *nhist)
	for _, h := range histories {
		enc.Encode(map[string]interface{}{"history": h})
	}
	if err := writeBatch(*gendir, batch, histories, targDir, *repo); err != nil {
		fmt.Fprintln(os.Stderr, "batch:", err)
		os.Exit(3)
	}
}
