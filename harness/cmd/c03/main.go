// c03: observations for "report payload is faithful: message, location, quick-fix text, rule line".
//
//	render : renderMessage through the hook on arbitrary capture sets (names that prefix one another, any list order,
//	         typed-nil captures), with and without truncation
//	ntext  : nodeText through the hook on every expression of a file incl. nodes ending exactly at EOF and nodes
//	         whose positions lie outside the file
//	engine : rules built from a grammar (capture-name chains, $$, $* lists, At(), Suggest(), several pattern
//	         alternatives on different lines, MatchComment alternatives) run over a generated target file whose
//	         byte offsets are known by construction; each observed ReportData next to the expected one
//
// The expected values are computed here by an independent implementation of the property's specification
// (longest capture name wins, exact source slices, C15 truncation, reported node = At capture or whole match).
package main

import (
	"bytes"
	"encoding/json"
	"flag"
	"fmt"
	"go/ast"
	"go/importer"
	"go/parser"
	"go/printer"
	"go/token"
	"go/types"
	"math/rand"
	"os"
	"path/filepath"
	"reflect"
	"regexp"
	"sort"
	"strings"

	"verif/harness/internal/hutil"

	"github.com/quasilyte/go-ruleguard/ruleguard"
	"github.com/quasilyte/gogrep"
)

// ---------------------------------------------------------------- specification (oracle)

type capSpec struct {
	Name string `json:"name"`
	Text []byte `json:"text"`
	Fix  bool   `json:"fix"`  // node is &x, &x[i] or &x.y (what fixedText rewrites)
	Nil  bool   `json:"nil"`  // no usable node (typed nil pointer, nil interface): skipped by the renderer
	Kind int    `json:"kind"` // 0 a node, 1 typed nil pointer, 2 nil interface (bound to no node at all), 3 empty node slice
	From int    `json:"from"`
	To   int    `json:"to"`
}

// truncSpec is C15's specification of the shown text (l = RunContext.TruncateLen)
func truncSpec(s []byte, l int) []byte {
	e := l
	if e == 0 {
		e = 60
	}
	if len(s) <= e {
		return s
	}
	if e < 5 {
		if e < 0 {
			e = 0
		}
		return s[:e]
	}
	m := e - 5
	lft := m / 2
	rgt := m - lft
	out := append([]byte{}, s[:lft]...)
	out = append(out, "<...>"...)
	return append(out, s[len(s)-rgt:]...)
}

// interpSpec: `$$` -> whole match, `$name` -> text of the capture with the LONGEST name prefixing the rest (the FIRST
// capture of that name when a name occurs twice, as everywhere else in the engine), else `$`
func interpSpec(msg string, caps []capSpec, whole []byte, trunc bool, l int) string {
	var out []byte
	show := func(t []byte) []byte {
		if trunc {
			return truncSpec(t, l)
		}
		return t
	}
	for i := 0; i < len(msg); {
		if msg[i] != '$' {
			out = append(out, msg[i])
			i++
			continue
		}
		rest := msg[i+1:]
		if strings.HasPrefix(rest, "$") {
			out = append(out, show(whole)...)
			i += 2
			continue
		}
		best := -1
		for k, c := range caps {
			if c.Nil || !strings.HasPrefix(rest, c.Name) {
				continue
			}
			if best < 0 || len(c.Name) > len(caps[best].Name) {
				best = k
			}
		}
		if best < 0 {
			out = append(out, '$')
			i++
			continue
		}
		out = append(out, show(caps[best].Text)...)
		i += 1 + len(caps[best].Name)
	}
	return string(out)
}

// ---------------------------------------------------------------- expression pool

type poolExpr struct {
	text string
	fix  bool
}

var pool = []poolExpr{
	{"1 +  2", false}, {"x", false}, {"&a", true}, {"&a.b", true}, {"&arr[0]", true}, {"*p", false}, {`"héllo wörld"`, false},
	{"f(1,  2)", false}, {"func() int {\n\t\treturn  1\n\t}", false}, {"x /* c */ + x", false}, {"arr[1 : 2]", false},
	{"[]int{1,\n\t\t2}", false}, {`"aaaaaaaaaaaaaaaaaaaaaaaaaaaaaaaaaaaaaaaaaaaaaaaaaaaaaaaaaaaaaaaaaaaaaaaaaaaaaaaaaaaaaa"`, false},
	{"(x)", false}, {"-x", false}, {"&(a)", false}, {"&T{}", false}, {"a.b", false}, {"x*x +   x", false}, {`"日本語テキスト"`, false},
	{"f(x,\n\t\tx)", false}, {"&a.t.b", true}, {"&*p", false}, {"'ø'", false}, {"arr[0]", false},
	{`"0123456789012345678901234567890123456789012345678901234567"`, false}, {`"01234567890123456789012345678901234567890123456789012345678"`, false},
}

const targetPrelude = `package target

type U struct{ b int }
type T struct {
	b int
	t U
}

var a T
var arr []int
var brr []int
var p *int
var x int

func f(int, int) int { return 0 }

`

// ---------------------------------------------------------------- direct: renderMessage / nodeText through the hooks

type renderObs struct {
	K     string    `json:"k"`
	Msg   string    `json:"msg"`
	Caps  []capSpec `json:"caps"`
	Whole capSpec   `json:"whole"`
	Trunc bool      `json:"trunc"`
	L     int       `json:"L"`
	Out   []byte    `json:"out"`
	Want  []byte    `json:"want"`
	Panic string    `json:"panic,omitempty"`
}

func isFixable(n ast.Node) bool {
	u, ok := n.(*ast.UnaryExpr)
	if !ok || u.Op != token.AND {
		return false
	}
	switch u.X.(type) {
	case *ast.Ident, *ast.IndexExpr, *ast.SelectorExpr:
		return true
	}
	return false
}

// a capture list in which two captures carry the same name and which is long enough for the library's unstable sort to
// leave its insertion-sort range (14 captures): `$dd` is the FIRST capture named dd
var dupChain = []string{"eee", "dd", "gg", "h", "ii", "jjj", "kk", "l", "mmm", "dd", "oo", "p", "qqq", "rr"}

var fillerNames = []string{"q", "qq", "r1", "r22", "s", "t333", "u", "uu", "w4444", "k", "kk1", "j", "jjj1", "o55", "i", "ii2"}

var nameChains = [][]string{
	{"x"}, {"x", "xy"}, {"x", "xy", "xyz"}, {"xyz", "x", "xy"}, {"a", "ab", "b"}, {"foo", "f", "fo", "fooo"}, {"ab", "cd"},
	{"x", "y", "z", "xx", "yy", "zz"}, {"n", "nn", "nnn", "nnnn", "nnnnn", "m"}, {"v1", "v10", "v100", "v"},
}

func randTemplate(rng *rand.Rand, names []string) string {
	var toks []string
	for _, n := range names {
		toks = append(toks, "$"+n, "$"+n+".b", "$"+n+"z", "$"+n+"$"+n)
	}
	toks = append(toks, "$$", "$nope", "$", " | ", ":", "text", "$$.b", "$ $", "(", ")", "$$$", "$x", "é")
	var sb strings.Builder
	n := 1 + rng.Intn(7)
	for i := 0; i < n; i++ {
		sb.WriteString(toks[rng.Intn(len(toks))])
	}
	return sb.String()
}

func directLevel(enc *json.Encoder, rng *rand.Rand, n int) {
	var sb strings.Builder
	sb.WriteString(targetPrelude)
	sb.WriteString("func q(args ...interface{}) int { return 0 }\n\nfunc g() {\n")
	for _, e := range pool {
		fmt.Fprintf(&sb, "\t_ = q(%s)\n", e.text)
	}
	sb.WriteString("}\n\nvar _ = q(x, 1 +  2)") // no trailing newline: the last call ends exactly at EOF
	src := []byte(sb.String())
	fset := token.NewFileSet()
	fset.AddFile("pad.go", -1, 4321) // the file under test is not the first of its FileSet: token.Pos != offset + 1
	file, err := parser.ParseFile(fset, "direct.go", src, parser.ParseComments)
	if err != nil {
		fmt.Fprintln(os.Stderr, "direct parse:", err)
		os.Exit(3)
	}
	var nodes []ast.Node
	ast.Inspect(file, func(n ast.Node) bool {
		if e, ok := n.(ast.Expr); ok {
			nodes = append(nodes, e)
		}
		return true
	})
	off := func(p token.Pos) int { return fset.Position(p).Offset }
	text := func(n ast.Node) []byte { return src[off(n.Pos()):off(n.End())] }

	// ---- nodeText
	type ntObs struct {
		K     string `json:"k"`
		From  int    `json:"from"`
		To    int    `json:"to"`
		SrcN  int    `json:"srcn"`
		Out   []byte `json:"out"`
		Want  []byte `json:"want"`
		Fb    []byte `json:"fb"`
		AtEOF bool   `json:"at_eof"`
		Panic string `json:"panic,omitempty"`
	}
	for _, nd := range nodes {
		o := ntObs{K: "ntext", From: off(nd.Pos()), To: off(nd.End()), SrcN: len(src)}
		o.Want = text(nd)
		o.AtEOF = o.To == len(src)
		var pb bytes.Buffer
		printer.Fprint(&pb, fset, nd)
		o.Fb = pb.Bytes()
		func() {
			defer func() {
				if r := recover(); r != nil {
					o.Panic = fmt.Sprint(r)
				}
			}()
			o.Out = ruleguard.VerifNodeText(fset, src, nd)
		}()
		enc.Encode(o)
	}
	// the same nodes against a truncated copy of the file: offsets beyond the bytes must fall back, never panic
	short := src[:len(src)/2]
	for i, nd := range nodes {
		if i%7 != 0 {
			continue
		}
		o := ntObs{K: "ntext-short", From: off(nd.Pos()), To: off(nd.End()), SrcN: len(short)}
		var pb bytes.Buffer
		printer.Fprint(&pb, fset, nd)
		o.Fb = pb.Bytes()
		if o.To <= len(short) {
			o.Want = short[o.From:o.To]
		} else {
			o.Want = o.Fb // outside the bytes at hand the printer's rendering is all there is
		}
		func() {
			defer func() {
				if r := recover(); r != nil {
					o.Panic = fmt.Sprint(r)
				}
			}()
			o.Out = ruleguard.VerifNodeText(fset, short, nd)
		}()
		enc.Encode(o)
	}

	// ---- renderMessage
	var calls []*ast.CallExpr
	ast.Inspect(file, func(n ast.Node) bool {
		if c, ok := n.(*ast.CallExpr); ok {
			if id, ok := c.Fun.(*ast.Ident); ok && id.Name == "q" {
				calls = append(calls, c)
			}
		}
		return true
	})
	for i := 0; i < n; i++ {
		names := append([]string{}, nameChains[rng.Intn(len(nameChains))]...)
		rng.Shuffle(len(names), func(a, b int) { names[a], names[b] = names[b], names[a] })
		switch {
		case i < 3:
			names = append([]string{}, dupChain...) // fixed: the same name twice among 14 captures
		case i%5 == 4:
			// some names twice (or three times), anywhere in the list; every other time padded beyond 12 captures
			for k := 1 + rng.Intn(3); k > 0; k-- {
				at := rng.Intn(len(names) + 1)
				names = append(names[:at], append([]string{names[rng.Intn(len(names))]}, names[at:]...)...)
			}
			if i%10 == 9 {
				for len(names) < 13+rng.Intn(8) {
					at := rng.Intn(len(names) + 1)
					names = append(names[:at], append([]string{fillerNames[rng.Intn(len(fillerNames))]}, names[at:]...)...)
				}
			}
		}
		var caps []gogrep.CapturedNode
		var specs []capSpec
		for ni, nm := range names {
			if i < 3 {
				// fixed: every capture holds a node, the two captures of one name hold different texts
				nd := calls[(ni+i)%len(calls)].Args[0]
				caps = append(caps, gogrep.CapturedNode{Name: nm, Node: nd})
				specs = append(specs, capSpec{Name: nm, Text: text(nd), Fix: isFixable(nd)})
				continue
			}
			switch rng.Intn(24) {
			case 0, 1:
				caps = append(caps, gogrep.CapturedNode{Name: nm, Node: (*ast.FieldList)(nil)})
				specs = append(specs, capSpec{Name: nm, Nil: true, Kind: 1})
				continue
			case 2:
				caps = append(caps, gogrep.CapturedNode{Name: nm, Node: nil}) // bound to no node at all
				specs = append(specs, capSpec{Name: nm, Nil: true, Kind: 2})
				continue
			case 3:
				caps = append(caps, gogrep.CapturedNode{Name: nm, Node: &gogrep.NodeSlice{}}) // `$*xs` that matched nothing
				specs = append(specs, capSpec{Name: nm, Kind: 3})
				continue
			}
			nd := nodes[rng.Intn(len(nodes))]
			if rng.Intn(3) == 0 {
				nd = calls[rng.Intn(len(calls))].Args[0]
			}
			caps = append(caps, gogrep.CapturedNode{Name: nm, Node: nd})
			specs = append(specs, capSpec{Name: nm, Text: text(nd), Fix: isFixable(nd)})
		}
		var whole ast.Node = calls[rng.Intn(len(calls))]
		if rng.Intn(4) == 0 {
			whole = calls[rng.Intn(len(calls))].Args[0]
		}
		tmpl := randTemplate(rng, names)
		if i < 3 {
			tmpl = []string{"$dd", "dd=$dd|$dd.b|$ddz", "$eee$dd$$ $rr"}[i]
		}
		o := renderObs{K: "render", Msg: tmpl, Caps: specs, Whole: capSpec{Text: text(whole), Fix: isFixable(whole)},
			Trunc: rng.Intn(2) == 0, L: []int{0, 0, 10, 20, 61, 1000, 5, 3}[rng.Intn(8)]}
		o.Want = []byte(interpSpec(o.Msg, specs, o.Whole.Text, o.Trunc, o.L))
		func() {
			defer func() {
				if r := recover(); r != nil {
					o.Panic = fmt.Sprint(r)
				}
			}()
			tl := o.L
			if tl == 0 {
				tl = 60 // newRulesRunner's default; the hook sets rr.truncateLen directly
			}
			o.Out = []byte(ruleguard.VerifRenderMessage(fset, src, tl, o.Msg, whole, caps, o.Trunc))
		}()
		enc.Encode(o)
	}
}

// ---------------------------------------------------------------- engine level

type argSite struct {
	from, to int
	e        poolExpr
}

type site struct {
	group, alt int
	from, to   int
	args       []argSite
	fn         string // name of the enclosing function declaration, "" at top level
}

type groupSpec struct {
	fn       string   // prefix of the matched functions' names: p<group> for generated groups, pb<k> for the bundle's
	bundle   bool     // the rule comes from the imported bundle (harness/fake/c03bundle), not from a generated rules file
	wgroup   string   // the group name RuleInfo must carry
	names    []string // capture names in pattern order
	variadic bool     // last capture is $*name
	alts     int
	msg      string
	at       string // "" or a capture name
	suggest  string // "" = none
	altLines []int
	noReport bool // Suggest() without Report(): the message is "suggestion: " + the Suggest template
	// a family of syntax rules that all match the SAME calls and bind the same names to different arguments; the earlier ones
	// reject through Where(): the rule that reports interpolates / relocates to ITS OWN bindings
	where  string                   // Where() expression as written
	accept func(args []string) bool // the filter on the argument texts (positional)
	dup      bool // the first alternative is written twice: the lines of the later alternatives must not shift
}

type engineObs struct {
	K        string    `json:"k"`
	Group    int       `json:"group"`
	Alt      int       `json:"alt"`
	L        int       `json:"L"`
	Msg      string    `json:"msg_tpl"`
	Sugg     string    `json:"sugg_tpl"`
	At       string    `json:"at"`
	Caps     []capSpec `json:"caps"`
	Whole    capSpec   `json:"whole"`
	AtEOF    bool      `json:"at_eof"`
	SrcN     int       `json:"srcn"`
	AltLines []int     `json:"alt_lines"`
	Version  string    `json:"version"` // which version of the target file (same path) this run analysed
	Missing  bool      `json:"missing"` // the site produced no report
	Extra    int       `json:"extra"`   // further reports at the same site
	// observed
	OMsg      []byte   `json:"o_msg"`
	OPos      int      `json:"o_pos"`
	OEnd      int      `json:"o_end"`
	OHasSugg  bool     `json:"o_has_sugg"`
	OSuggFrom int      `json:"o_sugg_from"`
	OSuggTo   int      `json:"o_sugg_to"`
	OSugg     []byte   `json:"o_sugg"`
	OLine     int      `json:"o_line"`
	OGroup    string   `json:"o_group"`
	OFunc     string   `json:"o_func"` // ReportData.Func: name of the function declaration, "" = nil
	OFile     string   `json:"o_file"` // file the reported node lies in
	WFunc     string   `json:"w_func"`
	WFuncs    []string `json:"w_funcs,omitempty"` // comment rules: the values ReportData.Func may have
	WFile     string   `json:"w_file"`
	WGroup    string   `json:"w_group"` // the group name RuleInfo must carry
	// expected (specification)
	WMsg     []byte `json:"w_msg"`
	WPos     int    `json:"w_pos"`
	WEnd     int    `json:"w_end"`
	WHasSugg bool   `json:"w_has_sugg"`
	WSugg    []byte `json:"w_sugg"`
	WLine    int    `json:"w_line"`
	// quick-fix application
	OwnText   bool   `json:"own_text"`   // the Suggest template is the pattern's own text
	AstSame   bool   `json:"ast_same"`   // after applying the suggestion the file prints identically (comments aside)
	BytesSame bool   `json:"bytes_same"` // the file bytes are unchanged
	ApplyErr  string `json:"apply_err,omitempty"`
	Panic     string `json:"panic,omitempty"`
	// the family of comment rules that name their groups alike (cfam.go)
	Rule       string   `json:"rule,omitempty"`       // the rule (alternative) that must report
	Comment    string   `json:"comment,omitempty"`    // the comment's text
	Rejected   []string `json:"rejected,omitempty"`   // rules that matched this comment earlier and rejected it
	Stale      bool     `json:"stale,omitempty"`      // one of them captured another text under a name of the reporting rule
	Unexpected bool     `json:"unexpected,omitempty"` // a report where no rule of the family accepts
}

// printNoComments dumps the file's AST without positions, comments and resolution data: equal dumps = equal ASTs
func printNoComments(src []byte) (string, error) {
	fset := token.NewFileSet()
	f, err := parser.ParseFile(fset, "x.go", src, parser.SkipObjectResolution)
	if err != nil {
		return "", err
	}
	var b bytes.Buffer
	posType := reflect.TypeOf(token.NoPos)
	filter := func(name string, v reflect.Value) bool {
		if v.Type() == posType {
			return false
		}
		switch name {
		case "Obj", "Scope", "Unresolved", "Comments", "Doc", "Comment", "FileStart", "FileEnd":
			return false
		}
		return true
	}
	if err := ast.Fprint(&b, nil, f, filter); err != nil {
		return "", err
	}
	return b.String(), nil
}

func engineLevel(enc *json.Encoder, tmp string, rng *rand.Rand, ngroups int) {
	// ---- groups
	var groups []groupSpec
	for gi := 0; gi < ngroups; gi++ {
		g := groupSpec{alts: 1 + rng.Intn(2)}
		g.names = append([]string{}, nameChains[gi%len(nameChains)]...)
		if gi >= len(nameChains) {
			rng.Shuffle(len(g.names), func(a, b int) { g.names[a], g.names[b] = g.names[b], g.names[a] })
		}
		g.variadic = gi%4 == 3
		g.msg = randTemplate(rng, g.names)
		switch gi % 8 {
		case 0:
			g.msg = "$" + strings.Join(g.names, "|$") + "|$$"
		case 1:
			g.msg = "$" + g.names[len(g.names)-1] + ".b and $$"
		}
		if rng.Intn(3) == 0 {
			// At() on any capture -- also on the `$*xs` list (its span is first..last argument; a list that matched nothing has no
			// position, the match itself is reported then)
			g.at = g.names[rng.Intn(len(g.names))]
		}
		if gi%8 == 3 && gi%16 == 3 {
			g.at = g.names[len(g.names)-1] // fixed: At() on the variadic capture (every 16th group)
		}
		if gi%8 == 4 && g.at == "" {
			g.at = "$$" // At(m["$$"]): the match itself
		}
		switch rng.Intn(5) {
		case 0:
			g.suggest = "$$"
		case 1:
			g.suggest = "$" + g.names[rng.Intn(len(g.names))]
		case 2:
			g.suggest = randTemplate(rng, g.names)
		case 3:
			g.suggest = "OWN" // replaced by the pattern's own text below
		}
		if gi%8 == 0 {
			g.suggest = "$$"
		}
		if gi%8 == 2 {
			g.suggest, g.at = "OWN", ""
		}
		if gi%8 == 5 {
			g.noReport = true
			if g.suggest == "" {
				g.suggest = "$" + strings.Join(g.names, "+$")
			}
		}
		if gi%8 == 6 {
			g.alts, g.dup = 2, true
		}
		if gi%8 == 7 {
			g.alts = 2 // written on ONE line: both alternatives carry the same line
		}
		g.fn, g.wgroup = fmt.Sprintf("p%d", gi), fmt.Sprintf("g%d", gi)
		groups = append(groups, g)
	}
	// the rules of the bundle package (static file; its text is the source of the expected rule lines)
	bundleSrc, err := os.ReadFile("fake/c03bundle/c03b_rules.go")
	if err != nil {
		fmt.Fprintln(os.Stderr, "bundle:", err)
		os.Exit(3)
	}
	lineOf := func(needle string) int {
		i := strings.Index(string(bundleSrc), needle)
		if i < 0 {
			fmt.Fprintln(os.Stderr, "bundle: pattern not found:", needle)
			os.Exit(3)
		}
		return 1 + strings.Count(string(bundleSrc[:i]), "\n")
	}
	nGenerated := len(groups)
	groups = append(groups,
		groupSpec{fn: "pb0", bundle: true, wgroup: "bnd/bat", names: []string{"x", "xy"}, alts: 2, msg: "bundle at $xy of $$ ($x)", at: "xy", suggest: "$x",
			altLines: []int{lineOf("`pb0_0("), lineOf("`pb0_1(")}},
		groupSpec{fn: "pb1", bundle: true, wgroup: "bnd/bplain", names: []string{"v"}, alts: 1, msg: "bundle plain $v", suggest: "$$", altLines: []int{lineOf("`pb1_0(")}},
		groupSpec{fn: "pb2", bundle: true, wgroup: "bnd/batonly", names: []string{"v", "vv"}, alts: 1, msg: "bundle at-only $vv", at: "v", altLines: []int{lineOf("`pb2_0(")}})
	sfBase := len(groups)
	amp := regexp.MustCompile(`^&`)
	quo := regexp.MustCompile(`^"`)
	groups = append(groups,
		groupSpec{fn: "sf", wgroup: "sfA", names: []string{"x", "y"}, alts: 1, msg: "A:$x,$y", where: `m["x"].Text == "x"`,
			accept: func(a []string) bool { return a[0] == "x" }},
		groupSpec{fn: "sf", wgroup: "sfB", names: []string{"y", "x"}, alts: 1, msg: "B:$x,$y|$$", at: "x", suggest: "$y", where: "m[\"x\"].Text.Matches(`^&`) && m[\"y\"].Text != \"x\"",
			accept: func(a []string) bool { return amp.MatchString(a[1]) && a[0] != "x" }},
		groupSpec{fn: "sf", wgroup: "sfC", names: []string{"xy", "x"}, alts: 1, msg: "C:$x|$xy", suggest: "sf_0($x, $xy)", where: "!m[\"xy\"].Text.Matches(`^\"`)",
			accept: func(a []string) bool { return !quo.MatchString(a[0]) }},
		groupSpec{fn: "sf", wgroup: "sfD", names: []string{"x", "xy"}, alts: 1, msg: "D:$xy then $x", at: "xy",
			accept: func(a []string) bool { return true }})
	sfWinner := func(args []string) int {
		for k := sfBase; k < len(groups); k++ {
			if groups[k].accept(args) {
				return k
			}
		}
		return -1
	}
	patText := func(gi, alt int) string {
		g := groups[gi]
		var ps []string
		for k, n := range g.names {
			if g.variadic && k == len(g.names)-1 {
				ps = append(ps, "$*"+n)
			} else {
				ps = append(ps, "$"+n)
			}
		}
		return fmt.Sprintf("%s_%d(%s)", g.fn, alt, strings.Join(ps, ", "))
	}
	// ---- rules file (line numbers tracked by construction)
	// the rules are spread over three rules files loaded one after the other: the rule sets are merged (and the syntax
	// rules cloned) on the second and third Load
	var rbs [3]strings.Builder
	rfile := 0
	line := 1
	w := func(s string) {
		rbs[rfile].WriteString(s)
		line += strings.Count(s, "\n")
	}
	cut1 := 1 + rng.Intn(nGenerated/2)
	cut2 := cut1 + 1 + rng.Intn(nGenerated-cut1-1)
	w("package gorules\n\nimport \"github.com/quasilyte/go-ruleguard/dsl\"\n\n")
	for gi := range groups[:nGenerated] {
		if gi == cut1 {
			// the second file also imports the rule bundle (its rules are loaded in front of this file's own)
			rfile++
			line = 1
			w("package gorules\n\nimport (\n\t\"github.com/quasilyte/go-ruleguard/dsl\"\n\tc03b \"example.com/c03b\"\n)\n\nfunc init() {\n\tdsl.ImportRules(\"bnd\", c03b.Bundle)\n}\n\n")
		}
		if gi == cut2 {
			rfile++
			line = 1
			w("package gorules\n\nimport \"github.com/quasilyte/go-ruleguard/dsl\"\n\n")
		}
		g := &groups[gi]
		w(fmt.Sprintf("func g%d(m dsl.Matcher) {\n", gi))
		w("\tm.Match(\n")
		for alt := 0; alt < g.alts; alt++ {
			g.altLines = append(g.altLines, line)
			if alt == 0 && gi%8 == 7 {
				w("\t\t`" + patText(gi, alt) + "`, ")
				continue
			}
			w("\t\t`" + patText(gi, alt) + "`,\n")
			if alt == 0 && g.dup {
				w("\t\t`" + patText(gi, alt) + "`,\n") // the same alternative once more: it never matches first, its line is nobody's
			}
			if alt == 0 && gi%2 == 0 {
				w("\n") // alternatives need not be on consecutive lines
			}
		}
		w("\t)")
		if g.at != "" {
			w(fmt.Sprintf(".\n\t\tAt(m[%q])", g.at))
		}
		sg := g.suggest
		if sg == "OWN" {
			sg = strings.ReplaceAll(patText(gi, 0), "$*", "$")
		}
		if g.noReport {
			g.msg = "suggestion: " + sg // what a call without Report() reports
		} else {
			w(".\n\t\tReport(`" + g.msg + "`)")
		}
		if g.suggest != "" {
			w(".\n\t\tSuggest(`" + sg + "`)")
		}
		w("\n}\n\n")
	}
	// the family of syntax rules that compete for the calls of sf_0 (in rule order: sfA, sfB, sfC, sfD)
	for k := sfBase; k < len(groups); k++ {
		g := &groups[k]
		w(fmt.Sprintf("func %s(m dsl.Matcher) {\n\tm.Match(\n", g.wgroup))
		g.altLines = []int{line}
		w("\t\t`" + patText(k, 0) + "`,\n\t)")
		if g.where != "" {
			w(".\n\t\tWhere(" + g.where + ")")
		}
		if g.at != "" {
			w(fmt.Sprintf(".\n\t\tAt(m[%q])", g.at))
		}
		w(".\n\t\tReport(`" + g.msg + "`)")
		if g.suggest != "" {
			w(".\n\t\tSuggest(`" + g.suggest + "`)")
		}
		w("\n}\n\n")
	}
	// comment rules with two alternatives on different lines
	cLines := [2]int{}
	w("func gc(m dsl.Matcher) {\n\tm.MatchComment(\n")
	cLines[0] = line
	w("\t\t`alpha-\\d+`,\n\n")
	w("\t\t`alpha-\\d+`,\n") // written twice: the line of `beta` must stay its own
	cLines[1] = line
	w("\t\t`beta-\\d+`,\n\t).Report(`c:$$`)\n}\n")
	// a comment rule with Suggest() only: the message is the suggestion template behind "suggestion: ", truncated there and
	// nowhere else
	gsLine := line + 2
	w("\nfunc gs(m dsl.Matcher) {\n\tm.MatchComment(`gamma-(?P<long>\\w+)`).Suggest(`<$long|$$>`)\n}\n")
	// a family of comment rules that name their groups alike; most comments are matched by several of them and rejected by
	// the earlier ones (cfam.go). The comment rules above come first in the load order: they are a part of the simulated list.
	commentRules := []cfRule{
		{group: "gc", pats: []string{`alpha-\d+`, `alpha-\d+`, `beta-\d+`}, msg: "c:$$", lines: []int{cLines[0], cLines[0] + 2, cLines[1]}},
		{group: "gs", pats: []string{`gamma-(?P<long>\w+)`}, sugg: "<$long|$$>", lines: []int{gsLine}},
	}
	for i := range commentRules {
		commentRules[i].compile()
	}
	for _, r := range cfCatalogue() {
		w(fmt.Sprintf("\nfunc %s(m dsl.Matcher) {\n\tm.MatchComment(\n", r.group))
		for _, p := range r.pats {
			r.lines = append(r.lines, line)
			w("\t\t`" + p + "`,\n")
		}
		w("\t)")
		if len(r.filt) > 0 {
			w(".\n\t\tWhere(" + r.whereDSL() + ")")
		}
		if r.at != "" {
			w(fmt.Sprintf(".\n\t\tAt(m[%q])", r.at))
		}
		if r.msg != "" {
			w(".\n\t\tReport(`" + r.msg + "`)")
		}
		if r.sugg != "" {
			w(".\n\t\tSuggest(`" + r.sugg + "`)")
		}
		w("\n}\n")
		commentRules = append(commentRules, r)
	}

	// ---- target file
	var tb strings.Builder
	tb.WriteString(targetPrelude)
	declared := map[string]bool{}
	for _, g := range groups {
		for alt := 0; alt < g.alts; alt++ {
			if name := fmt.Sprintf("%s_%d", g.fn, alt); !declared[name] {
				declared[name] = true
				fmt.Fprintf(&tb, "func %s(args ...interface{}) int { return 0 }\n", name)
			}
		}
	}
	tb.WriteString("\n// alpha-1 here\n/* x beta-22 y */\n// see gamma-0123456789012345678901234567890123456789 there\n\n")
	for _, cm := range cfComments(rng) {
		tb.WriteString(cm + "\n\n")
	}
	var sites []site
	curFn := ""
	emptyListSeen := map[int]bool{}
	emitSite := func(gi, alt int, prefix string) {
		g := groups[gi]
		tb.WriteString(prefix)
		s := site{group: gi, alt: alt, from: tb.Len(), fn: curFn}
		fmt.Fprintf(&tb, "%s_%d(", g.fn, alt)
		nargs := len(g.names)
		if g.variadic {
			nargs = len(g.names) - 1 + rng.Intn(4)
			if g.at == g.names[len(g.names)-1] && !emptyListSeen[gi] {
				// At() on the list capture: the first site of the group gives it nothing to match
				emptyListSeen[gi] = true
				nargs = len(g.names) - 1
			}
		}
		var chosen []poolExpr
		if g.accept != nil {
			// arguments on which the rules in front of this one reject and this one accepts
			for try := 0; ; try++ {
				chosen = []poolExpr{pool[rng.Intn(len(pool))], pool[rng.Intn(len(pool))]}
				if sfWinner([]string{chosen[0].text, chosen[1].text}) == gi {
					break
				}
				if try > 5000 {
					fmt.Fprintln(os.Stderr, "sfam: no arguments reach", g.wgroup)
					os.Exit(3)
				}
			}
		}
		for k := 0; k < nargs; k++ {
			if k > 0 {
				tb.WriteString([]string{", ", ",  ", ",\n\t\t"}[rng.Intn(3)])
			}
			e := pool[rng.Intn(len(pool))]
			if chosen != nil {
				e = chosen[k]
			}
			a := argSite{from: tb.Len(), e: e}
			tb.WriteString(e.text)
			a.to = tb.Len()
			s.args = append(s.args, a)
		}
		tb.WriteString(")")
		s.to = tb.Len()
		sites = append(sites, s)
	}
	// the sites are spread over several function declarations, with a top-level site between two functions: the function a
	// report names must be the one around ITS node, not the one of an earlier report
	nfn, count := 0, 0
	for gi, g := range groups {
		for alt := 0; alt < g.alts; alt++ {
			reps := 2
			if g.accept != nil {
				reps = 4
			}
			for k := 0; k < reps; k++ {
				if count%7 == 6 {
					if curFn != "" {
						tb.WriteString("}\n\n")
						curFn = ""
					}
					emitSite(gi, alt, "var _ = ")
					tb.WriteString("\n\n")
				} else {
					if curFn == "" {
						curFn = fmt.Sprintf("fn%d", nfn)
						nfn++
						fmt.Fprintf(&tb, "func %s() {\n", curFn)
					}
					emitSite(gi, alt, "\t_ = ")
					tb.WriteString("\n")
				}
				count++
			}
		}
	}
	if curFn != "" {
		tb.WriteString("}\n\n")
		curFn = ""
	}
	// the last site ends exactly at EOF (no trailing newline); its last argument too, up to the closing parenthesis
	last := 0
	for gi, g := range groups[:nGenerated] {
		if !g.variadic && g.at == "" {
			last = gi
		}
	}
	emitSite(last, 0, "var _ = ")
	src := []byte(tb.String())

	// one FileSet for all files; the target is not its first file (its base is > 1)
	fset := token.NewFileSet()
	checkInSet := func(fset *token.FileSet, name string, text []byte) *hutil.Target {
		path := filepath.Join(tmp, name)
		if err := os.MkdirAll(filepath.Dir(path), 0o755); err != nil {
			fmt.Fprintln(os.Stderr, "target:", err)
			os.Exit(3)
		}
		if err := os.WriteFile(path, text, 0o644); err != nil {
			fmt.Fprintln(os.Stderr, "target:", err)
			os.Exit(3)
		}
		f, err := parser.ParseFile(fset, path, text, parser.ParseComments)
		if err != nil {
			fmt.Fprintln(os.Stderr, "target:", name, err)
			fmt.Fprintln(os.Stderr, string(text))
			os.Exit(3)
		}
		info := hutil.NewInfo()
		conf := types.Config{Importer: importer.ForCompiler(fset, "source", nil), Error: func(error) {}}
		pkg, err := conf.Check(f.Name.Name, fset, []*ast.File{f}, info)
		if err != nil {
			fmt.Fprintln(os.Stderr, "typecheck:", name, err)
			os.Exit(3)
		}
		return &hutil.Target{Fset: fset, File: f, Info: info, Pkg: pkg, Src: text, Path: path}
	}
	checkIn := func(name string, text []byte) *hutil.Target { return checkInSet(fset, name, text) }
	// a different file with the same functions is run through the same engine and the same runner state before every run
	// of the target: texts must come from the file at hand, never from bytes or offsets remembered from another file
	other := []byte(strings.Replace(targetPrelude, "package target", "package target // zzzzzzzzzzzzzzzzzzzzzzzzzzzzzzzzzzzzzzzzzzzz", 1) +
		string(src[len(targetPrelude):]))
	other = []byte(strings.ReplaceAll(string(other), "1 +  2", "3 +   4"))
	t2 := checkIn("c03other/target.go", other)
	// versions of the target AT THE SAME PATH, analysed one after the other through the same runner state: the original, one
	// of the same length whose texts differ (every `arr` after the prelude is `brr`), one whose offsets are all shifted (a
	// comment line in front), and the original again -- texts must come from the bytes the file has when it is analysed
	type version struct {
		t     *hutil.Target
		src   []byte
		shift int
		nl    []int // CRLF version: nl[o] = newlines in front of offset o of the original (each became two bytes)
		print string
		what  string
		// only analysed under TruncateLen 0; a run on ANOTHER path goes through the state just before this one
		onlyL0, afterOther bool
	}
	mkVersion := func(text []byte, shift int, what string) version {
		pr, _ := printNoComments(text)
		return version{t: checkIn("c03/target.go", text), src: text, shift: shift, print: pr, what: what}
	}
	swapped := []byte(targetPrelude + strings.ReplaceAll(string(src[len(targetPrelude):]), "arr", "brr"))
	header := "// a later version of the same file: everything sits further down now\n"
	// a rewritten file of the SAME BYTE LENGTH is analysed DIRECTLY AFTER the version it replaces (nothing but the bytes tells
	// them apart: path, size, modification time and all offsets coincide) and, later, with a run on another path in between
	swappedShifted := append([]byte(header), swapped...)
	versions := []version{mkVersion(swapped, 0, "2nd version of the file at the same path, analysed directly after the original: same length, every arr is brr"),
		mkVersion(append([]byte(header), src...), len(header), "3rd version of the file at the same path: a comment line in front, all offsets shifted"),
		mkVersion(swappedShifted, len(header), "4th version of the file at the same path, analysed directly after the 3rd: same length as the 3rd, every arr is brr"),
		mkVersion(src, 0, "5th version of the file at the same path: the original bytes again"),
		mkVersion(swapped, 0, "6th version of the file at the same path, a run on another file in between: same length as the 5th, every arr is brr")}
	versions[2].onlyL0 = true
	versions[4].onlyL0, versions[4].afterOther = true, true
	// generated code: a //line directive in front of the package clause attributes every position to another file (the grammar,
	// the template), and that file EXISTS next to the target -- the texts are those of the file that is analysed
	lineHeader := "//line grammar.y:1\n"
	versions = append(versions, mkVersion(append([]byte(lineHeader), src...), len(lineHeader),
		"8th version of the file at the same path: `//line grammar.y:1` in front of the package clause, grammar.y exists next to the file"))
	versions[len(versions)-1].onlyL0 = true
	if err := os.WriteFile(filepath.Join(filepath.Dir(versions[0].t.Path), "grammar.y"), []byte(strings.Repeat("%% the grammar, not the file that is analysed\n", len(src)/40+2)), 0o644); err != nil {
		fmt.Fprintln(os.Stderr, "target:", err)
		os.Exit(3)
	}
	// a file that begins with a UTF-8 byte order mark (legal Go; some editors write it): the scanner skips the mark, all token
	// offsets count its three bytes -- and so must the bytes the texts are cut from
	bom := "\xef\xbb\xbf"
	versions = append(versions, mkVersion(append([]byte(bom), swapped...), len(bom),
		"9th version of the file at the same path: a UTF-8 byte order mark in front of the package clause, every arr is brr"))
	versions[len(versions)-1].onlyL0 = true
	// a checkout with CRLF line endings: every offset lies further down by the number of lines in front of it, nodes of several
	// lines contain the carriage returns -- the texts are the bytes of the file, whatever the parser normalises for itself
	{
		nl := make([]int, len(src)+1)
		for i, b := range src {
			nl[i+1] = nl[i]
			if b == '\n' {
				nl[i+1]++
			}
		}
		v := mkVersion(bytes.ReplaceAll(src, []byte("\n"), []byte("\r\n")), 0, "10th version of the file at the same path: CRLF line endings")
		v.nl, v.onlyL0 = nl, true
		versions = append(versions, v)
	}
	// ... and the same path once more, parsed into a FileSet of its own (the rules stay loaded with the first one)
	own := token.NewFileSet()
	own.AddFile("pad.go", -1, 777)
	ownPrint, _ := printNoComments(swappedShifted)
	versions = append(versions, version{t: checkInSet(own, "c03/target.go", swappedShifted), src: swappedShifted, shift: len(header), print: ownPrint,
		what: "7th version of the file at the same path, parsed into another FileSet: shifted and every arr is brr"})
	first := mkVersion(src, 0, "original file")
	versions = append([]version{first}, versions...)
	t := first.t
	// a third file whose LAST syntax-rule report sits inside a function and is followed by comment-rule reports
	var tailArgs []string
	for k := range groups[0].names {
		tailArgs = append(tailArgs, fmt.Sprint(k+1))
	}
	tailSrc := "package target\n\nfunc p0_0(args ...interface{}) int { return 0 }\n\n// alpha-5 top\n\nfunc k() int {\n\treturn p0_0(" +
		strings.Join(tailArgs, ", ") + ") // beta-6 inside k\n}\n"
	t3 := checkIn("c03tail/target.go", []byte(tailSrc))
	e, err := hutil.LoadEngine(fset, map[string]string{"rules0.go": rbs[0].String(), "rules1.go": rbs[1].String(), "rules2.go": rbs[2].String()},
		[]string{"rules0.go", "rules1.go", "rules2.go"})
	if err != nil {
		fmt.Fprintln(os.Stderr, "load:", err)
		fmt.Fprintln(os.Stderr, rbs[0].String(), rbs[1].String(), rbs[2].String())
		os.Exit(3)
	}
	type frep struct {
		hutil.Report
		fn   string // ReportData.Func
		file string
	}
	state := ruleguard.NewRunnerState(e)
	runFile := func(t *hutil.Target, L int) (reports []frep, panicMsg string) {
		defer func() {
			if r := recover(); r != nil {
				panicMsg = fmt.Sprint(r)
			}
		}()
		ctx := &ruleguard.RunContext{
			Pkg: t.Pkg, Types: t.Info, Sizes: types.SizesFor("gc", "amd64"), Fset: t.Fset, TruncateLen: L, State: state,
			Report: func(data *ruleguard.ReportData) {
				r := frep{Report: hutil.Report{Message: data.Message, Line: data.RuleInfo.Line}}
				if data.RuleInfo.Group != nil {
					r.Group = data.RuleInfo.Group.Name
				}
				if data.Node == nil {
					r.NilNode = true
				} else {
					p := t.Fset.PositionFor(data.Node.Pos(), false)
					r.file = p.Filename
					r.Pos = p.Offset
					r.End = t.Fset.PositionFor(data.Node.End(), false).Offset
				}
				if data.Suggestion != nil {
					r.HasSugg = true
					r.SuggFrom = t.Fset.PositionFor(data.Suggestion.From, false).Offset
					r.SuggTo = t.Fset.PositionFor(data.Suggestion.To, false).Offset
					r.Sugg = string(data.Suggestion.Replacement)
				}
				if data.Func != nil {
					r.fn = data.Func.Name.Name
				}
				reports = append(reports, r)
			},
		}
		if err := e.Run(ctx, t.File); err != nil {
			return reports, "run error: " + err.Error()
		}
		return reports, ""
	}
	// where the byte at offset o of the original file lies in a version
	vat := func(v version, o int) int {
		if v.nl != nil {
			return o + v.shift + v.nl[o]
		}
		return o + v.shift
	}
	// a run that did not finish: the rules run in file order, so the first site without a report is where it stopped
	panicObs := func(v version, L int, reports []frep, msg string) engineObs {
		o := engineObs{K: "engine", L: L, Panic: msg, Version: v.what}
		for _, s := range sites {
			from, to := vat(v, s.from), vat(v, s.to)
			seen := false
			for _, r := range reports {
				if r.Pos >= from && r.Pos < to {
					seen = true
					break
				}
			}
			if !seen {
				g := groups[s.group]
				o.Group, o.Alt, o.Msg, o.Sugg, o.At, o.WGroup = s.group, s.alt, g.msg, g.suggest, g.at, g.wgroup
				o.Rule = "m.Match(`" + patText(s.group, s.alt) + "`)"
				o.Whole = capSpec{Text: v.src[from:to], From: from, To: to}
				return o
			}
		}
		// every syntax-rule site has its report: the run stopped among the comment rules (they run after the syntax rules, comment
		// by comment) -- the first comment whose expected report is missing
		for _, cg := range v.t.File.Comments {
			for _, cm := range cg.List {
				base := v.t.Fset.PositionFor(cm.Pos(), false).Offset
				if base+len(cm.Text) > len(v.src) || string(v.src[base:base+len(cm.Text)]) != cm.Text {
					continue
				}
				exp := cfSimulate(commentRules, cm.Text, base)
				if exp.rule < 0 {
					continue
				}
				seen := false
				for _, r := range reports {
					if r.Group == commentRules[exp.rule].group && r.Pos >= base && r.Pos <= base+len(cm.Text) {
						seen = true
						break
					}
				}
				if !seen {
					r := commentRules[exp.rule]
					o.Comment, o.Rule, o.Msg, o.Sugg, o.At, o.WGroup = cm.Text, r.describe(exp.alt), r.reportMsg(), r.sugg, r.at, r.group
					return o
				}
			}
		}
		return o
	}
	emit := func(v version, L int, reports []frep) {
		src := v.src
		at := func(o int) int { return vat(v, o) }
		// reports by the start offset of the whole-match site they belong to
		bySite := map[int][]frep{}
		var commentReports, suggOnly, famReports []frep
		for _, r := range reports {
			if strings.HasPrefix(r.Group, "cf") {
				famReports = append(famReports, r)
				continue
			}
			if r.Group == "gc" {
				commentReports = append(commentReports, r)
				continue
			}
			if r.Group == "gs" {
				suggOnly = append(suggOnly, r)
				continue
			}
			// a report belongs to the site whose span contains its node
			idx := sort.Search(len(sites), func(i int) bool { return at(sites[i].to) > r.Pos })
			if idx < len(sites) && at(sites[idx].from) <= r.Pos {
				bySite[idx] = append(bySite[idx], r)
			} else {
				bySite[-1] = append(bySite[-1], r)
			}
		}
		for _, r := range bySite[-1] {
			enc.Encode(engineObs{K: "engine-stray", L: L, OMsg: []byte(r.Message), OPos: r.Pos, OEnd: r.End, OGroup: r.Group})
		}
		for si, s := range sites {
			g := groups[s.group]
			o := engineObs{K: "engine", Group: s.group, Alt: s.alt, L: L, Msg: g.msg, Sugg: g.suggest, At: g.at, SrcN: len(src), AltLines: g.altLines, Version: v.what, WGroup: g.wgroup}
			if g.accept != nil {
				o.Rule = "m.Match(`" + patText(s.group, 0) + "`)"
				if g.where != "" {
					o.Rule += ".Where(" + g.where + ")"
				}
				for k := sfBase; k < s.group; k++ {
					o.Rejected = append(o.Rejected, "m.Match(`"+patText(k, 0)+"`).Where("+groups[k].where+")")
				}
			}
			if o.Sugg == "OWN" {
				o.Sugg = strings.ReplaceAll(patText(s.group, 0), "$*", "$")
				o.OwnText = s.alt == 0
			}
			// captures by construction
			for k, n := range g.names {
				if g.variadic && k == len(g.names)-1 {
					rest := s.args[k:]
					c := capSpec{Name: n}
					if len(rest) > 0 {
						c.Text = src[at(rest[0].from) : at(rest[len(rest)-1].to)]
						c.From, c.To = at(rest[0].from), at(rest[len(rest)-1].to)
					} else {
						c.Text = []byte{}
						c.From, c.To = -1, -1 // matched nothing: no position
					}
					o.Caps = append(o.Caps, c)
					continue
				}
				o.Caps = append(o.Caps, capSpec{Name: n, Text: src[at(s.args[k].from) : at(s.args[k].to)], Fix: s.args[k].e.fix, From: at(s.args[k].from), To: at(s.args[k].to)})
			}
			o.Whole = capSpec{Text: src[at(s.from) : at(s.to)], From: at(s.from), To: at(s.to)}
			o.AtEOF = at(s.to) == len(src)
			o.WPos, o.WEnd = at(s.from), at(s.to)
			if g.at != "" {
				// "$$" names the match itself; a capture that matched nothing has no position: the match is reported
				for _, c := range o.Caps {
					if c.Name == g.at {
						if c.From >= 0 {
							o.WPos, o.WEnd = c.From, c.To
						}
						break
					}
				}
			}
			o.WMsg = []byte(interpSpec(g.msg, o.Caps, o.Whole.Text, true, L))
			o.WLine = g.altLines[s.alt]
			if o.Sugg != "" {
				o.WSugg = []byte(interpSpec(o.Sugg, o.Caps, o.Whole.Text, false, L))
				o.WHasSugg = len(o.WSugg) != 0 // an empty replacement text yields no suggestion
			}
			rs := bySite[si]
			if len(rs) == 0 {
				o.Missing = true
				enc.Encode(o)
				continue
			}
			r := rs[0]
			o.Extra = len(rs) - 1
			o.OMsg, o.OPos, o.OEnd, o.OLine, o.OGroup = []byte(r.Message), r.Pos, r.End, r.Line, r.Group
			o.OFunc, o.WFunc, o.OFile, o.WFile = r.fn, s.fn, r.file, v.t.Path
			o.OHasSugg, o.OSuggFrom, o.OSuggTo, o.OSugg = r.HasSugg, r.SuggFrom, r.SuggTo, []byte(r.Sugg)
			if r.HasSugg && r.SuggFrom >= 0 && r.SuggFrom <= r.SuggTo && r.SuggTo <= len(src) {
				edited := append(append(append([]byte{}, src[:r.SuggFrom]...), r.Sugg...), src[r.SuggTo:]...)
				o.BytesSame = bytes.Equal(edited, src)
				if !o.OwnText {
					// the AST comparison is only asked for suggestions of the pattern's own text (re-parsing the file is the
					// expensive part of a run)
				} else if p, err := printNoComments(edited); err != nil {
					o.ApplyErr = err.Error()
				} else {
					o.AstSame = p == v.print
				}
			}
			enc.Encode(o)
		}
		// comment alternatives: line of the alternative that matched
		for _, r := range commentReports {
			alt := 0
			if strings.HasPrefix(r.Message, "c:beta") {
				alt = 1
			}
			enc.Encode(engineObs{K: "engine-comment", L: L, Alt: alt, OMsg: []byte(r.Message), OLine: r.Line, WLine: cLines[alt], OGroup: r.Group, OPos: r.Pos, OEnd: r.End,
				OFunc: r.fn, WFuncs: []string{""}, OFile: r.file, WFile: v.t.Path})
		}
		if len(commentReports) != 2 {
			enc.Encode(engineObs{K: "engine-comment", L: L, Missing: true, Extra: len(commentReports)})
		}
		// the family of comment rules with alike group names: every comment of the file against the simulated rule list
		used := make([]bool, len(famReports))
		for _, cg := range v.t.File.Comments {
			for _, cm := range cg.List {
				base := v.t.Fset.PositionFor(cm.Pos(), false).Offset
				if base+len(cm.Text) > len(src) || string(src[base:base+len(cm.Text)]) != cm.Text {
					if v.nl == nil {
						fmt.Fprintln(os.Stderr, "cfam: comment text is not the file's bytes:", cm.Text)
						os.Exit(3)
					}
					// a block comment of several lines in the CRLF version: the parser drops the carriage returns from its text,
					// the offsets inside it are no longer those of the file (C12's known finding C12-crlf-comment): not judged here
					end := v.t.Fset.PositionFor(cm.End(), false).Offset + strings.Count(cm.Text, "\n")
					for k, r := range famReports {
						if r.Pos >= base && r.Pos <= end {
							used[k] = true
						}
					}
					continue
				}
				exp := cfSimulate(commentRules, cm.Text, base)
				var here []frep
				for k, r := range famReports {
					if !used[k] && r.Pos >= base && r.Pos <= base+len(cm.Text) {
						used[k] = true
						here = append(here, r)
					}
				}
				isFam := exp.rule >= 0 && strings.HasPrefix(commentRules[exp.rule].group, "cf")
				o := engineObs{K: "engine-cfam", L: L, Version: v.what, Comment: cm.Text, Rejected: exp.rejected, SrcN: len(src), WFile: v.t.Path}
				if !isFam {
					if len(here) == 0 {
						o.K = "engine-cfam-none" // no rule of the family accepts and none reported: counted only
						enc.Encode(o)
						continue
					}
					o.Unexpected = true
				} else {
					r := commentRules[exp.rule]
					o.Alt, o.Msg, o.Sugg, o.At, o.AltLines, o.WGroup = exp.alt, r.reportMsg(), r.sugg, r.at, r.lines, r.group
					o.Rule, o.Stale, o.Caps, o.Whole = r.describe(exp.alt), exp.stale, exp.caps, exp.whole
					o.WPos, o.WEnd = exp.whole.From, exp.whole.To
					if r.at != "" {
						for _, c := range exp.caps {
							if c.Name == r.at {
								o.WPos, o.WEnd = c.From, c.To
								break
							}
						}
					}
					o.WMsg = []byte(interpSpec(o.Msg, exp.caps, exp.whole.Text, true, L))
					o.WLine = r.lines[exp.alt]
					if r.sugg != "" {
						o.WSugg = []byte(interpSpec(r.sugg, exp.caps, exp.whole.Text, false, L))
						o.WHasSugg = len(o.WSugg) != 0
					}
					if len(here) == 0 {
						o.Missing = true
						enc.Encode(o)
						continue
					}
				}
				r := here[0]
				o.Extra = len(here) - 1
				o.OMsg, o.OPos, o.OEnd, o.OLine, o.OGroup, o.OFunc, o.OFile = []byte(r.Message), r.Pos, r.End, r.Line, r.Group, r.fn, r.file
				o.OHasSugg, o.OSuggFrom, o.OSuggTo, o.OSugg = r.HasSugg, r.SuggFrom, r.SuggTo, []byte(r.Sugg)
				enc.Encode(o)
			}
		}
		for k, r := range famReports {
			if !used[k] {
				enc.Encode(engineObs{K: "engine-stray", L: L, OMsg: []byte(r.Message), OPos: r.Pos, OEnd: r.End, OGroup: r.Group})
			}
		}
		// the Suggest-only comment rule: spans from the file's bytes, texts by the specification
		if ix := regexp.MustCompile(`gamma-(\w+)`).FindSubmatchIndex(src); ix != nil {
			caps := []capSpec{{Name: "long", Text: src[ix[2]:ix[3]]}}
			o := engineObs{K: "engine-suggonly", L: L, Msg: "suggestion: <$long|$$>", Sugg: "<$long|$$>", Version: v.what, Caps: caps, Whole: capSpec{Text: src[ix[0]:ix[1]]},
				WPos: ix[0], WEnd: ix[1], WHasSugg: true}
			o.WMsg = []byte(interpSpec(o.Msg, caps, o.Whole.Text, true, L))
			o.WSugg = []byte(interpSpec(o.Sugg, caps, o.Whole.Text, false, L))
			if len(suggOnly) != 1 {
				o.Missing, o.Extra = true, len(suggOnly)
			} else {
				r := suggOnly[0]
				o.OMsg, o.OPos, o.OEnd, o.OHasSugg, o.OSuggFrom, o.OSuggTo, o.OSugg = []byte(r.Message), r.Pos, r.End, r.HasSugg, r.SuggFrom, r.SuggTo, []byte(r.Sugg)
			}
			enc.Encode(o)
		}
	}
	for _, L := range []int{0, 20, 1000} {
		runFile(t2, L)
		if err := os.WriteFile(t.Path, first.src, 0o644); err != nil {
			fmt.Fprintln(os.Stderr, "target:", err)
			os.Exit(3)
		}
		reports, pmsg := runFile(t, L)
		if pmsg != "" {
			enc.Encode(panicObs(first, L, reports, pmsg))
			continue
		}
		// the second version (same length, other texts) goes through the state directly after the original; the file keeps
		// its modification time
		var secondReports []frep
		secondMsg := ""
		if L != 1000 {
			st, _ := os.Stat(t.Path)
			if err := os.WriteFile(versions[1].t.Path, versions[1].src, 0o644); err != nil {
				fmt.Fprintln(os.Stderr, "target:", err)
				os.Exit(3)
			}
			if st != nil {
				os.Chtimes(t.Path, st.ModTime(), st.ModTime())
			}
			secondReports, secondMsg = runFile(versions[1].t, L)
		}
		// the tail file: comment rules run after the syntax rules of the file; their reports must not carry the function of
		// the last syntax-rule report (k): nil, or -- for the comment that sits inside k -- k itself
		tailReports, tmsg := runFile(t3, L)
		if tmsg != "" {
			enc.Encode(engineObs{K: "engine", L: L, Panic: tmsg})
		}
		nTailSyntax := 0
		for _, r := range tailReports {
			switch {
			case r.Group != "gc":
				nTailSyntax++
				enc.Encode(engineObs{K: "engine-func", L: L, OMsg: []byte(r.Message), OGroup: r.Group, OFunc: r.fn, WFuncs: []string{"k"}, OFile: r.file, WFile: t3.Path})
			case strings.HasPrefix(r.Message, "c:alpha"):
				enc.Encode(engineObs{K: "engine-func", L: L, OMsg: []byte(r.Message), OGroup: r.Group, OFunc: r.fn, WFuncs: []string{""}, OFile: r.file, WFile: t3.Path})
			default:
				enc.Encode(engineObs{K: "engine-func", L: L, OMsg: []byte(r.Message), OGroup: r.Group, OFunc: r.fn, WFuncs: []string{"", "k"}, OFile: r.file, WFile: t3.Path})
			}
		}
		if nTailSyntax != 1 || len(tailReports) != 3 {
			enc.Encode(engineObs{K: "engine-func", L: L, Missing: true, Extra: len(tailReports)})
		}
		emit(first, L, reports)
		if L == 1000 {
			continue // the later versions are analysed under TruncateLen 0 and 20 only
		}
		if secondMsg != "" {
			enc.Encode(panicObs(versions[1], L, secondReports, secondMsg))
		} else {
			emit(versions[1], L, secondReports)
		}
		for _, v := range versions[2:] {
			if v.onlyL0 && L != 0 {
				continue
			}
			if v.afterOther {
				runFile(t3, L)
			}
			st, _ := os.Stat(v.t.Path)
			if err := os.WriteFile(v.t.Path, v.src, 0o644); err != nil {
				fmt.Fprintln(os.Stderr, "target:", err)
				os.Exit(3)
			}
			if st != nil {
				os.Chtimes(v.t.Path, st.ModTime(), st.ModTime())
			}
			vr, vmsg := runFile(v.t, L)
			if vmsg != "" {
				enc.Encode(panicObs(v, L, vr, vmsg))
				continue
			}
			emit(v, L, vr)
		}
	}
}

func main() {
	seed := flag.Int64("seed", 1, "PRNG seed")
	nrender := flag.Int("render", 600, "direct renderMessage cases")
	ngroups := flag.Int("groups", 40, "rule groups at engine level")
	tmp := flag.String("tmp", "", "scratch directory")
	flag.Parse()
	rng := rand.New(rand.NewSource(*seed))
	enc := json.NewEncoder(os.Stdout)
	enc.SetEscapeHTML(false)
	directLevel(enc, rng, *nrender)
	engineLevel(enc, *tmp, rng, *ngroups)
}
