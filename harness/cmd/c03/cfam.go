package main

// cfam: a family of comment rules whose regexps name their groups ALIKE (`tag`, `t`, `tagx`, `who`: names that prefix one
// another, too), tried one after the other on the same comment. Most comments are matched by several of them, the earlier
// ones reject through their Where(): the rule that reports must interpolate / relocate to / filter on ITS OWN submatches,
// whatever the rules tried before it captured under the same names.
//
// The expectation is computed here from the regexps and the comment's bytes alone (package regexp, no engine code): the
// comment rules are tried in load order, alternative by alternative; the first one whose regexp matches and whose filter
// accepts reports, with the texts of its own groups.

import (
	"fmt"
	"math/rand"
	"regexp"
	"strings"
)

type cfAtom struct {
	name string
	op   string // "==", "!=", "~" (Text.Matches), "!~"
	arg  string
}

type cfRule struct {
	group string
	pats  []string
	filt  []cfAtom // conjunction
	msg   string   // "" = Suggest() without Report()
	at    string
	sugg  string
	lines []int
	res   []*regexp.Regexp
}

func (r *cfRule) compile() {
	r.res = nil
	for _, p := range r.pats {
		r.res = append(r.res, regexp.MustCompile(p))
	}
}

func (r *cfRule) reportMsg() string {
	if r.msg == "" {
		return "suggestion: " + r.sugg
	}
	return r.msg
}

func (a cfAtom) dsl() string {
	v := fmt.Sprintf("m[%q].Text", a.name)
	switch a.op {
	case "==", "!=":
		return fmt.Sprintf("%s %s %q", v, a.op, a.arg)
	case "~":
		return v + ".Matches(`" + a.arg + "`)"
	}
	return "!" + v + ".Matches(`" + a.arg + "`)"
}

func (r *cfRule) whereDSL() string {
	var parts []string
	for _, a := range r.filt {
		parts = append(parts, a.dsl())
	}
	return strings.Join(parts, " && ")
}

func (r *cfRule) describe(alt int) string {
	s := "MatchComment(`" + r.pats[alt] + "`)"
	if len(r.filt) > 0 {
		s += ".Where(" + r.whereDSL() + ")"
	}
	if r.at != "" {
		s += fmt.Sprintf(".At(m[%q])", r.at)
	}
	if r.msg != "" {
		s += ".Report(`" + r.msg + "`)"
	}
	if r.sugg != "" {
		s += ".Suggest(`" + r.sugg + "`)"
	}
	return s
}

// the family, in load order. Every rule but the last can be reached by a comment that an EARLIER rule matched and rejected.
func cfCatalogue() []cfRule {
	rules := []cfRule{
		{group: "cf0", pats: []string{`(?P<tag>[A-Z]+)\(`}, filt: []cfAtom{{"tag", "==", "FIXME"}}, at: "$$", msg: "fixme: $tag in $$"},
		{group: "cf1", pats: []string{`(?P<tag>[A-Z]+)\((?P<who>\w+)\)`}, filt: []cfAtom{{"who", "~", `^b`}, {"tag", "!=", "HACK"}},
			msg: "$who holds $tag ($tagx)", sugg: "$tag[$who]"},
		{group: "cf2", pats: []string{`NOTE\(\w+\)`}, msg: "note: $$"},
		{group: "cf3", pats: []string{`\((?P<tag>\w+)\):`, `\[(?P<tag>\w+)\]`}, filt: []cfAtom{{"tag", "!=", "carol"}}, at: "tag",
			msg: "owned by $tag", sugg: "<$tag>"},
		{group: "cf4", pats: []string{`(?P<t>[A-Z]+)\((?P<tagx>\w+)\)(?P<tag>:)?`}, filt: []cfAtom{{"tag", "!~", `:`}, {"t", "!=", "XXX"}},
			msg: "$t/$tagx/$tag|$$"},
		{group: "cf5", pats: []string{`(?P<who>\w+)\)(?P<t>.*)`, `(?P<t>X+)\((?P<who>)`}, at: "who", sugg: "$who$t$tag"},
		{group: "cf6", pats: []string{`(?P<tagx>[a-z]+)\((?P<tag>[a-z]+)\)`}, filt: []cfAtom{{"tag", "==", "arr"}}, msg: "lower $tagx of $tag"},
		{group: "cf7", pats: []string{`(?P<tag>[a-z]+)\((?P<tagx>[a-z]+)\)`}, msg: "lower $tagx in $tag", at: "tagx", sugg: "$tag"},
		// named groups in the SHORT spelling `(?<name>re)` (Go >= 1.22) -- alone, mixed with the long one in one regexp, one
		// alternative in either spelling, next to an unnamed group: a group is a group however it is written (Report, Suggest,
		// At and Where read it). The same names as above, so a comment that an earlier rule matched and rejected comes with
		// left-overs here, too.
		{group: "cf8", pats: []string{`@(?P<tag>\w+) (?<who>\w+)/(?<t>\w*)`}, filt: []cfAtom{{"t", "!=", ""}}, at: "t", msg: "$tag of $who/$t", sugg: "$t"},
		{group: "cf9", pats: []string{`@\w+ (?<tag>\w+)/?(?<who>\w*)`, `#(?P<who>\d+)(?P<tag>)`, `GH-(?<who>\d+)(?<tag>)`}, filt: []cfAtom{{"tag", "!=", "nobody"}, {"who", "!~", `^0`}},
			at: "tag", sugg: "<$who|$tag|$$>"},
		{group: "cf10", pats: []string{`(\w+)=(?<tagx>\w+)`}, msg: "$tagx set in $$ ($tag)"},
	}
	for i := range rules {
		rules[i].compile()
	}
	return rules
}

var cfTags = []string{"TODO", "FIXME", "NOTE", "HACK", "XXX", "BUG"}
var cfWhos = []string{"alice", "bob", "carol", "barry", "arron", "dave", "b2", "søren"}
var cfTails = []string{"", ": ship it", ": see [erin]", " [frank] later", ":", " and FIXME(bob): too", ": ask HACK(barry)"}

// the comments of the target: a fixed list that reaches every rule behind a rejecting one, and some drawn per seed
func cfComments(rng *rand.Rand) []string {
	cs := []string{
		"// TODO(alice): ship it",
		"// FIXME(bob): broken",
		"// TODO(bob) soon",
		"// HACK(barry): arr is nil here",
		"// NOTE(carol)",
		"// NOTE(bob): both",
		"// TODO(carol): never",
		"// XXX(dave) [erin]",
		"// XXX(dave)",
		"// BUG(arron)",
		"/* TODO(grace): one\n   FIXME(heidi): two */",
		"// see brr(arr) and arr(brr)",
		"// see q(arr)",
		"//TODO(b2):FIXME(",
		"// HACK(alice)",
		"// @owner alice/core",
		"// @owner bob",
		"// @owner nobody",
		"// @reviewer carol/",
		"// [carol] @owner dave/core",
		"// [carol] @cc frank",
		"// fixes #123, not #099",
		"// [carol] see GH-77 and #5",
		"// see #012 or GH-7",
		"// retries=3 @max nobody",
		"/* @a b/\n   @d e/f */",
	}
	for i := 0; i < 4; i++ {
		c := "// " + []string{"", "[carol] ", "[erin] "}[rng.Intn(3)] + "@" + strings.ToLower(cfTags[rng.Intn(len(cfTags))]) + " " + cfWhos[rng.Intn(len(cfWhos))]
		c += []string{"", "/", "/core", "/x y=z"}[rng.Intn(4)]
		cs = append(cs, c)
	}
	for i := 0; i < 6; i++ {
		cs = append(cs, "// "+cfTags[rng.Intn(len(cfTags))]+"("+cfWhos[rng.Intn(len(cfWhos))]+")"+cfTails[rng.Intn(len(cfTails))])
	}
	return cs
}

type cfExpect struct {
	rule, alt int // index into the rule list, -1 = no rule accepts
	caps      []capSpec
	whole     capSpec
	rejected  []string // the rules that matched the comment before and rejected it
	stale     bool     // one of them captured another text under a name the reporting rule uses
}

func cfGroupText(re *regexp.Regexp, ix []int, text, name string) (string, bool) {
	for i, n := range re.SubexpNames() {
		if i > 0 && n == name {
			if ix[2*i] < 0 {
				return "", true
			}
			return text[ix[2*i]:ix[2*i+1]], true
		}
	}
	return "", false
}

// cfSimulate: what the rule list must do with one comment (text at byte offset base of the file)
func cfSimulate(rules []cfRule, text string, base int) cfExpect {
	type left struct {
		name, text string
	}
	var leftovers []left
	exp := cfExpect{rule: -1}
	for ri := range rules {
		r := &rules[ri]
		for alt, re := range r.res {
			ix := re.FindStringSubmatchIndex(text)
			if ix == nil {
				continue
			}
			accept := true
			for _, a := range r.filt {
				t, _ := cfGroupText(re, ix, text, a.name)
				var v bool
				switch a.op {
				case "==":
					v = t == a.arg
				case "!=":
					v = t != a.arg
				case "~":
					v = regexp.MustCompile(a.arg).MatchString(t)
				default:
					v = !regexp.MustCompile(a.arg).MatchString(t)
				}
				accept = accept && v
			}
			var caps []capSpec
			for i, n := range re.SubexpNames() {
				if i == 0 || n == "" {
					continue
				}
				if ix[2*i] < 0 {
					caps = append(caps, capSpec{Name: n, Text: []byte{}, From: base, To: base}) // took no part in the match: empty, at the comment
					continue
				}
				caps = append(caps, capSpec{Name: n, Text: []byte(text[ix[2*i]:ix[2*i+1]]), From: base + ix[2*i], To: base + ix[2*i+1]})
			}
			if !accept {
				exp.rejected = append(exp.rejected, r.describe(alt))
				for _, c := range caps {
					leftovers = append(leftovers, left{c.Name, string(c.Text)})
				}
				continue
			}
			exp.rule, exp.alt, exp.caps = ri, alt, caps
			exp.whole = capSpec{Text: []byte(text[ix[0]:ix[1]]), From: base + ix[0], To: base + ix[1]}
			seen := map[string]bool{}
			for _, c := range caps {
				if seen[c.Name] {
					continue
				}
				seen[c.Name] = true
				for _, l := range leftovers {
					if l.name == c.Name {
						// the first capture of a name wins a lookup: a left-over in front would answer for this one
						exp.stale = exp.stale || l.text != string(c.Text)
						break
					}
				}
			}
			return exp
		}
	}
	return exp
}
