package main

// End-to-end scenarios: the real cmd/ruleguard binary (singlechecker.Main(analyzer.Analyzer)) is run over the target
// packages as a module on disk and what it prints is compared with the diagnostics the in-process analyzer produces
// under the same flags (which the main scenarios compare with the model and the direct engine).

import (
	"bytes"
	"encoding/json"
	"fmt"
	"math/rand"
	"os"
	"os/exec"
	"path/filepath"
	"regexp"
	"sort"
	"strings"

	"github.com/quasilyte/go-ruleguard/analyzer"
)

type E2E struct {
	ID       int      `json:"id"`
	Kind     string   `json:"kind"` // "e2e"
	Flags    Flags    `json:"flags"`
	Args     []string `json:"args"`
	Expected []string `json:"expected"`
	Observed []string `json:"observed"`
	ExitCode int      `json:"exit_code"`
	Stderr   string   `json:"stderr"`
	Err      string   `json:"err,omitempty"`
}

func runE2E(bin, tmp, fakeDir, repoSum string, seed int64, count int, pkgs map[string]*pkgT, pkgNames []string, enc *json.Encoder) {
	targetsDir := filepath.Join(tmp, "targets")
	gomod := "module c19targets\n\ngo 1.22.0\n\nrequire (\n\tgithub.com/quasilyte/go-ruleguard/dsl v0.3.22\n\texample.com/c19b v0.0.0\n)\n\n" +
		"replace example.com/c19b => " + filepath.Join(fakeDir, "c19bundle") + "\n"
	os.WriteFile(filepath.Join(targetsDir, "go.mod"), []byte(gomod), 0o644)
	if data, err := os.ReadFile(repoSum); err == nil {
		os.WriteFile(filepath.Join(targetsDir, "go.sum"), data, 0o644)
	}
	for k := 0; k < count; k++ {
		rng := rand.New(rand.NewSource(seed*104729 + int64(k)))
		res := E2E{ID: k, Kind: "e2e"}
		dir := filepath.Join(tmp, fmt.Sprintf("e2e%d", k))
		os.MkdirAll(dir, 0o755)
		perm := rng.Perm(len(groupPool))
		ng := 4 + rng.Intn(len(groupPool)-4)
		var groups []string
		for _, i := range perm[:ng] {
			groups = append(groups, groupPool[i])
		}
		prefix := "core"
		rulesPath := filepath.Join(dir, "rules.go")
		os.WriteFile(rulesPath, []byte(rulesText(groups, 1, &prefix)), 0o644)
		names := append(append([]string{}, groups...), "core/bg1", "core/bg2")
		// a command line cannot carry NUL bytes
		noNul := func(x string) string { return strings.ReplaceAll(x, "\x00", "") }
		fl := Flags{Rules: rulesPath, Enable: noNul(nameList(rng, names, true)), Disable: noNul(nameList(rng, names, false)),
			Go: pick(rng, []string{"", "1.16", "1.20"})}
		if k%3 == 0 {
			fl.Enable, fl.Disable, fl.Go = "<all>", "", ""
		}
		if k%4 == 1 {
			// the rule comes from the command line (-e): a text of the pool that loads
			for {
				et := eTexts[rng.Intn(len(eTexts))]
				if !et.broken {
					fl.E = et.text
					break
				}
			}
			fl.Rules = ""
			fl.Enable, fl.Disable = eEnable(rng)
		}
		res.Flags = fl

		// expected: the in-process analyzer under the same flags
		setFlag("rules", fl.Rules)
		setFlag("e", fl.E)
		setFlag("enable", fl.Enable)
		setFlag("disable", fl.Disable)
		setFlag("go", fl.Go)
		setFlag("debug-enable-disable", "false")
		setFlag("debug-group", "")
		analyzer.ForceNewEngine = false
		analyzer.VerifResetGlobals()
		for _, pn := range pkgNames {
			p := pkgs[pn]
			diags, _, errStr, panicStr := runPass(p)
			if errStr != "" || panicStr != "" {
				res.Err = "in-process: " + errStr + panicStr
			}
			for _, d := range diags {
				res.Expected = append(res.Expected, fmt.Sprintf("%s: %s", p.fset.Position(tokenPos(d.Pos)), d.Msg))
			}
		}
		sort.Strings(res.Expected)

		// flags at their default value are left off the command line, so that a changed default shows
		args := []string{"-rules", fl.Rules}
		if fl.E != "" {
			args = []string{"-e", fl.E}
		}
		if fl.Enable != "<all>" {
			args = append(args, "-enable", fl.Enable)
		}
		if fl.Disable != "" {
			args = append(args, "-disable", fl.Disable)
		}
		if fl.Go != "" {
			args = append(args, "-go", fl.Go)
		}
		args = append(args, "./...")
		res.Args = args
		cmd := exec.Command(bin, args...)
		cmd.Dir = targetsDir
		env := []string{}
		for _, e := range os.Environ() {
			if !strings.HasPrefix(e, "GOFLAGS=") {
				env = append(env, e)
			}
		}
		cmd.Env = append(env, "GOFLAGS=-mod=mod")
		var stderr bytes.Buffer
		cmd.Stderr = &stderr
		cmd.Stdout = &stderr
		err := cmd.Run()
		if ee, ok := err.(*exec.ExitError); ok {
			res.ExitCode = ee.ExitCode()
		} else if err != nil {
			res.Err += " exec: " + err.Error()
		}
		for _, line := range strings.Split(stderr.String(), "\n") {
			line = strings.TrimRight(line, "\r")
			if line == "" {
				continue
			}
			// diagnostics look like /abs/file.go:LINE:COL: message
			if e2eDiagLine.MatchString(line) {
				res.Observed = append(res.Observed, line)
			} else {
				res.Stderr += line + "\n"
			}
		}
		sort.Strings(res.Observed)
		// the x/tools checker prints identical (position, message) diagnostics once: compare as sets
		res.Expected = dedup(res.Expected)
		res.Observed = dedup(res.Observed)
		if res.Expected == nil {
			res.Expected = []string{}
		}
		if res.Observed == nil {
			res.Observed = []string{}
		}
		enc.Encode(res)
	}
	setFlag("e", "")
}

// /abs/file.go:LINE:COL: message -- positions under a //line directive without a column have no COL
var e2eDiagLine = regexp.MustCompile(`^/[^:]+:\d+(:\d+)?: `)

func dedup(xs []string) []string {
	var out []string
	for i, x := range xs {
		if i == 0 || x != xs[i-1] {
			out = append(out, x)
		}
	}
	return out
}
