// c19: observations for "the go/analysis adapter relays the engine faithfully".
//
// Each scenario fixes one flag combination (-rules/-e/-enable/-disable/-go/-debug-enable-disable), resets the
// adapter's process-wide engine cache (verif hook) and then drives analyzer.Analyzer.Run with hand-built
// analysis.Pass values: a sequence of sequential passes (the rules files on disk are rewritten between passes, so a
// reload would be visible in the messages) followed by a burst of passes from 16 goroutines.
// For the oracle the same rules texts are loaded into a plain ruleguard.Engine (no GroupFilter) and run over the
// same files; the check maps those reports through the Coq model and compares.
// Output: one JSON object per scenario on stdout.
package main

import (
	"encoding/json"
	"flag"
	"fmt"
	"go/ast"
	"go/parser"
	"go/token"
	"go/types"
	"math/rand"
	"os"
	"path/filepath"
	"sort"
	"strings"
	"sync"
	"unsafe"

	"golang.org/x/tools/go/analysis"

	"verif/harness/internal/hutil"

	"github.com/quasilyte/go-ruleguard/analyzer"
	"github.com/quasilyte/go-ruleguard/ruleguard"
)

type Edit struct {
	Pos  int    `json:"pos"`
	End  int    `json:"end"`
	Text string `json:"text"`
}

type Fix struct {
	Msg   string `json:"msg"`
	Edits []Edit `json:"edits"`
}

// Diag is a diagnostic as a go/analysis driver sees it: READ AFTER every pass of the scenario has run (drivers print
// diagnostics and apply fixes after the pass; with the cached engine the later files and packages run on the same pooled
// RunnerState). AtReport is set when what was read inside pass.Report differs from that.
type Diag struct {
	Pos      int    `json:"pos"`
	End      int    `json:"end"`
	Cat      string `json:"cat"`
	Msg      string `json:"msg"`
	Fixes    []Fix  `json:"fixes"`
	NRel     int    `json:"nrel"`
	AtReport *Diag  `json:"at_report,omitempty"`
}

// AliasFinding: two Replacement slices handed out by a directly driven engine share memory, or one of them no longer
// holds the text it held when Report was called.
type AliasFinding struct {
	Kind    string       `json:"kind"` // changed | overlap | state-changes-reports
	Version string       `json:"version"`
	Pkg     string       `json:"pkg"`
	A       DirectReport `json:"a"`
	B       DirectReport `json:"b"`
	PkgB    string       `json:"pkg_b,omitempty"`
	TextNow string       `json:"text_now"`
}

type DirectReport struct {
	Group   string `json:"group"`
	GFile   string `json:"gfile"`
	Line    int    `json:"line"`
	Msg     string `json:"msg"`
	Pos     int    `json:"pos"`
	HasSugg bool   `json:"has_sugg"`
	From    int    `json:"from"`
	To      int    `json:"to"`
	Text    string `json:"text"`
	// ToEOF: the suggestion's range ends at the end of its file (Base+Size: the exclusive end of the last byte)
	ToEOF bool `json:"to_eof,omitempty"`
}

type Step struct {
	Kind       string `json:"kind"` // seq | par
	Pkg        string `json:"pkg"`
	Version    int    `json:"version"` // rules version on disk when the pass started (0 = broken)
	Err        string `json:"err"`
	Panic      string `json:"panic,omitempty"`
	Diags      []Diag `json:"diags"`
	HasEngine  bool   `json:"has_engine"`
	SameEngine bool   `json:"same_engine"` // global engine pointer equals the one seen after the first successful load
	Errored    bool   `json:"errored"`
	Pool       bool   `json:"pool"`
	// the diagnostics as they were handed to pass.Report (the []byte fields still point where the adapter made them point)
	raw []analysis.Diagnostic
}

type Flags struct {
	Rules   string `json:"rules"`
	E       string `json:"e"`
	Enable  string `json:"enable"`
	Disable string `json:"disable"`
	Go      string `json:"go"`
	Debug   bool   `json:"debug"`
	// DebugGroup is -debug-group (engine debug output for one group: must not change any diagnostic);
	// Force is analyzer.ForceNewEngine (the testing switch: the cache is bypassed, every pass loads the rules anew)
	DebugGroup string `json:"debug_group"`
	Force      bool   `json:"force"`
}

type Scenario struct {
	ID          int                                  `json:"id"`
	Flags       Flags                                `json:"flags"`
	GoOK        bool                                 `json:"go_ok"`
	Mode        string                               `json:"mode"` // rules | e | none
	MissingFile bool                                 `json:"missing_file"`
	AllGroups   map[string][]string                  `json:"all_groups"`    // version -> groups of the unfiltered direct engine
	DirectErr   map[string]string                    `json:"direct_err"`    // version -> load error of the direct engine
	Direct      map[string]map[string][]DirectReport `json:"direct"`        // version -> pkg -> reports
	LoadedByVer map[string][]string                  `json:"loaded_groups"` // groups of the adapter's engine, keyed by the version it was loaded from
	Steps       []Step                               `json:"steps"`
	DebugLines  int                                  `json:"debug_lines"`
	NoReset     bool                                 `json:"noreset"`
	// for the model of newEngine's tail: the rules files that exist (in flag order) and which file the direct engine's
	// load error (per version) belongs to
	RuleFiles     []string          `json:"rule_files"`
	DirectErrFile map[string]string `json:"direct_err_file"`
	// -e sweep scenarios: the index of the text in the pool and whether the pool expects it not to load
	ESweep  int  `json:"esweep"` // -1: not a sweep scenario
	EBroken bool `json:"e_broken"`
	// the engine's side of "a []byte is a reference": findings of the direct engine run with one RunnerState for
	// all files (as the adapter's pool does); number of suggestion slices examined
	EngineAlias   []AliasFinding `json:"engine_alias"`
	EngineSlices  int            `json:"engine_slices"`
	LateDiffs     int            `json:"late_diffs"`
	FilesOnState  int            `json:"files_on_state"` // files run by passes of this scenario after the first file that produced a fix
}

type pkgT struct {
	name  string
	fset  *token.FileSet
	files []*ast.File
	info  *types.Info
	pkg   *types.Package
}

var groupPool = []string{"alpha", "beta", "gamma2", "δelta", "_x", "Eps", "zeta", "all", "Mul", "chainA", "chainB", "del", "sz", "pk"}

// groupBody: the rules of one group at message version v. Groups never match the same AST node (the engine
// reports only the first matching rule per node, so only then is "reports of the enabled groups" = "reports of
// an engine that loaded only the enabled groups").
func groupBody(name string, v int) string {
	tag := fmt.Sprintf("%s.v%d", name, v)
	switch name {
	case "alpha":
		return "\tm.Match(`pa1($x)`).Report(`" + tag + " sees $x`)\n"
	case "beta":
		// the report is moved to the argument, the suggestion still replaces the whole call
		return "\tm.Match(`pb1($x)`).Report(`" + tag + " $x`).Suggest(`bar($x)`).At(m[\"x\"])\n"
	case "gamma2":
		return "\tm.Match(`$x + $y`).Report(`" + tag + " sum`).At(m[\"y\"])\n" +
			"\tm.Match(`pg2($x, $y)`).Suggest(`pg2($y, $x)`)\n"
	case "δelta":
		return "\tm.Match(`pd1($x)`).Where(m.GoVersion().GreaterEqThan(\"1.18\")).Report(`" + tag + " new go`)\n"
	case "_x":
		return "\tm.MatchComment(`TODO`).Report(`" + tag + " todo comment`)\n"
	case "Eps":
		return "\tm.Match(`$x == $x`).Report(`" + tag + " self compare`).Suggest(`true`)\n"
	case "zeta":
		return "\tm.Match(`pz1($x)`, `pz2($x, $_)`).Where(m[\"x\"].Const).Report(`" + tag + " const arg \"$x\" (100%)`)\n"
	case "all":
		return "\tm.Match(`return $x`).Report(`" + tag + " ret`)\n"
	// The next three report a CONSTANT text (no group tag, no interpolation) on nodes that share their start
	// position: nested products (one rule, two nodes), and a call chain vs. its leftmost call (two groups).
	case "Mul":
		return "\tm.Match(`$x * $y`).Report(`same text`).Suggest(`mul($x, $y)`)\n"
	case "chainA":
		return "\tm.Match(`legacy($x).then($y)`).Report(`same text`).Suggest(`modern($x, $y)`)\n"
	case "chainB":
		return "\tm.Match(`legacy($x)`).Report(`same text`)\n"
	case "sz":
		// needs RunContext.Sizes
		return "\tm.Match(`psz($x)`).Where(m[\"x\"].Type.Size >= 8).Report(`" + tag + " wide $x`)\n"
	case "pk":
		// needs RunContext.Pkg
		return "\tm.Match(`ppk($x)`).Where(m.File().PkgPath.Matches(`p[abd]$`)).Report(`" + tag + " in package`)\n"
	case "del":
		// a suggestion that renders to the empty text (deletion) when the call has no arguments
		return "\tm.Match(`pdel($*xs)`).Report(`" + tag + " del`).Suggest(`$xs`)\n"
	}
	return ""
}

func rulesText(groups []string, v int, bundlePrefix *string) string {
	var sb strings.Builder
	sb.WriteString("package gorules\n\nimport (\n\t\"github.com/quasilyte/go-ruleguard/dsl\"\n")
	if bundlePrefix != nil {
		sb.WriteString("\tc19b \"example.com/c19b\"\n")
	}
	sb.WriteString(")\n\n")
	if bundlePrefix != nil {
		fmt.Fprintf(&sb, "func init() {\n\tdsl.ImportRules(%q, c19b.Bundle)\n}\n\n", *bundlePrefix)
	}
	for _, g := range groups {
		fmt.Fprintf(&sb, "func %s(m dsl.Matcher) {\n%s}\n\n", g, groupBody(g, v))
	}
	return sb.String()
}

const decls = `
func pa1(args ...interface{}) {}
func pb1(x interface{}) interface{} { return x }
func pg2(a, b interface{})   {}
func pd1(x int) int          { return x }
func pz1(x interface{})      {}
func pz2(x, y interface{})   {}
func pdel(args ...int)       {}
func pbn1(x interface{})     {}
func psz(x interface{})      {}
func ppk(x interface{})      {}
func pbn2(x interface{})     {}
func pfmt(f string, args ...interface{}) string { return f }

type chain struct{}

func legacy(x int) chain        { return chain{} }
func (c chain) then(y int) chain { return c }
`

var targets = map[string][]string{
	"pa": {`package pa
` + decls + `
// TODO: first
func f(a, b int) int {
	pa1(1)
	pa1("s")
	pg2("s", a)
	pb1(2)
	_ = pd1(3) + pd1(b)
	pz1(7)
	pz1(a)
	pz2("k", b)
	_ = a * b * 3
	pdel()
	pdel(1, b)
	pbn1(a)
	pbn2("two")
	psz(int64(a))
	psz(int8(a))
	psz("str")
	ppk(a)
	_ = pd1(a % b)
	_ = pd1(a%7) % pd1(b)
	b %= 5
	pfmt("%d items", a)
	pfmt("%d items", b, a)
	pfmt("%%", a)
	pfmt("%", b)
	pfmt("100%", a)
	pfmt("%s=%v", "k", b)
	pfmt("%q and %[1]T", a)
	pfmt("no verb", a)
	legacy(1).then(2)
	legacy(a).then(b).then(5)
	if a == a {
		return pd1(a + b)
	}
	return 0
}
`},
	"pb": {`package pb
` + decls + `
func g(s string) string {
	pa1(s)
	/* TODO block */
	pa1(s + "x")
	pb1(s + s)
	pfmt("%d items", len(s))
	pfmt("%5.2f%%", len(s)%3)
	return s + s
}
`, `package pb

func h() bool {
//line view.tmpl:100
	pb1("lit")
	pg2(pb1("q"), 2)
	pz1("c")
	pd1(4)
	pbn2(pbn1)
	legacy(pd1(2) * 3 * pd1(4)).then(0)
	return "a" == "a"
}
`},
	"pc": {`package pc

func nothing() {}
`},
	// three files of one package, run one after the other on one runner state: every file has matches of every rule
	// that suggests, the replacement texts get shorter from file to file (the empty text included), so that whatever
	// the engine keeps between files is reused rather than outgrown
	"pe": {`package pe
` + decls + `
func long(a, b int, s string) bool {
	pb1("a rather long argument, longer than anything the later files pass on")
	pg2("the left operand, a long text", "the right operand, another long text")
	_ = (a + 1000000) * (b + 2000000) * 3000000
	pdel(1000001, 1000002, 1000003, 1000004, 1000005, 1000006)
	legacy(1234567890).then(987654321)
	pz1(1234567890123)
	return "a rather long string literal" == "a rather long string literal"
}
`, `package pe

func medium(a, b int) bool {
	pb1("medium argument")
	pg2("left", "right text")
	_ = a * (b + 20) * 30
	pdel(11, 12, 13)
	legacy(12345).then(54321)
	return "medium" == "medium"
}
`, `package pe

func short(a, b int) bool {
	pdel()
	pb1(2)
	pg2(1, 2)
	_ = a * b
	pdel(1)
	legacy(1).then(2)
	pb1(a)
	return a == a
}
`},
	// the ends of files: none of these files ends with a newline and the last token of each belongs to a node that gets a
	// suggestion (a comparison, a product inside a product, a call whose report is moved to its argument, a call chain,
	// a call in the last statement position is impossible: a file ends with a declaration), so the exclusive end of the
	// edit is the end-of-file position Base+Size -- a legal position that no byte of the file has. The first and the
	// middle files are followed by another file of the FileSet (the position after their end belongs to nobody), the
	// last one ends the FileSet; one file ends with a comment instead (the last node that gets a fix ends before it), one
	// ends with a comment a rule reports, one is a single line.
	"pf": {`package pf
` + decls + `
var _ = pd1(1)

var first = "eof" == "eof"`, `package pf

var second = 2 * 3 * 4`, `package pf

var third = pb1(3)`, `package pf

var fourth = legacy(4).then(44)`, `package pf

var fifth = pb1(5 * 55) // trailing`, `package pf

var sixth = "six" == "six" // TODO last`, `package pf; var seventh = pb1(7) == pb1(7)`, `package pf

func eighth(a int) bool {
	pdel(a)
	return a == a
}

var ninth = [...]bool{8 == 8, (9 * 9) == (9 * 9)}[1 * 1]

var last = [2]int{1 * 2, 3 * 4}[0] * 5 * (6 * 7)`},
	// generated code: a //line directive before the package clause makes every position of the file name a non-Go file
	"pd": {`//line gen.y:10
package pd
` + decls + `
func y(a int) int {
	ppk(a)
	psz(a)
	pa1(a)
	pb1(a + 1)
	return a * 2 * a
}
`},
}

func buildPkg(tmp, name string) (*pkgT, error) {
	fset := token.NewFileSet()
	p := &pkgT{name: name, fset: fset, info: hutil.NewInfo()}
	for i, src := range targets[name] {
		path := filepath.Join(tmp, "targets", name, fmt.Sprintf("f%d.go", i))
		if err := os.MkdirAll(filepath.Dir(path), 0o755); err != nil {
			return nil, err
		}
		if err := os.WriteFile(path, []byte(src), 0o644); err != nil {
			return nil, err
		}
		f, err := parser.ParseFile(fset, path, []byte(src), parser.ParseComments)
		if err != nil {
			return nil, err
		}
		p.files = append(p.files, f)
	}
	conf := types.Config{Error: func(error) {}}
	pkg, err := conf.Check(name, fset, p.files, p.info)
	if err != nil {
		return nil, err
	}
	p.pkg = pkg
	return p, nil
}

func (p *pkgT) off(pos token.Pos) int {
	if !pos.IsValid() {
		return -1
	}
	// offsets are made unique across the files of a package by using the raw token.Pos (one FileSet per package)
	return int(pos)
}

func convDiag(p *pkgT, d analysis.Diagnostic) Diag {
	out := Diag{Pos: p.off(d.Pos), End: p.off(d.End), Cat: d.Category, Msg: d.Message, NRel: len(d.Related)}
	for _, fx := range d.SuggestedFixes {
		f := Fix{Msg: fx.Message}
		for _, te := range fx.TextEdits {
			f.Edits = append(f.Edits, Edit{Pos: p.off(te.Pos), End: p.off(te.End), Text: string(te.NewText)})
		}
		out.Fixes = append(out.Fixes, f)
	}
	return out
}

func sameDiag(a, b Diag) bool {
	x, _ := json.Marshal(a)
	y, _ := json.Marshal(b)
	return string(x) == string(y)
}

// runPass drives one pass. diags: what pass.Report saw at the time of the call; raw: the values themselves, to be read
// again by finalizeStep once everything that shares the pooled runner state has run.
func runPass(p *pkgT) (diags []Diag, raw []analysis.Diagnostic, errStr, panicStr string) {
	var mu sync.Mutex
	pass := &analysis.Pass{
		Analyzer:   analyzer.Analyzer,
		Fset:       p.fset,
		Files:      p.files,
		Pkg:        p.pkg,
		TypesInfo:  p.info,
		TypesSizes: types.SizesFor("gc", "amd64"),
		Report: func(d analysis.Diagnostic) {
			out := convDiag(p, d)
			mu.Lock()
			diags = append(diags, out)
			raw = append(raw, d)
			mu.Unlock()
		},
	}
	func() {
		defer func() {
			if r := recover(); r != nil {
				panicStr = fmt.Sprint(r)
			}
		}()
		res, err := analyzer.Analyzer.Run(pass)
		if err != nil {
			errStr = err.Error()
		}
		if res != nil {
			panicStr = "non-nil result"
		}
	}()
	return
}

// finalizeStep reads the kept diagnostics the way a driver does, after the fact.
func finalizeStep(p *pkgT, st *Step) (diffs int) {
	for i := range st.raw {
		late := convDiag(p, st.raw[i])
		if !sameDiag(late, st.Diags[i]) {
			early := st.Diags[i]
			late.AtReport = &early
			diffs++
		}
		st.Diags[i] = late
	}
	return diffs
}

// keptSlice: a Replacement slice exactly as the engine handed it to Report, and what it held then
type keptSlice struct {
	b    []byte
	text string
	pkg  string
	rep  DirectReport
}

func directRun(e *ruleguard.Engine, p *pkgT, goVersion string, state *ruleguard.RunnerState, keep *[]keptSlice) ([]DirectReport, string) {
	var out []DirectReport
	gv, err := ruleguard.ParseGoVersion(goVersion)
	if err != nil {
		return nil, ""
	}
	ctx := &ruleguard.RunContext{
		Pkg: p.pkg, Types: p.info, Sizes: types.SizesFor("gc", "amd64"), Fset: p.fset, GoVersion: gv,
		State: state,
		Report: func(data *ruleguard.ReportData) {
			r := DirectReport{Msg: data.Message, Line: data.RuleInfo.Line, Pos: p.off(data.Node.Pos())}
			if data.RuleInfo.Group != nil {
				r.Group = data.RuleInfo.Group.Name
				r.GFile = data.RuleInfo.Group.Filename
			}
			if data.Suggestion != nil {
				r.HasSugg = true
				r.From = p.off(data.Suggestion.From)
				r.To = p.off(data.Suggestion.To)
				r.Text = string(data.Suggestion.Replacement)
				if tf := p.fset.File(data.Suggestion.From); tf != nil && int(data.Suggestion.To) == tf.Base()+tf.Size() {
					r.ToEOF = true
				}
				if keep != nil {
					*keep = append(*keep, keptSlice{b: data.Suggestion.Replacement, text: r.Text, pkg: p.name, rep: r})
				}
			}
			out = append(out, r)
		},
	}
	for _, f := range p.files {
		if err := e.Run(ctx, f); err != nil {
			return out, err.Error()
		}
	}
	return out, ""
}

// aliasFindings: no kept slice may have changed, and no two of them may share memory (capacity included: whoever
// appends to one of them must not write into another).
func aliasFindings(version string, kept []keptSlice) []AliasFinding {
	var out []AliasFinding
	for _, k := range kept {
		if string(k.b) != k.text {
			out = append(out, AliasFinding{Kind: "changed", Version: version, Pkg: k.pkg, A: k.rep, TextNow: string(k.b)})
		}
	}
	type ext struct {
		lo, hi uintptr
		i      int
	}
	var exts []ext
	for i, k := range kept {
		if cap(k.b) == 0 {
			continue
		}
		lo := uintptr(unsafe.Pointer(unsafe.SliceData(k.b)))
		exts = append(exts, ext{lo, lo + uintptr(cap(k.b)), i})
	}
	sort.Slice(exts, func(i, j int) bool { return exts[i].lo < exts[j].lo })
	for i := 1; i < len(exts); i++ {
		if exts[i].lo < exts[i-1].hi {
			a, b := kept[exts[i-1].i], kept[exts[i].i]
			out = append(out, AliasFinding{Kind: "overlap", Version: version, Pkg: a.pkg, A: a.rep, PkgB: b.pkg, B: b.rep, TextNow: string(a.b)})
		}
	}
	if len(out) > 6 {
		out = out[:6]
	}
	return out
}

func setFlag(name, val string) {
	if err := analyzer.Analyzer.Flags.Set(name, val); err != nil {
		fmt.Fprintln(os.Stderr, "flag", name, err)
		os.Exit(3)
	}
}

var spaceVariants = []string{"", " ", "  ", "\t", " \t ", "\n", "\u00a0", "\u2003 ", "\u0085", "\v\f\r"}

func decorate(rng *rand.Rand, s string) string {
	return spaceVariants[rng.Intn(len(spaceVariants))] + s + spaceVariants[rng.Intn(len(spaceVariants))]
}

func pick(rng *rand.Rand, xs []string) string { return xs[rng.Intn(len(xs))] }

// nameList renders a random -enable / -disable value over the given group names.
func nameList(rng *rand.Rand, groups []string, forEnable bool) string {
	switch rng.Intn(20) {
	case 0, 1, 2, 3, 4, 5:
		if forEnable {
			return "<all>"
		}
		return ""
	case 6:
		return ""
	case 7, 8:
		if forEnable {
			return pick(rng, []string{" <all>", "<all> ", "<all>,alpha", "<ALL>", "<all>,", ",<all>", "<all>,<all>"})
		}
		return pick(rng, []string{",", " , ", "<all>", " "})
	}
	n := rng.Intn(5) + 1
	var parts []string
	for i := 0; i < n; i++ {
		var name string
		switch rng.Intn(10) {
		case 0:
			name = pick(rng, []string{"unknown", "x/alpha", "δ", "<all>", "beta\x00"})
		case 2:
			// a near miss of one of the scenario's own groups
			g := pick(rng, groups)
			if k := strings.LastIndex(g, "/"); k >= 0 && rng.Intn(2) == 0 {
				// a bundle group named without, or with another, prefix
				name = pick(rng, []string{g[k+1:], "/" + g[k+1:], "core2/" + g[k+1:], g[:k]})
				break
			}
			rs := []rune(g)
			switch rng.Intn(6) {
			case 0:
				name = strings.ToUpper(string(rs[:1])) + string(rs[1:])
				if name == g {
					name = strings.ToLower(string(rs[:1])) + string(rs[1:])
				}
			case 1:
				name = string(rs[:len(rs)-1])
			case 2:
				name = g + string(rs[len(rs)-1:])
			case 3:
				name = string(rs[:1]) + " " + string(rs[1:])
			default:
				name = strings.ToUpper(g)
				if rng.Intn(2) == 0 && strings.ToLower(g) != g {
					name = strings.ToLower(g)
				}
			}
		case 1:
			name = ""
		default:
			name = pick(rng, groups)
		}
		if rng.Intn(2) == 0 {
			name = decorate(rng, name)
		}
		parts = append(parts, name)
	}
	return strings.Join(parts, ",")
}

func main() {
	n := flag.Int("n", 40, "scenarios")
	seed := flag.Int64("seed", 1, "PRNG seed")
	tmp := flag.String("tmp", "", "scratch directory")
	noreset := flag.Bool("noreset", false, "do not call the reset hook (single scenario on a pristine process)")
	first := flag.Int("first", 0, "id of the first scenario (the PRNG stream is per id)")
	par := flag.Int("par", 16, "goroutines in the parallel burst")
	e2eBin := flag.String("e2e", "", "path of a built cmd/ruleguard binary: run end-to-end scenarios after the in-process ones")
	e2eN := flag.Int("e2en", 3, "number of end-to-end scenarios")
	fakeDir := flag.String("fakedir", "", "directory of the harness fake modules")
	repoSum := flag.String("reposum", "", "go.sum of the repository")
	esweep := flag.Bool("esweep", false, "scenario number k of the run loads the k-th -e text of the pool (short histories)")
	flag.IntVar(&eSweepLen, "esweeplen", 0, "print the size of the -e pool and exit")
	flag.Parse()
	if eSweepLen != 0 {
		fmt.Println(len(eTexts))
		return
	}
	if *tmp == "" {
		fmt.Fprintln(os.Stderr, "need -tmp")
		os.Exit(3)
	}
	enc := json.NewEncoder(os.Stdout)
	pkgs := map[string]*pkgT{}
	var pkgNames []string
	for name := range targets {
		pkgNames = append(pkgNames, name)
	}
	sort.Strings(pkgNames)
	for _, name := range pkgNames {
		p, err := buildPkg(*tmp, name)
		if err != nil {
			fmt.Fprintln(os.Stderr, "target", name, err)
			os.Exit(3)
		}
		pkgs[name] = p
	}
	realStderr := os.Stderr
	for id := *first; id < *first+*n; id++ {
		rng := rand.New(rand.NewSource(*seed*7919 + int64(id)))
		sc := Scenario{ID: id, NoReset: *noreset, AllGroups: map[string][]string{}, DirectErr: map[string]string{},
			Direct: map[string]map[string][]DirectReport{}, LoadedByVer: map[string][]string{},
			DirectErrFile: map[string]string{}, ESweep: -1}
		dir := filepath.Join(*tmp, fmt.Sprintf("sc%d", id))
		os.MkdirAll(dir, 0o755)

		// ---- choose groups and split them over one or two rules files
		perm := rng.Perm(len(groupPool))
		ng := 2 + rng.Intn(len(groupPool)-1)
		var groups []string
		for _, i := range perm[:ng] {
			groups = append(groups, groupPool[i])
		}
		nfiles := 1 + rng.Intn(2)
		fileGroups := make([][]string, nfiles)
		for i, g := range groups {
			fileGroups[i%nfiles] = append(fileGroups[i%nfiles], g)
		}
		var fileNames []string
		// the base name of a rules file is part of every decorated message: names that would mean something to a
		// format / a template / a shell
		nameStyle := rng.Intn(4)
		for i := range fileGroups {
			base := fmt.Sprintf("rules%d.go", i)
			switch nameStyle {
			case 1:
				base = fmt.Sprintf("r%%d%%%%s-%d.go", i)
			case 2:
				base = fmt.Sprintf("100%%_{{.}}$x-%d.go", i)
			}
			fileNames = append(fileNames, filepath.Join(dir, base))
		}
		// one scenario in three imports a rule bundle under some prefix: its groups are named prefix/name
		var bundlePrefix *string
		if rng.Intn(3) == 0 {
			p := pick(rng, []string{"core", "core", "", "a.b", "x"})
			bundlePrefix = &p
			for _, bg := range []string{"bg1", "bg2"} {
				if p == "" {
					groups = append(groups, bg)
				} else {
					groups = append(groups, p+"/"+bg)
				}
			}
		}
		writeRules := func(v int) {
			for i, fn := range fileNames {
				var bp *string
				if i == 0 {
					bp = bundlePrefix
				}
				txt := rulesText(fileGroups[i], v, bp)
				if v == 0 && i == len(fileNames)-1 {
					txt = "package gorules\n\nfunc broken(m dsl.Matcher) { m.Match(`f(` }\n"
				}
				os.WriteFile(fn, []byte(txt), 0o644)
			}
		}

		// ---- flags
		mode := "rules"
		switch rng.Intn(12) {
		case 0:
			mode = "e"
		case 1:
			mode = "none"
		case 2:
			mode = "rules+e"
		}
		if *esweep {
			mode = "e"
		}
		sc.Mode = mode
		fl := Flags{Enable: nameList(rng, groups, true), Disable: nameList(rng, groups, false)}
		// one scenario in four: an explicit -enable list and a -disable list that names some of the same groups
		if rng.Intn(4) == 0 {
			var en, dis []string
			for _, g := range groups {
				if rng.Intn(3) != 0 {
					e := g
					if rng.Intn(3) == 0 {
						e = decorate(rng, e)
					}
					en = append(en, e)
					if rng.Intn(2) == 0 {
						d := g
						if rng.Intn(3) == 0 {
							d = decorate(rng, d)
						}
						dis = append(dis, d)
					}
				}
			}
			if len(en) > 0 {
				fl.Enable = strings.Join(en, ",")
				fl.Disable = strings.Join(dis, ",")
			}
		}
		fl.Go = pick(rng, []string{"", "", "", "", "", "1.16", "1.17", "1.18", "1.22", "1.20", "1.18", "", pick(rng, []string{"go1.5", "1", "abc"})})
		fl.Debug = rng.Intn(2) == 0
		if rng.Intn(6) == 0 {
			fl.DebugGroup = pick(rng, append([]string{"nosuchgroup"}, groups...))
		}
		fl.Force = rng.Intn(10) == 0
		if mode == "rules" || mode == "rules+e" {
			var parts []string
			for _, fn := range fileNames {
				if rng.Intn(3) == 0 {
					fn = decorate(rng, fn)
				}
				parts = append(parts, fn)
			}
			fl.Rules = strings.Join(parts, ",")
			if rng.Intn(14) == 0 {
				sc.MissingFile = true
				fl.Rules += "," + filepath.Join(dir, "missing.go")
			}
		}
		if mode == "rules" || mode == "rules+e" {
			sc.RuleFiles = append([]string{}, fileNames...)
		}
		et := eTexts[rng.Intn(len(eTexts))]
		if *esweep {
			sc.ESweep = (id - eSweepBase + len(eTexts)*eSweepBase) % len(eTexts)
			et = eTexts[sc.ESweep]
			fl.Enable, fl.Disable = eEnable(rng)
			fl.Force = false
			fl.Go = pick(rng, []string{"", "", "1.18", "1.21"})
		}
		if et.broken && (mode == "e" || mode == "rules+e") {
			// a group that is filtered out is not compiled: whether its pattern parses would go unnoticed
			fl.Enable, fl.Disable = "<all>", ""
		}
		eRule := et.text
		if mode == "e" || mode == "rules+e" {
			fl.E = eRule
			sc.EBroken = et.broken
		}
		sc.Flags = fl
		_, gerr := ruleguard.ParseGoVersion(fl.Go)
		sc.GoOK = gerr == nil

		// ---- direct engines (oracle side), one per rules version
		startBroken := (mode == "rules" || mode == "rules+e") && rng.Intn(4) == 0
		for v := 0; v <= 2; v++ {
			key := fmt.Sprint(v)
			writeRules(v)
			e := ruleguard.NewEngine()
			e.InferBuildContext()
			lctx := &ruleguard.LoadContext{Fset: token.NewFileSet()}
			var lerr error
			switch mode {
			case "rules", "rules+e":
				for _, fn := range fileNames {
					data, err := os.ReadFile(fn)
					if err != nil {
						lerr = err
						break
					}
					if err := e.Load(lctx, fn, strings.NewReader(string(data))); err != nil {
						lerr = err
						sc.DirectErrFile[key] = fn
						break
					}
				}
			case "e":
				// hand-written equivalent of the adapter's -e template (group name `e`, file name `e`)
				txt := "package gorules\nimport \"github.com/quasilyte/go-ruleguard/dsl\"\nfunc e(m dsl.Matcher) {\n" + eRule + ".Report(\"$$\")\n}\n"
				lerr = e.Load(lctx, "e", strings.NewReader(txt))
				if lerr != nil {
					sc.DirectErrFile[key] = "e"
				}
			case "none":
				lerr = fmt.Errorf("no rules")
			}
			if lerr != nil {
				sc.DirectErr[key] = lerr.Error()
				continue
			}
			for _, g := range e.LoadedGroups() {
				sc.AllGroups[key] = append(sc.AllGroups[key], g.Name)
			}
			sc.Direct[key] = map[string][]DirectReport{}
			var kept []keptSlice
			for _, pn := range pkgNames {
				reps, rerr := directRun(e, pkgs[pn], fl.Go, nil, &kept)
				if rerr != "" {
					sc.DirectErr[key+"/"+pn] = rerr
				}
				sc.Direct[key][pn] = reps
			}
			// once more with ONE runner state for every file of every package (what the adapter's pool amounts to): the
			// reports must be the same, and every Replacement ever handed out must still be what it was
			rstate := ruleguard.NewRunnerState(e)
			for _, pn := range pkgNames {
				reps, _ := directRun(e, pkgs[pn], fl.Go, rstate, &kept)
				a, _ := json.Marshal(reps)
				b, _ := json.Marshal(sc.Direct[key][pn])
				if string(a) != string(b) {
					f := AliasFinding{Kind: "state-changes-reports", Version: key, Pkg: pn}
					for i := range reps {
						if i >= len(sc.Direct[key][pn]) || reps[i] != sc.Direct[key][pn][i] {
							f.A = reps[i]
							if i < len(sc.Direct[key][pn]) {
								f.B = sc.Direct[key][pn][i]
							}
							break
						}
					}
					sc.EngineAlias = append(sc.EngineAlias, f)
				}
			}
			sc.EngineSlices += len(kept)
			sc.EngineAlias = append(sc.EngineAlias, aliasFindings(key, kept)...)
		}

		// ---- adapter side
		setFlag("rules", fl.Rules)
		setFlag("e", fl.E)
		setFlag("enable", fl.Enable)
		setFlag("disable", fl.Disable)
		setFlag("go", fl.Go)
		setFlag("debug-enable-disable", fmt.Sprint(fl.Debug))
		setFlag("debug-group", fl.DebugGroup)
		analyzer.ForceNewEngine = fl.Force
		if !*noreset {
			analyzer.VerifResetGlobals()
		}
		errPath := filepath.Join(dir, "stderr.txt")
		errFile, _ := os.Create(errPath)
		os.Stderr = errFile

		var firstEngine *ruleguard.Engine
		observe := func(st *Step) {
			e, errored, pool := analyzer.VerifGlobals()
			st.HasEngine = e != nil
			st.Errored = errored
			st.Pool = pool
			if e != nil && firstEngine == nil {
				firstEngine = e
				var names []string
				for _, g := range e.LoadedGroups() {
					names = append(names, g.Name)
				}
				if names == nil {
					names = []string{}
				}
				sc.LoadedByVer[fmt.Sprint(st.Version)] = names
			}
			st.SameEngine = e != nil && e == firstEngine
		}

		version := 1
		if startBroken {
			version = 0
		}
		nseq := 2 + rng.Intn(4)
		parFirst := rng.Intn(4) == 0 // parallel burst on a cold cache
		if *esweep {
			// every package once
			nseq = len(pkgNames)
		}
		doPar := func() {
			writeRules(version)
			np := *par
			steps := make([]Step, np)
			var wg sync.WaitGroup
			start := make(chan struct{})
			for i := 0; i < np; i++ {
				steps[i] = Step{Kind: "par", Pkg: pkgNames[(i+id)%len(pkgNames)], Version: version}
				wg.Add(1)
				go func(st *Step) {
					defer wg.Done()
					<-start
					st.Diags, st.raw, st.Err, st.Panic = runPass(pkgs[st.Pkg])
				}(&steps[i])
			}
			close(start)
			wg.Wait()
			for i := range steps {
				observe(&steps[i])
			}
			sc.Steps = append(sc.Steps, steps...)
		}
		if parFirst {
			doPar()
		}
		for i := 0; i < nseq; i++ {
			writeRules(version)
			st := Step{Kind: "seq", Pkg: pkgNames[rng.Intn(len(pkgNames))], Version: version}
			if *esweep {
				st.Pkg = pkgNames[i%len(pkgNames)]
			}
			st.Diags, st.raw, st.Err, st.Panic = runPass(pkgs[st.Pkg])
			observe(&st)
			sc.Steps = append(sc.Steps, st)
			// the rules on disk change after every pass: 0 -> 1 -> 2 -> 1 ...
			switch version {
			case 0:
				version = 1
			case 1:
				version = 2
			default:
				version = 1
			}
		}
		if !parFirst {
			doPar()
		}
		os.Stderr = realStderr
		errFile.Close()
		analyzer.ForceNewEngine = false
		setFlag("debug-group", "")
		if data, err := os.ReadFile(errPath); err == nil {
			for _, line := range strings.Split(string(data), "\n") {
				if strings.HasPrefix(line, "(+) ") || strings.HasPrefix(line, "(-) ") {
					sc.DebugLines++
				}
			}
		}
		// every pass of the scenario has run (all of them on the runner states of one pool): now read the diagnostics
		seenFix := false
		for i := range sc.Steps {
			st := &sc.Steps[i]
			if seenFix {
				sc.FilesOnState += len(pkgs[st.Pkg].files)
			}
			for _, d := range st.Diags {
				if len(d.Fixes) > 0 {
					seenFix = true
				}
			}
			sc.LateDiffs += finalizeStep(pkgs[st.Pkg], st)
			if st.Diags == nil {
				st.Diags = []Diag{}
			}
		}
		if sc.EngineAlias == nil {
			sc.EngineAlias = []AliasFinding{}
		}
		enc.Encode(sc)
	}
	if *e2eBin != "" {
		runE2E(*e2eBin, *tmp, *fakeDir, *repoSum, *seed, *e2eN, pkgs, pkgNames, enc)
	}
}

func tokenPos(i int) token.Pos { return token.Pos(i) }

var eSweepLen int

// scenario eSweepBase+k of an -esweep run loads the k-th text of the pool
const eSweepBase = 5000

